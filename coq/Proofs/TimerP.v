(* TimerP.v — proofs about the timeout model (Timer.v) and its specification (TimerSpec.v).
   Central invariant: the pending timers are exactly the outstanding timeouts —
     every pending timer belongs to the state its model is in now, is the one registered in that
     state's runner dictionary under that model, and is not overdue;
   and the checker of TimerSpec, run along the trace, knows for every model its state and the
   deadline of its pending timer (if any). *)
From Coq Require Import List Arith Bool Lia.
From M Require Import Timer TimerSpec.
Import ListNotations.

(* ----------------------------------------------------------------- lists *)
Lemma nth_error_upd_nth_same : forall l i f,
  nth_error (upd_nth l i f) i = option_map f (nth_error l i).
Proof.
  induction l as [|x r IH]; intros [|i] f; simpl; try reflexivity. apply IH.
Qed.
Lemma nth_error_upd_nth_other : forall l i j f, j <> i ->
  nth_error (upd_nth l i f) j = nth_error l j.
Proof.
  induction l as [|x r IH]; intros [|i] [|j] f H; simpl; try reflexivity; try lia.
  apply IH. lia.
Qed.
Lemma length_upd_nth : forall l i f, length (upd_nth l i f) = length l.
Proof. induction l as [|x r IH]; intros [|i] f; simpl; auto. Qed.

Lemma upd_same {A} (f : nat -> A) k v : upd f k v k = v.
Proof. unfold upd. now rewrite Nat.eqb_refl. Qed.
Lemma upd_other {A} (f : nat -> A) k v x : x <> k -> upd f k v x = f x.
Proof. intros H. unfold upd. destruct (Nat.eqb_spec x k); [contradiction|reflexivity]. Qed.
Lemma upd2_same {A} (f : nat -> nat -> A) a b v : upd2 f a b v a b = v.
Proof. unfold upd2. now rewrite !Nat.eqb_refl. Qed.
Lemma upd2_other {A} (f : nat -> nat -> A) a b v x y : (x <> a \/ y <> b) -> upd2 f a b v x y = f x y.
Proof.
  intros H. unfold upd2. destruct (Nat.eqb_spec x a); destruct (Nat.eqb_spec y b); simpl; try reflexivity.
  destruct H; contradiction.
Qed.

(* ----------------------------------------------------------------- pending timers, invariant *)
Definition pend (w : world) (i : nat) (tm : timer) : Prop :=
  nth_error (w_timers w) i = Some tm /\ is_pending tm = true.

(* the deadline of the pending timer registered for m in the state m is in *)
Definition armed (w : world) (m : tmodel) : option nat :=
  match w_runner w (w_st w m) m with
  | Some i => match nth_error (w_timers w) i with
              | Some tm => if is_pending tm then Some (tm_deadline tm) else None
              | None => None
              end
  | None => None
  end.

Definition not_overdue (strict : bool) (w : world) (tm : timer) : Prop :=
  if strict then w_clock w < tm_deadline tm else w_clock w <= tm_deadline tm.

Record Inv (strict : bool) (w : world) : Prop := mkInv {
  inv_slot : forall s m i, w_runner w s m = Some i ->
             exists tm, nth_error (w_timers w) i = Some tm /\ tm_state tm = s /\ tm_model tm = m;
  inv_pend : forall i tm, pend w i tm ->
             w_st w (tm_model tm) = tm_state tm /\ w_runner w (tm_state tm) (tm_model tm) = Some i;
  inv_time : forall i tm, pend w i tm -> not_overdue strict w tm
}.

Lemma armed_pend : forall b w m dl, Inv b w -> armed w m = Some dl ->
  exists i tm, pend w i tm /\ tm_model tm = m /\ tm_state tm = w_st w m /\ tm_deadline tm = dl /\
               w_runner w (w_st w m) m = Some i.
Proof.
  intros b w m dl I H. unfold armed in H.
  destruct (w_runner w (w_st w m) m) as [i|] eqn:Hr; [|discriminate].
  destruct (nth_error (w_timers w) i) as [tm|] eqn:Hn; [|discriminate].
  destruct (is_pending tm) eqn:Hp; [|discriminate]. inversion H; subst.
  destruct (inv_slot _ _ I _ _ _ Hr) as (tm' & Hn' & Hs & Hm). rewrite Hn in Hn'. inversion Hn'; subst tm'.
  exists i, tm. repeat split; auto.
Qed.

Lemma pend_armed : forall b w i tm, Inv b w -> pend w i tm -> armed w (tm_model tm) = Some (tm_deadline tm).
Proof.
  intros b w i tm I P. destruct (inv_pend _ _ I _ _ P) as [Hs Hr]. destruct P as [Hn Hp].
  unfold armed. rewrite Hs, Hr, Hn, Hp. reflexivity.
Qed.

(* no timer creation, no resurrection: what is pending afterwards was pending before or is not yet due *)
Definition nonew (w w' : world) : Prop :=
  w_clock w' = w_clock w /\
  forall j tm, pend w' j tm -> pend w j tm \/ w_clock w < tm_deadline tm.
Lemma nonew_refl w : nonew w w.
Proof. split; auto. Qed.
Lemma nonew_trans w1 w2 w3 : nonew w1 w2 -> nonew w2 w3 -> nonew w1 w3.
Proof.
  intros [C1 H1] [C2 H2]. split; [congruence|]. intros j tm P.
  destruct (H2 _ _ P) as [Q|Q]; [apply H1, Q | right; lia].
Qed.

(* ----------------------------------------------------------------- status updates of one timer *)
Definition keeps_fields (f : timer -> timer) : Prop :=
  forall t, tm_state (f t) = tm_state t /\ tm_model (f t) = tm_model t /\ tm_deadline (f t) = tm_deadline t.
(* f never makes a timer pending and leaves... a timer that is pending afterwards untouched *)
Definition no_revive (f : timer -> timer) : Prop := forall t, is_pending (f t) = true -> f t = t.

Lemma kf_cancel : keeps_fields cancel_if_alive.
Proof. intros [s m d st]; unfold cancel_if_alive, cancel, is_alive; destruct st; simpl; auto. Qed.
Lemma nr_cancel : no_revive cancel_if_alive.
Proof. intros [s m d st]; unfold cancel_if_alive, cancel, is_alive, is_pending; destruct st; simpl; intros; auto; discriminate. Qed.
Lemma kf_start : keeps_fields start_running.
Proof. intros [s m d st]; simpl; auto. Qed.
Lemma nr_start : no_revive start_running.
Proof. intros [s m d st]; unfold is_pending; simpl; discriminate. Qed.
Lemma kf_finish : keeps_fields finish.
Proof. intros [s m d st]; unfold finish; destruct st; simpl; auto. Qed.
Lemma nr_finish : no_revive finish.
Proof. intros [s m d st]; unfold finish, is_pending; destruct st; simpl; intros; auto; discriminate. Qed.
Lemma cancel_not_pending t : is_pending (cancel_if_alive t) = false.
Proof. destruct t as [s m d st]; unfold cancel_if_alive, cancel, is_alive, is_pending; destruct st; reflexivity. Qed.
Lemma start_not_pending t : is_pending (start_running t) = false.
Proof. reflexivity. Qed.
Lemma finish_pending t : is_pending (finish t) = is_pending t.
Proof. destruct t as [s m d st]; unfold finish, is_pending; destruct st; reflexivity. Qed.

Section Upd.
  Variable w : world.
  Variable i : nat.
  Variable f : timer -> timer.
  Hypothesis KF : keeps_fields f.
  Hypothesis NR : no_revive f.
  Let w' := set_timers w (upd_nth (w_timers w) i f).

  Lemma upd_pend : forall j tm, pend w' j tm -> pend w j tm.
  Proof.
    intros j tm [Hn Hp]. unfold w' in Hn; simpl in Hn.
    destruct (Nat.eq_dec j i) as [->|Hne].
    - rewrite nth_error_upd_nth_same in Hn. destruct (nth_error (w_timers w) i) as [t0|] eqn:H0; [|discriminate].
      simpl in Hn. inversion Hn; subst tm. pose proof (NR _ Hp) as Hf. rewrite Hf in Hp. rewrite Hf.
      split; [exact H0|exact Hp].
    - rewrite nth_error_upd_nth_other in Hn by auto. split; auto.
  Qed.

  Lemma upd_inv : forall b, Inv b w -> Inv b w'.
  Proof.
    intros b I. constructor.
    - intros s m j Hr. unfold w' in *; simpl in *.
      destruct (inv_slot _ _ I _ _ _ Hr) as (tm & Hn & Hs & Hm).
      destruct (Nat.eq_dec j i) as [->|Hne].
      + exists (f tm). rewrite nth_error_upd_nth_same, Hn. simpl. destruct (KF tm) as (A & B & _).
        repeat split; congruence.
      + exists tm. rewrite nth_error_upd_nth_other by auto. auto.
    - intros j tm P. apply upd_pend in P. exact (inv_pend _ _ I _ _ P).
    - intros j tm P. apply upd_pend in P. exact (inv_time _ _ I _ _ P).
  Qed.

  Lemma upd_nonew : nonew w w'.
  Proof. split; [reflexivity|]. intros j tm P. left. now apply upd_pend. Qed.

  (* models whose registered timer is another one keep their outstanding deadline *)
  Lemma upd_armed_other : forall m, w_runner w (w_st w m) m <> Some i -> armed w' m = armed w m.
  Proof.
    intros m H. unfold armed, w'; simpl.
    destruct (w_runner w (w_st w m) m) as [j|]; [|reflexivity].
    rewrite nth_error_upd_nth_other; [reflexivity|]. intros ->. now apply H.
  Qed.
End Upd.

(* a slot identifies its model *)
Lemma slot_model : forall b w s m s' m' i, Inv b w ->
  w_runner w s m = Some i -> w_runner w s' m' = Some i -> s = s' /\ m = m'.
Proof.
  intros b w s m s' m' i I H1 H2.
  destruct (inv_slot _ _ I _ _ _ H1) as (t1 & N1 & S1 & M1).
  destruct (inv_slot _ _ I _ _ _ H2) as (t2 & N2 & S2 & M2).
  rewrite N1 in N2. inversion N2; subst. auto.
Qed.

(* ----------------------------------------------------------------- the checker skips callback items *)
Lemma ck_run_app c nm k a b : ck_run c nm k (a ++ b) = ck_run c nm (ck_run c nm k a) b.
Proof. unfold ck_run. apply fold_left_app. Qed.

Definition is_marker (it : titem) : bool :=
  match it with
  | TExited _ _ _ | TEntered _ _ _ | TFired _ _ _ | TUser _ _ _ | TSetTimeout _ _ _ => true
  | _ => false
  end.
Lemma ck_run_skip c nm : forall l k, forallb (fun it => negb (is_marker it)) l = true -> ck_run c nm k l = k.
Proof.
  induction l as [|it r IH]; intros k H; simpl in *; [reflexivity|].
  apply andb_true_iff in H as [H1 H2]. destruct it; simpl in H1; try discriminate; simpl; apply IH, H2.
Qed.
Lemma skip_map {A} (g : A -> titem) (l : list A) :
  (forall a, is_marker (g a) = false) -> forallb (fun it => negb (is_marker it)) (map g l) = true.
Proof. intros H. induction l; simpl; [reflexivity|]. now rewrite H, IHl. Qed.

(* ----------------------------------------------------------------- the simulation relation *)
Definition R (strict : bool) (w : world) (k : ck) : Prop :=
  ck_ok k = true /\ ck_last k <= w_clock w /\ Inv strict w /\
  (forall m, ck_open k m = Some (w_st w m, armed w m)) /\
  (forall s, ck_tout k s = w_tout w s).

Lemma R_weaken w k : R true w k -> R false w k.
Proof.
  intros (A & B & I & D). split; [exact A|split; [exact B|split; [|exact D]]].
  destruct I as [I1 I2 I3]. constructor; auto.
  intros i tm P. specialize (I3 _ _ P). unfold not_overdue in *. lia.
Qed.

Lemma armed_time : forall b w m dl, Inv b w -> armed w m = Some dl -> w_clock w <= dl.
Proof.
  intros b w m dl I H. destruct (armed_pend _ _ _ _ I H) as (i & tm & P & _ & _ & Hd & _).
  pose proof (inv_time _ _ I _ _ P) as T. unfold not_overdue in T. destruct b; lia.
Qed.

(* ----------------------------------------------------------------- the state change *)
Lemma ck_change : forall c nm k m s d t a,
  ck_ok k = true -> ck_last k <= t -> ck_open k m = Some (s, a) ->
  match a with Some dl => t <= dl | None => True end ->
  let k' := ck_run c nm k [TExited m s t; TEntered m d t] in
  ck_ok k' = true /\ ck_last k' = t /\
  (forall m', ck_open k' m' = if Nat.eqb m' m then Some (d, period (ck_tout k) d t) else ck_open k m') /\
  ck_tout k' = ck_tout k.
Proof.
  intros c nm k m s d t a Hok Hl Ho Ha k'. unfold k'. simpl.
  rewrite upd_same, Hok, Ho, Nat.eqb_refl. simpl.
  assert (T : match a with Some dl => t <=? dl | None => true end = true).
  { destruct a; [apply Nat.leb_le; exact Ha|reflexivity]. }
  rewrite T. assert (L : ck_last k <=? t = true) by (apply Nat.leb_le; exact Hl). rewrite L, Nat.leb_refl.
  split; [reflexivity|split; [reflexivity|split; [|reflexivity]]].
  intros m'. unfold upd. destruct (Nat.eqb m' m); reflexivity.
Qed.

Lemma cancel_slot_fields : forall w s m,
  w_clock (cancel_slot w s m) = w_clock w /\ w_st (cancel_slot w s m) = w_st w /\
  w_runner (cancel_slot w s m) = w_runner w /\ length (w_timers (cancel_slot w s m)) = length (w_timers w) /\
  w_tout (cancel_slot w s m) = w_tout w /\ w_ot (cancel_slot w s m) = w_ot w.
Proof.
  intros w s m. unfold cancel_slot. destruct (w_runner w s m); simpl; repeat split; auto using length_upd_nth.
Qed.

Section Change.
  Variable c : tcfg.
  Variable nm : nat.

  Lemma switch_R : forall b w k m d mk w',
    R b w k -> set_and_start c (cancel_slot w (w_st w m) m) m d = (mk, w') ->
    R b w' (ck_run c nm k mk) /\ nonew w w' /\
    (forall m', w_st w' m' = if Nat.eqb m' m then d else w_st w m') /\
    armed w' m = period (w_tout w) d (w_clock w) /\
    (forall m', m' <> m -> armed w' m' = armed w m') /\
    (forall j tm, pend w' j tm -> tm_model tm = m -> j = length (w_timers w)).
  Proof.
    intros b w k m d mk w' (Hok & Hlast & I & Hopen & Htout) E.
    set (s := w_st w m) in *.
    set (w1 := cancel_slot w s m) in *.
    destruct (cancel_slot_fields w s m) as (C1 & S1 & Rn1 & L1 & T1 & O1). fold w1 in C1, S1, Rn1, L1, T1, O1.
    assert (I1 : Inv b w1).
    { unfold w1, cancel_slot. destruct (w_runner w s m) as [i|]; [apply upd_inv; auto using kf_cancel, nr_cancel|exact I]. }
    assert (P1 : forall j tm, pend w1 j tm -> pend w j tm).
    { unfold w1, cancel_slot. destruct (w_runner w s m) as [i|]; [apply upd_pend; auto using nr_cancel|auto]. }
    assert (E1 : forall j tm, pend w1 j tm -> tm_model tm <> m).
    { intros j tm P Hm. pose proof (P1 _ _ P) as P0.
      destruct (inv_pend _ _ I _ _ P0) as [Hs Hr]. rewrite Hm in Hs, Hr. fold s in Hs. rewrite <- Hs in Hr.
      destruct P as [Hn Hp]. unfold w1, cancel_slot in Hn. rewrite Hr in Hn. simpl in Hn.
      rewrite nth_error_upd_nth_same in Hn. destruct P0 as [Hn0 _]. rewrite Hn0 in Hn. simpl in Hn.
      injection Hn as Hn. rewrite <- Hn, cancel_not_pending in Hp. discriminate. }
    assert (A1 : forall m', m' <> m -> armed w1 m' = armed w m').
    { intros m' Hne. unfold w1, cancel_slot. destruct (w_runner w s m) as [i|] eqn:Hr; [|reflexivity].
      apply upd_armed_other. intros Hr'. destruct (slot_model _ _ _ _ _ _ _ I Hr Hr'). congruence. }
    assert (Ta : match armed w m with Some dl => w_clock w <= dl | None => True end).
    { destruct (armed w m) as [dl|] eqn:Ha; [|exact Logic.I]. eapply armed_time; eauto. }
    unfold set_and_start in E. rewrite C1, S1, Rn1, T1, O1 in E. fold s in E.
    pose proof (ck_change c nm k m s d (w_clock w) (armed w m) Hok Hlast (Hopen m) Ta) as (K1 & K2 & K3 & K4).
    destruct (Nat.ltb 0 (w_tout w d)) eqn:Ht.
    - (* a timer is started *)
      inversion E; subst mk w'; clear E.
      set (l1 := w_timers w1) in *.
      set (new := mkTimer d m (w_clock w + w_tout w d) Pending).
      set (W := mkW (w_clock w) (upd (w_st w) m d) (l1 ++ [new]) (upd2 (w_runner w) d m (Some (length l1))) (w_tout w) (w_ot w)).
      apply Nat.ltb_lt in Ht.
      assert (Pn : forall j tm, pend W j tm -> (j < length l1 /\ pend w1 j tm) \/ (j = length l1 /\ tm = new)).
      { intros j tm [Hn Hp]. simpl in Hn. destruct (Nat.lt_ge_cases j (length l1)) as [Hlt|Hge].
        - left. rewrite nth_error_app1 in Hn by auto. split; [auto|split; auto].
        - right. rewrite nth_error_app2 in Hn by auto. destruct (j - length l1) as [|q] eqn:Hq.
          + simpl in Hn. inversion Hn. split; [lia|reflexivity].
          + simpl in Hn. destruct q; discriminate. }
      assert (Inew : Inv b W).
      { constructor; simpl.
        - intros s' m' j Hr. unfold upd2 in Hr.
          destruct (Nat.eqb s' d && Nat.eqb m' m) eqn:Hq.
          + inversion Hr; subst j. apply andb_true_iff in Hq as [Q1 Q2].
            apply Nat.eqb_eq in Q1. apply Nat.eqb_eq in Q2. subst s' m'.
            exists new. rewrite nth_error_app2, Nat.sub_diag by lia. simpl. auto.
          + rewrite <- Rn1 in Hr. destruct (inv_slot _ _ I1 _ _ _ Hr) as (tm & Hn & Hs & Hm). exists tm. split; [|auto].
            rewrite nth_error_app1; [exact Hn|]. apply nth_error_Some. fold l1 in Hn. congruence.
        - intros j tm P. destruct (Pn _ _ P) as [[Hlt P']|[Hj Htm]].
          + pose proof (E1 _ _ P') as Hne. destruct (inv_pend _ _ I1 _ _ P') as [Hs Hr]. rewrite S1 in Hs. rewrite Rn1 in Hr.
            rewrite upd_other by auto. rewrite upd2_other by auto. auto.
          + subst. simpl. rewrite upd_same, upd2_same. auto.
        - intros j tm P. destruct (Pn _ _ P) as [[Hlt P']|[Hj Htm]].
          + pose proof (inv_time _ _ I1 _ _ P') as T. unfold not_overdue in *. rewrite C1 in T. exact T.
          + subst. unfold not_overdue; simpl. destruct b; lia. }
      assert (Am : armed W m = Some (w_clock w + w_tout w d)).
      { unfold armed; simpl. rewrite upd_same, upd2_same, nth_error_app2, Nat.sub_diag by lia. reflexivity. }
      assert (Ao : forall m', m' <> m -> armed W m' = armed w m').
      { intros m' Hne. rewrite <- (A1 _ Hne). unfold armed; simpl. rewrite upd_other by auto.
        rewrite upd2_other by auto. rewrite S1, Rn1. fold l1.
        destruct (w_runner w (w_st w m') m') as [j|] eqn:Hr; [|reflexivity].
        rewrite <- Rn1 in Hr. destruct (inv_slot _ _ I1 _ _ _ Hr) as (tm & Hn & _). rewrite nth_error_app1; [reflexivity|].
        apply nth_error_Some. fold l1 in Hn. congruence. }
      split; [|split; [|split; [|split; [|split]]]].
      + split; [exact K1|split; [rewrite K2; simpl; lia|split; [exact Inew|split]]].
        * intros m'. rewrite K3. simpl. destruct (Nat.eqb_spec m' m) as [->|Hne].
          -- rewrite upd_same, Am. unfold period. rewrite Htout. apply Nat.ltb_lt in Ht. now rewrite Ht.
          -- rewrite upd_other by auto. rewrite Ao by auto. rewrite Hopen. reflexivity.
        * intros s'. rewrite K4. simpl. apply Htout.
      + split; [reflexivity|]. intros j tm P. destruct (Pn _ _ P) as [[_ P']|[_ ->]].
        * left. apply P1, P'.
        * right. simpl. lia.
      + intros m'. simpl. unfold upd. reflexivity.
      + rewrite Am. unfold period. apply Nat.ltb_lt in Ht. now rewrite Ht.
      + exact Ao.
      + intros j tm P Hm. destruct (Pn _ _ P) as [[_ P']|[-> _]]; [|exact L1]. exfalso. exact (E1 _ _ P' Hm).
    - (* no timeout *)
      inversion E; subst mk w'; clear E.
      set (W := mkW (w_clock w) (upd (w_st w) m d) (w_timers w1) (w_runner w) (w_tout w) (w_ot w)).
      assert (Pn : forall j tm, pend W j tm -> pend w1 j tm) by (intros j tm P; exact P).
      assert (Inew : Inv b W).
      { constructor; simpl.
        - intros s' m' j Hr. rewrite <- Rn1 in Hr. exact (inv_slot _ _ I1 _ _ _ Hr).
        - intros j tm P. pose proof (E1 _ _ P) as Hne. destruct (inv_pend _ _ I1 _ _ P) as [Hs Hr].
          rewrite S1 in Hs. rewrite Rn1 in Hr. rewrite upd_other by auto. auto.
        - intros j tm P. pose proof (inv_time _ _ I1 _ _ P) as T. unfold not_overdue in *. rewrite C1 in T. exact T. }
      assert (Am : armed W m = None).
      { unfold armed; simpl. rewrite upd_same.
        destruct (w_runner w d m) as [j|] eqn:Hr; [|reflexivity].
        destruct (nth_error (w_timers w1) j) as [tm|] eqn:Hn; [|reflexivity].
        destruct (is_pending tm) eqn:Hp; [|reflexivity]. exfalso.
        rewrite <- Rn1 in Hr. destruct (inv_slot _ _ I1 _ _ _ Hr) as (tm' & Hn' & _ & Hm). rewrite Hn in Hn'.
        inversion Hn'; subst tm'. apply (E1 j tm); [split; auto|exact Hm]. }
      assert (Ao : forall m', m' <> m -> armed W m' = armed w m').
      { intros m' Hne. rewrite <- (A1 _ Hne). unfold armed; simpl. rewrite upd_other by auto. rewrite S1, Rn1. reflexivity. }
      split; [|split; [|split; [|split; [|split]]]].
      + split; [exact K1|split; [rewrite K2; simpl; lia|split; [exact Inew|split]]].
        * intros m'. rewrite K3. simpl. destruct (Nat.eqb_spec m' m) as [->|Hne].
          -- rewrite upd_same, Am. unfold period. rewrite Htout. now rewrite Ht.
          -- rewrite upd_other by auto. rewrite Ao by auto. rewrite Hopen. reflexivity.
        * intros s'. rewrite K4. simpl. apply Htout.
      + split; [reflexivity|]. intros j tm P. left. apply P1, P.
      + intros m'. simpl. unfold upd. reflexivity.
      + rewrite Am. unfold period. now rewrite Ht.
      + exact Ao.
      + intros j tm P Hm. exfalso. exact (E1 _ _ P Hm).
  Qed.
End Change.

(* an update that changes neither pendingness nor the deadline leaves every outstanding deadline as it is *)
Lemma upd_armed_same : forall w i f m,
  (forall t, is_pending (f t) = is_pending t /\ tm_deadline (f t) = tm_deadline t) ->
  armed (set_timers w (upd_nth (w_timers w) i f)) m = armed w m.
Proof.
  intros w i f m H. unfold armed; simpl. destruct (w_runner w (w_st w m) m) as [j|]; [|reflexivity].
  destruct (Nat.eq_dec j i) as [->|Hne].
  - rewrite nth_error_upd_nth_same. destruct (nth_error (w_timers w) i) as [t|]; [|reflexivity]. simpl.
    destruct (H t) as [-> ->]. reflexivity.
  - rewrite nth_error_upd_nth_other by auto. reflexivity.
Qed.

Lemma none_overdue_R : forall nm w k, R true w k -> none_overdue nm k (w_clock w) = true.
Proof.
  intros nm w k (_ & _ & I & Ho & _). unfold none_overdue. apply forallb_forall. intros m _.
  rewrite Ho. destruct (armed w m) as [dl|] eqn:Ha; [|reflexivity].
  destruct (armed_pend _ _ _ _ I Ha) as (i & tm & P & _ & _ & Hd & _).
  pose proof (inv_time _ _ I _ _ P) as T. unfold not_overdue in T. apply Nat.ltb_lt. lia.
Qed.


Lemma guard_sdef : forall c s, guard_C17 c = true -> tc_queued c = false ->
  exit_acts_inert c s (sdef c s) = true.
Proof.
  intros c s G Q. unfold guard_C17 in G. rewrite Q in G. simpl in G. unfold sdef.
  induction (tc_states c) as [|[k d] r IH]; simpl in *; [reflexivity|].
  apply andb_true_iff in G as [G1 G2]. destruct (Nat.eqb_spec s k) as [->|_]; [exact G1|apply IH, G2].
Qed.

Definition nonmark (l : list titem) : Prop := forallb (fun it => negb (is_marker it)) l = true.
Lemma nonmark_app a b : nonmark a -> nonmark b -> nonmark (a ++ b).
Proof. unfold nonmark. intros A B. rewrite forallb_app, A, B. reflexivity. Qed.

Section Run.
  Variable c : tcfg.
  Variable nm : nat.
  Hypothesis G : guard_C17 c = true.
  Notation ckr := (ck_run c nm).

  (* what is known of model.trigger as called from a callback *)
  Definition rec_ok (rec : rec_t) : Prop :=
    (forall b w k q m e its w' q' r, R b w k -> rec w q m e = (its, w', q', r) ->
       R b w' (ckr k its) /\ nonew w w') /\
    (forall w q m e its w' q' r, rec w q m e = (its, w', q', r) ->
       tc_queued c = false -> inert c (w_st w m) e = true -> w' = w /\ nonmark its).

  Lemma cbtrig_ok : forall rec, rec_ok rec -> rec_ok (cbtrig rec c).
  Proof.
    intros rec [H1 H2]. unfold cbtrig. split.
    - intros b w k q m e its w' q' r HR E. destruct (tc_queued c); [|eapply H1; eauto].
      destruct (event_known c e); inversion E; subst; simpl; (split; [exact HR|apply nonew_refl]).
    - intros w q m e its w' q' r E Q. rewrite Q in E. eapply H2; eauto.
  Qed.

  Lemma cbtrig_queued : forall rec w q m e its w' q' r,
    tc_queued c = true -> cbtrig rec c w q m e = (its, w', q', r) -> w' = w /\ its = [].
  Proof.
    intros rec w q m e its w' q' r Q E. unfold cbtrig in E. rewrite Q in E.
    destruct (event_known c e); inversion E; auto.
  Qed.

  Definition act_inert (s : tstate) (cb : ecb) : bool :=
    match ec_act cb with None => true | Some e => inert c s e end.

  Lemma ecb_act_R : forall rec b w k q m cb its w' q',
    rec_ok rec -> R b w k -> ecb_act rec c w q m cb = (its, w', q') -> R b w' (ckr k its) /\ nonew w w'.
  Proof.
    intros rec b w k q m cb its w' q' OK HR E. unfold ecb_act in E. destruct (ec_act cb) as [e|].
    - destruct (cbtrig rec c w q m e) as [[[its0 w0] q0] r] eqn:Ec. inversion E; subst its w' q'; clear E.
      destruct (proj1 (cbtrig_ok _ OK) _ _ _ _ _ _ _ _ _ _ HR Ec) as [A B].
      rewrite ck_run_app. simpl. auto.
    - inversion E; subst. simpl. split; [exact HR|apply nonew_refl].
  Qed.

  Lemma ecb_act_still : forall rec w q m cb its w' q',
    rec_ok rec -> (tc_queued c = true \/ act_inert (w_st w m) cb = true) ->
    ecb_act rec c w q m cb = (its, w', q') -> w' = w /\ nonmark its.
  Proof.
    intros rec w q m cb its w' q' OK H E. unfold ecb_act, act_inert in *. destruct (ec_act cb) as [e|].
    - destruct (cbtrig rec c w q m e) as [[[its0 w0] q0] r] eqn:Ec. inversion E; subst its w' q'; clear E.
      destruct (tc_queued c) eqn:Q.
      + destruct (cbtrig_queued _ _ _ _ _ _ _ _ _ Q Ec) as [-> ->]. split; reflexivity.
      + destruct H as [H|H]; [discriminate|].
        destruct (proj2 (cbtrig_ok _ OK) _ _ _ _ _ _ _ _ Ec Q H) as [-> N]. split; [reflexivity|].
        apply nonmark_app; [exact N|reflexivity].
    - inversion E; subst. split; reflexivity.
  Qed.

  Section Cbs.
    Variable rec : rec_t.
    Hypothesis OK : rec_ok rec.
    Variable mk : mk_t.
    Hypothesis MK : forall a b0 c0 d, is_marker (mk a b0 c0 d) = false.

    Lemma run_cbs_sync_R : forall b m cbs w k q its w' q',
      R b w k -> run_cbs_sync rec c mk w q m cbs = (its, w', q') -> R b w' (ckr k its) /\ nonew w w'.
    Proof.
      intros b m cbs. induction cbs as [|cb r IH]; intros w k q its w' q' HR E; simpl in E.
      - inversion E; subst. simpl. split; [exact HR|apply nonew_refl].
      - destruct (ecb_act rec c w q m cb) as [[ia w1] q1] eqn:Ea.
        destruct (run_cbs_sync rec c mk w1 q1 m r) as [[ir w2] q2] eqn:Er. inversion E; subst its w' q'; clear E.
        destruct (ecb_act_R _ _ _ _ _ _ _ _ _ _ OK HR Ea) as [A B].
        destruct (IH _ _ _ _ _ _ A Er) as [A2 B2].
        change (ckr k (mk (ec_id cb) m (w_st w m) (w_clock w) :: ia ++ ir))
          with (ckr (ck_step c nm k (mk (ec_id cb) m (w_st w m) (w_clock w))) (ia ++ ir)).
        assert (S0 : ck_step c nm k (mk (ec_id cb) m (w_st w m) (w_clock w)) = k).
        { pose proof (MK (ec_id cb) m (w_st w m) (w_clock w)) as M. destruct (mk _ _ _ _); simpl in M; try discriminate; reflexivity. }
        rewrite S0, ck_run_app. split; [exact A2|eapply nonew_trans; eauto].
    Qed.

    Lemma run_acts_R : forall b m cbs w k q its w' q',
      R b w k -> run_acts rec c w q m cbs = (its, w', q') -> R b w' (ckr k its) /\ nonew w w'.
    Proof.
      intros b m cbs. induction cbs as [|cb r IH]; intros w k q its w' q' HR E; simpl in E.
      - inversion E; subst. simpl. split; [exact HR|apply nonew_refl].
      - destruct (ecb_act rec c w q m cb) as [[ia w1] q1] eqn:Ea.
        destruct (run_acts rec c w1 q1 m r) as [[ir w2] q2] eqn:Er. inversion E; subst its w' q'; clear E.
        destruct (ecb_act_R _ _ _ _ _ _ _ _ _ _ OK HR Ea) as [A B].
        destruct (IH _ _ _ _ _ _ A Er) as [A2 B2].
        rewrite ck_run_app. split; [exact A2|eapply nonew_trans; eauto].
    Qed.

    Lemma run_cbs_R : forall b m cbs w k q its w' q',
      R b w k -> run_cbs rec c mk w q m cbs = (its, w', q') -> R b w' (ckr k its) /\ nonew w w'.
    Proof.
      intros b m cbs w k q its w' q' HR E. unfold run_cbs in E. destruct (tc_async c).
      - destruct (run_acts rec c w q m cbs) as [[ia w1] q1] eqn:Ea. inversion E; subst its w' q'; clear E.
        rewrite ck_run_app.
        rewrite (ck_run_skip c nm (map (fun cb => mk (ec_id cb) m (w_st w m) (w_clock w)) cbs) k)
          by (apply skip_map; intros; apply MK).
        eapply run_acts_R; eauto.
      - eapply run_cbs_sync_R; eauto.
    Qed.

    (* callbacks whose triggers are deferred or inert leave the world as it is *)
    Lemma run_cbs_sync_still : forall m cbs w q its w' q',
      (tc_queued c = true \/ forallb (act_inert (w_st w m)) cbs = true) ->
      run_cbs_sync rec c mk w q m cbs = (its, w', q') -> w' = w /\ nonmark its.
    Proof.
      intros m cbs. induction cbs as [|cb r IH]; intros w q its w' q' H E; simpl in E.
      - inversion E; subst. split; reflexivity.
      - destruct (ecb_act rec c w q m cb) as [[ia w1] q1] eqn:Ea.
        destruct (run_cbs_sync rec c mk w1 q1 m r) as [[ir w2] q2] eqn:Er. inversion E; subst its w' q'; clear E.
        assert (H1 : tc_queued c = true \/ act_inert (w_st w m) cb = true).
        { destruct H as [H|H]; [left; exact H|right]. simpl in H. apply andb_true_iff in H. tauto. }
        destruct (ecb_act_still _ _ _ _ _ _ _ _ OK H1 Ea) as [-> N1].
        assert (H2 : tc_queued c = true \/ forallb (act_inert (w_st w m)) r = true).
        { destruct H as [H|H]; [left; exact H|right]. simpl in H. apply andb_true_iff in H. tauto. }
        destruct (IH _ _ _ _ _ H2 Er) as [-> N2]. split; [reflexivity|].
        unfold nonmark. simpl. rewrite MK. simpl. apply nonmark_app; assumption.
    Qed.

    Lemma run_acts_still : forall m cbs w q its w' q',
      (tc_queued c = true \/ forallb (act_inert (w_st w m)) cbs = true) ->
      run_acts rec c w q m cbs = (its, w', q') -> w' = w /\ nonmark its.
    Proof.
      intros m cbs. induction cbs as [|cb r IH]; intros w q its w' q' H E; simpl in E.
      - inversion E; subst. split; reflexivity.
      - destruct (ecb_act rec c w q m cb) as [[ia w1] q1] eqn:Ea.
        destruct (run_acts rec c w1 q1 m r) as [[ir w2] q2] eqn:Er. inversion E; subst its w' q'; clear E.
        assert (H1 : tc_queued c = true \/ act_inert (w_st w m) cb = true).
        { destruct H as [H|H]; [left; exact H|right]. simpl in H. apply andb_true_iff in H. tauto. }
        destruct (ecb_act_still _ _ _ _ _ _ _ _ OK H1 Ea) as [-> N1].
        assert (H2 : tc_queued c = true \/ forallb (act_inert (w_st w m)) r = true).
        { destruct H as [H|H]; [left; exact H|right]. simpl in H. apply andb_true_iff in H. tauto. }
        destruct (IH _ _ _ _ _ H2 Er) as [-> N2]. split; [reflexivity|apply nonmark_app; assumption].
    Qed.

    Lemma run_cbs_still : forall m cbs w q its w' q',
      (tc_queued c = true \/ forallb (act_inert (w_st w m)) cbs = true) ->
      run_cbs rec c mk w q m cbs = (its, w', q') -> w' = w /\ nonmark its.
    Proof.
      intros m cbs w q its w' q' H E. unfold run_cbs in E. destruct (tc_async c).
      - destruct (run_acts rec c w q m cbs) as [[ia w1] q1] eqn:Ea. inversion E; subst its w' q'; clear E.
        destruct (run_acts_still _ _ _ _ _ _ _ H Ea) as [-> N]. split; [reflexivity|].
        apply nonmark_app; [apply skip_map; intros; apply MK|exact N].
      - eapply run_cbs_sync_still; eauto.
    Qed.
  End Cbs.

  Lemma change_state_R : forall rec b w k q m d its w' q',
    rec_ok rec -> R b w k -> change_state rec c w q m d = (its, w', q') ->
    R b w' (ckr k its) /\ nonew w w'.
  Proof.
    intros rec b w k q m d its w' q' OK HR E. unfold change_state in E.
    set (s := w_st w m) in *. set (w0 := cancel_slot w s m) in *.
    destruct (run_cbs rec c CExit w0 q m (ts_exit (sdef c s))) as [[ix w1] q1] eqn:Ex.
    destruct (set_and_start c w1 m d) as [mk w2] eqn:Es.
    destruct (run_cbs rec c CEnter w2 q1 m (ts_enter (sdef c d))) as [[ie w3] q3] eqn:En.
    inversion E; subst its w' q'; clear E.
    assert (Hs0 : w_st w0 m = s).
    { unfold w0. destruct (cancel_slot_fields w s m) as (_ & S1 & _). rewrite S1. reflexivity. }
    assert (Hg : tc_queued c = true \/ forallb (act_inert (w_st w0 m)) (ts_exit (sdef c s)) = true).
    { destruct (tc_queued c) eqn:Q; [left; reflexivity|right]. rewrite Hs0. exact (guard_sdef c s G Q). }
    destruct (run_cbs_still rec OK CExit (fun _ _ _ _ => eq_refl) _ _ _ _ _ _ _ Hg Ex) as [-> Nx].
    destruct (switch_R c nm _ _ _ _ _ _ _ HR Es) as (A & B & _).
    destruct (run_cbs_R rec OK CEnter (fun _ _ _ _ => eq_refl) _ _ _ _ _ _ _ _ _ A En) as [A3 B3].
    rewrite ck_run_app, (ck_run_skip c nm ix) by exact Nx. rewrite ck_run_app.
    split; [exact A3|eapply nonew_trans; eauto].
  Qed.

  Lemma step_ok : forall rec, rec_ok rec -> rec_ok (step rec c).
  Proof.
    intros rec OK. split.
    - intros b w k q m e its w' q' r HR E. unfold step in E.
      assert (Triv : forall l, nonmark l -> R b w (ckr k l) /\ nonew w w).
      { intros l Hl. rewrite ck_run_skip by exact Hl. split; [exact HR|apply nonew_refl]. }
      destruct (negb (event_known c e)); [inversion E; subst; apply (Triv []); reflexivity|].
      destruct (cands c e (w_st w m)) as [|t0 l0].
      + destruct (tc_ignore c); [inversion E; subst; apply (Triv []); reflexivity|].
        destruct (tc_onexc c) as [|h hs]; inversion E; subst; [apply (Triv []); reflexivity|].
        apply Triv. apply (skip_map (fun h0 => COnExc h0 m 0 (w_clock w')) (h :: hs)). reflexivity.
      + destruct (first_ok (t0 :: l0)) as [t|]; [|inversion E; subst; apply (Triv []); reflexivity].
        destruct (tt_dst t) as [d|]; [|inversion E; subst; apply (Triv []); reflexivity].
        destruct (change_state rec c w q m d) as [[its0 w0] q0] eqn:Ec. inversion E; subst its0 w0 q0 r; clear E.
        eapply change_state_R; eauto.
    - intros w q m e its w' q' r E _ Hi. unfold step in E. unfold inert in Hi.
      destruct (negb (event_known c e)); [inversion E; subst; split; reflexivity|]. simpl in Hi.
      destruct (cands c e (w_st w m)) as [|t0 l0].
      + destruct (tc_ignore c); [inversion E; subst; split; reflexivity|].
        destruct (tc_onexc c) as [|h hs]; inversion E; subst; (split; [reflexivity|]); [reflexivity|].
        apply (skip_map (fun h0 => COnExc h0 m 0 (w_clock w')) (h :: hs)). reflexivity.
      + destruct (first_ok (t0 :: l0)) as [t|]; [|inversion E; subst; split; reflexivity].
        destruct (tt_dst t) as [d|]; [discriminate|inversion E; subst; split; reflexivity].
  Qed.

  Lemma trig_ok : forall fuel, rec_ok (trig fuel c).
  Proof.
    induction fuel as [|f IH]; simpl.
    - split.
      + intros b w k q m e its w' q' r HR E. inversion E; subst. simpl. split; [exact HR|apply nonew_refl].
      + intros w q m e its w' q' r E _ _. inversion E; subst. split; reflexivity.
    - apply step_ok, IH.
  Qed.

  Lemma drain_S : forall f w q, drain (S f) c w q =
    match q with
    | [] => ([], w, None)
    | (m, e) :: q0 =>
        let '(its, w1, q1, r) := step (trig 0 c) c w q0 m e in
        if is_exn r then (its, w1, Some r)
        else let '(its2, w2, x) := drain f c w1 q1 in (its ++ its2, w2, x)
    end.
  Proof. reflexivity. Qed.

  Lemma drain_R : forall fuel b w k q its w' x,
    R b w k -> drain fuel c w q = (its, w', x) -> R b w' (ckr k its) /\ nonew w w'.
  Proof.
    induction fuel as [|f IH]; intros b w k q its w' x HR E.
    - simpl in E. inversion E; subst. simpl. split; [exact HR|apply nonew_refl].
    - rewrite drain_S in E.
      destruct q as [|[m e] q0]; [inversion E; subst; simpl; split; [exact HR|apply nonew_refl]|].
      destruct (step (trig 0 c) c w q0 m e) as [[[its1 w1] q1] r] eqn:Es.
      destruct (proj1 (step_ok _ (trig_ok 0)) _ _ _ _ _ _ _ _ _ _ HR Es) as [A B].
      destruct (is_exn r); [inversion E; subst; auto|].
      destruct (drain f c w1 q1) as [[its2 w2] x2] eqn:Ed. inversion E; subst its w' x; clear E.
      destruct (IH _ _ _ _ _ _ _ A Ed) as [A2 B2]. rewrite ck_run_app.
      split; [exact A2|eapply nonew_trans; eauto].
  Qed.

  Lemma top_trig_R : forall b w k m e its w' r,
    R b w k -> top_trig c w m e = (its, w', r) -> R b w' (ckr k its) /\ nonew w w'.
  Proof.
    intros b w k m e its w' r HR E. unfold top_trig in E. destruct (tc_queued c).
    - destruct (step (trig 0 c) c w [] m e) as [[[its1 w1] q1] r1] eqn:Es.
      destruct (proj1 (step_ok _ (trig_ok 0)) _ _ _ _ _ _ _ _ _ _ HR Es) as [A B].
      destruct (is_exn r1); [inversion E; subst; auto|].
      destruct (drain DRAIN_FUEL c w1 q1) as [[its2 w2] x2] eqn:Ed. inversion E; subst its w' r; clear E.
      destruct (drain_R _ _ _ _ _ _ _ _ A Ed) as [A2 B2]. rewrite ck_run_app.
      split; [exact A2|eapply nonew_trans; eauto].
    - destruct (trig FUEL c w [] m e) as [[[its1 w1] q1] r1] eqn:Es. inversion E; subst its w' r; clear E.
      exact (proj1 (trig_ok FUEL) _ _ _ _ _ _ _ _ _ _ HR Es).
  Qed.

  Lemma do_act_R : forall b w k m cb its w',
    R b w k -> do_act c w m cb = (its, w') -> R b w' (ckr k its) /\ nonew w w'.
  Proof.
    intros b w k m cb its w' HR E. unfold do_act in E.
    destruct (oc_act cb) as [[who e]|].
    - destruct (top_trig c w (match who with Some k0 => k0 | None => m end) e) as [[its0 w0] r] eqn:Es.
      inversion E; subst its w'; clear E.
      destruct (top_trig_R _ _ _ _ _ _ _ _ HR Es) as (A & B).
      rewrite ck_run_app. simpl. auto.
    - inversion E; subst. simpl. split; [exact HR|apply nonew_refl].
  Qed.

  Lemma handler_sync_R : forall b m cbs w k its w',
    R b w k -> handler_sync c w m cbs = (its, w') -> R b w' (ckr k its) /\ nonew w w'.
  Proof.
    intros b m cbs. induction cbs as [|cb r IH]; intros w k its w' HR E; simpl in E.
    - inversion E; subst. simpl. split; [exact HR|apply nonew_refl].
    - destruct (do_act c w m cb) as [ia w1] eqn:Ea.
      destruct (do_act_R _ _ _ _ _ _ _ HR Ea) as (A & B).
      destruct (oc_raise cb).
      + inversion E; subst its w'; clear E. simpl. rewrite ck_run_app. simpl. auto.
      + destruct (handler_sync c w1 m r) as [ir w2] eqn:Eh. inversion E; subst its w'; clear E.
        destruct (IH _ _ _ _ A Eh) as (A2 & B2). simpl. rewrite ck_run_app.
        split; [exact A2|eapply nonew_trans; eauto].
  Qed.

  Lemma acts_async_R : forall b m cbs w k its w',
    R b w k -> acts_async c w m cbs = (its, w') -> R b w' (ckr k its) /\ nonew w w'.
  Proof.
    intros b m cbs. induction cbs as [|cb r IH]; intros w k its w' HR E; simpl in E.
    - inversion E; subst. simpl. split; [exact HR|apply nonew_refl].
    - destruct (do_act c w m cb) as [ia w1] eqn:Ea.
      destruct (do_act_R _ _ _ _ _ _ _ HR Ea) as (A & B).
      destruct (acts_async c w1 m r) as [ir w2] eqn:Eh. inversion E; subst its w'; clear E.
      destruct (IH _ _ _ _ A Eh) as (A2 & B2). rewrite ck_run_app.
      split; [exact A2|eapply nonew_trans; eauto].
  Qed.

  Lemma handler_R : forall b m cbs w k its w',
    R b w k -> handler c w m cbs = (its, w') -> R b w' (ckr k its) /\ nonew w w'.
  Proof.
    intros b m cbs w k its w' HR E. unfold handler in E. destruct (tc_async c).
    - unfold handler_async in E. destruct (acts_async c w m cbs) as [ia w1] eqn:Ea.
      inversion E; subst its w'; clear E.
      destruct (acts_async_R _ _ _ _ _ _ _ HR Ea) as (A & B).
      rewrite ck_run_app.
      rewrite (ck_run_skip c nm (map (fun cb => CTimeout (oc_id cb) m (w_st w m) (w_clock w)) cbs) k)
        by (apply skip_map; reflexivity).
      rewrite ck_run_app.
      assert (S : forall l k0, l = match first_raising cbs with
                                   | Some k1 => map (fun h => COnExc h m k1 (w_clock w)) (tc_onexc c)
                                   | None => [] end -> ckr k0 l = k0).
      { intros l k0 ->. apply ck_run_skip. destruct (first_raising cbs); [apply skip_map; reflexivity|reflexivity]. }
      rewrite (S _ _ eq_refl). auto.
    - eapply handler_sync_R; eauto.
  Qed.

  Lemma fire_R : forall w k i tm its w',
    R false w k -> nth_error (w_timers w) i = Some tm -> due w tm = true ->
    fire c w i tm = (its, w') ->
    R false w' (ckr k its) /\ w_clock w' = w_clock w /\
    forall j t, pend w' j t -> (pend w j t /\ j <> i) \/ w_clock w < tm_deadline t.
  Proof.
    intros w k i tm its w' HR Hn Hd E. unfold fire in E.
    set (w1 := set_timers w (upd_nth (w_timers w) i start_running)) in *.
    destruct (handler c w1 (tm_model tm) (w_ot w (tm_state tm))) as [its0 w2] eqn:Eh.
    inversion E; subst its w'; clear E.
    destruct HR as (Hok & Hlast & I & Hopen & Htout).
    unfold due in Hd. apply andb_true_iff in Hd as [Hp Hdl]. apply Nat.eqb_eq in Hdl.
    assert (P : pend w i tm) by (split; assumption).
    destruct (inv_pend _ _ I _ _ P) as [Hs Hr].
    assert (Ha : armed w (tm_model tm) = Some (w_clock w)).
    { rewrite (pend_armed _ _ _ _ I P). now rewrite Hdl. }
    assert (P1 : forall j t, pend w1 j t -> pend w j t /\ j <> i).
    { intros j t Pj. split; [eapply upd_pend; eauto using nr_start|]. intros ->.
      destruct Pj as [Hn1 Hp1]. unfold w1 in Hn1; simpl in Hn1.
      rewrite nth_error_upd_nth_same, Hn in Hn1. simpl in Hn1. inversion Hn1; subst t. discriminate. }
    assert (R1 : R false w1 (ck_step c nm k (TFired (tm_model tm) (tm_state tm) (w_clock w)))).
    { split; [|split; [|split; [|split]]]; [| | | |intros s'; simpl; apply Htout].
      - simpl. rewrite Hok, Hopen, Hs, Ha, !Nat.eqb_refl.
        replace (ck_last k <=? w_clock w) with true by (symmetry; apply Nat.leb_le; lia). reflexivity.
      - simpl. lia.
      - apply upd_inv; auto using kf_start, nr_start.
      - intros m'. simpl. unfold upd. destruct (Nat.eqb_spec m' (tm_model tm)) as [->|Hne].
        + rewrite Hs. f_equal. f_equal. unfold armed, w1; simpl. rewrite Hs, Hr.
          rewrite nth_error_upd_nth_same, Hn. reflexivity.
        + rewrite Hopen. f_equal. f_equal. symmetry. apply upd_armed_other.
          intros Hr'. rewrite <- Hs in Hr. destruct (slot_model _ _ _ _ _ _ _ I Hr Hr'). congruence. }
    destruct (handler_R _ _ _ _ _ _ _ R1 Eh) as ((Hok2 & Hlast2 & I2 & Hopen2 & Htout2) & (C2 & N2)).
    split; [|split].
    - simpl. split; [exact Hok2|split; [simpl; exact Hlast2|split; [|split; [|intros s'; simpl; apply Htout2]]]].
      + apply upd_inv; auto using kf_finish, nr_finish.
      + intros m'. rewrite Hopen2. simpl. f_equal. f_equal. symmetry. apply upd_armed_same.
        intros t. split; [apply finish_pending|]. destruct t as [a b0 d0 st]; unfold finish; destruct st; reflexivity.
    - simpl. exact C2.
    - intros j t Pj. apply upd_pend in Pj; [|exact nr_finish].
      destruct (N2 _ _ Pj) as [Q|Q]; [left; apply P1, Q|right; exact Q].
  Qed.

  Lemma strict_of_weak : forall w k, R false w k ->
    (forall j tm, pend w j tm -> tm_deadline tm <> w_clock w) -> R true w k.
  Proof.
    intros w k (A & B & I & D) H. split; [exact A|split; [exact B|split; [|exact D]]].
    destruct I as [I1 I2 I3]. constructor; auto.
    intros j tm P. specialize (I3 _ _ P). specialize (H _ _ P). unfold not_overdue in *. lia.
  Qed.

  Lemma fire_due_R : forall idxs w k its w',
    R false w k -> fire_due c w idxs = (its, w') ->
    (forall j tm, pend w j tm -> tm_deadline tm = w_clock w -> In j idxs) ->
    R true w' (ckr k its) /\ w_clock w' = w_clock w.
  Proof.
    induction idxs as [|i r IH]; intros w k its w' HR E Hin; simpl in E.
    - inversion E; subst. simpl. split; [|reflexivity]. apply strict_of_weak; [exact HR|].
      intros j tm P Hd. exact (Hin _ _ P Hd).
    - destruct (match nth_error (w_timers w) i with
                | Some tm => if due w tm then fire c w i tm else ([], w)
                | None => ([], w) end) as [a w1] eqn:Ef.
      destruct (fire_due c w1 r) as [b w2] eqn:Er. inversion E; subst its w'; clear E.
      rewrite ck_run_app.
      assert (X : R false w1 (ckr k a) /\ w_clock w1 = w_clock w /\
                  forall j tm, pend w1 j tm -> tm_deadline tm = w_clock w1 -> In j r).
      { destruct (nth_error (w_timers w) i) as [tm|] eqn:Hn.
        - destruct (due w tm) eqn:Hd.
          + destruct (fire_R _ _ _ _ _ _ HR Hn Hd Ef) as (A & B & C). split; [exact A|split; [exact B|]].
            intros j t Pj Hdl. rewrite B in Hdl. destruct (C _ _ Pj) as [[Q Hne]|Q]; [|lia].
            destruct (Hin _ _ Q Hdl) as [->|Hr]; [contradiction|exact Hr].
          + inversion Ef; subst a w1. simpl. split; [exact HR|split; [reflexivity|]].
            intros j t Pj Hdl. destruct (Hin _ _ Pj Hdl) as [->|Hr]; [|exact Hr]. exfalso.
            destruct Pj as [Hnj Hpj]. rewrite Hn in Hnj. inversion Hnj; subst t.
            unfold due in Hd. rewrite Hpj, Hdl, Nat.eqb_refl in Hd. discriminate.
        - inversion Ef; subst a w1. simpl. split; [exact HR|split; [reflexivity|]].
          intros j t Pj Hdl. destruct (Hin _ _ Pj Hdl) as [->|Hr]; [|exact Hr]. exfalso.
          destruct Pj as [Hnj _]. rewrite Hn in Hnj. discriminate. }
      destruct X as (A & B & C). destruct (IH _ _ _ _ A Er C) as (A2 & B2).
      split; [exact A2|congruence].
  Qed.

  Lemma tick_R : forall w k its w',
    R true w k -> tick c w = (its, w') -> R true w' (ckr k its) /\ w_clock w' = S (w_clock w).
  Proof.
    intros w k its w' (A & B & I & D) E. unfold tick in E.
    set (w1 := mkW (S (w_clock w)) (w_st w) (w_timers w) (w_runner w) (w_tout w) (w_ot w)) in *.
    assert (R1 : R false w1 k).
    { split; [exact A|split; [simpl; lia|split; [|exact D]]].
      destruct I as [I1 I2 I3]. constructor.
      - exact I1.
      - exact I2.
      - intros j tm P. specialize (I3 j tm P). unfold not_overdue in *. simpl. lia. }
    destruct (fire_due_R _ _ _ _ _ R1 E) as (A2 & B2).
    - intros j tm [Hn _] _. apply in_seq. simpl. split; [lia|]. apply nth_error_Some. simpl in Hn. congruence.
    - split; [exact A2|exact B2].
  Qed.

  Lemma advance_R : forall dt w k its w',
    R true w k -> advance c w dt = (its, w') -> R true w' (ckr k its) /\ w_clock w' = w_clock w + dt.
  Proof.
    induction dt as [|dt IH]; intros w k its w' HR E; simpl in E.
    - inversion E; subst. simpl. split; [exact HR|lia].
    - destruct (tick c w) as [a w1] eqn:Et. destruct (advance c w1 dt) as [b w2] eqn:Ea.
      inversion E; subst its w'; clear E.
      destruct (tick_R _ _ _ _ HR Et) as (A & B). destruct (IH _ _ _ _ A Ea) as (A2 & B2).
      rewrite ck_run_app. split; [exact A2|lia].
  Qed.

  Lemma do_op_R : forall w k o,
    R true w k -> R true (snd (do_op c w o)) (ckr k (fst (fst (do_op c w o)))).
  Proof.
    intros w k o HR. destruct o as [m e|dt|s v|s l]; simpl.
    - destruct (top_trig c w m e) as [[its w'] r] eqn:Es. simpl.
      assert (R0 : R true w (ck_step c nm k (TUser m e (w_clock w)))).
      { pose proof (none_overdue_R nm _ _ HR) as N. destruct HR as (A & B & I & D).
        split; [|split; [|split]]; simpl; auto.
        rewrite A, N. replace (ck_last k <=? w_clock w) with true by (symmetry; apply Nat.leb_le; lia). reflexivity. }
      exact (proj1 (top_trig_R _ _ _ _ _ _ _ _ R0 Es)).
    - destruct (advance c w dt) as [its w'] eqn:Ea. simpl.
      exact (proj1 (advance_R _ _ _ _ _ HR Ea)).
    - destruct HR as (A & B & I & D & T). split; [|split; [|split; [|split]]].
      + simpl. rewrite A. replace (ck_last k <=? w_clock w) with true by (symmetry; apply Nat.leb_le; lia). reflexivity.
      + simpl. lia.
      + destruct I as [I1 I2 I3]. constructor; assumption.
      + intros m. simpl. exact (D m).
      + intros s'. simpl. unfold upd. destruct (Nat.eqb s' s); [reflexivity|apply T].
    - destruct HR as (A & B & I & D & T). split; [exact A|split; [exact B|split; [|split; [exact D|exact T]]]].
      destruct I as [I1 I2 I3]. constructor; assumption.
  Qed.

  Lemma run_R : forall h w k, R true w k -> R true (run_world c w h) (ckr k (run_trace c w h)).
  Proof.
    induction h as [|o r IH]; intros w k HR; simpl; [exact HR|].
    rewrite ck_run_app. apply IH. apply do_op_R. exact HR.
  Qed.
End Run.

Lemma R_init c s0 : R true (init_world c s0) (ck_init c s0).
Proof.
  split; [reflexivity|split; [simpl; lia|split; [|split; [|intros s; reflexivity]]]].
  - constructor.
    + intros s m i H. discriminate.
    + intros i tm [H _]. destruct i; discriminate.
    + intros i tm [H _]. destruct i; discriminate.
  - intros m. reflexivity.
Qed.

(* the property, for every configuration, number of models and history *)
Lemma timed_spec : forall c nm s0 h, guard_C17 c = true ->
  spec_C17 c nm s0 (run_trace c (init_world c s0) h) (w_clock (run_world c (init_world c s0) h)) = true.
Proof.
  intros c nm s0 h G. pose proof (run_R c nm G h _ _ (R_init c s0)) as HR. unfold spec_C17, ck_end.
  pose proof (none_overdue_R nm _ _ HR) as N. destruct HR as (A & B & _).
  rewrite A, N. replace (_ <=? _) with true by (symmetry; apply Nat.leb_le; exact B). reflexivity.
Qed.

Lemma inv_reachable : forall c s0 h, guard_C17 c = true -> Inv true (run_world c (init_world c s0) h).
Proof. intros c s0 h G. exact (proj1 (proj2 (proj2 (run_R c 0 G h _ _ (R_init c s0))))). Qed.


(* ----------------------------------------------------------------- local readings: one state change *)
Lemma R_of_inv : forall b w, Inv b w -> R b w (mkCk true 0 (fun m => Some (w_st w m, armed w m)) (w_tout w)).
Proof. intros b w I. split; [reflexivity|split; [simpl; lia|split; [exact I|split; intros; reflexivity]]]. Qed.

Lemma switch_local : forall b c w m d, Inv b w ->
  let w' := snd (switch c w m d) in
  Inv b w' /\
  armed w' m = period (w_tout w) d (w_clock w) /\
  (forall m', m' <> m -> armed w' m' = armed w m' /\ w_st w' m' = w_st w m') /\
  (forall j tm, pend w' j tm -> tm_model tm = m ->
     j = length (w_timers w) /\ tm_state tm = d /\ tm_deadline tm = w_clock w + w_tout w d).
Proof.
  intros b c w m d I w'. unfold w', switch.
  destruct (set_and_start c (cancel_slot w (w_st w m) m) m d) as [mk w1] eqn:E. simpl.
  destruct (switch_R c 0 _ _ _ _ _ _ _ (R_of_inv _ _ I) E) as ((_ & _ & I1 & _) & _ & St & Am & Ao & Pn).
  split; [exact I1|split; [exact Am|split]].
  - intros m' Hne. split; [apply Ao, Hne|]. rewrite St. destruct (Nat.eqb_spec m' m); [contradiction|reflexivity].
  - intros j tm P Hm. split; [exact (Pn _ _ P Hm)|].
    destruct (inv_pend _ _ I1 _ _ P) as [Hs _]. rewrite Hm, St, Nat.eqb_refl in Hs.
    pose proof (pend_armed _ _ _ _ I1 P) as Ha. rewrite Hm, Am in Ha. unfold period in Ha.
    destruct (0 <? w_tout w d); [|discriminate]. inversion Ha. auto.
Qed.

Lemma restart_local : forall b c w m d, Inv b w ->
  armed (snd (switch c w m d)) m = period (w_tout w) d (w_clock w).
Proof. intros b c w m d I. exact (proj1 (proj2 (switch_local b c w m d I))). Qed.

Lemma internal_local : forall rec c w q m e t,
  event_known c e = true -> first_ok (cands c e (w_st w m)) = Some t -> tt_dst t = None ->
  step rec c w q m e = ([], w, q, RTrue).
Proof.
  intros rec c w q m e t Hk Hf Hd. unfold step. rewrite Hk.
  destruct (cands c e (w_st w m)) as [|t0 l0]; [discriminate|]. rewrite Hf, Hd. reflexivity.
Qed.

Lemma never_if_left_local : forall b c w m d, Inv b w ->
  forall j tm, pend (snd (switch c w m d)) j tm -> tm_model tm = m ->
    j = length (w_timers w) /\ tm_state tm = d /\ tm_deadline tm = w_clock w + w_tout w d.
Proof. intros b c w m d I. exact (proj2 (proj2 (proj2 (switch_local b c w m d I)))). Qed.

Lemma per_model_local : forall b c w m d m', Inv b w -> m' <> m ->
  armed (snd (switch c w m d)) m' = armed w m' /\ w_st (snd (switch c w m d)) m' = w_st w m'.
Proof. intros b c w m d m' I Hne. exact (proj1 (proj2 (proj2 (switch_local b c w m d I))) m' Hne). Qed.

(* ----------------------------------------------------------------- construction *)
Lemma build_spec : forall l,
  build l = if existsb (fun p => Nat.ltb 0 (ts_timeout (snd p)) && negb (fst p)) l then Some XAttribute else None.
Proof.
  induction l as [|[g d] r IH]; simpl; [reflexivity|]. unfold build_state.
  destruct (Nat.ltb 0 (ts_timeout d) && negb g); simpl; [reflexivity|exact IH].
Qed.

(* ----------------------------------------------------------------- the handler's own items *)
Definition hkf (l : list titem) : Prop := forallb (fun it => negb (handler_kind it)) l = true.
Lemma hkf_app a b : hkf a -> hkf b -> hkf (a ++ b).
Proof. unfold hkf. intros A B. rewrite forallb_app, A, B. reflexivity. Qed.
Lemma hkf_map {A} (g : A -> titem) (l : list A) : (forall a, handler_kind (g a) = false) -> hkf (map g l).
Proof. intros H. unfold hkf. induction l; simpl; [reflexivity|]. now rewrite H, IHl. Qed.
Lemma filter_none {A} (f : A -> bool) (l : list A) : forallb (fun a => negb (f a)) l = true -> filter f l = [].
Proof.
  induction l as [|a r IH]; simpl; intros H; [reflexivity|]. apply andb_true_iff in H as [H1 H2].
  destruct (f a); [discriminate|auto].
Qed.

Definition rec_hk (rec : rec_t) : Prop := forall w q m e, hkf (fst (fst (fst (rec w q m e)))).

Section Hk.
  Variable c : tcfg.

  Lemma cbtrig_hk : forall rec, rec_hk rec -> rec_hk (cbtrig rec c).
  Proof.
    intros rec H w q m e. unfold cbtrig. destruct (tc_queued c); [|apply H].
    destruct (event_known c e); reflexivity.
  Qed.

  Lemma ecb_act_hk : forall rec w q m cb, rec_hk rec -> hkf (fst (fst (ecb_act rec c w q m cb))).
  Proof.
    intros rec w q m cb H. unfold ecb_act. destruct (ec_act cb) as [e|]; [|reflexivity].
    pose proof (cbtrig_hk _ H w q m e) as X. destruct (cbtrig rec c w q m e) as [[[its w'] q'] r]. simpl in *.
    apply hkf_app; [exact X|reflexivity].
  Qed.

  Lemma run_cbs_hk : forall rec mk m cbs w q, rec_hk rec ->
    (forall a b0 c0 d, handler_kind (mk a b0 c0 d) = false) ->
    hkf (fst (fst (run_cbs rec c mk w q m cbs))).
  Proof.
    intros rec mk m cbs w q H MK. unfold run_cbs. destruct (tc_async c).
    - assert (X : forall cbs w q, hkf (fst (fst (run_acts rec c w q m cbs)))).
      { clear cbs w q. induction cbs as [|cb r IH]; intros w q; simpl; [reflexivity|].
        pose proof (ecb_act_hk rec w q m cb H) as A. destruct (ecb_act rec c w q m cb) as [[ia w1] q1].
        specialize (IH w1 q1). destruct (run_acts rec c w1 q1 m r) as [[ir w2] q2]. simpl in *.
        apply hkf_app; assumption. }
      specialize (X cbs w q). destruct (run_acts rec c w q m cbs) as [[ia w1] q1]. simpl in *.
      apply hkf_app; [apply hkf_map; intros; apply MK|exact X].
    - revert w q. induction cbs as [|cb r IH]; intros w q; simpl; [reflexivity|].
      pose proof (ecb_act_hk rec w q m cb H) as A. destruct (ecb_act rec c w q m cb) as [[ia w1] q1].
      specialize (IH w1 q1). destruct (run_cbs_sync rec c mk w1 q1 m r) as [[ir w2] q2]. simpl in *.
      unfold hkf. simpl. rewrite MK. simpl. apply hkf_app; assumption.
  Qed.

  Lemma step_hk : forall rec, rec_hk rec -> rec_hk (step rec c).
  Proof.
    intros rec H w q m e. unfold step. destruct (negb (event_known c e)); [reflexivity|].
    destruct (cands c e (w_st w m)) as [|t0 l0].
    - destruct (tc_ignore c); [reflexivity|]. destruct (tc_onexc c) as [|h hs]; [reflexivity|].
      apply (hkf_map (fun h0 => COnExc h0 m 0 (w_clock w)) (h :: hs)). reflexivity.
    - destruct (first_ok (t0 :: l0)) as [t|]; [|reflexivity]. destruct (tt_dst t) as [d|]; [|reflexivity].
      unfold change_state.
      pose proof (run_cbs_hk rec CExit m (ts_exit (sdef c (w_st w m))) (cancel_slot w (w_st w m) m) q H
                             (fun _ _ _ _ => eq_refl)) as X.
      destruct (run_cbs rec c CExit (cancel_slot w (w_st w m) m) q m (ts_exit (sdef c (w_st w m)))) as [[ix w1] q1].
      destruct (set_and_start c w1 m d) as [mk w2] eqn:Es.
      pose proof (run_cbs_hk rec CEnter m (ts_enter (sdef c d)) w2 q1 H (fun _ _ _ _ => eq_refl)) as Y.
      destruct (run_cbs rec c CEnter w2 q1 m (ts_enter (sdef c d))) as [[ie w3] q3]. simpl in *.
      apply hkf_app; [exact X|apply hkf_app; [|exact Y]].
      unfold set_and_start in Es. inversion Es. reflexivity.
  Qed.

  Lemma trig_hk : forall fuel, rec_hk (trig fuel c).
  Proof. induction fuel as [|f IH]; simpl; [intros w q m e; reflexivity|apply step_hk, IH]. Qed.

  Lemma drain_hk : forall fuel w q, hkf (fst (fst (drain fuel c w q))).
  Proof.
    induction fuel as [|f IH]; intros w q; [reflexivity|]. rewrite drain_S.
    destruct q as [|[m e] q0]; [reflexivity|].
    pose proof (step_hk _ (trig_hk 0) w q0 m e) as X.
    destruct (step (trig 0 c) c w q0 m e) as [[[its1 w1] q1] r]. simpl in X.
    destruct (is_exn r); [exact X|]. specialize (IH w1 q1).
    destruct (drain f c w1 q1) as [[its2 w2] x2]. simpl in *. apply hkf_app; assumption.
  Qed.

  Lemma top_trig_hk : forall w m e, hkf (fst (fst (top_trig c w m e))).
  Proof.
    intros w m e. unfold top_trig. destruct (tc_queued c).
    - pose proof (step_hk _ (trig_hk 0) w [] m e) as X.
      destruct (step (trig 0 c) c w [] m e) as [[[its1 w1] q1] r]. simpl in X.
      destruct (is_exn r); [exact X|]. pose proof (drain_hk DRAIN_FUEL w1 q1) as Y.
      destruct (drain DRAIN_FUEL c w1 q1) as [[its2 w2] x2]. simpl in *. apply hkf_app; assumption.
    - pose proof (trig_hk FUEL w [] m e) as X. destruct (trig FUEL c w [] m e) as [[[its1 w1] q1] r]. exact X.
  Qed.

  Lemma acts_async_hk : forall m cbs w, hkf (fst (acts_async c w m cbs)).
  Proof.
    intros m cbs. induction cbs as [|cb r IH]; intros w; simpl; [reflexivity|].
    assert (A : hkf (fst (do_act c w m cb))).
    { unfold do_act. destruct (oc_act cb) as [[who e]|]; [|reflexivity].
      pose proof (top_trig_hk w (match who with Some k => k | None => m end) e) as X.
      destruct (top_trig c w (match who with Some k => k | None => m end) e) as [[its0 w0] r0]. simpl in *.
      apply hkf_app; [exact X|reflexivity]. }
    destruct (do_act c w m cb) as [ia w1]. specialize (IH w1). destruct (acts_async c w1 m r) as [ir w2].
    simpl in *. apply hkf_app; assumption.
  Qed.
End Hk.

Lemma filter_map_all {A} (g : A -> titem) (f : titem -> bool) (l : list A) :
  (forall a, f (g a) = true) -> filter f (map g l) = map g l.
Proof. intros H. induction l; simpl; [reflexivity|]. now rewrite H, IHl. Qed.
Lemma filter_map_none {A} (g : A -> titem) (f : titem -> bool) (l : list A) :
  (forall a, f (g a) = false) -> filter f (map g l) = [].
Proof. intros H. induction l; simpl; [reflexivity|]. now rewrite H, IHl. Qed.

Lemma first_raising_in : forall cbs k, first_raising cbs = Some k -> exists cb, In cb cbs /\ oc_id cb = k.
Proof.
  induction cbs as [|cb r IH]; simpl; intros k H; [discriminate|].
  destruct (oc_raise cb); [inversion H; exists cb; auto|]. destruct (IH _ H) as (x & A & B). exists x. auto.
Qed.

Lemma async_fire_items : forall b c w i tm,
  tc_async c = true -> Inv b w -> pend w i tm -> ids_positive (w_ot w) (tm_state tm) = true ->
  filter handler_kind (fst (fire c w i tm)) = async_firing c (w_ot w) (tm_model tm) (tm_state tm) (w_clock w).
Proof.
  intros b c w i tm Ha I P Hpos. unfold fire, handler, handler_async. rewrite Ha.
  set (w1 := set_timers w (upd_nth (w_timers w) i start_running)).
  set (cbs := w_ot w (tm_state tm)) in *.
  pose proof (acts_async_hk c (tm_model tm) cbs w1) as Q1. apply filter_none in Q1.
  destruct (acts_async c w1 (tm_model tm) cbs) as [ia w2]. simpl in *.
  destruct (inv_pend _ _ I _ _ P) as [Hs _]. rewrite Hs.
  rewrite !filter_app, Q1.
  rewrite (filter_map_all _ handler_kind) by reflexivity. unfold async_firing. fold cbs.
  destruct (first_raising cbs) as [k|] eqn:Hf; [|reflexivity].
  destruct (first_raising_in _ _ Hf) as (cb & Hin & Hid).
  unfold ids_positive in Hpos. fold cbs in Hpos. eapply forallb_forall in Hpos; [|exact Hin].
  apply Nat.ltb_lt in Hpos. rewrite Hid in Hpos.
  rewrite (filter_map_all _ handler_kind); [reflexivity|].
  intros h. simpl. destruct k; [lia|reflexivity].
Qed.

Lemma filter_sub {A} (f g : A -> bool) (l : list A) :
  (forall x, f x = true -> g x = true) -> filter f l = filter f (filter g l).
Proof.
  intros H. induction l as [|a r IH]; simpl; [reflexivity|].
  destruct (f a) eqn:Fa.
  - rewrite (H _ Fa). simpl. rewrite Fa, IH. reflexivity.
  - destruct (g a); simpl; [rewrite Fa|]; exact IH.
Qed.

Lemma async_shield : forall b c w i tm,
  tc_async c = true -> Inv b w -> pend w i tm -> ids_positive (w_ot w) (tm_state tm) = true ->
  filter is_ctimeout (fst (fire c w i tm)) =
    map (fun cb => CTimeout (oc_id cb) (tm_model tm) (tm_state tm) (w_clock w)) (w_ot w (tm_state tm)).
Proof.
  intros b c w i tm Ha I P Hpos. pose proof (async_fire_items b c w i tm Ha I P Hpos) as A.
  rewrite (filter_sub is_ctimeout handler_kind) by (intros [] H; simpl in *; congruence || reflexivity).
  rewrite A. unfold async_firing. simpl. rewrite filter_app.
  rewrite (filter_map_all _ is_ctimeout) by reflexivity.
  destruct (first_raising _); [rewrite (filter_map_none _ is_ctimeout) by reflexivity|]; simpl; apply app_nil_r.
Qed.

Lemma async_exception : forall b c w i tm,
  tc_async c = true -> Inv b w -> pend w i tm -> ids_positive (w_ot w) (tm_state tm) = true ->
  filter is_user_onexc (fst (fire c w i tm)) =
    match first_raising (w_ot w (tm_state tm)) with
    | Some k => map (fun h => COnExc h (tm_model tm) k (w_clock w)) (tc_onexc c)
    | None => []
    end.
Proof.
  intros b c w i tm Ha I P Hpos. pose proof (async_fire_items b c w i tm Ha I P Hpos) as A.
  rewrite (filter_sub is_user_onexc handler_kind) by (intros [] H; simpl in *; congruence || reflexivity).
  rewrite A. unfold async_firing. simpl. rewrite filter_app.
  rewrite (filter_map_none _ is_user_onexc) by reflexivity. simpl.
  destruct (first_raising _) as [k|] eqn:Hf; [|reflexivity].
  destruct (first_raising_in _ _ Hf) as (cb & Hin & Hid).
  unfold ids_positive in Hpos. eapply forallb_forall in Hpos; [|exact Hin].
  apply Nat.ltb_lt in Hpos. rewrite Hid in Hpos.
  apply filter_map_all. intros h. simpl. destruct k; [lia|reflexivity].
Qed.
