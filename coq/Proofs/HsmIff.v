(* HsmIff.v — hierarchical machines: may_<event> is True exactly when the trigger executes a transition
   (C12), and the trigger returns True iff some transition executed, having offered the event to every
   active (scope, source) pair otherwise (C03, completeness of the scope recursion). *)
From Coq Require Import List Arith Bool Lia.
From M Require Import Base Flat Hsm HsmSpec.
From P Require Import MonadP HsmForest HsmResolve HsmReach HsmOffer.
Import ListNotations.

Section Iff.
  Variable hm : hmachine.
  Variable ev : env.
  Variable c : ctx.
  Variable e : event.
  Notation HM := (M (V:=forest) (S:=forest)).
  Notation ids := (fun s : forest => s).

  Hypothesis NR : forall cb q, r_raise (ev cb q) = None.
  Hypothesis DET : forall cb p q, ev cb p = ev cb q.

  (* the (position independent) value of a transition's checks *)
  Definition passes (conds : list (cbid * bool)) : bool :=
    forallb (fun ct => Bool.eqb (r_ret (ev (fst ct) 0)) (snd ct)) conds.
  Definition tpass (t : htrans) : bool := passes (ht_conds t).

  (* [m] always returns [a], leaves the configuration alone *)
  Definition yields {A} (m : HM A) (a : A) : Prop := forall p s, exists tr, m p s = (tr, s, inr a).

  Lemma y_ret {A} (a : A) : yields (ret a) a.
  Proof. intros p s. exists []. reflexivity. Qed.
  Lemma y_bind {A B} (m : HM A) (k : A -> HM B) a b : yields m a -> yields (k a) b -> yields (bind m k) b.
  Proof.
    intros Hm Hk p s. destruct (Hm p s) as [t1 E1]. destruct (Hk (p + length t1) s) as [t2 E2].
    exists (t1 ++ t2). unfold bind. rewrite E1, E2. reflexivity.
  Qed.
  Lemma y_call sl err cb : yields (call ids ev c sl err cb) (r_ret (ev cb 0)).
  Proof. intros p s. unfold call. rewrite NR. rewrite (DET cb p 0). eexists. reflexivity. Qed.
  Lemma y_run_cbs sl err cbs : yields (run_cbs ids ev c sl err cbs) tt.
  Proof.
    induction cbs as [|cb r IH]; cbn [run_cbs]; [apply y_ret|].
    eapply y_bind; [apply y_call|exact IH].
  Qed.
  Lemma y_eval_conds conds : yields (eval_conds ids ev c conds) (passes conds).
  Proof.
    induction conds as [|[cb tg] r IH]; cbn [eval_conds passes forallb fst snd]; [apply y_ret|].
    eapply y_bind; [apply y_call|]. destruct (Bool.eqb (r_ret (ev cb 0)) tg); cbn [andb]; [exact IH|apply y_ret].
  Qed.
  Lemma y_try_catch {A} (m : HM A) h a : yields m a -> yields (try_catch m h) a.
  Proof. intros Hm p s. destruct (Hm p s) as [t E]. exists t. unfold try_catch. now rewrite E. Qed.

  (* ------------------------------------------------------------------ may_ *)
  Definition tok (sc : path) (t : htrans) : bool := andb (hdest_ok hm sc t) (tpass t).

  Lemma y_can_one t : yields (can_one hm ev c t) (tpass t).
  Proof.
    unfold can_one. apply y_try_catch.
    eapply y_bind; [apply y_run_cbs|]. eapply y_bind; [apply y_run_cbs|]. apply y_eval_conds.
  Qed.
  Lemma y_can_cands sc ts : yields (can_cands hm ev c sc ts) (existsb (tok sc) ts).
  Proof.
    induction ts as [|t r IH]; cbn [can_cands existsb]; [apply y_ret|]. unfold tok at 1.
    destruct (hdest_ok hm sc t); cbn [andb orb]; [|exact IH].
    eapply y_bind; [apply y_can_one|]. destruct (tpass t); cbn [orb]; [apply y_ret|exact IH].
  Qed.
  Definition pair_ok (sc : path) (ts : list htrans) (q : path) : bool := existsb (tok sc) (cands ts q).
  Lemma y_can_sources sc ts srcs : yields (can_sources hm ev c sc ts srcs) (existsb (pair_ok sc ts) srcs).
  Proof.
    induction srcs as [|q r IH]; cbn [can_sources existsb]; [apply y_ret|].
    eapply y_bind; [apply y_can_cands|]. fold (pair_ok sc ts q). destruct (pair_ok sc ts q); cbn [orb]; [apply y_ret|exact IH].
  Qed.
  Definition scope_ok (sc : path) (p : path) : bool :=
    match lookup (scope_events hm sc) e with
    | Some ts => existsb (pair_ok sc ts) (rev (nonempty_prefixes p))
    | None => false
    end.
  Fixpoint nested_ok (sc : path) (p : path) : bool :=
    orb (scope_ok sc p) (match p with [] => false | n :: r => nested_ok (sc ++ [n]) r end).
  Lemma y_can_nested : forall p sc, yields (can_nested hm ev c e sc p) (nested_ok sc p).
  Proof.
    induction p as [|n r IH]; intros sc; cbn [can_nested nested_ok].
    - eapply y_bind with (a := scope_ok sc []).
      + unfold scope_ok. destruct (lookup (scope_events hm sc) e); [apply y_can_sources|apply y_ret].
      + destruct (scope_ok sc []); cbn [orb]; apply y_ret.
    - eapply y_bind with (a := scope_ok sc (n :: r)).
      + unfold scope_ok. destruct (lookup (scope_events hm sc) e); [apply y_can_sources|apply y_ret].
      + destruct (scope_ok sc (n :: r)); cbn [orb]; [apply y_ret|apply IH].
  Qed.
  Lemma y_can_any ps : yields (can_any hm ev c e ps) (existsb (nested_ok []) ps).
  Proof.
    induction ps as [|p r IH]; cbn [can_any existsb]; [apply y_ret|].
    eapply y_bind; [apply y_can_nested|]. destruct (nested_ok [] p); cbn [orb]; [apply y_ret|exact IH].
  Qed.

  (* a transition of event e that could be executed in configuration f: declared in scope sc for the
     active source sc ++ q, destination registered, checks pass *)
  Definition avail (f : forest) : Prop :=
    exists sc q ts t, lookup (scope_events hm sc) e = Some ts /\ q <> [] /\ active f (sc ++ q) = true /\
                      In t (cands ts q) /\ hdest_ok hm sc t = true /\ tpass t = true.

  Lemma nested_ok_spec : forall p sc,
    nested_ok sc p = true <->
    exists x q r ts t, p = x ++ q ++ r /\ q <> [] /\ lookup (scope_events hm (sc ++ x)) e = Some ts /\
                       In t (cands ts q) /\ tok (sc ++ x) t = true.
  Proof.
    induction p as [|n r0 IH]; intros sc; cbn [nested_ok].
    - unfold scope_ok. cbn [nonempty_prefixes rev existsb]. split.
      + destruct (lookup (scope_events hm sc) e); cbn; discriminate.
      + intros (x & q & r & ts & t & H & Hq & _). destruct x; destruct q; try discriminate; congruence.
    - rewrite orb_true_iff. split.
      + intros [H|H].
        * unfold scope_ok in H. destruct (lookup (scope_events hm sc) e) as [ts|] eqn:L; [|discriminate].
          apply existsb_exists in H as (q & Hq & Hp). apply in_rev in Hq. apply in_nonempty_prefixes in Hq as (Hq & r & Hr).
          unfold pair_ok in Hp. apply existsb_exists in Hp as (t & Ht & Hok).
          exists [], q, r, ts, t. rewrite app_nil_r. cbn [app]. auto.
        * apply IH in H as (x & q & r & ts & t & H1 & H2 & H3 & H4 & H5).
          exists (n :: x), q, r, ts, t. rewrite <- app_assoc in H3, H5. cbn [app] in *. subst r0. auto.
      + intros (x & q & r & ts & t & H1 & H2 & H3 & H4 & H5). destruct x as [|m x'].
        * left. rewrite app_nil_r in H3, H5. unfold scope_ok. rewrite H3. apply existsb_exists. exists q. split.
          -- apply -> in_rev. apply in_nonempty_prefixes. split; [exact H2|]. exists r. exact H1.
          -- unfold pair_ok. apply existsb_exists. exists t. auto.
        * right. cbn [app] in H1. injection H1 as <- ->. apply IH. exists x', q, r, ts, t.
          rewrite <- app_assoc. cbn [app]. auto.
  Qed.

  Lemma may_ok_avail f : uniq f = true -> (existsb (nested_ok []) (resolve_order f) = true <-> avail f).
  Proof.
    intros U. split.
    - intros H. apply existsb_exists in H as (p & Hp & Hn). apply in_resolve_order in Hp.
      apply (in_nodes_active p f U) in Hp as [Hne Ha].
      apply nested_ok_spec in Hn as (x & q & r & ts & t & H1 & H2 & H3 & H4 & H5). cbn [app] in *.
      unfold tok in H5. apply andb_true_iff in H5 as [H5 H6].
      exists x, q, ts, t. repeat split; auto. subst p. rewrite app_assoc in Ha. eapply active_prefix. exact Ha.
    - intros (sc & q & ts & t & H1 & H2 & H3 & H4 & H5 & H6). apply existsb_exists. exists (sc ++ q). split.
      + apply in_resolve_order. apply (in_nodes_active _ f U). split; [|exact H3]. destruct sc; [exact H2|discriminate].
      + apply nested_ok_spec. exists sc, q, [], ts, t. rewrite app_nil_r. cbn [app]. repeat split; auto.
        unfold tok. now rewrite H5, H6.
  Qed.

  Theorem may_iff_avail p f : uniq f = true ->
    exists tr b, can_trigger hm ev c e p f = (tr, f, inr b) /\ (b = true <-> avail f).
  Proof.
    intros U. unfold can_trigger, bind, get. cbn [length].
    destruct (y_can_any (resolve_order f) (p + 0) f) as [tr E]. rewrite E. cbn [app].
    exists tr, (existsb (nested_ok []) (resolve_order f)). split; [reflexivity|]. now apply may_ok_avail.
  Qed.

  (* ------------------------------------------------------------------ the trigger *)
  Lemma y_bind_inv {A B} (m : HM A) (k : A -> HM B) a p s tr s' r :
    yields m a -> bind m k p s = (tr, s', r) ->
    exists t1 t2, k a (p + length t1) s = (t2, s', r) /\ tr = t1 ++ t2.
  Proof.
    intros Hm H. destruct (Hm p s) as [t1 E1]. unfold bind in H. rewrite E1 in H.
    destruct (k a (p + length t1) s) as [[t2 s2] r2] eqn:E2. injection H as <- <- <-. exists t1, t2. auto.
  Qed.

  Lemma execute_inv sc t p s tr s' b :
    execute hm ev c sc t p s = (tr, s', inr b) ->
    b = tpass t /\ (b = false -> s' = s) /\ (b = true -> hdest_ok hm sc t = true).
  Proof.
    unfold execute. intros H.
    apply (y_bind_inv _ _ tt) in H as (t1 & t2 & H & _); [|apply y_run_cbs].
    apply (y_bind_inv _ _ (tpass t)) in H as (t3 & t4 & H & _); [|apply y_eval_conds].
    destruct (tpass t) eqn:TP.
    - apply (y_bind_inv _ _ tt) in H as (t5 & t6 & H & _); [|apply y_run_cbs].
      apply (y_bind_inv _ _ tt) in H as (t7 & t8 & H & _); [|apply y_run_cbs].
      apply bind_inr in H as (u1 & s1 & [] & u2 & H1 & H2 & _).
      apply (y_bind_inv _ _ tt) in H2 as (t9 & t10 & H2 & _); [|apply y_run_cbs].
      apply (y_bind_inv _ _ tt) in H2 as (t11 & t12 & H2 & _); [|apply y_run_cbs].
      apply ret_inr in H2 as (_ & _ & ->). split; [reflexivity|]. split; [discriminate|]. intros _.
      unfold hdest_ok. destruct (ht_dst t) as [d|]; [|reflexivity].
      unfold change_state in H1. destruct (find_def (scope_children hm sc) d); [reflexivity|].
      unfold raise in H1. discriminate.
    - apply ret_inr in H as (_ & -> & ->). split; [reflexivity|]. split; [reflexivity|discriminate].
  Qed.

  Lemma try_transitions_inv sc : forall ts p s tr s' b,
    try_transitions hm ev c sc ts p s = (tr, s', inr b) ->
    (b = false /\ s' = s /\ existsb tpass ts = false) \/ (b = true /\ exists t, In t ts /\ tok sc t = true).
  Proof.
    induction ts as [|t r IH]; intros p s tr s' b H; cbn [try_transitions] in H.
    - apply ret_inr in H as (_ & -> & ->). left. auto.
    - apply bind_inr in H as (t1 & s1 & ok & t2 & H1 & H2 & _).
      apply execute_inv in H1 as (E1 & E2 & E3). destruct ok.
      + apply ret_inr in H2 as (_ & _ & ->). right. split; [reflexivity|]. exists t. split; [now left|].
        unfold tok. rewrite (E3 eq_refl), <- E1. reflexivity.
      + rewrite (E2 eq_refl) in H2. apply IH in H2 as [(-> & -> & N)|(-> & t' & I & K)].
        * left. cbn [existsb]. rewrite <- E1, N. auto.
        * right. split; [reflexivity|]. exists t'. split; [now right|exact K].
  Qed.

  Section Loop.
    Variable sc : path.
    Variable ts : list htrans.
    Let A := (fun p : path => run_cbs ids ev c SPrepareEvent None (hm_prepare_event hm) ;;; try_transitions hm ev c sc (cands ts p)).
    Let hc := (fun p : path => match cands ts p with [] => false | _ => true end).

    Lemma offer_loop_inv : forall order done result p0 s tr s' res log,
      offer_loop_gen A hc sc order done result p0 s = (tr, s', inr (res, log)) ->
      (result = Some true -> res = Some true) /\
      (result <> Some true ->
         (s' = s /\ res <> Some true /\
          (forall q, In q order -> existsb (path_eqb q) done = false -> active s (sc ++ q) = true ->
                     existsb tpass (cands ts q) = false))
         \/ (res = Some true /\ exists q t, In q order /\ active s (sc ++ q) = true /\ In t (cands ts q) /\ tok sc t = true)).
    Proof.
      induction order as [|p rest IH]; intros done result p0 s tr s' res log H; cbn [offer_loop_gen] in H.
      - apply ret_inr in H as (_ & -> & H). injection H as <- _. split; [auto|]. intros N. left. repeat split; auto. intros q [].
      - destruct (existsb (path_eqb p) done || negb (hc p)) eqn:SK.
        + apply IH in H as [I1 I2]. split; [exact I1|]. intros N. destruct (I2 N) as [(-> & R & Cv)|(-> & q & t & Hq & Hr)].
          * left. repeat split; auto. intros q [<-|Hq] D Ac; [|now apply Cv].
            apply orb_true_iff in SK as [SK|SK]; [congruence|]. unfold hc in SK. destruct (cands ts p); [reflexivity|discriminate].
          * right. split; [reflexivity|]. exists q, t. split; [now right|exact Hr].
        + apply bind_inr in H as (t0 & s0 & f & t1 & G & H & _). apply get_inr in G as (_ & -> & ->).
          destruct (negb (active s (sc ++ p))) eqn:AC.
          * apply IH in H as [I1 I2]. split; [exact I1|]. intros N. destruct (I2 N) as [(-> & R & Cv)|(-> & q & t & Hq & Hr)].
            -- left. repeat split; auto. intros q [<-|Hq] D Ac; [|now apply Cv]. rewrite Ac in AC. discriminate.
            -- right. split; [reflexivity|]. exists q, t. split; [now right|exact Hr].
          * apply negb_false_iff in AC.
            apply bind_inr in H as (t2 & s2 & ok & t3 & H1 & H & _).
            apply bind_inr in H as (t4 & s4 & [r l] & t5 & H2 & H3 & _).
            apply ret_inr in H3 as (_ & -> & H3). injection H3 as <- _. cbn [fst].
            unfold A in H1. apply (y_bind_inv _ _ tt) in H1 as (u1 & u2 & H1 & _); [|apply y_run_cbs].
            apply try_transitions_inv in H1 as [(-> & -> & NP)|(-> & t & It & Kt)].
            -- apply IH in H2 as [I1 I2]. split.
               ++ intros ->. now apply I1.
               ++ intros N. assert (N' : match result with None => Some false | Some _ => result end <> Some true)
                    by (destruct result as [[|]|]; congruence).
                  destruct (I2 N') as [(-> & R & Cv)|(-> & q & t & Hq & Hr)].
                  ** left. repeat split; auto. intros q [<-|Hq] D Ac; [exact NP|now apply Cv].
                  ** right. split; [reflexivity|]. exists q, t. split; [now right|exact Hr].
            -- apply IH in H2 as [I1 _]. specialize (I1 eq_refl). rewrite I1. split; [auto|]. intros _. right.
               split; [reflexivity|]. exists p, t. split; [now left|]. auto.
    Qed.
  End Loop.

  Definition pair_pass (sc q : path) : bool :=
    match lookup (scope_events hm sc) e with Some ts => existsb tpass (cands ts q) | None => false end.

  Lemma avail_of sc ts q t s : lookup (scope_events hm sc) e = Some ts -> q <> [] -> active s (sc ++ q) = true ->
    In t (cands ts q) -> tok sc t = true -> avail s.
  Proof.
    intros L Q Ac I K. unfold tok in K. apply andb_true_iff in K as [K1 K2]. exists sc, q, ts, t. repeat split; auto.
  Qed.

  Lemma active_single key ch r : active [Node key ch] (key :: r) = active ch r.
  Proof. unfold active. cbn [sub f_get t_name t_children]. rewrite Nat.eqb_refl. reflexivity. Qed.

  Lemma trigger_nested_inv sc ts key cur ch p s tr s' r :
    uniq s = true -> lookup (scope_events hm sc) e = Some ts ->
    sub s sc = Some cur -> f_get cur key = Some ch ->
    trigger_nested hm ev c sc ts key p s = (tr, s', inr r) ->
    (s' = s /\ r <> Some true /\ (forall q0, active s (sc ++ key :: q0) = true -> pair_pass sc (key :: q0) = false))
    \/ (r = Some true /\ avail s).
  Proof.
    intros U L S G H. unfold trigger_nested in H.
    apply bind_inr in H as (t0 & s0 & f & t1 & G0 & H & _). apply get_inr in G0 as (_ & -> & ->).
    rewrite S, G in H. apply bind_inr in H as (t2 & s2 & [res log] & t3 & H1 & H2 & _).
    apply ret_inr in H2 as (_ & -> & ->). cbn [fst]. unfold offer_loop in H1.
    apply offer_loop_inv in H1 as [_ I2]. specialize (I2 ltac:(discriminate)).
    assert (UC : uniq [Node key ch] = true).
    { apply uniq_single. eapply uniq_child; [eapply uniq_sub; [exact U|exact S]|]. eapply f_get_In. exact G. }
    assert (ACT : forall q0, active s (sc ++ key :: q0) = active [Node key ch] (key :: q0)).
    { intros q0. rewrite active_app, S, active_single. unfold active. cbn [sub]. rewrite G. reflexivity. }
    destruct I2 as [(-> & R & Cv)|(-> & q & t & Hq & Ac & It & Kt)].
    - left. repeat split; auto. intros q0 Ac. unfold pair_pass. rewrite L. apply Cv; [|reflexivity|exact Ac].
      apply in_resolve_order. apply (in_nodes_active _ _ UC). split; [discriminate|]. now rewrite <- ACT.
    - right. split; [reflexivity|]. eapply avail_of; eauto.
      apply in_resolve_order in Hq. apply (in_nodes_active _ _ UC) in Hq as [Hq _]. exact Hq.
  Qed.

  (* every (scope, source) pair below scope sc whose absolute path starts with sc ++ [key] *)
  Definition cov_ok (s : forest) (sc : path) (key : nat) : Prop :=
    forall x q r, q <> [] -> x ++ q = key :: r -> active s (sc ++ x ++ q) = true -> pair_pass (sc ++ x) q = false.

  Definition dispatch_f_stmt (l : list tree) : Prop :=
    forall sc cur acc p s tr s' r,
      uniq s = true -> sub s sc = Some cur -> (forall k ch, In (Node k ch) l -> f_get cur k = Some ch) ->
      dispatch_f hm ev c e sc l acc p s = (tr, s', inr r) ->
      (acc = Some true -> r = Some true) /\
      (acc <> Some true ->
         (s' = s /\ r <> Some true /\ (forall k ch, In (Node k ch) l -> cov_ok s sc k)) \/ (r = Some true /\ avail s)).

  Definition dispatch_t_stmt (t : tree) : Prop :=
    forall sc cur p s tr s' r,
      uniq s = true -> sub s sc = Some cur -> f_get cur (t_name t) = Some (t_children t) ->
      dispatch_t hm ev c e sc t p s = (tr, s', inr r) ->
      (s' = s /\ r <> Some true /\ cov_ok s sc (t_name t)) \/ (r = Some true /\ avail s).

  Lemma dispatch_f_acc_true : forall l sc p s tr s' r,
    dispatch_f hm ev c e sc l (Some true) p s = (tr, s', inr r) -> r = Some true.
  Proof.
    induction l as [|t l IH]; intros sc p s tr s' r H; cbn [dispatch_f] in H.
    - apply ret_inr in H as (_ & _ & ->). reflexivity.
    - apply bind_inr in H as (t1 & s1 & x & t2 & _ & H & _). destruct x as [b|]; [|eapply IH; exact H].
      cbn [orb] in H. rewrite orb_true_r in H. eapply IH; exact H.
  Qed.

  Lemma dispatch_f_of_t l : Forall dispatch_t_stmt l -> dispatch_f_stmt l.
  Proof.
    induction l as [|t l IH]; intros HF sc cur acc p s tr s' r U S Ch H; cbn [dispatch_f] in H.
    - apply ret_inr in H as (_ & -> & ->). split; [auto|]. intros N. left. repeat split; auto. intros k ch [].
    - inversion HF as [|? ? Ht Hl]; subst. specialize (IH Hl).
      apply bind_inr in H as (t1 & s1 & x & t2 & H1 & H2 & _). split.
      + intros ->. destruct x as [b|]; [cbn [orb] in H2; rewrite orb_true_r in H2|]; eapply dispatch_f_acc_true; exact H2.
      + intros N. destruct t as [k0 ch0].
        destruct (Ht sc cur _ _ _ _ _ U S (Ch k0 ch0 (or_introl eq_refl)) H1) as [(-> & R & Cv)|(-> & Av)].
        * assert (N' : match x with None => acc | Some b => Some (b || match acc with Some a => a | None => false end) end <> Some true).
          { destruct x as [[|]|]; [congruence| |exact N]. destruct acc as [[|]|]; cbn; congruence. }
          destruct (IH sc cur _ _ _ _ _ _ U S (fun k ch I => Ch k ch (or_intror I)) H2) as [_ I2].
          destruct (I2 N') as [(-> & R2 & Cv2)|(-> & Av)]; [left|right; auto].
          repeat split; auto. intros k ch [E|I]; [injection E as <- <-; exact Cv|eapply Cv2; exact I].
        * right. split; [|exact Av]. cbn [orb] in H2. eapply dispatch_f_acc_true. exact H2.
  Qed.

  Lemma dispatch_go_eq sc key : forall l acc p s,
    (fix go (l : list tree) (acc : option bool) : HM (option bool) :=
       match l with
       | [] => ret acc
       | t' :: l' =>
           r <- dispatch_t hm ev c e (sc ++ [key]) t' ;;
           go l' (match r with
                  | None => acc
                  | Some b => Some (orb b (match acc with Some a => a | None => false end))
                  end)
       end) l acc p s = dispatch_f hm ev c e (sc ++ [key]) l acc p s.
  Proof.
    induction l as [|t' l' IH]; intros acc p s; [reflexivity|]. cbn [dispatch_f]. unfold bind.
    destruct (dispatch_t hm ev c e (sc ++ [key]) t' p s) as [[t1 s1] [x|a]]; [reflexivity|]. rewrite IH. reflexivity.
  Qed.

  Lemma dispatch_t_all : forall t, dispatch_t_stmt t.
  Proof.
    induction t as [key ch IH] using tree_ind2. intros sc cur p s tr s' r U S G H. cbn [t_name t_children] in *.
    cbn [dispatch_t] in H.
    apply bind_inr in H as (t0 & s0 & f & t1 & G0 & H & _). apply get_inr in G0 as (_ & -> & ->).
    assert (AK : active s (sc ++ [key]) = true).
    { rewrite active_app, S. unfold active. cbn [sub]. now rewrite G. }
    rewrite AK in H. cbn [negb] in H.
    apply bind_inr in H as (t2 & s2 & r1 & t3 & H1 & H2 & _).
    assert (H1' : dispatch_f hm ev c e (sc ++ [key]) ch None (p + length t0) s = (t2, s2, inr r1)).
    { destruct ch as [|c0 r0]; [exact H1|]. rewrite <- dispatch_go_eq. exact H1. }
    clear H1. pose proof (dispatch_f_of_t ch IH) as DF.
    assert (S2 : sub s (sc ++ [key]) = Some ch) by (rewrite sub_app, S; cbn [sub]; now rewrite G).
    assert (UCh : uniq ch = true) by (eapply uniq_sub; [exact U|exact S2]).
    assert (CH : forall k ch', In (Node k ch') ch -> f_get ch k = Some ch').
    { intros k ch' I. apply In_f_get; [|exact I]. unfold uniq in UCh. now apply andb_true_iff in UCh as [X _]. }
    destruct (DF _ _ _ _ _ _ _ _ U S2 CH H1') as [_ D2]. specialize (D2 ltac:(discriminate)).
    destruct D2 as [(-> & R1 & Cv1)|(-> & Av)].
    2:{ apply ret_inr in H2 as (_ & _ & ->). right. auto. }
    (* children quiet *)
    assert (COV : (forall q0, active s (sc ++ key :: q0) = true -> pair_pass sc (key :: q0) = false) -> cov_ok s sc key).
    { intros TN x q r0 Q E Ac. destruct x as [|k x'].
      - cbn [app] in E. subst q. rewrite app_nil_r. apply TN. exact Ac.
      - cbn [app] in E. injection E as -> E.
        assert (E2 : sc ++ (key :: x') ++ q = (sc ++ [key]) ++ x' ++ q) by (rewrite <- app_assoc; reflexivity).
        assert (E3 : sc ++ key :: x' = (sc ++ [key]) ++ x') by (rewrite <- app_assoc; reflexivity).
        rewrite E2 in Ac. rewrite E3.
        destruct (x' ++ q) as [|k2 r2] eqn:XQ; [destruct x'; [cbn in XQ; congruence|discriminate]|].
        assert (exists ch2, f_get ch k2 = Some ch2) as [ch2 G2].
        { rewrite active_app, S2 in Ac. unfold active in Ac. cbn [sub] in Ac. destruct (f_get ch k2); [eauto|discriminate]. }
        apply (Cv1 k2 ch2 (f_get_In _ _ _ G2) x' q r2 Q XQ). rewrite XQ. exact Ac. }
    destruct r1 as [[|]|]; [congruence| |].
    - destruct (lookup (scope_events hm sc) e) as [ts|] eqn:L.
      + apply bind_inr in H2 as (t4 & s4 & r2 & t5 & H3 & H4 & _).
        apply ret_inr in H4 as (_ & -> & ->).
        destruct (trigger_nested_inv _ _ _ _ _ _ _ _ _ _ U L S G H3) as [(-> & R2 & TN)|(-> & Av)].
        * left. split; [reflexivity|]. split; [destruct r2 as [[|]|]; congruence|]. apply COV. exact TN.
        * right. auto.
      + apply ret_inr in H2 as (_ & -> & ->). left. split; [reflexivity|]. split; [discriminate|].
        apply COV. intros q0 _. unfold pair_pass. now rewrite L.
    - destruct (lookup (scope_events hm sc) e) as [ts|] eqn:L.
      + apply bind_inr in H2 as (t4 & s4 & r2 & t5 & H3 & H4 & _).
        apply ret_inr in H4 as (_ & -> & ->).
        destruct (trigger_nested_inv _ _ _ _ _ _ _ _ _ _ U L S G H3) as [(-> & R2 & TN)|(-> & Av)].
        * left. split; [reflexivity|]. split; [destruct r2 as [[|]|]; congruence|]. apply COV. exact TN.
        * right. auto.
      + apply ret_inr in H2 as (_ & -> & ->). left. split; [reflexivity|]. split; [discriminate|].
        apply COV. intros q0 _. unfold pair_pass. now rewrite L.
  Qed.

  Lemma check_leaves_inr : forall ls p s tr s' b, check_leaves hm e ls p s = (tr, s', inr b) -> b = false.
  Proof.
    induction ls as [|l r IH]; intros p s tr s' b H; cbn [check_leaves] in H.
    - apply ret_inr in H as (_ & _ & ->). reflexivity.
    - destruct (defs_at hm l) as [d|]; [|discriminate].
      destruct (match sd_ignore d with Some b0 => b0 | None => hm_ignore hm end); [eapply IH; exact H|].
      destruct (has_trigger hm e); discriminate.
  Qed.

  Definition trigger_body : HM bool :=
    f <- get ;;
    r <- dispatch_f hm ev c e [] f None ;;
    match r with
    | Some b => ret b
    | None => f' <- get ;; check_leaves hm e (leaves f')
    end.

  Theorem body_iff_avail p f tr f' b : uniq f = true ->
    trigger_body p f = (tr, f', inr b) -> (b = true <-> avail f).
  Proof.
    intros U H. unfold trigger_body in H.
    apply bind_inr in H as (t0 & s0 & g & t1 & G0 & H & _). apply get_inr in G0 as (_ & -> & ->).
    apply bind_inr in H as (t2 & s2 & r & t3 & H1 & H2 & _).
    assert (CH : forall k ch, In (Node k ch) f -> f_get f k = Some ch).
    { intros k ch I. apply In_f_get; [|exact I]. unfold uniq in U. now apply andb_true_iff in U as [X _]. }
    pose proof (dispatch_f_of_t f (proj2 (Forall_forall _ _) (fun t _ => dispatch_t_all t))) as DF.
    destruct (DF [] f None _ _ _ _ _ U eq_refl CH H1) as [_ D2]. specialize (D2 ltac:(discriminate)).
    destruct D2 as [(-> & R & Cv)|(-> & Av)].
    - assert (NA : ~ avail f).
      { intros (sc & q & ts & t & L & Q & Ac & I & K1 & K2).
        destruct (sc ++ q) as [|k r0] eqn:SQ; [destruct sc; [cbn in SQ; congruence|discriminate]|].
        assert (exists ch, f_get f k = Some ch) as [ch G].
        { unfold active in Ac. cbn [sub] in Ac. destruct (f_get f k); [eauto|discriminate]. }
        pose proof (Cv k ch (f_get_In _ _ _ G) sc q r0 Q SQ) as X. cbn [app] in X. rewrite SQ in X. specialize (X Ac).
        unfold pair_pass in X. rewrite L in X.
        assert (existsb tpass (cands ts q) = true) by (apply existsb_exists; eauto). congruence. }
      assert (b = false).
      { destruct r as [[|]|]; [congruence|apply ret_inr in H2 as (_ & _ & ->); reflexivity|].
        apply bind_inr in H2 as (t4 & s4 & g & t5 & _ & H2 & _). eapply check_leaves_inr. exact H2. }
      subst b. split; [discriminate|]. intros X. contradiction.
    - apply ret_inr in H2 as (_ & _ & ->). split; auto.
  Qed.

  Lemma run_cbs_head sl err cb r p s tr s' res :
    run_cbs ids ev c sl err (cb :: r) p s = (tr, s', res) -> exists it tl, tr = it :: tl /\ it_slot it = sl.
  Proof.
    cbn [run_cbs]. unfold bind, call. rewrite NR. cbn [length].
    destruct (run_cbs ids ev c sl err r (p + 1) s) as [[t2 s2] r2]. intros H. injection H as <- _ _.
    eexists. eexists. split; [reflexivity|reflexivity].
  Qed.

  Theorem trigger_iff_avail p f tr f' b : uniq f = true ->
    trigger_event hm ev c e p f = (tr, f', inr b) ->
    Forall (fun it => it_slot it <> SOnException) tr ->
    (b = true <-> avail f).
  Proof.
    intros U H NH. unfold trigger_event in H. fold trigger_body in H. unfold try_except_finally in H.
    destruct (trigger_body p f) as [[t1 s1] [x|a]] eqn:B.
    - exfalso. destruct (hm_on_exception hm) as [|h hs].
      + unfold raise in H. destruct (run_cbs ids ev c SFinalize (Some x) (hm_finalize hm) (p + length t1 + length (@nil (gitem forest))) s1) as [[t3 s3] r3].
        discriminate.
      + destruct ((run_cbs ids ev c SOnException (Some x) (h :: hs) ;;; ret false) (p + length t1) s1) as [[t2 s2] r2] eqn:E2.
        unfold bind in E2. destruct (run_cbs ids ev c SOnException (Some x) (h :: hs) (p + length t1) s1) as [[u1 v1] w1] eqn:E3.
        apply run_cbs_head in E3 as (it & tl & -> & SL).
        destruct (run_cbs ids ev c SFinalize (Some x) (hm_finalize hm) (p + length t1 + length t2) s2) as [[t3 s3] r3].
        injection H as <- _ _.
        assert (In it (t1 ++ t2 ++ t3)).
        { apply in_or_app. right. apply in_or_app. left. destruct w1; [injection E2 as <- _ _; now left|].
          destruct (ret false (p + length t1 + length (it :: tl)) v1) as [[a1 a2] a3]. injection E2 as <- _ _. now left. }
        rewrite Forall_forall in NH. apply (NH it H). exact SL.
    - destruct (run_cbs ids ev c SFinalize None (hm_finalize hm) (p + length t1) s1) as [[t3 s3] r3].
      injection H as _ _ <-. eapply body_iff_avail; eauto.
  Qed.

  (* C12: may_<event> predicts the trigger *)
  Theorem hsm_may_iff p p' f tr1 f1 r1 tr2 f2 b : uniq f = true ->
    can_trigger hm ev c e p f = (tr1, f1, r1) ->
    trigger_event hm ev c e p' f = (tr2, f2, inr b) ->
    Forall (fun it => it_slot it <> SOnException) tr2 ->
    r1 = inr b /\ f1 = f.
  Proof.
    intros U H1 H2 NH. destruct (may_iff_avail p f U) as (tr & b0 & E & I). rewrite E in H1. injection H1 as _ <- <-.
    pose proof (trigger_iff_avail _ _ _ _ _ U H2 NH) as J. split; [|reflexivity]. f_equal.
    destruct b0, b; try reflexivity; [symmetry; apply J; apply I; reflexivity|apply I; apply J; reflexivity].
  Qed.
End Iff.
