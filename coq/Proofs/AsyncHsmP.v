(* AsyncHsmP.v — the hierarchical asynchronous engine (AsyncHsm.v) against the synchronous
   hierarchical engine (Hsm.v): compositional simulation up to stage_view, for every machine,
   configuration, event and non-raising behaviour; independence of the suspension counts. *)
From Coq Require Import List Arith Bool Lia.
From M Require Import Base Flat Hsm Async AsyncHsm.
From P Require Import AsyncP HsmForest.
Import ListNotations.

Lemma gstarts_app {St} (a b : list (gsev St)) : gstarts (a ++ b) = gstarts a ++ gstarts b.
Proof. unfold gstarts. apply flat_map_app. Qed.
Lemma gstage_view_app {St} (a b : list (gstage St)) : gstage_view (a ++ b) = gstage_view a ++ gstage_view b.
Proof. unfold gstage_view. apply flat_map_app. Qed.

Section GG.
  Context {St : Type}.
  Variable rp : cbid -> reply.
  Variable susp : cbid -> nat.
  Variable c : ctx.

  Lemma gstarts_end_in_round k x : gstarts (gend_in_round (St:=St) rp susp k x) = [].
  Proof. unfold gend_in_round. destruct (_ && _); reflexivity. Qed.
  Lemma gstarts_roundk cbs k : gstarts (groundk (St:=St) rp susp cbs k) = [].
  Proof.
    unfold groundk. induction cbs as [|x r IH]; [reflexivity|].
    cbn [flat_map]. rewrite gstarts_app, gstarts_end_in_round, IH. reflexivity.
  Qed.
  Lemma gstarts_rounds cbs l : gstarts (flat_map (groundk (St:=St) rp susp cbs) l) = [].
  Proof.
    induction l as [|k r IH]; [reflexivity|].
    cbn [flat_map]. rewrite gstarts_app, gstarts_roundk, IH. reflexivity.
  Qed.
  Lemma gstarts_round0 err (s : St) cbs :
    gstarts (ground0 rp susp c err s cbs) = map (fun x => gmk_item rp c (fst x) err s (snd x)) cbs.
  Proof.
    induction cbs as [|x r IH]; [reflexivity|].
    cbn [ground0 map]. change (GStart ?i :: ?l) with ([GStart i] ++ l).
    rewrite !gstarts_app, gstarts_end_in_round, IH. reflexivity.
  Qed.
  (* Starts of one gather: the registration list, in order — whatever the suspension counts *)
  Lemma gstarts_gather err (s : St) cbs :
    gstarts (ggather_evs rp susp c err s cbs) = map (fun x => gmk_item rp c (fst x) err s (snd x)) cbs.
  Proof. unfold ggather_evs. rewrite gstarts_app, gstarts_round0, gstarts_rounds, app_nil_r. reflexivity. Qed.
End GG.

(* ------------------------------------------------------------------ simulation with Base.M *)
Definition gaview {St A} (x : list (gstage St) * St * (exn + A)) : list (gitem St) * St * (exn + A) :=
  (gstage_view (fst (fst x)), snd (fst x), snd x).

Definition gsim {St A} (am : GAM St A) (m : M (V:=St) (S:=St) A) : Prop :=
  forall p s, gaview (am s) = m p s.

Section GSim.
  Context {St : Type}.
  Notation GA := (GAM St).
  Notation MM := (M (V:=St) (S:=St)).

  Lemma gsim_ret {A} (a : A) : gsim (St:=St) (gret a) (ret a).
  Proof. intros p s. reflexivity. Qed.
  Lemma gsim_raise {A} e : gsim (St:=St) (@graise St A e) (raise e).
  Proof. intros p s. reflexivity. Qed.
  Lemma gsim_get : gsim (St:=St) gget get.
  Proof. intros p s. reflexivity. Qed.
  Lemma gsim_put s' : gsim (St:=St) (gput s') (put s').
  Proof. intros p s. reflexivity. Qed.

  Lemma gsim_bind {A B} (am : GA A) (m : MM A) (af : A -> GA B) (f : A -> MM B) :
    gsim am m -> (forall a, gsim (af a) (f a)) -> gsim (gbind am af) (bind m f).
  Proof.
    intros H1 H2 p s. unfold gbind, bind. rewrite <- (H1 p s).
    destruct (am s) as [[t1 s1] [e|a]]; unfold gaview; cbn [fst snd]; [reflexivity|].
    rewrite <- (H2 a (p + length (gstage_view t1)) s1).
    destruct (af a s1) as [[t2 s2] r2]. unfold gaview; cbn [fst snd]. rewrite gstage_view_app. reflexivity.
  Qed.

  Lemma gsim_try_catch {A} (am : GA A) (m : MM A) ah h :
    gsim am m -> (forall e, gsim (ah e) (h e)) -> gsim (gtry_catch am ah) (try_catch m h).
  Proof.
    intros H1 H2 p s. unfold gtry_catch, try_catch. rewrite <- (H1 p s).
    destruct (am s) as [[t1 s1] [e|a]]; unfold gaview; cbn [fst snd]; [|reflexivity].
    rewrite <- (H2 e (p + length (gstage_view t1)) s1).
    destruct (ah e s1) as [[t2 s2] r2]. unfold gaview; cbn [fst snd]. rewrite gstage_view_app. reflexivity.
  Qed.

  Lemma gsim_tef {A} (am : GA A) (m : MM A) ah h afin fin :
    gsim am m -> (forall e, gsim (ah e) (h e)) -> (forall err, gsim (afin err) (fin err)) ->
    gsim (gtry_except_finally am ah afin) (try_except_finally m h fin).
  Proof.
    intros H1 H2 H3 p s. unfold gtry_except_finally, try_except_finally. rewrite <- (H1 p s).
    destruct (am s) as [[t1 s1] [e|a]]; unfold gaview; cbn [fst snd].
    - rewrite <- (H2 e (p + length (gstage_view t1)) s1).
      destruct (ah e s1) as [[t2 s2] r2]. unfold gaview; cbn [fst snd].
      rewrite <- (H3 (Some e) (p + length (gstage_view t1) + length (gstage_view t2)) s2).
      destruct (afin (Some e) s2) as [[t3 s3] r3]. unfold gaview; cbn [fst snd].
      rewrite !gstage_view_app. reflexivity.
    - rewrite <- (H3 None (p + length (gstage_view t1)) s1).
      destruct (afin None s1) as [[t3 s3] r3]. unfold gaview; cbn [fst snd].
      rewrite !gstage_view_app. reflexivity.
  Qed.

  Variable rp : cbid -> reply.
  Variable susp : cbid -> nat.
  Variable c : ctx.
  Hypothesis NR : no_raise_rp rp.
  Notation ids := (fun s : St => s).
  Notation ev := (ev_of rp).

  Lemma gfirst_exn_none cbs : first_exn rp cbs = None.
  Proof. induction cbs as [|x r IH]; [reflexivity|]. simpl. rewrite NR. exact IH. Qed.

  Lemma grun_cbs_ok sl err cbs : forall p (s : St),
    run_cbs ids ev c sl err cbs p s = (map (gmk_item rp c sl err s) cbs, s, inr tt).
  Proof.
    induction cbs as [|cb r IH]; intros p s; [reflexivity|].
    cbn [run_cbs map]. unfold bind, call. change (ev_of rp cb p) with (rp cb). rewrite NR.
    rewrite IH. unfold gmk_item. reflexivity.
  Qed.

  Lemma gsim_callbacks sl err cbs : gsim (gcallbacks (St:=St) rp susp c sl err cbs) (run_cbs ids ev c sl err cbs).
  Proof.
    intros p s. rewrite grun_cbs_ok.
    unfold gcallbacks, ggather, gaview. cbn [fst snd]. rewrite gfirst_exn_none.
    unfold gstage_view. cbn [flat_map]. unfold gstage_view1. cbn [gs_kind gs_evs].
    rewrite app_nil_r, gstarts_gather, map_map. reflexivity.
  Qed.

  Lemma geval_conds_view conds : forall p (s : St),
    eval_conds ids ev c conds p s =
      (gupto_first_failed (map (fun x => gmk_item rp c (fst (check_slot x)) None s (snd (check_slot x))) conds),
       s, inr (forallb (check_passes rp) conds)).
  Proof.
    induction conds as [|[cb tg] r IH]; intros p s; [reflexivity|].
    cbn [eval_conds map forallb]. unfold bind, call. change (ev_of rp cb p) with (rp cb). rewrite NR.
    unfold check_passes at 1. cbn [fst snd check_slot].
    assert (F : gcheck_failed (gmk_item rp c (if tg then SCond else SUnless) None s cb)
                = negb (Bool.eqb (r_ret (rp cb)) tg)).
    { unfold gcheck_failed, gmk_item. cbn [it_slot it_ret]. destruct tg; cbn [it_slot]; destruct (r_ret (rp cb)); reflexivity. }
    cbn [gupto_first_failed]. rewrite F.
    destruct (Bool.eqb (r_ret (rp cb)) tg); cbn [negb andb].
    - rewrite IH. unfold gmk_item. destruct (c_send c); reflexivity.
    - unfold ret, gmk_item. destruct (c_send c); reflexivity.
  Qed.

  Lemma gsim_conds conds : gsim (geval_conds (St:=St) rp susp c conds) (eval_conds ids ev c conds).
  Proof.
    intros p s. rewrite geval_conds_view.
    unfold geval_conds, gbind, ggather, gret, gaview. rewrite gfirst_exn_none. cbn [fst snd].
    rewrite app_nil_r. unfold gstage_view. cbn [flat_map]. unfold gstage_view1. cbn [gs_kind gs_evs].
    rewrite app_nil_r, gstarts_gather, map_map. reflexivity.
  Qed.
End GSim.

(* ------------------------------------------------------------------ the hierarchical engines *)
Section HSim.
  Variable hm : hmachine.
  Variable rp : cbid -> reply.
  Variable susp : cbid -> nat.
  Variable c : ctx.
  Hypothesis NR : no_raise_rp rp.
  Notation ev := (ev_of rp).
  Notation cbsim := (gsim_callbacks (St:=forest) rp susp c NR).

  Lemma hsim_run_exits ps : gsim (harun_exits hm rp susp c ps) (run_exits hm ev c ps).
  Proof.
    induction ps as [|p r IH]; [apply gsim_ret|]. cbn [harun_exits run_exits].
    destruct (defs_at hm p); [|apply gsim_raise]. apply gsim_bind; [apply cbsim|intros _; exact IH].
  Qed.
  Lemma hsim_run_enters ps : gsim (harun_enters hm rp susp c ps) (run_enters hm ev c ps).
  Proof.
    induction ps as [|p r IH]; [apply gsim_ret|]. cbn [harun_enters run_enters].
    destruct (defs_at hm p); [|apply gsim_raise]. apply gsim_bind; [apply cbsim|intros _; exact IH].
  Qed.
  Lemma hsim_run_onfinal l : gsim (harun_onfinal rp susp c l) (run_onfinal ev c l).
  Proof.
    induction l as [|x r IH]; [apply gsim_ret|]. cbn [harun_onfinal run_onfinal].
    apply gsim_bind; [apply cbsim|intros _; exact IH].
  Qed.

  Lemma hsim_change_state sc dst : gsim (hachange_state hm rp susp c sc dst) (Hsm.change_state hm ev c sc dst).
  Proof.
    unfold hachange_state, Hsm.change_state.
    destruct (find_def (scope_children hm sc) dst) as [dd|]; [|apply gsim_raise].
    apply gsim_bind; [apply gsim_get|intros f].
    destruct (resolve f sc dst dd) as [r|]; [|apply gsim_raise].
    apply gsim_bind; [apply hsim_run_exits|intros _].
    apply gsim_bind; [apply gsim_put|intros _].
    apply gsim_bind; [apply hsim_run_enters|intros _].
    apply hsim_run_onfinal.
  Qed.

  Lemma hsim_execute sc t : gsim (haexecute hm rp susp c sc t) (Hsm.execute hm ev c sc t).
  Proof.
    unfold haexecute, Hsm.execute.
    apply gsim_bind; [apply cbsim|intros _].
    apply gsim_bind; [apply (gsim_conds rp susp c NR)|intros ok].
    destruct ok; [|apply gsim_ret].
    apply gsim_bind; [apply cbsim|intros _].
    apply gsim_bind; [apply cbsim|intros _].
    apply gsim_bind; [destruct (ht_dst t); [apply hsim_change_state|apply gsim_ret]|intros _].
    apply gsim_bind; [apply cbsim|intros _].
    apply gsim_bind; [apply cbsim|intros _].
    apply gsim_ret.
  Qed.

  Lemma hsim_try_transitions sc ts : gsim (hatry_transitions hm rp susp c sc ts) (Hsm.try_transitions hm ev c sc ts).
  Proof.
    induction ts as [|t r IH]; [apply gsim_ret|]. cbn [hatry_transitions Hsm.try_transitions].
    apply gsim_bind; [apply hsim_execute|intros ok]. destruct ok; [apply gsim_ret|exact IH].
  Qed.

  Lemma hsim_offer_loop_gen (aatt : path -> GAM forest bool) att hc sc :
    (forall p, gsim (aatt p) (att p)) ->
    forall order done result,
      gsim (haoffer_loop_gen aatt hc sc order done result) (offer_loop_gen att hc sc order done result).
  Proof.
    intros HA. induction order as [|p rest IH]; intros done result; [apply gsim_ret|].
    cbn [haoffer_loop_gen offer_loop_gen].
    destruct (existsb (path_eqb p) done || negb (hc p)); [apply IH|].
    apply gsim_bind; [apply gsim_get|intros f].
    destruct (negb (active f (sc ++ p))); [apply IH|].
    apply gsim_bind; [apply HA|intros ok].
    apply gsim_bind; [destruct ok; apply IH|intros r; apply gsim_ret].
  Qed.

  Lemma hsim_trigger_nested sc ts key :
    gsim (hatrigger_nested hm rp susp c sc ts key) (Hsm.trigger_nested hm ev c sc ts key).
  Proof.
    unfold hatrigger_nested, Hsm.trigger_nested.
    apply gsim_bind; [apply gsim_get|intros f].
    destruct (sub f sc); [|apply gsim_raise].
    apply gsim_bind; [|intros r; apply gsim_ret].
    unfold haoffer_loop, offer_loop. apply hsim_offer_loop_gen.
    intros p. apply gsim_bind; [apply cbsim|intros _; apply hsim_try_transitions].
  Qed.

  Lemma hsim_dispatch_t e : forall t sc, gsim (hadispatch_t hm rp susp c e sc t) (dispatch_t hm ev c e sc t).
  Proof.
    induction t as [key ch IH] using tree_ind2. intros sc. cbn [hadispatch_t dispatch_t].
    apply gsim_bind; [apply gsim_get|intros f].
    destruct (negb (active f (sc ++ [key]))); [apply gsim_ret|].
    set (GA := fix go (l : list tree) (acc : option bool) : GAM forest (option bool) :=
                 match l with
                 | [] => gret acc
                 | t' :: l' =>
                     r <~ hadispatch_t hm rp susp c e (sc ++ [key]) t' ;;
                     go l' (match r with
                            | None => acc
                            | Some b => Some (orb b (match acc with Some a => a | None => false end))
                            end)
                 end).
    set (GS := fix go (l : list tree) (acc : option bool) : M (V:=forest) (S:=forest) (option bool) :=
                 match l with
                 | [] => ret acc
                 | t' :: l' =>
                     r <- dispatch_t hm ev c e (sc ++ [key]) t' ;;
                     go l' (match r with
                            | None => acc
                            | Some b => Some (orb b (match acc with Some a => a | None => false end))
                            end)
                 end).
    assert (HG : forall l acc,
               Forall (fun t => forall sc, gsim (hadispatch_t hm rp susp c e sc t) (dispatch_t hm ev c e sc t)) l ->
               gsim (GA l acc) (GS l acc)).
    { induction l as [|t' l' IHl]; intros acc HF; [apply gsim_ret|].
      inversion HF as [|? ? H1 H2]; subst. unfold GA, GS. cbn.
      apply gsim_bind; [apply H1|intros r]. apply IHl. exact H2. }
    apply gsim_bind.
    - destruct ch as [|c0 r0]; [apply gsim_ret|exact (HG (c0 :: r0) None IH)].
    - intros r1. destruct r1 as [[|]|]; try apply gsim_ret;
        (destruct (lookup (scope_events hm sc) e); [|apply gsim_ret];
         apply gsim_bind; [apply hsim_trigger_nested|intros r2; apply gsim_ret]).
  Qed.

  Lemma hsim_dispatch_f e sc l : forall acc, gsim (hadispatch_f hm rp susp c e sc l acc) (dispatch_f hm ev c e sc l acc).
  Proof.
    induction l as [|t r IH]; intros acc; cbn [hadispatch_f dispatch_f]; [apply gsim_ret|].
    apply gsim_bind; [apply hsim_dispatch_t|intros x]. apply IH.
  Qed.

  Lemma hsim_check_leaves e ls : gsim (hacheck_leaves hm e ls) (check_leaves hm e ls).
  Proof.
    induction ls as [|p r IH]; cbn [hacheck_leaves check_leaves]; [apply gsim_ret|].
    destruct (defs_at hm p) as [d|]; [|apply gsim_raise].
    destruct (match sd_ignore d with Some b => b | None => hm_ignore hm end); [exact IH|].
    destruct (has_trigger hm e); apply gsim_raise.
  Qed.

  Lemma hsim_handler x :
    gsim (match hm_on_exception hm with
          | [] => graise x
          | hs => gcallbacks (St:=forest) rp susp c SOnException (Some x) hs ~;; gret false
          end)
         (match hm_on_exception hm with
          | [] => raise x
          | hs => run_cbs (fun s : forest => s) ev c SOnException (Some x) hs ;;; ret false
          end).
  Proof.
    destruct (hm_on_exception hm); [apply gsim_raise|].
    apply gsim_bind; [apply cbsim|intros _; apply gsim_ret].
  Qed.

  Lemma hsim_trigger_event e : gsim (hatrigger_event hm rp susp c e) (Hsm.trigger_event hm ev c e).
  Proof.
    unfold hatrigger_event, Hsm.trigger_event.
    apply gsim_tef; [|apply hsim_handler|intros err; apply cbsim].
    apply gsim_bind; [apply gsim_get|intros f].
    apply gsim_bind; [apply hsim_dispatch_f|intros r].
    destruct r; [apply gsim_ret|].
    apply gsim_bind; [apply gsim_get|intros f']. apply hsim_check_leaves.
  Qed.

  (* may_<event> *)
  Lemma hsim_can_one t : gsim (hacan_one hm rp susp c t) (Hsm.can_one hm ev c t).
  Proof.
    unfold hacan_one, Hsm.can_one. apply gsim_try_catch; [|apply hsim_handler].
    apply gsim_bind; [apply cbsim|intros _].
    apply gsim_bind; [apply cbsim|intros _]. apply (gsim_conds rp susp c NR).
  Qed.
  Lemma hsim_can_cands sc ts : gsim (hacan_cands hm rp susp c sc ts) (can_cands hm ev c sc ts).
  Proof.
    induction ts as [|t r IH]; [apply gsim_ret|]. cbn [hacan_cands can_cands].
    destruct (hdest_ok hm sc t); [|exact IH].
    apply gsim_bind; [apply hsim_can_one|intros ok]. destruct ok; [apply gsim_ret|exact IH].
  Qed.
  Lemma hsim_can_sources sc ts srcs : gsim (hacan_sources hm rp susp c sc ts srcs) (can_sources hm ev c sc ts srcs).
  Proof.
    induction srcs as [|p r IH]; [apply gsim_ret|]. cbn [hacan_sources can_sources].
    apply gsim_bind; [apply hsim_can_cands|intros ok]. destruct ok; [apply gsim_ret|exact IH].
  Qed.
  Lemma hsim_can_nested e : forall p sc, gsim (hacan_nested hm rp susp c e sc p) (can_nested hm ev c e sc p).
  Proof.
    induction p as [|n r IH]; intros sc; cbn [hacan_nested can_nested].
    - apply gsim_bind; [destruct (lookup (scope_events hm sc) e); [apply hsim_can_sources|apply gsim_ret]|intros ok].
      destruct ok; apply gsim_ret.
    - apply gsim_bind; [destruct (lookup (scope_events hm sc) e); [apply hsim_can_sources|apply gsim_ret]|intros ok].
      destruct ok; [apply gsim_ret|apply IH].
  Qed.
  Lemma hsim_can_any e ps : gsim (hacan_any hm rp susp c e ps) (can_any hm ev c e ps).
  Proof.
    induction ps as [|p r IH]; [apply gsim_ret|]. cbn [hacan_any can_any].
    apply gsim_bind; [apply hsim_can_nested|intros ok]. destruct ok; [apply gsim_ret|exact IH].
  Qed.
  Lemma hsim_can_trigger e : gsim (hacan_trigger hm rp susp c e) (Hsm.can_trigger hm ev c e).
  Proof.
    unfold hacan_trigger, Hsm.can_trigger. apply gsim_bind; [apply gsim_get|intros f]. apply hsim_can_any.
  Qed.
End HSim.

(* the statements of C07_nested / C07_nested_may *)
Lemma nested_sim hm rp susp c e p (f : forest) :
  no_raise_rp rp ->
  gaview (hatrigger_event hm rp susp c e f) = Hsm.trigger_event hm (ev_of rp) c e p f.
Proof. intros NR. apply hsim_trigger_event. exact NR. Qed.

Lemma nested_may_sim hm rp susp c e p (f : forest) :
  no_raise_rp rp ->
  gaview (hacan_trigger hm rp susp c e f) = Hsm.can_trigger hm (ev_of rp) c e p f.
Proof. intros NR. apply hsim_can_trigger. exact NR. Qed.

(* non-vacuity: a parallel state with two regions; the event is offered to region 2 first (blocked by the second
   of three checks — the third is evaluated by the asynchronous engine only), then to region 3, whose transition
   leaves the whole parallel state for a final state: the exit callbacks of region 2 (suspending 2 and 1 times:
   their Ends swap), of region 3 and of the parent run state after state *)
Definition hm_ex : hmachine :=
  mkHM [SDef 1 [11] [12] [] false None [2; 3] []
          [SDef 2 [] [21; 22] [] false None [] [] []; SDef 3 [] [31] [] false None [] [] []];
        SDef 4 [41] [] [42] true None [] [] []]
       [(0, [mkHT [1; 2] (Some [4]) [5] [(6, true); (7, true); (8, false)] [] [];
             mkHT [1; 3] (Some [4]) [] [(9, true)] [10] [13]])]
       [50] [] [] [51] [] [52] false true.
Definition rp_ex : cbid -> reply := fun cb => mkReply (negb (Nat.eqb cb 7)) None [].
Definition su_ex : cbid -> nat := fun cb => match cb with 21 => 2 | 22 => 1 | 31 => 1 | 41 => 1 | _ => 0 end.
Definition f_ex : forest := [Node 1 [Node 2 []; Node 3 []]].

Lemma nested_example :
  no_raise_rp rp_ex /\
  let a := hatrigger_event hm_ex rp_ex su_ex (mkCtx 0 5 true) 0 f_ex in
  map it_cb (flat_map (fun sg => gstarts (gs_evs sg)) (fst (fst a))) = [50; 5; 6; 7; 8; 50; 9; 10; 21; 22; 31; 12; 41; 42; 52; 13; 51] /\
  map it_cb (gstage_view (fst (fst a))) = [50; 5; 6; 7; 50; 9; 10; 21; 22; 31; 12; 41; 42; 52; 13; 51] /\
  map snd (flat_map (fun sg => gends (gs_evs sg)) (fst (fst a))) = [50; 5; 6; 7; 8; 50; 9; 10; 22; 21; 31; 12; 41; 42; 52; 13; 51] /\
  snd (fst a) = [Node 4 []] /\ snd a = inr true.
Proof. split; [intros cb; reflexivity|vm_compute; auto 10]. Qed.

(* ------------------------------------------------------------------ suspension counts do not matter *)
Definition gsview {St A} (x : list (gstage St) * St * (exn + A)) :=
  (map (fun sg => (gs_kind sg, gstarts (gs_evs sg))) (fst (fst x)), snd (fst x), snd x).
Definition gsim2 {St A} (a1 a2 : GAM St A) : Prop := forall s, gsview (a1 s) = gsview (a2 s).

Section GSim2.
  Context {St : Type}.
  Notation GA := (GAM St).

  Lemma gsim2_refl {A} (a : GA A) : gsim2 a a.
  Proof. intros s. reflexivity. Qed.

  Lemma gsim2_bind {A B} (a1 a2 : GA A) (f1 f2 : A -> GA B) :
    gsim2 a1 a2 -> (forall a, gsim2 (f1 a) (f2 a)) -> gsim2 (gbind a1 f1) (gbind a2 f2).
  Proof.
    intros H1 H2 s. unfold gbind. specialize (H1 s).
    destruct (a1 s) as [[t1 s1] r1], (a2 s) as [[t2 s2] r2]. unfold gsview in H1. cbn [fst snd] in H1.
    injection H1 as E1 E2 E3. subst s2 r2.
    destruct r1 as [e|a]; [unfold gsview; cbn [fst snd]; rewrite E1; reflexivity|].
    specialize (H2 a s1). destruct (f1 a s1) as [[u1 v1] w1], (f2 a s1) as [[u2 v2] w2].
    unfold gsview in *. cbn [fst snd] in *. injection H2 as F1 F2 F3. subst.
    rewrite !map_app, E1, F1. reflexivity.
  Qed.

  Lemma gsim2_try_catch {A} (a1 a2 : GA A) h1 h2 :
    gsim2 a1 a2 -> (forall e, gsim2 (h1 e) (h2 e)) -> gsim2 (gtry_catch a1 h1) (gtry_catch a2 h2).
  Proof.
    intros H1 H2 s. unfold gtry_catch. specialize (H1 s).
    destruct (a1 s) as [[t1 s1] r1], (a2 s) as [[t2 s2] r2]. unfold gsview in H1. cbn [fst snd] in H1.
    injection H1 as E1 E2 E3. subst s2 r2.
    destruct r1 as [e|a]; [|unfold gsview; cbn [fst snd]; rewrite E1; reflexivity].
    specialize (H2 e s1). destruct (h1 e s1) as [[u1 v1] w1], (h2 e s1) as [[u2 v2] w2].
    unfold gsview in *. cbn [fst snd] in *. injection H2 as F1 F2 F3. subst.
    rewrite !map_app, E1, F1. reflexivity.
  Qed.

  Lemma gsim2_tef {A} (a1 a2 : GA A) h1 h2 f1 f2 :
    gsim2 a1 a2 -> (forall e, gsim2 (h1 e) (h2 e)) -> (forall err, gsim2 (f1 err) (f2 err)) ->
    gsim2 (gtry_except_finally a1 h1 f1) (gtry_except_finally a2 h2 f2).
  Proof.
    intros H1 H2 H3 s. unfold gtry_except_finally. specialize (H1 s).
    destruct (a1 s) as [[t1 s1] r1], (a2 s) as [[t2 s2] r2]. unfold gsview in H1. cbn [fst snd] in H1.
    injection H1 as E1 E2 E3. subst s2 r2.
    destruct r1 as [e|a].
    - specialize (H2 e s1). destruct (h1 e s1) as [[u1 v1] w1], (h2 e s1) as [[u2 v2] w2].
      unfold gsview in H2. cbn [fst snd] in H2. injection H2 as F1 F2 F3. subst.
      specialize (H3 (Some e) v2). destruct (f1 (Some e) v2) as [[x1 y1] z1], (f2 (Some e) v2) as [[x2 y2] z2].
      unfold gsview in *. cbn [fst snd] in *. injection H3 as G1 G2 G3. subst.
      rewrite !map_app, E1, F1, G1. reflexivity.
    - specialize (H3 None s1). destruct (f1 None s1) as [[x1 y1] z1], (f2 None s1) as [[x2 y2] z2].
      unfold gsview in *. cbn [fst snd] in *. injection H3 as G1 G2 G3. subst.
      rewrite !map_app, E1, G1. reflexivity.
  Qed.

  Variable rp : cbid -> reply.
  Variable su1 su2 : cbid -> nat.
  Variable c : ctx.

  Lemma gsim2_gather k err cbs : gsim2 (ggather (St:=St) rp su1 c k err cbs) (ggather rp su2 c k err cbs).
  Proof. intros s. unfold ggather, gsview. cbn [fst snd map gs_kind gs_evs]. rewrite !gstarts_gather. reflexivity. Qed.
  Lemma gsim2_callbacks sl err cbs : gsim2 (gcallbacks (St:=St) rp su1 c sl err cbs) (gcallbacks rp su2 c sl err cbs).
  Proof. apply gsim2_gather. Qed.
  Lemma gsim2_conds conds : gsim2 (geval_conds (St:=St) rp su1 c conds) (geval_conds rp su2 c conds).
  Proof. unfold geval_conds. apply gsim2_bind; [apply gsim2_gather|intros _; apply gsim2_refl]. Qed.
End GSim2.

Section HSusp.
  Variable hm : hmachine.
  Variable rp : cbid -> reply.
  Variable su1 su2 : cbid -> nat.
  Variable c : ctx.
  Notation cb2 := (gsim2_callbacks (St:=forest) rp su1 su2 c).

  Lemma h2_run_exits ps : gsim2 (harun_exits hm rp su1 c ps) (harun_exits hm rp su2 c ps).
  Proof.
    induction ps as [|p r IH]; [apply gsim2_refl|]. cbn [harun_exits].
    destruct (defs_at hm p); [|apply gsim2_refl]. apply gsim2_bind; [apply cb2|intros _; exact IH].
  Qed.
  Lemma h2_run_enters ps : gsim2 (harun_enters hm rp su1 c ps) (harun_enters hm rp su2 c ps).
  Proof.
    induction ps as [|p r IH]; [apply gsim2_refl|]. cbn [harun_enters].
    destruct (defs_at hm p); [|apply gsim2_refl]. apply gsim2_bind; [apply cb2|intros _; exact IH].
  Qed.
  Lemma h2_run_onfinal l : gsim2 (harun_onfinal rp su1 c l) (harun_onfinal rp su2 c l).
  Proof.
    induction l as [|x r IH]; [apply gsim2_refl|]. cbn [harun_onfinal].
    apply gsim2_bind; [apply cb2|intros _; exact IH].
  Qed.
  Lemma h2_change_state sc dst : gsim2 (hachange_state hm rp su1 c sc dst) (hachange_state hm rp su2 c sc dst).
  Proof.
    unfold hachange_state.
    destruct (find_def (scope_children hm sc) dst) as [dd|]; [|apply gsim2_refl].
    apply gsim2_bind; [apply gsim2_refl|intros f].
    destruct (resolve f sc dst dd) as [r|]; [|apply gsim2_refl].
    apply gsim2_bind; [apply h2_run_exits|intros _].
    apply gsim2_bind; [apply gsim2_refl|intros _].
    apply gsim2_bind; [apply h2_run_enters|intros _].
    apply h2_run_onfinal.
  Qed.
  Lemma h2_execute sc t : gsim2 (haexecute hm rp su1 c sc t) (haexecute hm rp su2 c sc t).
  Proof.
    unfold haexecute.
    apply gsim2_bind; [apply cb2|intros _].
    apply gsim2_bind; [apply gsim2_conds|intros ok].
    destruct ok; [|apply gsim2_refl].
    apply gsim2_bind; [apply cb2|intros _].
    apply gsim2_bind; [apply cb2|intros _].
    apply gsim2_bind; [destruct (ht_dst t); [apply h2_change_state|apply gsim2_refl]|intros _].
    apply gsim2_bind; [apply cb2|intros _].
    apply gsim2_bind; [apply cb2|intros _].
    apply gsim2_refl.
  Qed.
  Lemma h2_try_transitions sc ts : gsim2 (hatry_transitions hm rp su1 c sc ts) (hatry_transitions hm rp su2 c sc ts).
  Proof.
    induction ts as [|t r IH]; [apply gsim2_refl|]. cbn [hatry_transitions].
    apply gsim2_bind; [apply h2_execute|intros ok]. destruct ok; [apply gsim2_refl|exact IH].
  Qed.
  Lemma h2_offer_loop_gen (a1 a2 : path -> GAM forest bool) hc sc :
    (forall p, gsim2 (a1 p) (a2 p)) ->
    forall order done result,
      gsim2 (haoffer_loop_gen a1 hc sc order done result) (haoffer_loop_gen a2 hc sc order done result).
  Proof.
    intros HA. induction order as [|p rest IH]; intros done result; [apply gsim2_refl|].
    cbn [haoffer_loop_gen].
    destruct (existsb (path_eqb p) done || negb (hc p)); [apply IH|].
    apply gsim2_bind; [apply gsim2_refl|intros f].
    destruct (negb (active f (sc ++ p))); [apply IH|].
    apply gsim2_bind; [apply HA|intros ok].
    apply gsim2_bind; [destruct ok; apply IH|intros r; apply gsim2_refl].
  Qed.
  Lemma h2_trigger_nested sc ts key :
    gsim2 (hatrigger_nested hm rp su1 c sc ts key) (hatrigger_nested hm rp su2 c sc ts key).
  Proof.
    unfold hatrigger_nested.
    apply gsim2_bind; [apply gsim2_refl|intros f].
    destruct (sub f sc); [|apply gsim2_refl].
    apply gsim2_bind; [|intros r; apply gsim2_refl].
    unfold haoffer_loop. apply h2_offer_loop_gen.
    intros p. apply gsim2_bind; [apply cb2|intros _; apply h2_try_transitions].
  Qed.
  Lemma h2_dispatch_t e : forall t sc, gsim2 (hadispatch_t hm rp su1 c e sc t) (hadispatch_t hm rp su2 c e sc t).
  Proof.
    induction t as [key ch IH] using tree_ind2. intros sc. cbn [hadispatch_t].
    apply gsim2_bind; [apply gsim2_refl|intros f].
    destruct (negb (active f (sc ++ [key]))); [apply gsim2_refl|].
    set (G := fun su => fix go (l : list tree) (acc : option bool) : GAM forest (option bool) :=
                 match l with
                 | [] => gret acc
                 | t' :: l' =>
                     r <~ hadispatch_t hm rp su c e (sc ++ [key]) t' ;;
                     go l' (match r with
                            | None => acc
                            | Some b => Some (orb b (match acc with Some a => a | None => false end))
                            end)
                 end).
    assert (HG : forall l acc,
               Forall (fun t => forall sc, gsim2 (hadispatch_t hm rp su1 c e sc t) (hadispatch_t hm rp su2 c e sc t)) l ->
               gsim2 (G su1 l acc) (G su2 l acc)).
    { induction l as [|t' l' IHl]; intros acc HF; [apply gsim2_refl|].
      inversion HF as [|? ? H1 H2]; subst. unfold G. cbn.
      apply gsim2_bind; [apply H1|intros r]. apply IHl. exact H2. }
    apply gsim2_bind.
    - destruct ch as [|c0 r0]; [apply gsim2_refl|exact (HG (c0 :: r0) None IH)].
    - intros r1. destruct r1 as [[|]|]; try apply gsim2_refl;
        (destruct (lookup (scope_events hm sc) e); [|apply gsim2_refl];
         apply gsim2_bind; [apply h2_trigger_nested|intros r2; apply gsim2_refl]).
  Qed.
  Lemma h2_dispatch_f e sc l : forall acc, gsim2 (hadispatch_f hm rp su1 c e sc l acc) (hadispatch_f hm rp su2 c e sc l acc).
  Proof.
    induction l as [|t r IH]; intros acc; cbn [hadispatch_f]; [apply gsim2_refl|].
    apply gsim2_bind; [apply h2_dispatch_t|intros x]. apply IH.
  Qed.
  Lemma h2_trigger_event e : gsim2 (hatrigger_event hm rp su1 c e) (hatrigger_event hm rp su2 c e).
  Proof.
    unfold hatrigger_event. apply gsim2_tef.
    - apply gsim2_bind; [apply gsim2_refl|intros f].
      apply gsim2_bind; [apply h2_dispatch_f|intros r]. apply gsim2_refl.
    - intros x. destruct (hm_on_exception hm); [apply gsim2_refl|].
      apply gsim2_bind; [apply cb2|intros _; apply gsim2_refl].
    - intros err. apply cb2.
  Qed.
End HSusp.

(* the statement of C07_nested_cond_awaitable *)
Lemma nested_susp_irrelevant hm rp su1 su2 c e (f : forest) :
  gsview (hatrigger_event hm rp su1 c e f) = gsview (hatrigger_event hm rp su2 c e f).
Proof. apply h2_trigger_event. Qed.
