(* AsyncConcQ.v — the queue modes at the level of the global log: for every schedule the log of the
   interleaving model is accepted by the serial scan (AsyncConc.gscan); what acceptance means. *)
From Coq Require Import List Arith Bool Lia Sorted Permutation.
From M Require Import AsyncConc.
From P Require Import AsyncConcP.
Import ListNotations.

(* ------------------------------------------------------------------ the scan, as a list function *)
Section Scan.
  Variable defs : list evdef.
  Variable mode : qmode.
  Notation ekey := (ekey defs mode).
  Notation gstep := (gstep defs mode).
  Notation gscan := (gscan defs mode).

  Lemma gscan_app : forall a b st,
    gscan st (a ++ b) = match gscan st a with Some s' => gscan s' b | None => None end.
  Proof.
    induction a as [|x a IH]; intros b st; simpl; [reflexivity|].
    destruct (gstep st x); [apply IH | reflexivity].
  Qed.

  Lemma gscan_cons : forall it l st,
    gscan st (it :: l) = match gstep st it with Some s' => gscan s' l | None => None end.
  Proof. reflexivity. Qed.

  Lemma pair_eqb_eq : forall p q, pair_eqb p q = true <-> p = q.
  Proof.
    intros [a b] [c d]. unfold pair_eqb; simpl. rewrite andb_true_iff, !Nat.eqb_eq. split.
    - intros [H1 H2]; subst; reflexivity.
    - intros H; inversion H; auto.
  Qed.

  Lemma pair_eqb_refl : forall p, pair_eqb p p = true.
  Proof. intros p. apply pair_eqb_eq. reflexivity. Qed.

  Lemma existsb_nat_In : forall x l, existsb (Nat.eqb x) l = true <-> In x l.
  Proof.
    intros x l. rewrite existsb_exists. split.
    - intros [y [H1 H2]]. apply Nat.eqb_eq in H2. subst. exact H1.
    - intros H. exists x. split; [exact H | apply Nat.eqb_refl].
  Qed.

  Lemma existsb_pair_In : forall p l, existsb (pair_eqb p) l = true <-> In p l.
  Proof.
    intros p l. rewrite existsb_exists. split.
    - intros [y [H1 H2]]. apply pair_eqb_eq in H2. subst. exact H1.
    - intros H. exists p. split; [exact H | apply pair_eqb_refl].
  Qed.

  Lemma filter_pair_In : forall p q l, In q (filter (fun x => negb (pair_eqb p x)) l) <-> In q l /\ q <> p.
  Proof.
    intros p q l. rewrite filter_In. split; intros [H1 H2]; split; auto.
    - intros E. subst q. rewrite pair_eqb_refl in H2. discriminate.
    - destruct (pair_eqb p q) eqn:E; [|reflexivity]. apply pair_eqb_eq in E. congruence.
  Qed.

  (* the per-queue bound only grows *)
  Lemma gstep_lb : forall op lb it op' lb' k, gstep (op, lb) it = Some (op', lb') -> lb k <= lb' k.
  Proof.
    intros op lb it op' lb' k H. unfold AsyncConc.gstep in H.
    destruct it; try (destruct (existsb _ _); inversion H; subst; lia).
    destruct (existsb _ _); [congruence|]. destruct (Nat.leb _ _) eqn:E; [|congruence].
    inversion H; subst. unfold upd. destruct (Nat.eqb k (ekey e)) eqn:E2; [|lia].
    apply Nat.eqb_eq in E2. subst k. apply Nat.leb_le in E. lia.
  Qed.

  Lemma gscan_lb : forall l op lb op' lb' k, gscan (op, lb) l = Some (op', lb') -> lb k <= lb' k.
  Proof.
    induction l as [|it l IH]; intros op lb op' lb' k H; [simpl in H | rewrite gscan_cons in H].
    - inversion H; subst. lia.
    - destruct (gstep (op, lb) it) as [[op1 lb1]|] eqn:E; [|congruence].
      pose proof (gstep_lb _ _ _ _ _ k E). pose proof (IH _ _ _ _ k H). lia.
  Qed.

  (* an open body stays open until its own GEnd *)
  Lemma gstep_keep : forall op lb it op' lb' k n,
    gstep (op, lb) it = Some (op', lb') -> In (k, n) op ->
    In (k, n) op' \/ exists e r, it = GEnd n e r /\ ekey e = k.
  Proof.
    intros op lb it op' lb' k n H Hin. unfold AsyncConc.gstep in H.
    destruct it; try (destruct (existsb _ _); inversion H; subst; left; exact Hin).
    - destruct (existsb _ _); [congruence|]. destruct (Nat.leb _ _); [|congruence].
      inversion H; subst. left. right. exact Hin.
    - destruct (existsb _ _); [|congruence]. inversion H; subst.
      destruct (Nat.eq_dec (ekey e) k) as [E1|E1]; destruct (Nat.eq_dec n0 n) as [E2|E2];
        try (left; apply filter_pair_In; split; [exact Hin | intros E; inversion E; congruence]).
      subst. right. exists e, r. auto.
  Qed.

  Lemma gscan_keep : forall l op lb op' lb' k n,
    gscan (op, lb) l = Some (op', lb') -> In (k, n) op ->
    In (k, n) op' \/ exists e r, In (GEnd n e r) l /\ ekey e = k.
  Proof.
    induction l as [|it l IH]; intros op lb op' lb' k n H Hin; [simpl in H | rewrite gscan_cons in H].
    - inversion H; subst. left. exact Hin.
    - destruct (gstep (op, lb) it) as [[op1 lb1]|] eqn:E; [|congruence].
      destruct (gstep_keep _ _ _ _ _ _ _ E Hin) as [H1|[e [r [H1 H2]]]].
      + destruct (IH _ _ _ _ _ _ H H1) as [H3|[e [r [H3 H4]]]]; [left; exact H3|].
        right. exists e, r. split; [right; exact H3 | exact H4].
      + right. exists e, r. split; [left; exact H1 | exact H2].
  Qed.

  (* NO OVERLAP: two bodies of the same queue — the second begins only after the first has ended *)
  Lemma scan_no_overlap : forall l1 n e l2 n' e' l3,
    serial_log defs mode (l1 ++ GBegin n e :: l2 ++ GBegin n' e' :: l3) -> ekey e = ekey e' ->
    exists e2 r, In (GEnd n e2 r) l2 /\ ekey e2 = ekey e.
  Proof.
    intros l1 n e l2 n' e' l3 H Hk. unfold serial_log in H. rewrite gscan_app in H.
    destruct (gscan gstate0 l1) as [[op1 lb1]|]; [|congruence]. simpl in H.
    destruct (existsb (Nat.eqb (ekey e)) (map fst op1)); [congruence|].
    destruct (Nat.leb (lb1 (ekey e)) n); [|congruence].
    rewrite gscan_app in H.
    destruct (gscan ((ekey e, n) :: op1, upd lb1 (ekey e) (S n)) l2) as [[op2 lb2]|] eqn:E2; [|congruence].
    destruct (gscan_keep _ _ _ _ _ (ekey e) n E2 (or_introl eq_refl)) as [Hin|Hend]; [|exact Hend].
    exfalso. simpl in H. rewrite <- Hk in H.
    assert (Hx : existsb (Nat.eqb (ekey e)) (map fst op2) = true).
    { apply existsb_nat_In. apply in_map_iff. exists (ekey e, n). auto. }
    rewrite Hx in H. congruence.
  Qed.

  (* ARRIVAL ORDER: bodies of the same queue begin in increasing arrival number *)
  Lemma scan_fifo : forall l1 n e l2 n' e' l3,
    serial_log defs mode (l1 ++ GBegin n e :: l2 ++ GBegin n' e' :: l3) -> ekey e = ekey e' -> n < n'.
  Proof.
    intros l1 n e l2 n' e' l3 H Hk. unfold serial_log in H. rewrite gscan_app in H.
    destruct (gscan gstate0 l1) as [[op1 lb1]|]; [|congruence]. simpl in H.
    destruct (existsb (Nat.eqb (ekey e)) (map fst op1)); [congruence|].
    destruct (Nat.leb (lb1 (ekey e)) n); [|congruence].
    rewrite gscan_app in H.
    destruct (gscan ((ekey e, n) :: op1, upd lb1 (ekey e) (S n)) l2) as [[op2 lb2]|] eqn:E2; [|congruence].
    pose proof (gscan_lb _ _ _ _ _ (ekey e) E2) as Hlb. unfold upd in Hlb. rewrite Nat.eqb_refl in Hlb.
    simpl in H. rewrite <- Hk in H.
    destruct (existsb (Nat.eqb (ekey e)) (map fst op2)); [congruence|].
    destruct (Nat.leb (lb2 (ekey e)) n') eqn:E3; [|congruence]. apply Nat.leb_le in E3. lia.
  Qed.

  (* where an open body comes from *)
  Lemma open_origin : forall l op0 lb0 op lb k n,
    gscan (op0, lb0) l = Some (op, lb) -> In (k, n) op ->
    In (k, n) op0 \/
    exists la e lc, l = la ++ GBegin n e :: lc /\ ekey e = k /\
                    (forall e' r, In (GEnd n e' r) lc -> ekey e' <> k).
  Proof.
    intros l. induction l as [|x l IH] using rev_ind; intros op0 lb0 op lb k n H Hin.
    - simpl in H. inversion H; subst. left. exact Hin.
    - rewrite gscan_app in H. destruct (gscan (op0, lb0) l) as [[op1 lb1]|] eqn:E1; [|congruence].
      rewrite gscan_cons in H. destruct (gstep (op1, lb1) x) as [[op2 lb2]|] eqn:E2; [|congruence].
      simpl in H. inversion H; subst op2 lb2. clear H.
      assert (Hcase : In (k, n) op1 /\ (forall e' r, x = GEnd n e' r -> ekey e' <> k) \/
                      exists e, x = GBegin n e /\ ekey e = k).
      { unfold AsyncConc.gstep in E2.
        destruct x; try (destruct (existsb _ _); inversion E2; subst; left; split; [exact Hin | intros; discriminate]).
        - destruct (existsb _ _); [congruence|]. destruct (Nat.leb _ _); [|congruence].
          inversion E2; subst. destruct Hin as [Hin|Hin].
          + right. inversion Hin; subst. exists e. auto.
          + left. split; [exact Hin | intros; discriminate].
        - destruct (existsb _ _); [|congruence]. inversion E2; subst.
          apply filter_pair_In in Hin. destruct Hin as [Hin Hne]. left. split; [exact Hin|].
          intros e' r' Hx. inversion Hx; subst. intros Hk. apply Hne. rewrite Hk. reflexivity. }
      destruct Hcase as [[Hin1 Hx]|[e [Hx Hk]]].
      + destruct (IH _ _ _ _ _ _ E1 Hin1) as [H0|[la [e [lc [Hl [Hk Hno]]]]]]; [left; exact H0|].
        right. exists la, e, (lc ++ [x]). split; [rewrite Hl, <- app_assoc; reflexivity|]. split; [exact Hk|].
        intros e' r Hi. apply in_app_or in Hi. destruct Hi as [Hi|[Hi|[]]]; [eapply Hno; eauto | eapply Hx; eauto].
      + right. exists l, e, []. subst x. split; [reflexivity|]. split; [exact Hk|]. intros e' r [].
  Qed.

  (* EVERY ITEM LIES INSIDE ITS BODY: after the GBegin of its frame and before that frame's GEnd *)
  Lemma scan_inside : forall l1 it l2,
    serial_log defs mode (l1 ++ it :: l2) -> (forall n e, it <> GBegin n e) ->
    exists la e lc, l1 = la ++ GBegin (item_no it) e :: lc /\
                    (forall e' r, In (GEnd (item_no it) e' r) lc -> ekey e' <> ekey e).
  Proof.
    intros l1 it l2 H Hnb. unfold serial_log in H. rewrite gscan_app in H.
    destruct (gscan gstate0 l1) as [[op1 lb1]|] eqn:E1; [|congruence]. rewrite gscan_cons in H.
    assert (Hopen : exists k, In (k, item_no it) op1).
    { destruct (gstep (op1, lb1) it) as [st2|] eqn:E2; [|congruence]. unfold AsyncConc.gstep in E2.
      assert (Hgen : existsb (Nat.eqb (item_no it)) (map snd op1) = true -> exists k, In (k, item_no it) op1).
      { intros Hx. apply existsb_nat_In in Hx. apply in_map_iff in Hx. destruct Hx as [[k m] [Hm Hin]].
        simpl in Hm. subst m. exists k. exact Hin. }
      destruct it; try (apply Hgen; destruct (existsb _ _); [reflexivity | discriminate]).
      - exfalso. eapply Hnb. reflexivity.
      - destruct (existsb (pair_eqb _) op1) eqn:Hx; [|congruence]. apply existsb_pair_In in Hx.
        exists (ekey e). exact Hx. }
    destruct Hopen as [k Hin].
    destruct (open_origin _ _ _ _ _ _ _ E1 Hin) as [[]|[la [e [lc [Hl [Hk Hno]]]]]].
    exists la, e, lc. split; [exact Hl|]. rewrite Hk. exact Hno.
  Qed.
End Scan.

(* ------------------------------------------------------------------ the invariant on log, queues and open bodies *)
Fixpoint qsorted (q : list qent) : Prop :=
  match q with
  | [] => True
  | x :: r => Forall (fun y => qe_no x < qe_no y) r /\ qsorted r
  end.

Lemma qsorted_filter : forall p q, qsorted q -> qsorted (filter p q).
Proof.
  induction q as [|x q IH]; simpl; intros H; [exact I|]. destruct H as [H1 H2].
  destruct (p x); simpl; [split; [|apply IH; exact H2] | apply IH; exact H2].
  apply (incl_Forall (incl_filter p q)). exact H1.
Qed.

Lemma qsorted_snoc : forall q x, qsorted q -> Forall (fun y => qe_no y < qe_no x) q -> qsorted (q ++ [x]).
Proof.
  induction q as [|y q IH]; simpl; intros x H HF; [split; [constructor | exact I]|].
  destruct H as [H1 H2]. inversion HF; subst. split; [|apply IH; assumption].
  apply Forall_app. split; [exact H1 | constructor; [assumption | constructor]].
Qed.

Lemma qlookup_qdelete : forall qs m k,
  qlookup (qdelete qs m) k = if Nat.eqb k m then None else qlookup qs k.
Proof.
  induction qs as [|[k0 q0] qs IH]; intros m k; simpl.
  - destruct (Nat.eqb k m); reflexivity.
  - destruct (Nat.eqb k0 m) eqn:E0; simpl.
    + rewrite IH. destruct (Nat.eqb k m) eqn:E; [reflexivity|].
      destruct (Nat.eqb k k0) eqn:E1; [|reflexivity].
      apply Nat.eqb_eq in E1, E0. subst. rewrite Nat.eqb_refl in E. discriminate.
    + rewrite IH. destruct (Nat.eqb k k0) eqn:E1; [|reflexivity].
      apply Nat.eqb_eq in E1. subst k0. rewrite E0. reflexivity.
Qed.

Section QInv.
  Variable defs : list evdef.
  Variable mode : qmode.
  Hypothesis Hmode : mode <> QNone.
  Notation ekey := (ekey defs mode).
  Notation gstep := (gstep defs mode).
  Notation gscan := (gscan defs mode).

  Definition qok (lb : nat -> nat) (nx k : nat) (q : list qent) : Prop :=
    qsorted q /\ Forall (fun x => lb k <= qe_no x) (tl q) /\
    Forall (fun x => qe_no x < nx) q /\ Forall (fun x => ekey (qe_ev x) = k) q.

  Definition HQ (lb : nat -> nat) (P : list (nat * nat)) (h : shared) : Prop :=
    (exists op, gscan gstate0 (h_log h) = Some (op, lb) /\ forall p, In p op <-> In p P) /\
    (forall k, lb k <= h_next h) /\
    (forall k q, qlookup (h_queues h) k = Some q -> qok lb (h_next h) k q) /\
    NoDup (map fst P) /\
    (forall k, qlookup (h_queues h) k = Some [] -> ~ In k (map fst P)).

  Lemma HQ_ext : forall lb P h h',
    h_log h' = h_log h -> h_next h' = h_next h -> h_queues h' = h_queues h -> HQ lb P h -> HQ lb P h'.
  Proof. intros lb P h h' E1 E2 E3 H. unfold HQ in *. rewrite E1, E2, E3. exact H. Qed.

  Lemma HQ_perm : forall lb P P' h, Permutation P P' -> HQ lb P h -> HQ lb P' h.
  Proof.
    intros lb P P' h Hp [[op [Hs Hin]] [H1 [H2 [H3 H4]]]]. split; [|split; [exact H1 | split; [exact H2 | split]]].
    - exists op. split; [exact Hs|]. intros p. rewrite Hin. split; apply Permutation_in; [exact Hp | apply Permutation_sym; exact Hp].
    - apply (Permutation_NoDup (Permutation_map fst Hp)). exact H3.
    - intros k Hk Hi. apply (H4 k Hk). apply (Permutation_in _ (Permutation_sym (Permutation_map fst Hp))). exact Hi.
  Qed.

  Definition ordinary (it : item) : Prop :=
    match it with GBegin _ _ | GEnd _ _ _ => False | _ => True end.

  Lemma snd_in_open : forall (op P : list (nat * nat)) n,
    (forall p, In p op <-> In p P) -> In n (map snd P) -> existsb (Nat.eqb n) (map snd op) = true.
  Proof.
    intros op P n Hin Hn. apply existsb_nat_In. apply in_map_iff in Hn. destruct Hn as [p [Hp Hi]].
    apply in_map_iff. exists p. split; [exact Hp | apply Hin; exact Hi].
  Qed.

  Lemma HQ_emit : forall lb P h it,
    HQ lb P h -> ordinary it -> In (item_no it) (map snd P) -> HQ lb P (emit h it).
  Proof.
    intros lb P h it [[op [Hs Hin]] Hrest] Ho Hn. split; [|exact Hrest].
    exists op. split; [|exact Hin]. simpl. rewrite gscan_app, Hs. rewrite gscan_cons.
    assert (Hx := snd_in_open op P _ Hin Hn).
    destruct it; simpl in *; try contradiction; rewrite Hx; reflexivity.
  Qed.

  Lemma HQ_raise_in : forall lb P h f x,
    HQ lb P h -> In (f_no f) (map snd P) -> HQ lb P (snd (raise_in f x h)).
  Proof.
    intros lb P h f x H Hn. unfold raise_in. destruct (f_fin f); simpl; [exact H|].
    apply HQ_emit; [exact H | exact I | exact Hn].
  Qed.

  Lemma HQ_cb_return : forall lb P h f,
    HQ lb P h -> In (f_no f) (map snd P) -> HQ lb P (snd (cb_return f h)).
  Proof.
    intros lb P h f H Hn. unfold cb_return. destruct (f_creq f); [|exact H].
    apply HQ_raise_in; [exact H | exact Hn].
  Qed.

  (* a body ends *)
  Lemma HQ_end : forall lb P' h k n e r,
    HQ lb ((k, n) :: P') h -> ekey e = k -> HQ lb P' (emit h (GEnd n e r)).
  Proof.
    intros lb P' h k n e r [[op [Hs Hin]] [H1 [H2 [H3 H4]]]] Hk.
    simpl in H3. apply NoDup_cons_iff in H3. destruct H3 as [Hnk H3].
    split; [|split; [exact H1 | split; [exact H2 | split; [exact H3|]]]].
    - exists (filter (fun p => negb (pair_eqb (k, n) p)) op). split.
      + simpl. rewrite gscan_app, Hs, gscan_cons. simpl. rewrite Hk.
        assert (Hx : existsb (pair_eqb (k, n)) op = true) by (apply existsb_pair_In; apply Hin; left; reflexivity).
        rewrite Hx. reflexivity.
      + intros p. rewrite filter_pair_In, Hin. simpl. split.
        * intros [[E|Hp] Hne]; [congruence | exact Hp].
        * intros Hp. split; [right; exact Hp|]. intros E. subst p. apply Hnk. apply in_map_iff. exists (k, n). auto.
    - intros k' Hq Hi. apply (H4 k' Hq). right. exact Hi.
  Qed.

  Lemma qok_mono : forall lb nx nx' k q, nx <= nx' -> qok lb nx k q -> qok lb nx' k q.
  Proof.
    intros lb nx nx' k q Hle [H1 [H2 [H3 H4]]]. repeat split; auto.
    eapply Forall_impl; [|exact H3]. simpl. intros; lia.
  Qed.

  Lemma HQ_bump : forall lb P h, HQ lb P h -> HQ lb P (bump h).
  Proof.
    intros lb P h [Hs [H1 [H2 [H3 H4]]]]. split; [exact Hs|]. split; [|split; [|split; assumption]]; simpl.
    - intros k. specialize (H1 k). lia.
    - intros k q Hq. eapply qok_mono; [|apply H2; exact Hq]. lia.
  Qed.

  (* one queue is replaced *)
  Lemma HQ_setq : forall lb P h k q0 q',
    HQ lb P h -> qlookup (h_queues h) k = Some q0 -> qok lb (h_next h) k q' ->
    (q' = [] -> ~ In k (map fst P)) ->
    HQ lb P (set_queues h (qupdate (h_queues h) k q')).
  Proof.
    intros lb P h k q0 q' [Hs [H1 [H2 [H3 H4]]]] Hq Hok Hemp.
    split; [exact Hs|]. split; [exact H1|]. split; [|split; [exact H3|]]; simpl.
    - intros k' q Hl. destruct (Nat.eq_dec k' k) as [E|E].
      + subst k'. rewrite (qlookup_qupdate_same _ _ _ _ Hq) in Hl. inversion Hl; subst. exact Hok.
      + rewrite qlookup_qupdate_other in Hl by exact E. apply H2. exact Hl.
    - intros k' Hl. destruct (Nat.eq_dec k' k) as [E|E].
      + subst k'. rewrite (qlookup_qupdate_same _ _ _ _ Hq) in Hl. inversion Hl; subst. apply Hemp. reflexivity.
      + rewrite qlookup_qupdate_other in Hl by exact E. apply H4. exact Hl.
  Qed.

  (* a trigger appends its entry (arrival number = the ghost counter) *)
  Lemma HQ_append : forall lb P h k q e,
    HQ lb P h -> qlookup (h_queues h) k = Some q -> ekey e = k ->
    HQ lb P (set_queues (bump h) (qupdate (h_queues h) k (q ++ [mkQE (h_next h) e]))).
  Proof.
    intros lb P h k q e H Hq Hk.
    assert (Hb := HQ_bump _ _ _ H).
    assert (E : set_queues (bump h) (qupdate (h_queues h) k (q ++ [mkQE (h_next h) e])) =
                set_queues (bump h) (qupdate (h_queues (bump h)) k (q ++ [mkQE (h_next h) e]))) by reflexivity.
    rewrite E. eapply HQ_setq; [exact Hb | exact Hq | | ].
    - destruct H as [_ [H1 [H2 _]]]. destruct (H2 k q Hq) as [Q1 [Q2 [Q3 Q4]]]. simpl. repeat split.
      + apply qsorted_snoc; [exact Q1 | exact Q3].
      + destruct q as [|x q]; simpl; [constructor|]. apply Forall_app. split; [exact Q2|].
        constructor; [simpl; apply H1 | constructor].
      + apply Forall_app. split; [eapply Forall_impl; [|exact Q3]; simpl; intros; lia|].
        constructor; [simpl; lia | constructor].
      + apply Forall_app. split; [exact Q4 | constructor; [exact Hk | constructor]].
    - intros E0. destruct q; discriminate.
  Qed.

  Lemma qok_upd_other : forall lb k v nx k' q, k' <> k -> qok lb nx k' q -> qok (upd lb k v) nx k' q.
  Proof.
    intros lb k v nx k' q Hne [H1 [H2 [H3 H4]]]. repeat split; auto.
    unfold upd. apply Nat.eqb_neq in Hne. rewrite Hne. exact H2.
  Qed.

  (* a body begins: its queue is not being processed, its number respects the bound *)
  Lemma HQ_begin : forall lb P h k n e hd tl,
    HQ lb P h -> ekey e = k -> ~ In k (map fst P) -> lb k <= n -> n < h_next h ->
    qlookup (h_queues h) k = Some (hd :: tl) -> Forall (fun x => S n <= qe_no x) tl ->
    HQ (upd lb k (S n)) ((k, n) :: P) (emit h (GBegin n e)).
  Proof.
    intros lb P h k n e hd tl [[op [Hs Hin]] [H1 [H2 [H3 H4]]]] Hk Hfree Hlb Hn Hq Htl.
    split; [|split; [|split; [|split]]].
    - exists ((k, n) :: op). split.
      + simpl. rewrite gscan_app, Hs, gscan_cons. simpl. rewrite Hk.
        assert (Hx : existsb (Nat.eqb k) (map fst op) = false).
        { destruct (existsb (Nat.eqb k) (map fst op)) eqn:Ex; [|reflexivity]. exfalso. apply Hfree.
          apply existsb_nat_In in Ex. apply in_map_iff in Ex. destruct Ex as [p [Hp Hi]].
          apply in_map_iff. exists p. split; [exact Hp | apply Hin; exact Hi]. }
        rewrite Hx. apply Nat.leb_le in Hlb. rewrite Hlb. reflexivity.
      + intros p. simpl. rewrite Hin. reflexivity.
    - intros k'. simpl. unfold upd. destruct (Nat.eqb k' k); [lia | apply H1].
    - intros k' q Hl. simpl in *. destruct (Nat.eq_dec k' k) as [E|E].
      + subst k'. rewrite Hq in Hl. inversion Hl; subst q. destruct (H2 k _ Hq) as [Q1 [Q2 [Q3 Q4]]].
        unfold qok. split; [exact Q1|]. split; [|split; [exact Q3 | exact Q4]].
        simpl. unfold upd. rewrite Nat.eqb_refl. exact Htl.
      + apply qok_upd_other; [exact E | apply H2; exact Hl].
    - simpl. constructor; assumption.
    - intros k' Hl. simpl in *. intros [E|Hi]; [subst k'; rewrite Hq in Hl; discriminate | apply (H4 k' Hl Hi)].
  Qed.

  Lemma HQ_new_frame : forall lb P h k n e hd tl,
    HQ lb P h -> ekey e = k -> ~ In k (map fst P) -> lb k <= n -> n < h_next h ->
    qlookup (h_queues h) k = Some (hd :: tl) -> Forall (fun x => S n <= qe_no x) tl ->
    HQ (upd lb k (S n)) ((k, n) :: P) (snd (new_frame defs n e h)) /\
    f_no (fst (new_frame defs n e h)) = n /\ f_ev (fst (new_frame defs n e h)) = e.
  Proof.
    intros lb P h k n e hd tl H Hk Hfree Hlb Hn Hq Htl.
    assert (Hb := HQ_begin _ _ _ _ _ _ _ _ H Hk Hfree Hlb Hn Hq Htl).
    unfold new_frame. destruct (existsb _ _); simpl; [auto|].
    unfold raise_in; simpl. split; [|auto]. apply HQ_emit; [exact Hb | exact I | simpl; left; reflexivity].
  Qed.

  Lemma HQ_remove_model : forall lb P h m, HQ lb P h -> HQ lb P (snd (remove_model defs mode m h)).
  Proof.
    intros lb P h m H. unfold remove_model. destruct mode; [congruence| |].
    - destruct (negb _); [exact H|]. simpl.
      assert (Hext : forall h1, h_log h1 = h_log h -> h_next h1 = h_next h -> h_queues h1 = h_queues h -> HQ lb P h1)
        by (intros h1 E1 E2 E3; eapply HQ_ext; eauto).
      destruct (qlookup (h_queues h) 0) as [[|hd tl]|] eqn:Hq; simpl; try (apply Hext; reflexivity).
      match goal with |- HQ _ _ (set_queues ?h1 _) =>
        assert (H1 : HQ lb P h1) by (apply Hext; reflexivity);
        change (HQ lb P (set_queues h1 (qupdate (h_queues h1) 0
                 (hd :: filter (fun q => negb (Nat.eqb (e_model (edef defs (qe_ev q))) m)) tl))))
      end.
      eapply HQ_setq; [exact H1 | exact Hq | | intros; discriminate].
      destruct H as [_ [_ [H2 _]]]. destruct (H2 0 _ Hq) as [[Q1a Q1b] [Q2 [Q3 Q4]]]. simpl in *.
      inversion Q3; subst. inversion Q4; subst. unfold qok. simpl. split; [split|split; [|split]].
      + apply (incl_Forall (incl_filter _ tl)). exact Q1a.
      + apply qsorted_filter. exact Q1b.
      + apply (incl_Forall (incl_filter _ tl)). exact Q2.
      + constructor; [assumption | apply (incl_Forall (incl_filter _ tl)); assumption].
      + constructor; [assumption | apply (incl_Forall (incl_filter _ tl)); assumption].
    - destruct (qlookup (h_queues h) m) eqn:Hq; [|exact H].
      assert (Hd : HQ lb P (set_queues h (qdelete (h_queues h) m))).
      { destruct H as [Hs [H1 [H2 [H3 H4]]]]. split; [exact Hs|]. split; [exact H1|]. split; [|split; [exact H3|]]; simpl.
        - intros k q Hl. rewrite qlookup_qdelete in Hl. destruct (Nat.eqb k m); [discriminate | apply H2; exact Hl].
        - intros k Hl. rewrite qlookup_qdelete in Hl. destruct (Nat.eqb k m); [discriminate | apply H4; exact Hl]. }
      destruct (existsb _ _); simpl; [|exact Hd].
      eapply HQ_ext; [| | |exact Hd]; reflexivity.
  Qed.
End QInv.

(* ------------------------------------------------------------------ one task running *)
Section QRun.
  Variable defs : list evdef.
  Variable mode : qmode.
  Hypothesis Hmode : mode <> QNone.
  Notation ekey := (ekey defs mode).
  Notation HQ := (HQ defs mode).

  Definition kq1 (k : kont) : list (nat * nat) := match k with KQ q f => [(q, f_no f)] | KU _ => [] end.
  Definition kq (stk : list kont) : list (nat * nat) := flat_map kq1 stk.
  Definition sk1 (k : kont) : Prop := match k with KQ q f => q = ekey (f_ev f) | KU _ => False end.
  Definition SK (stk : list kont) : Prop := Forall sk1 stk.
  (* O: the open bodies of all the other tasks *)
  Definition RQ (stk : list kont) (O : list (nat * nat)) (h : shared) : Prop :=
    SK stk /\ exists lb, HQ lb (kq stk ++ O) h.

  Lemma raise_in_id : forall f x h, f_no (fst (raise_in f x h)) = f_no f /\ f_ev (fst (raise_in f x h)) = f_ev f.
  Proof. intros. unfold raise_in. destruct (f_fin f); simpl; auto. Qed.
  Lemma cb_return_id : forall f h, f_no (fst (cb_return f h)) = f_no f /\ f_ev (fst (cb_return f h)) = f_ev f.
  Proof.
    intros. unfold cb_return. destruct (f_creq f); [|simpl; auto].
    destruct (raise_in_id (set_code f (f_code f) Idle) X_CANCEL h) as [H1 H2]. auto.
  Qed.

  Lemma call_trigger_queued : forall e h,
    call_trigger defs mode e h =
    match qlookup (h_queues h) (ekey e) with
    | None => CalledExn X_KEY h
    | Some q =>
        let h1 := set_queues (bump h) (qupdate (h_queues h) (ekey e) (q ++ [mkQE (h_next h) e])) in
        match q with
        | _ :: _ => CalledRet (RBool true) h1
        | [] => let (f, h2) := new_frame defs (h_next h) e h1 in CalledPush (KQ (ekey e) f) h2
        end
    end.
  Proof. intros e h. unfold call_trigger, AsyncConc.ekey. destruct mode; [congruence | reflexivity | reflexivity]. Qed.

  Lemma call_trigger_q : forall e h stk O,
    RQ stk O h ->
    match call_trigger defs mode e h with
    | CalledRet _ h1 => RQ stk O h1
    | CalledExn _ h1 => RQ stk O h1
    | CalledPush k h1 => RQ (k :: stk) O h1
    end.
  Proof.
    intros e h stk O [Hsk [lb H]].
    assert (Hgen : match qlookup (h_queues h) (ekey e) with
                   | None => RQ stk O h
                   | Some q =>
                       let h1 := set_queues (bump h) (qupdate (h_queues h) (ekey e) (q ++ [mkQE (h_next h) e])) in
                       match q with
                       | _ :: _ => RQ stk O h1
                       | [] => RQ (KQ (ekey e) (fst (new_frame defs (h_next h) e h1)) :: stk) O
                                  (snd (new_frame defs (h_next h) e h1))
                       end
                   end).
    { destruct (qlookup (h_queues h) (ekey e)) as [q|] eqn:Hq; [|split; [exact Hsk | exists lb; exact H]].
      assert (Ha := HQ_append defs mode lb _ h (ekey e) q e H Hq eq_refl).
      destruct q as [|x q]; simpl; [|split; [exact Hsk | exists lb; exact Ha]].
      set (h1 := set_queues (bump h) (qupdate (h_queues h) (ekey e) [mkQE (h_next h) e])) in *.
      assert (Hl1 : qlookup (h_queues h1) (ekey e) = Some [mkQE (h_next h) e])
        by (simpl; eapply qlookup_qupdate_same; eauto).
      destruct H as [_ [F1 [_ [_ I3]]]].
      destruct (HQ_new_frame defs mode lb (kq stk ++ O) h1 (ekey e) (h_next h) e _ _ Ha eq_refl
                  (I3 _ Hq) (F1 _) (Nat.lt_succ_diag_r _) Hl1 (Forall_nil _)) as [Hn [E1 E2]].
      split.
      - constructor; [simpl; rewrite E2; reflexivity | exact Hsk].
      - exists (upd lb (ekey e) (S (h_next h))). simpl. rewrite E1. exact Hn. }
    rewrite call_trigger_queued.
    destruct (qlookup (h_queues h) (ekey e)) as [[|x q]|]; simpl in Hgen; simpl;
       [ destruct (new_frame defs (h_next h) e _) as [f h2]; exact Hgen | exact Hgen | exact Hgen ].
  Qed.

  Lemma after_frame_q : forall q f c rest h stk c2 h' O lb,
    SK rest -> HQ lb (kq rest ++ O) h -> ~ In q (map fst (kq rest ++ O)) ->
    after_frame defs (KQ q f) c rest h = (stk, c2, h') -> RQ stk O h'.
  Proof.
    intros q f c rest h stk c2 h' O lb Hsk H Hfree E.
    assert (Hrest : RQ rest O h) by (split; [exact Hsk | exists lb; exact H]).
    assert (Hclear : forall l, qlookup (h_queues h) q = Some l ->
                               RQ rest O (set_queues h (qupdate (h_queues h) q []))).
    { intros l Hl. split; [exact Hsk|]. exists lb. eapply HQ_setq; [exact H | exact Hl | | intros _; exact Hfree].
      repeat split; constructor. }
    assert (Hret : match qlookup (h_queues h) q with
                   | Some (_ :: nx :: tl) =>
                       let h1 := set_queues h (qupdate (h_queues h) q (nx :: tl)) in
                       RQ (KQ q (fst (new_frame defs (qe_no nx) (qe_ev nx) h1)) :: rest) O
                          (snd (new_frame defs (qe_no nx) (qe_ev nx) h1))
                   | _ => True
                   end).
    { destruct (qlookup (h_queues h) q) as [[|x [|nx tl]]|] eqn:Hq; try exact I. simpl.
      destruct H as [Hs [F1 [F3 [ND I3]]]]. pose proof (F3 q _ Hq) as [[Q1a [Q1b Q1c]] [Q2 [Q3 Q4]]].
      simpl in Q2. pose proof (Forall_inv Q2) as Q2a. pose proof (Forall_inv_tail Q2) as Q2b.
      pose proof (Forall_inv_tail Q3) as Q3b. pose proof (Forall_inv_tail Q4) as Q4b.
      pose proof (Forall_inv Q3b) as Q3c. pose proof (Forall_inv Q4b) as Q4c. simpl in Q2a, Q3c, Q4c.
      set (h1 := set_queues h (qupdate (h_queues h) q (nx :: tl))).
      assert (H1 : HQ lb (kq rest ++ O) h1).
      { eapply HQ_setq; [split; [exact Hs | split; [exact F1 | split; [exact F3 | split; [exact ND | exact I3]]]]
                        | exact Hq | | intros; discriminate].
        unfold qok. split; [exact (conj Q1b Q1c)|]. split; [exact Q2b|]. split; [exact Q3b | exact Q4b]. }
      assert (Hl1 : qlookup (h_queues h1) q = Some (nx :: tl)) by (simpl; eapply qlookup_qupdate_same; eauto).
      assert (Htl : Forall (fun x0 => S (qe_no nx) <= qe_no x0) tl).
      { eapply Forall_impl; [|exact Q1b]. simpl. intros; lia. }
      destruct (HQ_new_frame defs mode lb (kq rest ++ O) h1 q (qe_no nx) (qe_ev nx) _ _ H1 Q4c Hfree Q2a Q3c Hl1 Htl)
        as [Hn [E1 E2]].
      split.
      - constructor; [simpl; rewrite E2; symmetry; exact Q4c | exact Hsk].
      - exists (upd lb q (S (qe_no nx))). simpl. rewrite E1. exact Hn. }
    unfold after_frame in E. destruct c as [|r|x].
    - destruct (qlookup (h_queues h) q) as [[|y [|nx tl]]|] eqn:Hq; try (inversion E; subst; exact Hrest).
      + inversion E; subst. eapply Hclear; eauto.
      + simpl in Hret. destruct (new_frame defs (qe_no nx) (qe_ev nx) _) as [f' h2]. inversion E; subst. exact Hret.
    - destruct (qlookup (h_queues h) q) as [[|y [|nx tl]]|] eqn:Hq; try (inversion E; subst; exact Hrest).
      + inversion E; subst. eapply Hclear; eauto.
      + simpl in Hret. destruct (new_frame defs (qe_no nx) (qe_ev nx) _) as [f' h2]. inversion E; subst. exact Hret.
    - destruct (qlookup (h_queues h) q) as [l|] eqn:Hq; inversion E; subst; [eapply Hclear; eauto | exact Hrest].
  Qed.

  Lemma NoDup_head_free : forall (k n : nat) (P : list (nat * nat)), NoDup (map fst ((k, n) :: P)) -> ~ In k (map fst P).
  Proof. intros k n P H. simpl in H. apply NoDup_cons_iff in H. apply H. Qed.

  Lemma upd_top : forall q f f' rest O lb h',
    sk1 (KQ q f) -> SK rest -> f_no f' = f_no f -> f_ev f' = f_ev f ->
    HQ lb (kq (KQ q f :: rest) ++ O) h' -> RQ (KQ q f' :: rest) O h'.
  Proof.
    intros q f f' rest O lb h' Hk Hr E1 E2 H. split.
    - constructor; [simpl in *; rewrite E2; exact Hk | exact Hr].
    - exists lb. simpl in *. rewrite E1. exact H.
  Qed.

  Lemma micro_q : forall prot t c h t' c' h' st O,
    micro defs prot t c h = (t', c', h', st) -> RQ (t_stack t) O h -> RQ (t_stack t') O h'.
  Proof.
    intros prot t c h t' c' h' st O E [Hsk [lb H]]. unfold micro in E.
    destruct (t_stack t) as [|k rest] eqn:Hstk.
    { destruct c; try (inversion E; subst; rewrite Hstk; split; [constructor | exists lb; exact H]);
        (match type of E with context [finish ?tt ?cc ?hh] =>
           destruct (finish_props tt cc hh) as [F1 [_ [_ [_ [_ [_ [F2 [F3 F4]]]]]]]];
           destruct (finish tt cc hh) as [t2 h2]; simpl in *; inversion E; subst end;
         rewrite F1; split; [constructor | exists lb; eapply HQ_ext; [| | |exact H]; assumption]). }
    inversion Hsk as [|? ? Hk Hr]; subst. destruct k as [f0|q f]; [contradiction|]. cbn [kframe kset] in E.
    assert (Hsame : RQ (KQ q f :: rest) O h) by (split; [exact Hsk | exists lb; exact H]).
    assert (Htop : In (f_no f) (map snd (kq (KQ q f :: rest) ++ O))) by (simpl; left; reflexivity).
    destruct c as [|r|x].
    - destruct (f_cb f); try (inversion E; subst; rewrite Hstk; exact Hsame).
      destruct (f_code f) as [|i code].
      + destruct (f_fin f).
        * destruct (after_frame _ _ _ _ _) as [[stk c2] h2] eqn:Eaf. inversion E; subst. simpl.
          eapply after_frame_q; [exact Hr | | | exact Eaf].
          -- eapply HQ_ext; [| | |eapply HQ_end; [exact H | symmetry; exact Hk]]; reflexivity.
          -- eapply NoDup_head_free. destruct H as [_ [_ [_ [ND _]]]]. exact ND.
        * inversion E; subst. simpl. eapply upd_top; eauto.
          apply HQ_emit; [exact H | exact I | exact Htop].
      + destruct i; inversion E; subst; simpl; (eapply upd_top; eauto; apply HQ_emit; [|exact I|exact Htop]).
        * exact H.
        * eapply HQ_ext; [| | |exact H]; reflexivity.
        * eapply HQ_ext; [| | |exact H]; reflexivity.
    - destruct (f_cb f); try (inversion E; subst; rewrite Hstk; exact Hsame).
      destruct (cb_return _ _) as [f2 h2] eqn:Ecb. inversion E; subst. simpl.
      match type of Ecb with cb_return ?fa ?ha = _ =>
        destruct (cb_return_id fa ha) as [I1 I2]; rewrite Ecb in I1, I2; simpl in I1, I2;
        assert (Hh : HQ lb (kq (KQ q f :: rest) ++ O) (snd (cb_return fa ha))) end.
      { apply HQ_cb_return; [|exact Htop]. apply HQ_emit; [apply HQ_emit; [exact H | exact I | exact Htop] | exact I | exact Htop]. }
      rewrite Ecb in Hh. simpl in Hh. eapply upd_top; eauto.
    - destruct (f_cb f); try (inversion E; subst; rewrite Hstk; exact Hsame).
      destruct (raise_in _ _ _) as [f2 h2] eqn:Er. inversion E; subst. simpl.
      match type of Er with raise_in ?fa ?xa ?ha = _ =>
        destruct (raise_in_id fa xa ha) as [I1 I2]; rewrite Er in I1, I2; simpl in I1, I2;
        assert (Hh : HQ lb (kq (KQ q f :: rest) ++ O) (snd (raise_in fa xa ha))) end.
      { apply HQ_raise_in; [|exact Htop]. apply HQ_emit; [exact H | exact I | exact Htop]. }
      rewrite Er in Hh. simpl in Hh. eapply upd_top; eauto.
  Qed.

  Lemma run_q : forall fuel prot t c h t' h' b O,
    run defs fuel prot t c h = (t', h', b) -> RQ (t_stack t) O h -> RQ (t_stack t') O h'.
  Proof.
    induction fuel as [|fu IH]; intros prot t c h t' h' b O E H; simpl in E.
    - inversion E; subst. exact H.
    - destruct (micro defs prot t c h) as [[[t1 c1] h1] st] eqn:Em.
      pose proof (micro_q _ _ _ _ _ _ _ _ _ Em H) as H1.
      destruct st; [eapply IH; eauto | inversion E; subst; exact H1 | inversion E; subst; exact H1].
  Qed.

  Lemma resume_q : forall t h t1 c h1 O,
    resume defs mode t h = (t1, c, h1) -> RQ (t_stack t) O h -> RQ (t_stack t1) O h1.
  Proof.
    intros t h t1 c h1 O E [Hsk [lb H]]. unfold resume in E.
    destruct (t_stack t) as [|k rest] eqn:Hstk.
    { inversion E; subst. rewrite Hstk. split; [exact Hsk | exists lb; exact H]. }
    inversion Hsk as [|? ? Hk Hr]; subst. destruct k as [f0|q f]; [contradiction|]. cbn [kframe kset] in E.
    assert (Hsame : RQ (KQ q f :: rest) O h) by (split; [exact Hsk | exists lb; exact H]).
    assert (Htop : In (f_no f) (map snd (kq (KQ q f :: rest) ++ O))) by (simpl; left; reflexivity).
    destruct (f_cb f) as [|j slot a|]; try (inversion E; subst; rewrite Hstk; exact Hsame).
    destruct a as [| |e'|m].
    - destruct (cb_return _ _) as [f2 h2] eqn:Ecb. inversion E; subst. simpl.
      match type of Ecb with cb_return ?fa ?ha = _ =>
        destruct (cb_return_id fa ha) as [I1 I2]; rewrite Ecb in I1, I2; simpl in I1, I2;
        assert (Hh : HQ lb (kq (KQ q f :: rest) ++ O) (snd (cb_return fa ha))) end.
      { apply HQ_cb_return; [|exact Htop]. apply HQ_emit; [exact H | exact I | exact Htop]. }
      rewrite Ecb in Hh. simpl in Hh. eapply upd_top; eauto.
    - destruct (raise_in _ _ _) as [f2 h2] eqn:Er. inversion E; subst. simpl.
      match type of Er with raise_in ?fa ?xa ?ha = _ =>
        destruct (raise_in_id fa xa ha) as [I1 I2]; rewrite Er in I1, I2; simpl in I1, I2;
        assert (Hh : HQ lb (kq (KQ q f :: rest) ++ O) (snd (raise_in fa xa ha))) end.
      { apply HQ_raise_in; [|exact Htop]. apply HQ_emit; [exact H | exact I | exact Htop]. }
      rewrite Er in Hh. simpl in Hh. eapply upd_top; eauto.
    - assert (H1 : RQ (KQ q (set_code f (f_code f) (InCall j slot e')) :: rest) O h).
      { eapply upd_top; eauto. }
      pose proof (call_trigger_q e' h _ O H1) as Hc.
      destruct (call_trigger defs mode e' h) as [r h2|x h2|k' h2]; inversion E; subst; simpl; exact Hc.
    - pose proof (HQ_remove_model defs mode Hmode lb _ h m H) as Hm.
      destruct (remove_model defs mode m h) as [[x|] hm]; simpl in Hm.
      + destruct (raise_in _ _ _) as [f2 h2] eqn:Er. inversion E; subst. simpl.
        match type of Er with raise_in ?fa ?xa ?ha = _ =>
          destruct (raise_in_id fa xa ha) as [I1 I2]; rewrite Er in I1, I2; simpl in I1, I2;
          assert (Hh : HQ lb (kq (KQ q f :: rest) ++ O) (snd (raise_in fa xa ha))) end.
        { apply HQ_raise_in; [|exact Htop]. apply HQ_emit; [exact Hm | exact I | exact Htop]. }
        rewrite Er in Hh. simpl in Hh. eapply upd_top; eauto.
      + destruct (cb_return _ _) as [f2 h2] eqn:Ecb. inversion E; subst. simpl.
        match type of Ecb with cb_return ?fa ?ha = _ =>
          destruct (cb_return_id fa ha) as [I1 I2]; rewrite Ecb in I1, I2; simpl in I1, I2;
          assert (Hh : HQ lb (kq (KQ q f :: rest) ++ O) (snd (cb_return fa ha))) end.
        { apply HQ_cb_return; [|exact Htop]. apply HQ_emit; [exact Hm | exact I | exact Htop]. }
        rewrite Ecb in Hh. simpl in Hh. eapply upd_top; eauto.
  Qed.

  Lemma kq_mark : forall rest, kq (map mark_creq rest) = kq rest /\ (SK rest -> SK (map mark_creq rest)).
  Proof.
    induction rest as [|k rest [IH1 IH2]]; simpl; [split; [reflexivity | intros; constructor]|].
    split.
    - rewrite IH1. destruct k; reflexivity.
    - intros H. inversion H; subst. constructor; [destruct k; simpl in *; assumption | apply IH2; assumption].
  Qed.

  Lemma deliver_cancel_q : forall t h t1 h1 O,
    deliver_cancel t h = (t1, h1) -> RQ (t_stack t) O h -> RQ (t_stack t1) O h1.
  Proof.
    intros t h t1 h1 O E [Hsk [lb H]]. unfold deliver_cancel in E.
    destruct (t_stack t) as [|k rest] eqn:Hstk.
    { inversion E; subst. rewrite Hstk. split; [exact Hsk | exists lb; exact H]. }
    inversion Hsk as [|? ? Hk Hr]; subst. destruct k as [f0|q f]; [contradiction|]. cbn [kframe kset] in E.
    assert (Hsame : RQ (KQ q f :: rest) O h) by (split; [exact Hsk | exists lb; exact H]).
    assert (Htop : In (f_no f) (map snd (kq (KQ q f :: rest) ++ O))) by (simpl; left; reflexivity).
    destruct (f_cb f); try (inversion E; subst; rewrite Hstk; exact Hsame).
    destruct (raise_in _ _ _) as [f2 h2] eqn:Er. inversion E; subst. simpl.
    match type of Er with raise_in ?fa ?xa ?ha = _ =>
      destruct (raise_in_id fa xa ha) as [I1 I2]; rewrite Er in I1, I2; simpl in I1, I2;
      assert (Hh : HQ lb (kq (KQ q f :: rest) ++ O) (snd (raise_in fa xa ha))) end.
    { apply HQ_raise_in; [|exact Htop]. apply HQ_emit; [exact H | exact I | exact Htop]. }
    rewrite Er in Hh. simpl in Hh.
    destruct (kq_mark rest) as [K1 K2].
    eapply upd_top; eauto. simpl. rewrite K1. exact Hh.
  Qed.
End QRun.

(* ------------------------------------------------------------------ the whole system, every schedule *)
Section QSys.
  Variable defs : list evdef.
  Variable mode : qmode.
  Hypothesis Hmode : mode <> QNone.
  Notation ekey := (ekey defs mode).
  Notation HQ := (HQ defs mode).
  Notation RQ := (RQ defs mode).
  Notation SK := (SK defs mode).

  Definition all_kq (ts : list task) : list (nat * nat) := flat_map (fun t => kq (t_stack t)) ts.
  Definition SQ (s : state) : Prop :=
    Forall (fun t => SK (t_stack t)) (s_tasks s) /\ exists lb, HQ lb (all_kq (s_tasks s)) (s_sh s).

  Lemma all_kq_split : forall l1 t l2, all_kq (l1 ++ t :: l2) = all_kq l1 ++ kq (t_stack t) ++ all_kq l2.
  Proof. intros. unfold all_kq. rewrite flat_map_app. reflexivity. Qed.

  Lemma SQ_task : forall l1 t0 l2 h lb,
    Forall (fun t => SK (t_stack t)) (l1 ++ t0 :: l2) -> HQ lb (all_kq (l1 ++ t0 :: l2)) h ->
    RQ (t_stack t0) (all_kq l1 ++ all_kq l2) h.
  Proof.
    intros l1 t0 l2 h lb Hf H. split.
    - apply Forall_app in Hf. destruct Hf as [_ Hf]. inversion Hf; assumption.
    - exists lb. eapply HQ_perm; [|exact H]. rewrite all_kq_split. apply Permutation_app_swap_app.
  Qed.

  Lemma task_SQ : forall l1 t0 t' l2 h' st oof,
    Forall (fun t => SK (t_stack t)) (l1 ++ t0 :: l2) ->
    RQ (t_stack t') (all_kq l1 ++ all_kq l2) h' ->
    SQ (mkS (l1 ++ t' :: l2) h' st oof).
  Proof.
    intros l1 t0 t' l2 h' st oof Hf [Hsk [lb H]]. split; simpl.
    - apply Forall_app in Hf. destruct Hf as [Hf1 Hf2]. inversion Hf2; subst.
      apply Forall_app. split; [exact Hf1 | constructor; assumption].
    - exists lb. eapply HQ_perm; [|exact H]. rewrite all_kq_split. apply Permutation_app_swap_app.
  Qed.

  Lemma run_at_q : forall fuel s l1 t0 l2 t c h,
    s_tasks s = l1 ++ t0 :: l2 -> Forall (fun t => SK (t_stack t)) (s_tasks s) ->
    RQ (t_stack t) (all_kq l1 ++ all_kq l2) h ->
    SQ (run_at defs fuel s (length l1) t c h).
  Proof.
    intros fuel s l1 t0 l2 t c h Hts Hf H. unfold run_at.
    destruct (run defs fuel _ t c h) as [[t' h'] ok] eqn:E.
    assert (H' : RQ (t_stack t') (all_kq l1 ++ all_kq l2) h') by (eapply run_q; eauto).
    rewrite Hts. rewrite replace_nth_split. rewrite Hts in Hf. eapply task_SQ; eauto.
  Qed.

  Lemma deliver_all_q : forall fuel k s, SQ s -> SQ (deliver_all defs fuel k s).
  Proof.
    intros fuel k. induction k as [|k IH]; intros s HS; simpl; [exact HS|].
    destruct (h_cancel (s_sh s)) as [|u l] eqn:Hc; [exact HS|].
    destruct HS as [Hf [lb H]].
    assert (Hp : HQ lb (all_kq (s_tasks s)) (pop_cancel (s_sh s))) by (eapply HQ_ext; [| | |exact H]; reflexivity).
    assert (Hskip : SQ (mkS (s_tasks s) (pop_cancel (s_sh s)) (s_started s) (s_oof s)))
      by (split; [exact Hf | exists lb; exact Hp]).
    destruct (find_idx _ _) as [i|] eqn:Hfi; [|apply IH; exact Hskip].
    destruct (find_idx_split _ _ _ Hfi) as [l1 [t0 [l2 [Hts [Hlen [_ Hnth]]]]]].
    rewrite Hnth. destruct (suspended t0); [|apply IH; exact Hskip].
    destruct (deliver_cancel _ _) as [t1 h1] eqn:Ed.
    apply IH. rewrite <- Hlen. eapply run_at_q; [exact Hts | exact Hf|].
    eapply deliver_cancel_q; [exact Ed|].
    rewrite Hts in Hf, Hp. eapply SQ_task; eauto.
  Qed.

  Lemma step_q : forall top prot preds guard fuel s e, SQ s -> SQ (step defs mode top prot preds guard fuel s e).
  Proof.
    intros top prot preds guard fuel s e HS. unfold step.
    destruct (s_oof s); [exact HS|].
    destruct HS as [Hf [lb H]].
    destruct (can_start top preds guard s e).
    - apply deliver_all_q.
      set (t0 := mkT e _ _ [] None _).
      set (h0 := match inherited_ctx preds s e with Some _ => s_sh s | None => _ end).
      set (s0 := mkS (s_tasks s ++ [t0]) h0 (e :: s_started s) false).
      assert (Hts0 : s_tasks s0 = s_tasks s ++ t0 :: []) by reflexivity.
      assert (Hf0 : Forall (fun t => SK (t_stack t)) (s_tasks s0)).
      { simpl. apply Forall_app. split; [exact Hf | constructor; [constructor | constructor]]. }
      assert (H0 : RQ [] (all_kq (s_tasks s) ++ all_kq []) h0).
      { split; [constructor|]. exists lb. simpl. rewrite app_nil_r.
        subst h0. destruct (inherited_ctx preds s e); [exact H|]. eapply HQ_ext; [| | |exact H]; reflexivity. }
      pose proof (call_trigger_q defs mode Hmode e h0 [] _ H0) as Hc.
      destruct (call_trigger defs mode e h0) as [r h1|x h1|k h1];
        eapply (run_at_q fuel s0 (s_tasks s) t0 []); eauto.
    - destruct (find_idx _ _) as [i|] eqn:Hfi; [|split; [exact Hf | exists lb; exact H]].
      destruct (find_idx_split _ _ _ Hfi) as [l1 [t0 [l2 [Hts [Hlen [_ Hnth]]]]]].
      rewrite Hnth. destruct (resume _ _ _ _) as [[t1 c] h1] eqn:Er.
      apply deliver_all_q. rewrite <- Hlen. eapply run_at_q; [exact Hts | exact Hf|].
      eapply resume_q; [exact Hmode | exact Er|].
      rewrite Hts in Hf, H. eapply SQ_task; eauto.
  Qed.

  Lemma schedule_q : forall top prot preds guard fuel sched s, SQ s -> SQ (run_schedule defs mode top prot preds guard fuel s sched).
  Proof.
    intros top prot preds guard fuel sched. unfold run_schedule.
    induction sched as [|e r IH]; intros s H; simpl; [exact H|]. apply IH. apply step_q. exact H.
  Qed.

  Lemma init_queues_empty : forall n k q, qlookup (init_queues mode n) k = Some q -> q = [].
  Proof.
    intros n k q. unfold init_queues. destruct mode; simpl.
    - discriminate.
    - destruct (Nat.eqb k 0); [intros H; inversion H; reflexivity | discriminate].
    - generalize 0. induction n as [|n IH]; intros s0; simpl; [discriminate|].
      destruct (Nat.eqb k s0); [intros H; inversion H; reflexivity | apply IH].
  Qed.

  Lemma init_q : forall inits, SQ (init_state mode inits).
  Proof.
    intros inits. split; [constructor|]. exists (fun _ => 0). unfold HQ. simpl.
    split; [exists []; split; [reflexivity | intros p; reflexivity]|].
    split; [intros; lia|]. split; [|split; [constructor | intros k _ []]].
    intros k q Hq. apply init_queues_empty in Hq. subst q. repeat split; constructor.
  Qed.

  Lemma all_schedules_serial : forall top prot preds guard fuel inits sched,
    serial_log defs mode (h_log (s_sh (run_schedule defs mode top prot preds guard fuel (init_state mode inits) sched))).
  Proof.
    intros. destruct (schedule_q top prot preds guard fuel sched _ (init_q inits)) as [_ [lb [[op [Hs _]] _]]].
    unfold serial_log. rewrite Hs. discriminate.
  Qed.

  (* while a body of its queue is in progress, an arriving trigger runs nothing: it is appended and returns True
     (or, for the queue of a removed model, raises KeyError) *)
  Lemma all_schedules_busy : forall top prot preds guard fuel inits sched e op lb,
    let s := run_schedule defs mode top prot preds guard fuel (init_state mode inits) sched in
    AsyncConc.gscan defs mode gstate0 (h_log (s_sh s)) = Some (op, lb) -> In (ekey e) (map fst op) ->
    (exists h', call_trigger defs mode e (s_sh s) = CalledRet (RBool true) h' /\
                h_log h' = h_log (s_sh s) /\ h_mstate h' = h_mstate (s_sh s) /\ h_reg h' = h_reg (s_sh s)) \/
    call_trigger defs mode e (s_sh s) = CalledExn X_KEY (s_sh s).
  Proof.
    intros top prot preds guard fuel inits sched e op lb s Hs Hin.
    destruct (schedule_q top prot preds guard fuel sched _ (init_q inits)) as [_ [lb' [[op' [Hs' Hop]] [_ [_ [_ I3]]]]]].
    fold s in Hs', I3, Hop. rewrite Hs in Hs'. inversion Hs'; subst op' lb'.
    rewrite (call_trigger_queued defs mode Hmode).
    destruct (qlookup (h_queues (s_sh s)) (ekey e)) as [[|x q]|] eqn:Hq.
    - exfalso. apply (I3 _ Hq). apply in_map_iff in Hin. destruct Hin as [p [Hp Hi]].
      apply in_map_iff. exists p. split; [exact Hp | apply Hop; exact Hi].
    - left. eexists. split; [reflexivity|]. simpl. auto.
    - right. reflexivity.
  Qed.
End QSys.

(* ------------------------------------------------------------------ packaged statements for Props/C08.v *)
Lemma shared_serial_fifo : forall defs top prot preds guard fuel inits sched l1 n e l2 n' e' l3,
  h_log (s_sh (run_schedule defs QShared top prot preds guard fuel (init_state QShared inits) sched)) =
    l1 ++ GBegin n e :: l2 ++ GBegin n' e' :: l3 ->
  (exists e2 r, In (GEnd n e2 r) l2) /\ n < n'.
Proof.
  intros defs top prot preds guard fuel inits sched l1 n e l2 n' e' l3 Hl.
  assert (Hm : QShared <> QNone) by discriminate.
  pose proof (all_schedules_serial defs QShared Hm top prot preds guard fuel inits sched) as Hs. rewrite Hl in Hs.
  split.
  - destruct (scan_no_overlap defs QShared _ _ _ _ _ _ _ Hs eq_refl) as [e2 [r [H1 _]]]. exists e2, r. exact H1.
  - apply (scan_fifo defs QShared _ _ _ _ _ _ _ Hs eq_refl).
Qed.

Lemma model_serial_fifo : forall defs top prot preds guard fuel inits sched l1 n e l2 n' e' l3,
  h_log (s_sh (run_schedule defs QPerModel top prot preds guard fuel (init_state QPerModel inits) sched)) =
    l1 ++ GBegin n e :: l2 ++ GBegin n' e' :: l3 ->
  e_model (edef defs e) = e_model (edef defs e') ->
  (exists e2 r, In (GEnd n e2 r) l2 /\ e_model (edef defs e2) = e_model (edef defs e)) /\ n < n'.
Proof.
  intros defs top prot preds guard fuel inits sched l1 n e l2 n' e' l3 Hl Hk.
  assert (Hm : QPerModel <> QNone) by discriminate.
  pose proof (all_schedules_serial defs QPerModel Hm top prot preds guard fuel inits sched) as Hs. rewrite Hl in Hs.
  split.
  - apply (scan_no_overlap defs QPerModel _ _ _ _ _ _ _ Hs Hk).
  - apply (scan_fifo defs QPerModel _ _ _ _ _ _ _ Hs Hk).
Qed.

Lemma items_inside_body : forall defs mode top prot preds guard fuel inits sched l1 it l2,
  mode <> QNone ->
  h_log (s_sh (run_schedule defs mode top prot preds guard fuel (init_state mode inits) sched)) = l1 ++ it :: l2 ->
  (forall n e, it <> GBegin n e) ->
  exists la e lc, l1 = la ++ GBegin (item_no it) e :: lc /\
                  (forall e' r, In (GEnd (item_no it) e' r) lc -> ekey defs mode e' <> ekey defs mode e).
Proof.
  intros defs mode top prot preds guard fuel inits sched l1 it l2 Hm Hl Hnb.
  pose proof (all_schedules_serial defs mode Hm top prot preds guard fuel inits sched) as Hs. rewrite Hl in Hs.
  apply (scan_inside defs mode _ _ _ Hs Hnb).
Qed.
