(* FlatP.v — proofs about the flat engine: under an environment that does not raise,
   the engine's trace is the documented order (spec_step). *)
From Coq Require Import List Arith Bool Lia.
From M Require Import Base Flat FlatSpec.
Import ListNotations.

Definition no_raise (ev : env) : Prop := forall cb p, r_raise (ev cb p) = None.
(* no callback raises from position p on *)
Definition no_raise_from (ev : env) (p : nat) : Prop := forall cb q, p <= q -> r_raise (ev cb q) = None.

Lemma nrf_mono ev p q : no_raise_from ev p -> p <= q -> no_raise_from ev q.
Proof. intros H L cb r Hr. apply H. lia. Qed.
Lemma no_raise_nrf ev p : no_raise ev -> no_raise_from ev p.
Proof. intros H cb q _. apply H. Qed.

Section P.
  Variable mc : machine.
  Variable ev : env.
  Variable c : ctx.

  Notation id_seen := (fun s : state => s).

  Lemma call_ok sl err cb p s : no_raise_from ev p ->
    call id_seen ev c sl err cb p s = ([mk ev c sl err s cb p], s, inr (r_ret (ev cb p))).
  Proof. intros NR. unfold call, mk. rewrite NR by lia. reflexivity. Qed.

  Lemma items_length sl err st cbs p : length (items ev c sl err st cbs p) = length cbs.
  Proof. revert p; induction cbs as [|cb r IH]; intros p; simpl; [reflexivity|]. now rewrite IH. Qed.

  Lemma run_cbs_ok sl err cbs p s : no_raise_from ev p ->
    run_cbs id_seen ev c sl err cbs p s = (items ev c sl err s cbs p, s, inr tt).
  Proof.
    revert p; induction cbs as [|cb r IH]; intros p NR; simpl; [reflexivity|].
    unfold bind. rewrite call_ok by assumption. simpl. rewrite IH by (eapply nrf_mono; [eassumption|lia]).
    replace (p + 1) with (S p) by lia. reflexivity.
  Qed.

  Lemma eval_conds_ok conds p s : no_raise_from ev p ->
    eval_conds id_seen ev c conds p s =
      (fst (cond_items ev c s conds p), s, inr (snd (cond_items ev c s conds p))).
  Proof.
    revert p; induction conds as [|[cb tg] r IH]; intros p NR; simpl; [reflexivity|].
    unfold bind. rewrite call_ok by assumption. simpl.
    destruct (Bool.eqb (r_ret (ev cb p)) tg) eqn:E.
    - rewrite IH by (eapply nrf_mono; [eassumption|lia]). replace (p + 1) with (S p) by lia.
      destruct (cond_items ev c s r (S p)) as [l b]. reflexivity.
    - reflexivity.
  Qed.
End P.
