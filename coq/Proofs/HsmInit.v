(* HsmInit.v — C02, last sentence: what a transition enters ends in leaves or in states without an
   (enterable) initial substate. *)
From Coq Require Import List Arith Bool Lia.
From M Require Import Base Flat Hsm HsmSpec.
From P Require Import HsmForest HsmResolve HsmReach.
Import ListNotations.

(* the definition declares no initial child that exists *)
Definition no_init (d : sdefn) : Prop := forall n, In n (sd_initial d) -> find_child (sd_children d) n = None.

Fixpoint sd_depth (d : sdefn) : nat :=
  match d with SDef _ _ _ _ _ _ _ _ ch => S (fold_right Nat.max 0 (map sd_depth ch)) end.

Lemma sd_depth_unfold d : sd_depth d = S (fold_right Nat.max 0 (map sd_depth (sd_children d))).
Proof. destruct d. reflexivity. Qed.
Lemma sd_depth_child d c : In c (sd_children d) -> sd_depth c < sd_depth d.
Proof.
  intros I. rewrite (sd_depth_unfold d). apply Nat.lt_succ_r. apply fold_max_le. now apply in_map.
Qed.

(* the definition below dd at relative path q ([] = dd itself) *)
Definition rel_def (dd : sdefn) (q : path) : option sdefn :=
  match q with [] => Some dd | _ => find_def (sd_children dd) q end.

Lemma f_get_flat (g : nat -> option forest) l n :
  f_get (flat_map (fun m => match g m with Some ch => [Node m ch] | None => [] end) l) n =
  if existsb (Nat.eqb n) l then g n else None.
Proof.
  induction l as [|m r IH]; cbn [flat_map existsb]; [reflexivity|].
  destruct (g m) as [ch|] eqn:GM.
  - cbn [app f_get t_name]. destruct (Nat.eqb m n) eqn:E.
    + apply Nat.eqb_eq in E. subst m. rewrite Nat.eqb_refl. cbn [orb]. now rewrite GM.
    + rewrite (Nat.eqb_sym n m), E. cbn [orb]. exact IH.
  - cbn [app]. rewrite IH. destruct (Nat.eqb n m) eqn:E; cbn [orb]; [|reflexivity].
    apply Nat.eqb_eq in E. subst m. rewrite GM. destruct (existsb (Nat.eqb n) r); reflexivity.
Qed.

Lemma f_get_initial fuel d n :
  f_get (initial_tree (S fuel) d) n =
    if existsb (Nat.eqb n) (sd_initial d)
    then match find_child (sd_children d) n with Some c => Some (initial_tree fuel c) | None => None end
    else None.
Proof.
  cbn [initial_tree].
  rewrite <- (f_get_flat (fun m => match find_child (sd_children d) m with Some c => Some (initial_tree fuel c) | None => None end)).
  f_equal. apply flat_map_ext. intros m. destruct (find_child (sd_children d) m); reflexivity.
Qed.

Lemma initial_tree_nil fuel d : sd_depth d <= fuel -> initial_tree fuel d = [] -> no_init d.
Proof.
  intros D H n I. destruct fuel as [|f]; [rewrite sd_depth_unfold in D; lia|].
  pose proof (f_get_initial f d n) as G. rewrite H in G. cbn [f_get] in G.
  assert (existsb (Nat.eqb n) (sd_initial d) = true) by (apply existsb_exists; exists n; split; [exact I|apply Nat.eqb_refl]).
  rewrite H0 in G. destruct (find_child (sd_children d) n); [discriminate|reflexivity].
Qed.

Lemma initial_tree_leaf : forall fuel d q c,
  sd_depth d <= fuel -> q <> [] -> sub (initial_tree fuel d) q = Some [] ->
  find_def (sd_children d) q = Some c -> no_init c.
Proof.
  induction fuel as [|f IH]; intros d q c D Q S F; [rewrite sd_depth_unfold in D; lia|].
  destruct q as [|n r]; [congruence|]. cbn [sub] in S. rewrite f_get_initial in S.
  destruct (existsb (Nat.eqb n) (sd_initial d)); [|discriminate].
  destruct (find_child (sd_children d) n) as [c0|] eqn:FC; [|discriminate].
  pose proof (find_child_In _ _ _ FC) as [IC _]. pose proof (sd_depth_child _ _ IC) as DC.
  destruct r as [|m r'].
  - cbn [sub] in S. injection S as S. cbn [find_def] in F. rewrite FC in F. injection F as <-.
    eapply initial_tree_nil; [|exact S]. lia.
  - cbn [find_def] in F. rewrite FC in F. eapply (IH c0 (m :: r')); [lia|discriminate|exact S|exact F].
Qed.

Lemma sub_chain_prefix : forall y z bottom, sub (chain_tree (y ++ z) bottom) y = Some (chain_tree z bottom).
Proof.
  induction y as [|n y IH]; intros z bottom; [reflexivity|]. cbn [app chain_tree sub f_get t_name t_children].
  rewrite Nat.eqb_refl. apply IH.
Qed.
Lemma sub_chain_below r bottom q : sub (chain_tree r bottom) (r ++ q) = sub bottom q.
Proof.
  rewrite sub_app. rewrite <- (app_nil_r r) at 1. rewrite sub_chain_prefix. reflexivity.
Qed.
Lemma chain_tree_nil z bottom : chain_tree z bottom = [] -> z = [] /\ bottom = [].
Proof. destruct z; cbn; [auto|discriminate]. Qed.

Section Closure.
  Variable hm : hmachine.
  Local Opaque def_depth_bound.

  Theorem resolve_initial_closure f sc dst dd r cur :
    dst <> [] -> sub f sc = Some cur ->
    find_def (scope_children hm sc) dst = Some dd -> sd_depth dd <= def_depth_bound ->
    resolve f sc dst dd = Some r ->
    forall p, In p (r_enters r) -> sub (r_new r) p = Some [] ->
      exists q d, p = sc ++ dst ++ q /\ rel_def dd q = Some d /\ no_init d.
  Proof.
    intros ND S FD DB R p IP LF. unfold resolve in R.
    destruct (split_active f sc dst) as [root rest] eqn:SA.
    destruct (split_active_spec f sc dst root rest cur ND S SA) as (E & RN & _ & _).
    destruct (sub f (sc ++ root)) as [scoped|] eqn:SB; [|discriminate]. injection R as <-. cbn [r_enters r_new] in *.
    destruct rest as [|d0 rt]; [congruence|]. cbn [hd tl] in *.
    set (bottom := initial_tree def_depth_bound dd) in *.
    (* below the base, the new subtree at d0 :: y is the chain *)
    assert (NS : forall y, sub (update_at f (sc ++ root)
                                 (fun _ => if Nat.ltb 1 (length scoped) then f_set scoped d0 (chain_tree rt bottom)
                                           else chain_tree (d0 :: rt) bottom)) ((sc ++ root) ++ d0 :: y)
                           = sub (chain_tree rt bottom) y).
    { intros y. rewrite (sub_update_below _ _ _ _ _ SB). destruct (Nat.ltb 1 (length scoped)).
      - cbn [sub]. rewrite f_get_f_set, Nat.eqb_refl. reflexivity.
      - cbn [chain_tree sub f_get t_name t_children]. rewrite Nat.eqb_refl. reflexivity. }
    apply in_app_or in IP as [IP|IP].
    - apply in_prefixes_from in IP as (x & z & XN & XZ & ->).
      destruct x as [|x0 y]; [congruence|]. cbn [app] in XZ. injection XZ as <- ->.
      rewrite NS, sub_chain_prefix in LF. injection LF as LF. apply chain_tree_nil in LF as [-> BN].
      exists [], dd. rewrite app_nil_r in *. split; [|split; [reflexivity|]].
      + rewrite <- E. now rewrite <- app_assoc.
      + eapply initial_tree_nil; [exact DB|exact BN].
    - apply in_map_iff in IP as (q & <- & IQ). apply in_bfs in IQ.
      assert (QN : q <> []) by (intros ->; eapply nil_notin_nodes; exact IQ).
      destruct (initial_tree_registered _ _ _ IQ) as [d' FD'].
      replace ((sc ++ root) ++ (d0 :: rt) ++ q) with ((sc ++ root) ++ d0 :: (rt ++ q)) in LF by reflexivity.
      rewrite NS, sub_chain_below in LF.
      exists q, d'. split; [|split].
      + rewrite <- E. now rewrite <- !app_assoc.
      + destruct q; [congruence|exact FD'].
      + eapply initial_tree_leaf; [exact DB|exact QN|exact LF|exact FD'].
  Qed.
End Closure.
