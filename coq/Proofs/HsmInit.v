(* HsmInit.v — C02, last sentence: what a transition enters ends in leaves or in states without an
   (enterable) initial substate. *)
From Coq Require Import List Arith Bool Lia.
From M Require Import Base Flat Hsm HsmSpec.
From P Require Import HsmForest HsmResolve HsmReach.
Import ListNotations.

(* the definition declares no initial child that exists *)
Definition no_init (d : sdefn) : Prop := forall n, In n (sd_initial d) -> find_child (sd_children d) n = None.

Fixpoint sd_depth (d : sdefn) : nat :=
  match d with SDef _ _ _ _ _ _ _ _ ch => S (fold_right Nat.max 0 (map sd_depth ch)) end.

Lemma sd_depth_unfold d : sd_depth d = S (fold_right Nat.max 0 (map sd_depth (sd_children d))).
Proof. destruct d. reflexivity. Qed.
Lemma sd_depth_child d c : In c (sd_children d) -> sd_depth c < sd_depth d.
Proof.
  intros I. rewrite (sd_depth_unfold d). apply Nat.lt_succ_r. apply fold_max_le. now apply in_map.
Qed.

(* the definition below dd at relative path q ([] = dd itself) *)
Definition rel_def (dd : sdefn) (q : path) : option sdefn :=
  match q with [] => Some dd | _ => find_def (sd_children dd) q end.

Lemma f_get_flat (g : nat -> option forest) l n :
  f_get (flat_map (fun m => match g m with Some ch => [Node m ch] | None => [] end) l) n =
  if existsb (Nat.eqb n) l then g n else None.
Proof.
  induction l as [|m r IH]; cbn [flat_map existsb]; [reflexivity|].
  destruct (g m) as [ch|] eqn:GM.
  - cbn [app f_get t_name]. destruct (Nat.eqb m n) eqn:E.
    + apply Nat.eqb_eq in E. subst m. rewrite Nat.eqb_refl. cbn [orb]. now rewrite GM.
    + rewrite (Nat.eqb_sym n m), E. cbn [orb]. exact IH.
  - cbn [app]. rewrite IH. destruct (Nat.eqb n m) eqn:E; cbn [orb]; [|reflexivity].
    apply Nat.eqb_eq in E. subst m. rewrite GM. destruct (existsb (Nat.eqb n) r); reflexivity.
Qed.

Lemma f_get_initial fuel d n :
  f_get (initial_tree (S fuel) d) n =
    if existsb (Nat.eqb n) (sd_initial d)
    then match find_child (sd_children d) n with Some c => Some (initial_tree fuel c) | None => None end
    else None.
Proof.
  cbn [initial_tree].
  rewrite <- (f_get_flat (fun m => match find_child (sd_children d) m with Some c => Some (initial_tree fuel c) | None => None end)).
  f_equal. apply flat_map_ext. intros m. destruct (find_child (sd_children d) m); reflexivity.
Qed.

Lemma initial_tree_nil fuel d : sd_depth d <= fuel -> initial_tree fuel d = [] -> no_init d.
Proof.
  intros D H n I. destruct fuel as [|f]; [rewrite sd_depth_unfold in D; lia|].
  pose proof (f_get_initial f d n) as G. rewrite H in G. cbn [f_get] in G.
  assert (existsb (Nat.eqb n) (sd_initial d) = true) by (apply existsb_exists; exists n; split; [exact I|apply Nat.eqb_refl]).
  rewrite H0 in G. destruct (find_child (sd_children d) n); [discriminate|reflexivity].
Qed.

Lemma initial_tree_leaf : forall fuel d q c,
  sd_depth d <= fuel -> q <> [] -> sub (initial_tree fuel d) q = Some [] ->
  find_def (sd_children d) q = Some c -> no_init c.
Proof.
  induction fuel as [|f IH]; intros d q c D Q S F; [rewrite sd_depth_unfold in D; lia|].
  destruct q as [|n r]; [congruence|]. cbn [sub] in S. rewrite f_get_initial in S.
  destruct (existsb (Nat.eqb n) (sd_initial d)); [|discriminate].
  destruct (find_child (sd_children d) n) as [c0|] eqn:FC; [|discriminate].
  pose proof (find_child_In _ _ _ FC) as [IC _]. pose proof (sd_depth_child _ _ IC) as DC.
  destruct r as [|m r'].
  - cbn [sub] in S. injection S as S. cbn [find_def] in F. rewrite FC in F. injection F as <-.
    eapply initial_tree_nil; [|exact S]. lia.
  - cbn [find_def] in F. rewrite FC in F. eapply (IH c0 (m :: r')); [lia|discriminate|exact S|exact F].
Qed.

Lemma sub_chain_prefix : forall y z bottom, sub (chain_tree (y ++ z) bottom) y = Some (chain_tree z bottom).
Proof.
  induction y as [|n y IH]; intros z bottom; [reflexivity|]. cbn [app chain_tree sub f_get t_name t_children].
  rewrite Nat.eqb_refl. apply IH.
Qed.
Lemma sub_chain_below r bottom q : sub (chain_tree r bottom) (r ++ q) = sub bottom q.
Proof.
  rewrite sub_app. rewrite <- (app_nil_r r) at 1. rewrite sub_chain_prefix. reflexivity.
Qed.
Lemma chain_tree_nil z bottom : chain_tree z bottom = [] -> z = [] /\ bottom = [].
Proof. destruct z; cbn; [auto|discriminate]. Qed.

Section Closure.
  Variable hm : hmachine.
  Local Opaque def_depth_bound.

  Theorem resolve_initial_closure f sc dst dd r cur :
    dst <> [] -> sub f sc = Some cur ->
    find_def (scope_children hm sc) dst = Some dd -> sd_depth dd <= def_depth_bound ->
    resolve f sc dst dd = Some r ->
    forall p, In p (r_enters r) -> sub (r_new r) p = Some [] ->
      exists q d, p = sc ++ dst ++ q /\ rel_def dd q = Some d /\ no_init d.
  Proof.
    intros ND S FD DB R p IP LF. unfold resolve in R.
    destruct (split_active f sc dst) as [root rest] eqn:SA.
    destruct (split_active_spec f sc dst root rest cur ND S SA) as (E & RN & _ & _).
    destruct (sub f (sc ++ root)) as [scoped|] eqn:SB; [|discriminate]. injection R as <-. cbn [r_enters r_new] in *.
    destruct rest as [|d0 rt]; [congruence|]. cbn [hd tl] in *.
    set (bottom := initial_tree def_depth_bound dd) in *.
    (* below the base, the new subtree at d0 :: y is the chain *)
    assert (NS : forall y, sub (update_at f (sc ++ root)
                                 (fun _ => if Nat.ltb 1 (length scoped) then f_set scoped d0 (chain_tree rt bottom)
                                           else chain_tree (d0 :: rt) bottom)) ((sc ++ root) ++ d0 :: y)
                           = sub (chain_tree rt bottom) y).
    { intros y. rewrite (sub_update_below _ _ _ _ _ SB). destruct (Nat.ltb 1 (length scoped)).
      - cbn [sub]. rewrite f_get_f_set, Nat.eqb_refl. reflexivity.
      - cbn [chain_tree sub f_get t_name t_children]. rewrite Nat.eqb_refl. reflexivity. }
    apply in_app_or in IP as [IP|IP].
    - apply in_prefixes_from in IP as (x & z & XN & XZ & ->).
      destruct x as [|x0 y]; [congruence|]. cbn [app] in XZ. injection XZ as <- ->.
      rewrite NS, sub_chain_prefix in LF. injection LF as LF. apply chain_tree_nil in LF as [-> BN].
      exists [], dd. rewrite app_nil_r in *. split; [|split; [reflexivity|]].
      + rewrite <- E. now rewrite <- app_assoc.
      + eapply initial_tree_nil; [exact DB|exact BN].
    - apply in_map_iff in IP as (q & <- & IQ). apply in_bfs in IQ.
      assert (QN : q <> []) by (intros ->; eapply nil_notin_nodes; exact IQ).
      destruct (initial_tree_registered _ _ _ IQ) as [d' FD'].
      replace ((sc ++ root) ++ (d0 :: rt) ++ q) with ((sc ++ root) ++ d0 :: (rt ++ q)) in LF by reflexivity.
      rewrite NS, sub_chain_below in LF.
      exists q, d'. split; [|split].
      + rewrite <- E. now rewrite <- !app_assoc.
      + destruct q; [congruence|exact FD'].
      + eapply initial_tree_leaf; [exact DB|exact QN|exact LF|exact FD'].
  Qed.
End Closure.

(* ---------- the closure as an invariant of every reachable configuration ---------- *)
Lemma prefix_cases : forall (a b : path),
  (exists q, b = a ++ q) \/ (exists q, q <> [] /\ a = b ++ q) \/ (~ is_prefix a b /\ ~ is_prefix b a).
Proof.
  induction a as [|x a IH]; intros b.
  - left. exists b. reflexivity.
  - destruct b as [|y b].
    + right. left. exists (x :: a). split; [discriminate|reflexivity].
    + destruct (Nat.eq_dec x y) as [->|NE].
      * destruct (IH b) as [[q ->]|[[q [Q ->]]|[N1 N2]]].
        -- left. exists q. reflexivity.
        -- right. left. exists q. split; [exact Q|reflexivity].
        -- right. right. split; intros [q E]; injection E as E; [apply N1|apply N2]; exists q; exact E.
      * right. right. split; intros [q E]; injection E as E _; congruence.
Qed.

Lemma sub_update_prefix : forall p f g n q sc,
  sub f (p ++ n :: q) = Some sc ->
  exists x, sub (update_at f (p ++ n :: q) g) p = Some x /\ f_get x n <> None.
Proof.
  induction p as [|m p IH]; intros f g n q sc H; cbn [app] in *.
  - exists (update_at f (n :: q) g). split; [reflexivity|]. cbn [update_at].
    rewrite (f_get_map_upd f n n (fun c => update_at c q g)), Nat.eqb_refl.
    cbn [sub] in H. destruct (f_get f n); [discriminate|discriminate].
  - cbn [sub] in H. destruct (f_get f m) as [ch|] eqn:G; [|discriminate].
    destruct (IH ch g n q sc H) as (x & Hx & Hn). exists x. split; [|exact Hn].
    cbn [update_at sub]. rewrite (f_get_map_upd f m m (fun c => update_at c (p ++ n :: q) g)), Nat.eqb_refl, G. exact Hx.
Qed.

Lemma sub_chain_some : forall r bottom y x, sub (chain_tree r bottom) y = Some x -> is_prefix y r \/ is_prefix r y.
Proof.
  induction r as [|n r IH]; intros bottom y x H.
  - right. exists y. reflexivity.
  - destruct y as [|m y]; [left; exists (n :: r); reflexivity|].
    cbn [chain_tree sub f_get t_name t_children] in H. destruct (Nat.eqb n m) eqn:E; [|discriminate].
    apply Nat.eqb_eq in E. subst m. destruct (IH _ _ _ H) as [[q ->]|[q ->]].
    + left. exists q. reflexivity.
    + right. exists q. reflexivity.
Qed.

Definition depth_ok (hm : hmachine) : Prop :=
  forall p d, find_def (hm_states hm) p = Some d -> sd_depth d <= def_depth_bound.

Section Invariant.
  Variable hm : hmachine.
  Local Opaque def_depth_bound.

  (* every leaf of the configuration is a state without an (existing) initial child *)
  Definition closed (f : forest) : Prop :=
    forall p d, p <> [] -> sub f p = Some [] -> defs_at hm p = Some d -> no_init d.

  Lemma resolve_closed f sc dst dd r :
    depth_ok hm -> reg hm f -> closed f ->
    find_def (scope_children hm sc) dst = Some dd -> resolve f sc dst dd = Some r -> closed (r_new r).
  Proof.
    intros DK RG CL FD R p d PN LF DA.
    assert (ND : dst <> []) by (intros ->; destruct (scope_children hm sc); discriminate).
    unfold resolve in R.
    destruct (split_active f sc dst) as [root rest] eqn:SA.
    destruct (sub f (sc ++ root)) as [scoped|] eqn:SB; [|discriminate].
    assert (exists cur, sub f sc = Some cur) as [cur S].
    { rewrite sub_app in SB. destruct (sub f sc); [eauto|discriminate]. }
    destruct (split_active_spec f sc dst root rest cur ND S SA) as (E & RN & _ & _).
    assert (SCR : sc = [] \/ exists ds, find_def (hm_states hm) sc = Some ds).
    { destruct sc as [|s0 sc']; [now left|right]. apply RG; [discriminate|]. unfold active. now rewrite S. }
    pose proof (scope_children_find hm sc dst dd SCR ND FD) as FDA.
    assert (DB : sd_depth dd <= def_depth_bound) by (eapply DK; exact FDA).
    injection R as <-. cbn [r_new] in LF.
    destruct rest as [|d0 rt]; [congruence|]. cbn [hd tl] in *.
    set (bottom := initial_tree def_depth_bound dd) in *.
    destruct (prefix_cases (sc ++ root) p) as [[x ->]|[[q [Q EQ]]|[N1 N2]]].
    - (* at or below the base *)
      rewrite (sub_update_below _ _ _ _ _ SB) in LF.
      destruct x as [|k y].
      + cbn [sub] in LF. injection LF as LF.
        destruct (Nat.ltb 1 (length scoped)); [|discriminate].
        destruct scoped as [|[j c0] r0]; cbn in LF; [discriminate|]. destruct (Nat.eqb j d0); discriminate.
      + destruct (Nat.eq_dec k d0) as [->|NK].
        * assert (SUBY : sub (chain_tree rt bottom) y = Some []).
          { destruct (Nat.ltb 1 (length scoped)).
            - cbn [sub] in LF. rewrite f_get_f_set, Nat.eqb_refl in LF. exact LF.
            - cbn [chain_tree sub f_get t_name t_children] in LF. rewrite Nat.eqb_refl in LF. exact LF. }
          destruct (sub_chain_some _ _ _ _ SUBY) as [[z ->]|[q ->]].
          -- rewrite sub_chain_prefix in SUBY. injection SUBY as X. apply chain_tree_nil in X as [-> BN].
             rewrite app_nil_r in E.
             replace ((sc ++ root) ++ d0 :: y) with (sc ++ dst) in DA by (rewrite <- E, <- app_assoc; reflexivity).
             unfold defs_at in DA. rewrite FDA in DA. injection DA as <-.
             eapply initial_tree_nil; [exact DB|exact BN].
          -- rewrite sub_chain_below in SUBY. destruct q as [|q0 q'].
             ++ cbn [sub] in SUBY. injection SUBY as BN. rewrite app_nil_r in DA.
                replace ((sc ++ root) ++ d0 :: rt) with (sc ++ dst) in DA by (rewrite <- E, <- app_assoc; reflexivity).
                unfold defs_at in DA. rewrite FDA in DA. injection DA as <-.
                eapply initial_tree_nil; [exact DB|exact BN].
             ++ replace ((sc ++ root) ++ d0 :: rt ++ q0 :: q') with ((sc ++ dst) ++ q0 :: q') in DA
                  by (rewrite <- E, <- !app_assoc; reflexivity).
                unfold defs_at in DA. rewrite (find_def_app (sc ++ dst) _ (q0 :: q') dd) in DA;
                  [|destruct sc; [exact ND|discriminate]|discriminate|exact FDA].
                eapply (initial_tree_leaf def_depth_bound dd (q0 :: q')); [exact DB|discriminate|exact SUBY|exact DA].
        * destruct (Nat.ltb 1 (length scoped)).
          -- cbn [sub] in LF. rewrite f_get_f_set in LF. apply Nat.eqb_neq in NK. rewrite NK in LF.
             apply (CL ((sc ++ root) ++ k :: y) d PN); [|exact DA]. rewrite sub_app, SB. exact LF.
          -- cbn [chain_tree sub f_get t_name t_children] in LF. apply Nat.eqb_neq in NK. rewrite (Nat.eqb_sym d0 k), NK in LF.
             discriminate.
    - (* a strict prefix of the base keeps a child *)
      destruct q as [|n q']; [congruence|]. rewrite EQ in SB, LF.
      destruct (sub_update_prefix p f (fun _ => if Nat.ltb 1 (length scoped) then f_set scoped d0 (chain_tree rt bottom)
                                                else chain_tree (d0 :: rt) bottom) n q' scoped SB) as (x & Hx & Hn).
      rewrite Hx in LF. injection LF as ->. cbn in Hn. congruence.
    - rewrite (sub_update_other _ _ _ _ N1 N2) in LF. exact (CL p d PN LF DA).
  Qed.

  (* the configuration add_model puts a model in is closed *)
  Lemma initial_config_closed ini d :
    depth_ok hm -> find_def (hm_states hm) ini = Some d -> closed (chain_tree ini (initial_tree def_depth_bound d)).
  Proof.
    intros DK FD p d' PN LF DA. pose proof (DK _ _ FD) as DB.
    assert (NI : ini <> []) by (intros ->; destruct (hm_states hm); discriminate).
    destruct (sub_chain_some _ _ _ _ LF) as [[z ->]|[q ->]].
    - rewrite sub_chain_prefix in LF. injection LF as X. apply chain_tree_nil in X as [-> BN].
      rewrite app_nil_r in FD. unfold defs_at in DA. rewrite FD in DA. injection DA as <-.
      eapply initial_tree_nil; [exact DB|exact BN].
    - rewrite sub_chain_below in LF. destruct q as [|q0 q'].
      + cbn [sub] in LF. injection LF as BN. rewrite app_nil_r in DA. unfold defs_at in DA. rewrite FD in DA. injection DA as <-.
        eapply initial_tree_nil; [exact DB|exact BN].
      + unfold defs_at in DA. rewrite (find_def_app ini _ (q0 :: q') d) in DA; [|exact NI|discriminate|exact FD].
        eapply (initial_tree_leaf def_depth_bound d (q0 :: q')); [exact DB|discriminate|exact LF|exact DA].
  Qed.

  (* C02: closure is an invariant of every reachable configuration *)
  Theorem reach_closed f f' :
    wf_defs hm = true -> depth_ok hm -> reach hm f f' -> reg hm f -> closed f -> closed f'.
  Proof.
    intros W DK R. induction R as [|f sc dst dd r f' FD RS R IH]; intros RG CL; [exact CL|].
    apply IH.
    - eapply resolve_reg; eauto.
    - eapply resolve_closed; eauto.
  Qed.
End Invariant.
