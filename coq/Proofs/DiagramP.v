(* DiagramP.v — lemmas about Model/Diagram.v (property C16). *)
From Coq Require Import List Arith Bool Lia.
From M Require Import Diagram.
Import ListNotations.

(* ------------------------------------------------------------------ equality tests *)
Lemma nl_eqb_eq : forall a b, nl_eqb a b = true <-> a = b.
Proof.
  induction a as [|x a IH]; destruct b as [|y b]; simpl; split; intro H; try congruence; try discriminate.
  - apply andb_true_iff in H. destruct H as [H1 H2]. apply Nat.eqb_eq in H1. apply IH in H2. congruence.
  - inversion H; subst. apply andb_true_iff. split. apply Nat.eqb_refl. apply IH. reflexivity.
Qed.
Lemma nl_eqb_refl : forall a, nl_eqb a a = true.
Proof. intro a. apply nl_eqb_eq. reflexivity. Qed.
Lemma nl_eqb_neq : forall a b, nl_eqb a b = false <-> a <> b.
Proof.
  intros a b. split; intro H.
  - intro E. apply nl_eqb_eq in E. congruence.
  - destruct (nl_eqb a b) eqn:E; auto. apply nl_eqb_eq in E. contradiction.
Qed.
Lemma names_eqb_refl : forall a, names_eqb a a = true.
Proof. induction a; simpl; auto. rewrite nl_eqb_refl. auto. Qed.
Lemma mem_In : forall n l, mem n l = true <-> In n l.
Proof.
  intros n l. unfold mem. rewrite existsb_exists. split.
  - intros [x [Hx E]]. apply nl_eqb_eq in E. subst. auto.
  - intro H. exists n. split; auto. apply nl_eqb_refl.
Qed.

(* ------------------------------------------------------------------ lists *)
Lemma flat_map_nil_all : forall {A B} (f : A -> list B) l, (forall x, In x l -> f x = []) -> flat_map f l = [].
Proof. induction l; simpl; intros; auto. rewrite H by auto. rewrite IHl; auto. Qed.

Lemma flat_map_flat_map : forall {A B C} (f : A -> list B) (g : B -> list C) l,
  flat_map g (flat_map f l) = flat_map (fun x => flat_map g (f x)) l.
Proof. induction l; simpl; auto. rewrite flat_map_app. rewrite IHl. auto. Qed.

Lemma flat_map_ext_in : forall {A B} (f g : A -> list B) l, (forall x, In x l -> f x = g x) -> flat_map f l = flat_map g l.
Proof. induction l; simpl; intros; auto. rewrite H by auto. rewrite IHl; auto. Qed.

Lemma flat_map_map : forall {A B C} (f : A -> B) (g : B -> list C) l, flat_map g (map f l) = flat_map (fun x => g (f x)) l.
Proof. induction l; simpl; auto; try (rewrite IHl; auto). Qed.

Lemma map_flat_map : forall {A B C} (f : A -> list B) (g : B -> C) l, map g (flat_map f l) = flat_map (fun x => map g (f x)) l.
Proof. induction l; simpl; auto. rewrite map_app. rewrite IHl. auto. Qed.

Lemma flat_map_join : forall {A B} (P : A -> list B) (sep : list A) (ls : list (list A)),
  flat_map P sep = [] -> flat_map P (join sep ls) = flat_map (flat_map P) ls.
Proof.
  intros A B P sep ls Hs. induction ls as [|x r IH]; [reflexivity|].
  destruct r as [|y r'].
  - simpl. rewrite app_nil_r. auto.
  - change (join sep (x :: y :: r')) with (x ++ sep ++ join sep (y :: r')).
    rewrite !flat_map_app. rewrite Hs. rewrite IH. reflexivity.
Qed.

Lemma join_cons2 : forall {A} (sep : list A) x y r, join sep (x :: y :: r) = x ++ sep ++ join sep (y :: r).
Proof. reflexivity. Qed.

Lemma join_split : forall {A B} (f : B -> list A) (sep : list A) a k b,
  exists l1 l2, join sep (map f (a ++ k :: b)) = l1 ++ f k ++ l2
                /\ (a = [] -> l1 = []) /\ (a <> [] -> exists l0, l1 = l0 ++ sep).
Proof.
  intros A B f sep a. induction a as [|x a IH]; intros k b.
  - simpl app. simpl map. destruct b as [|y b'].
    + exists [], []. simpl. rewrite app_nil_r. repeat split; auto. intro H; congruence.
    + exists [], (sep ++ join sep (map f (y :: b'))). simpl map. rewrite join_cons2.
      repeat split; auto. intro H; congruence.
  - destruct (IH k b) as [l1 [l2 [E [H0 H1]]]].
    simpl app. simpl map.
    destruct (map f (a ++ k :: b)) as [|z zs] eqn:Em.
    { destruct a; simpl in Em; discriminate. }
    rewrite join_cons2. rewrite E.
    exists (f x ++ sep ++ l1), l2. split; [|split].
    + rewrite <- !app_assoc. reflexivity.
    + intro; discriminate.
    + intros _. destruct a as [|x' a'].
      * rewrite H0 by auto. exists (f x). rewrite app_nil_r. reflexivity.
      * destruct H1 as [l0 Hl0]; [discriminate|]. subst l1.
        exists (f x ++ sep ++ l0). rewrite <- !app_assoc. reflexivity.
Qed.

Lemma nodup_app : forall {A} (a b : list A), NoDup a -> NoDup b -> (forall x, In x a -> ~ In x b) -> NoDup (a ++ b).
Proof.
  induction a as [|x a IH]; simpl; intros b Ha Hb Hd; auto.
  inversion Ha; subst. constructor.
  - rewrite in_app_iff. intros [H|H]; auto. apply (Hd x); auto.
  - apply IH; auto.
Qed.

Lemma nodupb_NoDup : forall l, nodupb l = true -> NoDup l.
Proof.
  induction l as [|x l IH]; simpl; intro H; constructor.
  - apply andb_true_iff in H. destruct H as [H _]. apply negb_true_iff in H.
    intro Hin. assert (existsb (Nat.eqb x) l = true).
    { apply existsb_exists. exists x. split; auto. apply Nat.eqb_refl. }
    congruence.
  - apply IH. apply andb_true_iff in H. tauto.
Qed.

(* ------------------------------------------------------------------ tree induction *)
Section TreeInd.
  Variable P : stree -> Prop.
  Hypothesis H : forall i tx lb fin en ex comp ini kids, Forall P kids -> P (Node i tx lb fin en ex comp ini kids).
  Fixpoint stree_ind' (s : stree) : P s :=
    match s with
    | Node i tx lb fin en ex comp ini kids =>
        H i tx lb fin en ex comp ini kids
          ((fix go (l : list stree) : Forall P l :=
              match l with
              | [] => Forall_nil P
              | k :: r => Forall_cons k (stree_ind' k) (go r)
              end) kids)
    end.
End TreeInd.

(* ------------------------------------------------------------------ header of a state *)
(* the lines a state contributes itself, before its children *)
Definition header (o : opts) (sty : name -> nat) (pfx : name) (s : stree) : list line :=
  let nm := pfx ++ [s_id s] in
  Decl nm (disp o s)
  :: (if s_final s then [Final nm] else [])
  ++ (match pfx with [] => [ClassOf nm (sty nm)] | _ => [] end)
  ++ (if s_comp s then Open nm :: (match s_ini s with IniOne j => [Init (nm ++ [j])] | _ => [] end) else []).

Definition kids_body (o : opts) (sty : name -> nat) (nm : name) (ini : sinit) (kids : list stree) : list line :=
  match ini with
  | IniPar => join [Sep] (map (rnode o sty nm) kids)
  | _ => flat_map (rnode o sty nm) kids
  end.

Lemma rnode_header : forall o sty pfx s,
  rnode o sty pfx s =
  header o sty pfx s
  ++ (if s_comp s then kids_body o sty (pfx ++ [s_id s]) (s_ini s) (s_kids s) ++ [Close] else []).
Proof.
  intros o sty pfx s. destruct s as [i tx lb fin en ex comp ini kids].
  unfold header, kids_body. cbn [s_id s_final s_comp s_ini s_kids rnode].
  rewrite !app_comm_cons. rewrite <- !app_assoc. f_equal. f_equal. f_equal.
  destruct comp; [|reflexivity].
  destruct ini; reflexivity.
Qed.

Lemma proj_rnode : forall {B} (P : line -> list B) o sty pfx s,
  P Sep = [] -> P Close = [] ->
  flat_map P (rnode o sty pfx s) =
  flat_map P (header o sty pfx s)
  ++ (if s_comp s then flat_map (fun k => flat_map P (rnode o sty (pfx ++ [s_id s]) k)) (s_kids s) else []).
Proof.
  intros B P o sty pfx s HS HC. rewrite rnode_header. rewrite flat_map_app. f_equal.
  destruct (s_comp s); [|reflexivity].
  rewrite flat_map_app. cbn [flat_map]. rewrite HC. rewrite !app_nil_r.
  unfold kids_body. destruct (s_ini s).
  - rewrite flat_map_flat_map. reflexivity.
  - rewrite flat_map_flat_map. reflexivity.
  - rewrite flat_map_join by (simpl; rewrite HS; auto). rewrite flat_map_map. reflexivity.
Qed.

Lemma proj_rnode_all : forall {B} (P : line -> list B) o sty,
  P Sep = [] -> P Close = [] ->
  forall s pfx,
  flat_map P (rnode o sty pfx s) = flat_map (fun p => flat_map P (header o sty (fst p) (snd p))) (subtrees pfx s).
Proof.
  intros B P o sty HS HC s. induction s as [i tx lb fin en ex comp ini kids IH] using stree_ind'. intro pfx.
  rewrite proj_rnode by auto. simpl subtrees. cbn [flat_map fst snd]. f_equal.
  simpl s_comp. simpl s_kids. simpl s_id. destruct comp; auto.
  rewrite flat_map_flat_map. apply flat_map_ext_in. intros k Hk.
  rewrite Forall_forall in IH. apply IH. auto.
Qed.

Lemma fnode_header : forall o sty s, s_comp s = false -> fnode o sty s = header o sty [] s.
Proof. intros o sty s H. unfold fnode, header. rewrite H. destruct (s_final s); reflexivity. Qed.

Lemma subtrees_leaf : forall pfx s, s_comp s = false -> subtrees pfx s = [(pfx, s)].
Proof. intros pfx s H. destruct s. simpl in *. subst. reflexivity. Qed.

(* the projection of the node part of a diagram is the projection of the headers of all states *)
Lemma proj_nodes : forall {B} (P : line -> list B) o sty forest,
  P Sep = [] -> P Close = [] -> wf_kind o forest = true ->
  flat_map P (nodes o sty forest) =
  flat_map (fun p => flat_map P (header o sty (fst p) (snd p))) (all_subtrees forest).
Proof.
  intros B P o sty forest HS HC W. unfold nodes, all_subtrees.
  destruct (o_nested o) eqn:N; rewrite !flat_map_flat_map.
  - apply flat_map_ext_in. intros s _. apply proj_rnode_all; auto.
  - unfold wf_kind in W. rewrite N in W. simpl in W. rewrite forallb_forall in W.
    apply flat_map_ext_in. intros s Hs. specialize (W s Hs). apply negb_true_iff in W.
    rewrite fnode_header by auto. rewrite subtrees_leaf by auto. cbn [flat_map fst snd]. rewrite app_nil_r. reflexivity.
Qed.

(* ------------------------------------------------------------------ projections of the node part *)
Lemma flat_map_single : forall {A B} (g : A -> B) l, flat_map (fun x => [g x]) l = map g l.
Proof. induction l; simpl; auto; try (rewrite IHl; auto). Qed.

Ltac hdr_cases pfx s :=
  unfold header; destruct (s_final s), pfx, (s_comp s), (s_ini s); reflexivity.

Lemma decls_nodes : forall o sty forest, wf_kind o forest = true ->
  decls (nodes o sty forest) = map (fun p => (node_name p, disp o (snd p))) (all_subtrees forest).
Proof.
  intros o sty forest W. unfold decls. rewrite proj_nodes by auto.
  rewrite <- flat_map_single. apply flat_map_ext_in. intros [pfx s] _. cbn [fst snd]. unfold node_name. cbn [fst snd].
  hdr_cases pfx s.
Qed.

Lemma finals_nodes : forall o sty forest, wf_kind o forest = true ->
  finals (nodes o sty forest) =
  flat_map (fun p => if s_final (snd p) then [node_name p] else []) (all_subtrees forest).
Proof.
  intros o sty forest W. unfold finals. rewrite proj_nodes by auto.
  apply flat_map_ext_in. intros [pfx s] _. cbn [fst snd]. unfold node_name. cbn [fst snd].
  hdr_cases pfx s.
Qed.

Definition init_mark (p : name * stree) : list name :=
  if s_comp (snd p) then match s_ini (snd p) with IniOne j => [node_name p ++ [j]] | _ => [] end else [].

Lemma inits_nodes : forall o sty forest, wf_kind o forest = true ->
  inits (nodes o sty forest) = flat_map init_mark (all_subtrees forest).
Proof.
  intros o sty forest W. unfold inits. rewrite proj_nodes by auto.
  apply flat_map_ext_in. intros [pfx s] _. unfold init_mark, node_name. cbn [fst snd].
  hdr_cases pfx s.
Qed.

Lemma subtrees_pfx_nonempty : forall s pfx, pfx <> [] -> forall p, In p (subtrees pfx s) -> fst p <> [].
Proof.
  induction s as [i tx lb fin en ex comp ini kids IH] using stree_ind'. intros pfx Hp p Hin.
  simpl in Hin. destruct Hin as [E|Hin]; [subst; auto|].
  destruct comp; [|contradiction]. apply in_flat_map in Hin. destruct Hin as [k [Hk Hin]].
  rewrite Forall_forall in IH. apply (IH k Hk (pfx ++ [i])); auto. destruct pfx; discriminate.
Qed.

Lemma classes_nodes : forall o sty forest, wf_kind o forest = true ->
  classes (nodes o sty forest) = map (fun s => ([s_id s], sty [s_id s])) forest.
Proof.
  intros o sty forest W. unfold classes. rewrite proj_nodes by auto.
  unfold all_subtrees. rewrite flat_map_flat_map. rewrite <- flat_map_single.
  apply flat_map_ext_in. intros s _. destruct s as [i tx lb fin en ex comp ini kids].
  simpl subtrees. cbn [flat_map fst snd].
  match goal with |- ?X ++ flat_map ?F ?L = _ => assert (E : flat_map F L = []) end.
  { apply flat_map_nil_all. intros p Hp. destruct comp; [|contradiction].
    apply in_flat_map in Hp. destruct Hp as [k [_ Hp]].
    apply subtrees_pfx_nonempty in Hp; [|discriminate].
    destruct p as [pfx s]. cbn [fst snd] in *. destruct pfx; [congruence|].
    unfold header. destruct (s_final s), (s_comp s), (s_ini s); reflexivity. }
  rewrite E. rewrite app_nil_r.
  unfold header. cbn [s_id s_final s_comp s_ini]. destruct fin, comp, ini; reflexivity.
Qed.

(* ------------------------------------------------------------------ names are distinct *)
Fixpoint rel_names (s : stree) : list name :=
  match s with
  | Node i _ _ _ _ _ comp _ kids => [i] :: (if comp then map (cons i) (flat_map rel_names kids) else [])
  end.

Lemma names_subtrees : forall s pfx, map node_name (subtrees pfx s) = map (app pfx) (rel_names s).
Proof.
  induction s as [i tx lb fin en ex comp ini kids IH] using stree_ind'. intro pfx.
  simpl. unfold node_name at 1. cbn [fst snd s_id]. f_equal.
  destruct comp; [|reflexivity].
  rewrite map_map. rewrite !map_flat_map. apply flat_map_ext_in. intros k Hk.
  rewrite Forall_forall in IH. rewrite (IH k Hk). apply map_ext. intro a.
  rewrite <- app_assoc. reflexivity.
Qed.

Lemma all_names_rel : forall forest, all_names forest = flat_map rel_names forest.
Proof.
  intro forest. unfold all_names, all_subtrees. rewrite map_flat_map. apply flat_map_ext_in. intros s _.
  rewrite names_subtrees. rewrite <- (map_id (rel_names s)) at 2. apply map_ext. reflexivity.
Qed.

Lemma rel_names_head : forall s n, In n (rel_names s) -> exists r, n = s_id s :: r.
Proof.
  intros s n H. destruct s as [i tx lb fin en ex comp ini kids]. simpl in H. destruct H as [H|H].
  - subst. exists []. reflexivity.
  - destruct comp; [|contradiction]. apply in_map_iff in H. destruct H as [r [E _]]. exists r. auto.
Qed.

Lemma nodup_flat_heads : forall (f : stree -> list name) kids,
  (forall k n, In n (f k) -> exists r, n = s_id k :: r) ->
  NoDup (map s_id kids) -> (forall k, In k kids -> NoDup (f k)) -> NoDup (flat_map f kids).
Proof.
  intros f kids Hh. induction kids as [|k r IH]; simpl; intros Hn Hk; [constructor|].
  inversion Hn; subst. apply nodup_app; auto.
  intros x Hx Hin. apply in_flat_map in Hin. destruct Hin as [k' [Hk' Hx']].
  destruct (Hh _ _ Hx) as [r1 E1]. destruct (Hh _ _ Hx') as [r2 E2].
  assert (s_id k = s_id k') by congruence.
  apply H1. rewrite H. apply in_map. auto.
Qed.

Lemma nodup_map_cons : forall (i : nat) (l : list name), NoDup l -> NoDup (map (cons i) l).
Proof.
  induction l; simpl; intro H; constructor; inversion H; subst; auto.
  intro Hin. apply in_map_iff in Hin. destruct Hin as [x [E Hx]]. inversion E; subst. auto.
Qed.

Lemma rel_names_nodup : forall s, wf_ids s = true -> NoDup (rel_names s).
Proof.
  induction s as [i tx lb fin en ex comp ini kids IH] using stree_ind'. intro W.
  simpl in W. apply andb_true_iff in W. destruct W as [W1 W2]. rewrite forallb_forall in W2.
  simpl. constructor.
  - destruct comp; [|auto]. intro H. apply in_map_iff in H. destruct H as [r [E Hr]].
    inversion E; subst. apply in_flat_map in Hr. destruct Hr as [k [_ Hk]].
    apply rel_names_head in Hk. destruct Hk as [r' Hr']. discriminate.
  - destruct comp; [|constructor].
    apply nodup_map_cons.
    apply nodup_flat_heads.
    + apply rel_names_head.
    + apply nodupb_NoDup. auto.
    + intros k Hk. rewrite Forall_forall in IH. apply IH; auto.
Qed.

Lemma all_names_nodup : forall forest, wf_forest forest = true -> NoDup (all_names forest).
Proof.
  intros forest W. unfold wf_forest in W. apply andb_true_iff in W. destruct W as [W1 W2].
  rewrite forallb_forall in W2. rewrite all_names_rel. apply nodup_flat_heads.
  - apply rel_names_head.
  - apply nodupb_NoDup. auto.
  - intros k Hk. apply rel_names_nodup. auto.
Qed.

(* ------------------------------------------------------------------ block discipline *)
Definition chain (p : name) : list name := match p with [] => [] | _ => p :: prefixes p end.

Lemma prefixes_snoc : forall p i, prefixes (p ++ [i]) = chain p.
Proof.
  induction p as [|a r IH]; intro i; [reflexivity|].
  change ((a :: r) ++ [i]) with (a :: (r ++ [i])). cbn [prefixes]. rewrite IH.
  destruct r as [|b r']; [reflexivity|]. simpl. reflexivity.
Qed.

Lemma chain_snoc : forall p i, chain (p ++ [i]) = (p ++ [i]) :: chain p.
Proof. intros p i. unfold chain at 1. rewrite prefixes_snoc. destruct p; reflexivity. Qed.

Definition skips (l : line) : Prop :=
  match l with Decl _ _ | Open _ | Close => False | _ => True end.

Lemma check_skip : forall ls rest stk, Forall skips ls -> check_scopes (ls ++ rest) stk = check_scopes rest stk.
Proof.
  induction ls as [|l ls IH]; intros rest stk H; [reflexivity|].
  inversion H; subst. destruct l; simpl in *; try contradiction; auto.
Qed.

Lemma check_header : forall o sty pfx s rest,
  check_scopes (header o sty pfx s ++ rest) (chain pfx) =
  check_scopes rest (if s_comp s then chain (pfx ++ [s_id s]) else chain pfx).
Proof.
  intros o sty pfx s rest. unfold header. cbn [app check_scopes].
  rewrite prefixes_snoc. rewrite names_eqb_refl.
  rewrite <- !app_assoc.
  rewrite (check_skip (if s_final s then _ else _)) by (destruct (s_final s); repeat constructor).
  rewrite (check_skip (match pfx with [] => _ | _ => _ end)) by (destruct pfx; repeat constructor).
  destruct (s_comp s); [|reflexivity].
  cbn [app check_scopes]. rewrite prefixes_snoc. rewrite names_eqb_refl. rewrite chain_snoc.
  apply check_skip. destruct (s_ini s); repeat constructor.
Qed.

Lemma check_rnode : forall o sty s pfx rest,
  check_scopes (rnode o sty pfx s ++ rest) (chain pfx) = check_scopes rest (chain pfx).
Proof.
  intros o sty. induction s as [i tx lb fin en ex comp ini kids IH] using stree_ind'. intros pfx rest.
  rewrite rnode_header. rewrite <- app_assoc. rewrite check_header.
  cbn [s_comp s_id s_ini s_kids]. destruct comp; [|reflexivity].
  rewrite <- app_assoc.
  assert (K : forall rest', check_scopes (kids_body o sty (pfx ++ [i]) ini kids ++ rest') (chain (pfx ++ [i]))
                            = check_scopes rest' (chain (pfx ++ [i]))).
  { intro rest'. rewrite Forall_forall in IH. unfold kids_body.
    assert (F : forall l, (forall k, In k l -> In k kids) ->
                check_scopes (flat_map (rnode o sty (pfx ++ [i])) l ++ rest') (chain (pfx ++ [i]))
                = check_scopes rest' (chain (pfx ++ [i]))).
    { induction l as [|k l IHl]; intro Hl; [reflexivity|].
      simpl. rewrite <- app_assoc. rewrite IH by (apply Hl; left; auto). apply IHl. intros; apply Hl; right; auto. }
    destruct ini; try (apply F; auto).
    assert (J : forall l, (forall k, In k l -> In k kids) ->
                check_scopes (join [Sep] (map (rnode o sty (pfx ++ [i])) l) ++ rest') (chain (pfx ++ [i]))
                = check_scopes rest' (chain (pfx ++ [i]))).
    { induction l as [|k l IHl]; intro Hl; [reflexivity|].
      destruct l as [|k2 l2].
      - simpl. apply IH. apply Hl. left; auto.
      - simpl map. rewrite join_cons2. rewrite <- !app_assoc. rewrite IH by (apply Hl; left; auto).
        simpl app. cbn [check_scopes]. apply IHl. intros; apply Hl; right; auto. }
    apply J; auto. }
  rewrite K. simpl. rewrite chain_snoc. reflexivity.
Qed.

Lemma check_nodes : forall o sty forest rest,
  check_scopes (nodes o sty forest ++ rest) [] = check_scopes rest [].
Proof.
  intros o sty forest rest. unfold nodes. destruct (o_nested o).
  - induction forest as [|s f IH]; [reflexivity|]. simpl. rewrite <- app_assoc.
    rewrite (check_rnode o sty s [] _). apply IH.
  - induction forest as [|s f IH]; [reflexivity|]. simpl. rewrite <- app_assoc.
    unfold fnode at 1. cbn [app check_scopes prefixes map]. rewrite <- app_assoc.
    rewrite check_skip by (destruct (s_final s); repeat constructor).
    cbn [app check_scopes]. apply IH.
Qed.

Lemma edges_skips : forall o ts, Forall skips (edges o ts).
Proof.
  intros o ts. unfold edges. apply Forall_forall. intros l Hl.
  apply in_flat_map in Hl. destruct Hl as [[[s d] ls] [_ Hl]].
  destruct (o_nested o && empty_label ls); simpl in Hl; [contradiction|].
  destruct Hl as [Hl|[]]. subst. exact I.
Qed.

Lemma check_view : forall m st, check_scopes (render_full m st) [] = Some [].
Proof.
  intros m st. unfold render_full. rewrite check_nodes. rewrite check_skip by apply edges_skips. reflexivity.
Qed.

Lemma check_view_roi : forall m st cur, check_scopes (render_roi m st cur) [] = Some [].
Proof.
  intros m st cur. unfold render_roi. rewrite check_nodes. rewrite check_skip by apply edges_skips.
  destruct cur as [|c [|c2 r]]; try reflexivity. destruct (_ && _); reflexivity.
Qed.

(* ------------------------------------------------------------------ a state's block occurs in the diagram *)
Lemma subtree_occurs_in : forall o sty s0 p0 pfx s,
  In (pfx, s) (subtrees p0 s0) -> exists l1 l2, rnode o sty p0 s0 = l1 ++ rnode o sty pfx s ++ l2.
Proof.
  intros o sty. induction s0 as [i tx lb fin en ex comp ini kids IH] using stree_ind'. intros p0 pfx s Hin.
  cbn [subtrees] in Hin. destruct Hin as [E|Hin].
  - inversion E; subst. exists [], []. rewrite app_nil_r. reflexivity.
  - destruct comp; [|contradiction]. apply in_flat_map in Hin. destruct Hin as [k [Hk Hin]].
    rewrite Forall_forall in IH. destruct (IH k Hk _ _ _ Hin) as [a [b E]].
    destruct (in_split _ _ Hk) as [ka [kb Ek]].
    rewrite rnode_header. cbn [s_comp s_id s_ini s_kids].
    remember (header o sty p0 (Node i tx lb fin en ex true ini kids)) as hd.
    clear Heqhd. unfold kids_body. rewrite Ek.
    destruct ini.
    + rewrite flat_map_app. cbn [flat_map]. rewrite E.
      exists (hd ++ flat_map (rnode o sty (p0 ++ [i])) ka ++ a), (b ++ flat_map (rnode o sty (p0 ++ [i])) kb ++ [Close]).
      rewrite <- !app_assoc. reflexivity.
    + rewrite flat_map_app. cbn [flat_map]. rewrite E.
      exists (hd ++ flat_map (rnode o sty (p0 ++ [i])) ka ++ a), (b ++ flat_map (rnode o sty (p0 ++ [i])) kb ++ [Close]).
      rewrite <- !app_assoc. reflexivity.
    + destruct (join_split (rnode o sty (p0 ++ [i])) [Sep] ka k kb) as [l1 [l2 [Ej _]]].
      rewrite Ej. rewrite E.
      exists (hd ++ l1 ++ a), (b ++ l2 ++ [Close]). rewrite <- !app_assoc. reflexivity.
Qed.

Lemma subtree_occurs : forall o sty forest pfx s,
  o_nested o = true -> In (pfx, s) (all_subtrees forest) ->
  exists l1 l2, nodes o sty forest = l1 ++ rnode o sty pfx s ++ l2.
Proof.
  intros o sty forest pfx s N Hin. unfold all_subtrees in Hin. apply in_flat_map in Hin.
  destruct Hin as [k [Hk Hin]]. destruct (subtree_occurs_in o sty _ _ _ _ Hin) as [a [b E]].
  destruct (in_split _ _ Hk) as [ka [kb Ek]]. unfold nodes. rewrite N. rewrite Ek.
  rewrite flat_map_app. cbn [flat_map]. rewrite E.
  exists (flat_map (rnode o sty []) ka ++ a), (b ++ flat_map (rnode o sty []) kb). rewrite <- !app_assoc. reflexivity.
Qed.

(* every region of a parallel state except the first is directly preceded by a separator *)
Lemma parallel_separated : forall o sty forest pfx s a k b,
  o_nested o = true -> In (pfx, s) (all_subtrees forest) ->
  s_comp s = true -> s_ini s = IniPar -> s_kids s = a ++ k :: b -> a <> [] ->
  exists l1 l2, nodes o sty forest = l1 ++ Sep :: rnode o sty (pfx ++ [s_id s]) k ++ l2.
Proof.
  intros o sty forest pfx s a k b N Hin C I K Ha.
  destruct (subtree_occurs o sty forest pfx s N Hin) as [x [y E]].
  rewrite E. rewrite rnode_header. rewrite C, I, K. unfold kids_body.
  destruct (join_split (rnode o sty (pfx ++ [s_id s])) [Sep] a k b) as [l1 [l2 [Ej [_ Hs]]]].
  destruct (Hs Ha) as [l0 El0]. subst l1. rewrite Ej.
  remember (header o sty pfx s) as hd. clear Heqhd.
  exists (x ++ hd ++ l0), (l2 ++ [Close] ++ y).
  rewrite <- !app_assoc. reflexivity.
Qed.

(* ------------------------------------------------------------------ edges *)
Definition keq (k k' : name * name) : bool := nl_eqb (fst k) (fst k') && nl_eqb (snd k) (snd k').
Lemma keq_eq : forall k k', keq k k' = true <-> k = k'.
Proof.
  intros [a b] [c d]. unfold keq. simpl. rewrite andb_true_iff, !nl_eqb_eq. split.
  - intros [? ?]; subst; auto.
  - intro E; inversion E; auto.
Qed.
Lemma keq_refl : forall k, keq k k = true.
Proof. intro k. apply keq_eq. auto. Qed.

Fixpoint glook (es : list egroup) (k : name * name) : option (list str) :=
  match es with
  | [] => None
  | (s', d', ls) :: r => if keq k (s', d') then Some ls else glook r k
  end.
Definition gkeys (es : list egroup) : list (name * name) := map (fun g => (fst (fst g), snd (fst g))) es.

Lemma add_label_unfold : forall s d l s' d' ls r,
  add_label s d l ((s', d', ls) :: r) =
  if keq (s, d) (s', d') then (s', d', ls ++ [l]) :: r else (s', d', ls) :: add_label s d l r.
Proof. reflexivity. Qed.

Lemma keq_sym : forall k k', keq k k' = keq k' k.
Proof.
  intros k k'. destruct (keq k k') eqn:E1, (keq k' k) eqn:E2; auto.
  - apply keq_eq in E1. subst. rewrite keq_refl in E2. discriminate.
  - apply keq_eq in E2. subst. rewrite keq_refl in E1. discriminate.
Qed.

Lemma glook_add : forall es s d l k,
  glook (add_label s d l es) k =
  if keq k (s, d) then Some (match glook es (s, d) with Some ls => ls ++ [l] | None => [l] end)
  else glook es k.
Proof.
  induction es as [|[[a b] ls] r IH]; intros s d l k.
  - simpl. destruct (keq k (s, d)); reflexivity.
  - rewrite add_label_unfold. destruct (keq (s, d) (a, b)) eqn:E1.
    + apply keq_eq in E1. inversion E1; subst. simpl. rewrite (keq_refl (a, b)).
      destruct (keq k (a, b)); reflexivity.
    + simpl. rewrite E1. rewrite IH. destruct (keq k (a, b)) eqn:E2; [|reflexivity].
      apply keq_eq in E2. subst k. rewrite keq_sym. rewrite E1. reflexivity.
Qed.

Lemma group_snoc : forall o ts t,
  group o (ts ++ [t]) = add_label (t_src t) (dst_of t) (tlabel o t) (group o ts).
Proof. intros. unfold group. rewrite fold_left_app. reflexivity. Qed.

Lemma labels_for_snoc : forall o ts t s d,
  labels_for o (ts ++ [t]) s d =
  labels_for o ts s d ++ (if keq (t_src t, dst_of t) (s, d) then [tlabel o t] else []).
Proof.
  intros. unfold labels_for. rewrite filter_app, map_app. f_equal. simpl. unfold keq. simpl.
  destruct (nl_eqb (t_src t) s && nl_eqb (dst_of t) d); reflexivity.
Qed.

Lemma glook_group : forall o ts s d,
  glook (group o ts) (s, d) = match labels_for o ts s d with [] => None | ls => Some ls end.
Proof.
  intros o ts. induction ts as [|t ts IH] using rev_ind; intros s d; [reflexivity|].
  rewrite group_snoc, glook_add, labels_for_snoc. rewrite (keq_sym (s, d)).
  destruct (keq (t_src t, dst_of t) (s, d)) eqn:E.
  - apply keq_eq in E. inversion E; subst. rewrite IH.
    destruct (labels_for o ts (t_src t) (dst_of t)); reflexivity.
  - rewrite app_nil_r. apply IH.
Qed.

Lemma glook_In : forall es k ls, glook es k = Some ls -> In (fst k, snd k, ls) es.
Proof.
  induction es as [|[[a b] l0] r IH]; intros k ls H; simpl in H; [discriminate|].
  destruct (keq k (a, b)) eqn:E.
  - apply keq_eq in E. subst. inversion H; subst. left. reflexivity.
  - right. apply IH. auto.
Qed.

Lemma gkeys_add : forall es s d l,
  gkeys (add_label s d l es) = if existsb (keq (s, d)) (gkeys es) then gkeys es else gkeys es ++ [(s, d)].
Proof.
  induction es as [|[[a b] l0] r IH]; intros s d l; [reflexivity|].
  rewrite add_label_unfold. simpl existsb. destruct (keq (s, d) (a, b)) eqn:E; simpl.
  - reflexivity.
  - rewrite IH. destruct (existsb (keq (s, d)) (gkeys r)); reflexivity.
Qed.

Lemma gkeys_nodup : forall o ts, NoDup (gkeys (group o ts)).
Proof.
  intros o ts. induction ts as [|t ts IH] using rev_ind; [constructor|].
  rewrite group_snoc, gkeys_add.
  destruct (existsb (keq (t_src t, dst_of t)) (gkeys (group o ts))) eqn:E; auto.
  apply nodup_app; auto.
  - repeat constructor. intros [].
  - intros x Hx [Hy|[]]. subst x.
    assert (existsb (keq (t_src t, dst_of t)) (gkeys (group o ts)) = true).
    { apply existsb_exists. eexists. split; eauto. apply keq_refl. }
    congruence.
Qed.

Lemma In_glook : forall es s d ls, NoDup (gkeys es) -> In (s, d, ls) es -> glook es (s, d) = Some ls.
Proof.
  induction es as [|[[a b] l0] r IH]; intros s d ls N H; [contradiction|].
  simpl in N. inversion N; subst. simpl. destruct H as [H|H].
  - inversion H; subst. rewrite keq_refl. reflexivity.
  - destruct (keq (s, d) (a, b)) eqn:E.
    + apply keq_eq in E. inversion E; subst. exfalso. apply H2.
      unfold gkeys. apply in_map_iff. exists (a, b, ls). split; auto.
    + apply IH; auto.
Qed.

Lemma edges_In : forall o ts s d ls,
  In (Edge s d ls) (edges o ts) <-> In (s, d, ls) (group o ts) /\ o_nested o && empty_label ls = false.
Proof.
  intros o ts s d ls. unfold edges. rewrite in_flat_map. split.
  - intros [[[a b] l0] [Hg Hin]]. destruct (o_nested o && empty_label l0) eqn:E; simpl in Hin; [contradiction|].
    destruct Hin as [Hin|[]]. inversion Hin; subst. auto.
  - intros [Hg E]. exists (s, d, ls). split; auto. rewrite E. left. reflexivity.
Qed.

(* every transition (with a non-empty label) has its edge, carrying the labels of all transitions
   between the same two states, its own among them *)
Lemma edges_complete : forall o ts t, In t ts -> tlabel o t <> [] ->
  In (Edge (t_src t) (dst_of t) (labels_for o ts (t_src t) (dst_of t))) (edges o ts)
  /\ In (tlabel o t) (labels_for o ts (t_src t) (dst_of t)).
Proof.
  intros o ts t Hin Hl.
  assert (Hm : In (tlabel o t) (labels_for o ts (t_src t) (dst_of t))).
  { unfold labels_for. apply in_map. apply filter_In. split; auto. rewrite !nl_eqb_refl. reflexivity. }
  split; auto. apply edges_In. split.
  - pose proof (glook_group o ts (t_src t) (dst_of t)) as G.
    destruct (labels_for o ts (t_src t) (dst_of t)) as [|x r] eqn:E; [contradiction|].
    apply glook_In in G. exact G.
  - destruct (o_nested o); [|reflexivity]. simpl.
    destruct (labels_for o ts (t_src t) (dst_of t)) as [|x r]; try reflexivity.
    destruct x; try reflexivity. destruct r; try reflexivity.
    destruct Hm as [Hm|[]]. congruence.
Qed.

(* every edge line carries exactly the labels of the transitions between its two states *)
Lemma edges_sound : forall o ts s d ls, In (Edge s d ls) (edges o ts) ->
  ls = labels_for o ts s d /\ ls <> [].
Proof.
  intros o ts s d ls H. apply edges_In in H. destruct H as [H _].
  apply In_glook in H; [|apply gkeys_nodup]. rewrite glook_group in H.
  destruct (labels_for o ts s d); [discriminate|]. inversion H; subst. split; auto. discriminate.
Qed.

Lemma labels_for_In : forall o ts s d l, In l (labels_for o ts s d) ->
  exists t, In t ts /\ t_src t = s /\ dst_of t = d /\ tlabel o t = l.
Proof.
  intros o ts s d l H. unfold labels_for in H. apply in_map_iff in H. destruct H as [t [E H]].
  apply filter_In in H. destruct H as [Hin Hb]. apply andb_true_iff in Hb. destruct Hb as [H1 H2].
  apply nl_eqb_eq in H1. apply nl_eqb_eq in H2. exists t. auto.
Qed.

Lemma tlabel_nonempty : forall o t, wf_trans t = true -> tlabel o t <> [].
Proof.
  intros o t W. unfold wf_trans in W. apply andb_true_iff in W. destruct W as [W1 W2].
  unfold tlabel.
  assert (B : (match t_label t with Some l => l | None => t_trig t end) <> []).
  { destruct (t_label t) as [[|c l]|]; try discriminate. destruct (t_trig t); discriminate. }
  destruct (match t_label t with Some l => l | None => t_trig t end) as [|c b]; [congruence|].
  destruct (t_dst t); destruct (o_conds o && _); discriminate.
Qed.

Lemma in_edge_lines : forall ls s d lb, In (Edge s d lb) ls <-> In (s, d, lb) (edge_lines ls).
Proof.
  intros ls s d lb. unfold edge_lines. rewrite in_flat_map. split.
  - intro H. exists (Edge s d lb). split; auto. left. reflexivity.
  - intros [l [Hl Hin]]. destruct l; simpl in Hin; try contradiction. destruct Hin as [E|[]]. inversion E; subst. auto.
Qed.

Lemma nodes_no_edge : forall o sty forest s d lb, wf_kind o forest = true -> ~ In (Edge s d lb) (nodes o sty forest).
Proof.
  intros o sty forest s d lb W H. apply in_edge_lines in H. unfold edge_lines in H.
  rewrite proj_nodes in H by auto. apply in_flat_map in H. destruct H as [[pfx x] [_ H]].
  cbn [fst snd] in H. unfold header in H.
  destruct (s_final x), pfx, (s_comp x), (s_ini x); simpl in H; contradiction.
Qed.

Lemma view_edge : forall m st s d lb, wf_kind (m_opts m) (m_states m) = true ->
  (In (Edge s d lb) (render_full m st) <-> In (Edge s d lb) (edges (m_opts m) (elements m))).
Proof.
  intros m st s d lb W. unfold render_full. rewrite !in_app_iff. split.
  - intros [H|[H|H]]; auto.
    + exfalso. eapply nodes_no_edge; eauto.
    + destruct H as [H|[]]. discriminate.
  - auto.
Qed.

(* ------------------------------------------------------------------ styling over histories *)
Lemma nstyle_set : forall ns v base n, nstyle (set_nodes ns v base) n = if mem n ns then v else nstyle base n.
Proof.
  unfold set_nodes. induction ns as [|a ns IH]; intros v base n; [reflexivity|].
  simpl fold_left. rewrite IH. simpl. destruct (nl_eqb n a); simpl; destruct (mem n ns); reflexivity.
Qed.

Definition sty_inv (d : dstate) : Prop :=
  forall n, (nstyle (st_nodes (d_sty d)) n = 1 <-> In n (d_cur d))
         /\ (nstyle (st_nodes (d_sty d)) n = 2 -> d_last d = Some n)
         /\ nstyle (st_nodes (d_sty d)) n <= 2.

Lemma fresh_inv : forall m cur last, sty_inv (mkD m cur (fresh_styles cur) last).
Proof.
  intros m cur last n. simpl. rewrite nstyle_set. simpl.
  destruct (mem n cur) eqn:E.
  - apply mem_In in E. repeat split; auto; try discriminate.
  - assert (~ In n cur) by (intro H; apply mem_In in H; congruence).
    repeat split; auto; try discriminate; try lia. intro; contradiction.
Qed.

Lemma change_inv : forall m src dst nc, sty_inv (mkD m nc (change_styles src dst nc) (Some src)).
Proof.
  intros m src dst nc n. simpl. rewrite nstyle_set. simpl.
  destruct (mem n nc) eqn:E.
  - apply mem_In in E. repeat split; auto; try discriminate.
  - assert (~ In n nc) by (intro H; apply mem_In in H; congruence).
    destruct (nl_eqb n src) eqn:E2.
    + apply nl_eqb_eq in E2. subst. repeat split; auto; try discriminate. intro; contradiction.
    + repeat split; auto; try discriminate; try lia. intro; contradiction.
Qed.

(* the part of the invariant that also holds in the middle of a transition *)
Definition pre_inv (d : dstate) : Prop :=
  forall n, (nstyle (st_nodes (d_sty d)) n = 1 -> In n (d_cur d))
         /\ (nstyle (st_nodes (d_sty d)) n = 2 -> d_last d = Some n)
         /\ nstyle (st_nodes (d_sty d)) n <= 2.

Lemma sty_pre : forall d, sty_inv d -> pre_inv d.
Proof. intros d I n. destruct (I n) as [A [B C]]. repeat split; auto. apply A. Qed.

Lemma activate_inv : forall d, pre_inv d ->
  sty_inv (mkD (d_m d) (d_cur d) (mkS (set_nodes (d_cur d) 1 (st_nodes (d_sty d))) (st_edges (d_sty d))) (d_last d)).
Proof.
  intros d I n. destruct (I n) as [A [B C]]. simpl. rewrite nstyle_set.
  destruct (mem n (d_cur d)) eqn:E.
  - apply mem_In in E. repeat split; auto; try discriminate.
  - repeat split; auto. intro H. apply mem_In in H. congruence.
Qed.

Lemma find_node_inert : forall cfg d f s,
  forallb (inert_tree cfg) f = true -> find_node f d = Some s -> inert_tree cfg s = true.
Proof.
  intros cfg. induction d as [|i r IH]; intros f s F H; [discriminate|].
  simpl in H. destruct (find (fun s0 => Nat.eqb (s_id s0) i) f) as [s0|] eqn:E; [|discriminate].
  apply find_some in E. destruct E as [E _]. rewrite forallb_forall in F. pose proof (F s0 E) as I0.
  destruct r as [|j r'].
  - inversion H; subst. auto.
  - apply (IH (s_kids s0)); auto. destruct s0. simpl in I0. apply andb_true_iff in I0. simpl. tauto.
Qed.

Lemma exit_cbs_inert : forall m n c, exit_inert m = true ->
  In c (cbs_of (m_states m) n s_exit) -> passive (cbcfg m) c = true.
Proof.
  intros m n c I H. unfold cbs_of in H. destruct (find_node (m_states m) n) as [s|] eqn:E; [|contradiction].
  pose proof (find_node_inert _ _ _ _ I E) as J. destruct s. simpl in *.
  apply andb_true_iff in J. destruct J as [J _]. rewrite forallb_forall in J. exact (J c H).
Qed.

Lemma run_cbs_inert : forall call acts regen cs st,
  (forall c, In c cs -> passive (acts, regen) c = true) -> run_cbs call acts regen cs st = st.
Proof.
  intros call acts regen. induction cs as [|c r IH]; intros st H; [reflexivity|].
  simpl. pose proof (H c (or_introl eq_refl)) as Hc. unfold passive in Hc. simpl in Hc.
  apply andb_true_iff in Hc. destruct Hc as [H1 H2]. apply negb_true_iff in H1. rewrite H1.
  destruct (act_of acts c); [discriminate|]. apply IH. intros; apply H; right; auto.
Qed.

Definition call_ok (call : caller) : Prop :=
  match call with
  | None => True
  | Some f => forall b d e, exit_inert (d_m d) = true -> pre_inv d ->
                d_m (fst (f b d e)) = d_m d /\ pre_inv (fst (f b d e))
  end.

Lemma run_cbs_pres : forall call acts regen m, call_ok call -> exit_inert m = true ->
  forall cs st, d_m (fst st) = m -> pre_inv (fst st) ->
  d_m (fst (run_cbs call acts regen cs st)) = m /\ pre_inv (fst (run_cbs call acts regen cs st)).
Proof.
  intros call acts regen m OK I. induction cs as [|c r IH]; intros st Hm Hp; [auto|].
  simpl. destruct (mem c regen).
  - apply IH; simpl; auto. apply sty_pre. apply fresh_inv.
  - apply IH.
    + destruct (act_of acts c); auto. destruct call as [f|]; auto. destruct (snd st); auto.
      simpl in OK. rewrite <- Hm in I. destruct (OK n (fst st) s I Hp) as [A _]. congruence.
    + destruct (act_of acts c); auto. destruct call as [f|]; auto. destruct (snd st); auto.
      simpl in OK. rewrite <- Hm in I. destruct (OK n (fst st) s I Hp) as [_ B]. auto.
Qed.

Lemma fire_body_ok : forall call b d e, call_ok call -> exit_inert (d_m d) = true -> pre_inv d ->
  let r := fst (fire_body call b d e) in
  d_m r = d_m d /\ pre_inv r /\ (r = d \/ sty_inv r).
Proof.
  intros call b d e OK I P. unfold fire_body.
  destruct (d_cur d) as [|leaf [|x rr]]; try (simpl; auto).
  destruct (pick (held (d_m d)) e leaf) as [[t k]|]; [|simpl; auto].
  destruct (t_dst t) as [dst|]; [|simpl; auto].
  rewrite (run_cbs_inert call (m_acts (d_m d)) (m_regen (d_m d)) (cbs_of (m_states (d_m d)) (t_src t) s_exit))
    by (intros c Hc; apply (exit_cbs_inert (d_m d) (t_src t) c I Hc)).
  cbn [fst snd d_m d_sty d_last].
  match goal with |- context [run_cbs call ?A ?R ?C ?S] => remember (run_cbs call A R C S) as st3 eqn:E3 end.
  assert (G : d_m (fst st3) = d_m d /\ pre_inv (fst st3)).
  { subst st3. apply run_cbs_pres; auto.
    intro n. simpl. destruct (nl_eqb n (skipn k (t_src t))) eqn:En.
    - apply nl_eqb_eq in En. subst. repeat split; auto; try discriminate.
    - repeat split; auto; try discriminate. }
  destruct G as [G1 G2]. pose proof (activate_inv (fst st3) G2) as A.
  simpl. split; [exact G1|]. split; [apply sty_pre; exact A|]. right. exact A.
Qed.

Lemma fire_ok : forall fuel, call_ok (Some (fire fuel)).
Proof.
  assert (I0 : call_ok None) by exact Logic.I.
  induction fuel as [|f IH]; intros b d e I P.
  - destruct (fire_body_ok None b d e I0 I P) as [A [B _]]. split; [exact A|exact B].
  - destruct (fire_body_ok (Some (fire f)) b d e IH I P) as [A [B _]]. split; [exact A|exact B].
Qed.

Lemma fire_top : forall fuel b d e, exit_inert (d_m d) = true -> sty_inv d ->
  d_m (fst (fire fuel b d e)) = d_m d /\ sty_inv (fst (fire fuel b d e)).
Proof.
  intros fuel b d e I S.
  assert (G : let r := fst (fire fuel b d e) in d_m r = d_m d /\ pre_inv r /\ (r = d \/ sty_inv r)).
  { destruct fuel as [|f].
    - apply (fire_body_ok None b d e Logic.I I (sty_pre d S)).
    - apply (fire_body_ok (Some (fire f)) b d e (fire_ok f) I (sty_pre d S)). }
  destruct G as [A [_ [C|C]]]; split; auto. rewrite C. auto.
Qed.

Lemma step_inv : forall d o, exit_inert (d_m d) = true -> op_inert (cbcfg (d_m d)) o = true -> sty_inv d ->
  sty_inv (step d o) /\ exit_inert (d_m (step d o)) = true /\ cbcfg (d_m (step d o)) = cbcfg (d_m d).
Proof.
  intros d o I O S. destruct o; simpl.
  - destruct (fire_top (m_budget (d_m d)) (m_budget (d_m d)) d e I S) as [A B]. rewrite A. auto.
  - split; [apply fresh_inv|]. split; auto. unfold exit_inert, cbcfg in *. simpl in *. rewrite forallb_app. rewrite I. simpl.
    rewrite O. reflexivity.
  - split; [apply fresh_inv|]. split; auto. unfold exit_inert, cbcfg in *. simpl in *. rewrite forallb_app. rewrite I. simpl.
    exact O.
  - split; [apply fresh_inv|]. auto.
  - split; [apply fresh_inv|]. auto.
Qed.

Lemma run_inv : forall m ops, exit_inert m = true -> forallb (op_inert (cbcfg m)) ops = true -> sty_inv (run m ops).
Proof.
  intros m ops I O. unfold run.
  assert (G : forall d, sty_inv d -> exit_inert (d_m d) = true -> cbcfg (d_m d) = cbcfg m ->
                        sty_inv (fold_left step ops d)).
  { induction ops as [|o ops IH]; intros d S Id Ad; simpl; auto.
    simpl in O. apply andb_true_iff in O. destruct O as [O1 O2].
    rewrite <- Ad in O1. destruct (step_inv d o Id O1 S) as [A [B C]].
    apply IH; auto. congruence. }
  apply G; auto. unfold init_state. apply fresh_inv.
Qed.

Lemma proj_edges_nil : forall {B} (P : line -> list B) o ts,
  (forall s d ls, P (Edge s d ls) = []) -> flat_map P (edges o ts) = [].
Proof.
  intros B P o ts H. apply flat_map_nil_all. intros l Hl. unfold edges in Hl.
  apply in_flat_map in Hl. destruct Hl as [[[s d] ls] [_ Hl]].
  destruct (o_nested o && empty_label ls); simpl in Hl; [contradiction|]. destruct Hl as [E|[]]. subst. apply H.
Qed.

Lemma classes_view : forall m st, wf_kind (m_opts m) (m_states m) = true ->
  classes (render_full m st) = map (fun s => ([s_id s], nstyle (st_nodes st) [s_id s])) (m_states m).
Proof.
  intros m st W. unfold render_full, classes. rewrite !flat_map_app.
  rewrite proj_edges_nil by reflexivity. simpl. rewrite app_nil_r.
  apply (classes_nodes (m_opts m) (nstyle (st_nodes st)) (m_states m) W).
Qed.

Lemma in_classes : forall ls n v, In (ClassOf n v) ls <-> In (n, v) (classes ls).
Proof.
  intros ls n v. unfold classes. rewrite in_flat_map. split.
  - intro H. exists (ClassOf n v). split; auto. left. reflexivity.
  - intros [l [Hl Hin]]. destruct l; simpl in Hin; try contradiction. destruct Hin as [E|[]]. inversion E; subst. auto.
Qed.

Lemma styles_thm : forall m ops, let d := run m ops in
  exit_inert m = true -> forallb (op_inert (cbcfg m)) ops = true ->
  wf_kind (m_opts (d_m d)) (m_states (d_m d)) = true ->
  (forall n, In (ClassOf n 1) (view d) -> In n (d_cur d))
  /\ (forall n, In (ClassOf n 2) (view d) -> d_last d = Some n)
  /\ (forall n v, In (ClassOf n v) (view d) -> v <= 2)
  /\ (forall s, In s (m_states (d_m d)) -> In [s_id s] (d_cur d) -> In (ClassOf [s_id s] 1) (view d)).
Proof.
  intros m ops d EI OI W. pose proof (run_inv m ops EI OI) as I. fold d in I.
  assert (C : forall n v, In (ClassOf n v) (view d) -> nstyle (st_nodes (d_sty d)) n = v).
  { intros n v H. apply in_classes in H. unfold view in H. rewrite classes_view in H by auto.
    apply in_map_iff in H. destruct H as [s [E _]]. inversion E; subst. reflexivity. }
  repeat split.
  - intros n H. apply C in H. apply (I n). auto.
  - intros n H. apply C in H. apply (I n). auto.
  - intros n v H. apply C in H. subst v. apply (I n).
  - intros s Hs Hc. apply in_classes. unfold view. rewrite classes_view by auto.
    apply in_map_iff. exists s. split; auto. f_equal. apply (I [s_id s]). auto.
Qed.

(* ------------------------------------------------------------------ region of interest *)
Definition strip (s : stree) : stree :=
  match s with Node i tx lb fin en ex comp ini _ => Node i tx lb fin en ex comp ini [] end.

Lemma strip_disp : forall o s s', strip s' = strip s -> disp o s' = disp o s /\ s_id s' = s_id s.
Proof. intros o s s' H. destruct s, s'. simpl in H. inversion H; subst. split; reflexivity. Qed.

Lemma fstate_keeps : forall names s0 p0 pfx s,
  In (pfx, s) (subtrees p0 s0) -> mem (pfx ++ [s_id s]) names = true ->
  exists s', In (pfx, s') (flat_map (subtrees p0) (fstate names p0 s0)) /\ strip s' = strip s.
Proof.
  intros names. induction s0 as [i tx lb fin en ex comp ini kids IH] using stree_ind'. intros p0 pfx s Hin Hm.
  cbn [subtrees] in Hin. destruct Hin as [E|Hin].
  - inversion E; subst. cbn [s_id] in Hm. cbn [fstate]. rewrite Hm. destruct comp.
    + rewrite orb_true_r. eexists. split; [simpl; left; reflexivity|reflexivity].
    + eexists. split; [simpl; left; reflexivity|reflexivity].
  - destruct comp; [|contradiction]. apply in_flat_map in Hin. destruct Hin as [k [Hk Hin]].
    rewrite Forall_forall in IH. destruct (IH k Hk _ _ _ Hin Hm) as [s' [Hs' St]].
    apply in_flat_map in Hs'. destruct Hs' as [x [Hx Hs']].
    assert (Hks : In x (flat_map (fstate names (p0 ++ [i])) kids)).
    { apply in_flat_map. exists k. auto. }
    cbn [fstate].
    destruct (flat_map (fstate names (p0 ++ [i])) kids) as [|y ys] eqn:Eks; [contradiction|].
    simpl negb. simpl orb. exists s'. split; auto.
    cbn [flat_map]. rewrite app_nil_r. cbn [subtrees]. right.
    apply in_flat_map. exists x. auto.
Qed.

Lemma filter_keeps : forall names forest pfx s,
  In (pfx, s) (all_subtrees forest) -> mem (pfx ++ [s_id s]) names = true ->
  exists s', In (pfx, s') (all_subtrees (filter_states names forest)) /\ strip s' = strip s.
Proof.
  intros names forest pfx s Hin Hm. unfold all_subtrees in *. apply in_flat_map in Hin.
  destruct Hin as [k [Hk Hin]]. destruct (fstate_keeps names k [] pfx s Hin Hm) as [s' [H1 H2]].
  exists s'. split; auto. unfold filter_states. rewrite flat_map_flat_map. apply in_flat_map. exists k. auto.
Qed.

Lemma wf_kind_filter : forall o names forest, wf_kind o forest = true -> wf_kind o (filter_states names forest) = true.
Proof.
  intros o names forest W. unfold wf_kind in *. destruct (o_nested o); auto. simpl in *.
  rewrite forallb_forall in *. intros x Hx. unfold filter_states in Hx. apply in_flat_map in Hx.
  destruct Hx as [k [Hk Hx]]. specialize (W k Hk). destruct k as [i tx lb fin en ex comp ini kids].
  simpl in W. apply negb_true_iff in W. subst comp. cbn [fstate] in Hx.
  destruct (mem ([] ++ [i]) names); simpl in Hx; [|contradiction]. destruct Hx as [E|[]]. subst. reflexivity.
Qed.

Lemma in_decls : forall ls n lb, In (n, lb) (decls ls) -> In (Decl n lb) ls.
Proof.
  intros ls n lb H. unfold decls in H. apply in_flat_map in H. destruct H as [l [Hl Hin]].
  destruct l; simpl in Hin; try contradiction. destruct Hin as [E|[]]. inversion E; subst. auto.
Qed.

Lemma decl_in_nodes : forall o sty forest p, wf_kind o forest = true -> In p (all_subtrees forest) ->
  In (Decl (node_name p) (disp o (snd p))) (nodes o sty forest).
Proof.
  intros o sty forest p W H. apply in_decls. rewrite decls_nodes by auto.
  apply in_map_iff. exists p. auto.
Qed.

Lemma roi_decl : forall m st cur p, wf_kind (m_opts m) (m_states m) = true ->
  In p (all_subtrees (m_states m)) ->
  In (node_name p) (roi_names (roi_active cur) st (roi_trans (roi_active cur) st (elements m))) ->
  In (Decl (node_name p) (disp (m_opts m) (snd p))) (render_roi m st cur).
Proof.
  intros m st cur [pfx s] W Hp Hn. unfold render_roi. apply in_or_app. left.
  apply mem_In in Hn. unfold node_name in Hn. cbn [fst snd] in Hn.
  destruct (filter_keeps _ _ _ _ Hp Hn) as [s' [H1 H2]].
  destruct (strip_disp (m_opts m) s s' H2) as [D I].
  pose proof (decl_in_nodes (m_opts m) (nstyle (st_nodes st)) _ (pfx, s') (wf_kind_filter _ _ _ W) H1) as G.
  unfold node_name in *. cbn [fst snd] in *. rewrite D, I in G. exact G.
Qed.

Lemma roi_active_self : forall cur n, In n cur -> In n (roi_active cur).
Proof. intros cur n H. unfold roi_active. apply in_flat_map. exists n. split; auto. left. reflexivity. Qed.

Lemma roi_thm : forall m st cur, wf_kind (m_opts m) (m_states m) = true ->
  (forall p, In p (all_subtrees (m_states m)) -> In (node_name p) cur ->
     In (Decl (node_name p) (disp (m_opts m) (snd p))) (render_roi m st cur))
  /\ (forall t, In t (elements m) -> In (t_src t) (roi_active cur) -> tlabel (m_opts m) t <> [] ->
      let ts := roi_trans (roi_active cur) st (elements m) in
      In (Edge (t_src t) (dst_of t) (labels_for (m_opts m) ts (t_src t) (dst_of t))) (render_roi m st cur)
      /\ In (tlabel (m_opts m) t) (labels_for (m_opts m) ts (t_src t) (dst_of t))
      /\ (forall p, In p (all_subtrees (m_states m)) -> node_name p = dst_of t ->
            In (Decl (node_name p) (disp (m_opts m) (snd p))) (render_roi m st cur))).
Proof.
  intros m st cur W. split.
  - intros p Hp Hc. apply roi_decl; auto. unfold roi_names. apply in_or_app. left. apply roi_active_self. auto.
  - intros t Ht Ha Hl ts.
    assert (Hts : In t ts).
    { unfold ts, roi_trans. apply filter_In. split; auto. unfold roi_keep. apply mem_In in Ha. rewrite Ha. reflexivity. }
    destruct (edges_complete (m_opts m) ts t Hts Hl) as [E1 E2]. repeat split; auto.
    + unfold render_roi. apply in_or_app. right. apply in_or_app. left. exact E1.
    + intros p Hp En. apply roi_decl; auto. unfold roi_names. apply in_or_app. right. apply in_or_app. left.
      apply in_flat_map. exists t. split; auto. rewrite En. right. left. reflexivity.
Qed.

(* ------------------------------------------------------------------ regeneration *)
Definition is_ev (o : op) : bool := match o with Ev _ => true | _ => false end.

Lemma refresh_view : forall d o, is_ev o = false ->
  view (step d o) = render_full (apply_op (d_m d) o) (fresh_styles (d_cur d))
  /\ view_roi (step d o) = render_roi (apply_op (d_m d) o) (fresh_styles (d_cur d)) (d_cur d)
  /\ d_cur (step d o) = d_cur d /\ d_m (step d o) = apply_op (d_m d) o.
Proof. intros d o H. destruct o; try discriminate; repeat split; reflexivity. Qed.

Lemma view_edges_only : forall m st s d ls, wf_kind (m_opts m) (m_states m) = true ->
  In (Edge s d ls) (render_full m st) ->
  ls = labels_for (m_opts m) (elements m) s d /\ ls <> []
  /\ (forall l, In l ls -> exists t, In t (elements m) /\ t_src t = s /\ dst_of t = d /\ tlabel (m_opts m) t = l).
Proof.
  intros m st s d ls W H. apply view_edge in H; auto. apply edges_sound in H. destruct H as [H1 H2].
  repeat split; auto. intros l Hl. subst ls. apply labels_for_In in Hl. exact Hl.
Qed.

Lemma view_edges_all : forall m st t, In t (elements m) -> tlabel (m_opts m) t <> [] ->
  In (Edge (t_src t) (dst_of t) (labels_for (m_opts m) (elements m) (t_src t) (dst_of t))) (render_full m st)
  /\ In (tlabel (m_opts m) t) (labels_for (m_opts m) (elements m) (t_src t) (dst_of t)).
Proof.
  intros m st t Ht Hl. destruct (edges_complete _ _ _ Ht Hl) as [E1 E2]. split; auto.
  unfold render_full. apply in_or_app. right. apply in_or_app. left. exact E1.
Qed.

Lemma add_state_appears : forall d s,
  wf_kind (m_opts (d_m d)) (m_states (d_m d) ++ [s]) = true ->
  In (Decl [s_id s] (disp (m_opts (d_m d)) s)) (view (step d (AddState s))).
Proof.
  intros d s W. simpl. unfold view. cbn [d_m d_sty]. unfold render_full. apply in_or_app. left.
  cbn [apply_op with_states m_states m_opts].
  apply (decl_in_nodes (m_opts (d_m d)) _ (m_states (d_m d) ++ [s]) ([], s) W).
  unfold all_subtrees. rewrite flat_map_app. apply in_or_app. right. simpl. rewrite app_nil_r.
  destruct s. simpl. left. reflexivity.
Qed.

Lemma add_trans_appears : forall d t, wf_trans t = true ->
  let m' := apply_op (d_m d) (AddTrans t) in
  In (Edge (t_src t) (dst_of t) (labels_for (m_opts m') (elements m') (t_src t) (dst_of t))) (view (step d (AddTrans t)))
  /\ In (tlabel (m_opts m') t) (labels_for (m_opts m') (elements m') (t_src t) (dst_of t)).
Proof.
  intros d t W m'. apply view_edges_all.
  - unfold elements, shown, m'. simpl. apply in_or_app. left. apply in_or_app. right. apply in_or_app. right. left. reflexivity.
  - apply tlabel_nonempty. auto.
Qed.

Lemma rem_trans_disappears : forall d e s dd,
  let m' := d_m (step d (RemTrans e s dd)) in
  (forall t, In t (m_trans m') <-> In t (m_trans (d_m d)) /\ removed e s dd t = false)
  /\ (wf_kind (m_opts m') (m_states m') = true ->
      forall a b ls, In (Edge a b ls) (view (step d (RemTrans e s dd))) ->
      forall l, In l ls -> exists t, In t (elements m') /\ t_src t = a /\ dst_of t = b /\ tlabel (m_opts m') t = l).
Proof.
  intros d e s dd m'. split.
  - intro t. unfold m'. simpl. rewrite filter_In. rewrite negb_true_iff. reflexivity.
  - intros W a b ls H l Hl. unfold view in H.
    destruct (view_edges_only _ _ _ _ _ W H) as [_ [_ G]]. apply G. auto.
Qed.

(* ------------------------------------------------------------------ projections of the whole view *)
Lemma decls_view : forall m st, wf_kind (m_opts m) (m_states m) = true ->
  decls (render_full m st) = map (fun p => (node_name p, disp (m_opts m) (snd p))) (all_subtrees (m_states m)).
Proof.
  intros m st W. unfold render_full, decls. rewrite !flat_map_app. rewrite proj_edges_nil by reflexivity.
  simpl. rewrite app_nil_r. apply (decls_nodes _ _ _ W).
Qed.

Lemma states_once : forall m st, wf_kind (m_opts m) (m_states m) = true ->
  map fst (decls (render_full m st)) = all_names (m_states m)
  /\ (wf_forest (m_states m) = true -> NoDup (map fst (decls (render_full m st)))).
Proof.
  intros m st W. rewrite decls_view by auto. rewrite map_map. cbn [fst]. split; [reflexivity|].
  intro F. apply all_names_nodup. auto.
Qed.

Lemma marks_view : forall m st, wf_kind (m_opts m) (m_states m) = true ->
  finals (render_full m st) = flat_map (fun p => if s_final (snd p) then [node_name p] else []) (all_subtrees (m_states m))
  /\ inits (render_full m st) = flat_map init_mark (all_subtrees (m_states m)) ++ [m_initial m].
Proof.
  intros m st W. unfold render_full, finals, inits. rewrite !flat_map_app. rewrite !proj_edges_nil by reflexivity.
  simpl. rewrite app_nil_r. split.
  - apply (finals_nodes _ _ _ W).
  - f_equal. apply (inits_nodes _ _ _ W).
Qed.

Lemma tlabel_shape : forall o t,
  tlabel o t =
  (match t_label t with Some l => l | None => t_trig t end)
  ++ (match t_dst t with None => s_internal | Some _ => [] end)
  ++ (if o_conds o && negb (match t_conds t, t_unless t with [], [] => true | _, _ => false end)
      then s_open ++ join s_amp (map fst (t_conds t) ++ map (fun u => s_bang ++ fst u) (t_unless t)) ++ s_close
      else []).
Proof.
  intros o t. unfold tlabel. destruct (t_dst t); destruct (o_conds o && _);
    rewrite ?app_nil_r; rewrite <- ?app_assoc; reflexivity.
Qed.

Lemma parallel_regions : forall m st pfx s a k b,
  o_nested (m_opts m) = true -> In (pfx, s) (all_subtrees (m_states m)) ->
  s_comp s = true -> s_ini s = IniPar -> s_kids s = a ++ k :: b -> a <> [] ->
  exists l1 l2, render_full m st =
    l1 ++ Sep :: rnode (m_opts m) (nstyle (st_nodes st)) (pfx ++ [s_id s]) k ++ l2.
Proof.
  intros m st pfx s a k b N Hin C I K Ha.
  destruct (parallel_separated (m_opts m) (nstyle (st_nodes st)) _ _ _ _ _ _ N Hin C I K Ha) as [l1 [l2 E]].
  unfold render_full. rewrite E.
  exists l1, (l2 ++ edges (m_opts m) (elements m) ++ [Init (m_initial m)]).
  rewrite <- app_assoc. simpl. rewrite <- app_assoc. reflexivity.
Qed.

Lemma add_states_appear : forall d l s,
  wf_kind (m_opts (d_m d)) (m_states (d_m d) ++ l) = true -> In s l ->
  In (Decl [s_id s] (disp (m_opts (d_m d)) s)) (view (step d (AddStates l))).
Proof.
  intros d l s W Hs. simpl. unfold view. cbn [d_m d_sty]. unfold render_full. apply in_or_app. left.
  cbn [apply_op with_states m_states m_opts].
  apply (decl_in_nodes (m_opts (d_m d)) _ (m_states (d_m d) ++ l) ([], s) W).
  unfold all_subtrees. rewrite flat_map_app. apply in_or_app. right.
  apply in_flat_map. exists s. split; auto. destruct s. simpl. left. reflexivity.
Qed.

(* ------------------------------------------------------------------ transitions declared in nested scopes *)
Lemma tlabel_prefix : forall o p t, tlabel o (prefix_trans p t) = tlabel o t.
Proof. intros o p t. unfold tlabel, prefix_trans. simpl. destruct (t_dst t); reflexivity. Qed.

Lemma scoped_edges : forall m st p t, In (p, t) (m_scoped m) -> wf_trans t = true ->
  let s := p ++ t_src t in
  let d := p ++ dst_of t in
  In (Edge s d (labels_for (m_opts m) (elements m) s d)) (render_full m st)
  /\ In (tlabel (m_opts m) t) (labels_for (m_opts m) (elements m) s d).
Proof.
  intros m st p t H W s d.
  assert (E : In (prefix_trans p t) (elements m)).
  { unfold elements, scoped_abs. apply in_or_app. right. apply in_or_app. right.
    apply in_map_iff. exists (p, t). auto. }
  assert (L : tlabel (m_opts m) (prefix_trans p t) <> []).
  { rewrite tlabel_prefix. apply tlabel_nonempty. auto. }
  destruct (view_edges_all m st (prefix_trans p t) E L) as [A B].
  assert (S : t_src (prefix_trans p t) = s) by reflexivity.
  assert (D : dst_of (prefix_trans p t) = d).
  { unfold d, dst_of, prefix_trans. simpl. destruct (t_dst t); reflexivity. }
  rewrite S, D, tlabel_prefix in *. auto.
Qed.
