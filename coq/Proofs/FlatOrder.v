(* FlatOrder.v — the engine equals the documented order (spec_step) under a non-raising environment. *)
From Coq Require Import List Arith Bool Lia.
From M Require Import Base Flat FlatSpec.
From P Require Import FlatP.
Import ListNotations.
Section P2.
  Variable mc : machine.
  Variable ev : env.
  Variable c : ctx.
  Notation id_seen := (fun s : state => s).

  Ltac norm := repeat (rewrite ?Nat.add_0_r, ?app_nil_r, ?app_length, ?(items_length ev c), ?Nat.add_assoc, <- ?app_assoc; cbn [length app]).
  Ltac poseq := repeat (reflexivity || (f_equal; try lia)).
  Ltac nr := (eapply nrf_mono; [eassumption | lia]).
  Ltac rw := repeat (cbv beta iota zeta; rewrite ?(run_cbs_ok ev c) by nr).

  Lemma change_state_ok t d p s : no_raise_from ev p ->
    t_src t = s -> registered mc s = true -> registered mc d = true ->
    change_state mc ev c t d p s =
      (let ex := items ev c SExit None s (s_exit (sdef_of mc s)) p in
       let en := items ev c SEnter None d (s_enter (sdef_of mc d)) (p + length ex) in
       let fi := if s_final (sdef_of mc d)
                 then items ev c SOnFinal None d (m_on_final mc) (p + length ex + length en)
                 else [] in
       (ex ++ en ++ fi, d, inr tt)).
  Proof.
    intros NR Hs Rs Rd. unfold change_state, registered, sdef_of in *. rewrite Hs.
    destruct (get_state mc s) as [sd|]; [|discriminate].
    destruct (get_state mc d) as [dd|]; [|discriminate].
    unfold bind. rw. unfold put. cbn [length app]. rw.
    destruct (s_final dd).
    - rw. norm. reflexivity.
    - unfold ret. norm. reflexivity.
  Qed.

  Lemma execute_ok t p s : no_raise_from ev p ->
    t_src t = s -> registered mc s = true -> dst_registered mc t = true ->
    execute mc ev c t p s =
      (let pr := items ev c SPrepare None s (t_prepare t) p in
       let ci := cond_items ev c s (t_conds t) (p + length pr) in
       if snd ci then
         let b := body mc ev c s t (p + length pr + length (fst ci)) in
         (pr ++ fst ci ++ fst b, snd b, inr true)
       else (pr ++ fst ci, s, inr false)).
  Proof.
    intros NR Hs Rs Rd. unfold execute, bind.
    rw. rewrite (eval_conds_ok ev c) by nr.
    cbv zeta.
    destruct (cond_items ev c s (t_conds t) (p + length (items ev c SPrepare None s (t_prepare t) p))) as [ci ok] eqn:E.
    cbn [fst snd]. destruct ok; [|unfold ret; norm; reflexivity].
    rw. unfold body.
    unfold dst_registered in Rd.
    destruct (t_dst t) as [d|].
    - rewrite (change_state_ok t d _ s) by (try nr; try assumption; unfold registered; destruct (get_state mc d); congruence).
      rw. unfold ret. norm.
      cbn [fst snd]. destruct (s_final (sdef_of mc d)); norm; poseq.
    - unfold ret. rw. norm. cbn [fst snd]. poseq.
  Qed.

  Lemma candidates_src ts s t : In t (candidates ts s) -> t_src t = s.
  Proof. unfold candidates. rewrite filter_In. intros [_ H]. now apply Nat.eqb_eq. Qed.

  Lemma try_transitions_ok cands p s : no_raise_from ev p ->
    (forall t, In t cands -> t_src t = s /\ dst_registered mc t = true) ->
    registered mc s = true ->
    try_transitions mc ev c cands p s =
      (let sc := scan ev c s cands p in
       match snd sc with
       | None => (fst sc, s, inr false)
       | Some t => let b := body mc ev c s t (p + length (fst sc)) in
                   (fst sc ++ fst b, snd b, inr true)
       end).
  Proof.
    intros NR Hc Rs. revert p NR. induction cands as [|t r IH]; intros p NR.
    - reflexivity.
    - cbn [try_transitions scan]. unfold bind.
      destruct (Hc t (or_introl eq_refl)) as [Hs Hd].
      rewrite (execute_ok t p s NR Hs Rs Hd). cbv zeta.
      destruct (cond_items ev c s (t_conds t) (p + length (items ev c SPrepare None s (t_prepare t) p))) as [ci ok] eqn:E.
      cbn [fst snd]. destruct ok.
      + unfold ret. cbn [fst snd]. norm. poseq.
      + rewrite IH by (try nr; intros t' Ht'; apply Hc; now right).
        cbv zeta. norm.
        destruct (scan ev c s r (p + length (t_prepare t) + length ci)) as [rest ch] eqn:E2.
 cbn [fst snd]. destruct ch as [t'|]; norm; poseq.
  Qed.

  Lemma wf_candidates ts s :
    wf_trans mc ts = true ->
    forall t, In t (candidates ts s) -> t_src t = s /\ dst_registered mc t = true.
  Proof.
    intros W t Ht. split; [eapply candidates_src; eauto|].
    unfold wf_trans in W. rewrite forallb_forall in W. apply W.
    unfold candidates in Ht. now apply filter_In in Ht.
  Qed.

  Lemma process_ok ts p cur : no_raise_from ev p ->
    registered mc cur = true -> wf_trans mc ts = true ->
    process mc ev c ts cur p cur =
      (let r := spec_body mc ev c ts cur p in (fst (fst r), snd (fst r), inr (snd r))).
  Proof.
    intros NR Rc W. unfold process, bind. rw.
    rewrite try_transitions_ok; [| nr | apply wf_candidates; assumption | assumption].
    unfold spec_body. cbv zeta.
    destruct (scan ev c cur (candidates ts cur) (p + length (items ev c SPrepareEvent None cur (m_prepare_event mc) p))) as [sc ch] eqn:ES.
    cbn [fst snd]. destruct ch as [t|].
    - destruct (body mc ev c cur t _) as [b s'] eqn:EB. cbn [fst snd]. norm.
      destruct (body mc ev c cur t (p + length (m_prepare_event mc) + length sc)) as [b2 s2] eqn:EB2.
      cbn [fst snd]. poseq.
    - cbn [fst snd]. norm. poseq.
  Qed.

  Theorem trigger_event_valid ts p cur : no_raise_from ev p ->
    registered mc cur = true -> wf_trans mc ts = true -> candidates ts cur <> [] ->
    trigger_event mc ev c ts p cur =
      (let r := spec_step mc ev c ts cur p in (fst (fst r), snd (fst r), inr (snd r))).
  Proof.
    intros NR Rc W Hne. unfold trigger_event, bind, get. cbn [length app]. rewrite Nat.add_0_r.
    pose proof Rc as Rc'. unfold registered in Rc'. destruct (get_state mc cur) as [sd|] eqn:G; [|discriminate].
    unfold try_except_finally, checked_process.
    destruct (candidates ts cur) as [|t0 r0] eqn:EC; [congruence|]. clear Hne EC t0 r0.
    rewrite (process_ok ts p cur NR Rc W). cbv zeta. unfold spec_step.
    destruct (spec_body mc ev c ts cur p) as [[b st'] res]. cbn [fst snd].
    rw. reflexivity.
  Qed.

  Theorem trigger_event_invalid ts p cur : no_raise_from ev p ->
    registered mc cur = true -> candidates ts cur = [] ->
    trigger_event mc ev c ts p cur =
      (let r := spec_invalid mc ev c cur p in (fst (fst r), snd (fst r), of_outcome (snd r))).
  Proof.
    intros NR Rc HE. unfold trigger_event, bind, get. cbn [length app]. rewrite Nat.add_0_r.
    unfold registered in Rc. unfold spec_invalid, sdef_of.
    destruct (get_state mc cur) as [sd|] eqn:G; [|discriminate].
    unfold try_except_finally, checked_process. rewrite HE.
    destruct (ignores mc sd).
    - unfold ret. rw. cbn [fst snd of_outcome]. norm. reflexivity.
    - unfold raise. destruct (m_on_exception mc) as [|h hs] eqn:EH.
      + rw. cbn [fst snd of_outcome]. norm. reflexivity.
      + unfold bind. rw. unfold ret. rw.
        cbn [fst snd of_outcome]. norm. poseq.
  Qed.

  (* every item of an event carries the trigger's payload, unchanged *)
  Lemma items_payload sl err st cbs p :
    Forall (fun it => it_arg it = ctx_arg c /\ it_model it = c_model c) (items ev c sl err st cbs p).
  Proof. revert p; induction cbs as [|cb r IH]; intros p; cbn [items]; constructor; auto. Qed.
End P2.
Section Payload.
  Variable mc : machine.
  Variable ev : env.
  Variable c : ctx.
  Definition carries (it : item) : Prop := it_arg it = ctx_arg c /\ it_model it = c_model c.

  Lemma items_carry sl err st cbs p : Forall carries (items ev c sl err st cbs p).
  Proof. revert p; induction cbs as [|cb r IH]; intros p; cbn [items]; constructor; [split; reflexivity|apply IH]. Qed.
  Lemma cond_items_carry st conds p : Forall carries (fst (cond_items ev c st conds p)).
  Proof.
    revert p; induction conds as [|[cb tg] r IH]; intros p; cbn [cond_items]; [constructor|].
    destruct (Bool.eqb _ _).
    - specialize (IH (S p)). destruct (cond_items ev c st r (S p)). cbn [fst] in *. constructor; [split; reflexivity|exact IH].
    - cbn [fst]. constructor; [split; reflexivity|constructor].
  Qed.
  Lemma scan_carry st cands p : Forall carries (fst (scan ev c st cands p)).
  Proof.
    revert p; induction cands as [|t r IH]; intros p; cbn [scan]; [constructor|].
    pose proof (cond_items_carry st (t_conds t) (p + length (items ev c SPrepare None st (t_prepare t) p))) as H.
    destruct (cond_items ev c st (t_conds t) _) as [ci ok]. cbn [fst] in H. destruct ok; cbn [fst].
    - apply Forall_app. split; [apply items_carry|exact H].
    - specialize (IH (p + length (items ev c SPrepare None st (t_prepare t) p) + length ci)).
      destruct (scan ev c st r _). cbn [fst] in *. repeat (apply Forall_app; split); auto using items_carry.
  Qed.
  Lemma body_carry src t p : Forall carries (fst (body mc ev c src t p)).
  Proof.
    unfold body. destruct (t_dst t) as [d|]; cbn [fst].
    - destruct (s_final (sdef_of mc d)); repeat (apply Forall_app; split); auto using items_carry.
    - repeat (apply Forall_app; split); auto using items_carry.
  Qed.

  (* every callback of the step is handed the trigger's arguments unchanged (or the one event
     object wrapping them when send_event is set) and runs on behalf of the triggered model *)
  Theorem spec_step_payload ts cur p : Forall carries (fst (fst (spec_step mc ev c ts cur p))).
  Proof.
    unfold spec_step, spec_body.
    pose proof (scan_carry cur (candidates ts cur) (p + length (items ev c SPrepareEvent None cur (m_prepare_event mc) p))) as SC.
    destruct (scan ev c cur (candidates ts cur) _) as [sc ch]. cbn [fst] in SC. destruct ch as [t|].
    - pose proof (body_carry cur t (p + length (items ev c SPrepareEvent None cur (m_prepare_event mc) p) + length sc)) as BC.
      destruct (body mc ev c cur t _) as [b s']. cbn [fst snd] in *.
      repeat (apply Forall_app; split); auto using items_carry.
    - cbn [fst snd]. repeat (apply Forall_app; split); auto using items_carry.
  Qed.
End Payload.
