(* HsmQueueP.v — C02 "or through the queue": on a queued hierarchical machine every model's configuration keeps the
   invariants (unique sibling names, registered states, closure of initial substates) whatever programs of
   triggers / removals / raises the callbacks run. *)
From Coq Require Import List Arith Bool.
From M Require Import Base Flat Hsm HsmSpec Queue HsmIO HsmQueueIO.
From P Require Import HsmForest HsmResolve HsmReach HsmInit.
Import ListNotations.

Section DrainInv.
  Context {W T : Type}.
  Variable step : W -> qentry -> (T * list action * option exn * W).
  Variable pay : qentry -> nat -> nat.
  Variable J : W -> Prop.
  Hypothesis JS : forall w q tr acts r w', J w -> step w q = (tr, acts, r, w') -> J w'.

  Lemma drain_world_inv : forall fuel w s bs r w' s',
    J w -> drain step pay fuel w s = Some (bs, r, w', s') -> J w'.
  Proof.
    induction fuel as [|f IH]; intros w s bs r w' s' HJ H; cbn [drain] in H; [discriminate|].
    destruct (qs_queue s) as [|h tl0]; [injection H as _ _ <- _; exact HJ|].
    destruct (step w h) as [[[tr acts] rr] w1] eqn:ES. pose proof (JS _ _ _ _ _ _ HJ ES) as HJ1.
    destruct rr as [x|].
    - injection H as _ _ <- _. exact HJ1.
    - match type of H with match drain step pay f w1 ?S2 with _ => _ end = _ => destruct (drain step pay f w1 S2) as [[[[bs2 r2] w2] s2]|] eqn:ED end; [|discriminate].
      injection H as _ _ <- _. eapply IH; eauto.
  Qed.
End DrainInv.

Definition good (hm : hmachine) (f : forest) : Prop := uniq f = true /\ reg hm f /\ closed hm f.
Definition all_good (hm : hmachine) (w : hworld) : Prop := Forall (fun mf => good hm (snd mf)) (hw_cfgs w).

Lemma good_nil hm : good hm [].
Proof.
  split; [reflexivity|]. split.
  - intros p PN A. unfold active in A. destruct p; [congruence|]. cbn in A. discriminate.
  - intros p d PN S. destruct p; [congruence|]. cbn in S. discriminate.
Qed.
Lemma good_cfg_of hm w m : all_good hm w -> good hm (cfg_of w m).
Proof.
  unfold all_good, cfg_of. induction (hw_cfgs w) as [|[m' f'] r IH]; intros H; cbn [lookup]; [apply good_nil|].
  inversion H as [|? ? H1 H2]; subst. destruct (Nat.eqb m m'); [exact H1|]. apply IH. exact H2.
Qed.
Lemma good_set_cfg hm l m f : Forall (fun mf => good hm (snd mf)) l -> good hm f ->
  Forall (fun mf => good hm (snd mf)) (set_cfg l m f).
Proof.
  intros H G. induction l as [|[m' f'] r IH]; cbn [set_cfg].
  - constructor; [exact G|constructor].
  - inversion H as [|? ? H1 H2]; subst. destruct (Nat.eqb m m'); constructor; auto.
Qed.

Theorem hq_invariants hm ev fuel w s m e a bs r w' s' :
  wf_defs hm = true -> depth_ok hm -> all_good hm w ->
  top_trigger (hqstep hm ev) hnested_payload fuel w s m e a = Some (bs, r, w', s') ->
  all_good hm w'.
Proof.
  intros W DK G H. unfold top_trigger in H.
  refine (drain_world_inv (hqstep hm ev) hnested_payload (all_good hm) _ _ _ _ _ _ _ _ G H).
  intros w0 q tr acts rr w1 G0 ES. unfold hqstep in ES.
  destruct (Hsm.trigger_event hm ev (mkCtx (q_model q) (q_payload q) (hm_send_event hm)) (q_event q) (hw_pos w0) (cfg_of w0 (q_model q)))
    as [[tr0 f1] r0] eqn:ET. injection ES as _ _ _ <-. unfold all_good. cbn [hw_cfgs].
  apply good_set_cfg; [exact G0|].
  pose proof (trigger_event_reach hm ev _ _ _ _ _ _ _ ET) as RC.
  destruct (good_cfg_of hm w0 (q_model q) G0) as (U & RG & CL).
  split; [eapply reach_uniq; eauto|]. split; [eapply reach_reg; eauto|eapply reach_closed; eauto].
Qed.
