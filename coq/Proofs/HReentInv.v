(* HReentInv.v — C02 on unqueued hierarchical machines whose callbacks trigger events: every configuration the
   model ever holds satisfies every invariant that transition resolutions preserve - although a resolution
   computed before the exit callbacks is written after them, whatever nested events those callbacks processed. *)
From Coq Require Import List Arith Bool.
From M Require Import Base Flat Hsm HsmSpec Reent HReent.
From P Require Import HsmForest HsmResolve HsmReach HsmInit.
Import ListNotations.

Section Pres.
  Variable hm : hmachine.
  Variable I : forest -> Prop.
  Hypothesis IR : forall f sc dst dd r,
    I f -> find_def (scope_children hm sc) dst = Some dd -> resolve f sc dst dd = Some r -> I (r_new r).

  Definition pres {A} (m : HM A) : Prop := forall p s tr s' r, I s -> m p s = (tr, s', r) -> I s'.

  Lemma p_ret {A} (a : A) : pres (ret a).
  Proof. intros p s tr s' r H E. unfold ret in E. injection E as _ <- _. exact H. Qed.
  Lemma p_raise {A} (x : exn) : pres (@raise forest forest A x).
  Proof. intros p s tr s' r H E. unfold raise in E. injection E as _ <- _. exact H. Qed.
  Lemma p_get : pres (@get forest forest).
  Proof. intros p s tr s' r H E. unfold get in E. injection E as _ <- _. exact H. Qed.
  Lemma p_bind {A B} (m : HM A) (k : A -> HM B) : pres m -> (forall a, pres (k a)) -> pres (bind m k).
  Proof.
    intros Hm Hk p s tr s' r H E. unfold bind in E. destruct (m p s) as [[t1 s1] r1] eqn:E1.
    pose proof (Hm _ _ _ _ _ H E1) as H1. destruct r1 as [x|a].
    - injection E as _ <- _. exact H1.
    - destruct (k a (p + length t1) s1) as [[t2 s2] r2] eqn:E2. injection E as _ <- _. eapply Hk; eauto.
  Qed.
  Lemma p_tef {A} (m : HM A) h fin : pres m -> (forall x, pres (h x)) -> (forall x, pres (fin x)) ->
    pres (try_except_finally m h fin).
  Proof.
    intros Hm Hh Hf p s tr s' r H E. unfold try_except_finally in E.
    destruct (m p s) as [[t1 s1] [x|a]] eqn:E1; pose proof (Hm _ _ _ _ _ H E1) as H1.
    - destruct (h x (p + length t1) s1) as [[t2 s2] r2] eqn:E2. pose proof (Hh _ _ _ _ _ _ H1 E2) as H2.
      destruct (fin (Some x) (p + length t1 + length t2) s2) as [[t3 s3] r3] eqn:E3. injection E as _ <- _.
      eapply Hf; eauto.
    - destruct (fin None (p + length t1) s1) as [[t3 s3] r3] eqn:E3. injection E as _ <- _. eapply Hf; eauto.
  Qed.

  Section Level.
    Variable ev : env.
    Variable nested : event -> nat -> HM bool.
    Variable c : ctx.
    Hypothesis PN : forall e a, pres (nested e a).

    Lemma p_hperform pos : forall acts k, pres (hperform nested pos k acts).
    Proof.
      induction acts as [|[m' e'|m'] r IH]; intros k; cbn [hperform]; [apply p_ret| |apply IH].
      apply p_bind; [apply PN|intros _; apply IH].
    Qed.
    Lemma p_hcall sl err cb : pres (hcall ev nested c sl err cb).
    Proof.
      intros p s tr s' r H E. unfold hcall in E.
      destruct (hperform nested p 0 (r_acts (ev cb p)) (S p) s) as [[t f'] [x|u]] eqn:EP;
        pose proof (p_hperform p _ 0 _ _ _ _ _ H EP) as H1.
      - injection E as _ <- _. exact H1.
      - destruct (r_raise (ev cb p)); injection E as _ <- _; exact H1.
    Qed.
    Lemma p_hrun_cbs sl err cbs : pres (hrun_cbs ev nested c sl err cbs).
    Proof. induction cbs as [|cb r IH]; cbn [hrun_cbs]; [apply p_ret|]. apply p_bind; [apply p_hcall|intros _; exact IH]. Qed.
    Lemma p_heval_conds conds : pres (heval_conds ev nested c conds).
    Proof.
      induction conds as [|[cb tg] r IH]; cbn [heval_conds]; [apply p_ret|].
      apply p_bind; [apply p_hcall|intros v]. destruct (Bool.eqb v tg); [exact IH|apply p_ret].
    Qed.
    Lemma p_hrun_exits ps : pres (hrun_exits hm ev nested c ps).
    Proof.
      induction ps as [|q r IH]; cbn [hrun_exits]; [apply p_ret|]. destruct (defs_at hm q); [|apply p_raise].
      apply p_bind; [apply p_hrun_cbs|intros _; exact IH].
    Qed.
    Lemma p_hrun_enters ps : pres (hrun_enters hm ev nested c ps).
    Proof.
      induction ps as [|q r IH]; cbn [hrun_enters]; [apply p_ret|]. destruct (defs_at hm q); [|apply p_raise].
      apply p_bind; [apply p_hrun_cbs|intros _; exact IH].
    Qed.
    Lemma p_hrun_onfinal l : pres (hrun_onfinal ev nested c l).
    Proof. induction l as [|cbs r IH]; cbn [hrun_onfinal]; [apply p_ret|]. apply p_bind; [apply p_hrun_cbs|intros _; exact IH]. Qed.

    (* the resolution is computed from the configuration seen at the start and written after the exit callbacks *)
    Lemma p_hchange_state sc dst : pres (hchange_state hm ev nested c sc dst).
    Proof.
      unfold hchange_state. destruct (find_def (scope_children hm sc) dst) as [dd|] eqn:FD; [|apply p_raise].
      intros p s tr s' r H E. unfold bind at 1 in E. unfold get at 1 in E. cbn [length] in E.
      destruct (resolve s sc dst dd) as [res|] eqn:RS.
      - pose proof (IR _ _ _ _ _ H FD RS) as HN.
        destruct ((hrun_exits hm ev nested c (r_exits res);;; put (r_new res);;; hrun_enters hm ev nested c (r_enters res);;;
                   hrun_onfinal ev nested c (final_check_root hm (r_new res) (r_enters res))) (p + 0) s) as [[t2 s2] r2] eqn:E2.
        injection E as _ <- _. unfold bind at 1 in E2.
        destruct (hrun_exits hm ev nested c (r_exits res) (p + 0) s) as [[t3 s3] [x|u]] eqn:E3.
        + injection E2 as _ <- _. exact (p_hrun_exits _ _ _ _ _ _ H E3).
        + unfold bind at 1 in E2. unfold put at 1 in E2. cbn [length] in E2.
          destruct ((hrun_enters hm ev nested c (r_enters res);;;
                     hrun_onfinal ev nested c (final_check_root hm (r_new res) (r_enters res))) (p + 0 + length t3 + 0) (r_new res))
            as [[t4 s4] r4] eqn:E4.
          injection E2 as _ <- _.
          assert (P : pres (hrun_enters hm ev nested c (r_enters res);;;
                            hrun_onfinal ev nested c (final_check_root hm (r_new res) (r_enters res))))
            by (apply p_bind; [apply p_hrun_enters|intros _; apply p_hrun_onfinal]).
          exact (P _ _ _ _ _ HN E4).
      - unfold raise in E. injection E as _ <- _. exact H.
    Qed.

    Lemma p_hexecute sc t : pres (hexecute hm ev nested c sc t).
    Proof.
      unfold hexecute. apply p_bind; [apply p_hrun_cbs|intros _].
      apply p_bind; [apply p_heval_conds|intros ok]. destruct ok; [|apply p_ret].
      apply p_bind; [apply p_hrun_cbs|intros _]. apply p_bind; [apply p_hrun_cbs|intros _].
      apply p_bind; [destruct (ht_dst t); [apply p_hchange_state|apply p_ret]|intros _].
      apply p_bind; [apply p_hrun_cbs|intros _]. apply p_bind; [apply p_hrun_cbs|intros _]. apply p_ret.
    Qed.
    Lemma p_htry sc ts : pres (htry_transitions hm ev nested c sc ts).
    Proof.
      induction ts as [|t r IH]; cbn [htry_transitions]; [apply p_ret|].
      apply p_bind; [apply p_hexecute|intros ok]. destruct ok; [apply p_ret|exact IH].
    Qed.
    Lemma p_offer_loop_gen attempt hc sc order : (forall q, pres (attempt q)) ->
      forall done result, pres (offer_loop_gen attempt hc sc order done result).
    Proof.
      intros HA. induction order as [|q rest IH]; intros done result; cbn [offer_loop_gen]; [apply p_ret|].
      destruct (orb _ _); [apply IH|]. apply p_bind; [apply p_get|intros f].
      destruct (negb (active f (sc ++ q))); [apply IH|].
      apply p_bind; [apply HA|intros ok]. apply p_bind; [destruct ok; apply IH|intros r; apply p_ret].
    Qed.
    Lemma p_htrigger_nested sc ts key : pres (htrigger_nested hm ev nested c sc ts key).
    Proof.
      unfold htrigger_nested. apply p_bind; [apply p_get|intros f]. destruct (sub f sc); [|apply p_raise].
      apply p_bind; [|intros r; apply p_ret]. apply p_offer_loop_gen. intros q.
      apply p_bind; [apply p_hrun_cbs|intros _; apply p_htry].
    Qed.
    Lemma p_hdispatch_t e : forall t sc, pres (hdispatch_t hm ev nested c e sc t).
    Proof.
      induction t as [key ch IH] using tree_ind2. intros sc. cbn [hdispatch_t].
      apply p_bind; [apply p_get|intros f]. destruct (negb (active f (sc ++ [key]))); [apply p_ret|].
      apply p_bind.
      - match goal with |- pres (match ch with [] => _ | _ :: _ => ?G ch None end) =>
          assert (HG: forall l acc, Forall (fun t => forall sc, pres (hdispatch_t hm ev nested c e sc t)) l -> pres (G l acc)) end.
        { induction l as [|t' l' IHl]; intros acc HF; [apply p_ret|].
          inversion HF as [|? ? H1 H2]; subst. apply p_bind; [apply H1|intros r]. apply IHl. exact H2. }
        destruct ch as [|c0 r0]; [apply p_ret|exact (HG (c0 :: r0) None IH)].
      - intros r1. destruct r1 as [[|]|]; try apply p_ret;
          (destruct (lookup (scope_events hm sc) e); [|apply p_ret]; apply p_bind; [apply p_htrigger_nested|intros r2; apply p_ret]).
    Qed.
    Lemma p_hdispatch_f e sc l : forall acc, pres (hdispatch_f hm ev nested c e sc l acc).
    Proof.
      induction l as [|t r IH]; intros acc; cbn [hdispatch_f]; [apply p_ret|].
      apply p_bind; [apply p_hdispatch_t|intros x]. apply IH.
    Qed.
    Lemma p_check_leaves e ls : pres (check_leaves hm e ls).
    Proof.
      induction ls as [|q r IH]; cbn [check_leaves]; [apply p_ret|]. destruct (defs_at hm q) as [d|]; [|apply p_raise].
      destruct (match sd_ignore d with Some b => b | None => hm_ignore hm end); [exact IH|].
      destruct (has_trigger hm e); apply p_raise.
    Qed.
    Lemma p_htrigger_event e : pres (htrigger_event hm ev nested c e).
    Proof.
      unfold htrigger_event. apply p_tef.
      - apply p_bind; [apply p_get|intros f]. apply p_bind; [apply p_hdispatch_f|intros r].
        destruct r; [apply p_ret|]. apply p_bind; [apply p_get|intros f']. apply p_check_leaves.
      - intros x. destruct (hm_on_exception hm); [apply p_raise|]. apply p_bind; [apply p_hrun_cbs|intros _; apply p_ret].
      - intros o. apply p_hrun_cbs.
    Qed.
  End Level.

  Theorem p_hrtrigger ev m : forall fuel e a, pres (hrtrigger hm ev m fuel e a).
  Proof.
    induction fuel as [|f IH]; intros e a; cbn [hrtrigger]; [apply p_raise|].
    apply p_htrigger_event. exact IH.
  Qed.
End Pres.

(* C02 for unqueued machines whose callbacks trigger events: unique sibling names, registered states and the
   closure of initial substates hold after every event, nested ones included *)
Theorem hreent_invariants hm ev m fuel e a p f tr f' r :
  wf_defs hm = true -> depth_ok hm ->
  uniq f = true -> reg hm f -> closed hm f ->
  hrtrigger hm ev m fuel e a p f = (tr, f', r) ->
  uniq f' = true /\ reg hm f' /\ closed hm f'.
Proof.
  intros W DK U RG CL H.
  refine (p_hrtrigger hm (fun g => uniq g = true /\ reg hm g /\ closed hm g) _ ev m fuel e a p f tr f' r (conj U (conj RG CL)) H).
  intros g sc dst dd res (U1 & R1 & C1) FD RS. split; [|split].
  - eapply resolve_uniq; [exact U1| |exact RS]. apply initial_tree_uniq. eapply find_def_wf; [|exact FD]. now apply scope_children_wf.
  - eapply resolve_reg; eauto.
  - eapply resolve_closed; eauto.
Qed.
