(* HsmPar.v — C02: the hypothesis [narrow_ok] of the balance theorems is an invariant of every reachable
   configuration of machines whose parallel states list ALL their children as initial (the complement of the class
   of KF-C02-2), and with it the balance "entered and not exited since = active with ancestors" holds along whole
   histories of transition resolutions. *)
From Coq Require Import List Arith Bool Lia.
From M Require Import Base Flat Hsm HsmSpec.
From P Require Import HsmForest HsmResolve HsmReach HsmInit.
Import ListNotations.

(* a definition whose initial list names several children names all of them; recursively *)
Fixpoint full_par (d : sdefn) : bool :=
  match d with SDef _ _ _ _ _ _ ini _ ch =>
    andb (orb (Nat.leb (length ini) 1) (forallb (fun c0 => existsb (Nat.eqb (sd_name c0)) ini) ch))
         (forallb full_par ch)
  end.
Definition full_par_defs (hm : hmachine) : bool := forallb full_par (hm_states hm).

Lemma full_par_unfold d :
  full_par d = andb (orb (Nat.leb (length (sd_initial d)) 1)
                         (forallb (fun c0 => existsb (Nat.eqb (sd_name c0)) (sd_initial d)) (sd_children d)))
                    (forallb full_par (sd_children d)).
Proof. destruct d. reflexivity. Qed.

Lemma find_def_full_par : forall p ds d, forallb full_par ds = true -> find_def ds p = Some d -> full_par d = true.
Proof.
  induction p as [|n r IH]; intros ds d W H; cbn in H; [discriminate|].
  destruct r as [|m r'].
  - apply find_child_In in H as [H _]. rewrite forallb_forall in W. now apply W.
  - destruct (find_child ds n) as [c0|] eqn:FC; [|discriminate]. apply find_child_In in FC as [FC _].
    rewrite forallb_forall in W. specialize (W _ FC). rewrite full_par_unfold in W. apply andb_true_iff in W as [_ W].
    eapply IH; eauto.
Qed.

Lemma length_flat_le {A} (g : nat -> list A) (l : list nat) :
  (forall n, length (g n) <= 1) -> length (flat_map g l) <= length l.
Proof.
  intros H. induction l as [|a r IH]; cbn [flat_map length]; [lia|]. rewrite app_length. specialize (H a). lia.
Qed.

Lemma initial_tree_length fuel d : length (initial_tree fuel d) <= length (sd_initial d).
Proof.
  destruct fuel as [|f]; cbn [initial_tree]; [cbn; lia|]. apply length_flat_le.
  intros n. destruct (find_child (sd_children d) n); cbn; lia.
Qed.

Lemma sub_nil_inv q g : sub [] q = Some g -> q = [] /\ g = [].
Proof. destruct q; cbn; [intros H; injection H as <-; auto|discriminate]. Qed.

(* inside the initial tree of a definition: a node with several children has all its registered children *)
Lemma initial_tree_full : forall fuel d, full_par d = true ->
  forall q g d', sub (initial_tree fuel d) q = Some g -> rel_def d q = Some d' -> 1 < length g ->
  forall n dn, find_child (sd_children d') n = Some dn -> f_get g n <> None.
Proof.
  induction fuel as [|fuel IH]; intros d FP q g d' SU RD L n dn FC.
  - cbn [initial_tree] in SU. apply sub_nil_inv in SU as [_ ->]. cbn in L. lia.
  - destruct q as [|n0 r].
    + assert (EG : initial_tree (S fuel) d = g) by (cbn [sub] in SU; congruence). clear SU. subst g.
      cbn [rel_def] in RD. injection RD as <-.
      pose proof (initial_tree_length (S fuel) d) as LE.
      rewrite full_par_unfold in FP. apply andb_true_iff in FP as [FP _].
      apply orb_true_iff in FP as [FP|FP]; [apply Nat.leb_le in FP; lia|].
      rewrite forallb_forall in FP. apply find_child_In in FC as FI. destruct FI as [FI NM]. specialize (FP _ FI). rewrite NM in FP.
      rewrite f_get_initial.
      assert (EX : existsb (Nat.eqb n) (sd_initial d) = true) by exact FP.
      rewrite EX, FC. discriminate.
    + cbn [sub] in SU. rewrite f_get_initial in SU.
      destruct (existsb (Nat.eqb n0) (sd_initial d)); [|discriminate].
      destruct (find_child (sd_children d) n0) as [c0|] eqn:FC0; [|discriminate].
      assert (FP0 : full_par c0 = true).
      { rewrite full_par_unfold in FP. apply andb_true_iff in FP as [_ FP]. rewrite forallb_forall in FP.
        pose proof (find_child_In _ _ _ FC0) as [FI0 _]. exact (FP _ FI0). }
      refine (IH c0 FP0 r g d' SU _ L n dn FC).
      unfold rel_def in RD. destruct r as [|m r'].
      * cbn [find_def] in RD. rewrite FC0 in RD. exact RD.
      * cbn [find_def] in RD. rewrite FC0 in RD. exact RD.
Qed.

Lemma find_def_snoc hm a n dn :
  find_def (hm_states hm) (a ++ [n]) = Some dn -> find_child (scope_children hm a) n = Some dn.
Proof.
  intros H. destruct a as [|a0 a'].
  - cbn in H. exact H.
  - destruct (find_def_prefix (a0 :: a') (hm_states hm) [n] dn ltac:(discriminate) H) as [da Hda].
    rewrite (find_def_app (a0 :: a') (hm_states hm) [n] da ltac:(discriminate) ltac:(discriminate) Hda) in H.
    unfold scope_children. rewrite Hda. exact H.
Qed.

Lemma sub_update_prefix_eq : forall p f h n0 q' sc,
  sub f (p ++ n0 :: q') = Some sc ->
  exists g0, sub f p = Some g0 /\ f_get g0 n0 <> None /\
             sub (update_at f (p ++ n0 :: q') h) p = Some (update_at g0 (n0 :: q') h).
Proof.
  induction p as [|m p IH]; intros f h n0 q' sc H; cbn [app] in *.
  - exists f. split; [reflexivity|]. split; [|reflexivity]. cbn [sub] in H. destruct (f_get f n0); [discriminate|discriminate].
  - cbn [sub] in H. destruct (f_get f m) as [ch|] eqn:G; [|discriminate].
    destruct (IH ch h n0 q' sc H) as (g0 & S0 & N0 & U0). exists g0. cbn [sub]. rewrite G. split; [exact S0|]. split; [exact N0|].
    cbn [update_at]. rewrite (f_get_map_upd f m m (fun c => update_at c (p ++ n0 :: q') h)), Nat.eqb_refl, G. exact U0.
Qed.

Lemma f_get_update_cons g0 n0 q' h n :
  f_get (update_at g0 (n0 :: q') h) n = if Nat.eqb n n0 then option_map (fun c => update_at c q' h) (f_get g0 n0) else f_get g0 n.
Proof. cbn [update_at]. apply (f_get_map_upd g0 n0 n (fun c => update_at c q' h)). Qed.
Lemma length_update_cons g0 n0 q' h : length (update_at g0 (n0 :: q') h) = length g0.
Proof. cbn [update_at]. apply map_length. Qed.

Section Par.
  Variable hm : hmachine.
  Local Opaque def_depth_bound.

  (* a node (or the root level) with several active children has all its registered children active *)
  Definition pfull (f : forest) : Prop :=
    forall p g, sub f p = Some g -> 1 < length g ->
    forall n dn, find_child (scope_children hm p) n = Some dn -> f_get g n <> None.

  Lemma scope_children_rel sc dst dd q n dn :
    dst <> [] -> find_def (hm_states hm) (sc ++ dst) = Some dd ->
    find_child (scope_children hm ((sc ++ dst) ++ q)) n = Some dn ->
    exists d', rel_def dd q = Some d' /\ find_child (sd_children d') n = Some dn.
  Proof.
    intros ND FDA FC. assert (NE : sc ++ dst <> []) by (destruct sc; [exact ND|discriminate]).
    destruct q as [|q0 q'].
    - rewrite app_nil_r in FC. exists dd. split; [reflexivity|]. unfold scope_children in FC.
      destruct (sc ++ dst) as [|x y]; [congruence|]. rewrite FDA in FC. exact FC.
    - unfold scope_children in FC. destruct ((sc ++ dst) ++ q0 :: q') as [|x y] eqn:EP.
      { apply app_eq_nil in EP as [_ EP]. discriminate. }
      rewrite <- EP in FC. destruct (find_def (hm_states hm) ((sc ++ dst) ++ q0 :: q')) as [d'|] eqn:FD'; [|discriminate FC].
      exists d'. split; [|exact FC]. cbn [rel_def].
      rewrite <- (find_def_app (sc ++ dst) (hm_states hm) (q0 :: q') dd NE ltac:(discriminate) FDA). exact FD'.
  Qed.

  (* narrow_ok follows from the invariant *)
  Lemma nok_of_pfull f sc dst dd cur root rest :
    reg hm f -> pfull f -> find_def (scope_children hm sc) dst = Some dd ->
    sub f sc = Some cur -> split_active f sc dst = (root, rest) -> narrow_ok f sc root rest.
  Proof.
    intros RG PF FD S SA scoped SB L.
    assert (ND : dst <> []) by (intros ->; destruct (scope_children hm sc); discriminate).
    destruct (split_active_spec f sc dst root rest cur ND S SA) as (E & RN & _ & _).
    assert (SCR : sc = [] \/ exists ds, find_def (hm_states hm) sc = Some ds).
    { destruct sc as [|s0 sc']; [now left|right]. apply RG; [discriminate|]. unfold active. now rewrite S. }
    pose proof (scope_children_find hm sc dst dd SCR ND FD) as FDA.
    destruct rest as [|d0 rt]; [congruence|]. cbn [hd].
    assert (EQ : sc ++ dst = ((sc ++ root) ++ [d0]) ++ rt) by (rewrite <- E, <- !app_assoc; reflexivity).
    rewrite EQ in FDA.
    destruct (find_def_prefix ((sc ++ root) ++ [d0]) (hm_states hm) rt dd) as [dn Hdn];
      [intros X; apply app_eq_nil in X as [_ X]; discriminate|exact FDA|].
    apply find_def_snoc in Hdn. exact (PF _ _ SB L d0 dn Hdn).
  Qed.

  Lemma resolve_pfull f sc dst dd r :
    full_par_defs hm = true -> reg hm f -> pfull f ->
    find_def (scope_children hm sc) dst = Some dd -> resolve f sc dst dd = Some r -> pfull (r_new r).
  Proof.
    intros FPD RG PF FD R p g SG L n dn FC.
    assert (ND : dst <> []) by (intros ->; destruct (scope_children hm sc); discriminate).
    unfold resolve in R.
    destruct (split_active f sc dst) as [root rest] eqn:SA.
    destruct (sub f (sc ++ root)) as [scoped|] eqn:SB; [|discriminate].
    assert (exists cur, sub f sc = Some cur) as [cur S].
    { rewrite sub_app in SB. destruct (sub f sc); [eauto|discriminate]. }
    destruct (split_active_spec f sc dst root rest cur ND S SA) as (E & RN & _ & _).
    assert (SCR : sc = [] \/ exists ds, find_def (hm_states hm) sc = Some ds).
    { destruct sc as [|s0 sc']; [now left|right]. apply RG; [discriminate|]. unfold active. now rewrite S. }
    pose proof (scope_children_find hm sc dst dd SCR ND FD) as FDA.
    assert (FPdd : full_par dd = true) by (eapply find_def_full_par; [exact FPD|exact FDA]).
    injection R as <-. cbn [r_new] in SG.
    destruct rest as [|d0 rt]; [congruence|]. cbn [hd tl] in *.
    set (bottom := initial_tree def_depth_bound dd) in *.
    assert (BOT : forall q g0, sub bottom q = Some g0 -> 1 < length g0 ->
                  find_child (scope_children hm ((sc ++ dst) ++ q)) n = Some dn -> f_get g0 n <> None).
    { intros q g0 SQ L0 FC0. destruct (scope_children_rel sc dst dd q n dn ND FDA FC0) as (d' & RD & FC').
      exact (initial_tree_full def_depth_bound dd FPdd q g0 d' SQ RD L0 n dn FC'). }
    assert (PD : (sc ++ root) ++ d0 :: rt = sc ++ dst) by (rewrite <- E, <- app_assoc; reflexivity).
    destruct (prefix_cases (sc ++ root) p) as [[x ->]|[[q [Q EQ]]|[N1 N2]]].
    - rewrite (sub_update_below _ _ _ _ _ SB) in SG.
      destruct x as [|k y].
      + cbn [sub] in SG. injection SG as <-. rewrite app_nil_r in FC.
        destruct (Nat.ltb 1 (length scoped)) eqn:NW.
        * rewrite f_get_f_set. destruct (Nat.eqb n d0); [discriminate|].
          apply Nat.ltb_lt in NW. exact (PF _ _ SB NW n dn FC).
        * cbn [chain_tree length] in L. lia.
      + destruct (Nat.eq_dec k d0) as [->|NK].
        * assert (SUBY : sub (chain_tree rt bottom) y = Some g).
          { destruct (Nat.ltb 1 (length scoped)).
            - cbn [sub] in SG. rewrite f_get_f_set, Nat.eqb_refl in SG. exact SG.
            - cbn [chain_tree sub f_get t_name t_children] in SG. rewrite Nat.eqb_refl in SG. exact SG. }
          destruct (sub_chain_some _ _ _ _ SUBY) as [[z ->]|[q ->]].
          -- rewrite sub_chain_prefix in SUBY. injection SUBY as <-.
             destruct z as [|z0 z']; [|cbn [chain_tree length] in L; lia].
             cbn [chain_tree] in L. rewrite app_nil_r in *. rewrite PD in FC.
             apply (BOT [] bottom eq_refl L). rewrite app_nil_r. exact FC.
          -- rewrite sub_chain_below in SUBY.
             replace ((sc ++ root) ++ d0 :: rt ++ q) with ((sc ++ dst) ++ q) in FC
               by (rewrite <- PD, <- !app_assoc; reflexivity).
             exact (BOT q g SUBY L FC).
        * destruct (Nat.ltb 1 (length scoped)).
          -- cbn [sub] in SG. rewrite f_get_f_set in SG. apply Nat.eqb_neq in NK. rewrite NK in SG.
             refine (PF ((sc ++ root) ++ k :: y) g _ L n dn FC). rewrite sub_app, SB. exact SG.
          -- cbn [chain_tree sub f_get t_name t_children] in SG. apply Nat.eqb_neq in NK. rewrite (Nat.eqb_sym d0 k), NK in SG.
             discriminate.
    - destruct q as [|n0 q']; [congruence|]. rewrite EQ in SB, SG.
      set (h := fun _ : forest => if Nat.ltb 1 (length scoped) then f_set scoped d0 (chain_tree rt bottom)
                                  else chain_tree (d0 :: rt) bottom) in *.
      destruct (sub_update_prefix_eq p f h n0 q' scoped SB) as (g0 & S0 & N0 & U0).
      rewrite U0 in SG. assert (EG : update_at g0 (n0 :: q') h = g) by congruence. clear SG. subst g.
      rewrite length_update_cons in L.
      rewrite f_get_update_cons. destruct (Nat.eqb n n0) eqn:EN.
      + destruct (f_get g0 n0); [discriminate|congruence].
      + exact (PF p g0 S0 L n dn FC).
    - rewrite (sub_update_other _ _ _ _ N1 N2) in SG. exact (PF p g SG L n dn FC).
  Qed.

  Lemma initial_config_pfull ini d :
    full_par_defs hm = true -> find_def (hm_states hm) ini = Some d ->
    pfull (chain_tree ini (initial_tree def_depth_bound d)).
  Proof.
    intros FPD FD p g SG L n dn FC.
    assert (NI : ini <> []) by (intros ->; discriminate FD).
    assert (FPd : full_par d = true) by (eapply find_def_full_par; eauto).
    destruct (sub_chain_some _ _ _ _ SG) as [[z ->]|[q ->]].
    - rewrite sub_chain_prefix in SG. injection SG as <-.
      destruct z as [|z0 z']; [|cbn [chain_tree length] in L; lia].
      cbn [chain_tree] in L. rewrite app_nil_r in *.
      destruct (scope_children_rel [] p d [] n dn NI FD) as (d' & RD & FC'); [cbn [app]; rewrite app_nil_r; exact FC|].
      exact (initial_tree_full def_depth_bound d FPd [] _ d' eq_refl RD L n dn FC').
    - rewrite sub_chain_below in SG.
      destruct (scope_children_rel [] ini d q n dn NI FD FC) as (d' & RD & FC').
      exact (initial_tree_full def_depth_bound d FPd q g d' SG RD L n dn FC').
  Qed.

  Theorem reach_pfull f f' :
    wf_defs hm = true -> full_par_defs hm = true -> reach hm f f' -> reg hm f -> pfull f -> pfull f'.
  Proof.
    intros W FPD R. induction R as [|f sc dst dd r f' FD RS R IH]; intros RG PF; [exact PF|].
    apply IH.
    - eapply resolve_reg; eauto.
    - eapply resolve_pfull; eauto.
  Qed.

  Theorem reach_narrow_ok f f' sc dst dd cur root rest :
    wf_defs hm = true -> full_par_defs hm = true -> reach hm f f' -> reg hm f -> pfull f ->
    find_def (scope_children hm sc) dst = Some dd -> sub f' sc = Some cur -> split_active f' sc dst = (root, rest) ->
    narrow_ok f' sc root rest.
  Proof.
    intros W FPD R RG PF FD S SA. eapply nok_of_pfull; eauto.
    - eapply reach_reg; eauto.
    - eapply reach_pfull; eauto.
  Qed.

  (* ---------- balance along whole histories of resolutions ---------- *)
  (* E = the states whose on_enter fired without a later on_exit; every resolution removes what it exits and adds
     what it enters *)
  Inductive reachE : forest -> (path -> Prop) -> forest -> (path -> Prop) -> Prop :=
  | reachE_refl f E : reachE f E f E
  | reachE_step f E sc dst dd r f' E' :
      find_def (scope_children hm sc) dst = Some dd -> resolve f sc dst dd = Some r ->
      reachE (r_new r) (fun p => (E p /\ ~ In p (r_exits r)) \/ In p (r_enters r)) f' E' ->
      reachE f E f' E'.

  Lemma reach_reachE f f' : reach hm f f' -> forall E, exists E', reachE f E f' E'.
  Proof.
    induction 1 as [f|f sc dst dd r f' FD RS R IH]; intros E; [exists E; constructor|].
    destruct (IH (fun p => (E p /\ ~ In p (r_exits r)) \/ In p (r_enters r))) as [E' H]. exists E'. econstructor; eauto.
  Qed.

  Definition coh (E : path -> Prop) (f : forest) : Prop := forall p, p <> [] -> (E p <-> active f p = true).

  Theorem history_balanced f E f' E' :
    wf_defs hm = true -> full_par_defs hm = true ->
    reachE f E f' E' -> uniq f = true -> reg hm f -> pfull f -> coh E f -> coh E' f'.
  Proof.
    intros W FPD R. induction R as [f E|f E sc dst dd r f' E' FD RS R IH]; intros U RG PF CO; [exact CO|].
    assert (ND : dst <> []) by (intros ->; destruct (scope_children hm sc); discriminate).
    assert (UB : uniq (initial_tree def_depth_bound dd) = true).
    { apply initial_tree_uniq. eapply find_def_wf; [|exact FD]. now apply scope_children_wf. }
    apply IH.
    - exact (resolve_uniq f sc dst dd r U UB RS).
    - exact (resolve_reg hm f sc dst dd r W RG FD RS).
    - exact (resolve_pfull f sc dst dd r FPD RG PF FD RS).
    - intros p PN. destruct (split_active f sc dst) as [root rest] eqn:SA.
      assert (exists cur, sub f sc = Some cur) as [cur S].
      { unfold resolve in RS. rewrite SA in RS. destruct (sub f (sc ++ root)) eqn:SB; [|discriminate].
        rewrite sub_app in SB. destruct (sub f sc); [eauto|discriminate]. }
      pose proof (nok_of_pfull f sc dst dd cur root rest RG PF FD S SA) as NOK.
      rewrite (resolve_balance f sc dst dd r U UB ND RS root rest SA NOK p PN).
      specialize (CO p PN). tauto.
  Qed.
End Par.
