(* HsmOffer.v — C03: the offer loop of NestedEvent.trigger_nested, for every attempt function. *)
From Coq Require Import List Arith Bool Lia.
From M Require Import Base Flat Hsm HsmSpec.
From P Require Import HsmForest MonadP.
Import ListNotations.

Inductive sublist {A} : list A -> list A -> Prop :=
| sub_nil l : sublist [] l
| sub_skip x l1 l2 : sublist l1 l2 -> sublist l1 (x :: l2)
| sub_take x l1 l2 : sublist l1 l2 -> sublist (x :: l1) (x :: l2).

Definition o_path (o : offer) : path := fst (fst o).
Definition o_cfg (o : offer) : forest := snd (fst o).
Definition o_exec (o : offer) : bool := snd o.

Lemma path_eqb_true a b : path_eqb a b = true <-> a = b.
Proof. unfold path_eqb. destruct (list_eq_dec Nat.eq_dec a b); split; congruence. Qed.

Lemma in_nonempty_prefixes : forall p q, In q (nonempty_prefixes p) <-> q <> [] /\ exists r, p = q ++ r.
Proof.
  induction p as [|n p' IH]; intros q; cbn [nonempty_prefixes].
  - split; [intros []|]. intros [Hq [r Hr]]. destruct q; [congruence|discriminate].
  - split.
    + intros [<-|H]; [split; [discriminate|exists p'; reflexivity]|].
      apply in_map_iff in H as (q' & <- & Hq'). apply IH in Hq' as [_ [r ->]]. split; [discriminate|exists r; reflexivity].
    + intros [Hq [r Hr]]. destruct q as [|m q']; [congruence|]. injection Hr as <- ->.
      destruct q' as [|m2 q2]; [now left|right]. apply in_map. apply IH. split; [discriminate|exists r; reflexivity].
Qed.

Section Offers.
  Variable attempt : path -> M (V:=forest) (S:=forest) bool.
  Variable hc : path -> bool.
  Variable sc : path.

  Definition res_of (result : option bool) (log : list offer) : option bool :=
    if existsb o_exec log then Some true
    else match log with [] => result | _ => match result with None => Some false | r => r end end.

  (* the invariant of one run of the loop *)
  Lemma offer_loop_spec : forall order done result p0 s0 tr s' res log,
    offer_loop_gen attempt hc sc order done result p0 s0 = (tr, s', inr (res, log)) ->
    (* O1: only active, declaring, not yet excluded states are offered the event *)
    Forall (fun o => In (o_path o) order /\ hc (o_path o) = true /\
                     active (o_cfg o) (sc ++ o_path o) = true /\ ~ In (o_path o) done) log /\
    (* O2: in the order fixed at the start (deepest first) *)
    sublist (map o_path log) order /\
    (* O3: once a state executed a transition, it and its ancestors are not offered again *)
    (forall l1 o l2, log = l1 ++ o :: l2 -> o_exec o = true ->
        Forall (fun o' => ~ (o_path o' <> [] /\ exists r, o_path o = o_path o' ++ r)) l2) /\
    (* O4: the result *)
    res = res_of result log.
  Proof.
    induction order as [|p rest IH]; intros done result p0 s0 tr s' res log H; cbn [offer_loop_gen] in H.
    - unfold ret in H. injection H as _ _ <- <-. repeat split; try constructor.
      intros l1 o l2 E. destruct l1; discriminate.
    - destruct (orb (existsb (path_eqb p) done) (negb (hc p))) eqn:SK.
      + apply IH in H as (H1 & H2 & H3 & H4). repeat split; auto.
        * eapply Forall_impl; [|exact H1]. intros o (A & B & C & D). repeat split; auto. now right.
        * now constructor.
      + apply orb_false_iff in SK as [SK1 SK2]. apply negb_false_iff in SK2.
        apply bind_inr in H as (t1 & s1 & f & t2 & G & H & ->). apply get_inr in G as (-> & -> & ->).
        cbn [length] in H.
        destruct (negb (active s0 (sc ++ p))) eqn:AC.
        * apply IH in H as (H1 & H2 & H3 & H4). repeat split; auto.
          -- eapply Forall_impl; [|exact H1]. intros o (A & B & C & D). repeat split; auto. now right.
          -- now constructor.
        * apply negb_false_iff in AC.
          apply bind_inr in H as (ta & sa & ok & tb & EA & H & ->).
          apply bind_inr in H as (t4 & s4 & [res4 log4] & t5 & E4 & H & ->).
          apply ret_inr in H as (-> & -> & H). cbn [fst snd] in H. injection H as -> ->.
          assert (NIN: ~ In p done).
          { intros HI. assert (existsb (path_eqb p) done = true); [|congruence].
            apply existsb_exists. exists p. split; [exact HI|now apply path_eqb_true]. }
          destruct ok.
          -- apply IH in E4 as (H1 & H2 & H3 & H4). split; [|split; [|split]].
             ++ constructor; [cbn; repeat split; auto; now left|].
                eapply Forall_impl; [|exact H1]. intros o (A & B & C & D). repeat split; auto; [now right|].
                intros HI. apply D. apply in_app_iff. now right.
             ++ cbn [map o_path fst]. now constructor.
             ++ intros l1 o l2 E X. destruct l1 as [|o1 l1'].
                ** injection E as <- <-. cbn [o_path fst].
                   eapply Forall_impl; [|exact H1]. intros o' (_ & _ & _ & D) [NE [r Hr]]. apply D.
                   apply in_app_iff. left. apply in_nonempty_prefixes. split; [exact NE|exists r; exact Hr].
                ** injection E as _ E. eapply H3; eauto.
             ++ rewrite H4. unfold res_of. cbn [existsb o_exec snd orb]. destruct (existsb o_exec log4); [reflexivity|]. destruct log4; reflexivity.
          -- apply IH in E4 as (H1 & H2 & H3 & H4). split; [|split; [|split]].
             ++ constructor; [cbn; repeat split; auto; now left|].
                eapply Forall_impl; [|exact H1]. intros o (A & B & C & D). repeat split; auto. now right.
             ++ cbn [map o_path fst]. now constructor.
             ++ intros l1 o l2 E X. destruct l1 as [|o1 l1'].
                ** injection E as <- <-. discriminate.
                ** injection E as _ E. eapply H3; eauto.
             ++ rewrite H4. unfold res_of. cbn [existsb o_exec snd orb].
                destruct (existsb o_exec log4); [reflexivity|]. destruct log4, result as [[|]|]; reflexivity.
  Qed.
End Offers.
