(* HBuildP.v — laws of hierarchical construction scripts (Model/HBuild.v). *)
From Coq Require Import List Arith Bool Lia.
From M Require Import Base Flat Hsm Build HBuild.
From P Require Import BuildP.
Import ListNotations.

(* ------------------------------------------------------------------ induction principles *)
Section HformInd.
  Variable P : hform -> Prop.
  Hypothesis Hn : forall p a, P (HName p a).
  Hypothesis Hd : forall n a k ch ts, Forall P ch -> P (HDict n a k ch ts).
  Hypothesis He : forall n a s r, P (HEmbed n a s r).
  Fixpoint hform_ind2 (f : hform) : P f :=
    match f with
    | HName p a => Hn p a
    | HEmbed n a s r => He n a s r
    | HDict n a k ch ts =>
        Hd n a k ch ts ((fix go (l : list hform) : Forall P l :=
                           match l with
                           | [] => Forall_nil P
                           | x :: r => Forall_cons x (hform_ind2 x) (go r)
                           end) ch)
    end.
End HformInd.

Section SdefnInd.
  Variable P : sdefn -> Prop.
  Hypothesis H : forall n en ex onf fin ign ini evs ch, Forall P ch -> P (SDef n en ex onf fin ign ini evs ch).
  Fixpoint sdefn_ind2 (d : sdefn) : P d :=
    match d with
    | SDef n en ex onf fin ign ini evs ch =>
        H n en ex onf fin ign ini evs ch
          ((fix go (l : list sdefn) : Forall P l :=
              match l with
              | [] => Forall_nil P
              | x :: r => Forall_cons x (sdefn_ind2 x) (go r)
              end) ch)
    end.
End SdefnInd.

(* ------------------------------------------------------------------ add_form unfolded *)
Lemma add_form_dict : forall dflt n a k ch ts sc,
  add_form dflt (HDict n a k ch ts) sc =
  (let '(csc, e) := add_forms dflt ch ([], []) in
   let csc' := match e with None => (fst csc, add_hts ts (snd csc)) | Some _ => csc end in
   ((set_child (with_scope (leaf dflt true n a) csc') (fst sc), snd sc), e)).
Proof.
  intros. simpl.
  assert (G : forall l c,
     (fix go (l : list hform) (c : scope) : scope * option berr :=
        match l with
        | [] => (c, None)
        | x :: r => match add_form dflt x c with
                    | (c', None) => go r c'
                    | (c', Some e) => (c', Some e)
                    end
        end) l c = add_forms dflt l c).
  { induction l as [|x r IH]; intros c; simpl; [reflexivity|].
    destruct (add_form dflt x c) as [c' [e|]]; [reflexivity|apply IH]. }
  rewrite G. reflexivity.
Qed.

Lemma add_forms_app : forall dflt l1 l2 sc,
  add_forms dflt (l1 ++ l2) sc =
  match add_forms dflt l1 sc with (sc', None) => add_forms dflt l2 sc' | res => res end.
Proof.
  induction l1 as [|x r IH]; intros; simpl; [reflexivity|].
  destruct (add_form dflt x sc) as [sc' [e|]]; [reflexivity|apply IH].
Qed.

Lemma hexec_app : forall s1 s2 b,
  hexec (s1 ++ s2) b = match hexec s1 b with (b', None) => hexec s2 b' | res => res end.
Proof.
  induction s1 as [|o r IH]; intros; simpl; [reflexivity|].
  destruct (hrun_op o b) as [b' [e|]]; [reflexivity|apply IH].
Qed.

(* ------------------------------------------------------------------ (1) 'children' = 'states' *)
Fixpoint rekey (k : bool) (f : hform) : hform :=
  match f with
  | HDict n a _ ch ts => HDict n a k (map (rekey k) ch) ts
  | _ => f
  end.

Lemma add_forms_ext : forall dflt (g : hform -> hform) l,
  Forall (fun f => forall sc, add_form dflt (g f) sc = add_form dflt f sc) l ->
  forall sc, add_forms dflt (map g l) sc = add_forms dflt l sc.
Proof.
  intros dflt g l F. induction F as [|x r Hx Fr IH]; intros sc; simpl; [reflexivity|].
  rewrite Hx. destruct (add_form dflt x sc) as [sc' [e|]]; [reflexivity|apply IH].
Qed.

Lemma children_states : forall dflt k f sc, add_form dflt (rekey k f) sc = add_form dflt f sc.
Proof.
  intros dflt k f. induction f as [p a|n a k0 ch ts IH|n a s r] using hform_ind2; intros sc; try reflexivity.
  simpl rekey. rewrite !add_form_dict. rewrite (add_forms_ext dflt (rekey k) ch IH). reflexivity.
Qed.

(* ------------------------------------------------------------------ (4) a trigger that never occurred *)
Section Drop.
  Variable trig : event.

  Lemma drop_add_ht : forall e t evs,
    drop_evs trig (add_ht e t evs) =
    if Nat.eqb e trig then drop_evs trig evs else add_ht e t (drop_evs trig evs).
  Proof.
    intros e t evs. induction evs as [|[e0 ts] r IH]; simpl.
    - destruct (Nat.eqb e trig); reflexivity.
    - destruct (Nat.eqb e e0) eqn:E.
      + apply Nat.eqb_eq in E. subst e0. simpl. destruct (Nat.eqb e trig) eqn:E2; simpl; [reflexivity|].
        rewrite Nat.eqb_refl. reflexivity.
      + simpl. destruct (Nat.eqb e0 trig) eqn:E3; simpl.
        * rewrite IH. destruct (Nat.eqb e trig); reflexivity.
        * rewrite IH. destruct (Nat.eqb e trig) eqn:E2; [reflexivity|]. simpl. rewrite E. reflexivity.
  Qed.

  Lemma drop_add_hts : forall l evs,
    drop_evs trig (add_hts l evs) = add_hts (drop_ts trig l) (drop_evs trig evs).
  Proof.
    unfold add_hts. induction l as [|[e t] r IH]; intros evs; simpl; [reflexivity|].
    rewrite IH, drop_add_ht. destruct (Nat.eqb e trig); reflexivity.
  Qed.

  Lemma drop_name : forall d, sd_name (drop_d trig d) = sd_name d.
  Proof. destruct d; reflexivity. Qed.

  Lemma drop_has_child : forall ds n, has_child (map (drop_d trig) ds) n = has_child ds n.
  Proof. induction ds as [|d r IH]; intros n; simpl; [reflexivity|]. rewrite drop_name, IH. reflexivity. Qed.

  Lemma drop_set_child : forall d ds,
    map (drop_d trig) (set_child d ds) = set_child (drop_d trig d) (map (drop_d trig) ds).
  Proof.
    intros d ds. induction ds as [|x r IH]; simpl; [reflexivity|].
    rewrite !drop_name. destruct (Nat.eqb (sd_name x) (sd_name d)); simpl; [reflexivity|]. rewrite IH. reflexivity.
  Qed.

  Lemma drop_with_scope : forall d sc,
    drop_d trig (with_scope d sc) = with_scope (drop_d trig d) (drop_scope trig sc).
  Proof. intros [n en ex onf fin ign ini evs ch] [cs es]. reflexivity. Qed.

  Lemma drop_scope_of : forall d, scope_of (drop_d trig d) = drop_scope trig (scope_of d).
  Proof. destruct d; reflexivity. Qed.

  Lemma drop_leaf : forall dflt k n a, drop_d trig (leaf dflt k n a) = leaf dflt k n a.
  Proof. reflexivity. Qed.

  (* f' is f on the dropped scope *)
  Definition commutes {E} (f f' : scope -> scope * option E) : Prop :=
    forall sc, f' (drop_scope trig sc) = (drop_scope trig (fst (f sc)), snd (f sc)).

  Lemma drop_in_child : forall E n (f f' : scope -> scope * option E), commutes f f' ->
    forall ds, in_child n f' (map (drop_d trig) ds) =
               (map (drop_d trig) (fst (in_child n f ds)), snd (in_child n f ds)).
  Proof.
    intros E n f f' C ds. induction ds as [|d r IH]; simpl; [reflexivity|].
    rewrite drop_name. destruct (Nat.eqb (sd_name d) n).
    - rewrite drop_scope_of, C. destruct (f (scope_of d)) as [sc e]. simpl.
      rewrite drop_with_scope. reflexivity.
    - rewrite IH. destruct (in_child n f r) as [r' e]. reflexivity.
  Qed.

  Lemma drop_add_path : forall dflt a p, commutes (add_path dflt a p) (add_path dflt a p).
  Proof.
    intros dflt a p. induction p as [|n r IH]; intros [ds evs]; [reflexivity|].
    destruct r as [|m r'].
    - simpl. rewrite drop_has_child. destruct (has_child ds n); [reflexivity|].
      simpl. unfold drop_scope. simpl. rewrite map_app. reflexivity.
    - change (add_path dflt a (n :: m :: r') (drop_scope trig (ds, evs))) with
        (let ds1 := if has_child (fst (drop_scope trig (ds, evs))) n then fst (drop_scope trig (ds, evs))
                    else fst (drop_scope trig (ds, evs)) ++ [leaf dflt false n a] in
         let '(ds2, e) := in_child n (add_path dflt a (m :: r')) ds1 in ((ds2, snd (drop_scope trig (ds, evs))), e)).
      change (add_path dflt a (n :: m :: r') (ds, evs)) with
        (let ds1 := if has_child ds n then ds else ds ++ [leaf dflt false n a] in
         let '(ds2, e) := in_child n (add_path dflt a (m :: r')) ds1 in ((ds2, evs), e)).
      cbn [fst snd drop_scope]. rewrite drop_has_child.
      set (ds1 := if has_child ds n then ds else ds ++ [leaf dflt false n a]).
      replace (if has_child ds n then map (drop_d trig) ds else map (drop_d trig) ds ++ [leaf dflt false n a])
        with (map (drop_d trig) ds1)
        by (unfold ds1; destruct (has_child ds n); [reflexivity|rewrite map_app; reflexivity]).
      cbv zeta. rewrite (drop_in_child _ n _ _ IH ds1).
      destruct (in_child n (add_path dflt a (m :: r')) ds1) as [ds2 e]. reflexivity.
  Qed.
End Drop.

Section Drop2.
  Variable trig : event.
  Notation dd := (drop_d trig).

  Lemma drop_filter_names : forall (p : nat -> bool) l,
    filter (fun d => p (sd_name d)) (map dd l) = map dd (filter (fun d => p (sd_name d)) l).
  Proof.
    induction l as [|d r IH]; simpl; [reflexivity|]. rewrite drop_name.
    destruct (p (sd_name d)); simpl; rewrite IH; reflexivity.
  Qed.

  Lemma drop_add_objs : forall l ds,
    add_objs (map dd l) (map dd ds) = (map dd (fst (add_objs l ds)), snd (add_objs l ds)).
  Proof.
    induction l as [|d r IH]; intros ds; simpl; [reflexivity|].
    rewrite drop_name, drop_has_child. destruct (has_child ds (sd_name d)); [reflexivity|].
    replace (map dd ds ++ [dd d]) with (map dd (ds ++ [d])) by (rewrite map_app; reflexivity). apply IH.
  Qed.

  Lemma drop_has_key : forall e (evs : events), Nat.eqb e trig = false ->
    has_key e (drop_evs trig evs) = has_key e evs.
  Proof.
    intros e evs H. induction evs as [|[e0 ts] r IH]; simpl; [reflexivity|].
    destruct (Nat.eqb e0 trig) eqn:E0; simpl.
    - rewrite IH. destruct (Nat.eqb e e0) eqn:E; [|reflexivity].
      apply Nat.eqb_eq in E. subst. congruence.
    - rewrite IH. reflexivity.
  Qed.

  Lemma drop_evs_app : forall a b, drop_evs trig (a ++ b) = drop_evs trig a ++ drop_evs trig b.
  Proof. intros. unfold drop_evs. apply filter_app. Qed.

  Lemma drop_copy_events : forall l acc,
    copy_events (drop_evs trig l) (drop_evs trig acc) = drop_evs trig (copy_events l acc).
  Proof.
    induction l as [|[e ts] r IH]; intros acc; simpl; [reflexivity|].
    destruct (Nat.eqb e trig) eqn:E; simpl.
    - destruct (is_nil ts || has_key e acc); [apply IH|].
      rewrite <- IH, drop_evs_app. simpl. rewrite E. simpl. rewrite app_nil_r. reflexivity.
    - rewrite (drop_has_key e acc E). destruct (is_nil ts || has_key e acc); [apply IH|].
      rewrite <- IH, drop_evs_app. simpl. rewrite E. reflexivity.
  Qed.

  Lemma drop_kept_events : forall remap evs,
    kept_events remap (drop_evs trig evs) = drop_evs trig (kept_events remap evs).
  Proof.
    intros remap evs. unfold kept_events. induction evs as [|[e ts] r IH]; simpl; [reflexivity|].
    destruct (Nat.eqb e trig) eqn:E; simpl.
    - rewrite IH. destruct (is_nil (kept_ts remap ts)); simpl; [reflexivity|]. rewrite E. reflexivity.
    - rewrite IH. destruct (is_nil (kept_ts remap ts)); simpl; [reflexivity|]. rewrite E. reflexivity.
  Qed.

  Lemma drop_ts_app : forall a b, drop_ts trig (a ++ b) = drop_ts trig a ++ drop_ts trig b.
  Proof. intros. unfold drop_ts. apply filter_app. Qed.

  Lemma drop_moved_ts : forall n remap e ts,
    drop_ts trig (moved_ts n remap e ts) = if Nat.eqb e trig then [] else moved_ts n remap e ts.
  Proof.
    intros n remap e ts. unfold moved_ts.
    set (F := fun t : htrans => if src_remapped remap t then []
                else match dst_remapped remap t with
                     | Some tgt => [(e, mkHT (n :: ht_src t) (Some tgt) (ht_prepare t) (ht_conds t) (ht_before t) (ht_after t))]
                     | None => [] end).
    assert (HF : forall t, drop_ts trig (F t) = if Nat.eqb e trig then [] else F t).
    { intros t. unfold F. destruct (src_remapped remap t); [destruct (Nat.eqb e trig); reflexivity|].
      destruct (dst_remapped remap t); [|destruct (Nat.eqb e trig); reflexivity].
      unfold drop_ts. simpl. destruct (Nat.eqb e trig); reflexivity. }
    induction ts as [|t r IH]; [destruct (Nat.eqb e trig); reflexivity|].
    cbn [flat_map]. rewrite drop_ts_app, IH, HF. destruct (Nat.eqb e trig); reflexivity.
  Qed.

  Lemma drop_moved_events : forall n remap evs,
    moved_events n remap (drop_evs trig evs) = drop_ts trig (moved_events n remap evs).
  Proof.
    intros n remap evs. unfold moved_events. induction evs as [|[e ts] r IH]; [reflexivity|].
    cbn [flat_map fst snd]. rewrite drop_ts_app, drop_moved_ts, <- IH.
    simpl drop_evs. destruct (Nat.eqb e trig); reflexivity.
  Qed.

  Lemma drop_add_forms : forall dflt l,
    Forall (fun f => commutes trig (add_form dflt f) (add_form dflt (strip_form trig f))) l ->
    commutes trig (add_forms dflt l) (add_forms dflt (map (strip_form trig) l)).
  Proof.
    intros dflt l F. induction F as [|x r Hx Fr IH]; intros sc; simpl; [reflexivity|].
    rewrite Hx. destruct (add_form dflt x sc) as [sc' [e|]]; simpl; [reflexivity|apply IH].
  Qed.

  Lemma drop_add_form : forall dflt f,
    commutes trig (add_form dflt f) (add_form dflt (strip_form trig f)).
  Proof.
    intros dflt f. induction f as [p a|n a k ch ts IH|n a s remap] using hform_ind2; intros sc.
    - simpl strip_form. apply drop_add_path.
    - simpl strip_form. rewrite !add_form_dict.
      pose proof (drop_add_forms dflt ch IH ([], [])) as C. change (drop_scope trig ([], [])) with (([], []) : scope) in C.
      rewrite C. destruct (add_forms dflt ch ([], [])) as [csc e]. cbn [fst snd].
      destruct sc as [ds evs]. cbn [fst snd drop_scope].
      destruct e.
      + unfold drop_scope at 2. cbn [fst snd]. rewrite drop_set_child, drop_with_scope, drop_leaf. reflexivity.
      + unfold drop_scope. cbn [fst snd]. rewrite drop_set_child, drop_with_scope, drop_leaf.
        unfold drop_scope. cbn [fst snd]. rewrite drop_add_hts. reflexivity.
    - destruct sc as [ds evs]. simpl strip_form. unfold add_form.
      cbn [drop_sub sub_states sub_events sub_initial].
      rewrite (drop_filter_names (fun m => negb (existsb (Nat.eqb m) (remap_keys remap)))).
      pose proof (drop_add_objs (filter (fun d => negb (existsb (Nat.eqb (sd_name d)) (remap_keys remap))) (sub_states s)) []) as O.
      simpl map in O at 2. rewrite O. clear O.
      set (AO := add_objs (filter (fun d => negb (existsb (Nat.eqb (sd_name d)) (remap_keys remap))) (sub_states s)) []).
      destruct AO as [cds e]. cbn [fst snd].
      pose proof (drop_copy_events (sub_events s) []) as CE. change (drop_evs trig []) with (@nil (event * list htrans)) in CE.
      rewrite CE.
      destruct e.
      + unfold drop_scope. cbn [fst snd]. rewrite drop_set_child, drop_with_scope, drop_leaf. reflexivity.
      + destruct remap as [|kv remap'].
        * unfold drop_scope. cbn [fst snd]. rewrite drop_set_child, drop_with_scope, drop_leaf. reflexivity.
        * unfold drop_scope. cbn [fst snd]. rewrite drop_set_child, drop_with_scope, drop_leaf.
          unfold drop_scope. cbn [fst snd]. rewrite drop_kept_events, drop_moved_events, drop_add_hts. reflexivity.
  Qed.

  (* removal of another trigger commutes *)
  Lemma drop_rem_evs : forall m t' evs, Nat.eqb t' trig = false ->
    rem_evs m t' (drop_evs trig evs) = drop_evs trig (rem_evs m t' evs).
  Proof.
    intros m t' evs H. induction evs as [|[e ts] r IH]; simpl; [reflexivity|].
    destruct (Nat.eqb e trig) eqn:E; simpl.
    - destruct (Nat.eqb t' e) eqn:E2.
      + apply Nat.eqb_eq in E2. subst. congruence.
      + simpl. rewrite E. exact IH.
    - destruct (Nat.eqb t' e) eqn:E2.
      + destruct (is_nil (filter (fun t => negb (m t)) ts)); simpl; [reflexivity|]. rewrite E. reflexivity.
      + simpl. rewrite E, IH. reflexivity.
  Qed.

  Lemma drop_rem_d : forall t' d sp dp, Nat.eqb t' trig = false ->
    rem_d t' sp dp (dd d) = dd (rem_d t' sp dp d).
  Proof.
    intros t' d. induction d as [n en ex onf fin ign ini evs ch IH] using sdefn_ind2; intros sp dp H.
    simpl. rewrite (drop_rem_evs _ _ _ H). f_equal. rewrite !map_map.
    induction IH as [|c r Hc Fr IHr]; simpl; [reflexivity|].
    rewrite IHr, drop_name. destruct (rem_skip (sd_name c) sp dp); [reflexivity|].
    rewrite (Hc _ _ H). reflexivity.
  Qed.

  Lemma drop_rem_scope : forall t' sp dp sc, Nat.eqb t' trig = false ->
    rem_scope t' sp dp (drop_scope trig sc) = drop_scope trig (rem_scope t' sp dp sc).
  Proof.
    intros t' sp dp [ds evs] H. unfold rem_scope, drop_scope. cbn [fst snd].
    rewrite (drop_rem_evs _ _ _ H). f_equal. unfold rem_children. rewrite !map_map.
    apply map_ext. intros c. rewrite drop_name. destruct (rem_skip (sd_name c) sp dp); [reflexivity|].
    apply drop_rem_d. exact H.
  Qed.

  Lemma drop_run_op : forall o b, removes trig o = false ->
    hrun_op (strip_op trig o) (drop_b trig b) = (drop_b trig (fst (hrun_op o b)), snd (hrun_op o b)).
  Proof.
    intros o [ign ds evs] H. destruct o as [l|l|t' sp dp]; simpl in H.
    - unfold hrun_op, strip_op, drop_b, hb_scope, hb_with. cbn [hb_ignore hb_states hb_events fst snd].
      pose proof (drop_add_forms ign l) as C.
      assert (F : Forall (fun f => commutes trig (add_form ign f) (add_form ign (strip_form trig f))) l)
        by (apply Forall_forall; intros; apply drop_add_form).
      specialize (C F (ds, evs)).
      change (add_forms ign (map (strip_form trig) l) (drop_scope trig (ds, evs)))
        with (add_forms ign (map (strip_form trig) l) (map dd ds, drop_evs trig evs)) in C.
      destruct (add_forms ign l (ds, evs)) as [sc e] eqn:E. cbn [fst snd] in C.
      unfold drop_scope. cbn [fst snd hb_ignore hb_states hb_events]. rewrite C. reflexivity.
    - unfold hrun_op, strip_op, drop_b, hb_scope, hb_with, drop_scope. cbn [hb_ignore hb_states hb_events fst snd].
      rewrite drop_add_hts. reflexivity.
    - apply Nat.eqb_neq in H. apply Nat.eqb_neq in H.
      pose proof (drop_rem_scope t' sp dp (ds, evs) H) as R.
      unfold hrun_op, strip_op, drop_b, hb_scope, hb_with. cbn [hb_ignore hb_states hb_events fst snd].
      change (fst (drop_scope trig (ds, evs)), snd (drop_scope trig (ds, evs))) with (drop_scope trig (ds, evs)).
      change (map dd ds, drop_evs trig evs) with (drop_scope trig (ds, evs)).
      rewrite R. destruct (rem_scope t' sp dp (ds, evs)) as [ds' evs']. reflexivity.
  Qed.

  (* THE LAW: for every script that does not itself remove the trigger, and every machine:
     stripping every mention of the trigger from the script (add_transition(s) calls, the
     'transitions' of nested dicts at any depth, the machines embedded as children) and
     from the machine it starts from yields the machine of the full script with the trigger
     dropped from every scope; it raises iff the full script does. *)
  Lemma drop_exec : forall s b, forallb (fun o => negb (removes trig o)) s = true ->
    hexec (map (strip_op trig) s) (drop_b trig b) = (drop_b trig (fst (hexec s b)), snd (hexec s b)).
  Proof.
    induction s as [|o r IH]; intros b H; simpl; [reflexivity|].
    simpl in H. apply andb_prop in H. destruct H as [Ho Hr]. apply negb_true_iff in Ho.
    rewrite (drop_run_op o b Ho). destruct (hrun_op o b) as [b' [e|]]; simpl; [reflexivity|].
    apply IH. exact Hr.
  Qed.
End Drop2.

(* ------------------------------------------------------------------ event names stay unique *)
Lemma has_key_add_ht : forall k e t evs, has_key k (add_ht e t evs) = Nat.eqb k e || has_key k evs.
Proof.
  intros k e t evs. induction evs as [|[e0 ts] r IH]; simpl; [reflexivity|].
  destruct (Nat.eqb e e0) eqn:E; simpl.
  - apply Nat.eqb_eq in E. subst. destruct (Nat.eqb k e0); reflexivity.
  - rewrite IH. destruct (Nat.eqb k e0), (Nat.eqb k e); reflexivity.
Qed.

Lemma nodup_add_ht : forall e t evs, nodup_keys evs = true -> nodup_keys (add_ht e t evs) = true.
Proof.
  intros e t evs. induction evs as [|[e0 ts] r IH]; intros H; simpl in *; [reflexivity|].
  apply andb_prop in H. destruct H as [H1 H2].
  destruct (Nat.eqb e e0) eqn:E; simpl.
  - rewrite H1, H2. reflexivity.
  - rewrite has_key_add_ht, (IH H2). rewrite Nat.eqb_sym, E. simpl. rewrite H1. reflexivity.
Qed.

Lemma nodup_add_hts : forall l evs, nodup_keys evs = true -> nodup_keys (add_hts l evs) = true.
Proof.
  unfold add_hts. induction l as [|[e t] r IH]; intros evs H; simpl; [exact H|].
  apply IH. apply nodup_add_ht. exact H.
Qed.

Lemma has_key_rem_evs : forall k m trig evs, has_key k (rem_evs m trig evs) = true -> has_key k evs = true.
Proof.
  intros k m trig evs. induction evs as [|[e ts] r IH]; simpl; intros H; [discriminate|].
  destruct (Nat.eqb trig e).
  - destruct (is_nil (filter (fun t => negb (m t)) ts)); simpl in H.
    + rewrite H. apply orb_true_r.
    + exact H.
  - simpl in H. apply orb_prop in H. destruct H as [H|H]; [rewrite H; reflexivity|].
    rewrite (IH H). apply orb_true_r.
Qed.

Lemma nodup_rem_evs : forall m trig evs, nodup_keys evs = true -> nodup_keys (rem_evs m trig evs) = true.
Proof.
  intros m trig evs. induction evs as [|[e ts] r IH]; intros H; simpl in *; [reflexivity|].
  apply andb_prop in H. destruct H as [H1 H2].
  destruct (Nat.eqb trig e).
  - destruct (is_nil (filter (fun t => negb (m t)) ts)); simpl; [exact H2|]. rewrite H1, H2. reflexivity.
  - simpl. rewrite (IH H2), andb_true_r. apply negb_true_iff. apply negb_true_iff in H1.
    destruct (has_key e (rem_evs m trig r)) eqn:K; [|reflexivity].
    apply has_key_rem_evs in K. congruence.
Qed.

Lemma nodup_app_one : forall evs e (ts : list htrans), nodup_keys evs = true -> has_key e evs = false ->
  nodup_keys (evs ++ [(e, ts)]) = true.
Proof.
  induction evs as [|[e0 ts0] r IH]; intros e ts H K; simpl in *; [reflexivity|].
  apply andb_prop in H. destruct H as [H1 H2]. apply orb_false_elim in K. destruct K as [K1 K2].
  rewrite (IH e ts H2 K2), andb_true_r, has_key_app. simpl.
  apply negb_true_iff in H1. rewrite H1. rewrite Nat.eqb_sym, K1. reflexivity.
Qed.

Lemma nodup_copy_events : forall l acc, nodup_keys acc = true -> nodup_keys (copy_events l acc) = true.
Proof.
  induction l as [|[e ts] r IH]; intros acc H; simpl; [exact H|].
  destruct (is_nil ts); simpl; [apply IH; exact H|].
  destruct (has_key e acc) eqn:K; [apply IH; exact H|].
  apply IH. apply nodup_app_one; assumption.
Qed.

Lemma has_key_kept : forall k remap evs, has_key k (kept_events remap evs) = true -> has_key k evs = true.
Proof.
  intros k remap evs. unfold kept_events. induction evs as [|[e ts] r IH]; simpl; intros H; [discriminate|].
  destruct (is_nil (kept_ts remap ts)); simpl in H.
  - rewrite (IH H). apply orb_true_r.
  - apply orb_prop in H. destruct H as [H|H]; [rewrite H; reflexivity|]. rewrite (IH H). apply orb_true_r.
Qed.

Lemma nodup_kept : forall remap evs, nodup_keys evs = true -> nodup_keys (kept_events remap evs) = true.
Proof.
  intros remap evs. induction evs as [|[e ts] r IH]; intros H; [reflexivity|].
  simpl in H. apply andb_prop in H. destruct H as [H1 H2].
  unfold kept_events in *. simpl. destruct (is_nil (kept_ts remap ts)); simpl; [apply IH; exact H2|].
  rewrite (IH H2), andb_true_r. apply negb_true_iff. apply negb_true_iff in H1.
  match goal with |- has_key e ?X = false => destruct (has_key e X) eqn:K; [|reflexivity] end.
  apply (has_key_kept e remap r) in K. congruence.
Qed.

Lemma uk_with_scope : forall d sc, uk_d (with_scope d sc) = uk_scope sc.
Proof. intros [n en ex onf fin ign ini evs ch] [cs es]. unfold uk_scope. simpl. apply andb_comm. Qed.

Lemma uk_scope_of : forall d, uk_scope (scope_of d) = uk_d d.
Proof. intros [n en ex onf fin ign ini evs ch]. unfold uk_scope. simpl. apply andb_comm. Qed.

Lemma uk_set_child : forall d ds, uk_d d = true -> forallb uk_d ds = true -> forallb uk_d (set_child d ds) = true.
Proof.
  intros d ds Hd. induction ds as [|x r IH]; intros H; simpl in *; [rewrite Hd; reflexivity|].
  apply andb_prop in H. destruct H as [H1 H2].
  destruct (Nat.eqb (sd_name x) (sd_name d)); simpl; [rewrite Hd, H2; reflexivity|].
  rewrite H1, (IH H2). reflexivity.
Qed.

Definition keeps_uk {E} (f : scope -> scope * option E) : Prop :=
  forall sc, uk_scope sc = true -> uk_scope (fst (f sc)) = true.

Lemma uk_in_child : forall E n (f : scope -> scope * option E), keeps_uk f ->
  forall ds, forallb uk_d ds = true -> forallb uk_d (fst (in_child n f ds)) = true.
Proof.
  intros E n f K ds. induction ds as [|d r IH]; intros H; simpl in *; [reflexivity|].
  apply andb_prop in H. destruct H as [H1 H2].
  destruct (Nat.eqb (sd_name d) n).
  - specialize (K (scope_of d)). rewrite uk_scope_of in K. specialize (K H1).
    destruct (f (scope_of d)) as [sc e]. simpl in *. rewrite uk_with_scope, K, H2. reflexivity.
  - specialize (IH H2). destruct (in_child n f r) as [r' e]. simpl in *. rewrite H1, IH. reflexivity.
Qed.

Lemma forallb_snoc {A} : forall (p : A -> bool) l x, forallb p (l ++ [x]) = forallb p l && p x.
Proof. intros. rewrite forallb_app. simpl. rewrite andb_true_r. reflexivity. Qed.

Lemma uk_add_path : forall dflt a p, keeps_uk (add_path dflt a p).
Proof.
  intros dflt a p. induction p as [|n r IH]; intros [ds evs] H; [exact H|].
  unfold uk_scope in H. simpl in H. apply andb_prop in H. destruct H as [H1 H2].
  destruct r as [|m r'].
  - simpl. destruct (has_child ds n); simpl; unfold uk_scope; simpl.
    + rewrite H1, H2. reflexivity.
    + rewrite forallb_snoc, H1, H2. reflexivity.
  - change (add_path dflt a (n :: m :: r') (ds, evs)) with
      (let ds1 := if has_child ds n then ds else ds ++ [leaf dflt false n a] in
       let '(ds2, e) := in_child n (add_path dflt a (m :: r')) ds1 in ((ds2, evs), e)).
    cbv zeta.
    assert (U : forallb uk_d (if has_child ds n then ds else ds ++ [leaf dflt false n a]) = true).
    { destruct (has_child ds n); [exact H1|]. rewrite forallb_snoc, H1. reflexivity. }
    pose proof (uk_in_child _ n _ IH _ U) as K.
    destruct (in_child n (add_path dflt a (m :: r')) _) as [ds2 e]. simpl in *.
    unfold uk_scope. simpl. rewrite K, H2. reflexivity.
Qed.

Lemma uk_add_objs : forall l ds, forallb uk_d l = true -> forallb uk_d ds = true ->
  forallb uk_d (fst (add_objs l ds)) = true.
Proof.
  induction l as [|d r IH]; intros ds Hl Hd; simpl in *; [exact Hd|].
  apply andb_prop in Hl. destruct Hl as [H1 H2].
  destruct (has_child ds (sd_name d)); [exact Hd|].
  apply IH; [exact H2|]. rewrite forallb_snoc, Hd, H1. reflexivity.
Qed.

Lemma forallb_filter {A} : forall (p q : A -> bool) l, forallb p l = true -> forallb p (filter q l) = true.
Proof.
  induction l as [|x r IH]; intros H; simpl in *; [reflexivity|].
  apply andb_prop in H. destruct H as [H1 H2]. destruct (q x); simpl; [rewrite H1|]; apply IH; exact H2.
Qed.

Lemma uk_add_forms : forall dflt l,
  Forall (fun f => wf_form f = true -> keeps_uk (add_form dflt f)) l ->
  forallb wf_form l = true -> keeps_uk (add_forms dflt l).
Proof.
  intros dflt l F. induction F as [|x r Hx Fr IH]; intros W sc H; simpl in *; [exact H|].
  apply andb_prop in W. destruct W as [W1 W2].
  specialize (Hx W1 sc H). destruct (add_form dflt x sc) as [sc' [e|]]; simpl in *; [exact Hx|].
  apply IH; assumption.
Qed.

Lemma uk_add_form : forall dflt f, wf_form f = true -> keeps_uk (add_form dflt f).
Proof.
  intros dflt f. induction f as [p a|n a k ch ts IH|n a s remap] using hform_ind2; intros W [ds evs] H.
  - apply uk_add_path. exact H.
  - rewrite add_form_dict. simpl in W.
    pose proof (uk_add_forms dflt ch IH W ([], []) eq_refl) as C.
    destruct (add_forms dflt ch ([], [])) as [csc e]. simpl in C.
    unfold uk_scope in *. simpl in H. apply andb_prop in H. destruct H as [H1 H2].
    cbn [fst snd]. rewrite H2, andb_true_r. apply uk_set_child; [|exact H1].
    rewrite uk_with_scope. destruct e; [exact C|].
    unfold uk_scope in *. cbn [fst snd]. apply andb_prop in C. destruct C as [C1 C2].
    rewrite C1. apply nodup_add_hts. exact C2.
  - simpl in W. unfold add_form.
    unfold uk_scope in H. simpl in H. apply andb_prop in H. destruct H as [H1 H2].
    pose proof (uk_add_objs (filter (fun d => negb (existsb (Nat.eqb (sd_name d)) (remap_keys remap))) (sub_states s)) []
                  (forallb_filter _ _ _ W) eq_refl) as O.
    set (AO := add_objs _ []) in *. destruct AO as [cds e]. simpl in O.
    pose proof (nodup_copy_events (sub_events s) [] eq_refl) as CE.
    destruct e; cbn [fst snd]; unfold uk_scope; cbn [fst snd].
    + rewrite H2, andb_true_r. apply uk_set_child; [|exact H1]. rewrite uk_with_scope.
      unfold uk_scope. simpl. rewrite O. reflexivity.
    + rewrite nodup_add_hts by exact H2. rewrite andb_true_r. apply uk_set_child; [|exact H1].
      rewrite uk_with_scope. unfold uk_scope. cbn [fst snd]. rewrite O.
      destruct remap; [exact CE|apply nodup_kept; exact CE].
Qed.

Lemma uk_rem_d : forall trig d sp dp, uk_d d = true -> uk_d (rem_d trig sp dp d) = true.
Proof.
  intros trig d. induction d as [n en ex onf fin ign ini evs ch IH] using sdefn_ind2; intros sp dp H.
  simpl in *. apply andb_prop in H. destruct H as [H1 H2].
  rewrite (nodup_rem_evs _ _ _ H1). simpl.
  induction IH as [|c r Hc Fr IHr]; simpl in *; [reflexivity|].
  apply andb_prop in H2. destruct H2 as [H3 H4]. rewrite (IHr H4), andb_true_r.
  destruct (rem_skip (sd_name c) sp dp); [exact H3|apply Hc; exact H3].
Qed.

Lemma uk_rem_scope : forall trig sp dp sc, uk_scope sc = true -> uk_scope (rem_scope trig sp dp sc) = true.
Proof.
  intros trig sp dp [ds evs] H. unfold uk_scope, rem_scope in *. simpl in *.
  apply andb_prop in H. destruct H as [H1 H2]. rewrite (nodup_rem_evs _ _ _ H2), andb_true_r.
  unfold rem_children. induction ds as [|c r IH]; simpl in *; [reflexivity|].
  apply andb_prop in H1. destruct H1 as [H3 H4]. rewrite (IH H4), andb_true_r.
  destruct (rem_skip (sd_name c) sp dp); [exact H3|apply uk_rem_d; exact H3].
Qed.

Lemma uk_run_op : forall o b, wf_op o = true -> uk_scope (hb_scope b) = true ->
  uk_scope (hb_scope (fst (hrun_op o b))) = true.
Proof.
  intros o [ign ds evs] W H. destruct o as [l|l|t sp dp]; simpl in W.
  - unfold hrun_op, hb_scope, hb_with in *. cbn [hb_ignore hb_states hb_events] in *.
    assert (F : Forall (fun f => wf_form f = true -> keeps_uk (add_form ign f)) l)
      by (apply Forall_forall; intros; apply uk_add_form; assumption).
    pose proof (uk_add_forms ign l F W (ds, evs) H) as K.
    destruct (add_forms ign l (ds, evs)) as [[ds' evs'] e]. exact K.
  - unfold hrun_op, hb_scope, hb_with, uk_scope in *. cbn [hb_ignore hb_states hb_events fst snd] in *.
    apply andb_prop in H. destruct H as [H1 H2]. rewrite H1. apply nodup_add_hts. exact H2.
  - unfold hrun_op, hb_scope, hb_with in *. cbn [hb_ignore hb_states hb_events fst snd] in *.
    pose proof (uk_rem_scope t sp dp (ds, evs) H) as K.
    destruct (rem_scope t sp dp (ds, evs)) as [ds' evs']. exact K.
Qed.

Lemma uk_exec : forall s b, forallb wf_op s = true -> uk_scope (hb_scope b) = true ->
  uk_scope (hb_scope (fst (hexec s b))) = true.
Proof.
  induction s as [|o r IH]; intros b W H; simpl in *; [exact H|].
  apply andb_prop in W. destruct W as [W1 W2].
  pose proof (uk_run_op o b W1 H) as K.
  destruct (hrun_op o b) as [b' [e|]]; simpl in *; [exact K|]. apply IH; assumption.
Qed.

(* ------------------------------------------------------------------ remove_transition(trigger)
   on a machine with unique event names = the trigger dropped from every scope *)
Lemma drop_nokey : forall trig evs, has_key trig evs = false -> drop_evs trig evs = evs.
Proof.
  intros trig evs. induction evs as [|[e ts] r IH]; intros H; simpl in *; [reflexivity|].
  apply orb_false_elim in H. destruct H as [H1 H2]. rewrite Nat.eqb_sym, H1. simpl. rewrite (IH H2). reflexivity.
Qed.

Lemma rem_all_evs : forall trig evs, nodup_keys evs = true ->
  rem_evs (rem_match [] []) trig evs = drop_evs trig evs.
Proof.
  intros trig evs. induction evs as [|[e ts] r IH]; intros H; simpl in *; [reflexivity|].
  apply andb_prop in H. destruct H as [H1 H2].
  destruct (Nat.eqb trig e) eqn:E.
  - apply Nat.eqb_eq in E. subst e. rewrite Nat.eqb_refl. simpl.
    assert (N : filter (fun _ : htrans => false) ts = []) by (induction ts as [|t l IHl]; simpl; [reflexivity|exact IHl]).
    rewrite N. simpl. apply negb_true_iff in H1. symmetry. apply drop_nokey. exact H1.
  - rewrite Nat.eqb_sym, E. simpl. rewrite (IH H2). reflexivity.
Qed.

Lemma rem_all_d : forall trig d, uk_d d = true -> rem_d trig [] [] d = drop_d trig d.
Proof.
  intros trig d. induction d as [n en ex onf fin ign ini evs ch IH] using sdefn_ind2; intros H.
  simpl in *. apply andb_prop in H. destruct H as [H1 H2]. rewrite (rem_all_evs _ _ H1). f_equal.
  induction IH as [|c r Hc Fr IHr]; simpl in *; [reflexivity|].
  apply andb_prop in H2. destruct H2 as [H3 H4]. rewrite (IHr H4). f_equal.
  unfold rem_skip. simpl. apply Hc. exact H3.
Qed.

Lemma rem_all_scope : forall trig sc, uk_scope sc = true -> rem_scope trig [] [] sc = drop_scope trig sc.
Proof.
  intros trig [ds evs] H. unfold uk_scope, rem_scope, drop_scope in *. simpl in *.
  apply andb_prop in H. destruct H as [H1 H2]. rewrite (rem_all_evs _ _ H2). f_equal.
  unfold rem_children. induction ds as [|c r IH]; simpl in *; [reflexivity|].
  apply andb_prop in H1. destruct H1 as [H3 H4]. rewrite (IH H4). f_equal.
  unfold rem_skip. simpl. apply rem_all_d. exact H3.
Qed.

(* add-then-remove = never added, hierarchical: any script (states as names / nested dicts /
   embedded machines, transitions declared globally or in nested scopes at any depth, removals
   of other triggers) followed by remove_transition(trigger) builds the machine of the script
   in which the trigger is never mentioned *)
Lemma remove_never_added : forall trig s b,
  forallb wf_op s = true -> forallb (fun o => negb (removes trig o)) s = true ->
  uk_scope (hb_scope b) = true -> snd (hexec s b) = None ->
  hexec (s ++ [HRemove trig [] []]) b = hexec (map (strip_op trig) s) (drop_b trig b).
Proof.
  intros trig s b W R U E. rewrite hexec_app, (drop_exec trig s b R).
  pose proof (uk_exec s b W U) as K.
  destruct (hexec s b) as [b' e]. simpl in E. subst e. cbn [fst snd] in *.
  simpl hexec. unfold drop_b. rewrite (rem_all_scope trig _ K). reflexivity.
Qed.

Lemma remove_never_added_scratch : forall trig s ign,
  forallb wf_op s = true -> forallb (fun o => negb (removes trig o)) s = true ->
  snd (hexec s (hempty ign)) = None ->
  hexec (s ++ [HRemove trig [] []]) (hempty ign) = hexec (map (strip_op trig) s) (hempty ign).
Proof. intros. apply (remove_never_added trig s (hempty ign)); auto. Qed.

(* ------------------------------------------------------------------ (3) embedded machines *)
Lemma has_child_app : forall ds1 ds2 n, has_child (ds1 ++ ds2) n = has_child ds1 n || has_child ds2 n.
Proof. induction ds1 as [|d r IH]; intros; simpl; [reflexivity|]. rewrite IH. apply orb_assoc. Qed.

Lemma set_child_fresh : forall d ds, has_child ds (sd_name d) = false -> set_child d ds = ds ++ [d].
Proof.
  intros d ds. induction ds as [|x r IH]; intros H; simpl in *; [reflexivity|].
  apply orb_false_elim in H. destruct H as [H1 H2]. rewrite H1, (IH H2). reflexivity.
Qed.

Lemma add_ht_tail : forall e t acc ts, has_key e acc = false ->
  add_ht e t (acc ++ [(e, ts)]) = acc ++ [(e, ts ++ [t])].
Proof.
  intros e t acc ts. induction acc as [|[e0 ts0] r IH]; intros H; simpl in *.
  - rewrite Nat.eqb_refl. reflexivity.
  - apply orb_false_elim in H. destruct H as [H1 H2]. rewrite H1, (IH H2). reflexivity.
Qed.

Lemma add_ht_new : forall e t acc, has_key e acc = false -> add_ht e t acc = acc ++ [(e, [t])].
Proof.
  intros e t acc. induction acc as [|[e0 ts0] r IH]; intros H; simpl in *; [reflexivity|].
  apply orb_false_elim in H. destruct H as [H1 H2]. rewrite H1, (IH H2). reflexivity.
Qed.

Lemma add_hts_same_tail : forall e ts acc ts0, has_key e acc = false ->
  add_hts (map (pair e) ts) (acc ++ [(e, ts0)]) = acc ++ [(e, ts0 ++ ts)].
Proof.
  intros e ts. unfold add_hts. induction ts as [|t r IH]; intros acc ts0 H; simpl.
  - rewrite app_nil_r. reflexivity.
  - rewrite (add_ht_tail _ _ _ _ H), (IH _ _ H), <- app_assoc. reflexivity.
Qed.

Lemma add_hts_app : forall l1 l2 evs, add_hts (l1 ++ l2) evs = add_hts l2 (add_hts l1 evs).
Proof. intros. unfold add_hts. apply fold_left_app. Qed.

Lemma add_hts_flat : forall evs acc,
  nodup_keys evs = true -> nonempty_events evs = true ->
  (forall e, has_key e evs = true -> has_key e acc = false) ->
  add_hts (flat_events evs) acc = acc ++ evs.
Proof.
  induction evs as [|[e ts] r IH]; intros acc N E D; simpl in *.
  - rewrite app_nil_r. reflexivity.
  - apply andb_prop in N. destruct N as [N1 N2]. apply andb_prop in E. destruct E as [E1 E2].
    change (flat_events ((e, ts) :: r)) with (map (pair e) ts ++ flat_events r). rewrite add_hts_app.
    assert (K : has_key e acc = false) by (apply D; rewrite Nat.eqb_refl; reflexivity).
    destruct ts as [|t ts']; [discriminate|].
    change (add_hts (map (pair e) (t :: ts')) acc) with (add_hts (map (pair e) ts') (add_ht e t acc)).
    rewrite (add_ht_new _ _ _ K), (add_hts_same_tail _ _ _ _ K).
    change ([t] ++ ts') with (t :: ts').
    transitivity ((acc ++ [(e, t :: ts')]) ++ r); [|rewrite <- app_assoc; reflexivity].
    apply (IH (acc ++ [(e, t :: ts')]) N2 E2).
    intros e' H.
    { idtac. rewrite has_key_app. simpl. rewrite orb_false_r.
      rewrite D by (rewrite H; apply orb_true_r). simpl.
      destruct (Nat.eqb e' e) eqn:Q; [|reflexivity]. apply Nat.eqb_eq in Q. subst.
      apply negb_true_iff in N1. congruence.
    }
Qed.

Lemma copy_events_id : forall evs acc,
  nodup_keys evs = true -> nonempty_events evs = true ->
  (forall e, has_key e evs = true -> has_key e acc = false) ->
  copy_events evs acc = acc ++ evs.
Proof.
  induction evs as [|[e ts] r IH]; intros acc N E D; simpl in *.
  - rewrite app_nil_r. reflexivity.
  - apply andb_prop in N. destruct N as [N1 N2]. apply andb_prop in E. destruct E as [E1 E2].
    assert (K : has_key e acc = false) by (apply D; rewrite Nat.eqb_refl; reflexivity).
    apply negb_true_iff in E1. rewrite E1, K. simpl.
    transitivity ((acc ++ [(e, ts)]) ++ r); [|rewrite <- app_assoc; reflexivity].
    apply (IH (acc ++ [(e, ts)]) N2 E2).
    intros e' H.
    { idtac. rewrite has_key_app. simpl. rewrite orb_false_r.
      rewrite D by (rewrite H; apply orb_true_r). simpl.
      destruct (Nat.eqb e' e) eqn:Q; [|reflexivity]. apply Nat.eqb_eq in Q. subst.
      apply negb_true_iff in N1. congruence.
    }
Qed.

Lemma add_objs_id : forall l acc, nodup_names l = true ->
  (forall n, has_child l n = true -> has_child acc n = false) ->
  add_objs l acc = (acc ++ l, None).
Proof.
  induction l as [|d r IH]; intros acc N D; simpl in *.
  - rewrite app_nil_r. reflexivity.
  - apply andb_prop in N. destruct N as [N1 N2].
    rewrite (D (sd_name d)) by (rewrite Nat.eqb_refl; reflexivity).
    rewrite (IH (acc ++ [d]) N2).
    + rewrite <- app_assoc. reflexivity.
    + intros n H. rewrite has_child_app. simpl. rewrite orb_false_r.
      rewrite D by (rewrite H; apply orb_true_r). simpl.
      destruct (Nat.eqb (sd_name d) n) eqn:Q; [|reflexivity]. apply Nat.eqb_eq in Q. subst.
      apply negb_true_iff in N1. congruence.
Qed.

Lemma form_of_name : forall d, match form_of d with HDict n _ _ _ _ => n | _ => 0 end = sd_name d.
Proof. destruct d; reflexivity. Qed.

(* building the nested dict of a state tree yields that tree *)
Lemma build_forms_of : forall dflt l acc evs,
  Forall (fun d => forall ds es, add_form dflt (form_of d) (ds, es) = ((set_child d ds, es), None)) l ->
  nodup_names l = true -> (forall n, has_child l n = true -> has_child acc n = false) ->
  add_forms dflt (map form_of l) (acc, evs) = ((acc ++ l, evs), None).
Proof.
  intros dflt l. induction l as [|d r IH]; intros acc evs F N D; simpl in *.
  - rewrite app_nil_r. reflexivity.
  - inversion F as [|? ? Hd Fr]; subst. apply andb_prop in N. destruct N as [N1 N2].
    rewrite Hd, set_child_fresh by (apply D; rewrite Nat.eqb_refl; reflexivity).
    rewrite (IH (acc ++ [d]) evs Fr N2).
    + rewrite <- app_assoc. reflexivity.
    + intros n H. rewrite has_child_app. simpl. rewrite orb_false_r.
      rewrite D by (rewrite H; apply orb_true_r). simpl.
      destruct (Nat.eqb (sd_name d) n) eqn:Q; [|reflexivity]. apply Nat.eqb_eq in Q. subst.
      apply negb_true_iff in N1. congruence.
Qed.

Lemma build_form_of : forall dflt d, wfr_d d = true ->
  forall ds es, add_form dflt (form_of d) (ds, es) = ((set_child d ds, es), None).
Proof.
  intros dflt d. induction d as [n en ex onf fin ign ini evs ch IH] using sdefn_ind2; intros W ds es.
  simpl in W. apply andb_prop in W. destruct W as [W W4]. apply andb_prop in W. destruct W as [W W3].
  apply andb_prop in W. destruct W as [W1 W2].
  change (form_of (SDef n en ex onf fin ign ini evs ch)) with
    (HDict n (mkHA en ex onf fin (Some ign) ini) true (map form_of ch) (flat_events evs)).
  rewrite add_form_dict.
  assert (F : Forall (fun d => forall ds es, add_form dflt (form_of d) (ds, es) = ((set_child d ds, es), None)) ch).
  { clear W3. induction IH as [|c r Hc Fr IHr]; [constructor|].
    simpl in W4. apply andb_prop in W4. destruct W4 as [Wc Wr]. constructor; [apply Hc; exact Wc|apply IHr; exact Wr]. }
  pose proof (build_forms_of dflt ch [] [] F W3 (fun _ _ => eq_refl)) as B.
  match goal with |- context [add_forms dflt (map form_of ch) ?x] =>
    replace (add_forms dflt (map form_of ch) x) with (((ch, []) : scope), @None berr) by (symmetry; exact B) end.
  pose proof (add_hts_flat evs [] W1 W2 (fun _ _ => eq_refl)) as A.
  cbn [fst snd app].
  match goal with |- context [add_hts (flat_events evs) ?x] =>
    replace (add_hts (flat_events evs) x) with evs by (symmetry; exact A) end.
  destruct ign as [[|]|]; reflexivity.
Qed.

Lemma filter_true {A} : forall (l : list A), filter (fun _ => true) l = l.
Proof. induction l as [|x r IH]; simpl; [reflexivity|]. rewrite IH. reflexivity. Qed.

Lemma add_form_embed : forall dflt n a sub remap sc,
  add_form dflt (HEmbed n a sub remap) sc =
  (let new_states := filter (fun d => negb (existsb (Nat.eqb (sd_name d)) (remap_keys remap))) (sub_states sub) in
   let '(cds, e) := add_objs new_states [] in
   match e with
   | Some _ => ((set_child (with_scope (leaf dflt true n a) (cds, [])) (fst sc), snd sc), e)
   | None =>
       let cevs := copy_events (sub_events sub) [] in
       let d := with_scope (leaf dflt true n (with_initial a (sub_initial sub)))
                  (cds, match remap with [] => cevs | _ => kept_events remap cevs end) in
       ((set_child d (fst sc),
         add_hts (match remap with [] => [] | _ => moved_events n remap cevs end) (snd sc)), None)
   end).
Proof. reflexivity. Qed.

(* (3a) a machine embedded as children (no remap) = the nested dict of its states with its
   global transitions as the dict's 'transitions'; the embedding state inherits the initial state *)
Lemma embed_is_dict : forall dflt n a s sc, wf_sub s = true ->
  add_form dflt (HEmbed n a s []) sc =
  add_form dflt (HDict n (with_initial a (sub_initial s)) true (map form_of (sub_states s))
                       (flat_events (sub_events s))) sc.
Proof.
  intros dflt n a s [ds es] W. unfold wf_sub in W.
  apply andb_prop in W. destruct W as [W W4]. apply andb_prop in W. destruct W as [W W3].
  apply andb_prop in W. destruct W as [W1 W2].
  rewrite add_form_dict, add_form_embed. simpl remap_keys. simpl existsb. simpl negb. cbv zeta.
  rewrite filter_true.
  pose proof (add_objs_id (sub_states s) [] W1 (fun _ _ => eq_refl)) as O.
  match goal with |- context [add_objs (sub_states s) ?x] =>
    replace (add_objs (sub_states s) x) with (sub_states s, @None berr) by (symmetry; exact O) end.
  pose proof (copy_events_id (sub_events s) [] W3 W4 (fun _ _ => eq_refl)) as CE.
  match goal with |- context [copy_events (sub_events s) ?x] =>
    replace (copy_events (sub_events s) x) with (sub_events s) by (symmetry; exact CE) end.
  assert (F : Forall (fun d => forall ds es, add_form dflt (form_of d) (ds, es) = ((set_child d ds, es), None)) (sub_states s)).
  { apply Forall_forall. intros d Hin. apply build_form_of.
    rewrite forallb_forall in W2. apply W2. exact Hin. }
  pose proof (build_forms_of dflt (sub_states s) [] [] F W1 (fun _ _ => eq_refl)) as B.
  match goal with |- context [add_forms dflt (map form_of (sub_states s)) ?x] =>
    replace (add_forms dflt (map form_of (sub_states s)) x) with (((sub_states s, []) : scope), @None berr)
      by (symmetry; exact B) end.
  pose proof (add_hts_flat (sub_events s) [] W3 W4 (fun _ _ => eq_refl)) as A.
  cbn [fst snd app].
  match goal with |- context [add_hts (flat_events (sub_events s)) ?x] =>
    replace (add_hts (flat_events (sub_events s)) x) with (sub_events s) by (symmetry; exact A) end.
  reflexivity.
Qed.

(* (3b) with remap *)
Lemma has_child_filter : forall (p : sdefn -> bool) l n, has_child (filter p l) n = true -> has_child l n = true.
Proof.
  induction l as [|d r IH]; intros n H; simpl in *; [discriminate|].
  destruct (p d); simpl in H.
  - apply orb_prop in H. destruct H as [H|H]; [rewrite H; reflexivity|]. rewrite (IH _ H). apply orb_true_r.
  - rewrite (IH _ H). apply orb_true_r.
Qed.

Lemma nodup_names_filter : forall (p : sdefn -> bool) l, nodup_names l = true -> nodup_names (filter p l) = true.
Proof.
  induction l as [|d r IH]; intros H; simpl in *; [reflexivity|].
  apply andb_prop in H. destruct H as [H1 H2]. destruct (p d); simpl; [|apply IH; exact H2].
  rewrite (IH H2), andb_true_r. apply negb_true_iff. apply negb_true_iff in H1.
  destruct (has_child (filter p r) (sd_name d)) eqn:K; [|reflexivity].
  apply has_child_filter in K. congruence.
Qed.

Lemma nonempty_kept : forall remap evs, nonempty_events (kept_events remap evs) = true.
Proof.
  intros remap evs. unfold kept_events, nonempty_events. induction evs as [|[e ts] r IH]; simpl; [reflexivity|].
  destruct (is_nil (kept_ts remap ts)) eqn:K; simpl; [exact IH|]. rewrite K. exact IH.
Qed.

Lemma kept_events_nil : forall evs, nonempty_events evs = true -> kept_events [] evs = evs.
Proof.
  unfold kept_events, nonempty_events. induction evs as [|[e ts] r IH]; intros H; simpl in *; [reflexivity|].
  apply andb_prop in H. destruct H as [H1 H2].
  assert (K : kept_ts [] ts = ts).
  { unfold kept_ts. clear. induction ts as [|t l IHl]; [reflexivity|]. cbn [filter].
    assert (Q : negb (src_remapped [] t) && match dst_remapped [] t with Some _ => false | None => true end = true)
      by (unfold src_remapped, dst_remapped, in_remap; simpl; destruct (ht_dst t); reflexivity).
    rewrite Q, IHl. reflexivity. }
  rewrite K. apply negb_true_iff in H1. rewrite H1. simpl. rewrite (IH H2). reflexivity.
Qed.

Lemma moved_events_nil : forall n evs, moved_events n [] evs = [].
Proof.
  intros n evs. unfold moved_events. induction evs as [|[e ts] r IH]; [reflexivity|].
  cbn [flat_map fst snd]. rewrite IH, app_nil_r. unfold moved_ts.
  induction ts as [|t l IHl]; [reflexivity|]. cbn [flat_map]. rewrite IHl, app_nil_r.
  unfold src_remapped, dst_remapped, in_remap. simpl. destruct (ht_dst t); reflexivity.
Qed.

Lemma embed_remap : forall dflt n a s remap sc, wf_sub s = true ->
  add_form dflt (HEmbed n a s remap) sc =
  (let sc1 := fst (add_form dflt (HEmbed n a (kept_sub remap s) []) sc) in
   ((fst sc1, add_hts (moved_events n remap (sub_events s)) (snd sc1)), None)).
Proof.
  intros dflt n a s remap [ds es] W. unfold wf_sub in W.
  apply andb_prop in W. destruct W as [W W4]. apply andb_prop in W. destruct W as [W W3].
  apply andb_prop in W. destruct W as [W1 W2].
  rewrite !add_form_embed. cbv zeta. cbn [kept_sub sub_states sub_events sub_initial remap_keys map existsb negb].
  rewrite filter_true.
  set (K := filter (fun d => negb (existsb (Nat.eqb (sd_name d)) (remap_keys remap))) (sub_states s)).
  assert (NK : nodup_names K = true) by (apply nodup_names_filter; exact W1).
  pose proof (add_objs_id K [] NK (fun _ _ => eq_refl)) as O.
  replace (add_objs K []) with (K, @None berr) by (symmetry; exact O).
  pose proof (copy_events_id (sub_events s) [] W3 W4 (fun _ _ => eq_refl)) as CE.
  match goal with |- context [copy_events (sub_events s) ?x] =>
    replace (copy_events (sub_events s) x) with (sub_events s) by (symmetry; exact CE) end.
  pose proof (copy_events_id (kept_events remap (sub_events s)) [] (nodup_kept _ _ W3) (nonempty_kept _ _)
                (fun _ _ => eq_refl)) as CK.
  match goal with |- context [copy_events (kept_events remap (sub_events s)) ?x] =>
    replace (copy_events (kept_events remap (sub_events s)) x) with (kept_events remap (sub_events s))
      by (symmetry; exact CK) end.
  cbn [fst snd]. destruct remap as [|kv r].
  - rewrite (kept_events_nil _ W4), moved_events_nil. reflexivity.
  - reflexivity.
Qed.

Lemma wf_kept_sub : forall remap s, wf_sub s = true -> wf_sub (kept_sub remap s) = true.
Proof.
  intros remap s W. unfold wf_sub in *. cbn [kept_sub sub_states sub_events].
  apply andb_prop in W. destruct W as [W W4]. apply andb_prop in W. destruct W as [W W3].
  apply andb_prop in W. destruct W as [W1 W2].
  rewrite (nodup_names_filter _ _ W1), (forallb_filter _ _ _ W2), (nodup_kept _ _ W3), nonempty_kept. reflexivity.
Qed.

(* embedded machine with remap = the explicit nested definition of the states that are not
   remapped with the transitions that stay inside, and, declared one scope up, the
   transitions into remapped states leaving from <n>_<source> to the remap target *)
Lemma embed_remap_explicit : forall dflt n a s remap sc, wf_sub s = true ->
  add_form dflt (HEmbed n a s remap) sc =
  (let ks := kept_sub remap s in
   let sc1 := fst (add_form dflt (HDict n (with_initial a (sub_initial s)) true (map form_of (sub_states ks))
                                        (flat_events (sub_events ks))) sc) in
   ((fst sc1, add_hts (moved_events n remap (sub_events s)) (snd sc1)), None)).
Proof.
  intros. rewrite embed_remap by assumption. cbv zeta.
  rewrite (embed_is_dict dflt n a (kept_sub remap s) sc (wf_kept_sub remap s H)). reflexivity.
Qed.

(* ------------------------------------------------------------------ (2) nested dict = joined names *)
Section PtreeInd.
  Variable P : ptree -> Prop.
  Hypothesis H : forall n a ch, Forall P ch -> P (PT n a ch).
  Fixpoint ptree_ind2 (t : ptree) : P t :=
    match t with
    | PT n a ch => H n a ch ((fix go (l : list ptree) : Forall P l :=
                                match l with
                                | [] => Forall_nil P
                                | x :: r => Forall_cons x (ptree_ind2 x) (go r)
                                end) ch)
    end.
End PtreeInd.

Definition deep_name (f : hform) : bool :=
  match f with HName (_ :: _) _ => true | _ => false end.

Lemma names_of_deep : forall t, forallb deep_name (names_of t) = true.
Proof.
  intros t. induction t as [n a ch IH] using ptree_ind2.
  change (names_of (PT n a ch)) with (HName [n] a :: map (pre n) (flat_map names_of ch)).
  cbn [forallb deep_name]. 
  assert (K : forallb deep_name (flat_map names_of ch) = true).
  { induction IH as [|x r Hx Fr IHr]; [reflexivity|]. cbn [flat_map]. rewrite forallb_app, Hx, IHr. reflexivity. }
  clear IH. induction (flat_map names_of ch) as [|f r IHr]; [reflexivity|].
  simpl in K. apply andb_prop in K. destruct K as [K1 K2]. specialize (IHr K2).
  cbn [map forallb] in *. apply andb_prop in IHr. destruct IHr as [_ I2]. rewrite I2.
  destruct f as [[|m p] a0| |]; try discriminate. reflexivity.
Qed.

Lemma has_child_in_child : forall E n (f : scope -> scope * option E) ds m,
  has_child (fst (in_child n f ds)) m = has_child ds m.
Proof.
  intros E n f ds m. induction ds as [|d r IH]; simpl; [reflexivity|].
  destruct (Nat.eqb (sd_name d) n) eqn:Q.
  - destruct (f (scope_of d)) as [sc e]. simpl. destruct d; reflexivity.
  - destruct (in_child n f r) as [r' e] eqn:R. simpl in *. rewrite IH. reflexivity.
Qed.

Definition seq_f {E} (f g : scope -> scope * option E) : scope -> scope * option E :=
  fun sc => match f sc with (sc', None) => g sc' | res => res end.

Lemma scope_of_with_scope : forall d sc, scope_of (with_scope d sc) = sc.
Proof. intros [n en ex onf fin ign ini evs ch] [cs es]. reflexivity. Qed.
Lemma with_scope_twice : forall d sc1 sc2, with_scope (with_scope d sc1) sc2 = with_scope d sc2.
Proof. intros [n en ex onf fin ign ini evs ch] [cs es] [cs2 es2]. reflexivity. Qed.
Lemma name_with_scope : forall d sc, sd_name (with_scope d sc) = sd_name d.
Proof. intros [n en ex onf fin ign ini evs ch] [cs es]. reflexivity. Qed.

Lemma in_child_seq : forall E n (f g : scope -> scope * option E) ds,
  in_child n (seq_f f g) ds =
  match in_child n f ds with (ds', None) => in_child n g ds' | res => res end.
Proof.
  intros E n f g ds. induction ds as [|d r IH]; simpl; [reflexivity|].
  destruct (Nat.eqb (sd_name d) n) eqn:Q.
  - unfold seq_f. destruct (f (scope_of d)) as [sc [e|]]; [reflexivity|].
    simpl. rewrite name_with_scope, Q, scope_of_with_scope.
    destruct (g sc) as [sc2 e2]. rewrite with_scope_twice. reflexivity.
  - rewrite IH. destruct (in_child n f r) as [r' [e|]]; [reflexivity|]. simpl. rewrite Q. reflexivity.
Qed.

Lemma in_child_ext : forall E n (f g : scope -> scope * option E) ds,
  (forall sc, f sc = g sc) -> in_child n f ds = in_child n g ds.
Proof.
  intros E n f g ds H. induction ds as [|d r IH]; simpl; [reflexivity|]. rewrite H, IH. reflexivity.
Qed.

Lemma in_child_id : forall n ds, has_child ds n = true ->
  in_child n (fun sc => (sc, @None berr)) ds = (ds, None).
Proof.
  intros n ds. induction ds as [|d r IH]; intros H; simpl in *; [discriminate|].
  destruct (Nat.eqb (sd_name d) n); [destruct d; reflexivity|]. simpl in H. rewrite (IH H). reflexivity.
Qed.

(* a joined name below an existing first domain: with self(n): add_states(rest) *)
Lemma add_name_below : forall dflt n p a ds evs, has_child ds n = true -> p <> [] ->
  add_form dflt (HName (n :: p) a) (ds, evs) =
  (let '(ds', e) := in_child n (add_form dflt (HName p a)) ds in ((ds', evs), e)).
Proof.
  intros dflt n p a ds evs H Hp. destruct p as [|m r]; [congruence|].
  simpl. rewrite H. reflexivity.
Qed.

Lemma lift_names : forall dflt n l ds evs, has_child ds n = true -> forallb deep_name l = true ->
  add_forms dflt (map (pre n) l) (ds, evs) =
  (let '(ds', e) := in_child n (add_forms dflt l) ds in ((ds', evs), e)).
Proof.
  intros dflt n l. induction l as [|f r IH]; intros ds evs H D.
  - simpl. rewrite (in_child_id n ds H). reflexivity.
  - simpl in D. apply andb_prop in D. destruct D as [D1 D2].
    destruct f as [[|m p] a| |]; try discriminate.
    cbn [map pre]. cbn [add_forms].
    rewrite (add_name_below dflt n (m :: p) a ds evs H) by discriminate.
    rewrite (in_child_ext _ n (add_forms dflt (HName (m :: p) a :: r))
               (seq_f (add_form dflt (HName (m :: p) a)) (add_forms dflt r)))
      by (intros sc; reflexivity).
    rewrite in_child_seq.
    pose proof (has_child_in_child _ n (add_form dflt (HName (m :: p) a)) ds n) as HC.
    destruct (in_child n (add_form dflt (HName (m :: p) a)) ds) as [ds' [e|]]; [reflexivity|].
    simpl in HC. rewrite H in HC. apply IH; assumption.
Qed.

Lemma in_child_fresh_tail : forall E n (f : scope -> scope * option E) ds d,
  has_child ds n = false -> sd_name d = n ->
  in_child n f (ds ++ [d]) = (let '(sc, e) := f (scope_of d) in (ds ++ [with_scope d sc], e)).
Proof.
  intros E n f ds d. induction ds as [|x r IH]; intros H Hn; simpl in *.
  - rewrite Hn, Nat.eqb_refl. destruct (f (scope_of d)) as [sc e]. reflexivity.
  - apply orb_false_elim in H. destruct H as [H1 H2]. rewrite H1, (IH H2 Hn).
    destruct (f (scope_of d)) as [sc e]. reflexivity.
Qed.

Lemma has_child_set_child : forall d ds m,
  has_child (set_child d ds) m = has_child ds m || Nat.eqb (sd_name d) m.
Proof.
  intros d ds m. induction ds as [|x r IH]; simpl; [rewrite orb_false_r; reflexivity|].
  destruct (Nat.eqb (sd_name x) (sd_name d)) eqn:Q; simpl.
  - apply Nat.eqb_eq in Q. rewrite Q. destruct (Nat.eqb (sd_name d) m); simpl; [reflexivity|].
    rewrite orb_false_r. reflexivity.
  - rewrite IH. apply orb_assoc.
Qed.

Lemma dict_of_result : forall dflt t sc,
  exists d, sd_name d = pt_name t /\
            add_form dflt (dict_of t) sc = ((set_child d (fst sc), snd sc), snd (add_form dflt (dict_of t) sc)).
Proof.
  intros dflt [n a ch] sc. change (dict_of (PT n a ch)) with (HDict n a true (map dict_of ch) []).
  rewrite add_form_dict. destruct (add_forms dflt (map dict_of ch) ([], [])) as [csc e].
  eexists. split; [|reflexivity]. rewrite name_with_scope. reflexivity.
Qed.

Lemma dict_of_ok : forall dflt t sc, snd (add_form dflt (dict_of t) sc) = None.
Proof.
  intros dflt t. induction t as [n a ch IH] using ptree_ind2; intros sc.
  change (dict_of (PT n a ch)) with (HDict n a true (map dict_of ch) []).
  rewrite add_form_dict.
  assert (K : forall c, snd (add_forms dflt (map dict_of ch) c) = None).
  { induction IH as [|x r Hx Fr IHr]; intros c; simpl; [reflexivity|].
    specialize (Hx c). destruct (add_form dflt (dict_of x) c) as [c' [e|]]; simpl in Hx; [discriminate|]. apply IHr. }
  specialize (K ([], [])). destruct (add_forms dflt (map dict_of ch) ([], [])) as [csc e]. simpl in *. exact K.
Qed.

Definition fresh_in (l : list ptree) (ds : list sdefn) : Prop :=
  forall t, In t l -> has_child ds (pt_name t) = false.

Lemma names_children : forall dflt ch,
  Forall (fun t => wf_pt t = true -> forall ds evs, has_child ds (pt_name t) = false ->
                   add_forms dflt (names_of t) (ds, evs) = add_form dflt (dict_of t) (ds, evs)) ch ->
  forallb wf_pt ch = true -> nodup_pt ch = true ->
  forall ds evs, fresh_in ch ds ->
  add_forms dflt (flat_map names_of ch) (ds, evs) = add_forms dflt (map dict_of ch) (ds, evs).
Proof.
  intros dflt ch F. induction F as [|c r Hc Fr IH]; intros W N ds evs Fi; [reflexivity|].
  simpl in W, N. apply andb_prop in W. destruct W as [W1 W2]. apply andb_prop in N. destruct N as [N1 N2].
  cbn [flat_map map]. rewrite add_forms_app. cbn [add_forms].
  rewrite (Hc W1 ds evs) by (apply Fi; left; reflexivity).
  destruct (dict_of_result dflt c (ds, evs)) as [d [Hn Hd]].
  pose proof (dict_of_ok dflt c (ds, evs)) as Ok. rewrite Ok in Hd. rewrite Hd. cbn [fst snd].
  apply IH; [exact W2|exact N2|].
  intros t Hin. rewrite has_child_set_child, Hn, (Fi t (or_intror Hin)). simpl.
  destruct (Nat.eqb (pt_name c) (pt_name t)) eqn:Q; [|reflexivity]. exfalso.
  apply negb_true_iff in N1.
  assert (X : existsb (fun u => Nat.eqb (pt_name u) (pt_name c)) r = true)
    by (apply existsb_exists; exists t; split; [exact Hin|rewrite Nat.eqb_sym; exact Q]).
  congruence.
Qed.

(* a state tree as nested dict = its root, then its descendants as separator-joined names
   one by one, in pre-order: same states in the same order, same attributes, and both raise
   nothing *)
Lemma names_eq_dict : forall dflt t, wf_pt t = true ->
  forall ds evs, has_child ds (pt_name t) = false ->
  add_forms dflt (names_of t) (ds, evs) = add_form dflt (dict_of t) (ds, evs).
Proof.
  intros dflt t. induction t as [n a ch IH] using ptree_ind2; intros W ds evs Fr.
  simpl in W. apply andb_prop in W. destruct W as [W W3]. apply andb_prop in W. destruct W as [W1 W2].
  change (names_of (PT n a ch)) with (HName [n] a :: map (pre n) (flat_map names_of ch)).
  change (dict_of (PT n a ch)) with (HDict n a true (map dict_of ch) []).
  simpl pt_name in Fr.
  cbn [add_forms]. change (add_form dflt (HName [n] a) (ds, evs)) with (add_path dflt a [n] (ds, evs)).
  simpl add_path. rewrite Fr.
  assert (D : forallb deep_name (flat_map names_of ch) = true).
  { clear. induction ch as [|x r IHr]; [reflexivity|]. cbn [flat_map]. rewrite forallb_app, names_of_deep, IHr. reflexivity. }
  rewrite (lift_names dflt n _ (ds ++ [leaf dflt false n a]) evs) by
    (try exact D; rewrite has_child_app; simpl; rewrite Nat.eqb_refl; apply orb_true_r).
  rewrite (in_child_fresh_tail _ n _ ds (leaf dflt false n a) Fr eq_refl).
  change (scope_of (leaf dflt false n a)) with (([], []) : scope).
  pose proof (names_children dflt ch IH W3 W2 [] [] (fun _ _ => eq_refl)) as NC.
  rewrite add_form_dict.
  match goal with |- context [add_forms dflt (flat_map names_of ch) ?x] =>
    replace (add_forms dflt (flat_map names_of ch) x) with (add_forms dflt (map dict_of ch) ([], [])) by (symmetry; exact NC) end.
  destruct (add_forms dflt (map dict_of ch) ([], [])) as [[cds ces] e].
  cbn [fst snd]. rewrite set_child_fresh by (rewrite name_with_scope; exact Fr).
  assert (L : leaf dflt false n a = leaf dflt true n a).
  { unfold leaf, res_ignore. unfold expressible in W1. destruct (a_ignore a) as [[b|]|]; try reflexivity. discriminate. }
  rewrite L. destruct e; reflexivity.
Qed.


(* ------------------------------------------------------------------ the laws inside scripts:
   any prefix, any suffix *)
Lemma hexec_replace : forall pre o l suf b,
  (forall b1, hexec pre b = (b1, None) -> hrun_op o b1 = hexec l b1) ->
  hexec (pre ++ o :: suf) b = hexec (pre ++ l ++ suf) b.
Proof.
  intros pre o l suf b H. rewrite !hexec_app.
  destruct (hexec pre b) as [b1 [e|]] eqn:E; [reflexivity|].
  rewrite hexec_app. simpl. rewrite (H b1 eq_refl). reflexivity.
Qed.

Lemma hb_with_scope : forall b, hb_with b (hb_scope b) = b.
Proof. intros [i s e]. reflexivity. Qed.

Lemma hexec_singles : forall l b,
  hexec (map (fun f => HAddStates [f]) l) b =
  (let '(sc, e) := add_forms (hb_ignore b) l (hb_scope b) in (hb_with b sc, e)).
Proof.
  induction l as [|f r IH]; intros b; simpl.
  - rewrite hb_with_scope. reflexivity.
  - destruct (add_form (hb_ignore b) f (hb_scope b)) as [sc [e|]] eqn:E; [reflexivity|].
    rewrite IH. destruct sc as [ds es]. reflexivity.
Qed.

Lemma run_one_form : forall f b,
  hrun_op (HAddStates [f]) b = (let '(sc, e) := add_form (hb_ignore b) f (hb_scope b) in (hb_with b sc, e)).
Proof.
  intros f b. simpl. destruct (add_form (hb_ignore b) f (hb_scope b)) as [sc [e|]]; reflexivity.
Qed.

Lemma hexec_one : forall o b, hexec [o] b = hrun_op o b.
Proof. intros. cbn [hexec]. destruct (hrun_op o b) as [b' [e|]]; reflexivity. Qed.

Lemma hexec_two : forall o1 o2 b,
  hexec [o1; o2] b = match hrun_op o1 b with (b', None) => hrun_op o2 b' | res => res end.
Proof. intros. cbn [hexec]. destruct (hrun_op o1 b) as [b' [e|]]; [reflexivity|]. destruct (hrun_op o2 b') as [b2 [e|]]; reflexivity. Qed.

Lemma script_children_states : forall pre suf k f b,
  hexec (pre ++ HAddStates [rekey k f] :: suf) b = hexec (pre ++ HAddStates [f] :: suf) b.
Proof.
  intros. apply (hexec_replace pre _ [HAddStates [f]] suf b). intros b1 _.
  rewrite hexec_one, !run_one_form, children_states. reflexivity.
Qed.

Lemma script_names_dict : forall pre suf t b, wf_pt t = true ->
  (forall b1, hexec pre b = (b1, None) -> has_child (hb_states b1) (pt_name t) = false) ->
  hexec (pre ++ HAddStates [dict_of t] :: suf) b =
  hexec (pre ++ map (fun f => HAddStates [f]) (names_of t) ++ suf) b.
Proof.
  intros pre suf t b W Fr. apply hexec_replace. intros b1 E.
  rewrite run_one_form, hexec_singles. destruct b1 as [i ds es]. unfold hb_scope. cbn [hb_ignore hb_states hb_events].
  rewrite (names_eq_dict i t W ds es (Fr _ E)). reflexivity.
Qed.

Lemma script_embed_dict : forall pre suf n a s b, wf_sub s = true ->
  hexec (pre ++ HAddStates [HEmbed n a s []] :: suf) b =
  hexec (pre ++ HAddStates [HDict n (with_initial a (sub_initial s)) true (map form_of (sub_states s))
                                  (flat_events (sub_events s))] :: suf) b.
Proof.
  intros pre suf n a s b W.
  apply (hexec_replace pre _ [HAddStates [HDict n (with_initial a (sub_initial s)) true (map form_of (sub_states s))
                                               (flat_events (sub_events s))]] suf b).
  intros b1 _. rewrite hexec_one, !run_one_form, (embed_is_dict _ _ _ _ _ W). reflexivity.
Qed.

Lemma script_embed_remap : forall pre suf n a s remap b, wf_sub s = true ->
  hexec (pre ++ HAddStates [HEmbed n a s remap] :: suf) b =
  hexec (pre ++ [HAddStates [HEmbed n a (kept_sub remap s) []];
                 HAddTransitions (moved_events n remap (sub_events s))] ++ suf) b.
Proof.
  intros pre suf n a s remap b W. apply hexec_replace. intros b1 _.
  rewrite hexec_two, !run_one_form, (embed_remap _ _ _ _ _ _ W). cbv zeta.
  destruct (add_form (hb_ignore b1) (HEmbed n a (kept_sub remap s) []) (hb_scope b1)) as [[ds' es'] e] eqn:E.
  assert (e = None).
  { rewrite add_form_embed in E. cbv zeta in E.
    destruct (add_objs _ []) as [cds [x|]] eqn:O in E.
    - exfalso. cbn [kept_sub sub_states remap_keys map existsb negb] in O. rewrite filter_true in O.
      unfold wf_sub in W. apply andb_prop in W. destruct W as [W _]. apply andb_prop in W. destruct W as [W _].
      apply andb_prop in W. destruct W as [W1 _].
      pose proof (add_objs_id _ [] (nodup_names_filter (fun d => negb (existsb (Nat.eqb (sd_name d)) (remap_keys remap))) _ W1)
                    (fun _ _ => eq_refl)) as O2.
      rewrite O2 in O. discriminate.
    - injection E as _ _ E3. symmetry. exact E3. }
  subst e. cbn [fst snd]. destruct b1 as [i ds es]. reflexivity.
Qed.

(* ------------------------------------------------------------------ remove_transition with a
   source / dest filter removes exactly the transitions with that absolute source / dest *)
Lemma peqb_eq : forall a b, peqb a b = true <-> a = b.
Proof.
  induction a as [|x r IH]; intros [|y s]; simpl; split; intros H; try reflexivity; try discriminate.
  - apply andb_prop in H. destruct H as [H1 H2]. apply Nat.eqb_eq in H1. apply IH in H2. subst. reflexivity.
  - injection H as -> ->. rewrite Nat.eqb_refl. apply IH. reflexivity.
Qed.

Lemma peqb_neq : forall a b, a <> b -> peqb a b = false.
Proof. intros a b H. destruct (peqb a b) eqn:E; [|reflexivity]. apply peqb_eq in E. contradiction. Qed.

Lemma peqb_app_l : forall q a b, peqb (q ++ a) (q ++ b) = peqb a b.
Proof. induction q as [|x r IH]; intros; simpl; [reflexivity|]. rewrite Nat.eqb_refl. apply IH. Qed.

(* p' is the filter p seen from the scope with absolute path Q *)
Definition rel (Q p p' : path) : Prop := (p = [] /\ p' = []) \/ (p' <> [] /\ p = Q ++ p').

Lemma is_nil_app : forall (q p : path), p <> [] -> is_nil (q ++ p) = false.
Proof. intros q p H. destruct q; simpl; [destruct p; [congruence|reflexivity]|reflexivity]. Qed.

Lemma match_rel : forall Q sp dp sp' dp' t, rel Q sp sp' -> rel Q dp dp' ->
  rem_match sp' dp' t = abs_match Q sp dp t.
Proof.
  intros Q sp dp sp' dp' t [[-> ->]|[Hs ->]] [[-> ->]|[Hd ->]]; unfold rem_match, abs_match; simpl.
  - reflexivity.
  - rewrite (is_nil_app Q dp' Hd). destruct dp' as [|x r]; [congruence|]. simpl is_nil.
    destruct (ht_dst t); [rewrite peqb_app_l|]; reflexivity.
  - rewrite (is_nil_app Q sp' Hs). destruct sp' as [|x r]; [congruence|]. simpl is_nil.
    rewrite peqb_app_l. reflexivity.
  - rewrite (is_nil_app Q sp' Hs), (is_nil_app Q dp' Hd).
    destruct sp' as [|x r]; [congruence|]. destruct dp' as [|y u]; [congruence|]. simpl is_nil.
    rewrite peqb_app_l. destruct (ht_dst t); [rewrite peqb_app_l|]; reflexivity.
Qed.

Lemma rem_evs_none : forall m trig evs, nonempty_events evs = true ->
  (forall e ts t, In (e, ts) evs -> In t ts -> m t = false) -> rem_evs m trig evs = evs.
Proof.
  intros m trig evs. induction evs as [|[e ts] r IH]; intros N H; simpl in *; [reflexivity|].
  apply andb_prop in N. destruct N as [N1 N2].
  destruct (Nat.eqb trig e).
  - assert (F : filter (fun t => negb (m t)) ts = ts).
    { assert (Ht : forall t, In t ts -> m t = false) by (intros t Hin; apply (H e ts t); [left; reflexivity|exact Hin]).
      clear -Ht. induction ts as [|t l IHl]; simpl; [reflexivity|].
      rewrite (Ht t (or_introl eq_refl)). simpl. rewrite IHl; [reflexivity|]. intros x Hx. apply Ht. right. exact Hx. }
    rewrite F. destruct ts; [discriminate|reflexivity].
  - rewrite IH; [reflexivity|exact N2|]. intros e0 ts0 t Hin Ht. apply (H e0 ts0 t); [right; exact Hin|exact Ht].
Qed.

Lemma wfp_evs_in : forall evs e ts t, wfp_evs evs = true -> In (e, ts) evs -> In t ts -> wfp_t t = true.
Proof.
  intros evs e ts t W Hin Ht. unfold wfp_evs in W. apply andb_prop in W. destruct W as [_ W].
  rewrite forallb_forall in W. specialize (W _ Hin). simpl in W. rewrite forallb_forall in W. apply W. exact Ht.
Qed.

(* nothing below the scope P ++ [..] matches: the subtree is unchanged *)
Lemma filt_id : forall trig sp dp c P, wfp_d c = true ->
  (forall X t, wfp_t t = true -> abs_match ((P ++ [sd_name c]) ++ X) sp dp t = false) ->
  filt_d trig sp dp P c = c.
Proof.
  intros trig sp dp c. induction c as [n en ex onf fin ign ini evs ch IH] using sdefn_ind2; intros P W H.
  simpl in W. apply andb_prop in W. destruct W as [W1 W2]. simpl sd_name in H.
  simpl. f_equal.
  - apply rem_evs_none.
    + unfold wfp_evs in W1. apply andb_prop in W1. apply W1.
    + intros e ts t Hin Ht. specialize (H [] t (wfp_evs_in _ _ _ _ W1 Hin Ht)). rewrite app_nil_r in H. exact H.
  - induction IH as [|c r Hc Fr IHr]; simpl in *; [reflexivity|].
    apply andb_prop in W2. destruct W2 as [W3 W4]. rewrite (IHr W4). f_equal.
    apply Hc; [exact W3|]. intros X t Wt. specialize (H (sd_name c :: X) t Wt).
    rewrite <- app_assoc in *. simpl in *. rewrite <- app_assoc. exact H.
Qed.

Lemma app_longer : forall (a x : path), x <> [] -> a ++ x <> a.
Proof.
  intros a x Hx E. assert (L : length (a ++ x) = length a) by (rewrite E; reflexivity).
  rewrite app_length in L. destruct x; [congruence|]. simpl in L. lia.
Qed.

Lemma wfp_src : forall t, wfp_t t = true -> ht_src t <> [].
Proof. intros t W. unfold wfp_t in W. apply andb_prop in W. destruct W as [W _]. destruct (ht_src t); [discriminate|congruence]. Qed.
Lemma wfp_dst : forall t d, wfp_t t = true -> ht_dst t = Some d -> d <> [].
Proof. intros t d W E. unfold wfp_t in W. rewrite E in W. apply andb_prop in W. destruct W as [_ W]. destruct d; [discriminate|congruence]. Qed.

(* a skipped child: no transition below it can match *)
Lemma skipped_no_match : forall P c sp dp sp' dp' X t,
  rel P sp sp' -> rel P dp dp' -> rem_skip c sp' dp' = true -> wfp_t t = true ->
  abs_match ((P ++ [c]) ++ X) sp dp t = false.
Proof.
  intros P c sp dp sp' dp' X t Rs Rd K W. unfold rem_skip in K. unfold abs_match.
  assert (SrcNo : forall r, sp = P ++ r -> (r = [c] \/ not_head c r = true) -> r <> [] ->
            is_nil sp || peqb (((P ++ [c]) ++ X) ++ ht_src t) sp = false).
  { intros r -> Hr Hne. rewrite (is_nil_app P r Hne). simpl. apply peqb_neq. intros E.
    rewrite <- !app_assoc in E. apply app_inv_head in E. destruct Hr as [->|Hr].
    - simpl in E. injection E as E. pose proof (wfp_src t W). destruct X; simpl in E; [congruence|discriminate].
    - destruct r as [|h r']; [discriminate|]. simpl in Hr, E. injection E as E1 _. subst h.
      rewrite Nat.eqb_refl in Hr. discriminate. }
  assert (DstNo : forall r, dp = P ++ r -> (r = [c] \/ not_head c r = true) -> r <> [] ->
            is_nil dp || match ht_dst t with Some d => peqb (((P ++ [c]) ++ X) ++ d) dp | None => false end = false).
  { intros r -> Hr Hne. rewrite (is_nil_app P r Hne). simpl. destruct (ht_dst t) as [d|] eqn:D; [|reflexivity].
    apply peqb_neq. intros E.
    rewrite <- !app_assoc in E. apply app_inv_head in E. destruct Hr as [->|Hr].
    - simpl in E. injection E as E. pose proof (wfp_dst t d W D). destruct X; simpl in E; [congruence|discriminate].
    - destruct r as [|h r']; [discriminate|]. simpl in Hr, E. injection E as E1 _. subst h.
      rewrite Nat.eqb_refl in Hr. discriminate. }
  apply orb_prop in K. destruct K as [K|K]; [apply orb_prop in K; destruct K as [K|K]; [apply orb_prop in K; destruct K as [K|K]|]|].
  - apply peqb_eq in K. destruct Rs as [[_ ->]|[Hne ->]]; [discriminate|].
    rewrite (SrcNo sp' eq_refl (or_introl K) Hne). reflexivity.
  - apply peqb_eq in K. destruct Rd as [[_ ->]|[Hne ->]]; [discriminate|].
    rewrite (DstNo dp' eq_refl (or_introl K) Hne). apply andb_false_r.
  - destruct Rs as [[_ ->]|[Hne ->]]; [discriminate|].
    rewrite (SrcNo sp' eq_refl (or_intror K) Hne). reflexivity.
  - destruct Rd as [[_ ->]|[Hne ->]]; [discriminate|].
    rewrite (DstNo dp' eq_refl (or_intror K) Hne). apply andb_false_r.
Qed.

Lemma rel_strip : forall P c p p', rel P p p' -> peqb p' [c] = false -> not_head c p' = false ->
  rel (P ++ [c]) p (rem_strip c p').
Proof.
  intros P c p p' [[-> ->]|[Hne ->]] K1 K2.
  - left. split; reflexivity.
  - destruct p' as [|h r]; [congruence|]. simpl in K2. apply negb_false_iff in K2. apply Nat.eqb_eq in K2. subst h.
    right. simpl. rewrite Nat.eqb_refl. split.
    + intros ->. simpl in K1. rewrite Nat.eqb_refl in K1. discriminate.
    + rewrite <- app_assoc. reflexivity.
Qed.

Lemma child_step : forall trig c P sp dp sp' dp', wfp_d c = true -> rel P sp sp' -> rel P dp dp' ->
  (forall Q s' d', rel (Q ++ [sd_name c]) sp s' -> rel (Q ++ [sd_name c]) dp d' ->
                   rem_d trig s' d' c = filt_d trig sp dp Q c) ->
  (if rem_skip (sd_name c) sp' dp' then c
   else rem_d trig (rem_strip (sd_name c) sp') (rem_strip (sd_name c) dp') c) = filt_d trig sp dp P c.
Proof.
  intros trig c P sp dp sp' dp' W Rs Rd IH. destruct (rem_skip (sd_name c) sp' dp') eqn:K.
  - symmetry. apply filt_id; [exact W|]. intros X t Wt. eapply skipped_no_match; eassumption.
  - unfold rem_skip in K. apply orb_false_elim in K. destruct K as [K K4]. apply orb_false_elim in K. destruct K as [K K3].
    apply orb_false_elim in K. destruct K as [K1 K2].
    apply IH; apply rel_strip; assumption.
Qed.

Lemma rem_d_abs : forall trig sp dp d Q sp' dp', wfp_d d = true ->
  rel (Q ++ [sd_name d]) sp sp' -> rel (Q ++ [sd_name d]) dp dp' ->
  rem_d trig sp' dp' d = filt_d trig sp dp Q d.
Proof.
  intros trig sp dp d. induction d as [n en ex onf fin ign ini evs ch IH] using sdefn_ind2; intros Q sp' dp' W Rs Rd.
  simpl in W. apply andb_prop in W. destruct W as [W1 W2]. simpl sd_name in *.
  simpl. f_equal.
  - induction evs as [|[e ts] r IHe]; [reflexivity|]. simpl. clear IHe.
    assert (E : forall l, filter (fun t => negb (rem_match sp' dp' t)) l = filter (fun t => negb (abs_match (Q ++ [n]) sp dp t)) l).
    { intros l. apply filter_ext. intros t. rewrite (match_rel _ _ _ _ _ t Rs Rd). reflexivity. }
    assert (G : forall l, rem_evs (rem_match sp' dp') trig l = rem_evs (abs_match (Q ++ [n]) sp dp) trig l).
    { induction l as [|[e0 ts0] l' IHl]; simpl; [reflexivity|]. rewrite E, IHl. reflexivity. }
    rewrite (G r), E. reflexivity.
  - induction IH as [|c r Hc Fr IHr]; simpl in *; [reflexivity|].
    apply andb_prop in W2. destruct W2 as [W3 W4]. rewrite (IHr W4). f_equal.
    apply child_step; try assumption. intros Q0 s' d' R1 R2. apply Hc; assumption.
Qed.

Lemma rel_root : forall p, rel [] p p.
Proof. intros [|x r]; [left; split; reflexivity|right; split; [discriminate|reflexivity]]. Qed.

(* THE LAW that the scope-wise matching used to refute (D46, fixed): remove_transition(trigger,
   source, dest) = deleting, in every scope, exactly the transitions whose absolute source
   and destination are the given paths *)
Lemma remove_is_absolute_filter : forall trig sp dp sc, wfp_scope sc = true ->
  rem_scope trig sp dp sc = filt_scope trig sp dp sc.
Proof.
  intros trig sp dp [ds evs] W. unfold wfp_scope in W. simpl in W. apply andb_prop in W. destruct W as [W1 W2].
  unfold rem_scope, filt_scope. cbn [fst snd]. f_equal.
  - unfold rem_children. induction ds as [|c r IH]; simpl in *; [reflexivity|].
    apply andb_prop in W1. destruct W1 as [W3 W4]. rewrite (IH W4). f_equal.
    apply child_step; try assumption; try apply rel_root.
    intros Q s' d' R1 R2. apply rem_d_abs; assumption.
Qed.

(* hence: transitions added (globally) from sp to dp and removed again by that filter, on a
   machine in which nothing else has that absolute source and destination: the machine is
   exactly the one before *)
Lemma rem_add_same : forall m trig l evs,
  rem_evs m trig evs = evs ->
  Forall (fun p => fst p = trig /\ m (snd p) = true) l ->
  rem_evs m trig (add_hts l evs) = evs.
Proof.
  intros m trig l evs. revert l. induction evs as [|[e ts] r IH]; intros l H F.
  - destruct l as [|[e0 t0] l']; [reflexivity|].
    pose proof (Forall_inv F) as HF0. pose proof (Forall_inv_tail F) as F'. destruct HF0 as [E0 M0]. simpl in E0, M0. subst e0. unfold add_hts. simpl fold_left.
    assert (G : forall l ts, Forall (fun p => fst p = trig /\ m (snd p) = true) l ->
                 Forall (fun t => m t = true) ts ->
                 rem_evs m trig (fold_left (fun e p => add_ht (fst p) (snd p) e) l [(trig, ts)]) = []).
    { intros l0. induction l0 as [|[e1 t1] l1 IHl]; intros ts0 Fl Ft; simpl.
      - rewrite Nat.eqb_refl.
        assert (N : filter (fun t => negb (m t)) ts0 = []).
        { clear -Ft. induction Ft as [|t l Ht Fl IHl]; simpl; [reflexivity|]. rewrite Ht. exact IHl. }
        rewrite N. reflexivity.
      - pose proof (Forall_inv Fl) as HF1. pose proof (Forall_inv_tail Fl) as Fl'. destruct HF1 as [E1 M1]. simpl in E1, M1. subst e1. simpl. rewrite Nat.eqb_refl.
        apply IHl; [exact Fl'|].
        apply Forall_app. split; [exact Ft|constructor; [exact M1|constructor]]. }
    apply G; [exact F'|constructor; [exact M0|constructor]].
  - simpl in H. destruct (Nat.eqb trig e) eqn:E.
    + apply Nat.eqb_eq in E. subst e.
      assert (Hts : filter (fun t => negb (m t)) ts = ts /\ ts <> []).
      { destruct (is_nil (filter (fun t => negb (m t)) ts)) eqn:N.
        - exfalso. assert (L : length r = length ((trig, ts) :: r)) by (rewrite <- H at 1; reflexivity). simpl in L. lia.
        - injection H as H. split; [exact H|]. intros ->. discriminate. }
      destruct Hts as [Hf Hne].
      assert (G : forall l ts0, Forall (fun p => fst p = trig /\ m (snd p) = true) l ->
                   filter (fun t => negb (m t)) ts0 = ts ->
                   rem_evs m trig (add_hts l ((trig, ts0) :: r)) = (trig, ts) :: r).
      { unfold add_hts. intros l0. induction l0 as [|[e1 t1] l1 IHl]; intros ts0 Fl Hf0; simpl.
        - rewrite Nat.eqb_refl, Hf0. destruct ts; [congruence|reflexivity].
        - pose proof (Forall_inv Fl) as HF1. pose proof (Forall_inv_tail Fl) as Fl'. destruct HF1 as [E1 M1]. simpl in E1, M1. subst e1. rewrite Nat.eqb_refl.
          apply IHl; [exact Fl'|]. rewrite filter_app. simpl. simpl in M1. rewrite M1. simpl. rewrite app_nil_r. exact Hf0. }
      apply G; assumption.
    + injection H as H.
      assert (G : forall l r0, Forall (fun p => fst p = trig /\ m (snd p) = true) l ->
                   add_hts l ((e, ts) :: r0) = (e, ts) :: add_hts l r0).
      { unfold add_hts. intros l0. induction l0 as [|[e1 t1] l1 IHl]; intros r0 Fl; simpl; [reflexivity|].
        pose proof (Forall_inv Fl) as HF1. pose proof (Forall_inv_tail Fl) as Fl'. destruct HF1 as [E1 M1]. simpl in E1, M1. subst e1. rewrite E. apply IHl. exact Fl'. }
      rewrite (G l r F). simpl. rewrite E. f_equal. apply IH; assumption.
Qed.

Lemma remove_filter_inverse : forall trig sp dp l b,
  wfp_scope (hb_scope b) = true ->
  filt_scope trig sp dp (hb_scope b) = hb_scope b ->
  Forall (fun p => fst p = trig /\ abs_match [] sp dp (snd p) = true) l ->
  hexec [HAddTransitions l; HRemove trig sp dp] b = (b, None).
Proof.
  intros trig sp dp l [ign ds evs] W Fx Fm. rewrite hexec_two. simpl hrun_op.
  unfold hb_scope, hb_with in *. cbn [hb_ignore hb_states hb_events fst snd] in *.
  unfold filt_scope in Fx. cbn [fst snd] in Fx. injection Fx as F1 F2.
  unfold wfp_scope in W. cbn [fst snd] in W. apply andb_prop in W. destruct W as [W1 W2].
  assert (C : rem_children trig sp dp ds = ds).
  { pose proof (remove_is_absolute_filter trig sp dp (ds, [])) as R. unfold wfp_scope in R. cbn [fst snd] in R.
    rewrite W1 in R. specialize (R eq_refl). unfold rem_scope, filt_scope in R. cbn [fst snd] in R.
    injection R as R. rewrite R. exact F1. }
  unfold rem_scope. cbn [fst snd]. rewrite C.
  rewrite (rem_add_same (rem_match sp dp) trig l evs); [reflexivity|exact F2|exact Fm].
Qed.

(* the former counterexample (states s1 and s2{s1, s3}; s2 declares e0: s1 -> s3): nothing has
   the absolute source s1, so remove_transition('e0', source='s1') leaves the machine alone *)
Definition quirk_machine : hbm :=
  fst (hexec [HAddStates [HName [1] (mkHA [] [] [] false None []);
                          HDict 2 (mkHA [] [] [] false None []) true
                                [HName [1] (mkHA [] [] [] false None []); HName [3] (mkHA [] [] [] false None [])]
                                [(0, mkHT [1] (Some [3]) [] [] [] [])]];
               HAddTransitions [(0, mkHT [2; 3] (Some [1]) [] [] [] [])]] (hempty None)).

Lemma remove_scope_example : hrun_op (HRemove 0 [1] []) quirk_machine = (quirk_machine, None).
Proof. vm_compute. reflexivity. Qed.
