(* PickleP.v — lemmas about Model/Pickle.v (C15). *)
From Coq Require Import List Arith Bool Lia.
From M Require Import Pickle.
Import ListNotations.

(* ----------------------------------------------------------------- booleans and lists *)
Lemma nmem_In : forall n l, nmem n l = true <-> In n l.
Proof.
  induction l as [|k r IH]; simpl.
  - split; [discriminate | tauto].
  - rewrite orb_true_iff, IH, Nat.eqb_eq. split; intros [H|H]; auto.
Qed.

Lemma nmem_false : forall n l, nmem n l = false <-> ~ In n l.
Proof.
  intros n l. split.
  - intros H Hin. apply nmem_In in Hin. congruence.
  - intro H. destruct (nmem n l) eqn:E; [|reflexivity]. apply nmem_In in E. contradiction.
Qed.

Lemma nodupb_NoDup : forall l, nodupb l = true <-> NoDup l.
Proof.
  induction l as [|k r IH]; simpl.
  - split; [constructor | reflexivity].
  - rewrite andb_true_iff, negb_true_iff, nmem_false, IH. split.
    + intros [H1 H2]; constructor; assumption.
    + intro H; inversion H; auto.
Qed.

Lemma inj_onb_spec : forall f l, inj_onb f l = true ->
  forall a b, In a l -> In b l -> f a = f b -> a = b.
Proof.
  unfold inj_onb. intros f l H a b Ha Hb Hf.
  rewrite forallb_forall in H. specialize (H a Ha). rewrite forallb_forall in H. specialize (H b Hb).
  rewrite Hf, Nat.eqb_refl in H. simpl in H. apply Nat.eqb_eq. exact H.
Qed.

Lemma NoDup_map_inj : forall (f : nat -> nat) l,
  (forall a b, In a l -> In b l -> f a = f b -> a = b) -> NoDup l -> NoDup (map f l).
Proof.
  induction l as [|x r IH]; intros Hinj Hnd; simpl; [constructor|].
  inversion Hnd as [|? ? Hx Hr]; subst. constructor.
  - intro Hin. apply in_map_iff in Hin. destruct Hin as [y [Hy Hyr]].
    assert (y = x) by (apply Hinj; simpl; auto). subst. contradiction.
  - apply IH; [|assumption]. intros a b Ha Hb. apply Hinj; simpl; auto.
Qed.

(* ----------------------------------------------------------------- tables *)
Section TabP.
  Context {A : Type}.
  Implicit Types t : list (ident * A).

  Lemma lookup_app : forall t1 t2 i,
    lookup (t1 ++ t2) i = match lookup t1 i with Some v => Some v | None => lookup t2 i end.
  Proof.
    induction t1 as [|[k v] r IH]; intros; simpl; [reflexivity|].
    destruct (Nat.eqb i k); [reflexivity | apply IH].
  Qed.

  Lemma lookup_notin : forall t i, ~ In i (keys t) -> lookup t i = None.
  Proof.
    induction t as [|[k v] r IH]; intros i H; simpl; [reflexivity|].
    simpl in H. destruct (Nat.eqb i k) eqn:E.
    - apply Nat.eqb_eq in E. subst. exfalso; apply H; auto.
    - apply IH. intro; apply H; auto.
  Qed.

  Lemma lookup_some_in : forall t i v, lookup t i = Some v -> In i (keys t).
  Proof.
    induction t as [|[k w] r IH]; intros i v H; simpl in *; [discriminate|].
    destruct (Nat.eqb i k) eqn:E.
    - apply Nat.eqb_eq in E; auto.
    - right; eapply IH; eauto.
  Qed.

  Lemma lookup_filter : forall (M : list nat) t i,
    lookup (filter (fun e => nmem (fst e) M) t) i = if nmem i M then lookup t i else None.
  Proof.
    induction t as [|[k v] r IH]; intros i; simpl.
    - destruct (nmem i M); reflexivity.
    - destruct (nmem k M) eqn:Ek; simpl.
      + destruct (Nat.eqb i k) eqn:E.
        * apply Nat.eqb_eq in E; subst. rewrite Ek. reflexivity.
        * apply IH.
      + destruct (Nat.eqb i k) eqn:E.
        * apply Nat.eqb_eq in E; subst. rewrite IH, Ek. reflexivity.
        * apply IH.
  Qed.

  Lemma lookup_map_inj : forall {B} (f : ident -> ident) (g : A -> B) t i,
    (forall k, In k (keys t) -> f k = f i -> k = i) ->
    lookup (map (fun e => (f (fst e), g (snd e))) t) (f i) = option_map g (lookup t i).
  Proof.
    induction t as [|[k v] r IH]; intros i H; simpl; [reflexivity|].
    destruct (Nat.eqb (f i) (f k)) eqn:E.
    - apply Nat.eqb_eq in E. assert (k = i) by (apply H; simpl; auto). subst.
      rewrite Nat.eqb_refl. reflexivity.
    - destruct (Nat.eqb i k) eqn:E2.
      + apply Nat.eqb_eq in E2; subst. rewrite Nat.eqb_refl in E. discriminate.
      + apply IH. intros k' Hk'. apply H. simpl; auto.
  Qed.

  Lemma keys_app : forall t1 t2, keys (t1 ++ t2) = keys t1 ++ keys t2.
  Proof. intros; unfold keys; apply map_app. Qed.

  Lemma tset_notin : forall t i v, ~ In i (keys t) -> tset t i v = t ++ [(i, v)].
  Proof.
    induction t as [|[k w] r IH]; intros i v H; simpl; [reflexivity|].
    simpl in H. destruct (Nat.eqb i k) eqn:E.
    - apply Nat.eqb_eq in E; subst. exfalso; apply H; auto.
    - rewrite IH; [reflexivity|]. intro; apply H; auto.
  Qed.

  Lemma build_acc : forall {B} (f : B -> ident) (g : B -> A) l acc,
    NoDup (map f l) -> (forall x, In x l -> ~ In (f x) (keys acc)) ->
    fold_left (fun t x => tset t (f x) (g x)) l acc = acc ++ map (fun x => (f x, g x)) l.
  Proof.
    induction l as [|x r IH]; intros acc Hnd Hd; simpl.
    - rewrite app_nil_r; reflexivity.
    - inversion Hnd as [|? ? Hx Hr]; subst.
      rewrite tset_notin by (apply Hd; simpl; auto).
      rewrite IH; [rewrite <- app_assoc; reflexivity | assumption |].
      intros y Hy. rewrite keys_app. simpl. intro Hin. apply in_app_or in Hin. destruct Hin as [Hin|[Hin|[]]].
      + apply (Hd y); simpl; auto.
      + apply Hx. rewrite Hin. apply in_map. assumption.
  Qed.

  Lemma build_nodup : forall {B} (f : B -> ident) (g : B -> A) l,
    NoDup (map f l) -> build f g l = map (fun x => (f x, g x)) l.
  Proof.
    intros. unfold build. rewrite build_acc; [reflexivity | assumption |]. intros x _ [].
  Qed.

  Lemma lookup_map_key : forall (g : ident -> A) l i,
    In i l -> lookup (map (fun x => (x, g x)) l) i = Some (g i).
  Proof.
    induction l as [|x r IH]; intros i H; simpl; [destruct H|].
    destruct (Nat.eqb i x) eqn:E.
    - apply Nat.eqb_eq in E; subst; reflexivity.
    - destruct H as [H|H]; [subst; rewrite Nat.eqb_refl in E; discriminate | apply IH; assumption].
  Qed.

  Lemma keys_map_key : forall (g : ident -> A) l, keys (map (fun x => (x, g x)) l) = l.
  Proof. induction l; simpl; [reflexivity | f_equal; assumption]. Qed.

  Lemma lookup_upd : forall t i v j,
    lookup (upd t i v) j = if Nat.eqb j i then option_map (fun _ => v) (lookup t j) else lookup t j.
  Proof.
    induction t as [|[k w] r IH]; intros i v j; simpl.
    - destruct (Nat.eqb j i); reflexivity.
    - destruct (Nat.eqb k i) eqn:Eki; simpl.
      + destruct (Nat.eqb j k) eqn:Ejk.
        * apply Nat.eqb_eq in Ejk; subst. rewrite Eki. reflexivity.
        * rewrite IH. reflexivity.
      + destruct (Nat.eqb j k) eqn:Ejk.
        * apply Nat.eqb_eq in Ejk; subst. rewrite Eki. reflexivity.
        * rewrite IH. reflexivity.
  Qed.

  Lemma keys_upd : forall t i v, keys (upd t i v) = keys t.
  Proof.
    induction t as [|[k w] r IH]; intros; simpl; [reflexivity|].
    destruct (Nat.eqb k i); simpl; f_equal; apply IH.
  Qed.

  Lemma keys_tset_incl : forall t i v k, In k (keys (tset t i v)) -> k = i \/ In k (keys t).
  Proof.
    induction t as [|[k0 w] r IH]; intros i v k H; simpl in *.
    - destruct H as [H|[]]; auto.
    - destruct (Nat.eqb i k0) eqn:E; simpl in H.
      + right; assumption.
      + destruct H as [H|H]; [right; left; assumption|].
        apply IH in H. destruct H; auto.
  Qed.

  Lemma keys_tdel_incl : forall t i k, In k (keys (tdel t i)) -> In k (keys t) /\ k <> i.
  Proof.
    intros t i k H. unfold tdel, keys in *. apply in_map_iff in H. destruct H as [[a b] [Hk Hin]].
    apply filter_In in Hin. destruct Hin as [Hin Hneq]. simpl in *. subst. split.
    - apply in_map_iff. exists (k, b); auto.
    - apply negb_true_iff in Hneq. apply Nat.eqb_neq in Hneq. auto.
  Qed.
End TabP.

Lemma lookup_list_map_key : forall {A} (g : ident -> list A) l i,
  In i l -> lookup_list (map (fun x => (x, g x)) l) i = g i.
Proof. intros. unfold lookup_list. rewrite lookup_map_key by assumption. reflexivity. Qed.

Lemma in_lookup_list : forall {A} (t : list (ident * list A)) i x,
  In x (lookup_list t i) -> In x (concat (map snd t)).
Proof.
  induction t as [|[k v] r IH]; intros i x H; unfold lookup_list in *; simpl in *; [destruct H|].
  apply in_or_app. destruct (Nat.eqb i k); [left; assumption | right; eapply IH; eauto].
Qed.

(* ----------------------------------------------------------------- the finite class table *)
Definition the12 : list cls :=
  [ mkCls false false false false; mkCls false false true false; mkCls false true false false;
    mkCls false true true false; mkCls true false false false; mkCls true false true false;
    mkCls true true false false; mkCls true true true false; mkCls false false false true;
    mkCls true false false true; mkCls false true false true; mkCls true true false true ].

Lemma hooks_table :
  map (fun k => hooks_code (effective_hooks k)) the12 = [0; 1; 0; 1; 2; 3; 2; 3; 4; 5; 4; 5].
Proof. reflexivity. Qed.

Section PickleP.
  Variables C S G : Type.
  Variable render : C -> option S -> G.
  Notation machine := (machine C G).
  Notation world := (world S).

  (* ------------------------------------------------------------- copies of objects in the new world *)
  Lemma model_copy : forall (rm : ident -> ident) (w : world) (M : list ident) i,
    (forall a b, In a M -> In b M -> rm a = rm b -> a = b) ->
    In i M -> ~ In (rm i) (keys (w_models w)) ->
    lookup (w_models w ++ map (fun e => (rm (fst e), snd e))
                              (filter (fun e => nmem (fst e) M) (w_models w))) (rm i)
    = lookup (w_models w) i.
  Proof.
    intros rm w M i Hinj Hi Hfresh.
    rewrite lookup_app, (lookup_notin _ _ Hfresh).
    rewrite (lookup_map_inj rm (fun o => o)).
    - rewrite lookup_filter. apply nmem_In in Hi. rewrite Hi. destruct (lookup (w_models w) i); reflexivity.
    - intros k Hk Hf. apply Hinj; [| assumption | assumption].
      unfold keys in Hk. apply in_map_iff in Hk. destruct Hk as [[a b] [Ha Hin]]. apply filter_In in Hin.
      simpl in *. subst. apply nmem_In. tauto.
  Qed.

  Lemma lock_copy : forall (rl : ident -> ident) (w : world) (R : list ident) l,
    (forall a b, In a R -> In b R -> rl a = rl b -> a = b) ->
    In l R -> ~ In (rl l) (keys (w_locks w)) ->
    lookup (w_locks w ++ map (fun e => (rl (fst e), transport_lock (snd e)))
                             (filter (fun e => nmem (fst e) R) (w_locks w))) (rl l)
    = option_map transport_lock (lookup (w_locks w) l).
  Proof.
    intros rl w R l Hinj Hl Hfresh.
    rewrite lookup_app, (lookup_notin _ _ Hfresh).
    rewrite (lookup_map_inj rl transport_lock).
    - rewrite lookup_filter. apply nmem_In in Hl. rewrite Hl. reflexivity.
    - intros k Hk Hf. apply Hinj; [| assumption | assumption].
      unfold keys in Hk. apply in_map_iff in Hk. destruct Hk as [[a b] [Ha Hin]]. apply filter_In in Hin.
      simpl in *. subst. apply nmem_In. tauto.
  Qed.

  (* objects of the old world are untouched by the snapshot *)
  Lemma old_objects_kept : forall rm rl (w w' : world) (m m' : machine),
    snapshot render rm rl w m = Some (w', m') ->
    (forall i, In i (keys (w_models w)) -> lookup (w_models w') i = lookup (w_models w) i) /\
    (forall l, In l (keys (w_locks w)) -> lookup (w_locks w') l = lookup (w_locks w) l).
  Proof.
    intros rm rl w w' m m' H. unfold snapshot in H. destruct (getstate w m) as [p|]; [|discriminate].
    inversion H; subst; clear H. simpl. split; intros x Hx; rewrite lookup_app.
    - destruct (lookup (w_models w) x) eqn:E; [reflexivity|].
      exfalso. revert Hx E. clear. induction (w_models w) as [|[k v] r IH]; simpl; intros Hx E; [destruct Hx|].
      destruct (Nat.eqb x k) eqn:E2; [discriminate|]. destruct Hx as [Hx|Hx]; [subst; rewrite Nat.eqb_refl in E2; discriminate|].
      apply IH; assumption.
    - destruct (lookup (w_locks w) x) eqn:E; [reflexivity|].
      exfalso. revert Hx E. clear. induction (w_locks w) as [|[k v] r IH]; simpl; intros Hx E; [destruct Hx|].
      destruct (Nat.eqb x k) eqn:E2; [discriminate|]. destruct Hx as [Hx|Hx]; [subst; rewrite Nat.eqb_refl in E2; discriminate|].
      apply IH; assumption.
  Qed.

  (* ------------------------------------------------------------- unfolding [fresh] *)
  Lemma fresh_spec : forall rm rl (w : world) (m : machine), fresh rm rl w m = true ->
    (forall a b, In a (m_models m) -> In b (m_models m) -> rm a = rm b -> a = b) /\
    (forall a b, In a (all_locks m) -> In b (all_locks m) -> rl a = rl b -> a = b) /\
    (forall i, In i (m_models m) -> ~ In (rm i) (keys (w_models w)) /\ ~ In (rm i) (m_models m)) /\
    (forall l, In l (all_locks m) -> ~ In (rl l) (keys (w_locks w)) /\ ~ In (rl l) (all_locks m)).
  Proof.
    intros rm rl w m H. unfold fresh in H. repeat rewrite andb_true_iff in H.
    destruct H as [[[H1 H2] H3] H4]. repeat split.
    - apply inj_onb_spec; assumption.
    - apply inj_onb_spec; assumption.
    - rewrite forallb_forall in H3. specialize (H3 i H). rewrite andb_true_iff in H3.
      destruct H3 as [H3 _]. apply negb_true_iff in H3. apply nmem_false; assumption.
    - rewrite forallb_forall in H3. specialize (H3 i H). rewrite andb_true_iff in H3.
      destruct H3 as [_ H3]. apply negb_true_iff in H3. apply nmem_false; assumption.
    - rewrite forallb_forall in H4. specialize (H4 l H). rewrite andb_true_iff in H4.
      destruct H4 as [H4 _]. apply negb_true_iff in H4. apply nmem_false; assumption.
    - rewrite forallb_forall in H4. specialize (H4 l H). rewrite andb_true_iff in H4.
      destruct H4 as [_ H4]. apply negb_true_iff in H4. apply nmem_false; assumption.
  Qed.

  (* ------------------------------------------------------------- lists of copied references *)
  Definition locks_after (rl : ident -> ident) (w : world) (R : list ident) : list (ident * lobj) :=
    w_locks w ++ map (fun e => (rl (fst e), transport_lock (snd e)))
                     (filter (fun e => nmem (fst e) R) (w_locks w)).
  Definition models_after (rm : ident -> ident) (w : world) (M : list ident) : list (ident * mobj S) :=
    w_models w ++ map (fun e => (rm (fst e), snd e)) (filter (fun e => nmem (fst e) M) (w_models w)).

  Lemma locks_copy_list : forall rl (w : world) (R Rbig L : list ident),
    (forall a b, In a Rbig -> In b Rbig -> rl a = rl b -> a = b) ->
    (forall l, In l Rbig -> ~ In (rl l) (keys (w_locks w))) ->
    (forall l, In l R -> In l Rbig) ->
    (forall l, In l L -> In l R) ->
    map (lookup (locks_after rl w R)) (map rl L) =
    map (option_map transport_lock) (map (lookup (w_locks w)) L).
  Proof.
    intros rl w R Rbig L Hinj Hfr HR HL. rewrite !map_map. apply map_ext_in. intros l Hl.
    unfold locks_after. apply lock_copy.
    - intros a b Ha Hb. apply Hinj; auto.
    - auto.
    - auto.
  Qed.

  Lemma lookup_map_fg : forall {A} (f : ident -> ident) (g : ident -> A) l i,
    In i l -> (forall a b, In a l -> In b l -> f a = f b -> a = b) ->
    lookup (map (fun x => (f x, g x)) l) (f i) = Some (g i).
  Proof.
    induction l as [|x r IH]; intros i Hi Hinj; simpl; [destruct Hi|].
    destruct (Nat.eqb (f i) (f x)) eqn:E.
    - apply Nat.eqb_eq in E. assert (i = x) by (apply Hinj; simpl; auto). subst; reflexivity.
    - destruct Hi as [Hi|Hi]; [subst; rewrite Nat.eqb_refl in E; discriminate|].
      apply IH; [assumption|]. intros a b Ha Hb. apply Hinj; simpl; auto.
  Qed.

  Lemma wf_nil : forall {A} (b : bool) (t : list A),
    b || match t with [] => true | _ => false end = true -> b = false -> t = [].
  Proof. intros A b t H Hb. subst. destruct t; [reflexivity | discriminate]. Qed.

  (* ------------------------------------------------------------- re-keying: contexts (LockedMachine hooks) *)
  (* the table rebuilt by LockedMachine.__setstate__ from the transported list of pairs *)
  Lemma locked_cmap : forall (rm rl : ident -> ident) (cmap : list (ident * list ident)) (ms : list ident),
    NoDup ms -> (forall a b, In a ms -> In b ms -> rm a = rm b -> a = b) ->
    build fst snd (ren_tab rm rl (map (fun i => (i, lookup_list cmap i)) ms))
    = map (fun i => (rm i, map rl (lookup_list cmap i))) ms.
  Proof.
    intros rm rl cmap ms Hnd Hinj. unfold ren_tab. rewrite map_map. simpl.
    rewrite build_nodup.
    - rewrite map_map. simpl. reflexivity.
    - rewrite map_map. simpl. apply NoDup_map_inj; assumption.
  Qed.

  Lemma rekey_contexts : forall rm rl (w w' : world) (m m' : machine),
    wf m = true -> fresh rm rl w m = true ->
    k_locked (m_cls m) = true ->
    snapshot render rm rl w m = Some (w', m') ->
    m_models m' = map rm (m_models m) /\
    m_cmap m' = map (fun i => (rm i, map rl (lookup_list (m_cmap m) i))) (m_models m) /\
    keys (m_cmap m') = m_models m' /\
    (forall i, In i (m_models m) ->
       lookup_list (m_cmap m') (rm i) = map rl (lookup_list (m_cmap m) i)).
  Proof.
    intros rm rl w w' m m' Hwf Hfr Hl Hs.
    destruct (fresh_spec _ _ _ _ Hfr) as [Hinjm [_ [_ _]]].
    destruct m as [[g n l a] c q ms mctx cmap graphs qkeys]. simpl in *. subst l.
    unfold wf in Hwf. simpl in Hwf. repeat rewrite andb_true_iff in Hwf.
    destruct Hwf as [[[[Hnd _] _] _] _]. apply nodupb_NoDup in Hnd.
    assert (Hcm : m_models m' = map rm ms /\
                  m_cmap m' = map (fun i => (rm i, map rl (lookup_list cmap i))) ms).
    { unfold snapshot, getstate in Hs. destruct g; simpl in Hs; inversion Hs; subst; clear Hs;
        unfold setstate, setstate_gen, locked_store; simpl; rewrite locked_cmap by assumption; split; reflexivity. }
    destruct Hcm as [Hm Hcm]. rewrite Hm, Hcm. repeat split.
    - unfold keys. rewrite map_map. simpl. reflexivity.
    - intros i Hi. unfold lookup_list at 1.
      rewrite (lookup_map_fg rm (fun x => map rl (lookup_list cmap x))); auto.
  Qed.

  (* ------------------------------------------------------------- re-keying: graphs (GraphMachine hooks) *)
  Lemma rekey_graphs : forall rm rl (w w' : world) (m m' : machine),
    wf m = true -> fresh rm rl w m = true ->
    k_graph (m_cls m) = true ->
    snapshot render rm rl w m = Some (w', m') ->
    m_models m' = map rm (m_models m) /\
    keys (m_graphs m') = m_models m' /\
    (forall i, In i (m_models m) ->
       lookup (m_graphs m') (rm i) = Some (render (m_cfg m) (state_of w i))).
  Proof.
    intros rm rl w w' m m' Hwf Hfr Hg Hs.
    destruct (fresh_spec _ _ _ _ Hfr) as [Hinjm [_ [Hfrm _]]].
    destruct m as [[g n l a] c q ms mctx cmap graphs qkeys]. simpl in *. subst g.
    unfold wf in Hwf. simpl in Hwf. repeat rewrite andb_true_iff in Hwf.
    destruct Hwf as [[[[Hnd _] _] _] _]. apply nodupb_NoDup in Hnd.
    assert (Hnd' : NoDup (map rm ms)) by (apply NoDup_map_inj; assumption).
    unfold snapshot, getstate in Hs.
    destruct l; simpl in Hs; inversion Hs; subst; clear Hs; unfold setstate, setstate_gen; simpl;
      rewrite (build_nodup (fun i : ident => i)) by (rewrite map_id; assumption);
      (repeat split; [rewrite keys_map_key; reflexivity |
       intros i Hi; rewrite lookup_map_key by (apply in_map; assumption);
       f_equal; f_equal; unfold state_of; simpl; f_equal;
       apply (model_copy rm w ms i); auto; apply Hfrm; assumption]).
  Qed.

  Lemma in_concat_store : forall (cmap : list (ident * list ident)) ms x,
    In x (concat (map (fun i => lookup_list cmap i) ms)) -> In x (concat (map snd cmap)).
  Proof.
    induction ms as [|i r IH]; intros x H; simpl in H; [destruct H|].
    apply in_app_or in H. destruct H as [H|H]; [eapply in_lookup_list; eauto | apply IH; assumption].
  Qed.
  Lemma in_store_concat : forall (cmap : list (ident * list ident)) ms i x,
    In i ms -> In x (lookup_list cmap i) ->
    In x (concat (map (fun i => lookup_list cmap i) ms)).
  Proof.
    induction ms as [|j r IH]; intros i x Hi Hx; simpl; [destruct Hi|].
    apply in_or_app. destruct Hi as [Hi|Hi]; [subst; left; assumption | right; eapply IH; eauto].
  Qed.

  (* ------------------------------------------------------------- the copy resolves to the same machine *)
  Lemma same_view_noq : forall rm rl (w w' : world) (m m' : machine),
    wf m = true -> fresh rm rl w m = true -> k_async (m_cls m) && m_qmodel m = false ->
    snapshot render rm rl w m = Some (w', m') ->
    resolve w' m' = normalize render (resolve w m).
  Proof.
    intros rm rl w w' m m' Hwf Hfr Hgd Hs.
    destruct (fresh_spec _ _ _ _ Hfr) as [Hinjm [Hinjl [Hfrm Hfrl]]].
    destruct m as [[g n l a] c q ms mctx cmap graphs qkeys].
    unfold wf in Hwf; simpl in Hwf. repeat rewrite andb_true_iff in Hwf.
    destruct Hwf as [[[[Hnd Hc] Hgr] Hq] Hla]. apply nodupb_NoDup in Hnd.
    simpl in Hgd.
    unfold all_locks in *; simpl in *.
    assert (Hqk : qkeys = []). { apply (wf_nil (a && q)); assumption. }
    subst qkeys.
    assert (Hmod : forall i, In i ms -> lookup (models_after rm w ms) (rm i) = lookup (w_models w) i).
    { intros i Hi. unfold models_after. apply model_copy; auto. apply Hfrm; assumption. }
    assert (Hnd' : NoDup (map rm ms)) by (apply NoDup_map_inj; assumption).
    set (R := mctx ++ concat (map (fun i => lookup_list cmap i) ms)).
    assert (HR : forall l, In l R -> In l (mctx ++ concat (map snd cmap))).
    { intros l0 Hl. unfold R in Hl. apply in_app_or in Hl. apply in_or_app.
      destruct Hl as [Hl|Hl]; [left; assumption | right; eapply in_concat_store; eauto]. }
    assert (Hctx : forall i, In i ms ->
              map (lookup (locks_after rl w R))
                  (lookup_list (map (fun x => (rm x, map rl (lookup_list cmap x))) ms) (rm i))
              = map (option_map transport_lock) (map (lookup (w_locks w)) (lookup_list cmap i))).
    { intros i Hi. unfold lookup_list at 1.
      rewrite (lookup_map_fg rm (fun x => map rl (lookup_list cmap x))) by assumption.
      apply (locks_copy_list rl w R (mctx ++ concat (map snd cmap))); auto.
      - intros l0 Hl. apply Hfrl; assumption.
      - intros l0 Hl. unfold R. apply in_or_app. right. eapply in_store_concat; eauto. }
    assert (Hmc : map (lookup (locks_after rl w R)) (map rl mctx)
                  = map (option_map transport_lock) (map (lookup (w_locks w)) mctx)).
    { apply (locks_copy_list rl w R (mctx ++ concat (map snd cmap))); auto.
      - intros l0 Hl. apply Hfrl; assumption.
      - intros l0 Hl. unfold R. apply in_or_app; auto. }
    destruct g, l; simpl in *.
    - (* locked graph class: both protocols *)
      unfold snapshot, getstate in Hs. simpl in Hs. rewrite Hgd in Hs. simpl in Hs. inversion Hs; subst; clear Hs.
      unfold setstate, setstate_gen, resolve, normalize, reach_locks, locked_store; simpl.
      rewrite locked_cmap by assumption.
      rewrite (build_nodup (fun i : ident => i)) by (rewrite map_id; assumption).
      rewrite (map_map (fun i => (i, lookup_list cmap i)) snd). simpl.
      fold R. fold (locks_after rl w R). fold (models_after rm w ms).
      f_equal; [exact Hmc|].
      rewrite !map_map. apply map_ext_in. intros i Hi.
      unfold resolve_model, norm_model; simpl.
      rewrite (Hmod i Hi), (Hctx i Hi).
      rewrite (lookup_map_fg rm) by assumption.
      unfold state_of; simpl. rewrite (Hmod i Hi). reflexivity.
    - (* graph class, GraphMachine hooks *)
      assert (cmap = []) by (apply (wf_nil false); auto). subst cmap. simpl in *.
      unfold snapshot, getstate in Hs. simpl in Hs. rewrite Hgd in Hs. simpl in Hs. inversion Hs; subst; clear Hs.
      unfold setstate, setstate_gen, resolve, normalize, reach_locks; simpl.
      rewrite build_nodup by (rewrite map_id; assumption).
      f_equal.
      + apply (locks_copy_list rl w _ (mctx ++ [])); auto.
        * intros l Hl. apply Hfrl; assumption.
        * intros l Hl. apply in_or_app; auto.
      + rewrite !map_map. apply map_ext_in. intros i Hi.
        unfold resolve_model, norm_model; simpl.
        fold (models_after rm w ms). rewrite (Hmod i Hi).
        rewrite (lookup_map_fg rm) by assumption.
        unfold state_of; simpl. rewrite (Hmod i Hi). reflexivity.
    - (* locked class, LockedMachine hooks *)
      assert (graphs = []) by (apply (wf_nil false); auto). subst graphs.
      unfold snapshot, getstate in Hs. simpl in Hs. rewrite Hgd in Hs. simpl in Hs. inversion Hs; subst; clear Hs.
      unfold setstate, setstate_gen, resolve, normalize, reach_locks, locked_store; simpl.
      rewrite locked_cmap by assumption.
      rewrite (map_map (fun i => (i, lookup_list cmap i)) snd). simpl.
      fold R. fold (locks_after rl w R). fold (models_after rm w ms).
      f_equal; [exact Hmc|].
      rewrite !map_map. apply map_ext_in. intros i Hi.
      unfold resolve_model, norm_model; simpl.
      rewrite (Hmod i Hi), (Hctx i Hi). reflexivity.
    - (* neither: default pickling of __dict__ *)
      assert (cmap = []) by (apply (wf_nil false); auto). subst cmap.
      assert (graphs = []) by (apply (wf_nil false); auto). subst graphs. simpl in *.
      unfold snapshot, getstate in Hs. simpl in Hs. rewrite Hgd in Hs. simpl in Hs. inversion Hs; subst; clear Hs.
      unfold setstate, setstate_gen, resolve, normalize, reach_locks; simpl.
      f_equal.
      + apply (locks_copy_list rl w _ (mctx ++ [])); auto.
        * intros l Hl. apply Hfrl; assumption.
        * intros l Hl. apply in_or_app; auto.
      + rewrite !map_map. apply map_ext_in. intros i Hi.
        unfold resolve_model, norm_model; simpl.
        fold (models_after rm w ms). rewrite (Hmod i Hi). reflexivity.
  Qed.

  (* async class with queued='model': the queue table is rebuilt under the new identities (fix 9fbcaa5) *)
  Lemma same_view_q : forall rm rl (w w' : world) (m m' : machine),
    wf m = true -> fresh rm rl w m = true -> k_async (m_cls m) && m_qmodel m = true ->
    forallb (fun i => nmem i (m_qkeys m)) (m_models m) = true ->
    snapshot render rm rl w m = Some (w', m') ->
    resolve w' m' = normalize render (resolve w m).
  Proof.
    intros rm rl w w' m m' Hwf Hfr Haq Hcov Hs.
    destruct (fresh_spec _ _ _ _ Hfr) as [Hinjm [Hinjl [Hfrm Hfrl]]].
    destruct m as [[g n l a] c q ms mctx cmap graphs qkeys].
    unfold wf in Hwf; simpl in Hwf. repeat rewrite andb_true_iff in Hwf.
    destruct Hwf as [[[[Hnd Hc] Hgr] Hq] Hla]. apply nodupb_NoDup in Hnd.
    simpl in Haq, Hcov. apply andb_true_iff in Haq. destruct Haq as [Ha Hq']. subst a q.
    destruct l; [discriminate Hla|].
    unfold all_locks in *; simpl in *.
    assert (cmap = []) by (apply (wf_nil false); auto). subst cmap. simpl in *.
    rewrite forallb_forall in Hcov.
    assert (Hmod : forall i, In i ms -> lookup (models_after rm w ms) (rm i) = lookup (w_models w) i).
    { intros i Hi. unfold models_after. apply model_copy; auto. apply Hfrm; assumption. }
    assert (Hnd' : NoDup (map rm ms)) by (apply NoDup_map_inj; assumption).
    assert (Hq2 : forall i, In i ms -> nmem (rm i) (map rm ms) = true).
    { intros i Hi. apply nmem_In. apply in_map. assumption. }
    destruct g; simpl in *.
    - unfold snapshot, getstate in Hs. simpl in Hs. inversion Hs; subst; clear Hs.
      unfold setstate, setstate_gen, resolve, normalize, reach_locks; simpl.
      rewrite build_nodup by (rewrite map_id; assumption).
      f_equal.
      + apply (locks_copy_list rl w _ (mctx ++ [])); auto.
        * intros l Hl. apply Hfrl; assumption.
        * intros l Hl. apply in_or_app; auto.
      + rewrite !map_map. apply map_ext_in. intros i Hi.
        unfold resolve_model, norm_model; simpl.
        fold (models_after rm w ms). rewrite (Hmod i Hi).
        rewrite (lookup_map_fg rm) by assumption.
        rewrite (Hq2 i Hi), (Hcov i Hi).
        unfold state_of; simpl. rewrite (Hmod i Hi). reflexivity.
    - assert (graphs = []) by (apply (wf_nil false); auto). subst graphs. simpl in *.
      unfold snapshot, getstate in Hs. simpl in Hs. inversion Hs; subst; clear Hs.
      unfold setstate, setstate_gen, resolve, normalize, reach_locks; simpl.
      f_equal.
      + apply (locks_copy_list rl w _ (mctx ++ [])); auto.
        * intros l Hl. apply Hfrl; assumption.
        * intros l Hl. apply in_or_app; auto.
      + rewrite !map_map. apply map_ext_in. intros i Hi.
        unfold resolve_model, norm_model; simpl.
        fold (models_after rm w ms). rewrite (Hmod i Hi).
        rewrite (Hq2 i Hi), (Hcov i Hi). reflexivity.
  Qed.

  Theorem same_view : forall rm rl (w w' : world) (m m' : machine),
    wf m = true -> fresh rm rl w m = true -> guard m = true ->
    snapshot render rm rl w m = Some (w', m') ->
    resolve w' m' = normalize render (resolve w m).
  Proof.
    intros rm rl w w' m m' Hwf Hfr Hgd Hs. unfold guard in Hgd.
    destruct (k_async (m_cls m) && m_qmodel m) eqn:Haq.
    - simpl in Hgd. eapply same_view_q; eauto.
    - eapply same_view_noq; eauto.
  Qed.

  Corollary same_run : forall (E O : Type) (step : pview C S G -> E -> pview C S G * O)
      rm rl (w w' : world) (m m' : machine) (h : list E),
    wf m = true -> fresh rm rl w m = true -> guard m = true ->
    snapshot render rm rl w m = Some (w', m') ->
    run_view step (resolve w' m') h = run_view step (normalize render (resolve w m)) h.
  Proof. intros. erewrite same_view; eauto. Qed.

  (* nothing to normalise: no PicklableLock of the original is held, class without graphs *)
  Definition quiet (w : world) (m : machine) : bool :=
    forallb (fun l => match lookup (w_locks w) l with
                      | Some o => negb (lo_picklable o && lo_held o)
                      | None => true
                      end) (all_locks m).

  Lemma transport_lock_quiet : forall o, negb (lo_picklable o && lo_held o) = true -> transport_lock o = o.
  Proof. intros [n h p] H. unfold transport_lock. simpl in *. destruct p, h; simpl in *; try reflexivity; discriminate. Qed.

  Lemma normalize_quiet : forall (w : world) (m : machine),
    k_graph (m_cls m) = false -> quiet w m = true -> normalize render (resolve w m) = resolve w m.
  Proof.
    intros w m Hg Hq. unfold quiet in Hq. rewrite forallb_forall in Hq.
    assert (HL : forall L, (forall l, In l L -> In l (all_locks m)) ->
                 map (option_map transport_lock) (map (lookup (w_locks w)) L) = map (lookup (w_locks w)) L).
    { intros L HL. rewrite map_map. apply map_ext_in. intros l Hl. specialize (Hq l (HL l Hl)).
      destruct (lookup (w_locks w) l); simpl; [f_equal; apply transport_lock_quiet; assumption | reflexivity]. }
    unfold normalize, resolve; simpl. f_equal.
    - apply HL. intros l Hl. unfold all_locks. apply in_or_app; auto.
    - rewrite map_map. apply map_ext_in. intros i Hi. unfold norm_model, resolve_model; simpl.
      rewrite Hg. f_equal. apply HL. intros l Hl. unfold all_locks. apply in_or_app. right.
      eapply in_lookup_list; eauto.
  Qed.

  Corollary same_run_quiet : forall (E O : Type) (step : pview C S G -> E -> pview C S G * O)
      rm rl (w w' : world) (m m' : machine) (h : list E),
    wf m = true -> fresh rm rl w m = true -> guard m = true ->
    k_graph (m_cls m) = false -> quiet w m = true ->
    snapshot render rm rl w m = Some (w', m') ->
    run_view step (resolve w' m') h = run_view step (resolve w m) h.
  Proof. intros. erewrite same_view; eauto. rewrite normalize_quiet; auto. Qed.

  (* ------------------------------------------------------------- the locks of the copy are free *)
  Definition view_locks_free (v : pview C S G) : Prop :=
    forall o, In (Some o) (pv_mctx v ++ concat (map pm_ctx (pv_models v))) ->
              lo_picklable o = true -> lo_held o = false.

  Lemma transport_lock_free : forall o, lo_picklable (transport_lock o) = true -> lo_held (transport_lock o) = false.
  Proof. intros [n h p]. unfold transport_lock; simpl. destruct p; simpl; [reflexivity | discriminate]. Qed.

  Lemma normalize_locks_free : forall v, view_locks_free (normalize render v).
  Proof.
    intros v o Hin Hp. unfold normalize in Hin; simpl in Hin.
    assert (Hx : exists o0, o = transport_lock o0).
    { apply in_app_or in Hin. destruct Hin as [Hin|Hin].
      - apply in_map_iff in Hin. destruct Hin as [[o0|] [H1 _]]; simpl in H1; [|discriminate].
        inversion H1. eauto.
      - apply in_concat in Hin. destruct Hin as [L [HL Hin]].
        apply in_map_iff in HL. destruct HL as [x [Hx HL]]. subst L.
        apply in_map_iff in HL. destruct HL as [y [Hy _]]. subst x. unfold norm_model in Hin; simpl in Hin.
        apply in_map_iff in Hin. destruct Hin as [[o0|] [H1 _]]; simpl in H1; [|discriminate].
        inversion H1. eauto. }
    destruct Hx as [o0 Ho]. subst o. apply transport_lock_free; assumption.
  Qed.

  Theorem locks_free : forall rm rl (w w' : world) (m m' : machine),
    wf m = true -> fresh rm rl w m = true -> guard m = true ->
    snapshot render rm rl w m = Some (w', m') ->
    view_locks_free (resolve w' m').
  Proof. intros. erewrite same_view; eauto. apply normalize_locks_free. Qed.

  (* ------------------------------------------------------------- fresh identities *)
  Lemma concat_ren_tab : forall (fk rl : ident -> ident) t,
    concat (map snd (ren_tab fk rl t)) = map rl (concat (map snd t)).
  Proof.
    induction t as [|[k v] r IH]; simpl; [reflexivity|]. rewrite map_app. f_equal. apply IH.
  Qed.

  Lemma snapshot_refs : forall rm rl (w w' : world) (m m' : machine),
    wf m = true -> fresh rm rl w m = true -> snapshot render rm rl w m = Some (w', m') ->
    m_models m' = map rm (m_models m) /\
    (forall l, In l (all_locks m') -> exists l0, In l0 (all_locks m) /\ l = rl l0).
  Proof.
    intros rm rl w w' m m' Hwf Hfr Hs.
    destruct (fresh_spec _ _ _ _ Hfr) as [Hinjm _].
    destruct m as [[g n l a] c q ms mctx cmap graphs qkeys].
    unfold wf in Hwf; simpl in Hwf. repeat rewrite andb_true_iff in Hwf.
    destruct Hwf as [[[[Hnd _] _] _] _]. apply nodupb_NoDup in Hnd. simpl in Hinjm.
    unfold snapshot, getstate in Hs; simpl in Hs.
    assert (Hgen : forall cm, In cm [cmap] ->
              forall x, In x (map rl mctx ++ concat (map snd (ren_tab (fun i => i) rl cm))) ->
              exists l0, In l0 (mctx ++ concat (map snd cmap)) /\ x = rl l0).
    { intros cm [Hcm|[]] x Hx. subst cm. rewrite concat_ren_tab, <- map_app in Hx.
      apply in_map_iff in Hx. destruct Hx as [l0 [H1 H2]]. eauto. }
    assert (Hlk : forall x,
              In x (map rl mctx ++ concat (map snd (map (fun i => (rm i, map rl (lookup_list cmap i))) ms))) ->
              exists l0, In l0 (mctx ++ concat (map snd cmap)) /\ x = rl l0).
    { intros x Hx. apply in_app_or in Hx. destruct Hx as [Hx|Hx].
      - apply in_map_iff in Hx. destruct Hx as [l0 [H1 H2]]. exists l0. split; [apply in_or_app; auto | auto].
      - rewrite map_map in Hx. simpl in Hx.
        apply in_concat in Hx. destruct Hx as [L [HL Hx]]. apply in_map_iff in HL. destruct HL as [i1 [Hi1 _]]. subst L.
        apply in_map_iff in Hx. destruct Hx as [l0 [H1 H2]]. exists l0.
        split; [apply in_or_app; right; eapply in_lookup_list; eauto | auto]. }
    destruct g, l; simpl in Hs; inversion Hs; subst; clear Hs; unfold setstate, setstate_gen, all_locks, locked_store; simpl;
      (split; [reflexivity|]); try (rewrite locked_cmap by assumption; exact Hlk); apply Hgen; simpl; auto.
  Qed.

  Definition disjoint_machines (a b : machine) : Prop :=
    (forall i, In i (m_models a) -> ~ In i (m_models b)) /\
    (forall l, In l (all_locks a) -> ~ In l (all_locks b)).

  Theorem fresh_identities : forall rm rl (w w' : world) (m m' : machine),
    wf m = true -> fresh rm rl w m = true ->
    snapshot render rm rl w m = Some (w', m') ->
    disjoint_machines m' m /\ disjoint_machines m m' /\
    (forall i, In i (m_models m') -> ~ In i (keys (w_models w))) /\
    (forall l, In l (all_locks m') -> ~ In l (keys (w_locks w))).
  Proof.
    intros rm rl w w' m m' Hwf Hfr Hs.
    destruct (fresh_spec _ _ _ _ Hfr) as [_ [_ [Hfrm Hfrl]]].
    destruct (snapshot_refs _ _ _ _ _ _ Hwf Hfr Hs) as [Hm Hl].
    assert (A1 : forall i, In i (m_models m') -> ~ In i (m_models m) /\ ~ In i (keys (w_models w))).
    { intros i Hi. rewrite Hm in Hi. apply in_map_iff in Hi. destruct Hi as [i0 [H1 H2]]. subst i.
      destruct (Hfrm i0 H2); auto. }
    assert (A2 : forall l, In l (all_locks m') -> ~ In l (all_locks m) /\ ~ In l (keys (w_locks w))).
    { intros l Hl'. destruct (Hl l Hl') as [l0 [H1 H2]]. subst l. destruct (Hfrl l0 H1); auto. }
    unfold disjoint_machines. split; [|split; [|split]].
    - split; [intros i Hi; apply A1; assumption | intros l Hl'; apply A2; assumption].
    - split.
      + intros i Hi Hi'. destruct (A1 i Hi') as [X _]. apply X; assumption.
      + intros l Hl0 Hl'. destruct (A2 l Hl') as [X _]. apply X; assumption.
    - intros i Hi. apply A1; assumption.
    - intros l Hl'. apply A2; assumption.
  Qed.

  (* ------------------------------------------------------------- independence: frames *)
  Definition agree (w1 w2 : world) (m : machine) : Prop :=
    (forall i, In i (m_models m) -> lookup (w_models w1) i = lookup (w_models w2) i) /\
    (forall l, In l (all_locks m) -> lookup (w_locks w1) l = lookup (w_locks w2) l).

  Lemma agree_refl : forall w m, agree w w m.
  Proof. intros; split; intros; reflexivity. Qed.
  Lemma agree_sym : forall w1 w2 m, agree w1 w2 m -> agree w2 w1 m.
  Proof. intros w1 w2 m [H1 H2]; split; intros; symmetry; auto. Qed.
  Lemma agree_trans : forall w1 w2 w3 m, agree w1 w2 m -> agree w2 w3 m -> agree w1 w3 m.
  Proof.
    intros w1 w2 w3 m [H1 H2] [H3 H4]; split; intros x Hx.
    - rewrite (H1 x Hx). apply H3; assumption.
    - rewrite (H2 x Hx). apply H4; assumption.
  Qed.

  Lemma agree_refs : forall w1 w2 (m m1 : machine),
    m_models m1 = m_models m -> all_locks m1 = all_locks m -> agree w1 w2 m -> agree w1 w2 m1.
  Proof. intros w1 w2 m m1 E1 E2 [H1 H2]. unfold agree. rewrite E1, E2. auto. Qed.

  Lemma agree_resolve : forall w1 w2 m, agree w1 w2 m -> resolve w1 m = resolve w2 m.
  Proof.
    intros w1 w2 m [H1 H2]. unfold resolve. f_equal.
    - apply map_ext_in. intros l Hl. apply H2. unfold all_locks. apply in_or_app; auto.
    - apply map_ext_in. intros i Hi. unfold resolve_model. f_equal.
      + apply H1; assumption.
      + apply map_ext_in. intros l Hl. apply H2. unfold all_locks. apply in_or_app. right.
        eapply in_lookup_list; eauto.
  Qed.

  Lemma agree_write_same : forall (w1 w2 : world) (m : machine) (x : write S),
    agree w1 w2 m -> agree (apply_write w1 x) (apply_write w2 x) m.
  Proof.
    intros w1 w2 m x [H1 H2]. destruct x as [i o|l o]; split; simpl; intros y Hy; auto;
      rewrite !lookup_upd; destruct (Nat.eqb y _); auto.
    - rewrite (H1 y Hy). reflexivity.
    - rewrite (H2 y Hy). reflexivity.
  Qed.

  Lemma agree_write_out : forall (w : world) (m : machine) (x : write S), write_in m x = false -> agree w (apply_write w x) m.
  Proof.
    intros w m x H. destruct x as [i o|l o]; simpl in H; apply nmem_false in H; split; simpl; intros y Hy;
      try reflexivity; rewrite lookup_upd; destruct (Nat.eqb y _) eqn:E; try reflexivity;
      apply Nat.eqb_eq in E; subst; contradiction.
  Qed.

  Lemma agree_writes_same : forall (xs : list (write S)) (w1 w2 : world) (m : machine),
    agree w1 w2 m -> agree (fold_left apply_write xs w1) (fold_left apply_write xs w2) m.
  Proof. induction xs as [|x r IH]; intros; simpl; [assumption | apply IH, agree_write_same; assumption]. Qed.

  Lemma agree_writes_out : forall (xs : list (write S)) (w : world) (m : machine),
    (forall x, In x xs -> write_in m x = false) -> agree w (fold_left apply_write xs w) m.
  Proof.
    induction xs as [|x r IH]; intros w m H; simpl; [apply agree_refl|].
    eapply agree_trans; [apply agree_write_out; apply H; simpl; auto|].
    apply IH. intros; apply H; simpl; auto.
  Qed.

  (* a write that stays outside machine m does not change what m resolves to *)
  Theorem resolve_frame : forall (xs : list (write S)) (w : world) (m : machine),
    (forall x, In x xs -> write_in m x = false) -> resolve (fold_left apply_write xs w) m = resolve w m.
  Proof. intros. symmetry. apply agree_resolve, agree_writes_out. assumption. Qed.

  Section Runs.
    Variables E O : Type.
    Variable eng : pview C S G -> E -> C * list (mobj S) * list lobj * O.

    Definition exec_writes (w : world) (m : machine) (e : E) : list (write S) :=
      match eng (resolve w m) e with
      | (c, ms, ls, o) =>
          map (fun p => WModel (fst p) (snd p)) (combine (m_models m) ms) ++
          map (fun p => WLock (fst p) (snd p)) (combine (all_locks m) ls)
      end.

    Lemma exec_shape : forall w m e,
      exists c o, exec eng w m e =
        (fold_left apply_write (exec_writes w m e) w,
         mkM (m_cls m) c (m_qmodel m) (m_models m) (m_mctx m) (m_cmap m) (m_graphs m) (m_qkeys m), o) /\
        (forall w2, resolve w2 m = resolve w m ->
           exec eng w2 m e =
           (fold_left apply_write (exec_writes w m e) w2,
            mkM (m_cls m) c (m_qmodel m) (m_models m) (m_mctx m) (m_cmap m) (m_graphs m) (m_qkeys m), o)).
    Proof.
      intros w m e. unfold exec, exec_writes.
      destruct (eng (resolve w m) e) as [[[c ms] ls] o] eqn:Heng. exists c, o. split; [reflexivity|].
      intros w2 H2. rewrite H2, Heng. reflexivity.
    Qed.

    (* an operation on machine a writes only to a's own objects *)
    Lemma exec_writes_in : forall w a e x, In x (exec_writes w a e) -> write_in a x = true.
    Proof.
      intros w a e x H. unfold exec_writes in H. destruct (eng (resolve w a) e) as [[[c ms] ls] o].
      apply in_app_or in H. destruct H as [H|H]; apply in_map_iff in H; destruct H as [[k v] [Hx Hin]];
        subst x; simpl; apply nmem_In; apply in_combine_l in Hin; assumption.
    Qed.

    Lemma writes_out_of_disjoint : forall w (a b : machine) e,
      disjoint_machines a b -> forall x, In x (exec_writes w a e) -> write_in b x = false.
    Proof.
      intros w a b e [D1 D2] x Hx. apply exec_writes_in in Hx.
      destruct x as [i o|l o]; simpl in *; apply nmem_In in Hx; apply nmem_false; auto.
    Qed.

    Definition F (acc : world * machine * list O) (e : E) : world * machine * list O :=
      match acc with
      | (w1, m1, os) => match exec eng w1 m1 e with (w2, m2, o) => (w2, m2, os ++ [o]) end
      end.

    Lemma run_is_fold : forall w m h, run eng w m h = fold_left F h (w, m, []).
    Proof. reflexivity. Qed.

    Lemma run_frame_gen : forall h w (a b : machine) os,
      disjoint_machines a b ->
      agree w (fst (fst (fold_left F h (w, a, os)))) b /\
      m_models (snd (fst (fold_left F h (w, a, os)))) = m_models a /\
      all_locks (snd (fst (fold_left F h (w, a, os)))) = all_locks a.
    Proof.
      induction h as [|e r IH]; intros w a b os D; simpl.
      - split; [apply agree_refl | split; reflexivity].
      - destruct (exec_shape w a e) as [c [o [Hex _]]]. rewrite Hex.
        set (a2 := mkM (m_cls a) c (m_qmodel a) (m_models a) (m_mctx a) (m_cmap a) (m_graphs a) (m_qkeys a)).
        assert (D2 : disjoint_machines a2 b) by exact D.
        destruct (IH (fold_left apply_write (exec_writes w a e) w) a2 b (os ++ [o]) D2) as [A1 [A2 A3]].
        split; [|split; assumption].
        eapply agree_trans; [|exact A1]. apply agree_writes_out. apply writes_out_of_disjoint; assumption.
    Qed.

    Lemma run_cong_gen : forall h w1 w2 (m : machine) os,
      agree w1 w2 m ->
      snd (fold_left F h (w1, m, os)) = snd (fold_left F h (w2, m, os)) /\
      snd (fst (fold_left F h (w1, m, os))) = snd (fst (fold_left F h (w2, m, os))) /\
      agree (fst (fst (fold_left F h (w1, m, os)))) (fst (fst (fold_left F h (w2, m, os))))
            (snd (fst (fold_left F h (w1, m, os)))).
    Proof.
      induction h as [|e r IH]; intros w1 w2 m os A; simpl.
      - auto.
      - destruct (exec_shape w1 m e) as [c [o [Hex1 Hex2]]]. rewrite Hex1.
        rewrite (Hex2 w2) by (symmetry; apply agree_resolve; assumption).
        apply IH. apply (agree_refs _ _ m); [reflexivity | reflexivity |].
        apply agree_writes_same. assumption.
    Qed.

    (* whatever machine a does first, machine b observes the same; and b's view of itself is intact *)
    Theorem independent_run : forall w (a b : machine) hA hB,
      disjoint_machines a b ->
      resolve (fst (fst (run eng w a hA))) b = resolve w b /\
      snd (run eng (fst (fst (run eng w a hA))) b hB) = snd (run eng w b hB).
    Proof.
      intros w a b hA hB D. rewrite !run_is_fold.
      destruct (run_frame_gen hA w a b [] D) as [A _].
      split.
      - symmetry. apply agree_resolve. assumption.
      - symmetry. apply (run_cong_gen hB w _ b []). assumption.
    Qed.
  End Runs.

  Theorem snapshot_independent : forall (E O : Type) (eng : pview C S G -> E -> C * list (mobj S) * list lobj * O)
      rm rl (w w' : world) (m m' : machine) hA hB,
    wf m = true -> fresh rm rl w m = true ->
    snapshot render rm rl w m = Some (w', m') ->
    (resolve (fst (fst (run eng w' m hA))) m' = resolve w' m' /\
     snd (run eng (fst (fst (run eng w' m hA))) m' hB) = snd (run eng w' m' hB)) /\
    (resolve (fst (fst (run eng w' m' hB))) m = resolve w' m /\
     snd (run eng (fst (fst (run eng w' m' hB))) m hA) = snd (run eng w' m hA)).
  Proof.
    intros E O eng rm rl w w' m m' hA hB Hwf Hfr Hs.
    destruct (fresh_identities _ _ _ _ _ _ Hwf Hfr Hs) as [D1 [D2 _]].
    split; apply independent_run; assumption.
  Qed.

  (* a lock of the original, acquired or released after the snapshot, is not a lock of the copy *)
  Theorem hold_independent : forall rm rl (w w' : world) (m m' : machine) l o,
    wf m = true -> fresh rm rl w m = true ->
    snapshot render rm rl w m = Some (w', m') ->
    In l (all_locks m) -> resolve (apply_write w' (WLock l o)) m' = resolve w' m'.
  Proof.
    intros rm rl w w' m m' l o Hwf Hfr Hs Hl.
    destruct (fresh_identities _ _ _ _ _ _ Hwf Hfr Hs) as [_ [[_ D] _]].
    apply (resolve_frame [WLock l o]). intros x [Hx|[]]. subst x. simpl. apply nmem_false. auto.
  Qed.

  (* ------------------------------------------------------------- reachable machines are well-formed *)
  Lemma nodupb_snoc : forall (l : list ident) (i : ident), nodupb l = true -> nmem i l = false -> nodupb (l ++ [i]) = true.
  Proof.
    intros l i H1 H2. apply nodupb_NoDup. apply nodupb_NoDup in H1. apply nmem_false in H2.
    induction l as [|x r IH]; simpl; [constructor; [intros []|constructor]|].
    inversion H1; subst. constructor.
    - intro Hin. apply in_app_or in Hin. destruct Hin as [Hin|[Hin|[]]]; [contradiction | subst; apply H2; simpl; auto].
    - apply IH; [assumption | intro; apply H2; simpl; auto].
  Qed.

  Lemma nodupb_filter : forall (f : ident -> bool) (l : list ident), nodupb l = true -> nodupb (filter f l) = true.
  Proof.
    intros f l H. apply nodupb_NoDup. apply nodupb_NoDup in H. apply NoDup_filter. assumption.
  Qed.

  Lemma wf_init : forall k (c : C) q mctx,
    negb (k_locked k && k_async k) = true -> wf (init_machine k c q mctx : machine) = true.
  Proof.
    intros k c q mctx H. unfold wf, init_machine; simpl. rewrite H.
    rewrite !orb_true_r. reflexivity.
  Qed.

  Lemma wf_tab_step : forall (w : world) (m : machine) o,
    wf m = true -> wf (tab_step render w m o) = true.
  Proof.
    intros w m o Hwf. destruct o as [i ctx|i]; simpl.
    - unfold add_model. destruct (nmem i (m_models m)) eqn:Ei; [assumption|].
      unfold wf in *; simpl. repeat rewrite andb_true_iff in Hwf. destruct Hwf as [[[[H1 H2] H3] H4] H5].
      rewrite (nodupb_snoc _ _ H1 Ei), H5. simpl.
      destruct (k_locked (m_cls m)); destruct (k_graph (m_cls m)); destruct (k_async (m_cls m) && m_qmodel m);
        simpl in *; rewrite ?H2, ?H3, ?H4; reflexivity.
    - unfold remove_model.
      destruct (k_locked (m_cls m) && negb (nmem i (keys (m_cmap m)))); [assumption|].
      destruct (k_async (m_cls m) && m_qmodel m && negb (nmem i (m_qkeys m))); [assumption|].
      destruct (negb (nmem i (m_models m))); [assumption|].
      unfold wf in *; simpl. repeat rewrite andb_true_iff in Hwf. destruct Hwf as [[[[H1 H2] H3] H4] H5].
      rewrite (nodupb_filter _ _ H1), H5. simpl.
      destruct (k_locked (m_cls m)); destruct (k_graph (m_cls m)); destruct (k_async (m_cls m) && m_qmodel m);
        simpl in *; rewrite ?H2, ?H3, ?H4; reflexivity.
  Qed.

  Theorem reachable_wf : forall (w : world) k (c : C) q mctx (script : list tabop),
    negb (k_locked k && k_async k) = true ->
    wf (fold_left (tab_step render w) script (init_machine k c q mctx)) = true.
  Proof.
    intros w k c q mctx script H.
    assert (G0 : forall s (m : machine), wf m = true -> wf (fold_left (tab_step render w) s m) = true).
    { induction s as [|o r IH]; intros m Hm; simpl; [assumption | apply IH, wf_tab_step; assumption]. }
    apply G0, wf_init. assumption.
  Qed.
  (* ------------------------------------------------------------- unpickling entered through a model *)
  Lemma snapshot_via_nongraph : forall j rm rl (w : world) (m : machine),
    k_graph (m_cls m) = false -> snapshot_via render j rm rl w m = snapshot render rm rl w m.
  Proof.
    intros j rm rl w m Hg. destruct m as [[g n l a] c q ms mctx cmap graphs qkeys]. simpl in Hg. subst g.
    unfold snapshot_via, snapshot, getstate. destruct l; simpl; reflexivity.
  Qed.

  (* graph classes: every table as after an ordinary snapshot, except that the graph of the entry
     model is generated without a state ("Could not set active state of diagram") *)
  Lemma snapshot_via_graph : forall j rm rl (w w' : world) (m m' : machine),
    wf m = true -> fresh rm rl w m = true ->
    k_graph (m_cls m) = true -> In j (m_models m) ->
    snapshot_via render j rm rl w m = Some (w', m') ->
    (exists m0, snapshot render rm rl w m = Some (w', m0) /\
                m_models m' = m_models m0 /\ m_mctx m' = m_mctx m0 /\ m_cmap m' = m_cmap m0 /\
                m_qkeys m' = m_qkeys m0 /\ m_cfg m' = m_cfg m0) /\
    keys (m_graphs m') = m_models m' /\
    lookup (m_graphs m') (rm j) = Some (render (m_cfg m) None) /\
    (forall i, In i (m_models m) -> i <> j ->
       lookup (m_graphs m') (rm i) = Some (render (m_cfg m) (state_of w i))).
  Proof.
    intros j rm rl w w' m m' Hwf Hfr Hg Hj Hs.
    destruct (fresh_spec _ _ _ _ Hfr) as [Hinjm [_ [Hfrm _]]].
    destruct m as [[g n l a] c q ms mctx cmap graphs qkeys]. simpl in *. subst g.
    unfold wf in Hwf. simpl in Hwf. repeat rewrite andb_true_iff in Hwf.
    destruct Hwf as [[[[Hnd _] _] _] _]. apply nodupb_NoDup in Hnd.
    assert (Hnd' : NoDup (map rm ms)) by (apply NoDup_map_inj; assumption).
    unfold snapshot_via, snapshot, getstate in *.
    destruct l; simpl in Hs; inversion Hs; subst; clear Hs; unfold setstate, setstate_gen; simpl;
      rewrite !(build_nodup (fun i : ident => i)) by (rewrite map_id; assumption);
      (split; [eexists; split; [reflexivity | repeat split; reflexivity] |
       split; [rewrite keys_map_key; reflexivity |
       split; [rewrite lookup_map_key by (apply in_map; assumption); rewrite Nat.eqb_refl; reflexivity |
       intros i Hi Hne; rewrite lookup_map_key by (apply in_map; assumption);
       destruct (Nat.eqb (rm i) (rm j)) eqn:E;
       [apply Nat.eqb_eq in E; exfalso; apply Hne; apply Hinjm; assumption |
        f_equal; f_equal; unfold state_of; simpl; f_equal;
        apply (model_copy rm w ms i); auto; apply Hfrm; assumption]]]]).
  Qed.

  (* the queue invariant of the original holds for every reachable machine *)
  Lemma guard_tab_step : forall (w : world) (m : machine) o, guard m = true -> guard (tab_step render w m o) = true.
  Proof.
    intros w m o Hg. unfold guard in *. destruct o as [i ctx|i]; simpl.
    - unfold add_model. destruct (nmem i (m_models m)) eqn:Ei; [assumption|]. simpl.
      destruct (k_async (m_cls m) && m_qmodel m); simpl in *; [|reflexivity].
      rewrite forallb_app. simpl. rewrite andb_true_iff. split.
      + rewrite forallb_forall in *. intros x Hx. specialize (Hg x Hx).
        destruct (nmem i (m_qkeys m)); [assumption|]. apply nmem_In. apply in_or_app. left. apply nmem_In. assumption.
      + destruct (nmem i (m_qkeys m)) eqn:E; [rewrite E; reflexivity|].
        rewrite andb_true_r. apply nmem_In. apply in_or_app. right. simpl; auto.
    - unfold remove_model.
      destruct (k_locked (m_cls m) && negb (nmem i (keys (m_cmap m)))); [assumption|].
      destruct (k_async (m_cls m) && m_qmodel m) eqn:Eq; simpl in *.
      + destruct (negb (nmem i (m_qkeys m))); simpl; [rewrite Eq; assumption|].
        destruct (negb (nmem i (m_models m))); simpl; rewrite Eq; simpl; [assumption|].
        rewrite forallb_forall in *. intros x Hx. apply filter_In in Hx. destruct Hx as [Hx Hne].
        apply nmem_In. apply filter_In. split; [apply nmem_In; apply Hg; assumption | assumption].
      + destruct (negb (nmem i (m_models m))); simpl; rewrite Eq; reflexivity.
  Qed.

  Lemma guard_reachable : forall (w : world) k (c : C) q mctx (script : list tabop),
    guard (fold_left (tab_step render w) script (init_machine k c q mctx)) = true.
  Proof.
    intros w k c q mctx script.
    assert (G0 : forall s (m : machine), guard m = true -> guard (fold_left (tab_step render w) s m) = true).
    { induction s as [|o r IH]; intros m Hm; simpl; [assumption | apply IH, guard_tab_step; assumption]. }
    apply G0. unfold guard, init_machine; simpl. apply orb_true_r.
  Qed.

  (* pickling never raises in the model: in particular not for unhashable models (fix 3c0ca68) *)
  Lemma pickles_always : forall rm rl (w : world) (m : machine),
    exists w' m', snapshot render rm rl w m = Some (w', m').
  Proof.
    intros rm rl w m. destruct m as [[g n l a] c q ms mctx cmap graphs qkeys].
    unfold snapshot, getstate, table_hooks. simpl. destruct g, l; eexists; eexists; reflexivity.
  Qed.
End PickleP.

Arguments quiet {_ _ _}.
Arguments view_locks_free {_ _ _}.
Arguments disjoint_machines {_ _}.

(* ----------------------------------------------------------------- concrete instances *)
Definition xrender (c : nat) (s : option nat) : nat * option nat := (c, s).
Definition xworld : world nat :=
  mkW [(10, mkMobj 0 true); (11, mkMobj 1 true)]
      [(0, mkLobj 0 true true); (1, mkLobj 1 false false); (3, mkLobj 3 false false)].
Definition xplus (n : nat) (i : nat) : nat := i + n.

(* LockedMachine, two models, the second with a model_context; the machine lock is HELD at the snapshot *)
Definition xlocked : machine nat (nat * option nat) :=
  fold_left (tab_step xrender xworld) [TAdd 10 []; TAdd 11 [3]]
            (init_machine (mkCls false false true false) 7 false [0; 1]).

Lemma ex_locked_envelope :
  wf xlocked = true /\ fresh (xplus 100) (xplus 100) xworld xlocked = true /\ guard xlocked = true /\
  exists w' m', snapshot xrender (xplus 100) (xplus 100) xworld xlocked = Some (w', m') /\
    m_models m' = [110; 111] /\
    m_cmap m' = [(110, [100; 101]); (111, [100; 101; 103])] /\
    lookup (w_locks w') 100 = Some (mkLobj 0 false true) /\
    lookup (w_locks w') 0 = Some (mkLobj 0 true true).
Proof. repeat split; try reflexivity. eexists; eexists; repeat split; reflexivity. Qed.

(* the same history on LockedGraphMachine: both protocols run (fix 74ef53e; formerly KF-C15-1) *)
Definition xlockedgraph : machine nat (nat * option nat) :=
  fold_left (tab_step xrender xworld) [TAdd 10 []; TAdd 11 [3]]
            (init_machine (mkCls true false true false) 7 false [0; 1]).

Lemma ex_locked_graph_rekeyed :
  wf xlockedgraph = true /\ fresh (xplus 100) (xplus 100) xworld xlockedgraph = true /\
  guard xlockedgraph = true /\
  exists w' m', snapshot xrender (xplus 100) (xplus 100) xworld xlockedgraph = Some (w', m') /\
    m_models m' = [110; 111] /\ keys (m_cmap m') = [110; 111] /\ keys (m_graphs m') = [110; 111] /\
    map (fun x => length (pm_ctx x)) (pv_models (resolve w' m')) = [2; 3] /\
    resolve w' m' = normalize xrender (resolve xworld xlockedgraph).
Proof. repeat split; try reflexivity. eexists; eexists; repeat split; reflexivity. Qed.

(* an unhashable model in a LockedMachine pickles like any other (fix 3c0ca68; formerly KF-C15-2) *)
Definition xuworld : world nat :=
  mkW [(10, mkMobj 0 false)] [(0, mkLobj 0 false true); (1, mkLobj 1 false false)].
Definition xunhashable : machine nat (nat * option nat) :=
  fold_left (tab_step xrender xuworld) [TAdd 10 []] (init_machine (mkCls false false true false) 7 false [0; 1]).

Lemma ex_unhashable_pickles :
  wf xunhashable = true /\ fresh (xplus 100) (xplus 100) xuworld xunhashable = true /\
  guard xunhashable = true /\
  map (fun i => option_map mo_hashable (lookup (w_models xuworld) i)) (m_models xunhashable) = [Some false] /\
  exists w' m', snapshot xrender (xplus 100) (xplus 100) xuworld xunhashable = Some (w', m') /\
    m_models m' = [110] /\ m_cmap m' = [(110, [100; 101])] /\
    resolve w' m' = normalize xrender (resolve xuworld xunhashable).
Proof. repeat split; try reflexivity. eexists; eexists; repeat split; reflexivity. Qed.

(* AsyncMachine(queued='model'): the queue table is rebuilt under the new identities (fix 9fbcaa5; formerly KF-C15-3) *)
Definition xasyncq : machine nat (nat * option nat) :=
  fold_left (tab_step xrender xworld) [TAdd 10 []; TAdd 11 []]
            (init_machine (mkCls false false false true) 7 true []).

Lemma ex_async_queue_rekeyed :
  wf xasyncq = true /\ fresh (xplus 100) (xplus 100) xworld xasyncq = true /\ guard xasyncq = true /\
  m_qkeys xasyncq = [10; 11] /\
  exists w' m', snapshot xrender (xplus 100) (xplus 100) xworld xasyncq = Some (w', m') /\
    m_models m' = [110; 111] /\ m_qkeys m' = [110; 111] /\
    map pm_queue (pv_models (resolve w' m')) = [true; true] /\
    resolve w' m' = normalize xrender (resolve xworld xasyncq).
Proof. repeat split; try reflexivity. eexists; eexists; repeat split; reflexivity. Qed.


(* GraphMachine pickled THROUGH its first model (pickle.dumps(model)): the copy of that model gets a graph
   that styles no state as active, unlike a regenerated graph of the original *)
Definition xgraph : machine nat (nat * option nat) :=
  fold_left (tab_step xrender xworld) [TAdd 10 []; TAdd 11 []]
            (init_machine (mkCls true false false false) 7 false []).

Lemma ex_via_model_graph :
  wf xgraph = true /\ fresh (xplus 100) (xplus 100) xworld xgraph = true /\ guard xgraph = true /\
  exists w' m', snapshot_via xrender 10 (xplus 100) (xplus 100) xworld xgraph = Some (w', m') /\
    m_models m' = [110; 111] /\
    m_graphs m' = [(110, (7, None)); (111, (7, Some 1))] /\
    map pm_graph (pv_models (normalize xrender (resolve xworld xgraph))) = [Some (7, Some 0); Some (7, Some 1)] /\
    resolve w' m' <> normalize xrender (resolve xworld xgraph).
Proof.
  repeat split; try reflexivity. eexists; eexists. repeat split; try reflexivity.
  intro H. apply (f_equal (fun v => map pm_graph (pv_models v))) in H. vm_compute in H. discriminate.
Qed.

(* a LockedMachine pickled from INSIDE its contexts (pickle.dumps(machine) in a callback): the IdentManager (context 1,
   state not reset by pickling) names its owning thread, and so does the copy's *)
Definition xiworld : world nat :=
  mkW [(10, mkMobj 0 true)] [(0, mkLobj 0 true true); (1, mkLobj 1 true false)].
Definition xinside : machine nat (nat * option nat) :=
  fold_left (tab_step xrender xiworld) [TAdd 10 []] (init_machine (mkCls false false true false) 7 false [0; 1]).

Lemma ex_ident_kept :
  wf xinside = true /\ fresh (xplus 100) (xplus 100) xiworld xinside = true /\ guard xinside = true /\
  exists w' m', snapshot xrender (xplus 100) (xplus 100) xiworld xinside = Some (w', m') /\
    m_mctx m' = [100; 101] /\
    lookup (w_locks w') 100 = Some (mkLobj 0 false true) /\        (* the PicklableLock comes back unlocked *)
    lookup (w_locks w') 101 = Some (mkLobj 1 true false) /\        (* the IdentManager still names an owner *)
    map pm_ctx (pv_models (resolve w' m')) = [[Some (mkLobj 0 false true); Some (mkLobj 1 true false)]].
Proof. repeat split; try reflexivity. eexists; eexists; repeat split; reflexivity. Qed.
