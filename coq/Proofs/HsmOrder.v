(* HsmOrder.v — C03: the ORDER in which a hierarchical machine offers an event, pinned down on the runs in which
   nothing executes (every candidate is blocked by its first condition, so every active (scope, source) pair that
   declares the event is evaluated): the callbacks run in exactly the order [seq_f] - for every active state, the
   scopes nested INSIDE it first (deepest declaring scope first), then the state's own declaring scope with its
   sources in resolve order (deepest source first).  This is the scope-major order of KF-C03-1, as a theorem. *)
From Coq Require Import List Arith Bool Lia.
From M Require Import Base Flat Hsm HsmSpec.
From P Require Import MonadP HsmForest HsmResolve HsmReach HsmOffer HsmIff.
Import ListNotations.

Section Order.
  Variable hm : hmachine.
  Variable ev : env.
  Variable c : ctx.
  Variable e : event.
  Notation HM := (M (V:=forest) (S:=forest)).
  Notation ids := (fun s : forest => s).

  Hypothesis NR : forall cb q, r_raise (ev cb q) = None.
  Hypothesis BLK : forall cb q, r_ret (ev cb q) = false.
  (* every transition of the event, in whatever scope, starts with a condition (not an unless check) *)
  Definition guarded (t : htrans) : Prop := exists cb rest, ht_conds t = (cb, true) :: rest.
  Hypothesis GRD : forall sc ts t, lookup (scope_events hm sc) e = Some ts -> In t ts -> guarded t.

  (* at configuration s: m leaves s alone, returns a and runs exactly the callbacks l, in that order *)
  Definition em {A} (s : forest) (m : HM A) (l : list cbid) (a : A) : Prop :=
    forall p, exists tr, m p s = (tr, s, inr a) /\ map (@it_cb forest) tr = l.

  Lemma em_ret {A} s (a : A) : em s (ret a) [] a.
  Proof. intros p. exists []. split; reflexivity. Qed.
  Lemma em_bind {A B} s (m : HM A) (k : A -> HM B) l1 l2 a b : em s m l1 a -> em s (k a) l2 b -> em s (bind m k) (l1 ++ l2) b.
  Proof.
    intros H1 H2 p. destruct (H1 p) as (t1 & E1 & M1). destruct (H2 (p + length t1)) as (t2 & E2 & M2).
    exists (t1 ++ t2). unfold bind. rewrite E1, E2. split; [reflexivity|]. now rewrite map_app, M1, M2.
  Qed.
  Lemma em_get s : em s (@get forest forest) [] s.
  Proof. intros p. exists []. split; reflexivity. Qed.
  Lemma em_get_bind {B} s (k : forest -> HM B) l b : em s (k s) l b -> em s (bind get k) l b.
  Proof. intros H. change l with ([] ++ l). eapply em_bind; [apply em_get|exact H]. Qed.
  Lemma em_call s sl err cb : em s (call ids ev c sl err cb) [cb] false.
  Proof. intros p. unfold call. rewrite NR, BLK. eexists. split; reflexivity. Qed.
  Lemma em_run_cbs s sl err cbs : em s (run_cbs ids ev c sl err cbs) cbs tt.
  Proof.
    induction cbs as [|cb r IH]; cbn [run_cbs]; [apply em_ret|].
    change (cb :: r) with ([cb] ++ r). eapply em_bind; [apply em_call|exact IH].
  Qed.

  Definition cand_cbs (t : htrans) : list cbid := ht_prepare t ++ match ht_conds t with (cb, _) :: _ => [cb] | [] => [] end.

  Lemma em_execute s sc t : guarded t -> em s (execute hm ev c sc t) (cand_cbs t) false.
  Proof.
    intros (cb & rest & G). unfold execute, cand_cbs. rewrite G.
    eapply em_bind; [apply em_run_cbs|]. cbn [eval_conds].
    rewrite <- (app_nil_r [cb]). eapply em_bind.
    - rewrite <- (app_nil_r [cb]). eapply em_bind; [apply em_call|]. cbn [Bool.eqb]. apply em_ret.
    - apply em_ret.
  Qed.

  Lemma em_try sc s : forall ts, (forall t, In t ts -> guarded t) ->
    em s (try_transitions hm ev c sc ts) (flat_map cand_cbs ts) false.
  Proof.
    induction ts as [|t r IH]; intros G; cbn [try_transitions flat_map]; [apply em_ret|].
    eapply em_bind; [apply em_execute; apply G; now left|]. apply IH. intros t' I. apply G. now right.
  Qed.

  Definition attempt_cbs (ts : list htrans) (p : path) : list cbid :=
    hm_prepare_event hm ++ flat_map cand_cbs (cands ts p).

  Definition offered (s : forest) (sc : path) (ts : list htrans) (p : path) : bool :=
    andb (match cands ts p with [] => false | _ => true end) (active s (sc ++ p)).

  Lemma em_offer_loop s sc ts : (forall t, In t ts -> guarded t) -> forall order result, result <> Some true ->
    exists r, em s (offer_loop hm ev c sc ts order [] result)
                   (flat_map (attempt_cbs ts) (filter (offered s sc ts) order)) r /\ fst r <> Some true /\
              (fst r = None -> result = None).
  Proof.
    intros G. unfold offer_loop. induction order as [|q rest IH]; intros result NT; cbn [offer_loop_gen filter flat_map].
    - exists (result, []). split; [apply em_ret|]. cbn [fst]. auto.
    - cbn [existsb orb]. unfold offered at 1.
      destruct (cands ts q) as [|t0 tr0] eqn:CQ; cbn [negb andb].
      + exact (IH result NT).
      + destruct (active s (sc ++ q)) eqn:AQ.
        * cbn [flat_map].
          destruct (IH (match result with None => Some false | r => r end)) as (r & E & N1 & N2).
          { destruct result as [[|]|]; congruence. }
          exists (fst r, (q, s, false) :: snd r). split; [|split; [exact N1|]].
          -- rewrite <- (app_nil_l (attempt_cbs ts q ++ _)). eapply em_bind; [apply em_get|]. rewrite AQ. cbn [negb].
             eapply em_bind.
             ++ unfold attempt_cbs. eapply em_bind; [apply em_run_cbs|]. rewrite CQ. apply em_try.
                intros t I. apply G. rewrite <- CQ in I. unfold cands in I. apply filter_In in I. tauto.
             ++ rewrite <- (app_nil_r (flat_map _ _)). eapply em_bind; [exact E|]. apply em_ret.
          -- cbn [fst]. intros X. specialize (N2 X). destruct result as [[|]|]; congruence.
        * destruct (IH result NT) as (r & E & N1 & N2). exists r. split; [|auto].
          rewrite <- (app_nil_l (flat_map _ _)). eapply em_bind; [apply em_get|]. rewrite AQ. cbn [negb]. exact E.
  Qed.

  Definition nested_cbs (s : forest) (sc : path) (ts : list htrans) (key : nat) : list cbid :=
    match sub s sc with
    | Some cur => flat_map (attempt_cbs ts)
                    (filter (offered s sc ts)
                       (resolve_order (match f_get cur key with Some ch => [Node key ch] | None => [] end)))
    | None => []
    end.

  Lemma em_trigger_nested s sc ts key cur : (forall t, In t ts -> guarded t) -> sub s sc = Some cur ->
    exists r, em s (trigger_nested hm ev c sc ts key) (nested_cbs s sc ts key) r /\ r <> Some true.
  Proof.
    intros G S. unfold trigger_nested, nested_cbs. rewrite S.
    destruct (em_offer_loop s sc ts G (resolve_order (match f_get cur key with Some ch => [Node key ch] | None => [] end)) None
                ltac:(discriminate)) as (r & E & N1 & _).
    exists (fst r). split; [|exact N1].
    rewrite <- (app_nil_l (flat_map _ _)). eapply em_bind; [apply em_get|]. rewrite S.
    rewrite <- (app_nil_r (flat_map _ _)). eapply em_bind; [exact E|]. apply em_ret.
  Qed.

  (* the order, as a function of the (stale) tree handed down and the configuration *)
  Fixpoint seq_t (s : forest) (sc : path) (t : tree) : list cbid :=
    match t with
    | Node key ch =>
        if negb (active s (sc ++ [key])) then []
        else (fix go (l : list tree) : list cbid :=
                match l with [] => [] | t' :: l' => seq_t s (sc ++ [key]) t' ++ go l' end) ch
             ++ match lookup (scope_events hm sc) e with
                | None => []
                | Some ts => nested_cbs s sc ts key
                end
    end.
  Definition seq_f (s : forest) (sc : path) (l : list tree) : list cbid := flat_map (seq_t s sc) l.

  Lemma seq_go s sc key ch :
    (fix go (l : list tree) : list cbid :=
       match l with [] => [] | t' :: l' => seq_t s (sc ++ [key]) t' ++ go l' end) ch = seq_f s (sc ++ [key]) ch.
  Proof. induction ch as [|t r IH]; [reflexivity|]. cbn [seq_f flat_map]. now rewrite IH. Qed.

  Definition t_stmt (t : tree) : Prop :=
    forall s sc, exists r, em s (dispatch_t hm ev c e sc t) (seq_t s sc t) r /\ r <> Some true.

  Lemma f_of_t l : Forall t_stmt l -> forall s sc acc, acc <> Some true ->
    exists r, em s (dispatch_f hm ev c e sc l acc) (seq_f s sc l) r /\ r <> Some true.
  Proof.
    induction 1 as [|t r Ht _ IH]; intros s sc acc NA; cbn [dispatch_f seq_f flat_map].
    - exists acc. split; [apply em_ret|exact NA].
    - destruct (Ht s sc) as (r1 & E1 & N1).
      destruct (IH s sc (match r1 with None => acc | Some b => Some (orb b (match acc with Some a => a | None => false end)) end))
        as (r2 & E2 & N2).
      { destruct r1 as [[|]|]; [congruence| |exact NA]. destruct acc as [[|]|]; cbn; congruence. }
      exists r2. split; [|exact N2]. eapply em_bind; [exact E1|exact E2].
  Qed.

  Lemma active_sub s sc key : active s (sc ++ [key]) = true -> exists cur, sub s sc = Some cur.
  Proof. unfold active. rewrite sub_app. destruct (sub s sc); [eauto|discriminate]. Qed.

  Lemma t_all : forall t, t_stmt t.
  Proof.
    induction t as [key ch IH] using tree_ind2. intros s sc. cbn [dispatch_t seq_t]. rewrite seq_go.
    destruct (active s (sc ++ [key])) eqn:A; cbn [negb].
    - destruct (active_sub _ _ _ A) as [cur S].
      assert (R1 : exists r1, em s (match ch with
                                    | [] => ret None
                                    | _ => (fix go (l : list tree) (acc : option bool) : HM (option bool) :=
                                              match l with
                                              | [] => ret acc
                                              | t' :: l' =>
                                                  r <- dispatch_t hm ev c e (sc ++ [key]) t' ;;
                                                  go l' (match r with
                                                         | None => acc
                                                         | Some b => Some (orb b (match acc with Some a => a | None => false end))
                                                         end)
                                              end) ch None
                                    end) (seq_f s (sc ++ [key]) ch) r1 /\ r1 <> Some true).
      { destruct ch as [|c0 r0]; [exists None; split; [apply em_ret|discriminate]|].
        destruct (f_of_t (c0 :: r0) IH s (sc ++ [key]) None ltac:(discriminate)) as (r1 & E1 & N1).
        exists r1. split; [|exact N1]. intros p. destruct (E1 p) as (tr & E & M). exists tr. split; [|exact M].
        rewrite (dispatch_go_eq hm ev c e sc key (c0 :: r0) None p s). exact E. }
      destruct R1 as (r1 & E1 & N1).
      destruct (lookup (scope_events hm sc) e) as [ts|] eqn:L.
      + destruct (em_trigger_nested s sc ts key cur (fun t I => GRD sc ts t L I) S) as (r2 & E2 & N2).
        exists (match r2 with None => r1 | Some b => Some b end). split.
        * rewrite <- (app_nil_l (seq_f _ _ _ ++ _)). eapply em_bind; [apply em_get|]. rewrite A. cbn [negb].
          eapply em_bind; [exact E1|].
          destruct r1 as [[|]|]; [congruence| |];
            (rewrite <- (app_nil_r (nested_cbs _ _ _ _)); eapply em_bind; [exact E2|apply em_ret]).
        * destruct r2 as [[|]|]; [congruence|discriminate|exact N1].
      + exists r1. split; [|exact N1].
        rewrite <- (app_nil_l (seq_f _ _ _ ++ _)). eapply em_bind; [apply em_get|]. rewrite A. cbn [negb].
        eapply em_bind; [exact E1|]. destruct r1 as [[|]|]; [congruence|apply em_ret|apply em_ret].
    - exists None. split; [|discriminate].
      apply em_get_bind. rewrite A. cbn [negb]. apply em_ret.
  Qed.

  (* the whole dispatch of one event, started in configuration f *)
  Theorem dispatch_quiet_order f p :
    exists tr r, dispatch_f hm ev c e [] f None p f = (tr, f, inr r) /\ r <> Some true /\
                 map (@it_cb forest) tr = seq_f f [] f.
  Proof.
    destruct (f_of_t f (proj2 (Forall_forall t_stmt f) (fun t _ => t_all t)) f [] None ltac:(discriminate)) as (r & E & N).
    destruct (E p) as (tr & E' & M). exists tr, r. auto.
  Qed.

  (* the whole trigger when some active (scope, source) pair declares the event: all candidates blocked, the call
     returns False after the finalize callbacks; the callbacks ran in the order seq_f, then finalize_event *)
  Theorem trigger_quiet_order f p tr f' r :
    Hsm.trigger_event hm ev c e p f = (tr, f', r) ->
    (exists tr0, dispatch_f hm ev c e [] f None p f = (tr0, f, inr (Some false))) ->
    f' = f /\ r = inr false /\ map (@it_cb forest) tr = seq_f f [] f ++ hm_finalize hm.
  Proof.
    intros H (tr0 & D). destruct (dispatch_quiet_order f p) as (tr1 & r1 & D1 & _ & M1). rewrite D in D1.
    injection D1 as <- <-.
    unfold Hsm.trigger_event, try_except_finally in H. unfold bind at 1 in H. unfold get at 1 in H. cbn [length] in H.
    unfold bind at 1 in H. rewrite Nat.add_0_r in H. rewrite D in H. unfold ret in H. cbn [app length] in H.
    destruct (em_run_cbs f SFinalize None (hm_finalize hm) (p + length (tr0 ++ []))) as (t3 & E3 & M3).
    rewrite E3 in H. injection H as <- <- <-. split; [reflexivity|]. split; [reflexivity|].
    rewrite !map_app, M1, M3. cbn [map]. now rewrite app_nil_r.
  Qed.
End Order.
