(* BuildP.v — algebraic laws of construction scripts (Model/Build.v). *)
From Coq Require Import List Arith Bool Lia.
From M Require Import Base Flat Build.
Import ListNotations.

(* ------------------------------------------------------------------ scripts compose *)
Lemma exec_app : forall s1 s2 b,
  exec (s1 ++ s2) b = match exec s1 b with (b', None) => exec s2 b' | res => res end.
Proof.
  induction s1 as [|o r IH]; intros s2 b; simpl; [reflexivity|].
  destruct (run_op o b) as [b' [e|]]; [reflexivity|]. apply IH.
Qed.

Lemma exec_ts_app : forall l1 l2 b,
  exec_ts (l1 ++ l2) b = match exec_ts l1 b with (b', None) => exec_ts l2 b' | res => res end.
Proof.
  induction l1 as [|t r IH]; intros l2 b; simpl; [reflexivity|].
  destruct (add_transition t b) as [b' [e|]]; [reflexivity|]. apply IH.
Qed.

Lemma add_states_app : forall l1 l2 en ex ign fin b,
  add_states (l1 ++ l2) en ex ign fin b =
  match add_states l1 en ex ign fin b with (b', None) => add_states l2 en ex ign fin b' | res => res end.
Proof.
  induction l1 as [|f r IH]; intros; simpl; [reflexivity|].
  destruct (add_state1 en ex ign fin f b) as [b' [e|]]; [reflexivity|]. apply IH.
Qed.

Lemma exec_add_transitions : forall ts b, exec (map AddTransition ts) b = exec_ts ts b.
Proof.
  induction ts as [|t r IH]; intros b; simpl; [reflexivity|].
  destruct (add_transition t b) as [b' [e|]]; [reflexivity|]. apply IH.
Qed.

(* constructor arguments = the same calls made later *)
Lemma construct_later : forall h k rest,
  exec (ctor_script k ++ rest) (empty h) =
  match construct h k with (b, None) => exec rest b | res => res end.
Proof. intros. unfold construct. apply exec_app. Qed.

Lemma construct_unfold : forall h sts i ts m,
  construct h (mkCtor (Some sts) (Some i) (Some ts) true m) =
  exec ([AddStates sts CNone CNone None false; SetInitial i; AddTransitions ts; AddOrdered default_ordered]
        ++ (if m then [AddModel] else [])) (empty h).
Proof. reflexivity. Qed.

Lemma batch_states : forall l1 l2 en ex ign fin rest b,
  exec (AddStates (l1 ++ l2) en ex ign fin :: rest) b =
  exec (AddStates l1 en ex ign fin :: AddStates l2 en ex ign fin :: rest) b.
Proof.
  intros. simpl. rewrite add_states_app.
  destruct (add_states l1 en ex ign fin b) as [b' [e|]]; reflexivity.
Qed.

Lemma batch_transitions : forall l1 l2 rest b,
  exec (AddTransitions (l1 ++ l2) :: rest) b = exec (AddTransitions l1 :: AddTransitions l2 :: rest) b.
Proof.
  intros. simpl. rewrite map_app, exec_ts_app.
  destruct (exec_ts (map tf_spec l1) b) as [b' [e|]]; reflexivity.
Qed.

(* list elements = dict elements = one add_transition call each *)
Lemma list_dict : forall l b,
  run_op (AddTransitions l) b = exec (map (fun f => AddTransition (tf_spec f)) l) b.
Proof.
  intros. simpl. rewrite <- exec_add_transitions, map_map. reflexivity.
Qed.

Lemma list_dict_forms : forall ts b,
  run_op (AddTransitions (map TPos ts)) b = run_op (AddTransitions (map TKw ts)) b.
Proof. intros. simpl. rewrite !map_map. reflexivity. Qed.

(* ------------------------------------------------------------------ callbacks *)
Lemma cbs_canon : forall s, cbs (canon_cbspec s) = cbs s.
Proof.
  intros s. unfold canon_cbspec. simpl. rewrite map_map. simpl. apply map_id.
Qed.

Lemma mk_trans_canon : forall s d c, mk_trans s d (canon_tcbs c) = mk_trans s d c.
Proof. intros. unfold mk_trans, canon_tcbs. simpl c_prepare. simpl c_conditions. simpl c_unless.
  simpl c_before. simpl c_after. rewrite !cbs_canon. reflexivity. Qed.

Lemma add_edges_canon : forall trig d c srcs evs,
  add_edges trig d (canon_tcbs c) srcs evs = add_edges trig d c srcs evs.
Proof.
  intros trig d c srcs. unfold add_edges. induction srcs as [|s r IH]; intros evs; simpl; [reflexivity|].
  rewrite mk_trans_canon. apply IH.
Qed.

Lemma callback_repr_transition : forall trig src dst c b,
  add_transition (mkT trig src dst (canon_tcbs c)) b = add_transition (mkT trig src dst c) b.
Proof.
  intros. unfold add_transition.
  change (hsm_enum_bad b (mkT trig src dst (canon_tcbs c))) with (hsm_enum_bad b (mkT trig src dst c)).
  simpl. destruct (h_hsm (b_hdr b) && hsm_enum_bad b (mkT trig src dst c)); [reflexivity|].
  destruct (sources b src) as [[|s0 r]|]; try reflexivity.
  destruct (dst_bad b dst); [reflexivity|]. rewrite add_edges_canon. reflexivity.
Qed.

Lemma callback_repr_state : forall h cen cex cign cfin f,
  state_of_form h (canon_cbspec cen) (canon_cbspec cex) cign cfin
    (match f with
     | SDict n en ex fin ign => SDict n (canon_cbspec en) (canon_cbspec ex) fin ign
     | SObj n en ex fin ign => SObj n (canon_cbspec en) (canon_cbspec ex) fin ign
     | _ => f end)
  = state_of_form h cen cex cign cfin f.
Proof. intros. destruct f; unfold state_of_form; rewrite ?cbs_canon; reflexivity. Qed.

(* machine-level callbacks *)
Lemma callback_repr_header : forall hsm auto ign send pe bsc asc fin oe ofi sts evs i m en,
  flatten (mkBm (mkHdr hsm auto ign send (canon_cbspec pe) (canon_cbspec bsc) (canon_cbspec asc)
                       (canon_cbspec fin) (canon_cbspec oe) (canon_cbspec ofi)) sts evs i m en)
  = flatten (mkBm (mkHdr hsm auto ign send pe bsc asc fin oe ofi) sts evs i m en).
Proof. intros. unfold flatten. cbn [b_hdr h_pe h_bsc h_asc h_fin h_oe h_of]. rewrite !cbs_canon. reflexivity. Qed.

(* ------------------------------------------------------------------ state definitions *)
Lemma state_repr : forall cen cex cign cfin f cen' cex' cign' cfin' f' b,
  fst (state_of_form (b_hdr b) cen cex cign cfin f) = fst (state_of_form (b_hdr b) cen' cex' cign' cfin' f') ->
  is_enum_form f = is_enum_form f' ->
  (h_hsm (b_hdr b) = false \/
   snd (state_of_form (b_hdr b) cen cex cign cfin f) = snd (state_of_form (b_hdr b) cen' cex' cign' cfin' f')) ->
  add_state1 cen cex cign cfin f b = add_state1 cen' cex' cign' cfin' f' b.
Proof.
  intros cen cex cign cfin f cen' cex' cign' cfin' f' b H1 H2 H3. unfold add_state1.
  destruct (state_of_form (b_hdr b) cen cex cign cfin f) as [[n sd] chk].
  destruct (state_of_form (b_hdr b) cen' cex' cign' cfin' f') as [[n' sd'] chk'].
  simpl in H1, H3. inversion H1; subst n' sd'.
  assert (E : h_hsm (b_hdr b) && chk && registered b n = h_hsm (b_hdr b) && chk' && registered b n).
  { destruct H3 as [H3|H3]; [rewrite H3; reflexivity | subst; reflexivity]. }
  rewrite E. destruct (h_hsm (b_hdr b) && chk' && registered b n); [reflexivity|].
  destruct f, f'; simpl in H2; try discriminate; reflexivity.
Qed.

(* a name with add_states keyword arguments = a State object carrying them *)
Lemma state_repr_name_obj : forall n en ex ign fin b,
  add_state1 en ex ign fin (SName n) b =
  add_state1 CNone CNone None false
    (SObj n en ex fin (match ign with None => h_ignore (b_hdr b) | Some _ => ign end)) b.
Proof. intros. apply state_repr; [reflexivity|reflexivity|right; reflexivity]. Qed.

(* on Machine a dict = a State object (HierarchicalMachine differs only in refusing a
   duplicate State object) *)
Lemma state_repr_dict_obj : forall n en ex fin ign b, h_hsm (b_hdr b) = false ->
  add_state1 CNone CNone None false (SDict n en ex fin ign) b =
  add_state1 CNone CNone None false
    (SObj n en ex fin (match ign with None => h_ignore (b_hdr b) | Some v => v end)) b.
Proof. intros. apply state_repr; [reflexivity|reflexivity|left; assumption]. Qed.

(* an unset state flag means the machine's flag: same abstract machine *)
Lemma ignore_fallback : forall h n en ex fin evs i m ens pre post,
  flatten (mkBm h (pre ++ (n, mkSdef en ex fin None) :: post) evs i m ens) =
  flatten (mkBm h (pre ++ (n, mkSdef en ex fin (Some (eff_ignore h None))) :: post) evs i m ens).
Proof.
  intros. unfold flatten. simpl. rewrite !map_app. simpl. reflexivity.
Qed.

(* ------------------------------------------------------------------ state references *)
Lemma resolve_refs_names : forall b l, resolve_refs b (map RName l) = Some l.
Proof. induction l as [|x r IH]; simpl; [reflexivity|]. rewrite IH. reflexivity. Qed.

Lemma resolve_refs_ok : forall b l, forallb (ref_ok b) l = true ->
  resolve_refs b l = Some (map ref_id l).
Proof.
  induction l as [|x r IH]; simpl; intros H; [reflexivity|].
  apply andb_prop in H. destruct H as [Hx Hr]. rewrite (IH Hr).
  destruct x; simpl in *; try reflexivity. rewrite Hx. reflexivity.
Qed.

Lemma enum_bad_names : forall b l, existsb (enum_bad b) (map name_ref l) = false.
Proof. induction l as [|x r IH]; simpl; [reflexivity|exact IH]. Qed.

Lemma enum_ok_of_ref_ok : forall b r, ref_ok b r = true -> h_hsm (b_hdr b) && enum_bad b r = false.
Proof.
  intros b r H. destruct r; simpl in *; try apply andb_false_r.
  apply negb_true_iff in H. exact H.
Qed.

Lemma enum_ok_list : forall b l, forallb (ref_ok b) l = true ->
  h_hsm (b_hdr b) && existsb (enum_bad b) l = false.
Proof.
  induction l as [|x r IH]; simpl; intros H; [apply andb_false_r|].
  apply andb_prop in H. destruct H as [Hx Hr].
  rewrite andb_orb_distrib_r, (enum_ok_of_ref_ok _ _ Hx), (IH Hr). reflexivity.
Qed.

Lemma ref_repr : forall t b, refs_ok b t = true ->
  add_transition (mkT (ts_trig t) (name_src (ts_src t)) (name_dst (ts_dst t)) (ts_cbs t)) b
  = add_transition t b.
Proof.
  intros [trig src dst c] b H. unfold refs_ok in H. simpl in H.
  apply andb_prop in H. destruct H as [Hs Hd].
  unfold add_transition. simpl ts_trig. simpl ts_src. simpl ts_dst. simpl ts_cbs.
  (* the Enum pre-check passes on both sides *)
  assert (E1 : h_hsm (b_hdr b) && hsm_enum_bad b (mkT trig src dst c) = false).
  { unfold hsm_enum_bad. simpl.
    assert (Ed : h_hsm (b_hdr b) && match dst with DstTo r => enum_bad b r | _ => false end = false).
    { destruct dst; try apply andb_false_r. apply enum_ok_of_ref_ok. exact Hd. }
    destruct src as [|r|l].
    - destruct dst; try apply andb_false_r. exact Ed.
    - rewrite andb_orb_distrib_r, (enum_ok_of_ref_ok _ _ Hs), Ed. reflexivity.
    - rewrite andb_orb_distrib_r, (enum_ok_list _ _ Hs), Ed. reflexivity. }
  assert (E2 : h_hsm (b_hdr b) && hsm_enum_bad b (mkT trig (name_src src) (name_dst dst) c) = false).
  { unfold hsm_enum_bad. simpl.
    destruct src as [|r|l]; destruct dst as [|r'|]; simpl; try apply andb_false_r.
    rewrite enum_bad_names. apply andb_false_r.
    rewrite enum_bad_names. apply andb_false_r.
    rewrite enum_bad_names. apply andb_false_r. }
  rewrite E1, E2.
  assert (S : sources b (name_src src) = sources b src).
  { destruct src as [|r|l]; simpl; [reflexivity| |].
    - destruct r; simpl in *; try reflexivity. rewrite Hs. reflexivity.
    - unfold name_ref. rewrite <- map_map, resolve_refs_names. symmetry. apply resolve_refs_ok. exact Hs. }
  rewrite S.
  assert (B1 : dst_bad b dst = false).
  { destruct dst as [|r|]; try reflexivity. destruct r; simpl in *; try reflexivity. rewrite Hd. reflexivity. }
  assert (B2 : dst_bad b (name_dst dst) = false) by (destruct dst; reflexivity).
  rewrite B1, B2.
  destruct (sources b src) as [[|s0 r]|]; try reflexivity.
  assert (D : forall s, dst_of (name_dst dst) s = dst_of dst s) by (intros; destruct dst; reflexivity).
  unfold add_edges. f_equal. f_equal.
  generalize (ensure_event trig (b_events b)). generalize (s0 :: r).
  induction l as [|x l IH]; intros evs; simpl; [reflexivity|]. rewrite D. apply IH.
Qed.

Lemma initial_repr_enum : forall n b, set_initial (REnum n) b = set_initial (RName n) b.
Proof. reflexivity. Qed.
Lemma initial_repr_obj : forall n b, registered b n = true -> set_initial (RObj n) b = set_initial (RName n) b.
Proof. intros n b H. unfold set_initial. simpl. rewrite H. reflexivity. Qed.

(* ------------------------------------------------------------------ wildcard *)
Lemma names_not_enum_bad : forall b l, existsb (enum_bad b) (map RName l) = false.
Proof. induction l as [|x r IH]; simpl; [reflexivity|exact IH]. Qed.

Lemma wildcard_expansion : forall trig d c b,
  add_transition (mkT trig SrcWild d c) b =
  add_transition (mkT trig (SrcMany (map RName (state_names b))) d c) b.
Proof.
  intros. unfold add_transition. simpl ts_src. simpl ts_trig. simpl ts_dst. simpl ts_cbs.
  assert (E : hsm_enum_bad b (mkT trig (SrcMany (map RName (state_names b))) d c)
              = hsm_enum_bad b (mkT trig SrcWild d c)).
  { unfold hsm_enum_bad. simpl. rewrite names_not_enum_bad. destruct d; reflexivity. }
  rewrite E. simpl sources. rewrite resolve_refs_names. reflexivity.
Qed.

(* ------------------------------------------------------------------ several sources / '=' *)
Lemma has_key_add_trans1 : forall trig s t evs, has_key trig (add_trans1 trig s t evs) = true.
Proof.
  induction evs as [|[e g] r IH]; simpl; [rewrite Nat.eqb_refl; reflexivity|].
  destruct (Nat.eqb trig e) eqn:E; simpl; rewrite E; simpl; [reflexivity|exact IH].
Qed.

Lemma has_key_app {A} : forall k (l1 l2 : list (nat * A)), has_key k (l1 ++ l2) = has_key k l1 || has_key k l2.
Proof.
  induction l1 as [|[k' v] r IH]; intros; simpl; [reflexivity|]. rewrite IH. apply orb_assoc.
Qed.

Lemma has_key_ensure : forall trig evs, has_key trig (ensure_event trig evs) = true.
Proof.
  intros. unfold ensure_event. destruct (has_key trig evs) eqn:E; [exact E|].
  rewrite has_key_app. simpl. rewrite Nat.eqb_refl. apply orb_true_r.
Qed.

Lemma ensure_event_id : forall trig evs, has_key trig evs = true -> ensure_event trig evs = evs.
Proof. intros. unfold ensure_event. rewrite H. reflexivity. Qed.

Lemma plain_dst_ok : forall b d, plain_dst d = true ->
  dst_bad b d = false /\ match d with DstTo r => enum_bad b r | _ => false end = false.
Proof. intros b d H. destruct d as [|[]|]; simpl in *; try discriminate; split; reflexivity. Qed.

Lemma add_transition_one : forall trig s d c b, plain_dst d = true ->
  add_transition (mkT trig (SrcOne (RName s)) d c) b =
  (set_events b (add_trans1 trig s (mk_trans s (dst_of d s) c) (ensure_event trig (b_events b))), None).
Proof.
  intros trig s d c b H. destruct (plain_dst_ok b d H) as [H1 H2].
  unfold add_transition, hsm_enum_bad. simpl. rewrite H1, H2. rewrite andb_false_r. reflexivity.
Qed.

Lemma split_aux : forall trig c d (dd : state -> dstspec) l b,
  (forall s, plain_dst (dd s) = true /\ dst_of (dd s) s = dst_of d s) ->
  has_key trig (b_events b) = true ->
  exec_ts (map (fun s => mkT trig (SrcOne (RName s)) (dd s) c) l) b =
  (set_events b (add_edges trig d c l (b_events b)), None).
Proof.
  intros trig c d dd l. induction l as [|s r IH]; intros b Hdd Hk.
  - destruct b; reflexivity.
  - simpl map. simpl exec_ts. destruct (Hdd s) as [Hp He].
    rewrite (add_transition_one _ _ _ _ _ Hp), He, (ensure_event_id _ _ Hk).
    rewrite IH; [reflexivity|exact Hdd|simpl; apply has_key_add_trans1].
Qed.

Lemma many_split : forall trig c d (dd : state -> dstspec) l b,
  l <> [] -> plain_dst d = true ->
  (forall s, plain_dst (dd s) = true /\ dst_of (dd s) s = dst_of d s) ->
  add_transition (mkT trig (SrcMany (map RName l)) d c) b =
  exec_ts (map (fun s => mkT trig (SrcOne (RName s)) (dd s) c) l) b.
Proof.
  intros trig c d dd l b Hl Hp Hdd. destruct l as [|s r]; [congruence|].
  destruct (plain_dst_ok b d Hp) as [H1 H2].
  assert (E : hsm_enum_bad b (mkT trig (SrcMany (map RName (s :: r))) d c) = false).
  { unfold hsm_enum_bad. cbn [ts_src ts_dst]. rewrite names_not_enum_bad, H2. destruct d; reflexivity. }
  unfold add_transition at 1. rewrite E, andb_false_r. cbn [ts_src ts_dst ts_trig ts_cbs].
  simpl sources. rewrite resolve_refs_names, H1.
  simpl map. simpl exec_ts. destruct (Hdd s) as [Hps Hes].
  rewrite (add_transition_one _ _ _ _ _ Hps), Hes.
  rewrite (split_aux trig c d dd r _ Hdd); [reflexivity|simpl; apply has_key_add_trans1].
Qed.

(* one call with a list of sources = one call per source *)
Lemma many_sources : forall trig c d l b, l <> [] -> plain_dst d = true ->
  add_transition (mkT trig (SrcMany (map RName l)) d c) b =
  exec_ts (map (fun s => mkT trig (SrcOne (RName s)) d c) l) b.
Proof. intros. apply many_split with (dd := fun _ => d); auto. Qed.

(* dest '=' = the reflexive transition spelled out per source *)
Lemma reflexive_expansion : forall trig c l b, l <> [] ->
  add_transition (mkT trig (SrcMany (map RName l)) DstSame c) b =
  exec_ts (map (fun s => mkT trig (SrcOne (RName s)) (DstTo (RName s)) c) l) b.
Proof. intros. apply many_split with (dd := fun s => DstTo (RName s)); auto. Qed.

(* '*' with '=' over the states existing now *)
Lemma wildcard_reflexive : forall trig c b, state_names b <> [] ->
  add_transition (mkT trig SrcWild DstSame c) b =
  exec_ts (map (fun s => mkT trig (SrcOne (RName s)) (DstTo (RName s)) c) (state_names b)) b.
Proof. intros. rewrite wildcard_expansion. apply reflexive_expansion. assumption. Qed.

(* ------------------------------------------------------------------ ordered helper *)
Lemma ordered_as_calls : forall o b,
  run_op (AddOrdered o) b =
  match ordered_ts b o with inl e => (b, Some e) | inr ts => exec (map AddTransition ts) b end.
Proof. intros. simpl. unfold add_ordered. destruct (ordered_ts b o); [reflexivity|]. symmetry. apply exec_add_transitions. Qed.

(* ------------------------------------------------------------------ remove: exact inverse *)
Lemma add_transition_frame : forall t b b' e, add_transition t b = (b', e) -> b' = set_events b (b_events b').
Proof.
  intros t b b' e H. unfold add_transition in H.
  destruct (h_hsm (b_hdr b) && hsm_enum_bad b t).
  - inversion H; subst. destruct b'; reflexivity.
  - destruct (sources b (ts_src t)) as [[|s r]|]; [inversion H; reflexivity| |inversion H; reflexivity].
    destruct (dst_bad b (ts_dst t)); inversion H; reflexivity.
Qed.

Lemma add_trans1_tail : forall trig s t evs0 g, has_key trig evs0 = false ->
  add_trans1 trig s t (evs0 ++ [(trig, g)]) = evs0 ++ [(trig, add_to_group s t g)].
Proof.
  induction evs0 as [|[e g0] r IH]; intros g H; simpl in *.
  - rewrite Nat.eqb_refl. reflexivity.
  - apply orb_false_elim in H. destruct H as [H1 H2]. rewrite H1, (IH g H2). reflexivity.
Qed.

Lemma add_edges_tail : forall trig d c l evs0 g, has_key trig evs0 = false ->
  exists g', add_edges trig d c l (evs0 ++ [(trig, g)]) = evs0 ++ [(trig, g')].
Proof.
  intros trig d c l evs0. unfold add_edges. induction l as [|s r IH]; intros g H; simpl.
  - exists g. reflexivity.
  - rewrite (add_trans1_tail _ _ _ _ _ H). apply IH. exact H.
Qed.

Definition at_tail (evs0 : list (event * groups)) (trig : event) (evs : list (event * groups)) : Prop :=
  exists g, evs = evs0 ++ [(trig, g)].

Lemma ensure_tail : forall trig evs0 evs, has_key trig evs0 = false ->
  evs = evs0 \/ at_tail evs0 trig evs -> at_tail evs0 trig (ensure_event trig evs).
Proof.
  intros trig evs0 evs H [E|[g E]]; subst; unfold ensure_event.
  - rewrite H. exists []. reflexivity.
  - rewrite has_key_app. simpl. rewrite Nat.eqb_refl, orb_true_r. exists g. reflexivity.
Qed.

Lemma add_transition_tail : forall t b b' evs0, has_key (ts_trig t) evs0 = false ->
  b_events b = evs0 \/ at_tail evs0 (ts_trig t) (b_events b) ->
  add_transition t b = (b', None) -> at_tail evs0 (ts_trig t) (b_events b').
Proof.
  intros t b b' evs0 H T E. unfold add_transition in E.
  destruct (h_hsm (b_hdr b) && hsm_enum_bad b t); [discriminate|].
  destruct (ensure_tail _ _ _ H T) as [g Eg].
  destruct (sources b (ts_src t)) as [[|s r]|]; [| |discriminate].
  - inversion E; subst. simpl. exists g. exact Eg.
  - destruct (dst_bad b (ts_dst t)); [discriminate|]. injection E as Eb. rewrite <- Eb.
    unfold at_tail. cbn [set_events b_events]. rewrite Eg.
    exact (add_edges_tail (ts_trig t) (ts_dst t) (ts_cbs t) (s :: r) evs0 g H).
Qed.

Lemma exec_ts_tail : forall trig ts b b' evs0, has_key trig evs0 = false ->
  Forall (fun t => ts_trig t = trig) ts -> at_tail evs0 trig (b_events b) ->
  exec_ts ts b = (b', None) -> at_tail evs0 trig (b_events b') /\ b' = set_events b (b_events b').
Proof.
  intros trig ts. induction ts as [|t r IH]; intros b b' evs0 H F T E; simpl in E.
  - inversion E; subst. split; [exact T|destruct b'; reflexivity].
  - inversion F as [|? ? Ht Fr]; subst.
    destruct (add_transition t b) as [b1 [e|]] eqn:E1; [discriminate|].
    pose proof (add_transition_tail _ _ _ _ H (or_intror T) E1) as T1.
    pose proof (add_transition_frame _ _ _ _ E1) as F1.
    destruct (IH b1 b' evs0 H Fr T1 E) as [T2 F2]. split; [exact T2|].
    rewrite F2. rewrite F1. reflexivity.
Qed.

Lemma filter_all_out {A} : forall (m : A -> bool) l, (forall t, m t = true) -> filter (fun t => negb (m t)) l = [].
Proof. intros m l H. induction l as [|x r IH]; simpl; [reflexivity|]. rewrite H. exact IH. Qed.

Lemma remove_groups_all : forall m g, (forall t, m t = true) -> remove_groups m g = [].
Proof.
  intros m g H. unfold remove_groups. induction g as [|[s ts] r IH]; simpl; [reflexivity|].
  rewrite (filter_all_out m ts H). simpl. exact IH.
Qed.

Lemma remove_ev_tail : forall m trig evs0 g, has_key trig evs0 = false -> (forall t, m t = true) ->
  remove_ev m trig (evs0 ++ [(trig, g)]) = evs0.
Proof.
  induction evs0 as [|[e g0] r IH]; intros g H Hm; simpl in *.
  - rewrite Nat.eqb_refl, (remove_groups_all m g Hm). reflexivity.
  - apply orb_false_elim in H. destruct H as [H1 H2]. rewrite H1, (IH g H2 Hm). reflexivity.
Qed.

(* transitions added for a trigger the machine did not know, then removed: the machine is
   exactly what it was *)
Lemma remove_inverse : forall trig ts b b',
  has_key trig (b_events b) = false -> ts <> [] -> Forall (fun t => ts_trig t = trig) ts ->
  exec_ts ts b = (b', None) -> remove_transition trig FWild FWild b' = (b, None).
Proof.
  intros trig ts b b' H Hne F E. destruct ts as [|t r]; [congruence|].
  inversion F as [|? ? Ht Fr]; subst. simpl in E.
  destruct (add_transition t b) as [b1 [e|]] eqn:E1; [discriminate|].
  pose proof (add_transition_tail _ _ _ _ H (or_introl eq_refl) E1) as T1.
  pose proof (add_transition_frame _ _ _ _ E1) as F1.
  destruct (exec_ts_tail _ _ _ _ _ H Fr T1 E) as [[g Eg] F2].
  unfold remove_transition. simpl filt_enum_bad. rewrite andb_false_r.
  rewrite Eg, has_key_app. simpl. rewrite Nat.eqb_refl, orb_true_r.
  rewrite remove_ev_tail; [|exact H|intros; reflexivity].
  rewrite F2, F1. destruct b; reflexivity.
Qed.

(* ------------------------------------------------------------------ behaviour is a function
   of the abstract machine *)
Lemma trigger_event_ext : forall mc ev c ts1 ts2,
  (forall s, candidates ts1 s = candidates ts2 s) ->
  forall p cur, trigger_event mc ev c ts1 p cur = trigger_event mc ev c ts2 p cur.
Proof.
  intros mc ev c ts1 ts2 H p cur. unfold trigger_event, bind, get. simpl.
  destruct (get_state mc cur); [|reflexivity].
  unfold checked_process, process. rewrite (H cur). reflexivity.
Qed.

Lemma can_trigger_ext : forall mc ev c ts1 ts2,
  (forall s, candidates ts1 s = candidates ts2 s) ->
  forall p cur, (cur' <- get ;; match get_state mc cur' with None => raise ValueError
                                | Some _ => can_loop mc ev c (candidates ts1 cur') end) p cur
              = (cur' <- get ;; match get_state mc cur' with None => raise ValueError
                                | Some _ => can_loop mc ev c (candidates ts2 cur') end) p cur.
Proof. intros. unfold bind, get. simpl. rewrite (H cur). reflexivity. Qed.

Lemma mequiv_trigger : forall m1 m2, mequiv m1 m2 ->
  forall ev c e p cur, trigger m1 ev c e p cur = trigger m2 ev c e p cur.
Proof.
  intros [st1 ev1 a1 b1 c1 d1 e1 f1 g1 h1] [st2 ev2 a2 b2 c2 d2 e2 f2 g2 h2] H ev c e p cur.
  unfold mequiv in H. simpl in H.
  destruct H as (H1 & H2 & H3 & H4 & H5 & H6 & H7 & H8 & H9 & He). subst.
  specialize (He e). unfold trigger. cbn [m_events].
  destruct (lookup ev1 e) as [t1|]; destruct (lookup ev2 e) as [t2|]; simpl in He; try contradiction.
  - rewrite (trigger_event_ext _ ev c t1 t2 He). reflexivity.
  - reflexivity.
Qed.

Lemma mequiv_can_trigger : forall m1 m2, mequiv m1 m2 ->
  forall ev c e p cur, can_trigger m1 ev c e p cur = can_trigger m2 ev c e p cur.
Proof.
  intros [st1 ev1 a1 b1 c1 d1 e1 f1 g1 h1] [st2 ev2 a2 b2 c2 d2 e2 f2 g2 h2] H ev c e p cur.
  unfold mequiv in H. simpl in H.
  destruct H as (H1 & H2 & H3 & H4 & H5 & H6 & H7 & H8 & H9 & He). subst.
  specialize (He e). unfold can_trigger, bind, get. simpl.
  destruct (get_state _ cur); [|reflexivity]. simpl.
  destruct (lookup ev1 e) as [t1|]; destruct (lookup ev2 e) as [t2|]; simpl in He; try contradiction.
  - rewrite (He cur). reflexivity.
  - reflexivity.
Qed.

Lemma mequiv_refl : forall m, mequiv m m.
Proof.
  intros m. unfold mequiv. repeat split. intros e. destruct (lookup (m_events m) e); simpl; auto.
Qed.

(* two scripts that build equivalent machines: every trigger call and every may_ query, in
   every state, under every environment, produces the same trace, result and next state;
   hence (by induction on the history, each call starting from the previous call's state)
   the same on every event history *)
Lemma behaviour : forall b1 b2, beq b1 b2 ->
  forall ev c e p cur,
    trigger (flatten b1) ev c e p cur = trigger (flatten b2) ev c e p cur /\
    can_trigger (flatten b1) ev c e p cur = can_trigger (flatten b2) ev c e p cur.
Proof.
  intros b1 b2 [H _] ev c e p cur. split; [apply mequiv_trigger|apply mequiv_can_trigger]; exact H.
Qed.

Lemma beq_refl : forall b, beq b b.
Proof. intros. split; [apply mequiv_refl|split; reflexivity]. Qed.

Fixpoint run_calls (mc : machine) (ev : env) (c : ctx) (hs : list event) (p : nat) (s : state)
  : list (list item * state * (exn + bool)) :=
  match hs with
  | [] => []
  | e :: r => match trigger mc ev c e p s with
              | (tr, s', res) => (tr, s', res) :: run_calls mc ev c r (p + length tr) s'
              end
  end.

Lemma behaviour_history : forall b1 b2, beq b1 b2 ->
  forall ev c hs p s, run_calls (flatten b1) ev c hs p s = run_calls (flatten b2) ev c hs p s.
Proof.
  intros b1 b2 H ev c hs. induction hs as [|e r IH]; intros p s; simpl; [reflexivity|].
  destruct (behaviour b1 b2 H ev c e p s) as [E _]. rewrite E.
  destruct (trigger (flatten b2) ev c e p s) as [[tr s'] res]. rewrite IH. reflexivity.
Qed.

Definition h0 : hdr := mkHdr false false None false CNone CNone CNone CNone CNone CNone.
Definition three : list op :=
  [AddStates [SName 0; SName 1; SName 2] CNone CNone None false; SetInitial (RName 1)].
Definition ord (l : list sref) : op := AddOrdered (mkO (Some l) 0 false true ONone ONone ONone ONone ONone).
Definition go01 : list op :=
  three ++ [AddTransition (mkT 2 (SrcOne (RName 0)) (DstTo (RName 1)) no_cbs);
            AddTransition (mkT 2 (SrcOne (RName 1)) (DstTo (RName 2)) no_cbs)].

(* ------------------------------------------------------------------ remove_transition: the
   filter is independent of the representation of its elements *)
Lemma t_match_names : forall fs fd t,
  t_match (name_filt_src fs) (name_filt_dst fd) t = t_match fs fd t.
Proof.
  intros fs fd t. unfold t_match. f_equal.
  - destruct fs as [|l]; [reflexivity|]. simpl. induction l as [|r l IH]; simpl; [reflexivity|].
    rewrite IH. reflexivity.
  - destruct fd as [|l]; [reflexivity|]. simpl. induction l as [|r l IH]; simpl; [reflexivity|].
    rewrite IH. f_equal. destruct r as [r|]; destruct (t_dst t); reflexivity.
Qed.

Lemma remove_groups_ext : forall m1 m2 g, (forall t, m1 t = m2 t) -> remove_groups m1 g = remove_groups m2 g.
Proof.
  intros m1 m2 g H. unfold remove_groups. f_equal. apply map_ext. intros [s ts]. simpl. f_equal.
  apply filter_ext. intros t. rewrite H. reflexivity.
Qed.

Lemma remove_ev_ext : forall m1 m2 trig evs, (forall t, m1 t = m2 t) ->
  remove_ev m1 trig evs = remove_ev m2 trig evs.
Proof.
  intros m1 m2 trig evs H. induction evs as [|[e g] r IH]; simpl; [reflexivity|].
  rewrite IH, (remove_groups_ext m1 m2 g H). reflexivity.
Qed.

Lemma filt_enum_bad_names : forall b fs fd, filt_enum_bad b (name_filt_src fs) (name_filt_dst fd) = false.
Proof.
  intros b fs fd. unfold filt_enum_bad.
  assert (A : match name_filt_src fs with FWild => false | FList l => existsb (enum_bad b) l end = false).
  { destruct fs as [|l]; [reflexivity|]. simpl. apply enum_bad_names. }
  rewrite A. simpl. destruct fd as [|l]; [reflexivity|]. simpl.
  induction l as [|o l IH]; simpl; [reflexivity|]. rewrite IH. destruct o; reflexivity.
Qed.

(* Machine and HierarchicalMachine: names, Enum members and State objects select the same
   transitions (HierarchicalMachine raises for an Enum member no state was created from) *)
Lemma remove_filter_repr : forall trig fs fd b,
  h_hsm (b_hdr b) && filt_enum_bad b fs fd = false ->
  remove_transition trig (name_filt_src fs) (name_filt_dst fd) b = remove_transition trig fs fd b.
Proof.
  intros trig fs fd b H. unfold remove_transition. rewrite H, filt_enum_bad_names, andb_false_r.
  destruct (has_key trig (b_events b)); [|reflexivity].
  rewrite (remove_ev_ext (t_match (name_filt_src fs) (name_filt_dst fd)) (t_match fs fd)); [reflexivity|].
  intros t. apply t_match_names.
Qed.

(* ------------------------------------------------------------------ ordered helper: the
   states argument is independent of the representation of its elements *)
Lemma index_of_map {A B} : forall (f : A -> B) (p : B -> bool) (q : A -> bool) l,
  (forall x, p (f x) = q x) -> index_of p (map f l) = index_of q l.
Proof.
  intros f p q l H. induction l as [|x r IH]; simpl; [reflexivity|]. rewrite H, IH. reflexivity.
Qed.

Lemma rotate_map {A B} : forall (f : A -> B) k l, rotate k (map f l) = map f (rotate k l).
Proof. intros. unfold rotate. rewrite map_app, skipn_map, firstn_map. reflexivity. Qed.

Lemma ordered_ts_names : forall b o l,
  ordered_ts b (with_states o (Some (map name_ref l))) =
  match ordered_ts b (with_states o (Some l)) with
  | inl e => inl e
  | inr ts => inr (map name_tspec ts)
  end.
Proof.
  intros b o l. unfold ordered_ts. cbn [with_states o_states o_trig o_loop o_incl o_conds o_unless o_before o_after o_prepare].
  rewrite map_length. destruct (Nat.ltb (length l) 2); [reflexivity|].
  destruct (prep _ (o_conds o)) as [c|]; [|reflexivity].
  destruct (prep _ (o_unless o)) as [u|]; [|reflexivity].
  destruct (prep _ (o_before o)) as [bf|]; [|reflexivity].
  destruct (prep _ (o_after o)) as [af|]; [|reflexivity].
  destruct (prep _ (o_prepare o)) as [pr|]; [|reflexivity].
  rewrite (index_of_map name_ref (is_init (b_initial b)) (is_init (b_initial b)) l)
    by (intros x; unfold is_init; destruct (b_initial b); reflexivity).
  f_equal.
  change (RName 0) with (name_ref (RName 0)).
  destruct (index_of (is_init (b_initial b)) l) as [idx|]; cbn [fst snd].
  - rewrite rotate_map, map_app. f_equal.
    + rewrite map_map. apply map_ext. intros i. unfold name_tspec. cbn [ts_trig ts_src ts_dst ts_cbs name_src name_dst].
      rewrite !map_nth. reflexivity.
    + destruct (o_loop o); [|reflexivity]. simpl map. unfold name_tspec.
      cbn [ts_trig ts_src ts_dst ts_cbs name_src name_dst]. rewrite !map_nth. reflexivity.
  - rewrite map_app. f_equal.
    + rewrite map_map. apply map_ext. intros i. unfold name_tspec. cbn [ts_trig ts_src ts_dst ts_cbs name_src name_dst].
      rewrite !map_nth. reflexivity.
    + destruct (o_loop o); [|reflexivity]. simpl map. unfold name_tspec.
      cbn [ts_trig ts_src ts_dst ts_cbs name_src name_dst]. rewrite !map_nth. reflexivity.
Qed.

Lemma refs_ok_frame : forall b evs t, refs_ok (set_events b evs) t = refs_ok b t.
Proof. reflexivity. Qed.

Lemma exec_ts_names : forall ts b, Forall (fun t => refs_ok b t = true) ts ->
  exec_ts (map name_tspec ts) b = exec_ts ts b.
Proof.
  induction ts as [|t r IH]; intros b F; simpl; [reflexivity|].
  inversion F as [|? ? Ht Fr]; subst.
  unfold name_tspec at 1. rewrite (ref_repr t b Ht).
  destruct (add_transition t b) as [b' [e|]] eqn:E; [reflexivity|].
  apply IH. rewrite (add_transition_frame _ _ _ _ E).
  eapply Forall_impl; [|exact Fr]. intros a Ha. rewrite refs_ok_frame. exact Ha.
Qed.

Lemma nth_ref_ok : forall b l i, forallb (ref_ok b) l = true -> ref_ok b (nth i l (RName 0)) = true.
Proof.
  intros b l. induction l as [|x r IH]; intros i H; destruct i; simpl in *; try reflexivity.
  - apply andb_prop in H. apply H.
  - apply andb_prop in H. apply IH. apply H.
Qed.

Lemma forallb_rotate {A} : forall (p : A -> bool) k l, forallb p (rotate k l) = forallb p l.
Proof.
  intros. unfold rotate. rewrite forallb_app, andb_comm, <- forallb_app, firstn_skipn. reflexivity.
Qed.

Lemma ordered_refs_ok : forall b o l ts, forallb (ref_ok b) l = true ->
  ordered_ts b (with_states o (Some l)) = inr ts -> Forall (fun t => refs_ok b t = true) ts.
Proof.
  intros b o l ts Hl H. unfold ordered_ts in H.
  cbn [with_states o_states o_trig o_loop o_incl o_conds o_unless o_before o_after o_prepare] in H.
  destruct (Nat.ltb (length l) 2); [discriminate|].
  destruct (prep _ (o_conds o)) as [c|]; [|discriminate].
  destruct (prep _ (o_unless o)) as [u|]; [|discriminate].
  destruct (prep _ (o_before o)) as [bf|]; [|discriminate].
  destruct (prep _ (o_after o)) as [af|]; [|discriminate].
  destruct (prep _ (o_prepare o)) as [pr|]; [|discriminate].
  remember (match index_of (is_init (b_initial b)) l with
            | Some idx => (rotate idx l, nth (if o_incl o then 0 else 1) (rotate idx l) (RName 0))
            | None => (l, nth 0 l (RName 0)) end) as rf eqn:Erf.
  assert (K : forallb (ref_ok b) (fst rf) = true /\ ref_ok b (snd rf) = true).
  { subst rf. destruct (index_of (is_init (b_initial b)) l); cbn [fst snd].
    - assert (R : forallb (ref_ok b) (rotate n l) = true) by (rewrite forallb_rotate; exact Hl).
      split; [exact R|apply nth_ref_ok; exact R].
    - split; [exact Hl|apply nth_ref_ok; exact Hl]. }
  destruct K as [K1 K2]. injection H as H. subst ts.
  apply Forall_app. split.
  - apply Forall_forall. intros t Hin. apply in_map_iff in Hin. destruct Hin as [i [Et _]]. subst t.
    unfold refs_ok. cbn [ts_src ts_dst]. rewrite !nth_ref_ok by exact K1. reflexivity.
  - destruct (o_loop o); [|constructor]. constructor; [|constructor].
    unfold refs_ok. cbn [ts_src ts_dst]. rewrite nth_ref_ok by exact K1. rewrite K2. reflexivity.
Qed.

(* add_ordered_transitions(states=[names / Enum members / State objects]): same machine *)
Lemma ordered_repr : forall o l b, forallb (ref_ok b) l = true ->
  add_ordered (with_states o (Some (map name_ref l))) b = add_ordered (with_states o (Some l)) b.
Proof.
  intros o l b Hl. unfold add_ordered. rewrite ordered_ts_names.
  destruct (ordered_ts b (with_states o (Some l))) as [e|ts] eqn:E; [reflexivity|].
  apply exec_ts_names. eapply ordered_refs_ok; eassumption.
Qed.

(* states=None is the list of all state names *)
Lemma ordered_default_states : forall o b,
  add_ordered (with_states o None) b = add_ordered (with_states o (Some (map RName (state_names b)))) b.
Proof. reflexivity. Qed.
