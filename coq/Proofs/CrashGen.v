(* CrashGen.v — the compositional crash predicate, generic in the engine state. *)
From Coq Require Import List Arith Bool Lia.
From M Require Import Base.
Import ListNotations.

(* CrashGen — "crashes cleanly", generically in the engine state S (the callbacks see the whole
   state: V = S, seen = id).  Used for the hierarchical engine (S = forest). *)
Definition single_raise (ev : env) (k : nat) (e : exn) : Prop :=
  (forall cb, r_raise (ev cb k) = Some e) /\ (forall cb q, q <> k -> r_raise (ev cb q) = None).
Definition strip (ev : env) : env := fun cb q => mkReply (r_ret (ev cb q)) None (r_acts (ev cb q)).

Section Gen.
  Context {S : Type}.
  Variable dummy : gitem S.
  Notation MM := (M (V:=S) (S:=S)).
  Notation ids := (fun s : S => s).

  Definition crash_ok {A} (F : env -> MM A) : Prop :=
    forall ev k e, single_raise ev k e ->
    forall p s t0 s0 a, F (strip ev) p s = (t0, s0, inr a) ->
      ((k < p \/ p + length t0 <= k) -> F ev p s = (t0, s0, inr a)) /\
      ((p <= k < p + length t0) ->
         F ev p s = (firstn (k - p + 1) t0, it_state (nth (k - p) t0 dummy), inl e)).

  (* programs whose twin raises an engine exception (MachineError ...): same behaviour up to there *)
  Definition crash_ok_exn {A} (F : env -> MM A) : Prop :=
    forall ev k e, single_raise ev k e ->
    forall p s t0 s0 x, F (strip ev) p s = (t0, s0, inl x) ->
      ((k < p \/ p + length t0 <= k) -> F ev p s = (t0, s0, inl x)) /\
      ((p <= k < p + length t0) ->
         F ev p s = (firstn (k - p + 1) t0, it_state (nth (k - p) t0 dummy), inl e)).

  Lemma cg_ret {A} (a : A) : crash_ok (fun _ => ret a) /\ crash_ok_exn (fun _ => ret a).
  Proof.
    split; intros ev k e SR p s t0 s0 x H; unfold ret in *; [|discriminate].
    inversion H; subst. split; intros; [reflexivity|]. cbn in *. lia.
  Qed.
  Lemma cg_raise {A} (y : exn) : crash_ok (fun _ => @raise S S A y) /\ crash_ok_exn (fun _ => @raise S S A y).
  Proof.
    split; intros ev k e SR p s t0 s0 x H; unfold raise in *; [discriminate|].
    inversion H; subst. split; intros; [reflexivity|]. cbn in *. lia.
  Qed.
  Lemma cg_get : crash_ok (fun _ => @get S S) /\ crash_ok_exn (fun _ => @get S S).
  Proof.
    split; intros ev k e SR p s t0 s0 x H; unfold get in *; [|discriminate].
    inversion H; subst. split; intros; [reflexivity|]. cbn in *. lia.
  Qed.
  Lemma cg_put (y : S) : crash_ok (fun _ => @put S S y) /\ crash_ok_exn (fun _ => @put S S y).
  Proof.
    split; intros ev k e SR p s t0 s0 x H; unfold put in *; [|discriminate].
    inversion H; subst. split; intros; [reflexivity|]. cbn in *. lia.
  Qed.
  Lemma cg_call c sl err cb : crash_ok (fun ev => call ids ev c sl err cb) /\ crash_ok_exn (fun ev => call ids ev c sl err cb).
  Proof.
    split; intros ev k e [SRk SRo] p s t0 s0 x H; unfold call in *; cbn in H; [|discriminate].
    inversion H; subst; clear H. cbn [length]. split.
    - intros Hk. rewrite SRo by lia. reflexivity.
    - intros Hk. assert (k = p) by lia. subst k. rewrite SRk. replace (p - p) with 0 by lia. reflexivity.
  Qed.

  Definition both {A} (F : env -> MM A) : Prop := crash_ok F /\ crash_ok_exn F.

  Lemma cg_bind {A B} (F : env -> MM A) (G : A -> env -> MM B) :
    both F -> (forall a, both (G a)) -> both (fun ev => bind (F ev) (fun a => G a ev)).
  Proof.
    intros [HF HFx] HG. split.
    - intros ev k e SR p s t0 s0 b H. unfold bind in H.
      destruct (F (strip ev) p s) as [[t1 s1] r1] eqn:E1. destruct r1 as [ex|a]; [discriminate|].
      destruct (G a (strip ev) (p + length t1) s1) as [[t2 s2] r2] eqn:E2.
      injection H as Ht Hs Hr; subst t0 s0 r2.
      destruct (HF ev k e SR p s t1 s1 a E1) as [HF1 HF2].
      destruct (proj1 (HG a) ev k e SR (p + length t1) s1 t2 s2 b E2) as [HG1 HG2].
      rewrite app_length. unfold bind. split.
      + intros Hk. rewrite HF1 by lia. rewrite HG1 by lia. reflexivity.
      + intros Hk. destruct (Nat.lt_ge_cases k (p + length t1)) as [L|L].
        * rewrite HF2 by lia. rewrite firstn_app. replace (k - p + 1 - length t1) with 0 by lia.
          cbn [firstn]. rewrite app_nil_r. rewrite app_nth1 by lia. reflexivity.
        * rewrite HF1 by lia. rewrite HG2 by lia. rewrite firstn_app. rewrite (firstn_all2 t1) by lia.
          replace (k - p + 1 - length t1) with (k - (p + length t1) + 1) by lia.
          rewrite app_nth2 by lia. replace (k - p - length t1) with (k - (p + length t1)) by lia. reflexivity.
    - intros ev k e SR p s t0 s0 x H. unfold bind in H.
      destruct (F (strip ev) p s) as [[t1 s1] r1] eqn:E1. destruct r1 as [ex|a].
      + injection H as <- <- <-. destruct (HFx ev k e SR p s t1 s1 ex E1) as [H1 H2]. unfold bind. split.
        * intros Hk. rewrite H1 by exact Hk. reflexivity.
        * intros Hk. rewrite H2 by exact Hk. reflexivity.
      + destruct (G a (strip ev) (p + length t1) s1) as [[t2 s2] r2] eqn:E2.
        injection H as Ht Hs Hr; subst t0 s0 r2.
        destruct (HF ev k e SR p s t1 s1 a E1) as [HF1 HF2].
        destruct (proj2 (HG a) ev k e SR (p + length t1) s1 t2 s2 x E2) as [HG1 HG2].
        rewrite app_length. unfold bind. split.
        * intros Hk. rewrite HF1 by lia. rewrite HG1 by lia. reflexivity.
        * intros Hk. destruct (Nat.lt_ge_cases k (p + length t1)) as [L|L].
          -- rewrite HF2 by lia. rewrite firstn_app. replace (k - p + 1 - length t1) with 0 by lia.
             cbn [firstn]. rewrite app_nil_r. rewrite app_nth1 by lia. reflexivity.
          -- rewrite HF1 by lia. rewrite HG2 by lia. rewrite firstn_app. rewrite (firstn_all2 t1) by lia.
             replace (k - p + 1 - length t1) with (k - (p + length t1) + 1) by lia.
             rewrite app_nth2 by lia. replace (k - p - length t1) with (k - (p + length t1)) by lia. reflexivity.
  Qed.

  Lemma cg_run_cbs c sl err cbs : both (fun ev => run_cbs ids ev c sl err cbs).
  Proof.
    induction cbs as [|cb r IH]; cbn [run_cbs]; [apply cg_ret|].
    apply (cg_bind (fun ev => call ids ev c sl err cb) (fun _ ev => run_cbs ids ev c sl err r)); [apply cg_call|intros _; exact IH].
  Qed.
  Lemma cg_eval_conds c conds : both (fun ev => eval_conds ids ev c conds).
  Proof.
    induction conds as [|[cb tg] r IH]; cbn [eval_conds]; [apply cg_ret|].
    apply (cg_bind (fun ev => call ids ev c (if tg then SCond else SUnless) None cb)
                   (fun v ev => if Bool.eqb v tg then eval_conds ids ev c r else ret false)); [apply cg_call|].
    intros v. destruct (Bool.eqb v tg); [exact IH|apply cg_ret].
  Qed.
End Gen.

(* ---------- callbacks that do not raise, generically ---------- *)
Section GenOk.
  Context {St : Type}.
  Notation ids := (fun s : St => s).
  Variable ev : env.
  Variable c : ctx.

  Definition no_raise_from_g (p : nat) : Prop := forall cb q, p <= q -> r_raise (ev cb q) = None.

  Fixpoint gitems (sl : slot) (err : option exn) (st : St) (cbs : list cbid) (p : nat) : list (gitem St) :=
    match cbs with
    | [] => []
    | cb :: r => mkGItem sl cb (c_model c) st (ctx_arg c) (if c_send c then err else None)
                         (r_ret (ev cb p)) (r_acts (ev cb p)) :: gitems sl err st r (S p)
    end.

  Lemma gitems_length sl err st cbs p : length (gitems sl err st cbs p) = length cbs.
  Proof. revert p; induction cbs as [|cb r IH]; intros p; cbn; [reflexivity|now rewrite IH]. Qed.

  Lemma run_cbs_ok_g sl err cbs : forall p s, no_raise_from_g p ->
    run_cbs ids ev c sl err cbs p s = (gitems sl err s cbs p, s, inr tt).
  Proof.
    induction cbs as [|cb r IH]; intros p s NR; cbn [run_cbs gitems]; [reflexivity|].
    unfold bind, call. rewrite NR by lia. cbn [length]. rewrite IH by (intros cb' q Hq; apply NR; lia).
    replace (p + 1) with (S p) by lia. reflexivity.
  Qed.

  Lemma gitems_nth_state sl err st cbs p i d : i < length cbs -> it_state (nth i (gitems sl err st cbs p) d) = st.
  Proof.
    revert p i; induction cbs as [|cb r IH]; intros p i L; cbn [length] in L; [lia|].
    cbn [gitems]. destruct i as [|i]; [reflexivity|]. cbn [nth]. apply IH. lia.
  Qed.
End GenOk.

Lemma gitems_strip {St} ev c sl err (st : St) cbs p : gitems (strip ev) c sl err st cbs p = gitems ev c sl err st cbs p.
Proof. revert p; induction cbs as [|cb r IH]; intros p; cbn [gitems]; [reflexivity|]. now rewrite IH. Qed.
