(* HReentP.v — the re-entrant hierarchical engine (HReent.v) is the hierarchical engine of Hsm.v when callbacks
   perform no action, and a trigger issued from a callback runs completely inside that callback. *)
From Coq Require Import List Arith Bool.
From M Require Import Base Flat Hsm Reent HReent.
From P Require Import ReentP HsmForest.
Import ListNotations.

Notation ids := (fun s : forest => s).

(* pointwise equality of computations *)
Definition peq {A} (m1 m2 : HM A) : Prop := forall p s, m1 p s = m2 p s.

Lemma peq_refl {A} (m : HM A) : peq m m.
Proof. intros p s. reflexivity. Qed.
Lemma peq_bind {A B} (m1 m2 : HM A) (k1 k2 : A -> HM B) :
  peq m1 m2 -> (forall a, peq (k1 a) (k2 a)) -> peq (bind m1 k1) (bind m2 k2).
Proof.
  intros Hm Hk p s. unfold bind. rewrite Hm. destruct (m2 p s) as [[t1 s1] [x|a]]; [reflexivity|]. rewrite Hk. reflexivity.
Qed.
Lemma peq_tef {A} (m1 m2 : HM A) h1 h2 f1 f2 :
  peq m1 m2 -> (forall x, peq (h1 x) (h2 x)) -> (forall x, peq (f1 x) (f2 x)) ->
  peq (try_except_finally m1 h1 f1) (try_except_finally m2 h2 f2).
Proof.
  intros Hm Hh Hf p s. unfold try_except_finally. rewrite Hm. destruct (m2 p s) as [[t1 s1] [x|a]].
  - rewrite Hh. destruct (h2 x (p + length t1) s1) as [[t2 s2] r2]. rewrite Hf. reflexivity.
  - rewrite Hf. reflexivity.
Qed.

Section Refine.
  Variable hm : hmachine.
  Variable ev : env.
  Variable nested : event -> nat -> HM bool.
  Variable c : ctx.
  Hypothesis NA : no_acts ev.

  Lemma hcall_eq sl err cb : peq (hcall ev nested c sl err cb) (call ids ev c sl err cb).
  Proof.
    intros p s. unfold hcall, call. rewrite NA. cbn [hperform]. unfold ret.
    destruct (r_raise (ev cb p)); reflexivity.
  Qed.
  Lemma hrun_cbs_eq sl err cbs : peq (hrun_cbs ev nested c sl err cbs) (run_cbs ids ev c sl err cbs).
  Proof.
    induction cbs as [|cb r IH]; cbn [hrun_cbs run_cbs]; [apply peq_refl|].
    apply peq_bind; [apply hcall_eq|intros _; exact IH].
  Qed.
  Lemma heval_conds_eq conds : peq (heval_conds ev nested c conds) (eval_conds ids ev c conds).
  Proof.
    induction conds as [|[cb tg] r IH]; cbn [heval_conds eval_conds]; [apply peq_refl|].
    apply peq_bind; [apply hcall_eq|intros v]. destruct (Bool.eqb v tg); [exact IH|apply peq_refl].
  Qed.
  Lemma hrun_exits_eq ps : peq (hrun_exits hm ev nested c ps) (run_exits hm ev c ps).
  Proof.
    induction ps as [|q r IH]; cbn [hrun_exits run_exits]; [apply peq_refl|].
    destruct (defs_at hm q); [|apply peq_refl]. apply peq_bind; [apply hrun_cbs_eq|intros _; exact IH].
  Qed.
  Lemma hrun_enters_eq ps : peq (hrun_enters hm ev nested c ps) (run_enters hm ev c ps).
  Proof.
    induction ps as [|q r IH]; cbn [hrun_enters run_enters]; [apply peq_refl|].
    destruct (defs_at hm q); [|apply peq_refl]. apply peq_bind; [apply hrun_cbs_eq|intros _; exact IH].
  Qed.
  Lemma hrun_onfinal_eq l : peq (hrun_onfinal ev nested c l) (run_onfinal ev c l).
  Proof.
    induction l as [|cbs r IH]; cbn [hrun_onfinal run_onfinal]; [apply peq_refl|].
    apply peq_bind; [apply hrun_cbs_eq|intros _; exact IH].
  Qed.

  Lemma hchange_state_eq sc dst : peq (hchange_state hm ev nested c sc dst) (change_state hm ev c sc dst).
  Proof.
    unfold hchange_state, change_state. destruct (find_def (scope_children hm sc) dst) as [dd|]; [|apply peq_refl].
    apply peq_bind; [apply peq_refl|intros f]. destruct (resolve f sc dst dd) as [r|]; [|apply peq_refl].
    apply peq_bind; [apply hrun_exits_eq|intros _]. apply peq_bind; [apply peq_refl|intros _].
    apply peq_bind; [apply hrun_enters_eq|intros _]. apply hrun_onfinal_eq.
  Qed.
  Lemma hexecute_eq sc t : peq (hexecute hm ev nested c sc t) (execute hm ev c sc t).
  Proof.
    unfold hexecute, execute. apply peq_bind; [apply hrun_cbs_eq|intros _].
    apply peq_bind; [apply heval_conds_eq|intros ok]. destruct ok; [|apply peq_refl].
    apply peq_bind; [apply hrun_cbs_eq|intros _]. apply peq_bind; [apply hrun_cbs_eq|intros _].
    apply peq_bind; [destruct (ht_dst t); [apply hchange_state_eq|apply peq_refl]|intros _].
    apply peq_bind; [apply hrun_cbs_eq|intros _]. apply peq_bind; [apply hrun_cbs_eq|intros _]. apply peq_refl.
  Qed.
  Lemma htry_transitions_eq sc ts : peq (htry_transitions hm ev nested c sc ts) (try_transitions hm ev c sc ts).
  Proof.
    induction ts as [|t r IH]; cbn [htry_transitions try_transitions]; [apply peq_refl|].
    apply peq_bind; [apply hexecute_eq|intros ok]. destruct ok; [apply peq_refl|exact IH].
  Qed.

  Lemma offer_loop_gen_peq (A1 A2 : path -> HM bool) hc sc : (forall p, peq (A1 p) (A2 p)) ->
    forall order done result, peq (offer_loop_gen A1 hc sc order done result) (offer_loop_gen A2 hc sc order done result).
  Proof.
    intros HA. induction order as [|p rest IH]; intros done result; cbn [offer_loop_gen]; [apply peq_refl|].
    destruct (existsb (path_eqb p) done || negb (hc p)); [apply IH|].
    apply peq_bind; [apply peq_refl|intros f]. destruct (negb (active f (sc ++ p))); [apply IH|].
    apply peq_bind; [apply HA|intros ok]. apply peq_bind; [destruct ok; apply IH|intros r; apply peq_refl].
  Qed.

  Lemma htrigger_nested_eq sc ts key : peq (htrigger_nested hm ev nested c sc ts key) (trigger_nested hm ev c sc ts key).
  Proof.
    unfold htrigger_nested, trigger_nested, offer_loop. apply peq_bind; [apply peq_refl|intros f].
    destruct (sub f sc); [|apply peq_refl].
    apply peq_bind; [|intros r; apply peq_refl]. apply offer_loop_gen_peq. intros p.
    apply peq_bind; [apply hrun_cbs_eq|intros _; apply htry_transitions_eq].
  Qed.

  Lemma go_peq e sc key : forall l acc,
    Forall (fun t => forall sc, peq (hdispatch_t hm ev nested c e sc t) (dispatch_t hm ev c e sc t)) l ->
    peq ((fix go (l : list tree) (acc : option bool) : HM (option bool) :=
            match l with
            | [] => ret acc
            | t' :: l' =>
                r <- hdispatch_t hm ev nested c e (sc ++ [key]) t' ;;
                go l' (match r with
                       | None => acc
                       | Some b => Some (orb b (match acc with Some a => a | None => false end))
                       end)
            end) l acc)
        ((fix go (l : list tree) (acc : option bool) : HM (option bool) :=
            match l with
            | [] => ret acc
            | t' :: l' =>
                r <- dispatch_t hm ev c e (sc ++ [key]) t' ;;
                go l' (match r with
                       | None => acc
                       | Some b => Some (orb b (match acc with Some a => a | None => false end))
                       end)
            end) l acc).
  Proof.
    induction l as [|t' l' IHl]; intros acc HF; [apply peq_refl|].
    inversion HF as [|? ? H1 H2]; subst.
    apply peq_bind; [apply H1|intros r]. apply IHl. exact H2.
  Qed.

  Lemma hdispatch_t_eq e : forall t sc, peq (hdispatch_t hm ev nested c e sc t) (dispatch_t hm ev c e sc t).
  Proof.
    induction t as [key ch IH] using tree_ind2. intros sc. cbn [hdispatch_t dispatch_t].
    apply peq_bind; [apply peq_refl|intros f]. destruct (negb (active f (sc ++ [key]))); [apply peq_refl|].
    apply peq_bind.
    - destruct ch as [|c0 r0]; [apply peq_refl|]. exact (go_peq e sc key (c0 :: r0) None IH).
    - intros r1. destruct r1 as [[|]|]; try apply peq_refl;
        (destruct (lookup (scope_events hm sc) e); [|apply peq_refl];
         apply peq_bind; [apply htrigger_nested_eq|intros r2; apply peq_refl]).
  Qed.
  Lemma hdispatch_f_eq e sc l : forall acc, peq (hdispatch_f hm ev nested c e sc l acc) (dispatch_f hm ev c e sc l acc).
  Proof.
    induction l as [|t r IH]; intros acc; cbn [hdispatch_f dispatch_f]; [apply peq_refl|].
    apply peq_bind; [apply hdispatch_t_eq|intros x; apply IH].
  Qed.

  Theorem htrigger_event_eq e : peq (htrigger_event hm ev nested c e) (trigger_event hm ev c e).
  Proof.
    unfold htrigger_event, trigger_event. apply peq_tef.
    - apply peq_bind; [apply peq_refl|intros f]. apply peq_bind; [apply hdispatch_f_eq|intros r]. apply peq_refl.
    - intros x. destruct (hm_on_exception hm) as [|h hs]; [apply peq_refl|].
      apply peq_bind; [apply hrun_cbs_eq|intros _; apply peq_refl].
    - intros err. apply hrun_cbs_eq.
  Qed.
End Refine.

(* with callbacks that perform no action the re-entrant hierarchical machine IS the hierarchical machine of Hsm.v,
   whatever fuel (> 0) is left *)
Theorem hrtrigger_refines hm ev m fuel e a : no_acts ev ->
  peq (hrtrigger hm ev m (S fuel) e a) (trigger_event hm ev (mkCtx m a (hm_send_event hm)) e).
Proof. intros NA. cbn [hrtrigger]. apply htrigger_event_eq. exact NA. Qed.

(* an event triggered from a callback is processed immediately and completely inside that callback: its whole trace
   follows the triggering callback's item, on the configuration of that moment, before the callback returns; the
   calling engine continues on the configuration the nested event left *)
Theorem hcall_nested (ev : env) (nested : event -> nat -> HM bool) (c : ctx) sl err cb p f m' e' tn f' b :
  r_acts (ev cb p) = [ATrigger m' e'] -> r_raise (ev cb p) = None ->
  nested e' (nested_payload_r p 0) (S p) f = (tn, f', inr b) ->
  hcall ev nested c sl err cb p f =
    (mkGItem sl cb (c_model c) f (ctx_arg c) (if c_send c then err else None) (r_ret (ev cb p)) [ATrigger m' e'] :: tn,
     f', inr (r_ret (ev cb p))).
Proof.
  intros HA HR HN. unfold hcall. rewrite HA, HR. cbn [hperform]. unfold bind. rewrite HN.
  unfold ret. cbn. rewrite app_nil_r. reflexivity.
Qed.
