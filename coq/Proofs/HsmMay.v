(* HsmMay.v — C12 on hierarchical machines: purity of may_<event>. *)
From Coq Require Import List Arith Bool Lia.
From M Require Import Base Flat Hsm HsmSpec.
From P Require Import HsmForest HsmReach.
Import ListNotations.

(* may_<event> on hierarchical machines: whatever the callbacks return or raise, it never
   changes the configuration and runs only prepare-stage, condition and on_exception callbacks *)
Definition may_slot (sl : slot) : bool :=
  match sl with SPrepareEvent | SPrepare | SCond | SUnless | SOnException => true | _ => false end.

Section MayPure.
  Variable hm : hmachine.
  Variable ev : env.
  Variable c : ctx.
  Notation HM := (M (V:=forest) (S:=forest)).
  Notation ids := (fun s : forest => s).

  Definition slots_ok {A} (m : HM A) : Prop :=
    forall p s tr s' r, m p s = (tr, s', r) -> Forall (fun it => may_slot (it_slot it) = true) tr.

  Lemma sl_ret {A} (a : A) : slots_ok (ret a).
  Proof. intros p s tr s' r H. unfold ret in H. injection H as <- _ _. constructor. Qed.
  Lemma sl_raise {A} (x : exn) : slots_ok (@raise forest forest A x).
  Proof. intros p s tr s' r H. unfold raise in H. injection H as <- _ _. constructor. Qed.
  Lemma sl_get : slots_ok (@get forest forest).
  Proof. intros p s tr s' r H. unfold get in H. injection H as <- _ _. constructor. Qed.
  Lemma sl_call sl err cb : may_slot sl = true -> slots_ok (call ids ev c sl err cb).
  Proof.
    intros MS p s tr s' r H. unfold call in H. destruct (r_raise (ev cb p)); injection H as <- _ _; repeat constructor; exact MS.
  Qed.
  Lemma sl_bind {A B} (m : HM A) (f : A -> HM B) : slots_ok m -> (forall a, slots_ok (f a)) -> slots_ok (bind m f).
  Proof.
    intros Hm Hf p s tr s' r H. unfold bind in H. destruct (m p s) as [[t1 s1] r1] eqn:E1.
    specialize (Hm _ _ _ _ _ E1). destruct r1 as [e|a].
    - injection H as <- _ _. exact Hm.
    - destruct (f a (p + length t1) s1) as [[t2 s2] r2] eqn:E2. injection H as <- _ _.
      apply Forall_app. split; [exact Hm|eapply Hf; eauto].
  Qed.
  Lemma sl_try_catch {A} (m : HM A) (h : exn -> HM A) : slots_ok m -> (forall e, slots_ok (h e)) -> slots_ok (try_catch m h).
  Proof.
    intros Hm Hh p s tr s' r H. unfold try_catch in H. destruct (m p s) as [[t1 s1] r1] eqn:E1.
    specialize (Hm _ _ _ _ _ E1). destruct r1 as [e|a].
    - destruct (h e (p + length t1) s1) as [[t2 s2] r2] eqn:E2. injection H as <- _ _.
      apply Forall_app. split; [exact Hm|eapply Hh; eauto].
    - injection H as <- _ _. exact Hm.
  Qed.
  Lemma sl_run_cbs sl err cbs : may_slot sl = true -> slots_ok (run_cbs ids ev c sl err cbs).
  Proof.
    intros MS. induction cbs as [|cb r IH]; cbn [run_cbs]; [apply sl_ret|].
    apply sl_bind; [now apply sl_call|intros _; exact IH].
  Qed.
  Lemma sl_eval_conds conds : slots_ok (eval_conds ids ev c conds).
  Proof.
    induction conds as [|[cb tg] r IH]; cbn [eval_conds]; [apply sl_ret|].
    apply sl_bind; [apply sl_call; now destruct tg|intros v]. destruct (Bool.eqb v tg); [exact IH|apply sl_ret].
  Qed.

  (* both facts at once for the functions of _can_trigger *)
  Definition pure_ok {A} (m : HM A) : Prop := same_state m /\ slots_ok m.

  Lemma can_one_pure t : pure_ok (Hsm.can_one hm ev c t).
  Proof.
    unfold Hsm.can_one. split.
    - apply ss_try_catch.
      + apply ss_bind; [apply ss_run_cbs|intros _]. apply ss_bind; [apply ss_run_cbs|intros _]. apply ss_eval_conds.
      + intros x. destruct (hm_on_exception hm); [apply ss_raise|]. apply ss_bind; [apply ss_run_cbs|intros _; apply ss_ret].
    - apply sl_try_catch.
      + apply sl_bind; [now apply sl_run_cbs|intros _]. apply sl_bind; [now apply sl_run_cbs|intros _]. apply sl_eval_conds.
      + intros x. destruct (hm_on_exception hm); [apply sl_raise|]. apply sl_bind; [now apply sl_run_cbs|intros _; apply sl_ret].
  Qed.
  Lemma can_cands_pure sc ts : pure_ok (can_cands hm ev c sc ts).
  Proof.
    induction ts as [|t r [I1 I2]]; cbn [can_cands]; [split; [apply ss_ret|apply sl_ret]|].
    destruct (hdest_ok hm sc t); [|split; assumption].
    destruct (can_one_pure t) as [C1 C2]. split.
    - apply ss_bind; [exact C1|intros ok]. destruct ok; [apply ss_ret|exact I1].
    - apply sl_bind; [exact C2|intros ok]. destruct ok; [apply sl_ret|exact I2].
  Qed.
  Lemma can_sources_pure sc ts srcs : pure_ok (can_sources hm ev c sc ts srcs).
  Proof.
    induction srcs as [|p r [I1 I2]]; cbn [can_sources]; [split; [apply ss_ret|apply sl_ret]|].
    destruct (can_cands_pure sc (cands ts p)) as [C1 C2]. split.
    - apply ss_bind; [exact C1|intros ok]. destruct ok; [apply ss_ret|exact I1].
    - apply sl_bind; [exact C2|intros ok]. destruct ok; [apply sl_ret|exact I2].
  Qed.
  Lemma can_nested_pure e : forall p sc, pure_ok (can_nested hm ev c e sc p).
  Proof.
    induction p as [|n r IH]; intros sc; cbn [can_nested].
    - assert (P0: pure_ok (match lookup (scope_events hm sc) e with Some ts => can_sources hm ev c sc ts (rev (nonempty_prefixes [])) | None => ret false end)).
      { destruct (lookup (scope_events hm sc) e); [apply can_sources_pure|split; [apply ss_ret|apply sl_ret]]. }
      destruct P0 as [C1 C2]. split.
      + apply ss_bind; [exact C1|intros ok]. destruct ok; apply ss_ret.
      + apply sl_bind; [exact C2|intros ok]. destruct ok; apply sl_ret.
    - assert (P0: pure_ok (match lookup (scope_events hm sc) e with Some ts => can_sources hm ev c sc ts (rev (nonempty_prefixes (n :: r))) | None => ret false end)).
      { destruct (lookup (scope_events hm sc) e); [apply can_sources_pure|split; [apply ss_ret|apply sl_ret]]. }
      destruct P0 as [C1 C2]. destruct (IH (sc ++ [n])) as [I1 I2]. split.
      + apply ss_bind; [exact C1|intros ok]. destruct ok; [apply ss_ret|exact I1].
      + apply sl_bind; [exact C2|intros ok]. destruct ok; [apply sl_ret|exact I2].
  Qed.
  Lemma can_any_pure e ps : pure_ok (can_any hm ev c e ps).
  Proof.
    induction ps as [|p r [I1 I2]]; cbn [can_any]; [split; [apply ss_ret|apply sl_ret]|].
    destruct (can_nested_pure e p []) as [C1 C2]. split.
    - apply ss_bind; [exact C1|intros ok]. destruct ok; [apply ss_ret|exact I1].
    - apply sl_bind; [exact C2|intros ok]. destruct ok; [apply sl_ret|exact I2].
  Qed.

  Theorem hsm_may_pure e p f tr f' r :
    Hsm.can_trigger hm ev c e p f = (tr, f', r) ->
    f' = f /\ Forall (fun it => may_slot (it_slot it) = true) tr.
  Proof.
    intros H. unfold Hsm.can_trigger in H.
    assert (P: pure_ok (f0 <- get ;; can_any hm ev c e (resolve_order f0))).
    { split.
      - apply ss_bind; [apply ss_get|intros f0; apply can_any_pure].
      - apply sl_bind; [apply sl_get|intros f0; apply can_any_pure]. }
    destruct P as [P1 P2]. split; [eapply P1; eauto|eapply P2; eauto].
  Qed.
End MayPure.
