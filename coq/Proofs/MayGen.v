(* MayGen.v — may_<event> under EVERY environment (callbacks may raise anything), generic in the engine's
   state type: closure predicate "the state is untouched, only prepare-stage / condition / on_exception
   callbacks run, an exception that comes out was raised by the callback that ran last", and the
   try/except of _can_trigger: with handlers registered only a handler's own exception comes out. *)
From Coq Require Import List Arith Bool Lia.
From M Require Import Base.
Import ListNotations.

Definition may_slot_f (sl : slot) : bool :=
  match sl with SPrepareEvent | SPrepare | SCond | SUnless | SOnException => true | _ => false end.

Section MayGen.
  Context {V S : Type}.
  Variable seen : S -> V.
  Variable ev : env.
  Variable c : ctx.
  Variable hs : list cbid.          (* the machine's on_exception handlers *)
  Notation FM := (M (V:=V) (S:=S)).
  Notation gi := (gitem V).

  Definition raised_last (good : gi -> Prop) (p : nat) (tr : list gi) {A} (r : exn + A) : Prop :=
    forall e, r = inl e ->
      exists tr0 it, tr = tr0 ++ [it] /\ r_raise (ev (it_cb it) (p + length tr0)) = Some e /\ good it.

  Definition q (good : gi -> Prop) {A} (m : FM A) : Prop :=
    forall p s tr s' r, m p s = (tr, s', r) ->
      s' = s /\ Forall (fun it => may_slot_f (it_slot it) = true) tr /\ raised_last good p tr r.

  Lemma q_ret (good : gi -> Prop) {A} (a : A) : q good (ret a).
  Proof. intros p s tr s' r H. unfold ret in H. injection H as <- <- <-. repeat split; [constructor|]. intros e X. discriminate. Qed.
  Lemma q_get (good : gi -> Prop) : q good (@get V S).
  Proof. intros p s tr s' r H. unfold get in H. injection H as <- <- <-. repeat split; [constructor|]. intros e X. discriminate. Qed.

  Lemma q_call (good : gi -> Prop) sl err cb : may_slot_f sl = true ->
    (forall it, it_slot it = sl -> good it) -> q good (call seen ev c sl err cb).
  Proof.
    intros MS G p s tr s' r H. unfold call in H. destruct (r_raise (ev cb p)) as [x|] eqn:R; injection H as <- <- <-.
    - repeat split; [repeat constructor; exact MS|]. intros e X. injection X as <-.
      eexists [], _. split; [reflexivity|]. cbn [length it_cb]. rewrite Nat.add_0_r. split; [exact R|]. apply G. reflexivity.
    - repeat split; [repeat constructor; exact MS|]. intros e X. discriminate.
  Qed.

  Lemma q_bind (good : gi -> Prop) {A B} (m : FM A) (f : A -> FM B) : q good m -> (forall a, q good (f a)) -> q good (bind m f).
  Proof.
    intros Hm Hf p s tr s' r H. unfold bind in H. destruct (m p s) as [[t1 s1] r1] eqn:E1.
    destruct (Hm _ _ _ _ _ E1) as (-> & F1 & L1). destruct r1 as [x|a].
    - injection H as <- <- <-. repeat split; [exact F1|]. intros e X. injection X as <-. apply L1. reflexivity.
    - destruct (f a (p + length t1) s) as [[t2 s2] r2] eqn:E2. injection H as <- <- <-.
      destruct (Hf a _ _ _ _ _ E2) as (-> & F2 & L2). repeat split; [apply Forall_app; auto|].
      intros e X. destruct (L2 e X) as (tr0 & it & -> & R & G). exists (t1 ++ tr0), it.
      rewrite app_assoc. split; [reflexivity|]. rewrite app_length, Nat.add_assoc. auto.
  Qed.

  Lemma q_run_cbs (good : gi -> Prop) sl err cbs : may_slot_f sl = true -> (forall it, it_slot it = sl -> good it) ->
    q good (run_cbs seen ev c sl err cbs).
  Proof.
    intros MS G. induction cbs as [|cb r IH]; cbn [run_cbs]; [apply q_ret|].
    apply q_bind; [now apply q_call|intros _; exact IH].
  Qed.
  Lemma q_eval_conds (good : gi -> Prop) conds : (forall it, it_slot it = SCond \/ it_slot it = SUnless -> good it) ->
    q good (eval_conds seen ev c conds).
  Proof.
    intros G. induction conds as [|[cb tg] r IH]; cbn [eval_conds]; [apply q_ret|].
    apply q_bind.
    - destruct tg; apply q_call; try reflexivity; intros it E; apply G; auto.
    - intros v. destruct (Bool.eqb v tg); [exact IH|apply q_ret].
  Qed.

  (* what may reach the caller of may_<event>: anything when no handler is registered, otherwise
     only a handler's own exception *)
  Definition escapes (it : gi) : Prop := hs = [] \/ it_slot it = SOnException.

  (* the try/except of one candidate in _can_trigger: [h] re-raises when no handler is registered and
     otherwise calls the handlers and answers False *)
  Definition handler_spec (h : exn -> FM bool) : Prop :=
    forall e p s, h e p s = match hs with
                            | [] => raise e p s
                            | _ => (run_cbs seen ev c SOnException (Some e) hs ;;; ret false) p s
                            end.

  Lemma q_handled (body : FM bool) h : handler_spec h -> q (fun _ => True) body -> q escapes (try_catch body h).
  Proof.
    intros HS QB p s tr s' r H. unfold try_catch in H.
    destruct (body p s) as [[t1 s1] [x|a]] eqn:E1; destruct (QB _ _ _ _ _ E1) as (-> & F1 & L1).
    - rewrite HS in H. destruct hs as [|h0 hs'] eqn:OE.
      + unfold raise in H. injection H as <- <- <-. rewrite app_nil_r. repeat split; [exact F1|].
        intros e X. injection X as <-. destruct (L1 x eq_refl) as (tr0 & it & -> & R & _). exists tr0, it.
        repeat split; auto. now left.
      + destruct ((run_cbs seen ev c SOnException (Some x) (h0 :: hs') ;;; ret false) (p + length t1) s) as [[t2 s2] r2] eqn:E2.
        injection H as <- <- <-.
        assert (QH : q (fun it => it_slot it = SOnException) (run_cbs seen ev c SOnException (Some x) (h0 :: hs') ;;; ret (S:=S) false)).
        { apply q_bind; [apply q_run_cbs; auto|intros _; apply q_ret]. }
        destruct (QH _ _ _ _ _ E2) as (-> & F2 & L2). repeat split; [apply Forall_app; auto|].
        intros e X. destruct (L2 e X) as (tr0 & it & -> & R & G). exists (t1 ++ tr0), it.
        rewrite app_assoc. split; [reflexivity|]. rewrite app_length, Nat.add_assoc. split; [exact R|]. now right.
    - injection H as <- <- <-. repeat split; [exact F1|]. intros e X. discriminate.
  Qed.
End MayGen.
