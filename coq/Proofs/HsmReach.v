(* HsmReach.v — the configuration changes only through transition resolutions; invariants of every reachable configuration. *)
From Coq Require Import List Arith Bool Lia.
From M Require Import Base Flat Hsm HsmSpec.
From P Require Import HsmForest HsmResolve.
Import ListNotations.

(* The configuration of a model changes only through transition resolutions. *)
Inductive reach (hm : hmachine) : forest -> forest -> Prop :=
| reach_refl f : reach hm f f
| reach_step f sc dst dd r f' :
    find_def (scope_children hm sc) dst = Some dd -> resolve f sc dst dd = Some r ->
    reach hm (r_new r) f' -> reach hm f f'.

Lemma reach_trans hm a b c : reach hm a b -> reach hm b c -> reach hm a c.
Proof. induction 1; intros H2; [exact H2|]. econstructor; eauto. Qed.

Section Reach.
  Variable hm : hmachine.
  Variable ev : env.
  Variable c : ctx.
  Notation HM := (M (V:=forest) (S:=forest)).
  Notation ids := (fun s : forest => s).

  Definition steps_ok {A} (m : HM A) : Prop :=
    forall p s tr s' r, m p s = (tr, s', r) -> reach hm s s'.

  Lemma so_ret {A} (a : A) : steps_ok (ret a).
  Proof. intros p s tr s' r H. unfold ret in H. injection H as _ <- _. constructor. Qed.
  Lemma so_raise {A} (x : exn) : steps_ok (@raise forest forest A x).
  Proof. intros p s tr s' r H. unfold raise in H. injection H as _ <- _. constructor. Qed.
  Lemma so_get : steps_ok (@get forest forest).
  Proof. intros p s tr s' r H. unfold get in H. injection H as _ <- _. constructor. Qed.
  Lemma so_call sl err cb : steps_ok (call ids ev c sl err cb).
  Proof. intros p s tr s' r H. unfold call in H. destruct (r_raise (ev cb p)); injection H as _ <- _; constructor. Qed.
  Lemma so_bind {A B} (m : HM A) (f : A -> HM B) : steps_ok m -> (forall a, steps_ok (f a)) -> steps_ok (bind m f).
  Proof.
    intros Hm Hf p s tr s' r H. unfold bind in H. destruct (m p s) as [[t1 s1] r1] eqn:E1.
    specialize (Hm _ _ _ _ _ E1). destruct r1 as [e|a].
    - injection H as _ <- _. exact Hm.
    - destruct (f a (p + length t1) s1) as [[t2 s2] r2] eqn:E2. injection H as _ <- _.
      eapply reach_trans; [exact Hm|]. eapply Hf; eauto.
  Qed.
  Lemma so_try_catch {A} (m : HM A) (h : exn -> HM A) : steps_ok m -> (forall e, steps_ok (h e)) -> steps_ok (try_catch m h).
  Proof.
    intros Hm Hh p s tr s' r H. unfold try_catch in H. destruct (m p s) as [[t1 s1] r1] eqn:E1.
    specialize (Hm _ _ _ _ _ E1). destruct r1 as [e|a].
    - destruct (h e (p + length t1) s1) as [[t2 s2] r2] eqn:E2. injection H as _ <- _.
      eapply reach_trans; [exact Hm|]. eapply Hh; eauto.
    - injection H as _ <- _. exact Hm.
  Qed.
  Lemma so_tef {A} (m : HM A) (h : exn -> HM A) (fin : option exn -> HM unit) :
    steps_ok m -> (forall e, steps_ok (h e)) -> (forall o, steps_ok (fin o)) -> steps_ok (try_except_finally m h fin).
  Proof.
    intros Hm Hh Hf p s tr s' r H. unfold try_except_finally in H. destruct (m p s) as [[t1 s1] r1] eqn:E1.
    specialize (Hm _ _ _ _ _ E1). destruct r1 as [e|a].
    - destruct (h e (p + length t1) s1) as [[t2 s2] r2] eqn:E2.
      destruct (fin (Some e) (p + length t1 + length t2) s2) as [[t3 s3] r3] eqn:E3. injection H as _ <- _.
      eapply reach_trans; [exact Hm|]. eapply reach_trans; [eapply Hh; eauto|eapply Hf; eauto].
    - destruct (fin None (p + length t1) s1) as [[t3 s3] r3] eqn:E3. injection H as _ <- _.
      eapply reach_trans; [exact Hm|eapply Hf; eauto].
  Qed.

  Lemma so_run_cbs sl err cbs : steps_ok (run_cbs ids ev c sl err cbs).
  Proof. induction cbs as [|cb r IH]; cbn [run_cbs]; [apply so_ret|]. apply so_bind; [apply so_call|intros _; exact IH]. Qed.
  Lemma so_eval_conds conds : steps_ok (eval_conds ids ev c conds).
  Proof.
    induction conds as [|[cb tg] r IH]; cbn [eval_conds]; [apply so_ret|].
    apply so_bind; [apply so_call|intros v]. destruct (Bool.eqb v tg); [exact IH|apply so_ret].
  Qed.
  Lemma so_run_exits ps : steps_ok (run_exits hm ev c ps).
  Proof.
    induction ps as [|p r IH]; cbn [run_exits]; [apply so_ret|]. destruct (defs_at hm p); [|apply so_raise].
    apply so_bind; [apply so_run_cbs|intros _; exact IH].
  Qed.
  Lemma so_run_enters ps : steps_ok (run_enters hm ev c ps).
  Proof.
    induction ps as [|p r IH]; cbn [run_enters]; [apply so_ret|]. destruct (defs_at hm p); [|apply so_raise].
    apply so_bind; [apply so_run_cbs|intros _; exact IH].
  Qed.
  Lemma so_run_onfinal l : steps_ok (run_onfinal ev c l).
  Proof. induction l as [|x r IH]; cbn [run_onfinal]; [apply so_ret|]. apply so_bind; [apply so_run_cbs|intros _; exact IH]. Qed.

  (* programs that never change the configuration *)
  Definition same_state {A} (m : HM A) : Prop := forall p s tr s' r, m p s = (tr, s', r) -> s' = s.
  Lemma ss_ret {A} (a : A) : same_state (ret a).
  Proof. intros p s tr s' r H. unfold ret in H. now injection H as _ <- _. Qed.
  Lemma ss_raise {A} (x : exn) : same_state (@raise forest forest A x).
  Proof. intros p s tr s' r H. unfold raise in H. now injection H as _ <- _. Qed.
  Lemma ss_get : same_state (@get forest forest).
  Proof. intros p s tr s' r H. unfold get in H. now injection H as _ <- _. Qed.
  Lemma ss_call sl err cb : same_state (call ids ev c sl err cb).
  Proof. intros p s tr s' r H. unfold call in H. destruct (r_raise (ev cb p)); now injection H as _ <- _. Qed.
  Lemma ss_bind {A B} (m : HM A) (f : A -> HM B) : same_state m -> (forall a, same_state (f a)) -> same_state (bind m f).
  Proof.
    intros Hm Hf p s tr s' r H. unfold bind in H. destruct (m p s) as [[t1 s1] r1] eqn:E1.
    specialize (Hm _ _ _ _ _ E1). subst s1. destruct r1 as [e|a].
    - now injection H as _ <- _.
    - destruct (f a (p + length t1) s) as [[t2 s2] r2] eqn:E2. injection H as _ <- _. eapply Hf; eauto.
  Qed.
  Lemma ss_try_catch {A} (m : HM A) (h : exn -> HM A) : same_state m -> (forall e, same_state (h e)) -> same_state (try_catch m h).
  Proof.
    intros Hm Hh p s tr s' r H. unfold try_catch in H. destruct (m p s) as [[t1 s1] r1] eqn:E1.
    specialize (Hm _ _ _ _ _ E1). subst s1. destruct r1 as [e|a].
    - destruct (h e (p + length t1) s) as [[t2 s2] r2] eqn:E2. injection H as _ <- _. eapply Hh; eauto.
    - now injection H as _ <- _.
  Qed.
  Lemma ss_run_cbs sl err cbs : same_state (run_cbs ids ev c sl err cbs).
  Proof. induction cbs as [|cb r IH]; cbn [run_cbs]; [apply ss_ret|]. apply ss_bind; [apply ss_call|intros _; exact IH]. Qed.
  Lemma ss_eval_conds conds : same_state (eval_conds ids ev c conds).
  Proof.
    induction conds as [|[cb tg] r IH]; cbn [eval_conds]; [apply ss_ret|].
    apply ss_bind; [apply ss_call|intros v]. destruct (Bool.eqb v tg); [exact IH|apply ss_ret].
  Qed.
  Lemma ss_run_exits ps : same_state (run_exits hm ev c ps).
  Proof.
    induction ps as [|p r IH]; cbn [run_exits]; [apply ss_ret|]. destruct (defs_at hm p); [|apply ss_raise].
    apply ss_bind; [apply ss_run_cbs|intros _; exact IH].
  Qed.

  Definition steps_from (s0 : forest) {A} (m : HM A) : Prop :=
    forall p tr s' r, m p s0 = (tr, s', r) -> reach hm s0 s'.
  Lemma sf_of_so {A} (m : HM A) s0 : steps_ok m -> steps_from s0 m.
  Proof. intros H p tr s' r E. eapply H; eauto. Qed.
  Lemma sf_bind_same {A B} s0 (m : HM A) (k : A -> HM B) :
    same_state m -> (forall a, steps_from s0 (k a)) -> steps_from s0 (bind m k).
  Proof.
    intros Hm Hk p tr s' r H. unfold bind in H. destruct (m p s0) as [[t1 s1] r1] eqn:E1.
    specialize (Hm _ _ _ _ _ E1). subst s1. destruct r1 as [e|a].
    - injection H as _ <- _. constructor.
    - destruct (k a (p + length t1) s0) as [[t2 s2] r2] eqn:E2. injection H as _ <- _. eapply Hk; eauto.
  Qed.
  Lemma sf_bind_put {B} s0 new (k : unit -> HM B) :
    reach hm s0 new -> steps_from new (k tt) -> steps_from s0 (bind (put new) k).
  Proof.
    intros Hr Hk p tr s' r H. unfold bind, put in H. cbn [length] in H.
    destruct (k tt (p + 0) new) as [[t2 s2] r2] eqn:E2. injection H as _ <- _.
    eapply reach_trans; [exact Hr|eapply Hk; eauto].
  Qed.

  Lemma sf_bind_get {B} s0 (k : forest -> HM B) : steps_from s0 (k s0) -> steps_from s0 (bind get k).
  Proof.
    intros Hk p tr s' r H. unfold bind, get in H. cbn [length] in H.
    destruct (k s0 (p + 0) s0) as [[t2 s2] r2] eqn:E2. injection H as _ <- _. eapply Hk; eauto.
  Qed.

  Lemma so_change_state sc dst : steps_ok (change_state hm ev c sc dst).
  Proof.
    unfold change_state. destruct (find_def (scope_children hm sc) dst) as [dd|] eqn:FD; [|apply so_raise].
    intros p s. revert p. change (steps_from s (f <- get ;; match resolve f sc dst dd with
        | Some r => run_exits hm ev c (r_exits r) ;;; put (r_new r) ;;; run_enters hm ev c (r_enters r) ;;;
                    run_onfinal ev c (final_check_root hm (r_new r) (r_enters r))
        | None => raise ValueError end)).
    apply sf_bind_get. destruct (resolve s sc dst dd) as [res|] eqn:RS; [|apply sf_of_so, so_raise].
    apply sf_bind_same; [apply ss_run_exits|intros _].
    apply sf_bind_put.
    - eapply reach_step; [exact FD|exact RS|constructor].
    - apply sf_of_so. apply so_bind; [apply so_run_enters|intros _; apply so_run_onfinal].
  Qed.

  Lemma so_execute sc t : steps_ok (execute hm ev c sc t).
  Proof.
    unfold execute. apply so_bind; [apply so_run_cbs|intros _].
    apply so_bind; [apply so_eval_conds|intros ok]. destruct ok; [|apply so_ret].
    apply so_bind; [apply so_run_cbs|intros _]. apply so_bind; [apply so_run_cbs|intros _].
    apply so_bind; [destruct (ht_dst t); [apply so_change_state|apply so_ret]|intros _].
    apply so_bind; [apply so_run_cbs|intros _]. apply so_bind; [apply so_run_cbs|intros _]. apply so_ret.
  Qed.
  Lemma so_try_transitions sc ts : steps_ok (Hsm.try_transitions hm ev c sc ts).
  Proof.
    induction ts as [|t r IH]; cbn [Hsm.try_transitions]; [apply so_ret|].
    apply so_bind; [apply so_execute|intros ok]. destruct ok; [apply so_ret|exact IH].
  Qed.
  Lemma so_offer_loop_gen attempt hc sc order : (forall p, steps_ok (attempt p)) ->
    forall done result, steps_ok (offer_loop_gen attempt hc sc order done result).
  Proof.
    intros HA. induction order as [|p rest IH]; intros done result; cbn [offer_loop_gen]; [apply so_ret|].
    destruct (orb _ _); [apply IH|]. apply so_bind; [apply so_get|intros f].
    destruct (negb (active f (sc ++ p))); [apply IH|].
    apply so_bind; [apply HA|intros ok].
    apply so_bind; [destruct ok; apply IH|intros r; apply so_ret].
  Qed.
  Lemma so_offer_loop sc ts order done result : steps_ok (offer_loop hm ev c sc ts order done result).
  Proof.
    unfold offer_loop. apply so_offer_loop_gen. intros p.
    apply so_bind; [apply so_run_cbs|intros _; apply so_try_transitions].
  Qed.
  Lemma so_trigger_nested sc ts key : steps_ok (trigger_nested hm ev c sc ts key).
  Proof.
    unfold trigger_nested. apply so_bind; [apply so_get|intros f]. destruct (sub f sc); [|apply so_raise].
    apply so_bind; [apply so_offer_loop|intros r; apply so_ret].
  Qed.

  Lemma so_dispatch_t e : forall t sc, steps_ok (dispatch_t hm ev c e sc t).
  Proof.
    induction t as [key ch IH] using tree_ind2. intros sc. cbn [dispatch_t].
    apply so_bind; [apply so_get|intros f]. destruct (negb (active f (sc ++ [key]))); [apply so_ret|].
    apply so_bind.
    - match goal with |- steps_ok (match ch with [] => _ | _ :: _ => ?G ch None end) =>
        assert (HG: forall l acc, Forall (fun t => forall sc, steps_ok (dispatch_t hm ev c e sc t)) l -> steps_ok (G l acc)) end.
      { induction l as [|t' l' IHl]; intros acc HF; [apply so_ret|].
        inversion HF as [|? ? H1 H2]; subst. apply so_bind; [apply H1|intros r]. apply IHl. exact H2. }
      destruct ch as [|c0 r0]; [apply so_ret|exact (HG (c0 :: r0) None IH)].
    - intros r1. destruct r1 as [[|]|]; try apply so_ret;
        (destruct (lookup (scope_events hm sc) e); [|apply so_ret]; apply so_bind; [apply so_trigger_nested|intros r2; apply so_ret]).
  Qed.
  Lemma so_dispatch_f e sc l : forall acc, steps_ok (dispatch_f hm ev c e sc l acc).
  Proof.
    induction l as [|t r IH]; intros acc; cbn [dispatch_f]; [apply so_ret|].
    apply so_bind; [apply so_dispatch_t|intros x]. apply IH.
  Qed.
  Lemma so_check_leaves e ls : steps_ok (check_leaves hm e ls).
  Proof.
    induction ls as [|p r IH]; cbn [check_leaves]; [apply so_ret|]. destruct (defs_at hm p); [|apply so_raise].
    destruct (match sd_ignore s with Some b => b | None => hm_ignore hm end); [exact IH|].
    destruct (has_trigger hm e); apply so_raise.
  Qed.

  (* every event: the final configuration is reached from the initial one by transition resolutions only *)
  Theorem trigger_event_reach e : steps_ok (Hsm.trigger_event hm ev c e).
  Proof.
    unfold Hsm.trigger_event. apply so_tef.
    - apply so_bind; [apply so_get|intros f]. apply so_bind; [apply so_dispatch_f|intros r].
      destruct r; [apply so_ret|]. apply so_bind; [apply so_get|intros f']. apply so_check_leaves.
    - intros x. destruct (hm_on_exception hm); [apply so_raise|]. apply so_bind; [apply so_run_cbs|intros _; apply so_ret].
    - intros o. apply so_run_cbs.
  Qed.
End Reach.
(* well-formed definitions: no state is listed twice among the initial children *)
Fixpoint wf_init (d : sdefn) : bool :=
  match d with SDef _ _ _ _ _ _ ini _ ch => andb (nodupb ini) (forallb wf_init ch) end.
Definition wf_defs (hm : hmachine) : bool := forallb wf_init (hm_states hm).

Lemma wf_init_unfold d : wf_init d = andb (nodupb (sd_initial d)) (forallb wf_init (sd_children d)).
Proof. destruct d. reflexivity. Qed.

Lemma find_child_In ds n c : find_child ds n = Some c -> In c ds /\ sd_name c = n.
Proof.
  induction ds as [|d r IH]; cbn; [discriminate|]. destruct (Nat.eqb (sd_name d) n) eqn:E.
  - intros H. injection H as <-. split; [now left|now apply Nat.eqb_eq].
  - intros H. destruct (IH H). split; [now right|assumption].
Qed.

Lemma find_def_wf : forall p ds d, forallb wf_init ds = true -> find_def ds p = Some d -> wf_init d = true.
Proof.
  induction p as [|n r IH]; intros ds d W H; cbn in H; [discriminate|].
  destruct r as [|m r'].
  - apply find_child_In in H as [H _]. rewrite forallb_forall in W. now apply W.
  - destruct (find_child ds n) as [c|] eqn:FC; [|discriminate]. apply find_child_In in FC as [FC _].
    rewrite forallb_forall in W. specialize (W _ FC). rewrite wf_init_unfold in W. apply andb_true_iff in W as [_ W].
    eapply IH; eauto.
Qed.

Lemma nodupb_sub_names (l : list nat) (g : nat -> option forest) :
  nodupb l = true ->
  nodupb (names (flat_map (fun n => match g n with Some ch => [Node n ch] | None => [] end) l)) = true.
Proof.
  induction l as [|a r IH]; cbn; [reflexivity|]. intros H. apply andb_true_iff in H as [H1 H2].
  destruct (g a) as [ch|]; [|now apply IH]. unfold names in *. cbn [app map t_name nodupb].
  rewrite IH by exact H2. rewrite andb_true_r.
  apply negb_true_iff. apply negb_true_iff in H1.
  match goal with |- existsb (Nat.eqb a) ?L = false => destruct (existsb (Nat.eqb a) L) eqn:E; [|reflexivity] end. exfalso.
  apply existsb_exists in E as (x & Hx & Ex). apply Nat.eqb_eq in Ex. subst x.
  assert (In a r).
  { clear -Hx. apply in_map_iff in Hx as (t & Ht & Hin). apply in_flat_map in Hin as (n & Hn & Hin).
    destruct (g n); [|destruct Hin]. destruct Hin as [<-|[]]. cbn in Ht. now subst. }
  assert (existsb (Nat.eqb a) r = true) by (apply existsb_exists; exists a; split; [assumption|apply Nat.eqb_refl]).
  congruence.
Qed.

Lemma initial_tree_uniq : forall fuel d, wf_init d = true -> uniq (initial_tree fuel d) = true.
Proof.
  induction fuel as [|f IH]; intros d W; cbn [initial_tree]; [reflexivity|].
  rewrite wf_init_unfold in W. apply andb_true_iff in W as [W1 W2].
  unfold uniq. apply andb_true_iff. split.
  - apply (nodupb_sub_names (sd_initial d)
             (fun n => match find_child (sd_children d) n with Some c => Some (initial_tree f c) | None => None end)) in W1.
    erewrite flat_map_ext; [exact W1|]. intros n. cbn. destruct (find_child (sd_children d) n); reflexivity.
  - rewrite forallb_forall. intros t Ht. apply in_flat_map in Ht as (n & _ & Ht).
    destruct (find_child (sd_children d) n) as [c|] eqn:FC; [|destruct Ht]. destruct Ht as [<-|[]].
    cbn. apply find_child_In in FC as [FC _]. rewrite forallb_forall in W2. specialize (IH c (W2 _ FC)).
    unfold uniq in IH. exact IH.
Qed.

Lemma scope_children_wf hm sc : wf_defs hm = true -> forallb wf_init (scope_children hm sc) = true.
Proof.
  intros W. unfold scope_children. destruct sc as [|n r]; [exact W|].
  destruct (find_def (hm_states hm) (n :: r)) as [d|] eqn:FD; [|reflexivity].
  apply find_def_wf in FD; [|exact W]. rewrite wf_init_unfold in FD. apply andb_true_iff in FD. tauto.
Qed.

(* C02: sibling-uniqueness of the configuration is an invariant of every reachable configuration *)
Theorem reach_uniq hm f f' : wf_defs hm = true -> reach hm f f' -> uniq f = true -> uniq f' = true.
Proof.
  intros W R. induction R as [|f sc dst dd r f' FD RS R IH]; intros U; [exact U|].
  apply IH. eapply resolve_uniq; [exact U| |exact RS].
  apply initial_tree_uniq. eapply find_def_wf; [|exact FD]. now apply scope_children_wf.
Qed.

(* the configuration add_model puts a model in *)
Lemma initial_config_uniq hm ini d :
  wf_defs hm = true -> find_def (hm_states hm) ini = Some d ->
  uniq (chain_tree ini (initial_tree def_depth_bound d)) = true.
Proof. intros W FD. apply uniq_chain, initial_tree_uniq. eapply find_def_wf; eauto. Qed.
(* ---------- find_def algebra ---------- *)
Lemma find_def_app : forall a ds b d,
  a <> [] -> b <> [] -> find_def ds a = Some d -> find_def ds (a ++ b) = find_def (sd_children d) b.
Proof.
  induction a as [|n a' IH]; intros ds b d Ha Hb H; [congruence|].
  destruct a' as [|m a2].
  - cbn in H. cbn [app]. destruct b as [|x b']; [congruence|]. cbn [find_def]. rewrite H. reflexivity.
  - cbn [find_def] in H. destruct (find_child ds n) as [c0|] eqn:FC; [|discriminate].
    change ((n :: m :: a2) ++ b) with (n :: (m :: a2) ++ b). 
    assert (E: find_def ds (n :: (m :: a2) ++ b) = find_def (sd_children c0) ((m :: a2) ++ b)).
    { cbn [app find_def]. rewrite FC. reflexivity. }
    rewrite E. apply IH; [discriminate|exact Hb|exact H].
Qed.

Lemma find_def_prefix : forall a ds b d,
  a <> [] -> find_def ds (a ++ b) = Some d -> exists d', find_def ds a = Some d'.
Proof.
  induction a as [|n a' IH]; intros ds b d Ha H; [congruence|].
  destruct a' as [|m a2].
  - cbn [app] in H. destruct b as [|x b']; [eauto|].
    cbn [find_def] in H. cbn [find_def]. destruct (find_child ds n); [eauto|discriminate].
  - change ((n :: m :: a2) ++ b) with (n :: (m :: a2) ++ b) in H. cbn [app find_def] in H.
    destruct (find_child ds n) as [c0|] eqn:FC; [|discriminate].
    apply IH in H; [|discriminate]. destruct H as [d' H]. exists d'. cbn [find_def]. rewrite FC. exact H.
Qed.

(* every node of the initial tree of a definition is a registered descendant of it *)
Lemma initial_tree_registered : forall fuel d q,
  In q (nodes (initial_tree fuel d)) -> exists d', find_def (sd_children d) q = Some d'.
Proof.
  induction fuel as [|f IH]; intros d q H; cbn [initial_tree] in H; [destruct H|].
  destruct q as [|n r]; [exfalso; eapply nil_notin_nodes; eauto|].
  apply in_nodes_cons in H as (ch & Hin & Hr).
  apply in_flat_map in Hin as (n0 & _ & Hin).
  destruct (find_child (sd_children d) n0) as [c0|] eqn:FC; [|destruct Hin].
  destruct Hin as [E|[]]. injection E as -> <-.
  destruct Hr as [->|Hr].
  - exists c0. exact FC.
  - apply IH in Hr as [d' Hd']. exists d'. destruct r as [|m r']; [discriminate|]. cbn [find_def]. rewrite FC. exact Hd'.
Qed.

Section Reg.
  Variable hm : hmachine.

  (* every active state is registered *)
  Definition reg (f : forest) : Prop :=
    forall p, p <> [] -> active f p = true -> exists d, find_def (hm_states hm) p = Some d.

  Lemma scope_children_find sc dst dd :
    (sc = [] \/ exists ds, find_def (hm_states hm) sc = Some ds) -> dst <> [] ->
    find_def (scope_children hm sc) dst = Some dd -> find_def (hm_states hm) (sc ++ dst) = Some dd.
  Proof.
    intros [->|[ds Hs]] Hd H; [exact H|]. unfold scope_children in H. destruct sc as [|n r]; [exact H|].
    rewrite Hs in H. rewrite (find_def_app (n :: r) _ dst ds) by (discriminate || assumption). exact H.
  Qed.

  (* what is active after a resolution was active before or has been entered *)
  Lemma resolve_new_active f sc dst dd r :
    uniq (initial_tree def_depth_bound dd) = true -> dst <> [] ->
    resolve f sc dst dd = Some r ->
    forall p, p <> [] -> active (r_new r) p = true -> active f p = true \/ In p (r_enters r).
  Proof.
    intros UB Hd R p Hp A.
    destruct (split_active f sc dst) as [root rest] eqn:SA.
    destruct (resolve_unfold f sc dst dd r R root rest SA) as (scoped & S & E). cbv zeta in E.
    pose proof (rest_ne f sc dst Hd root rest SA) as RN.
    assert (NEW: r_new r = update_at f (sc ++ root) (fun _ => if Nat.ltb 1 (length scoped) then f_set scoped (hd 0 rest) (chain_tree (tl rest) (initial_tree def_depth_bound dd)) else chain_tree rest (initial_tree def_depth_bound dd))) by (rewrite E; reflexivity).
    set (base := sc ++ root) in *.
    destruct (list_eq_dec Nat.eq_dec (firstn (length base) p) base) as [PF|NPF].
    - assert (HP: p = base ++ skipn (length base) p) by (rewrite <- PF at 1; now rewrite firstn_skipn).
      destruct (skipn (length base) p) as [|m q1] eqn:EQ.
      + rewrite app_nil_r in HP. subst p. left. unfold active. now rewrite S.
      + rewrite HP in *. rewrite NEW in A. rewrite active_app in A.
        pose proof (sub_update_below base f (fun _ => if Nat.ltb 1 (length scoped) then f_set scoped (hd 0 rest) (chain_tree (tl rest) (initial_tree def_depth_bound dd)) else chain_tree rest (initial_tree def_depth_bound dd)) scoped [] S) as SU.
        rewrite app_nil_r in SU. rewrite SU in A. cbn [sub] in A. clear SU.
        destruct rest as [|d0 rt] eqn:ER; [congruence|]. cbn [hd tl] in A.
        destruct (Nat.ltb 1 (length scoped)).
        * unfold active in A. cbn [sub] in A. rewrite f_get_f_set in A. destruct (Nat.eqb m d0) eqn:EM.
          -- apply Nat.eqb_eq in EM. subst m. right.
             apply (enters_below f sc dst dd r UB Hd R root (d0 :: rt) SA (d0 :: q1) ltac:(discriminate)).
             unfold active. cbn [chain_tree sub f_get]. rewrite Nat.eqb_refl. exact A.
          -- left. rewrite active_app, S. unfold active. cbn [sub]. exact A.
        * right. apply (enters_below f sc dst dd r UB Hd R root (d0 :: rt) SA (m :: q1) ltac:(discriminate)). exact A.
    - left. assert (NP: ~ is_prefix base p).
      { intros [q Hq]. apply NPF. rewrite Hq. rewrite firstn_app, Nat.sub_diag, firstn_all. cbn. now rewrite app_nil_r. }
      rewrite NEW, active_update_other in A by exact NP. exact A.
  Qed.

  Lemma active_prefix f a b : active f (a ++ b) = true -> active f a = true.
  Proof. rewrite active_app. unfold active. destruct (sub f a); [reflexivity|discriminate]. Qed.

  (* a resolution keeps every active state registered *)
  Lemma resolve_reg f sc dst dd r :
    wf_defs hm = true -> reg f -> find_def (scope_children hm sc) dst = Some dd ->
    resolve f sc dst dd = Some r -> reg (r_new r).
  Proof.
    intros W RG FD R p Hp A.
    assert (Hd: dst <> []) by (intros ->; destruct (scope_children hm sc); discriminate).
    assert (UB: uniq (initial_tree def_depth_bound dd) = true).
    { apply initial_tree_uniq. eapply find_def_wf; [|exact FD]. now apply scope_children_wf. }
    destruct (resolve_new_active f sc dst dd r UB Hd R p Hp A) as [H|H]; [now apply RG|].
    destruct (split_active f sc dst) as [root rest] eqn:SA.
    destruct (resolve_unfold f sc dst dd r R root rest SA) as (scoped & S & E). cbv zeta in E.
    assert (SCA: active f sc = true) by (apply (active_prefix f sc root); unfold active; now rewrite S).
    assert (SCR: sc = [] \/ exists ds, find_def (hm_states hm) sc = Some ds).
    { destruct sc as [|n sc']; [now left|right]. apply RG; [discriminate|exact SCA]. }
    destruct (sub f sc) as [cur|] eqn:SS; [|unfold active in SCA; rewrite SS in SCA; discriminate].
    destruct (split_active_spec f sc dst root rest cur Hd SS SA) as (RR & RN & _ & _).
    pose proof (scope_children_find sc dst dd SCR Hd FD) as FULL.
    rewrite E in H. cbn [r_enters] in H. apply in_app_iff in H as [H|H].
    - apply in_prefixes_from in H as (q & r' & Hq & Hr & ->).
      apply (find_def_prefix ((sc ++ root) ++ q) (hm_states hm) r' dd).
      + destruct q; [congruence|]. destruct (sc ++ root); discriminate.
      + replace (((sc ++ root) ++ q) ++ r') with (sc ++ dst); [exact FULL|].
        rewrite <- RR, Hr. now rewrite !app_assoc.
    - apply in_map_iff in H as (q & <- & Hq). apply in_bfs in Hq.
      apply initial_tree_registered in Hq as [d' Hd'].
      exists d'. replace ((sc ++ root) ++ rest ++ q) with ((sc ++ dst) ++ q) by (rewrite <- RR; now rewrite !app_assoc).
      assert (QN: q <> []) by (intros ->; destruct (sd_children dd); discriminate).
      rewrite (find_def_app (sc ++ dst) (hm_states hm) q dd); [exact Hd'| |exact QN|exact FULL].
      destruct dst; [congruence|]. destruct sc; discriminate.
  Qed.

  (* C02: after every event of every history the model's state names only registered states *)
  Theorem reach_reg f f' : wf_defs hm = true -> reach hm f f' -> reg f -> reg f'.
  Proof.
    intros W R. induction R as [|f sc dst dd r f' FD RS R IH]; intros RG; [exact RG|].
    apply IH. eapply resolve_reg; eauto.
  Qed.
End Reg.
