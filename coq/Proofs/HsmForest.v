(* HsmForest.v — algebra of configurations (forests): nodes / sub / active / level /
   resolve_order / update_at / f_set. *)
From Coq Require Import List Arith Bool Lia.
From M Require Import Base Flat Hsm HsmSpec.
Import ListNotations.

Lemma tree_ind2 (P : tree -> Prop) :
  (forall n ch, Forall P ch -> P (Node n ch)) -> forall t, P t.
Proof.
  intros H. fix IH 1. intros [n ch]. apply H.
  induction ch as [|c r IHr]; constructor; [apply IH|exact IHr].
Qed.

(* ---------- f_get ---------- *)
Lemma f_get_In f n ch : f_get f n = Some ch -> In (Node n ch) f.
Proof.
  induction f as [|[m c] r IH]; cbn; [discriminate|].
  destruct (Nat.eqb m n) eqn:E.
  - intros H. injection H as <-. apply Nat.eqb_eq in E. subst. now left.
  - intros H. right. auto.
Qed.

Lemma nodupb_notin x r : existsb (Nat.eqb x) r = false -> ~ In x r.
Proof.
  intros H HI. assert (existsb (Nat.eqb x) r = true); [|congruence].
  apply existsb_exists. exists x. split; [exact HI|apply Nat.eqb_refl].
Qed.

Lemma In_f_get f n ch : nodupb (names f) = true -> In (Node n ch) f -> f_get f n = Some ch.
Proof.
  induction f as [|[m c] r IH]; cbn; [tauto|].
  intros ND [H|H].
  - injection H as -> ->. now rewrite Nat.eqb_refl.
  - apply andb_true_iff in ND as [N1 N2]. apply negb_true_iff in N1.
    destruct (Nat.eqb m n) eqn:E.
    + apply Nat.eqb_eq in E. subst. exfalso. eapply nodupb_notin; [exact N1|].
      unfold names. change n with (t_name (Node n ch)). now apply in_map.
    + auto.
Qed.

(* ---------- nodes ---------- *)
Lemma in_nodes_cons f n r :
  In (n :: r) (nodes f) <-> exists ch, In (Node n ch) f /\ (r = [] \/ In r (nodes ch)).
Proof.
  unfold nodes. rewrite in_flat_map. split.
  - intros [[m ch] [Ht Hp]]. cbn in Hp. destruct Hp as [Hp|Hp].
    + injection Hp as -> <-. exists ch. split; [exact Ht|now left].
    + apply in_map_iff in Hp as (q & Hq & Hq2). injection Hq as -> <-. exists ch. split; [exact Ht|now right].
  - intros (ch & Ht & Hr). exists (Node n ch). split; [exact Ht|]. cbn. destruct Hr as [->|Hr]; [now left|].
    right. apply in_map. exact Hr.
Qed.

Lemma nil_notin_nodes f : ~ In [] (nodes f).
Proof.
  unfold nodes. rewrite in_flat_map. intros [[m ch] [_ H]]. cbn in H. destruct H as [H|H]; [discriminate|].
  apply in_map_iff in H as (q & Hq & _). discriminate.
Qed.

Lemma uniq_child f n ch : uniq f = true -> In (Node n ch) f -> uniq ch = true.
Proof.
  unfold uniq. intros U H. apply andb_true_iff in U as [_ U]. rewrite forallb_forall in U.
  specialize (U _ H). cbn in U. exact U.
Qed.

(* under sibling-uniqueness: a path is a node iff it is non-empty and active *)
Lemma in_nodes_active : forall p f, uniq f = true -> (In p (nodes f) <-> p <> [] /\ active f p = true).
Proof.
  induction p as [|n r IH]; intros f U.
  - split; [intros H; exfalso; eapply nil_notin_nodes; eauto|intros [H _]; congruence].
  - rewrite in_nodes_cons. unfold active. cbn [sub]. split.
    + intros (ch & Ht & Hr). split; [discriminate|].
      pose proof U as U'. unfold uniq in U'. apply andb_true_iff in U' as [ND _].
      rewrite (In_f_get f n ch ND Ht). destruct Hr as [->|Hr]; [reflexivity|].
      apply (IH ch (uniq_child _ _ _ U Ht)) in Hr. destruct Hr as [_ Hr]. exact Hr.
    + intros [_ H]. destruct (f_get f n) as [ch|] eqn:G; [|discriminate].
      exists ch. split; [now apply f_get_In|]. destruct r as [|m r']; [now left|right].
      apply (IH ch (uniq_child _ _ _ U (f_get_In _ _ _ G))). split; [discriminate|exact H].
Qed.

(* ---------- level / depth ---------- *)
Lemma in_level : forall k f p, In p (level (S k) f) <-> In p (nodes f) /\ length p = S k.
Proof.
  induction k as [|k IH]; intros f p.
  - cbn [level]. rewrite in_flat_map. split.
    + intros ([n ch] & Ht & Hp). cbn in Hp. destruct Hp as [<-|[]]. split; [|reflexivity].
      apply in_nodes_cons. exists ch. split; [exact Ht|now left].
    + intros [Hp Hl]. destruct p as [|n [|m r]]; cbn in Hl; try lia.
      apply in_nodes_cons in Hp as (ch & Ht & _). exists (Node n ch). split; [exact Ht|now left].
  - cbn [level]. rewrite in_flat_map. split.
    + intros ([n ch] & Ht & Hp). cbn [t_name t_children] in Hp. apply in_map_iff in Hp as (q & <- & Hq).
      apply IH in Hq as [Hq1 Hq2]. split; [|cbn; lia]. apply in_nodes_cons. exists ch. split; [exact Ht|now right].
    + intros [Hp Hl]. destruct p as [|n r]; cbn in Hl; [lia|].
      apply in_nodes_cons in Hp as (ch & Ht & Hr). destruct Hr as [->|Hr]; [cbn in Hl; lia|].
      exists (Node n ch). split; [exact Ht|]. cbn [t_name t_children]. apply in_map. apply IH. split; [exact Hr|lia].
Qed.

Lemma level_0 f : level 0 f = [].
Proof. reflexivity. Qed.

Lemma fold_max_le (l : list nat) x : In x l -> x <= fold_right Nat.max 0 l.
Proof. induction l as [|y r IH]; cbn; [tauto|]. intros [->|H]; [lia|]. specialize (IH H). lia. Qed.

Lemma nodes_depth : forall p f, In p (nodes f) -> length p <= depth f.
Proof.
  induction p as [|n r IH]; intros f H; [cbn; lia|].
  apply in_nodes_cons in H as (ch & Ht & Hr). unfold depth.
  assert (D: depth_t (Node n ch) <= fold_right Nat.max 0 (map depth_t f)) by (apply fold_max_le, in_map, Ht).
  cbn [depth_t] in D. destruct Hr as [->|Hr]; [cbn; lia|]. apply IH in Hr. unfold depth in Hr. cbn. lia.
Qed.

Lemma in_resolve_order f p : In p (resolve_order f) <-> In p (nodes f).
Proof.
  unfold resolve_order. rewrite in_flat_map. split.
  - intros (k & Hk & Hp). rewrite <- in_rev in Hk. apply in_seq in Hk. destruct k; [lia|]. apply in_level in Hp. tauto.
  - intros H. pose proof (nodes_depth _ _ H) as D. destruct p as [|n r] eqn:E; [exfalso; eapply nil_notin_nodes; eauto|].
    exists (length p). rewrite <- E in *. split.
    + rewrite <- in_rev. apply in_seq. subst p. cbn in *. lia.
    + subst p. cbn [length]. apply in_level. split; [exact H|reflexivity].
Qed.

Lemma in_bfs f p : In p (bfs f) <-> In p (nodes f).
Proof.
  unfold bfs. rewrite in_flat_map. split.
  - intros (k & Hk & Hp). apply in_seq in Hk. destruct k; [lia|]. apply in_level in Hp. tauto.
  - intros H. pose proof (nodes_depth _ _ H) as D. destruct p as [|n r] eqn:E; [exfalso; eapply nil_notin_nodes; eauto|].
    exists (length p). rewrite <- E in *. split.
    + apply in_seq. subst p. cbn in *. lia.
    + subst p. cbn [length]. apply in_level. split; [exact H|reflexivity].
Qed.

(* ---------- ordering: exits deepest first, enters top-down ---------- *)
Lemma level_length k f p : In p (level k f) -> length p = k.
Proof. destruct k; [intros []|]. intros H. apply in_level in H. tauto. Qed.

Lemma nonincr_app l1 l2 :
  nonincr l1 -> nonincr l2 -> (forall x y, In x l1 -> In y l2 -> y <= x) -> nonincr (l1 ++ l2).
Proof.
  induction l1 as [|a r IH]; cbn; intros H1 H2 H; [exact H2|].
  destruct H1 as [Ha Hr]. split.
  - apply Forall_app. split; [exact Ha|]. apply Forall_forall. intros y Hy. apply H; [now left|exact Hy].
  - apply IH; auto.
Qed.
Lemma nondecr_app l1 l2 :
  nondecr l1 -> nondecr l2 -> (forall x y, In x l1 -> In y l2 -> x <= y) -> nondecr (l1 ++ l2).
Proof.
  induction l1 as [|a r IH]; cbn; intros H1 H2 H; [exact H2|].
  destruct H1 as [Ha Hr]. split.
  - apply Forall_app. split; [exact Ha|]. apply Forall_forall. intros y Hy. apply H; [now left|exact Hy].
  - apply IH; auto.
Qed.
Lemma nonincr_const l k : (forall x, In x l -> x = k) -> nonincr l.
Proof.
  induction l as [|a r IH]; cbn; [tauto|]. intros H. split.
  - apply Forall_forall. intros y Hy. rewrite (H y), (H a); auto.
  - apply IH. intros x Hx. apply H. now right.
Qed.
Lemma nondecr_const l k : (forall x, In x l -> x = k) -> nondecr l.
Proof.
  induction l as [|a r IH]; cbn; [tauto|]. intros H. split.
  - apply Forall_forall. intros y Hy. rewrite (H y), (H a); auto.
  - apply IH. intros x Hx. apply H. now right.
Qed.

(* lengths along levels taken in decreasing order of k *)
Lemma levels_nonincr f ks :
  (forall i j a b, nth_error ks i = Some a -> nth_error ks j = Some b -> i < j -> b <= a) ->
  nonincr (map (@length nat) (flat_map (fun k => level k f) ks)).
Proof.
  induction ks as [|k r IH]; intros H; cbn; [exact I|].
  rewrite map_app. apply nonincr_app.
  - apply nonincr_const with (k := k). intros x Hx. apply in_map_iff in Hx as (p & <- & Hp). eapply level_length; eauto.
  - apply IH. intros i j a b Hi Hj L. apply (H (S i) (S j)); auto; lia.
  - intros x y Hx Hy. apply in_map_iff in Hx as (p & <- & Hp). apply in_map_iff in Hy as (q & <- & Hq).
    apply in_flat_map in Hq as (k' & Hk' & Hq). rewrite (level_length _ _ _ Hp), (level_length _ _ _ Hq).
    apply In_nth_error in Hk' as [j Hj]. apply (H 0 (S j)); [reflexivity|exact Hj|lia].
Qed.
Lemma levels_nondecr f ks :
  (forall i j a b, nth_error ks i = Some a -> nth_error ks j = Some b -> i < j -> a <= b) ->
  nondecr (map (@length nat) (flat_map (fun k => level k f) ks)).
Proof.
  induction ks as [|k r IH]; intros H; cbn; [exact I|].
  rewrite map_app. apply nondecr_app.
  - apply nondecr_const with (k := k). intros x Hx. apply in_map_iff in Hx as (p & <- & Hp). eapply level_length; eauto.
  - apply IH. intros i j a b Hi Hj L. apply (H (S i) (S j)); auto; lia.
  - intros x y Hx Hy. apply in_map_iff in Hx as (p & <- & Hp). apply in_map_iff in Hy as (q & <- & Hq).
    apply in_flat_map in Hq as (k' & Hk' & Hq). rewrite (level_length _ _ _ Hp), (level_length _ _ _ Hq).
    apply In_nth_error in Hk' as [j Hj]. apply (H 0 (S j)); [reflexivity|exact Hj|lia].
Qed.

Lemma seq_nth_error : forall n s i a, nth_error (seq s n) i = Some a -> a = s + i.
Proof.
  induction n as [|n IH]; intros s i a H; [destruct i; discriminate|].
  destruct i as [|i]; cbn in H; [injection H as <-; lia|]. apply IH in H. lia.
Qed.

(* exits run deepest first (children before their parents) *)
Lemma resolve_order_nonincr f : nonincr (map (@length nat) (resolve_order f)).
Proof.
  unfold resolve_order. apply levels_nonincr. intros i j a b Hi Hj L.
  assert (Li: i < length (rev (seq 1 (depth f)))) by (apply nth_error_Some; congruence).
  assert (Lj: j < length (rev (seq 1 (depth f)))) by (apply nth_error_Some; congruence).
  rewrite rev_length, seq_length in Li, Lj.
  rewrite nth_error_nth' with (d := 0) in Hi by (rewrite rev_length, seq_length; lia).
  rewrite nth_error_nth' with (d := 0) in Hj by (rewrite rev_length, seq_length; lia).
  injection Hi as <-. injection Hj as <-.
  rewrite !rev_nth by (rewrite seq_length; lia). rewrite seq_length.
  rewrite !seq_nth by lia. lia.
Qed.
(* enters run top-down *)
Lemma bfs_nondecr f : nondecr (map (@length nat) (bfs f)).
Proof.
  unfold bfs. apply levels_nondecr. intros i j a b Hi Hj L.
  apply seq_nth_error in Hi. apply seq_nth_error in Hj. lia.
Qed.


(* ---------- update_at / f_set versus sub / active ---------- *)
Lemma f_get_map_upd f n m (h : forest -> forest) :
  f_get (map (fun t => if Nat.eqb (t_name t) n then Node n (h (t_children t)) else t) f) m =
  if Nat.eqb m n then option_map h (f_get f n) else f_get f m.
Proof.
  induction f as [|[k c] r IH]; cbn [map f_get t_name t_children].
  - now destruct (Nat.eqb m n).
  - destruct (Nat.eqb k n) eqn:E1.
    + apply Nat.eqb_eq in E1. subst k. cbn [f_get]. destruct (Nat.eqb m n) eqn:E2.
      * apply Nat.eqb_eq in E2. subst m. rewrite Nat.eqb_refl. reflexivity.
      * rewrite ?(Nat.eqb_sym n m), ?E2. rewrite IH, ?E2. reflexivity.
    + cbn [f_get]. destruct (Nat.eqb k m) eqn:E3.
      * apply Nat.eqb_eq in E3. subst m. rewrite E1. reflexivity.
      * exact IH.
Qed.

(* below the updated node: what g produced *)
Lemma sub_update_below : forall base f g sc q,
  sub f base = Some sc -> sub (update_at f base g) (base ++ q) = sub (g sc) q.
Proof.
  induction base as [|n b IH]; intros f g sc q H; cbn in *.
  - injection H as <-. reflexivity.
  - rewrite (f_get_map_upd f n n (fun c => update_at c b g)), Nat.eqb_refl.
    destruct (f_get f n) as [ch|]; [|discriminate]. cbn. apply IH. exact H.
Qed.

(* a path that does not pass through the updated node keeps its status *)
Lemma active_update_other : forall base f g p,
  ~ is_prefix base p -> active (update_at f base g) p = active f p.
Proof.
  induction base as [|n b IH]; intros f g p NP.
  - exfalso. apply NP. exists p. reflexivity.
  - destruct p as [|m r]; [reflexivity|]. unfold active in *. cbn [update_at sub].
    rewrite (f_get_map_upd f n m (fun c => update_at c b g)). destruct (Nat.eqb m n) eqn:E.
    + apply Nat.eqb_eq in E. subst m. destruct (f_get f n) as [ch|]; [|reflexivity]. cbn.
      apply IH. intros [q Hq]. apply NP. exists q. cbn. now rewrite Hq.
    + reflexivity.
Qed.

Lemma f_get_f_set f k v m : f_get (f_set f k v) m = if Nat.eqb m k then Some v else f_get f m.
Proof.
  induction f as [|[j c] r IH]; cbn [f_set f_get].
  - rewrite (Nat.eqb_sym k m). destruct (Nat.eqb m k); reflexivity.
  - destruct (Nat.eqb j k) eqn:E1.
    + apply Nat.eqb_eq in E1. subst j. cbn [f_get]. rewrite (Nat.eqb_sym k m). destruct (Nat.eqb m k) eqn:E2; reflexivity.
    + cbn [f_get]. destruct (Nat.eqb j m) eqn:E3.
      * apply Nat.eqb_eq in E3. subst m. rewrite E1. reflexivity.
      * exact IH.
Qed.

Lemma active_app f a q : active f (a ++ q) = match sub f a with Some g => active g q | None => false end.
Proof.
  unfold active. revert f; induction a as [|n r IH]; intros f; cbn; [reflexivity|].
  destruct (f_get f n) as [ch|]; [apply IH|reflexivity].
Qed.

(* ---------- chain_tree / prefixes_from ---------- *)
Lemma active_chain : forall d bottom q,
  d <> [] -> q <> [] ->
  active (chain_tree d bottom) q = true <->
  ((exists r, d = q ++ r) \/ (exists r, q = d ++ r /\ r <> [] /\ active bottom r = true)).
Proof.
  induction d as [|n d' IH]; intros bottom q Hd Hq; [congruence|].
  destruct q as [|m q']; [congruence|]. unfold active. cbn [chain_tree sub f_get].
  destruct (Nat.eqb n m) eqn:E.
  - apply Nat.eqb_eq in E. subst m. destruct d' as [|n2 d2].
    + cbn [chain_tree]. destruct q' as [|m2 q2].
      * split; [intros _; left; exists []; reflexivity|reflexivity].
      * split.
        -- intros H. right. exists (m2 :: q2). repeat split; [discriminate|exact H].
        -- intros [[r Hr]|[r [Hr [_ Ha]]]]; [destruct q2; discriminate|]. injection Hr as <-. exact Ha.
    + destruct q' as [|m2 q2].
      * split; [intros _; left; exists (n2 :: d2); reflexivity|reflexivity].
      * specialize (IH bottom (m2 :: q2) ltac:(discriminate) ltac:(discriminate)). unfold active in IH. rewrite IH. split.
        -- intros [[r Hr]|[r [Hr Hr2]]]; [left; exists r; cbn; now rewrite Hr|right; exists r; split; [cbn; now rewrite Hr|exact Hr2]].
        -- intros [[r Hr]|[r [Hr Hr2]]]; [left; exists r; cbn in Hr; injection Hr; intros; cbn; congruence
                                          |right; exists r; split; [cbn in Hr; injection Hr; intros; cbn; congruence|exact Hr2]].
  - split; [discriminate|]. apply Nat.eqb_neq in E.
    intros [[r Hr]|[r [Hr _]]]; injection Hr; intros; congruence.
Qed.

Lemma in_prefixes_from : forall d base p,
  In p (prefixes_from base d) <-> exists q r, q <> [] /\ d = q ++ r /\ p = base ++ q.
Proof.
  induction d as [|n d' IH]; intros base p; cbn [prefixes_from].
  - split; [intros []|]. intros (q & r & Hq & H & _). destruct q; [congruence|discriminate].
  - split.
    + intros [<-|H].
      * exists [n], d'. repeat split. discriminate.
      * apply IH in H as (q & r & Hq & -> & ->). exists (n :: q), r. repeat split; [discriminate|]. now rewrite <- app_assoc.
    + intros (q & r & Hq & H & ->). destruct q as [|m q']; [congruence|]. injection H as <- ->.
      destruct q' as [|m2 q2]; [now left|right]. apply IH. exists (m2 :: q2), r. repeat split; [discriminate|].
      now rewrite <- app_assoc.
Qed.

Lemma prefixes_from_lengths : forall d base,
  nondecr (map (@length nat) (prefixes_from base d)) /\
  (forall x, In x (map (@length nat) (prefixes_from base d)) -> length base < x <= length base + length d).
Proof.
  induction d as [|n d' IH]; intros base; cbn [prefixes_from map]; [split; [exact I|intros x []]|].
  destruct (IH (base ++ [n])) as [I1 I2]. rewrite app_length in I2. cbn in I2. split.
  - split; [|exact I1]. apply Forall_forall. intros y Hy. specialize (I2 y Hy). rewrite app_length. cbn. lia.
  - intros x [<-|Hx]; [rewrite app_length; cbn; lia|]. specialize (I2 x Hx). cbn. lia.
Qed.
