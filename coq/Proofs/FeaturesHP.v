(* FeaturesHP.v — proofs about the hierarchical layer (FeaturesH.v): whatever the state
   tree, the order of the mixins and the feature arguments, objects under hook names are only
   ever installed with the identity given by the counter, which only grows: every installed
   object is new with respect to everything any model held before. *)
From Coq Require Import List Arith Bool Lia.
From M Require Import Features FeaturesSpec FeaturesH.
From P Require Import FeaturesP.
Import ListNotations.

Lemma held_below_mono r n n' : held_below r n -> n <= n' -> held_below r n'.
Proof. intros H L h o E. specialize (H h o E). lia. Qed.

Lemma exit_chain_held c m s r n : held_below r n -> held_below (snd (exit_chain c m s r)) n.
Proof.
  intros H. unfold exit_chain. cbn [snd]. destruct (has_volatile (c_order c)).
  - intros h o E. simpl in E. unfold upd in E.
    destruct (Nat.eqb h (fs_hook (sdef c s))); [discriminate | exact (H h o E)].
  - exact H.
Qed.

Lemma run_exits_snd c m seen a rest r :
  snd (run_exits c m seen (a :: rest) r) = snd (run_exits c m seen rest (snd (exit_chain c m a r))).
Proof.
  simpl. unfold exit_chain. cbn [snd].
  destruct (run_exits c m seen rest _) as [it2 r2]. reflexivity.
Qed.

Lemma run_exits_held c m seen xs : forall r n,
  held_below r n -> held_below (snd (run_exits c m seen xs r)) n.
Proof.
  induction xs as [|a rest IH]; intros r n H; [exact H|].
  rewrite run_exits_snd. apply IH. now apply exit_chain_held.
Qed.

Lemma chain_held c fs m src d r f it r' f' x :
  enter_chain c fs m src d r f = (it, r', f', x) ->
  held_below r f -> f <= f' /\ held_below r' f'.
Proof.
  intros E H. destruct (chain_fresh_bound _ _ _ _ _ _ _ _ _ _ _ E) as [A B].
  split; [exact A|]. intros h o Ho. destruct (B h o Ho) as [L|R]; [exact L|].
  specialize (H h o R). lia.
Qed.

Lemma run_enters_held c m src seen es : forall r f it r' f' x,
  run_enters c m src seen es r f = (it, r', f', x) ->
  held_below r f -> f <= f' /\ held_below r' f'.
Proof.
  induction es as [|a rest IH]; intros r f it r' f' x E H; simpl in E.
  - inversion E; subst. split; [lia | exact H].
  - destruct (enter_chain c (c_order c) m src a r f) as [[[it1 r1] f1] x1] eqn:E1.
    destruct (chain_held _ _ _ _ _ _ _ _ _ _ _ E1 H) as [A1 H1].
    destruct x1.
    + inversion E; subst. split; assumption.
    + destruct (run_enters c m src seen rest r1 f1) as [[[it2 r2] f2] x2] eqn:E2.
      inversion E; subst. destruct (IH _ _ _ _ _ _ E2 H1) as [A2 H2]. split; [lia | exact H2].
Qed.

Local Arguments upd : simpl never.

Lemma hstep_fresh hc w m e :
  fresh_inv w ->
  fresh_inv (snd (fst (hstep hc w m e))) /\ w_fresh w <= w_fresh (snd (fst (hstep hc w m e))).
Proof.
  intros I. unfold hstep.
  destruct (negb (event_known (h_cfg hc) e)); [simpl; split; [exact I | lia]|].
  destruct (cand_on_path _ e _) as [t|]; [|simpl; split; [exact I | lia]].
  destruct (ft_dst t) as [d|]; [|simpl; split; [exact I | lia]].
  destruct (resolve hc _ d) as [exits enters].
  destruct (run_exits (chain_cfg hc) m (m_state (w_m w m)) exits (w_m w m)) as [ex r1] eqn:EX.
  destruct (run_enters (chain_cfg hc) m (ft_src t) (last enters d) enters (set_state r1 (last enters d)) (w_fresh w))
    as [[[en r3] fr] raised] eqn:EN.
  simpl.
  assert (H1 : held_below r1 (w_fresh w)).
  { pose proof (run_exits_held (chain_cfg hc) m (m_state (w_m w m)) exits (w_m w m) (w_fresh w) (I m)) as H.
    now rewrite EX in H. }
  assert (H2 : held_below (set_state r1 (last enters d)) (w_fresh w)) by exact H1.
  destruct (run_enters_held _ _ _ _ _ _ _ _ _ _ _ EN H2) as [A H3].
  split; [|exact A].
  intros m0. simpl. destruct (Nat.eq_dec m0 m) as [->|NE].
  - rewrite upd_same. exact H3.
  - rewrite upd_other by exact NE. eapply held_below_mono; [apply I | exact A].
Qed.

Lemma hrun_fresh hc : forall h w, fresh_inv w -> fresh_inv (hrun_world hc w h).
Proof.
  induction h as [|[m e] rest IH]; intros w I; simpl; [exact I|].
  apply IH. apply hstep_fresh. exact I.
Qed.

(* the initial world: the k pre-existing objects are numbered below k *)
Lemma init_fresh s0 pre k :
  (forall m h o, pre m h = Some o -> o < k) -> fresh_inv (init_world_p s0 pre k).
Proof. intros H m h o E. simpl in *. eauto. Qed.

Lemma hier_fresh hc s0 pre k h :
  (forall m hk o, pre m hk = Some o -> o < k) ->
  fresh_inv (hrun_world hc (init_world_p s0 pre k) h).
Proof. intros H. apply hrun_fresh. now apply init_fresh. Qed.

(* ----------------------------------------------------------------- flat configurations:
   the hierarchical engine is the flat engine of Features.v *)
Lemma chain_items_seen c fs : forall m src d r f it r' f' x,
  enter_chain c fs m src d r f = (it, r', f', x) -> map (set_seen d) it = it.
Proof.
  induction fs as [|g k IH]; intros m src d r f it r' f' x H.
  - simpl in H. inversion H; subst. unfold enter_items. rewrite map_map. reflexivity.
  - chain_cases g H.
    + eauto.
    + destruct (error_test c d); [inversion H; subst; reflexivity | eauto].
    + eauto.
    + destruct (_ && _); [|eauto]. inversion H; subst. unfold fail_items.
      destruct (fs_on_failure (sdef c d)); reflexivity.
Qed.

Lemma exit_items_seen c m s : map (set_seen s) (exit_items c m s) = exit_items c m s.
Proof. unfold exit_items. rewrite map_map. reflexivity. Qed.

Lemma init_chain_flat c fuel d : init_chain (hflat c) fuel d = [].
Proof. destruct fuel; reflexivity. Qed.

Lemma chain_cfg_flat c : chain_cfg (hflat c) = c.
Proof. destruct c. unfold chain_cfg, inherited. simpl. now rewrite app_nil_r. Qed.

Lemma resolve_flat c s d : resolve (hflat c) [s] d = ([s], [d]).
Proof.
  unfold resolve. simpl. rewrite init_chain_flat.
  destruct (Nat.eqb s d) eqn:E; simpl.
  - apply Nat.eqb_eq in E. now subst.
  - reflexivity.
Qed.

Lemma hstep_flat c w m e : hstep (hflat c) w m e = fstep c w m e.
Proof.
  unfold hstep, fstep. change (h_cfg (hflat c)) with c.
  destruct (negb (event_known c e)); [reflexivity|].
  change (hpath (hflat c) (m_state (w_m w m))) with [m_state (w_m w m)]. simpl rev. simpl cand_on_path.
  destruct (first_cand (c_trans c) e (m_state (w_m w m))) as [t|] eqn:FC; [|reflexivity].
  destruct (ft_dst t) as [d|]; [|reflexivity].
  destruct (first_cand_some _ _ _ _ FC) as [_ [_ SRC]].
  rewrite resolve_flat, chain_cfg_flat. simpl last. simpl run_exits.
  unfold exit_chain. rewrite exit_items_seen, app_nil_r, SRC. simpl run_enters.
  destruct (enter_chain c (c_order c) m (m_state (w_m w m)) d _ (w_fresh w)) as [[[it r1] f1] x] eqn:E.
  rewrite (chain_items_seen _ _ _ _ _ _ _ _ _ _ _ E).
  destruct x; [reflexivity | now rewrite app_nil_r].
Qed.

Lemma hrun_flat c : forall h w, hrun (hflat c) w h = frun c w h.
Proof.
  induction h as [|[m e] rest IH]; intros w; simpl; [reflexivity|].
  rewrite hstep_flat. f_equal. apply IH.
Qed.
