(* ReentP.v — the unqueued re-entrant engine: refinement of the flat engine, immediate nested processing. *)
From Coq Require Import List Arith Bool Lia.
From M Require Import Base Flat Reent.
Import ListNotations.

(* The re-entrant engine refines the flat engine: when no callback performs an action, a
   trigger on model m behaves exactly like Flat.trigger on m's state and leaves every other
   model alone. *)
Definition no_acts (ev : env) : Prop := forall cb p, r_acts (ev cb p) = [].

Lemma rset_same l m s : lookup l m = Some s -> rset l m s = l.
Proof.
  induction l as [|[m' s'] r IH]; cbn; [discriminate|]. destruct (Nat.eqb m m') eqn:E.
  - intros H. injection H as ->. apply Nat.eqb_eq in E. now subst.
  - intros H. now rewrite IH.
Qed.
Lemma lookup_rset l m s : lookup (rset l m s) m = Some s.
Proof.
  induction l as [|[m' s'] r IH]; cbn; [now rewrite Nat.eqb_refl|]. destruct (Nat.eqb m m') eqn:E; cbn.
  - now rewrite Nat.eqb_refl.
  - now rewrite E.
Qed.
Lemma rset_rset l m s1 s2 : rset (rset l m s1) m s2 = rset l m s2.
Proof.
  induction l as [|[m' s'] r IH]; cbn; [now rewrite Nat.eqb_refl|]. destruct (Nat.eqb m m') eqn:E; cbn.
  - now rewrite Nat.eqb_refl.
  - now rewrite E, IH.
Qed.
Lemma lookup_rset_other l m m' s : m' <> m -> lookup (rset l m s) m' = lookup l m'.
Proof.
  intros N. induction l as [|[k v] r IH]; cbn.
  - destruct (Nat.eqb m' m) eqn:E; [apply Nat.eqb_eq in E; congruence|reflexivity].
  - destruct (Nat.eqb m k) eqn:E; cbn.
    + apply Nat.eqb_eq in E. subst k. destruct (Nat.eqb m' m) eqn:E2; [apply Nat.eqb_eq in E2; congruence|reflexivity].
    + destruct (Nat.eqb m' k); [reflexivity|exact IH].
Qed.

Section Refine.
  Variable mc : machine.
  Variable ev : env.
  Variable nested : model -> event -> nat -> RM bool.
  Variable c : ctx.
  Hypothesis NA : no_acts ev.
  Notation m := (c_model c).
  Notation ids := (fun s : state => s).

  Definition present (w : rworld) : Prop := exists s, lookup (rw_states w) m = Some s.

  (* rm simulates fm *)
  Definition sim {A} (fm : M (V:=state) (S:=state) A) (rm : RM A) : Prop :=
    forall p w, present w ->
      rm p w = (let '(tr, s', r) := fm p (rstate_of w m) in (tr, rput m s' w, r)).

  Lemma rput_same w : present w -> rput m (rstate_of w m) w = w.
  Proof.
    intros [s H]. unfold rput, rstate_of. rewrite H. rewrite rset_same by exact H. now destruct w.
  Qed.
  Lemma rstate_rput w s : rstate_of (rput m s w) m = s.
  Proof. unfold rstate_of, rput. cbn. now rewrite lookup_rset. Qed.
  Lemma present_rput w s : present (rput m s w).
  Proof. exists s. unfold rput. cbn. apply lookup_rset. Qed.
  Lemma rput_rput w s1 s2 : rput m s2 (rput m s1 w) = rput m s2 w.
  Proof. unfold rput. cbn. now rewrite rset_rset. Qed.

  Lemma sim_ret {A} (a : A) : sim (ret a) (ret a).
  Proof. intros p w P. unfold ret. now rewrite rput_same. Qed.
  Lemma sim_raise {A} (x : exn) : sim (@raise state state A x) (@raise state rworld A x).
  Proof. intros p w P. unfold raise. now rewrite rput_same. Qed.

  Lemma sim_bind {A B} fm rm (ff : A -> M (V:=state) (S:=state) B) (rf : A -> RM B) :
    sim fm rm -> (forall a, sim (ff a) (rf a)) -> sim (bind fm ff) (bind rm rf).
  Proof.
    intros Hm Hf p w P. unfold bind. rewrite (Hm p w P).
    destruct (fm p (rstate_of w m)) as [[t1 s1] [e|a]]; [reflexivity|].
    rewrite (Hf a _ _ (present_rput w s1)). rewrite rstate_rput.
    destruct (ff a (p + length t1) s1) as [[t2 s2] r2]. now rewrite rput_rput.
  Qed.

  Lemma sim_tef {A} fm rm (fh : exn -> M (V:=state) (S:=state) A) rh (ffin : option exn -> M (V:=state) (S:=state) unit) rfin :
    sim fm rm -> (forall e, sim (fh e) (rh e)) -> (forall o, sim (ffin o) (rfin o)) ->
    sim (try_except_finally fm fh ffin) (try_except_finally rm rh rfin).
  Proof.
    intros Hm Hh Hf p w P. unfold try_except_finally. rewrite (Hm p w P).
    destruct (fm p (rstate_of w m)) as [[t1 s1] [e|a]].
    - rewrite (Hh e _ _ (present_rput w s1)), rstate_rput.
      destruct (fh e (p + length t1) s1) as [[t2 s2] r2]. rewrite rput_rput.
      rewrite (Hf (Some e) _ _ (present_rput w s2)), rstate_rput.
      destruct (ffin (Some e) (p + length t1 + length t2) s2) as [[t3 s3] r3]. now rewrite rput_rput.
    - rewrite (Hf None _ _ (present_rput w s1)), rstate_rput.
      destruct (ffin None (p + length t1) s1) as [[t3 s3] r3]. now rewrite rput_rput.
  Qed.

  Lemma sim_call sl err cb : sim (call ids ev c sl err cb) (rcall ev nested c sl err cb).
  Proof.
    intros p w P. unfold call, rcall. rewrite NA. cbn [perform]. unfold ret.
    destruct (r_raise (ev cb p)); cbv iota beta; rewrite rput_same by exact P; reflexivity.
  Qed.
  Lemma sim_run_cbs sl err cbs : sim (run_cbs ids ev c sl err cbs) (rrun_cbs ev nested c sl err cbs).
  Proof. induction cbs as [|cb r IH]; cbn [run_cbs rrun_cbs]; [apply sim_ret|]. apply sim_bind; [apply sim_call|intros _; exact IH]. Qed.
  Lemma sim_eval_conds conds : sim (eval_conds ids ev c conds) (reval_conds ev nested c conds).
  Proof.
    induction conds as [|[cb tg] r IH]; cbn [eval_conds reval_conds]; [apply sim_ret|].
    apply sim_bind; [apply sim_call|intros v]. destruct (Bool.eqb v tg); [exact IH|apply sim_ret].
  Qed.
  Lemma sim_put d : sim (put d) (fun _ w => ([], rput m d w, inr tt)).
  Proof. intros p w P. unfold put. reflexivity. Qed.

  Lemma sim_change_state t d : sim (change_state mc ev c t d) (rchange_state mc ev nested c t d).
  Proof.
    unfold change_state, rchange_state. destruct (get_state mc (t_src t)); [|apply sim_raise].
    apply sim_bind; [apply sim_run_cbs|intros _]. destruct (get_state mc d); [|apply sim_raise].
    apply sim_bind; [apply sim_put|intros _]. apply sim_bind; [apply sim_run_cbs|intros _].
    destruct (s_final s0); [apply sim_run_cbs|apply sim_ret].
  Qed.
  Lemma sim_execute t : sim (execute mc ev c t) (rexecute mc ev nested c t).
  Proof.
    unfold execute, rexecute. apply sim_bind; [apply sim_run_cbs|intros _].
    apply sim_bind; [apply sim_eval_conds|intros ok]. destruct ok; [|apply sim_ret].
    apply sim_bind; [apply sim_run_cbs|intros _]. apply sim_bind; [apply sim_run_cbs|intros _].
    apply sim_bind; [destruct (t_dst t); [apply sim_change_state|apply sim_ret]|intros _].
    apply sim_bind; [apply sim_run_cbs|intros _]. apply sim_bind; [apply sim_run_cbs|intros _]. apply sim_ret.
  Qed.
  Lemma sim_try_transitions ts : sim (try_transitions mc ev c ts) (rtry_transitions mc ev nested c ts).
  Proof.
    induction ts as [|t r IH]; cbn [try_transitions rtry_transitions]; [apply sim_ret|].
    apply sim_bind; [apply sim_execute|intros ok]. destruct ok; [apply sim_ret|exact IH].
  Qed.

  Lemma trigger_event_unfold ts p s :
    trigger_event mc ev c ts p s =
      match get_state mc s with
      | None => ([], s, inl ValueError)
      | Some sd =>
          try_except_finally (checked_process mc ev c ts s sd)
            (fun e => match m_on_exception mc with [] => raise e | hs => run_cbs ids ev c SOnException (Some e) hs ;;; ret false end)
            (fun err => run_cbs ids ev c SFinalize err (m_finalize mc)) p s
      end.
  Proof.
    unfold trigger_event, bind, get. cbn [length app]. rewrite Nat.add_0_r.
    destruct (get_state mc s) as [sd|]; [|reflexivity].
    destruct (try_except_finally _ _ _ p s) as [[t2 s2] r]. reflexivity.
  Qed.
  Lemma rtrigger_event_unfold ts p w :
    rtrigger_event mc ev nested c ts p w =
      match get_state mc (rstate_of w m) with
      | None => ([], w, inl ValueError)
      | Some sd =>
          try_except_finally (rchecked_process mc ev nested c ts (rstate_of w m) sd)
            (fun e => match m_on_exception mc with [] => raise e | hs => rrun_cbs ev nested c SOnException (Some e) hs ;;; ret false end)
            (fun err => rrun_cbs ev nested c SFinalize err (m_finalize mc)) p w
      end.
  Proof.
    unfold rtrigger_event, bind, get. cbn [length app]. rewrite Nat.add_0_r.
    destruct (get_state mc (rstate_of w m)) as [sd|]; [|reflexivity].
    destruct (try_except_finally _ _ _ p w) as [[t2 s2] r]. reflexivity.
  Qed.

  (* model.<event>() on the re-entrant engine = Event._trigger of the flat engine on m's state *)
  Theorem rtrigger_event_refines ts : sim (trigger_event mc ev c ts) (rtrigger_event mc ev nested c ts).
  Proof.
    intros p w P. rewrite trigger_event_unfold, rtrigger_event_unfold.
    destruct (get_state mc (rstate_of w m)) as [sd|] eqn:GS; [|now rewrite rput_same by exact P].
    apply sim_tef; [| |intros o; apply sim_run_cbs|exact P].
    - unfold checked_process, rchecked_process. destruct (candidates ts (rstate_of w m)) eqn:EC.
      + destruct (ignores mc sd); [apply sim_ret|apply sim_raise].
      + unfold process, rprocess. rewrite EC. apply sim_bind; [apply sim_run_cbs|intros _; apply sim_try_transitions].
    - intros e. destruct (m_on_exception mc); [apply sim_raise|]. apply sim_bind; [apply sim_run_cbs|intros _; apply sim_ret].
  Qed.

  (* every other model keeps its state *)
  Lemma rput_other w s m' : m' <> m -> rstate_of (rput m s w) m' = rstate_of w m'.
  Proof. intros N. unfold rstate_of, rput. cbn. now rewrite lookup_rset_other. Qed.
End Refine.

(* Without a queue an event triggered from a callback is processed immediately and
   completely — its whole trace, finalize callbacks included, follows the triggering
   callback's item — before the callback returns (and before any later callback runs). *)
Section Nested.
  Variable mc : machine.
  Variable ev : env.
  Variable nested : model -> event -> nat -> RM bool.
  Variable c : ctx.

  Theorem rcall_nested sl err cb p w m' e' tn w' b :
    r_acts (ev cb p) = [ATrigger m' e'] -> r_raise (ev cb p) = None ->
    nested m' e' (nested_payload_r p 0) (S p) w = (tn, w', inr b) ->
    rcall ev nested c sl err cb p w =
      (mkItem sl cb (c_model c) (rstate_of w (c_model c)) (ctx_arg c) (if c_send c then err else None)
              (r_ret (ev cb p)) [ATrigger m' e'] :: tn,
       w', inr (r_ret (ev cb p))).
  Proof.
    intros A R N. unfold rcall. rewrite A, R. cbn [perform]. unfold bind. rewrite N. unfold ret.
    now rewrite app_nil_r.
  Qed.

  (* a nested event that raises makes the triggering callback raise *)
  Theorem rcall_nested_raises sl err cb p w m' e' tn w' x :
    r_acts (ev cb p) = [ATrigger m' e'] ->
    nested m' e' (nested_payload_r p 0) (S p) w = (tn, w', inl x) ->
    rcall ev nested c sl err cb p w =
      (mkItem sl cb (c_model c) (rstate_of w (c_model c)) (ctx_arg c) (if c_send c then err else None)
              (r_ret (ev cb p)) [ATrigger m' e'] :: tn,
       w', inl x).
  Proof. intros A N. unfold rcall. rewrite A. cbn [perform]. unfold bind. now rewrite N. Qed.
End Nested.
