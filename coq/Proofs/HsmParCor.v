(* HsmParCor.v — C02: the balance theorems without the side condition narrow_ok, for every configuration reachable
   from the one add_model creates, on machines whose parallel states enter all their regions. *)
From Coq Require Import List Arith Bool Lia.
From M Require Import Base Flat Hsm HsmSpec.
From P Require Import HsmForest HsmResolve HsmReach HsmInit HsmPar.
Import ListNotations.

Section Cor.
  Variable hm : hmachine.
  Local Opaque def_depth_bound.
  Hypothesis W : wf_defs hm = true.
  Hypothesis FP : full_par_defs hm = true.

  (* configurations reachable from an initial configuration *)
  Definition reachable (f : forest) : Prop :=
    exists ini d, find_def (hm_states hm) ini = Some d /\ reach hm (chain_tree ini (initial_tree def_depth_bound d)) f.

  Lemma reachable_inv f : reachable f -> uniq f = true /\ reg hm f /\ pfull hm f.
  Proof.
    intros (ini & d & FD & R).
    assert (U0 := initial_config_uniq hm ini d W FD).
    assert (P0 := initial_config_pfull hm ini d FP FD).
    assert (R0 : reg hm (chain_tree ini (initial_tree def_depth_bound d))).
    { assert (NI : ini <> []) by (intros ->; discriminate FD).
      intros p NP A. apply active_chain in A; [|exact NI|exact NP].
      destruct A as [[r ->]|(r & -> & NR0 & A)].
      - eapply find_def_prefix; eauto.
      - assert (UB : uniq (initial_tree def_depth_bound d) = true) by (apply initial_tree_uniq; eapply find_def_wf; eauto).
        assert (I : In r (nodes (initial_tree def_depth_bound d))) by (apply in_nodes_active; auto).
        apply initial_tree_registered in I as [d' Hd']. exists d'.
        rewrite (find_def_app ini (hm_states hm) r d NI NR0 FD). exact Hd'. }
    split; [eapply reach_uniq; eauto|]. split; [eapply reach_reg; eauto|eapply reach_pfull; eauto].
  Qed.

  (* every transition resolution in a reachable configuration: balance and freshness, unconditionally *)
  Theorem balanced_reachable f sc dst dd r :
    reachable f -> find_def (scope_children hm sc) dst = Some dd -> resolve f sc dst dd = Some r ->
    (forall p, p <> [] ->
       (active (r_new r) p = true <-> (active f p = true /\ ~ In p (r_exits r)) \/ In p (r_enters r))) /\
    (forall p, In p (r_enters r) -> active f p = true -> In p (r_exits r)) /\
    reachable (r_new r).
  Proof.
    intros RB FD RS. destruct (reachable_inv f RB) as (U & RG & PF).
    assert (ND : dst <> []) by (intros ->; destruct (scope_children hm sc); discriminate).
    assert (UB : uniq (initial_tree def_depth_bound dd) = true).
    { apply initial_tree_uniq. eapply find_def_wf; [|exact FD]. now apply scope_children_wf. }
    destruct (split_active f sc dst) as [root rest] eqn:SA.
    assert (exists cur, sub f sc = Some cur) as [cur S].
    { unfold resolve in RS. rewrite SA in RS. destruct (sub f (sc ++ root)) eqn:SB; [|discriminate].
      rewrite sub_app in SB. destruct (sub f sc); [eauto|discriminate]. }
    pose proof (nok_of_pfull hm f sc dst dd cur root rest RG PF FD S SA) as NOK.
    split; [exact (resolve_balance f sc dst dd r U UB ND RS root rest SA NOK)|].
    split; [exact (resolve_enters_fresh f sc dst dd r U UB ND RS root rest SA NOK)|].
    destruct RB as (ini & d & FD0 & R0). exists ini, d. split; [exact FD0|].
    eapply reach_trans; [exact R0|]. econstructor; [exact FD|exact RS|constructor].
  Qed.

  (* ... and the exit set of every such resolution: exactly the active states strictly below the deepest active
     proper ancestor of the destination, narrowed to the destination's branch when several children of it are active *)
  Theorem exit_set_reachable f sc dst dd r root rest :
    reachable f -> find_def (scope_children hm sc) dst = Some dd -> resolve f sc dst dd = Some r ->
    split_active f sc dst = (root, rest) ->
    forall scoped q, sub f (sc ++ root) = Some scoped -> q <> [] ->
      (In ((sc ++ root) ++ q) (r_exits r) <->
         active scoped q = true /\ (Nat.ltb 1 (length scoped) = true -> hd 0 q = hd 0 rest)).
  Proof.
    intros RB FD RS SA. destruct (reachable_inv f RB) as (U & RG & PF).
    assert (exists cur, sub f sc = Some cur) as [cur S].
    { unfold resolve in RS. rewrite SA in RS. destruct (sub f (sc ++ root)) eqn:SB; [|discriminate].
      rewrite sub_app in SB. destruct (sub f sc); [eauto|discriminate]. }
    pose proof (nok_of_pfull hm f sc dst dd cur root rest RG PF FD S SA) as NOK.
    exact (exits_below f sc dst dd r U RS root rest SA NOK).
  Qed.
End Cor.
