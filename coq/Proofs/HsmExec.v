(* HsmExec.v — closed form of one hierarchical transition under a non-raising environment. *)
From Coq Require Import List Arith Bool Lia.
From M Require Import Base Flat Hsm HsmSpec.
From P Require Import HsmForest CrashGen.
Import ListNotations.

(* The trace of one hierarchical transition under a non-raising environment, in closed form. *)
Section HExec.
  Variable hm : hmachine.
  Variable ev : env.
  Variable c : ctx.
  Notation ids := (fun s : forest => s).
  Notation HM := (M (V:=forest) (S:=forest)).

  Definition exit_cbs (p : path) : list cbid := match defs_at hm p with Some d => sd_exit d | None => [] end.
  Definition enter_cbs (p : path) : list cbid := match defs_at hm p with Some d => sd_enter d | None => [] end.
  Definition all_registered (ps : list path) : bool :=
    forallb (fun p => match defs_at hm p with Some _ => true | None => false end) ps.

  Lemma gitems_app sl err (st : forest) a b p :
    gitems ev c sl err st (a ++ b) p = gitems ev c sl err st a p ++ gitems ev c sl err st b (p + length a).
  Proof.
    revert p; induction a as [|x r IH]; intros p; cbn [app gitems length]; [now rewrite Nat.add_0_r|].
    rewrite IH. replace (S p + length r) with (p + S (length r)) by lia. reflexivity.
  Qed.

  Lemma run_exits_ok ps : forall p f, no_raise_from_g ev p -> all_registered ps = true ->
    run_exits hm ev c ps p f = (gitems ev c SExit None f (flat_map exit_cbs ps) p, f, inr tt).
  Proof.
    induction ps as [|q r IH]; intros p f NR AR; cbn [run_exits flat_map]; [reflexivity|].
    cbn [all_registered forallb] in AR. apply andb_true_iff in AR as [A1 A2]. unfold exit_cbs at 1.
    destruct (defs_at hm q) as [d|]; [|discriminate]. unfold bind.
    rewrite run_cbs_ok_g by exact NR. rewrite IH; [|intros cb x Hx; apply NR; lia|exact A2].
    rewrite gitems_app, gitems_length. reflexivity.
  Qed.
  Lemma run_enters_ok ps : forall p f, no_raise_from_g ev p -> all_registered ps = true ->
    run_enters hm ev c ps p f = (gitems ev c SEnter None f (flat_map enter_cbs ps) p, f, inr tt).
  Proof.
    induction ps as [|q r IH]; intros p f NR AR; cbn [run_enters flat_map]; [reflexivity|].
    cbn [all_registered forallb] in AR. apply andb_true_iff in AR as [A1 A2]. unfold enter_cbs at 1.
    destruct (defs_at hm q) as [d|]; [|discriminate]. unfold bind.
    rewrite run_cbs_ok_g by exact NR. rewrite IH; [|intros cb x Hx; apply NR; lia|exact A2].
    rewrite gitems_app, gitems_length. reflexivity.
  Qed.
  Lemma run_onfinal_ok l : forall p f, no_raise_from_g ev p ->
    run_onfinal ev c l p f = (gitems ev c SOnFinal None f (concat l) p, f, inr tt).
  Proof.
    induction l as [|x r IH]; intros p f NR; cbn [run_onfinal concat]; [reflexivity|]. unfold bind.
    rewrite run_cbs_ok_g by exact NR. rewrite IH by (intros cb y Hy; apply NR; lia).
    rewrite gitems_app, gitems_length. reflexivity.
  Qed.

  (* the state change of one transition: exit callbacks of exactly the resolved exit set in
     its order (all seeing the old configuration), then the configuration is replaced, then
     the enter callbacks of exactly the resolved enter set in its order and the on_final
     callbacks of the final check (all seeing the new configuration) *)
  Definition spec_change (f : forest) (r : resolution) (p : nat) : list (gitem forest) :=
    let ex := gitems ev c SExit None f (flat_map exit_cbs (r_exits r)) p in
    let en := gitems ev c SEnter None (r_new r) (flat_map enter_cbs (r_enters r)) (p + length ex) in
    let fi := gitems ev c SOnFinal None (r_new r) (concat (final_check_root hm (r_new r) (r_enters r)))
                     (p + length ex + length en) in
    ex ++ en ++ fi.

  Theorem change_state_ok sc dst dd r p f :
    no_raise_from_g ev p ->
    find_def (scope_children hm sc) dst = Some dd -> resolve f sc dst dd = Some r ->
    all_registered (r_exits r) = true -> all_registered (r_enters r) = true ->
    change_state hm ev c sc dst p f = (spec_change f r p, r_new r, inr tt).
  Proof.
    intros NR FD RS A1 A2. unfold change_state. rewrite FD. unfold bind at 1. unfold get. cbn [length app].
    rewrite RS. rewrite Nat.add_0_r. unfold bind at 1. rewrite run_exits_ok by assumption.
    unfold bind at 1. unfold put. cbn [length app]. rewrite Nat.add_0_r. unfold bind.
    rewrite run_enters_ok; [|intros cb x Hx; apply NR; lia|exact A2].
    rewrite run_onfinal_ok by (intros cb x Hx; apply NR; lia).
    unfold spec_change. cbv zeta. cbn [app]. reflexivity.
  Qed.

  (* conditions then unless-checks up to and including the first that fails *)
  Fixpoint gcond_items (st : forest) (conds : list (cbid * bool)) (p : nat) : list (gitem forest) * bool :=
    match conds with
    | [] => ([], true)
    | (cb, tg) :: r =>
        let it := mkGItem (if tg then SCond else SUnless) cb (c_model c) st (ctx_arg c) None
                          (r_ret (ev cb p)) (r_acts (ev cb p)) in
        if Bool.eqb (r_ret (ev cb p)) tg
        then let (l, b) := gcond_items st r (S p) in (it :: l, b)
        else ([it], false)
    end.

  Lemma eval_conds_ok_g conds : forall p s, no_raise_from_g ev p ->
    eval_conds ids ev c conds p s = (fst (gcond_items s conds p), s, inr (snd (gcond_items s conds p))).
  Proof.
    induction conds as [|[cb tg] r IH]; intros p s NR; cbn [eval_conds gcond_items]; [reflexivity|].
    unfold bind, call. rewrite NR by lia. cbn [length].
    assert (E: (if c_send c then @None exn else None) = None) by (destruct (c_send c); reflexivity).
    rewrite E. destruct (Bool.eqb (r_ret (ev cb p)) tg) eqn:EB.
    - rewrite IH by (intros cb' q Hq; apply NR; lia). replace (p + 1) with (S p) by lia.
      destruct (gcond_items s r (S p)) as [l b]. reflexivity.
    - reflexivity.
  Qed.

  (* one candidate transition declared in scope sc, offered in configuration f *)
  Definition spec_execute (f : forest) (sc : path) (t : htrans) (p : nat) : list (gitem forest) * forest * bool :=
    let pr := gitems ev c SPrepare None f (ht_prepare t) p in
    let ci := gcond_items f (ht_conds t) (p + length pr) in
    if snd ci then
      let b1 := gitems ev c SBeforeSC None f (hm_before_sc hm) (p + length pr + length (fst ci)) in
      let b2 := gitems ev c SBefore None f (ht_before t) (p + length pr + length (fst ci) + length b1) in
      let p2 := p + length pr + length (fst ci) + length b1 + length b2 in
      let '(mid, f') :=
        match ht_dst t with
        | None => ([], f)
        | Some dst =>
            match find_def (scope_children hm sc) dst with
            | Some dd => match resolve f sc dst dd with
                         | Some r => (spec_change f r p2, r_new r)
                         | None => ([], f)
                         end
            | None => ([], f)
            end
        end in
      let a1 := gitems ev c SAfter None f' (ht_after t) (p2 + length mid) in
      let a2 := gitems ev c SAfterSC None f' (hm_after_sc hm) (p2 + length mid + length a1) in
      (pr ++ fst ci ++ b1 ++ b2 ++ mid ++ a1 ++ a2, f', true)
    else (pr ++ fst ci, f, false).

  (* the transition can be resolved and every state it exits or enters is registered *)
  Definition resolvable (f : forest) (sc : path) (t : htrans) : bool :=
    match ht_dst t with
    | None => true
    | Some dst =>
        match find_def (scope_children hm sc) dst with
        | Some dd => match resolve f sc dst dd with
                     | Some r => andb (all_registered (r_exits r)) (all_registered (r_enters r))
                     | None => false
                     end
        | None => false
        end
    end.

  Theorem execute_ok sc t p f :
    no_raise_from_g ev p -> resolvable f sc t = true ->
    Hsm.execute hm ev c sc t p f =
      (fst (fst (spec_execute f sc t p)), snd (fst (spec_execute f sc t p)), inr (snd (spec_execute f sc t p))).
  Proof.
    intros NR RV. unfold Hsm.execute, spec_execute. unfold bind at 1.
    rewrite run_cbs_ok_g by exact NR. unfold bind at 1.
    rewrite eval_conds_ok_g by (intros cb q Hq; apply NR; lia).
    destruct (gcond_items f (ht_conds t) (p + length (gitems ev c SPrepare None f (ht_prepare t) p))) as [ci ok] eqn:EC.
    cbn [fst snd]. destruct ok; [|unfold ret; cbn [fst snd]; now rewrite app_nil_r].
    unfold bind at 1. rewrite run_cbs_ok_g by (intros cb q Hq; apply NR; lia).
    unfold bind at 1. rewrite run_cbs_ok_g by (intros cb q Hq; apply NR; lia).
    unfold resolvable in RV.
    destruct (ht_dst t) as [dst|].
    - destruct (find_def (scope_children hm sc) dst) as [dd|] eqn:FD; [|discriminate].
      destruct (resolve f sc dst dd) as [r|] eqn:RS; [|discriminate].
      apply andb_true_iff in RV as [R1 R2]. unfold bind at 1.
      rewrite (change_state_ok sc dst dd r _ f) by (try assumption; intros cb q Hq; apply NR; lia).
      unfold bind at 1. rewrite run_cbs_ok_g by (intros cb q Hq; apply NR; lia).
      unfold bind. rewrite run_cbs_ok_g by (intros cb q Hq; apply NR; lia). unfold ret.
      cbn [fst snd]. rewrite ?app_nil_r, <- ?app_assoc.
      repeat (reflexivity || (f_equal; try (rewrite ?app_length; lia))).
    - unfold bind at 1. unfold ret at 1. cbn [length app]. unfold bind at 1.
      rewrite run_cbs_ok_g by (intros cb q Hq; apply NR; lia).
      unfold bind. rewrite run_cbs_ok_g by (intros cb q Hq; apply NR; lia). unfold ret.
      cbn [fst snd length app]. rewrite ?app_nil_r, ?Nat.add_0_r, <- ?app_assoc.
      repeat (reflexivity || (f_equal; try (rewrite ?app_length; lia))).
  Qed.
End HExec.
