(* FeaturesP.v — proofs about the state-feature model: the enter chain in closed form for
   every order of the mixins, and the simulation between the model and the
   order-independent specification of FeaturesSpec.v. *)
From Coq Require Import List Arith Bool Lia.
From M Require Import Features FeaturesSpec.
Import ListNotations.

(* ----------------------------------------------------------------- basics *)
Lemma upd_same {A} (f : nat -> A) k v : upd f k v k = v.
Proof. unfold upd. now rewrite Nat.eqb_refl. Qed.
Lemma upd_other {A} (f : nat -> A) k v x : x <> k -> upd f k v x = f x.
Proof. unfold upd. intros H. apply Nat.eqb_neq in H. now rewrite H. Qed.

Lemma nat_mem_app t l1 l2 : nat_mem t (l1 ++ l2) = nat_mem t l1 || nat_mem t l2.
Proof. induction l1 as [|a l IH]; simpl; [reflexivity|]. rewrite IH. now rewrite orb_assoc. Qed.

Lemma first_cand_some ts e s t :
  first_cand ts e s = Some t -> In t ts /\ ft_event t = e /\ ft_src t = s.
Proof.
  induction ts as [|a r IH]; simpl; [discriminate|].
  destruct (Nat.eqb (ft_event a) e && Nat.eqb (ft_src a) s) eqn:E.
  - intros H; inversion H; subst. apply andb_true_iff in E. destruct E as [E1 E2].
    apply Nat.eqb_eq in E1. apply Nat.eqb_eq in E2. auto.
  - intros H. destruct (IH H) as [I R]. auto.
Qed.

Lemma first_cand_known c e s t : first_cand (c_trans c) e s = Some t -> event_known c e = true.
Proof.
  intros H. destruct (first_cand_some _ _ _ _ H) as [I [E _]].
  unfold event_known. apply existsb_exists. exists t. split; [exact I|]. now apply Nat.eqb_eq.
Qed.

Lemma first_cand_trigger c e s t : first_cand (c_trans c) e s = Some t -> has_trigger c s = true.
Proof.
  intros H. destruct (first_cand_some _ _ _ _ H) as [I [_ E]].
  unfold has_trigger. apply existsb_exists. exists t. split; [exact I|]. now apply Nat.eqb_eq.
Qed.

Lemma trigger_no_error c s : has_trigger c s = true -> error_test c s = false.
Proof. intros H. unfold error_test. now rewrite H. Qed.

Lemma error_test_spec c d :
  has_error (c_order c) = true -> error_test c d = is_error_state c d.
Proof.
  intros H. unfold error_test, is_error_state, eff_tags. rewrite H. simpl.
  destruct (fs_accepted (sdef c d)); simpl.
  - rewrite nat_mem_app. simpl. now rewrite orb_true_r.
  - reflexivity.
Qed.

Lemma sdef_in_In l d : existsb (fun sd => Nat.eqb (fst sd) d) l = true -> In (d, sdef_in l d) l.
Proof.
  induction l as [|[k x] r IH]; simpl; [discriminate|].
  destruct (Nat.eqb k d) eqn:E.
  - intros _. apply Nat.eqb_eq in E. subst. rewrite Nat.eqb_refl. now left.
  - simpl. intros H. rewrite Nat.eqb_sym in E. rewrite E. right. now apply IH.
Qed.

Lemma registered_no_retries c d :
  registered c d = true -> no_retries c = true -> fs_retries (sdef c d) = 0.
Proof.
  intros R N. unfold no_retries in N. rewrite forallb_forall in N.
  specialize (N _ (sdef_in_In _ _ R)). simpl in N. now apply Nat.eqb_eq in N.
Qed.

Lemma registered_no_error c d :
  registered c d = true -> no_error_states c = true -> error_test c d = false.
Proof.
  intros R N. unfold no_error_states in N. rewrite forallb_forall in N.
  specialize (N _ (sdef_in_In _ _ R)). simpl in N. now apply negb_true_iff in N.
Qed.

Lemma wf_dst_registered c e s t d :
  wf_cfg c = true -> first_cand (c_trans c) e s = Some t -> ft_dst t = Some d -> registered c d = true.
Proof.
  intros W H D. unfold wf_cfg in W. apply andb_true_iff in W. destruct W as [_ W].
  rewrite forallb_forall in W. destruct (first_cand_some _ _ _ _ H) as [I _].
  specialize (W _ I). now rewrite D in W.
Qed.

Lemma wf_nodup c : wf_cfg c = true -> feat_nodup (c_order c) = true.
Proof.
  unfold wf_cfg, decorate_ok. intros W. apply andb_true_iff in W. destruct W as [W _].
  apply andb_true_iff in W. tauto.
Qed.

(* ----------------------------------------------------------------- the enter chain *)
Definition n0_of (src d : fstate_id) (r : mrec) : nat := if Nat.eqb src d then m_counts r d else 0.
Definition exh_of (c : fcfg) (fs : list feature) (src d : fstate_id) (r : mrec) : bool :=
  fmem FRetry fs && Nat.ltb (fs_retries (sdef c d)) (n0_of src d r) && Nat.ltb 0 (fs_retries (sdef c d)).
Definition err_of (c : fcfg) (fs : list feature) (d : fstate_id) : bool :=
  fmem FError fs && error_test c d.

Lemma chain_retry_eq c k m src d r f :
  enter_chain c (FRetry :: k) m src d r f =
    if Nat.ltb (fs_retries (sdef c d)) (n0_of src d r) && Nat.ltb 0 (fs_retries (sdef c d))
    then (fail_items c m d, set_count r d (n0_of src d r), f, false)
    else enter_chain c k m src d (set_count (set_count r d (n0_of src d r)) d (S (n0_of src d r))) f.
Proof. reflexivity. Qed.

Lemma chain_error_eq c k m src d r f :
  enter_chain c (FError :: k) m src d r f =
    if error_test c d then ([], r, f, true) else enter_chain c k m src d r f.
Proof. reflexivity. Qed.

Lemma chain_vol_eq c k m src d r f :
  enter_chain c (FVolatile :: k) m src d r f =
    enter_chain c k m src d (set_hook r (fs_hook (sdef c d)) (Some f)) (S f).
Proof. reflexivity. Qed.

Lemma chain_tags_eq c k m src d r f :
  enter_chain c (FTags :: k) m src d r f = enter_chain c k m src d r f.
Proof. reflexivity. Qed.

Ltac chain_cases g H :=
  destruct g;
  [ rewrite chain_tags_eq in H
  | rewrite chain_error_eq in H
  | rewrite chain_vol_eq in H
  | rewrite chain_retry_eq in H ].

Lemma chain_state c fs : forall m src d r f it r' f' x,
  enter_chain c fs m src d r f = (it, r', f', x) -> m_state r' = m_state r.
Proof.
  induction fs as [|g k IH]; intros m src d r f it r' f' x H.
  - simpl in H. inversion H; subst; reflexivity.
  - chain_cases g H.
    + eauto.
    + destruct (error_test c d); [inversion H; subst; reflexivity | eauto].
    + apply IH in H. exact H.
    + destruct (_ && _); [inversion H; subst; reflexivity | apply IH in H; exact H].
Qed.

Lemma chain_counts_other c fs : forall m src d r f it r' f' x s,
  enter_chain c fs m src d r f = (it, r', f', x) -> s <> d -> m_counts r' s = m_counts r s.
Proof.
  induction fs as [|g k IH]; intros m src d r f it r' f' x s H N.
  - simpl in H. inversion H; subst; reflexivity.
  - chain_cases g H.
    + eauto.
    + destruct (error_test c d); [inversion H; subst; reflexivity | eauto].
    + rewrite (IH _ _ _ _ _ _ _ _ _ _ H N). reflexivity.
    + destruct (_ && _).
      * inversion H; subst. simpl. now rewrite upd_other.
      * rewrite (IH _ _ _ _ _ _ _ _ _ _ H N). simpl. now rewrite !upd_other.
Qed.

Lemma chain_counts_noretry c fs : forall m src d r f it r' f' x,
  fmem FRetry fs = false ->
  enter_chain c fs m src d r f = (it, r', f', x) -> m_counts r' = m_counts r.
Proof.
  induction fs as [|g k IH]; intros m src d r f it r' f' x F H.
  - simpl in H. inversion H; subst; reflexivity.
  - chain_cases g H; simpl in F.
    + eauto.
    + destruct (error_test c d); [inversion H; subst; reflexivity | eauto].
    + rewrite (IH _ _ _ _ _ _ _ _ _ F H). reflexivity.
    + discriminate.
Qed.

Lemma chain_hooks_novol c fs : forall m src d r f it r' f' x,
  fmem FVolatile fs = false ->
  enter_chain c fs m src d r f = (it, r', f', x) -> m_hooks r' = m_hooks r /\ f' = f.
Proof.
  induction fs as [|g k IH]; intros m src d r f it r' f' x F H.
  - simpl in H. inversion H; subst; auto.
  - chain_cases g H; simpl in F.
    + eauto.
    + destruct (error_test c d); [inversion H; subst; auto | eauto].
    + discriminate.
    + destruct (_ && _); [inversion H; subst; auto|].
      destruct (IH _ _ _ _ _ _ _ _ _ F H) as [A B]. rewrite A. auto.
Qed.

(* items, the raise and the retry counter, for every order *)
Lemma chain_main c fs : forall m src d r f it r' f' x,
  feat_nodup fs = true -> (src = d -> error_test c d = false) ->
  enter_chain c fs m src d r f = (it, r', f', x) ->
  x = err_of c fs d /\
  it = (if err_of c fs d then []
        else if exh_of c fs src d r then fail_items c m d else enter_items c m d) /\
  (err_of c fs d = false -> fmem FRetry fs = true ->
   m_counts r' d = if exh_of c fs src d r then n0_of src d r else S (n0_of src d r)).
Proof.
  induction fs as [|g k IH]; intros m src d r f it r' f' x ND HE H.
  - simpl in H. inversion H; subst. unfold err_of, exh_of. simpl. repeat split; try discriminate.
  - simpl in ND. apply andb_true_iff in ND. destruct ND as [NI ND]. apply negb_true_iff in NI.
    chain_cases g H.
    + (* Tags *)
      destruct (IH _ _ _ _ _ _ _ _ _ ND HE H) as [A [B C]].
      unfold err_of, exh_of in *. simpl. auto.
    + (* Error *)
      unfold err_of, exh_of. simpl.
      destruct (error_test c d) eqn:ET.
      * inversion H; subst. repeat split; try discriminate.
      * assert (HE' : src = d -> error_test c d = false) by (intros _; exact ET).
        destruct (IH _ _ _ _ _ _ _ _ _ ND HE' H) as [A [B C]].
        unfold err_of, exh_of in A, B, C. rewrite ET in A, B, C.
        rewrite andb_false_r in A, B, C. auto.
    + (* Volatile *)
      destruct (IH _ _ _ _ _ _ _ _ _ ND HE H) as [A [B C]].
      unfold err_of, exh_of, n0_of in *. simpl in *. auto.
    + (* Retry *)
      unfold err_of, exh_of. simpl. simpl in NI.
      destruct (Nat.ltb (fs_retries (sdef c d)) (n0_of src d r) && Nat.ltb 0 (fs_retries (sdef c d))) eqn:EX.
      * inversion H; subst.
        assert (ET : error_test c d = false).
        { apply HE. apply andb_true_iff in EX. destruct EX as [EX _]. apply Nat.ltb_lt in EX.
          unfold n0_of in EX. destruct (Nat.eqb src d) eqn:SD; [now apply Nat.eqb_eq in SD | lia]. }
        rewrite ET, andb_false_r. repeat split. intros _ _. simpl. now rewrite upd_same.
      * destruct (IH _ _ _ _ _ _ _ _ _ ND HE H) as [A [B C]].
        unfold err_of, exh_of in A, B. rewrite NI in B. simpl in B.
        repeat split; [exact A | exact B |].
        intros _ _. rewrite (chain_counts_noretry _ _ _ _ _ _ _ _ _ _ _ NI H). simpl.
        now rewrite upd_same.
Qed.

(* the volatile object, when nothing ahead of Volatile can cut the chain *)
Lemma chain_hooks_guard c fs : forall m src d r f it r' f' x,
  feat_nodup fs = true -> chain_cut_free c fs = true ->
  (no_retries c = true -> fs_retries (sdef c d) = 0) ->
  (no_error_states c = true -> error_test c d = false) ->
  enter_chain c fs m src d r f = (it, r', f', x) ->
  m_hooks r' = (if fmem FVolatile fs then upd (m_hooks r) (fs_hook (sdef c d)) (Some f) else m_hooks r) /\
  f' = (if fmem FVolatile fs then S f else f).
Proof.
  induction fs as [|g k IH]; intros m src d r f it r' f' x ND G HR HE H.
  - simpl in H. inversion H; subst. simpl. auto.
  - simpl in ND. apply andb_true_iff in ND. destruct ND as [NI ND]. apply negb_true_iff in NI.
    chain_cases g H; simpl in G.
    + simpl. eauto.
    + apply andb_true_iff in G. destruct G as [G1 G2]. rewrite (HE G1) in H. simpl. eauto.
    + simpl. simpl in NI. destruct (chain_hooks_novol _ _ _ _ _ _ _ _ _ _ _ NI H) as [A B].
      rewrite A, B. simpl. auto.
    + apply andb_true_iff in G. destruct G as [G1 G2]. rewrite (HR G1) in H.
      rewrite andb_false_r in H. simpl.
      destruct (IH _ _ _ _ _ _ _ _ _ ND G2 HR HE H) as [A B]. simpl in A. auto.
Qed.

(* ----------------------------------------------------------------- one call *)
Lemma fstep_none c w m e :
  first_cand (c_trans c) e (m_state (w_m w m)) = None ->
  fstep c w m e = ([], w, if c_ignore c then RFalse
                          else RExn (if event_known c e then EMachine else EAttribute)).
Proof.
  intros H. unfold fstep. destruct (event_known c e); simpl.
  - rewrite H. reflexivity.
  - destruct (c_ignore c); reflexivity.
Qed.

Lemma fstep_internal c w m e t :
  first_cand (c_trans c) e (m_state (w_m w m)) = Some t -> ft_dst t = None ->
  fstep c w m e = ([], w, RTrue).
Proof.
  intros H D. unfold fstep. rewrite (first_cand_known _ _ _ _ H). simpl. rewrite H, D. reflexivity.
Qed.

Definition pre_enter (c : fcfg) (r : mrec) (d : fstate_id) : mrec :=
  set_state (if has_volatile (c_order c) then set_hook r (fs_hook (sdef c (m_state r))) None else r) d.

Lemma fstep_change c w m e t d it r' f' x :
  first_cand (c_trans c) e (m_state (w_m w m)) = Some t -> ft_dst t = Some d ->
  enter_chain c (c_order c) m (m_state (w_m w m)) d (pre_enter c (w_m w m) d) (w_fresh w) = (it, r', f', x) ->
  fstep c w m e = (exit_items c m (m_state (w_m w m)) ++ it, mkW (upd (w_m w) m r') f',
                   if x then RExn EMachine else RTrue).
Proof.
  intros H D E. unfold fstep. rewrite (first_cand_known _ _ _ _ H). simpl. rewrite H, D.
  unfold exit_chain. unfold pre_enter in E. rewrite E. reflexivity.
Qed.

Lemma pre_enter_counts c r d : m_counts (pre_enter c r d) = m_counts r.
Proof. unfold pre_enter. destruct (has_volatile (c_order c)); reflexivity. Qed.
Lemma pre_enter_state c r d : m_state (pre_enter c r d) = d.
Proof. reflexivity. Qed.

(* other models are not touched *)
Lemma fstep_other c w m e m' : m' <> m -> w_m (obs_world (fstep c w m e)) m' = w_m w m'.
Proof.
  intros N. unfold obs_world.
  destruct (first_cand (c_trans c) e (m_state (w_m w m))) as [t|] eqn:H.
  - destruct (ft_dst t) as [d|] eqn:D.
    + destruct (enter_chain c (c_order c) m (m_state (w_m w m)) d (pre_enter c (w_m w m) d) (w_fresh w))
        as [[[it r'] f'] x] eqn:E.
      rewrite (fstep_change _ _ _ _ _ _ _ _ _ _ H D E). simpl. now rewrite upd_other.
    + rewrite (fstep_internal _ _ _ _ _ H D). reflexivity.
  - rewrite (fstep_none _ _ _ _ H). reflexivity.
Qed.

(* ----------------------------------------------------------------- model = specification *)
Local Arguments upd : simpl never.

Lemma err_of_spec c d : err_of c (c_order c) d = has_error (c_order c) && is_error_state c d.
Proof.
  unfold err_of. destruct (has_error (c_order c)) eqn:F; unfold has_error in F; rewrite F; simpl.
  - apply error_test_spec. exact F.
  - reflexivity.
Qed.

Definition simA (c : fcfg) (w : world) (sw : sworld) : Prop :=
  forall m, m_state (w_m w m) = sp_state (sw_m sw m) /\
            (has_retry (c_order c) = true -> has_trigger c (m_state (w_m w m)) = true ->
             m_counts (w_m w m) (m_state (w_m w m)) = sp_streak (sw_m sw m)).

Lemma exh_of_spec c w sw m d :
  simA c w sw -> has_trigger c (m_state (w_m w m)) = true ->
  exh_of c (c_order c) (m_state (w_m w m)) d (pre_enter c (w_m w m) d) =
  has_retry (c_order c) && Nat.ltb 0 (fs_retries (sdef c d)) &&
  Nat.ltb (fs_retries (sdef c d)) (if Nat.eqb (m_state (w_m w m)) d then sp_streak (sw_m sw m) else 0).
Proof.
  intros SIM HT. destruct (SIM m) as [Sm Cm]. unfold exh_of, n0_of. rewrite pre_enter_counts.
  unfold has_retry in *. destruct (fmem FRetry (c_order c)) eqn:HR; simpl; [|reflexivity].
  destruct (Nat.eqb (m_state (w_m w m)) d) eqn:SD.
  - apply Nat.eqb_eq in SD. rewrite <- SD. rewrite (Cm eq_refl HT). apply andb_comm.
  - apply andb_comm.
Qed.

Lemma n0_of_spec c w sw m d :
  simA c w sw -> has_trigger c (m_state (w_m w m)) = true -> has_retry (c_order c) = true ->
  n0_of (m_state (w_m w m)) d (pre_enter c (w_m w m) d) =
  (if Nat.eqb (m_state (w_m w m)) d then sp_streak (sw_m sw m) else 0).
Proof.
  intros SIM HT HR. destruct (SIM m) as [Sm Cm]. unfold n0_of. rewrite pre_enter_counts.
  destruct (Nat.eqb (m_state (w_m w m)) d) eqn:SD; [|reflexivity].
  apply Nat.eqb_eq in SD. rewrite <- SD. apply Cm; assumption.
Qed.

Lemma stepA c w sw m e :
  feat_nodup (c_order c) = true -> simA c w sw ->
  obs_trace (fstep c w m e) = sobs_trace (spec_step c sw m e) /\
  obs_res (fstep c w m e) = sobs_res (spec_step c sw m e) /\
  simA c (obs_world (fstep c w m e)) (sobs_world (spec_step c sw m e)).
Proof.
  intros ND SIM. destruct (SIM m) as [Sm Cm].
  unfold spec_step. rewrite <- Sm.
  destruct (first_cand (c_trans c) e (m_state (w_m w m))) as [t|] eqn:H.
  - destruct (ft_dst t) as [d|] eqn:D.
    + destruct (enter_chain c (c_order c) m (m_state (w_m w m)) d (pre_enter c (w_m w m) d) (w_fresh w))
        as [[[it r'] f'] x] eqn:E.
      rewrite (fstep_change _ _ _ _ _ _ _ _ _ _ H D E).
      pose proof (first_cand_trigger _ _ _ _ H) as HT.
      assert (HE : m_state (w_m w m) = d -> error_test c d = false).
      { intros <-. now apply trigger_no_error. }
      destruct (chain_main _ _ _ _ _ _ _ _ _ _ _ ND HE E) as [A [B C]].
      pose proof (chain_state _ _ _ _ _ _ _ _ _ _ _ E) as ST. rewrite pre_enter_state in ST.
      rewrite (exh_of_spec _ _ _ _ _ SIM HT) in B, C.
      rewrite err_of_spec in A, B, C.
      unfold obs_trace, obs_res, obs_world, sobs_trace, sobs_res, sobs_world. simpl.
      split; [now rewrite B|]. split; [now rewrite A|].
      intros m0. split.
      * destruct (Nat.eq_dec m0 m) as [->|NE].
        -- simpl. rewrite !upd_same. simpl. exact ST.
        -- simpl. rewrite !upd_other by exact NE. apply SIM.
      * destruct (Nat.eq_dec m0 m) as [->|NE].
        -- simpl. rewrite !upd_same. simpl. rewrite ST. intros HR HTd.
           assert (EF : has_error (c_order c) && is_error_state c d = false).
           { destruct (has_error (c_order c)) eqn:HErr; [|reflexivity]. simpl.
             rewrite <- (error_test_spec _ _ HErr). now apply trigger_no_error. }
           rewrite (C EF HR). rewrite (n0_of_spec _ _ _ _ _ SIM HT HR). reflexivity.
        -- simpl. rewrite !upd_other by exact NE. apply SIM.
    + rewrite (fstep_internal _ _ _ _ _ H D).
      unfold obs_trace, obs_res, obs_world, sobs_trace, sobs_res, sobs_world. simpl. auto.
  - rewrite (fstep_none _ _ _ _ H).
    unfold obs_trace, obs_res, obs_world, sobs_trace, sobs_res, sobs_world. simpl. auto.
Qed.

Lemma simA_init c s0 : simA c (init_world s0) (spec_init s0).
Proof. intros m. simpl. auto. Qed.

Lemma runA c : feat_nodup (c_order c) = true ->
  forall h w sw, simA c w sw ->
  forall m', map (obs_core m') (frun c w h) = map (sobs_core m') (spec_run c sw h).
Proof.
  intros ND h. induction h as [|[m e] rest IH]; intros w sw SIM m'; simpl; [reflexivity|].
  destruct (stepA c w sw m e ND SIM) as [A [B C]].
  f_equal.
  - unfold obs_core, sobs_core. rewrite A, B. f_equal. apply C.
  - apply IH. exact C.
Qed.

(* ----------------------------------------------------------------- volatile objects *)
Definition simB (c : fcfg) (w : world) (sw : sworld) : Prop :=
  w_fresh w = sw_n sw /\
  forall m, m_state (w_m w m) = sp_state (sw_m sw m) /\
            (has_volatile (c_order c) = false -> sp_obj (sw_m sw m) = None) /\
            forall h, m_hooks (w_m w m) h = spec_hooks c (sw_m sw m) h.

Lemma simB_init c s0 : simB c (init_world s0) (spec_init s0).
Proof. split; [reflexivity|]. intros m. simpl. auto. Qed.

Lemma fmem_vol_has c : fmem FVolatile (c_order c) = has_volatile (c_order c).
Proof. reflexivity. Qed.

Lemma stepB c w sw m e :
  wf_cfg c = true -> vol_guard c = true -> simB c w sw ->
  simB c (obs_world (fstep c w m e)) (sobs_world (spec_step c sw m e)).
Proof.
  intros WF G [FR SIM]. destruct (SIM m) as [Sm [Om Hm]].
  pose proof (wf_nodup _ WF) as ND.
  unfold spec_step. rewrite <- Sm.
  destruct (first_cand (c_trans c) e (m_state (w_m w m))) as [t|] eqn:H.
  - destruct (ft_dst t) as [d|] eqn:D.
    + destruct (enter_chain c (c_order c) m (m_state (w_m w m)) d (pre_enter c (w_m w m) d) (w_fresh w))
        as [[[it r'] f'] x] eqn:E.
      rewrite (fstep_change _ _ _ _ _ _ _ _ _ _ H D E).
      pose proof (wf_dst_registered _ _ _ _ _ WF H D) as RD.
      destruct (chain_hooks_guard _ _ _ _ _ _ _ _ _ _ _ ND G
                  (registered_no_retries _ _ RD) (registered_no_error _ _ RD) E) as [A B].
      pose proof (chain_state _ _ _ _ _ _ _ _ _ _ _ E) as ST. rewrite pre_enter_state in ST.
      unfold obs_world, sobs_world. simpl. rewrite fmem_vol_has in A, B.
      split.
      * rewrite B, FR. reflexivity.
      * intros m0. destruct (Nat.eq_dec m0 m) as [->|NE].
        -- simpl. rewrite !upd_same. simpl. split; [exact ST|]. split.
           ++ intros HV. now rewrite HV.
           ++ intros hk. rewrite A. unfold spec_hooks. simpl. unfold pre_enter.
              destruct (has_volatile (c_order c)) eqn:HV; simpl.
              ** unfold upd. rewrite FR. destruct (Nat.eqb hk (fs_hook (sdef c d))); [reflexivity|].
                 rewrite Hm. unfold spec_hooks. rewrite <- Sm.
                 destruct (Nat.eqb hk (fs_hook (sdef c (m_state (w_m w m))))); [reflexivity|].
                 destruct (sp_obj (sw_m sw m)); reflexivity.
              ** rewrite Hm. unfold spec_hooks. now rewrite (Om eq_refl).
        -- simpl. rewrite !upd_other by exact NE. apply SIM.
    + rewrite (fstep_internal _ _ _ _ _ H D). unfold obs_world, sobs_world. simpl. split; assumption.
  - rewrite (fstep_none _ _ _ _ H). unfold obs_world, sobs_world. simpl. split; assumption.
Qed.

Definition hooks_agree (c : fcfg) (o : list fitem * world * fres) (so : list fitem * sworld * fres) : Prop :=
  forall m hk, m_hooks (w_m (obs_world o) m) hk = spec_hooks c (sw_m (sobs_world so) m) hk.

Lemma runB c : wf_cfg c = true -> vol_guard c = true ->
  forall h w sw, simB c w sw -> Forall2 (hooks_agree c) (frun c w h) (spec_run c sw h).
Proof.
  intros WF G h. induction h as [|[m e] rest IH]; intros w sw SIM; simpl; [constructor|].
  pose proof (stepB c w sw m e WF G SIM) as SB.
  constructor.
  - intros m0 hk. apply SB.
  - apply IH. exact SB.
Qed.

(* ----------------------------------------------------------------- frame *)
Definition obs_state (m : fmodel) (o : list fitem * world * fres) : fstate_id := m_state (w_m (obs_world o) m).
Definition sobs_state (m : fmodel) (o : list fitem * sworld * fres) : fstate_id := sp_state (sw_m (sobs_world o) m).

Definition simS (sw sw' : sworld) : Prop := forall m, sp_state (sw_m sw m) = sp_state (sw_m sw' m).

Lemma feature_free_facts c d :
  feature_free c = true -> registered c d = true ->
  fs_retries (sdef c d) = 0 /\ has_error (c_order c) && is_error_state c d = false.
Proof.
  intros FF R. unfold feature_free in FF. apply andb_true_iff in FF. destruct FF as [NR NE].
  split; [now apply registered_no_retries|].
  destruct (has_error (c_order c)) eqn:HE; [|reflexivity]. simpl in *.
  rewrite <- (error_test_spec _ _ HE). now apply registered_no_error.
Qed.

Lemma spec_step_frame c sw sw' m e :
  simS sw sw' ->
  simS (sobs_world (spec_step c sw m e)) (sobs_world (spec_step (plain_cfg c) sw' m e)) /\
  (wf_cfg c = true -> feature_free c = true ->
   sobs_trace (spec_step c sw m e) = sobs_trace (spec_step (plain_cfg c) sw' m e) /\
   sobs_res (spec_step c sw m e) = sobs_res (spec_step (plain_cfg c) sw' m e)).
Proof.
  intros SIM. unfold spec_step. rewrite <- (SIM m).
  change (c_trans (plain_cfg c)) with (c_trans c).
  change (c_ignore (plain_cfg c)) with (c_ignore c).
  change (event_known (plain_cfg c) e) with (event_known c e).
  destruct (first_cand (c_trans c) e (sp_state (sw_m sw m))) as [t|] eqn:H.
  - destruct (ft_dst t) as [d|] eqn:D.
    + unfold sobs_world, sobs_trace, sobs_res. simpl. split.
      * intros m0. simpl. destruct (Nat.eq_dec m0 m) as [->|NE].
        -- now rewrite !upd_same.
        -- rewrite !upd_other by exact NE. apply SIM.
      * intros WF FF.
        destruct (feature_free_facts c d FF (wf_dst_registered _ _ _ _ _ WF H D)) as [R0 E0].
        rewrite E0, R0. simpl. rewrite andb_false_r. simpl. auto.
    + unfold sobs_world, sobs_trace, sobs_res. simpl. auto.
  - unfold sobs_world, sobs_trace, sobs_res. simpl. auto.
Qed.

Lemma spec_run_frame_state c : forall h sw sw', simS sw sw' ->
  forall m', map (sobs_state m') (spec_run c sw h) = map (sobs_state m') (spec_run (plain_cfg c) sw' h).
Proof.
  induction h as [|[m e] rest IH]; intros sw sw' SIM m'; simpl; [reflexivity|].
  destruct (spec_step_frame c sw sw' m e SIM) as [A _].
  f_equal; [apply A | now apply IH].
Qed.

Lemma spec_run_frame c : wf_cfg c = true -> feature_free c = true ->
  forall h sw sw', simS sw sw' ->
  forall m', map (sobs_core m') (spec_run c sw h) = map (sobs_core m') (spec_run (plain_cfg c) sw' h).
Proof.
  intros WF FF. induction h as [|[m e] rest IH]; intros sw sw' SIM m'; simpl; [reflexivity|].
  destruct (spec_step_frame c sw sw' m e SIM) as [A B]. destruct (B WF FF) as [B1 B2].
  f_equal; [| now apply IH].
  unfold sobs_core. rewrite B1, B2. f_equal. apply A.
Qed.

Lemma core_state_model m l : map (obs_state m) l = map (fun o => snd (obs_core m o)) l.
Proof. reflexivity. Qed.
Lemma core_state_spec m l : map (sobs_state m) l = map (fun o => snd (sobs_core m o)) l.
Proof. reflexivity. Qed.

Lemma run_states c : feat_nodup (c_order c) = true ->
  forall h s0 m, map (obs_state m) (frun c (init_world s0) h) = map (sobs_state m) (spec_run c (spec_init s0) h).
Proof.
  intros ND h s0 m. rewrite core_state_model, core_state_spec.
  rewrite <- (map_map (obs_core m) snd), <- (map_map (sobs_core m) snd).
  f_equal. apply runA; [exact ND | apply simA_init].
Qed.

Lemma frame_state c h s0 m :
  feat_nodup (c_order c) = true ->
  map (obs_state m) (frun c (init_world s0) h) = map (obs_state m) (frun (plain_cfg c) (init_world s0) h).
Proof.
  intros ND. rewrite (run_states c ND), (run_states (plain_cfg c) eq_refl).
  apply spec_run_frame_state. intros m0. reflexivity.
Qed.

Lemma frame_core c h s0 m :
  wf_cfg c = true -> feature_free c = true ->
  map (obs_core m) (frun c (init_world s0) h) = map (obs_core m) (frun (plain_cfg c) (init_world s0) h).
Proof.
  intros WF FF.
  rewrite (runA c (wf_nodup _ WF) h _ _ (simA_init c s0)).
  rewrite (runA (plain_cfg c) eq_refl h _ _ (simA_init (plain_cfg c) s0)).
  apply spec_run_frame; [exact WF | exact FF | intros m0; reflexivity].
Qed.

(* ----------------------------------------------------------------- one state-changing call *)
Lemma fstep_change_main c w m e t d :
  feat_nodup (c_order c) = true ->
  first_cand (c_trans c) e (m_state (w_m w m)) = Some t -> ft_dst t = Some d ->
  let s := m_state (w_m w m) in
  let r0 := pre_enter c (w_m w m) d in
  let o := fstep c w m e in
  obs_trace o = exit_items c m s ++
                (if err_of c (c_order c) d then []
                 else if exh_of c (c_order c) s d r0 then fail_items c m d else enter_items c m d) /\
  obs_res o = (if err_of c (c_order c) d then RExn EMachine else RTrue) /\
  obs_state m o = d /\
  (err_of c (c_order c) d = false -> has_retry (c_order c) = true ->
   m_counts (w_m (obs_world o) m) d =
     if exh_of c (c_order c) s d r0 then n0_of s d r0 else S (n0_of s d r0)) /\
  (forall s', s' <> d -> m_counts (w_m (obs_world o) m) s' = m_counts (w_m w m) s').
Proof.
  intros ND H D s r0 o. subst s r0 o.
  destruct (enter_chain c (c_order c) m (m_state (w_m w m)) d (pre_enter c (w_m w m) d) (w_fresh w))
    as [[[it r'] f'] x] eqn:E.
  rewrite (fstep_change _ _ _ _ _ _ _ _ _ _ H D E).
  pose proof (first_cand_trigger _ _ _ _ H) as HT.
  assert (HE : m_state (w_m w m) = d -> error_test c d = false).
  { intros <-. now apply trigger_no_error. }
  destruct (chain_main _ _ _ _ _ _ _ _ _ _ _ ND HE E) as [A [B C]].
  pose proof (chain_state _ _ _ _ _ _ _ _ _ _ _ E) as ST. rewrite pre_enter_state in ST.
  unfold obs_trace, obs_res, obs_state, obs_world. simpl. rewrite upd_same.
  repeat split.
  - now rewrite B.
  - now rewrite A.
  - exact ST.
  - exact C.
  - intros s' NE. rewrite (chain_counts_other _ _ _ _ _ _ _ _ _ _ _ _ E NE). now rewrite pre_enter_counts.
Qed.

Lemma error_iff c w m e t d :
  feat_nodup (c_order c) = true ->
  first_cand (c_trans c) e (m_state (w_m w m)) = Some t -> ft_dst t = Some d ->
  (obs_res (fstep c w m e) = RExn EMachine <->
   has_error (c_order c) && is_error_state c d = true) /\
  (obs_res (fstep c w m e) = RExn EMachine -> obs_trace (fstep c w m e) = exit_items c m (m_state (w_m w m))) /\
  obs_state m (fstep c w m e) = d.
Proof.
  intros ND H D. destruct (fstep_change_main c w m e t d ND H D) as [A [B [C _]]].
  rewrite <- err_of_spec. rewrite A, B. destruct (err_of c (c_order c) d).
  - repeat split; auto. intros _. now rewrite app_nil_r.
  - repeat split; try discriminate; auto.
Qed.

(* ----------------------------------------------------------------- Retry, counted *)
Lemma frun_world_app c : forall l1 l2 w, frun_world c w (l1 ++ l2) = frun_world c (frun_world c w l1) l2.
Proof. induction l1 as [|[m e] r IH]; intros l2 w; simpl; [reflexivity | apply IH]. Qed.

Lemma repeat_snoc {A} (x : A) n : repeat x (S n) = repeat x n ++ [x].
Proof. induction n as [|n IH]; simpl; [reflexivity|]. f_equal. exact IH. Qed.

Definition cnt (R j : nat) : nat := if Nat.ltb 0 R then S (Nat.min j R) else S j.

Section RetryExact.
  Variables (c : fcfg) (w : world) (m : fmodel) (e0 e : fevent) (d : fstate_id) (t0 t : ftrans).
  Hypothesis ND : feat_nodup (c_order c) = true.
  Hypothesis HR : has_retry (c_order c) = true.
  Hypothesis NE : m_state (w_m w m) <> d.
  Hypothesis H0 : first_cand (c_trans c) e0 (m_state (w_m w m)) = Some t0.
  Hypothesis D0 : ft_dst t0 = Some d.
  Hypothesis H1 : first_cand (c_trans c) e d = Some t.
  Hypothesis D1 : ft_dst t = Some d.

  Let R := fs_retries (sdef c d).
  Definition after (j : nat) : world := frun_world c w ((m, e0) :: repeat (m, e) j).

  Lemma err_d : err_of c (c_order c) d = false.
  Proof. unfold err_of. rewrite (trigger_no_error _ _ (first_cand_trigger _ _ _ _ H1)). apply andb_false_r. Qed.

  Lemma after_inv j : m_state (w_m (after j) m) = d /\ m_counts (w_m (after j) m) d = cnt R j.
  Proof.
    induction j as [|j [IS IC]].
    - unfold after. simpl.
      destruct (fstep_change_main c w m e0 t0 d ND H0 D0) as [_ [_ [C [E _]]]].
      split; [exact C|]. unfold obs_world in E. rewrite (E err_d HR).
      unfold exh_of, n0_of. apply Nat.eqb_neq in NE. rewrite NE.
      replace (Nat.ltb (fs_retries (sdef c d)) 0) with false by (symmetry; apply Nat.ltb_ge; lia).
      rewrite andb_false_r. simpl. unfold cnt. destruct (Nat.ltb 0 R); reflexivity.
    - unfold after in *. rewrite repeat_snoc, app_comm_cons, frun_world_app.
      set (wj := frun_world c w ((m, e0) :: repeat (m, e) j)) in *.
      change (frun_world c wj [(m, e)]) with (obs_world (fstep c wj m e)).
      assert (H1' : first_cand (c_trans c) e (m_state (w_m wj m)) = Some t) by (rewrite IS; exact H1).
      destruct (fstep_change_main c wj m e t d ND H1' D1) as [_ [_ [C [E _]]]].
      split; [exact C|]. rewrite (E err_d HR).
      unfold exh_of, n0_of. rewrite pre_enter_counts, IS, Nat.eqb_refl, IC.
      unfold has_retry in HR. rewrite HR. simpl. fold R. unfold cnt.
      destruct (Nat.ltb 0 R) eqn:R0.
      + apply Nat.ltb_lt in R0. rewrite andb_true_r.
        destruct (Nat.ltb R (S (Nat.min j R))) eqn:LT.
        * apply Nat.ltb_lt in LT. f_equal. lia.
        * apply Nat.ltb_ge in LT. f_equal. lia.
      + rewrite andb_false_r. reflexivity.
  Qed.

  (* the call after j admitted-or-not re-entries: admitted iff retries = 0 or j < retries *)
  Lemma retry_exact j :
    obs_trace (fstep c (after j) m e) =
      exit_items c m d ++
      (if Nat.ltb 0 R && Nat.leb R j then fail_items c m d else enter_items c m d).
  Proof.
    destruct (after_inv j) as [IS IC].
    assert (H1' : first_cand (c_trans c) e (m_state (w_m (after j) m)) = Some t) by (rewrite IS; exact H1).
    destruct (fstep_change_main c (after j) m e t d ND H1' D1) as [A _].
    rewrite A, err_d. rewrite IS. f_equal.
    unfold exh_of, n0_of. rewrite pre_enter_counts, Nat.eqb_refl, IC.
    unfold has_retry in HR. rewrite HR. simpl. fold R. unfold cnt.
    destruct (Nat.ltb 0 R) eqn:R0; simpl.
    - rewrite andb_true_r. apply Nat.ltb_lt in R0.
      destruct (Nat.leb R j) eqn:LE.
      + apply Nat.leb_le in LE. replace (Nat.ltb R (S (Nat.min j R))) with true; [reflexivity|].
        symmetry. apply Nat.ltb_lt. lia.
      + apply Nat.leb_gt in LE. replace (Nat.ltb R (S (Nat.min j R))) with false; [reflexivity|].
        symmetry. apply Nat.ltb_ge. lia.
    - rewrite andb_false_r. reflexivity.
  Qed.
End RetryExact.

(* ----------------------------------------------------------------- tags *)
Lemma tags_spec c s t :
  tag_answer c s t =
    if has_tags (c_order c)
    then Some (nat_mem t (fs_tags (sdef c s)) ||
               (Nat.eqb t 0 && has_error (c_order c) && fs_accepted (sdef c s)))
    else None.
Proof.
  unfold tag_answer, eff_tags. destruct (has_tags (c_order c)); [|reflexivity]. f_equal.
  destruct (has_error (c_order c) && fs_accepted (sdef c s)) eqn:E.
  - rewrite nat_mem_app. simpl. apply andb_true_iff in E. destruct E as [E1 E2]. rewrite E1, E2.
    now rewrite orb_false_r, !andb_true_r.
  - rewrite <- andb_assoc, E, andb_false_r, orb_false_r. reflexivity.
Qed.

(* the same, for the worlds reached after a whole history *)
Lemma runB_world c : wf_cfg c = true -> vol_guard c = true ->
  forall h w sw, simB c w sw -> simB c (frun_world c w h) (spec_run_world c sw h).
Proof.
  intros WF G h. induction h as [|[m e] rest IH]; intros w sw SIM; simpl; [exact SIM|].
  apply IH. exact (stepB c w sw m e WF G SIM).
Qed.

Lemma volatile_final c h s0 m hk :
  wf_cfg c = true -> vol_guard c = true ->
  m_hooks (w_m (frun_world c (init_world s0) h) m) hk =
  spec_hooks c (sw_m (spec_run_world c (spec_init s0) h) m) hk.
Proof.
  intros WF G. destruct (runB_world c WF G h _ _ (simB_init c s0)) as [_ S]. apply S.
Qed.

Lemma contracts_run c h s0 m :
  feat_nodup (c_order c) = true ->
  map (obs_core m) (frun c (init_world s0) h) = map (sobs_core m) (spec_run c (spec_init s0) h).
Proof. intros ND. apply runA; [exact ND | apply simA_init]. Qed.

(* ----------------------------------------------------------------- models with occupied hook names *)
Lemma simA_init_p c s0 pre k : simA c (init_world_p s0 pre k) (spec_init_p s0 pre k).
Proof. intros m. simpl. auto. Qed.

Lemma simB_init_p c s0 pre k : simB c (init_world_p s0 pre k) (spec_init_p s0 pre k).
Proof. split; [reflexivity|]. intros m. simpl. auto. Qed.

Lemma volatile_final_p c h s0 pre k m hk :
  wf_cfg c = true -> vol_guard c = true ->
  m_hooks (w_m (frun_world c (init_world_p s0 pre k) h) m) hk =
  spec_hooks c (sw_m (spec_run_world c (spec_init_p s0 pre k) h) m) hk.
Proof.
  intros WF G. destruct (runB_world c WF G h _ _ (simB_init_p c s0 pre k)) as [_ S]. apply S.
Qed.

Lemma contracts_run_p c h s0 pre k m :
  feat_nodup (c_order c) = true ->
  map (obs_core m) (frun c (init_world_p s0 pre k) h) = map (sobs_core m) (spec_run c (spec_init_p s0 pre k) h).
Proof. intros ND. apply runA; [exact ND | apply simA_init_p]. Qed.

(* one entry, whatever the model held before: the hook name bears the object numbered by
   the counter, the counter advances, no other name is touched *)
Lemma entry_fresh c fs m src d r f it r' f' x :
  feat_nodup fs = true -> chain_cut_free c fs = true -> fmem FVolatile fs = true ->
  (no_retries c = true -> fs_retries (sdef c d) = 0) ->
  (no_error_states c = true -> error_test c d = false) ->
  enter_chain c fs m src d r f = (it, r', f', x) ->
  m_hooks r' (fs_hook (sdef c d)) = Some f /\ f' = S f /\
  (forall h, h <> fs_hook (sdef c d) -> m_hooks r' h = m_hooks r h).
Proof.
  intros ND G V HR HE E.
  destruct (chain_hooks_guard _ _ _ _ _ _ _ _ _ _ _ ND G HR HE E) as [A B].
  rewrite V in A, B. rewrite A. repeat split.
  - apply upd_same.
  - exact B.
  - intros h N. now apply upd_other.
Qed.

Lemma exit_removes c m s r :
  has_volatile (c_order c) = true ->
  m_hooks (snd (exit_chain c m s r)) (fs_hook (sdef c s)) = None /\
  (forall h, h <> fs_hook (sdef c s) -> m_hooks (snd (exit_chain c m s r)) h = m_hooks r h).
Proof.
  intros V. unfold exit_chain. rewrite V. simpl. split; [apply upd_same|].
  intros h N. now apply upd_other.
Qed.

(* every order: objects are only ever numbered by the counter, which never decreases *)
Lemma chain_fresh_bound c fs : forall m src d r f it r' f' x,
  enter_chain c fs m src d r f = (it, r', f', x) ->
  f <= f' /\ (forall h o, m_hooks r' h = Some o -> o < f' \/ m_hooks r h = Some o).
Proof.
  induction fs as [|g k IH]; intros m src d r f it r' f' x H.
  - simpl in H. inversion H; subst. split; [lia | auto].
  - chain_cases g H.
    + eauto.
    + destruct (error_test c d); [inversion H; subst; split; [lia | auto] | eauto].
    + destruct (IH _ _ _ _ _ _ _ _ _ H) as [A B]. split; [lia|].
      intros h o Ho. destruct (B h o Ho) as [L|R]; [now left|].
      simpl in R. unfold upd in R. destruct (Nat.eqb h (fs_hook (sdef c d))).
      * inversion R; subst. left. lia.
      * now right.
    + destruct (_ && _); [inversion H; subst; split; [lia | auto]|].
      destruct (IH _ _ _ _ _ _ _ _ _ H) as [A B]. split; [exact A|]. intros h o Ho.
      destruct (B h o Ho) as [L|R]; [now left | now right].
Qed.

(* ----------------------------------------------------------------- State.final *)
From M Require Import FeaturesFinal.

Lemma error_final_independent cf w m e t d :
  feat_nodup (c_order (cf_cfg cf)) = true ->
  first_cand (c_trans (cf_cfg cf)) e (m_state (w_m w m)) = Some t -> ft_dst t = Some d ->
  (obs_res (fstepF cf w m e) = RExn EMachine <->
   has_error (c_order (cf_cfg cf)) && negb (has_trigger (cf_cfg cf) d) &&
   negb (fs_accepted (sdef (cf_cfg cf) d) || nat_mem 0 (fs_tags (sdef (cf_cfg cf) d))) = true).
Proof.
  intros ND H D. destruct (error_iff (cf_cfg cf) w m e t d ND H D) as [A _].
  unfold fstepF. rewrite A. unfold is_error_state. now rewrite andb_assoc.
Qed.

Lemma run_final_independent cf cf' w h :
  cf_cfg cf = cf_cfg cf' -> frunF cf w h = frunF cf' w h.
Proof. intros E. unfold frunF. now rewrite E. Qed.

(* ----------------------------------------------------------------- callback kinds, stacked decorators *)
From M Require Import FeaturesKinds.

Lemma has_kind_app k l1 l2 : has_kind k (l1 ++ l2) = has_kind k l1 || has_kind k l2.
Proof. unfold has_kind. apply existsb_app. Qed.

Lemma has_kind_flat_map k args :
  has_kind k (flat_map mixin_kinds args) = existsb (fun x => has_kind k (mixin_kinds x)) args.
Proof.
  induction args as [|a r IH]; simpl; [reflexivity|]. now rewrite has_kind_app, IH.
Qed.

Lemma stack_kinds_exact k base : forall ds,
  has_kind k (stack_kinds ds base) =
  existsb (fun x => has_kind k (mixin_kinds x)) (concat ds) || has_kind k base.
Proof.
  induction ds as [|outer inner IH]; simpl; [reflexivity|].
  unfold decorate_kinds. rewrite has_kind_app, has_kind_flat_map, IH, existsb_app. now rewrite orb_assoc.
Qed.

Lemma stack_kinds_frame k base ds : has_kind k base = true -> has_kind k (stack_kinds ds base) = true.
Proof. intros H. rewrite stack_kinds_exact, H. apply orb_true_r. Qed.

Lemma stack_kinds_inner k base outer inner :
  has_kind k (stack_kinds inner base) = true -> has_kind k (stack_kinds (outer :: inner) base) = true.
Proof. intros H. simpl. unfold decorate_kinds. rewrite has_kind_app, H. apply orb_true_r. Qed.

(* mix-ins without enter code of their own (Tags here; Timeout with timeout=0 is not even an
   entry of the order) may stand anywhere: the chain is that of the others, in their order *)
Lemma chain_ignores_inert c fs : forall m src d r f,
  enter_chain c fs m src d r f =
  enter_chain c (filter (fun g => negb (feature_eqb g FTags)) fs) m src d r f.
Proof.
  induction fs as [|g k IH]; intros m src d r f; [reflexivity|].
  destruct g; simpl filter.
  - rewrite chain_tags_eq. apply IH.
  - rewrite !chain_error_eq. destruct (error_test c d); [reflexivity | apply IH].
  - rewrite !chain_vol_eq. apply IH.
  - rewrite !chain_retry_eq. destruct (_ && _); [reflexivity | apply IH].
Qed.
