(* HsmCrash.v — C04 for the hierarchical engine. *)
From Coq Require Import List Arith Bool Lia.
From M Require Import Base Flat Hsm HsmSpec.
From P Require Import HsmForest CrashGen.
Import ListNotations.

Definition dummy_h : gitem forest := mkGItem SPrepareEvent 0 0 [] (Plain 0) None false [].

Section HCrash.
  Variable hm : hmachine.
  Variable c : ctx.
  Notation both := (both dummy_h).
  Notation ids := (fun s : forest => s).
  Notation HM := (M (V:=forest) (S:=forest)).

  Ltac bnd := apply (cg_bind dummy_h); [|intros ?].

  Lemma hb_run_exits ps : both (fun ev => run_exits hm ev c ps).
  Proof.
    induction ps as [|p r IH]; cbn [run_exits]; [apply cg_ret|]. destruct (defs_at hm p); [|apply cg_raise].
    apply (cg_bind dummy_h (fun ev => run_cbs ids ev c SExit None (sd_exit s))); [apply cg_run_cbs|intros _; exact IH].
  Qed.
  Lemma hb_run_enters ps : both (fun ev => run_enters hm ev c ps).
  Proof.
    induction ps as [|p r IH]; cbn [run_enters]; [apply cg_ret|]. destruct (defs_at hm p); [|apply cg_raise].
    apply (cg_bind dummy_h (fun ev => run_cbs ids ev c SEnter None (sd_enter s))); [apply cg_run_cbs|intros _; exact IH].
  Qed.
  Lemma hb_run_onfinal l : both (fun ev => run_onfinal ev c l).
  Proof.
    induction l as [|x r IH]; cbn [run_onfinal]; [apply cg_ret|].
    apply (cg_bind dummy_h (fun ev => run_cbs ids ev c SOnFinal None x)); [apply cg_run_cbs|intros _; exact IH].
  Qed.

  Lemma hb_change_state sc dst : both (fun ev => change_state hm ev c sc dst).
  Proof.
    unfold change_state. destruct (find_def (scope_children hm sc) dst) as [dd|]; [|apply cg_raise].
    apply (cg_bind dummy_h (fun _ => get)); [apply cg_get|intros f].
    destruct (resolve f sc dst dd) as [r|]; [|apply cg_raise].
    apply (cg_bind dummy_h (fun ev => run_exits hm ev c (r_exits r))); [apply hb_run_exits|intros _].
    apply (cg_bind dummy_h (fun _ => put (r_new r))); [apply cg_put|intros _].
    apply (cg_bind dummy_h (fun ev => run_enters hm ev c (r_enters r))); [apply hb_run_enters|intros _].
    apply hb_run_onfinal.
  Qed.

  Lemma hb_execute sc t : both (fun ev => Hsm.execute hm ev c sc t).
  Proof.
    unfold Hsm.execute.
    apply (cg_bind dummy_h (fun ev => run_cbs ids ev c SPrepare None (ht_prepare t))); [apply cg_run_cbs|intros _].
    apply (cg_bind dummy_h (fun ev => eval_conds ids ev c (ht_conds t))); [apply cg_eval_conds|intros ok].
    destruct ok; [|apply cg_ret].
    apply (cg_bind dummy_h (fun ev => run_cbs ids ev c SBeforeSC None (hm_before_sc hm))); [apply cg_run_cbs|intros _].
    apply (cg_bind dummy_h (fun ev => run_cbs ids ev c SBefore None (ht_before t))); [apply cg_run_cbs|intros _].
    apply (cg_bind dummy_h (fun ev => match ht_dst t with Some d => change_state hm ev c sc d | None => ret tt end)).
    { destruct (ht_dst t); [apply hb_change_state|apply cg_ret]. }
    intros _.
    apply (cg_bind dummy_h (fun ev => run_cbs ids ev c SAfter None (ht_after t))); [apply cg_run_cbs|intros _].
    apply (cg_bind dummy_h (fun ev => run_cbs ids ev c SAfterSC None (hm_after_sc hm))); [apply cg_run_cbs|intros _].
    apply cg_ret.
  Qed.

  Lemma hb_try_transitions sc ts : both (fun ev => Hsm.try_transitions hm ev c sc ts).
  Proof.
    induction ts as [|t r IH]; cbn [Hsm.try_transitions]; [apply cg_ret|].
    apply (cg_bind dummy_h (fun ev => Hsm.execute hm ev c sc t)); [apply hb_execute|intros ok].
    destruct ok; [apply cg_ret|exact IH].
  Qed.

  Lemma hb_offer_loop_gen (attempt : env -> path -> HM bool) hc sc order :
    (forall p, both (fun ev => attempt ev p)) ->
    forall done result, both (fun ev => offer_loop_gen (attempt ev) hc sc order done result).
  Proof.
    intros HA. induction order as [|p rest IH]; intros done result; cbn [offer_loop_gen]; [apply cg_ret|].
    destruct (orb _ _); [apply IH|].
    apply (cg_bind dummy_h (fun _ => get)); [apply cg_get|intros f].
    destruct (negb (active f (sc ++ p))); [apply IH|].
    apply (cg_bind dummy_h (fun ev => attempt ev p)); [apply HA|intros ok].
    apply (cg_bind dummy_h (fun ev => if ok then offer_loop_gen (attempt ev) hc sc rest (nonempty_prefixes p ++ done) (Some true)
                                      else offer_loop_gen (attempt ev) hc sc rest done (match result with None => Some false | r => r end))).
    { destruct ok; apply IH. }
    intros r. apply cg_ret.
  Qed.

  Lemma hb_trigger_nested sc ts key : both (fun ev => trigger_nested hm ev c sc ts key).
  Proof.
    unfold trigger_nested. apply (cg_bind dummy_h (fun _ => get)); [apply cg_get|intros f].
    destruct (sub f sc); [|apply cg_raise].
    apply (cg_bind dummy_h (fun ev => offer_loop hm ev c sc ts (resolve_order _) [] None)).
    - unfold offer_loop.
      apply (hb_offer_loop_gen (fun ev p => run_cbs ids ev c SPrepareEvent None (hm_prepare_event hm) ;;; Hsm.try_transitions hm ev c sc (cands ts p))).
      intros p. apply (cg_bind dummy_h (fun ev => run_cbs ids ev c SPrepareEvent None (hm_prepare_event hm))); [apply cg_run_cbs|intros _; apply hb_try_transitions].
    - intros r. apply cg_ret.
  Qed.

  Lemma hb_dispatch_t e : forall t sc, both (fun ev => dispatch_t hm ev c e sc t).
  Proof.
    induction t as [key ch IH] using tree_ind2. intros sc. cbn [dispatch_t].
    apply (cg_bind dummy_h (fun _ => get)); [apply cg_get|intros f].
    destruct (negb (active f (sc ++ [key]))); [apply cg_ret|].
    set (G := fun (ev : env) => fix go (l : list tree) (acc : option bool) : HM (option bool) :=
                match l with
                | [] => ret acc
                | t' :: l' =>
                    r <- dispatch_t hm ev c e (sc ++ [key]) t' ;;
                    go l' (match r with
                           | None => acc
                           | Some b => Some (orb b (match acc with Some a => a | None => false end))
                           end)
                end).
    assert (HG: forall l acc, Forall (fun t => forall sc, both (fun ev => dispatch_t hm ev c e sc t)) l -> both (fun ev => G ev l acc)).
    { induction l as [|t' l' IHl]; intros acc HF; [apply cg_ret|].
      inversion HF as [|? ? H1 H2]; subst. unfold G. cbn.
      apply (cg_bind dummy_h (fun ev => dispatch_t hm ev c e (sc ++ [key]) t')); [apply H1|intros r]. apply IHl. exact H2. }
    apply (cg_bind dummy_h (fun ev => match ch with [] => ret None | _ :: _ => G ev ch None end)).
    - destruct ch as [|c0 r0]; [apply cg_ret|exact (HG (c0 :: r0) None IH)].
    - intros r1. destruct r1 as [[|]|]; try apply cg_ret;
        (destruct (lookup (scope_events hm sc) e); [|apply cg_ret];
         apply (cg_bind dummy_h (fun ev => trigger_nested hm ev c sc l key)); [apply hb_trigger_nested|intros r2; apply cg_ret]).
  Qed.

  Lemma hb_dispatch_f e sc l : forall acc, both (fun ev => dispatch_f hm ev c e sc l acc).
  Proof.
    induction l as [|t r IH]; intros acc; cbn [dispatch_f]; [apply cg_ret|].
    apply (cg_bind dummy_h (fun ev => dispatch_t hm ev c e sc t)); [apply hb_dispatch_t|intros x]. apply IH.
  Qed.
  Lemma hb_check_leaves e ls : both (fun _ => check_leaves hm e ls).
  Proof.
    induction ls as [|p r IH]; cbn [check_leaves]; [apply cg_ret|]. destruct (defs_at hm p); [|apply cg_raise].
    destruct (match sd_ignore s with Some b => b | None => hm_ignore hm end); [exact IH|].
    destruct (has_trigger hm e); apply cg_raise.
  Qed.

  (* the part of _trigger_event inside the try block *)
  Definition hbody (ev : env) (e : event) : HM bool :=
    f <- get ;;
    r <- dispatch_f hm ev c e [] f None ;;
    match r with
    | Some b => ret b
    | None => f' <- get ;; check_leaves hm e (leaves f')
    end.
  Lemma hb_body e : both (fun ev => hbody ev e).
  Proof.
    unfold hbody. apply (cg_bind dummy_h (fun _ => get)); [apply cg_get|intros f].
    apply (cg_bind dummy_h (fun ev => dispatch_f hm ev c e [] f None)); [apply hb_dispatch_f|intros r].
    destruct r; [apply cg_ret|]. apply (cg_bind dummy_h (fun _ => get)); [apply cg_get|intros f']. apply hb_check_leaves.
  Qed.

  Lemma trigger_event_unfold ev e :
    Hsm.trigger_event hm ev c e =
      try_except_finally (hbody ev e)
        (fun x => match hm_on_exception hm with [] => raise x | hs => run_cbs ids ev c SOnException (Some x) hs ;;; ret false end)
        (fun err => run_cbs ids ev c SFinalize err (hm_finalize hm)).
  Proof. reflexivity. Qed.

  Lemma single_raise_nrf ev k e : single_raise ev k e -> no_raise_from_g ev (S k).
  Proof. intros [_ H] cb q L. apply H. lia. Qed.

  (* C04 for the hierarchical engine: a single raising callback at any position k of the
     trace b that the event's dispatch would produce (b, st', r0 = what the non-raising twin
     of the environment produces inside the try block: r0 may itself be MachineError etc.) *)
  Theorem hsm_crash ev k e ev_id p f b st' r0 :
    single_raise ev k e ->
    hbody (strip ev) ev_id p f = (b, st', r0) ->
    p <= k < p + length b ->
    let s_at := it_state (nth (k - p) b dummy_h) in
    let h := gitems ev c SOnException (Some e) s_at (hm_on_exception hm) (S k) in
    let fin := gitems ev c SFinalize (Some e) s_at (hm_finalize hm) (S k + length h) in
    Hsm.trigger_event hm ev c ev_id p f =
      (firstn (k - p + 1) b ++ h ++ fin, s_at,
       match hm_on_exception hm with [] => inl e | _ => inr false end).
  Proof.
    intros SR TW Hk. cbv zeta. rewrite trigger_event_unfold. unfold try_except_finally.
    assert (B: hbody ev ev_id p f = (firstn (k - p + 1) b, it_state (nth (k - p) b dummy_h), inl e)).
    { destruct r0 as [x|res].
      - destruct (proj2 (hb_body ev_id) ev k e SR p f b st' x TW) as [_ H2]. now apply H2.
      - destruct (proj1 (hb_body ev_id) ev k e SR p f b st' res TW) as [_ H2]. now apply H2. }
    rewrite B. rewrite firstn_length_le by lia. replace (p + (k - p + 1)) with (S k) by lia.
    pose proof (single_raise_nrf ev k e SR) as NR.
    destruct (hm_on_exception hm) as [|h0 hs] eqn:EH.
    - unfold raise. cbn [gitems length app]. rewrite Nat.add_0_r.
      rewrite run_cbs_ok_g by exact NR. reflexivity.
    - unfold bind, ret. rewrite run_cbs_ok_g by exact NR. cbn [length app]. rewrite ?app_nil_r, ?Nat.add_0_r.
      rewrite run_cbs_ok_g by (intros cb q Hq; apply NR; lia). reflexivity.
  Qed.

  (* a raising finalize callback never changes the outcome (twin body returned normally) *)
  Theorem hsm_crash_finalize ev k e ev_id p f b st' res :
    single_raise ev k e ->
    hbody (strip ev) ev_id p f = (b, st', inr res) ->
    let fin := gitems ev c SFinalize None st' (hm_finalize hm) (p + length b) in
    p + length b <= k < p + length b + length fin ->
    Hsm.trigger_event hm ev c ev_id p f = (b ++ firstn (k - (p + length b) + 1) fin, st', inr res).
  Proof.
    intros SR TW. cbv zeta. intros Hk. rewrite trigger_event_unfold. unfold try_except_finally.
    destruct (proj1 (hb_body ev_id) ev k e SR p f b st' res TW) as [H1 _]. rewrite H1 by lia.
    assert (OK: run_cbs ids (strip ev) c SFinalize None (hm_finalize hm) (p + length b) st' =
                (gitems ev c SFinalize None st' (hm_finalize hm) (p + length b), st', inr tt)).
    { rewrite run_cbs_ok_g by (intros cb q _; reflexivity). now rewrite gitems_strip. }
    destruct (proj1 (cg_run_cbs dummy_h c SFinalize None (hm_finalize hm)) ev k e SR (p + length b) st' _ st' tt OK) as [_ F2].
    rewrite F2 by exact Hk. rewrite gitems_nth_state by (rewrite (gitems_length ev c) in Hk; lia). reflexivity.
  Qed.
End HCrash.
