(* LockP.v — lemmas about the lock protocol of Model/Lock.v. *)
From Coq Require Import List Arith Bool Lia Permutation FinFun.
From M Require Import Lock.
Import ListNotations.

(* ------------------------------------------------------------------ configured context lists *)
Lemma nodupb_NoDup : forall l, nodupb l = true -> NoDup l.
Proof.
  induction l as [|x r IH]; simpl; intro H.
  - constructor.
  - apply andb_true_iff in H. destruct H as [H1 H2]. constructor.
    + intro Hin. apply negb_true_iff in H1.
      assert (existsb (Nat.eqb x) r = true) as E.
      { apply existsb_exists. exists x. split; [exact Hin | apply Nat.eqb_refl]. }
      congruence.
    + apply IH. exact H2.
Qed.

Lemma CLock_inj : Injective CLock.
Proof. intros x y H. inversion H. reflexivity. Qed.

Lemma In_CIdent_map : forall l, ~ In CIdent (map CLock l).
Proof. intros l H. apply in_map_iff in H. destruct H as [x [H _]]. discriminate. Qed.

Lemma nodup_ctxs : forall l1 l2, NoDup (l1 ++ l2) -> NoDup ((map CLock l1 ++ [CIdent]) ++ map CLock l2).
Proof.
  intros l1 l2 H. rewrite <- app_assoc. simpl.
  apply Permutation_NoDup with (l := CIdent :: map CLock (l1 ++ l2)).
  - rewrite map_app. apply Permutation_middle.
  - constructor.
    + apply In_CIdent_map.
    + apply Injective_map_NoDup; [exact CLock_inj | exact H].
Qed.

Lemma ctx_eqb_eq : forall a b, ctx_eqb a b = true -> a = b.
Proof.
  intros [x|] [y|] H; simpl in H; try discriminate; [|reflexivity].
  apply Nat.eqb_eq in H. subst. reflexivity.
Qed.

Lemma ctx_eqb_refl : forall a, ctx_eqb a a = true.
Proof. intros [x|]; simpl; [apply Nat.eqb_refl | reflexivity]. Qed.

Lemma ctx_nodupb_NoDup : forall l, ctx_nodupb l = true -> NoDup l.
Proof.
  induction l as [|x r IH]; simpl; intro H.
  - constructor.
  - apply andb_true_iff in H. destruct H as [H1 H2]. constructor.
    + intro Hin. apply negb_true_iff in H1.
      assert (existsb (ctx_eqb x) r = true) as E.
      { apply existsb_exists. exists x. split; [exact Hin | apply ctx_eqb_refl]. }
      congruence.
    + apply IH. exact H2.
Qed.

Section CtxLists.
  Context {MS : Type}.
  Variable reg : MS -> nat -> option (list nat).
  Variable cfg : lcfg.
  Hypothesis WF : wf_cfg cfg = true.

  Definition L0 : nat := hd 0 (cfg_machine cfg).

  (* a context list the protocol can work with: first machine context first, ident inside, no repetition *)
  Definition good (cs : list ctx) : Prop :=
    (exists tl, cs = CLock L0 :: tl /\ tl <> []) /\ NoDup cs /\ In CIdent cs.

  Lemma wf_parts : cfg_machine cfg <> [] /\ nodupb (cfg_machine cfg) = true.
  Proof.
    unfold wf_cfg in WF. apply andb_true_iff in WF. destruct WF as [H1 H2].
    split; [|assumption]. intro E. rewrite E in H1. discriminate.
  Qed.

  Lemma mctx_head : exists tl, mctx cfg = CLock L0 :: tl /\ tl <> [].
  Proof.
    destruct wf_parts as [Hne _]. unfold mctx, L0.
    destruct (cfg_machine cfg) as [|x r]; [congruence|]. simpl.
    exists (map CLock r ++ [CIdent]). split; [reflexivity|].
    intro E. apply app_eq_nil in E. destruct E as [_ E]. discriminate.
  Qed.

  Lemma mctx_nodup : NoDup (mctx cfg).
  Proof.
    destruct wf_parts as [_ H].
    pose proof (nodup_ctxs (cfg_machine cfg) [] ) as P. simpl in P. rewrite !app_nil_r in P.
    apply P. apply nodupb_NoDup. exact H.
  Qed.

  Lemma ctxs_head : forall ms c, ctxs_of reg cfg ms c <> [] ->
    exists tl, ctxs_of reg cfg ms c = CLock L0 :: tl /\ tl <> [].
  Proof.
    intros ms c Hne. destruct mctx_head as [tl [E Hn]]. unfold ctxs_of in *.
    destruct (c_kind c) as [m|].
    - destruct (cfg_hier cfg).
      + exists tl. split; assumption.
      + destruct (reg ms m) as [mc|]; [|congruence].
        rewrite E. simpl. exists (tl ++ map CLock mc). split; [reflexivity|].
        intro E2. apply app_eq_nil in E2. destruct E2 as [E2 _]. congruence.
    - exists tl. split; assumption.
  Qed.

  Lemma ctxs_has_ident : forall ms c, ctxs_of reg cfg ms c <> [] -> In CIdent (ctxs_of reg cfg ms c).
  Proof.
    intros ms c Hne. unfold ctxs_of, mctx in *.
    destruct (c_kind c) as [m|]; [destruct (cfg_hier cfg); [|destruct (reg ms m); [|congruence]]|];
      repeat (apply in_or_app; simpl; auto).
    left. apply in_or_app. simpl. auto.
  Qed.

  (* an entry that does not raise the ghost flag reads a good context list *)
  Lemma entry_good : forall ms ident tid c,
    Nat.eqb ident tid = false -> entry_bad reg cfg ms ident tid c = false -> good (ctxs_of reg cfg ms c).
  Proof.
    intros ms ident tid c Hn Hb. unfold entry_bad in Hb. rewrite Hn in Hb. simpl in Hb.
    apply orb_false_iff in Hb. destruct Hb as [H1 H2]. apply negb_false_iff in H2.
    assert (ctxs_of reg cfg ms c <> []) as Hne by (intro E; rewrite E in H1; discriminate).
    split; [apply ctxs_head; exact Hne | split; [apply ctx_nodupb_NoDup; exact H2 | apply ctxs_has_ident; exact Hne]].
  Qed.

  (* for the flat locked class a non-empty list read by the code is exactly what the property demands *)
  Lemma ctxs_of_flat : cfg_hier cfg = false -> forall ms c, ctxs_of reg cfg ms c <> [] ->
    ctxs_of reg cfg ms c = ctxs_spec reg cfg ms c.
  Proof.
    intros H ms c Hne. unfold ctxs_of, ctxs_spec in *. rewrite H in *.
    destruct (c_kind c) as [m|]; [|reflexivity]. destruct (reg ms m); [reflexivity | congruence].
  Qed.
End CtxLists.

(* ------------------------------------------------------------------ the protocol invariant *)
Lemma upd_same : forall A (f : nat -> A) k v, upd f k v k = v.
Proof. intros. unfold upd. rewrite Nat.eqb_refl. reflexivity. Qed.
Lemma upd_other : forall A (f : nat -> A) k v x, x <> k -> upd f k v x = f x.
Proof. intros A f k v x H. unfold upd. apply Nat.eqb_neq in H. rewrite H. reflexivity. Qed.

Section Proto.
  Context {MS K R I : Type}.
  Variable start : call -> K.
  Variable resume : K -> MS -> MS * list I * status (K:=K) (R:=R).
  Variable ret : K -> R -> K.
  Variable reg : MS -> nat -> option (list nat).
  Variable cfail xfail : call -> ctx -> bool.
  Variable r_refused : call -> ctx -> R.
  Variable r_exit : call -> ctx -> R -> R.
  Variable cfg : lcfg.
  Hypothesis WF : wf_cfg cfg = true.

  Notation gst := (gstate (MS:=MS) (K:=K) (R:=R) (I:=I)).
  Notation thr := (thread (K:=K) (R:=R) (I:=I)).
  Notation actn := (act (K:=K) (R:=R)).
  Notation stp := (step start resume ret reg cfail xfail r_refused r_exit cfg).
  Notation blocked := (blocked cfail).
  Notation enabled := (enabled cfail).
  Notation goodc := (good cfg).

  Definition lockfree (b : actn) : Prop := a_held b = [] /\ exists k, a_phase b = PRun k.

  Definition cur_held (th : thr) : list ctx :=
    match t_cur th with Some a => a_held a | None => [] end.

  Definition shape (th : thr) : Prop :=
    match t_cur th with
    | None => t_nest th = []
    | Some a =>
        goodc (a_ctxs a) /\
        match a_phase a with
        | PAcq todo => rev (a_held a) ++ todo = a_ctxs a /\ todo <> [] /\ t_nest th = []
        | PRun _ => rev (a_held a) = a_ctxs a /\ Forall lockfree (t_nest th)
        | PRel _ => (exists suf, rev (a_held a) ++ suf = a_ctxs a) /\ a_held a <> []
                    /\ t_nest th = []
        end
    end.

  Definition locks_ok (g : gst) : Prop :=
    forall t, t <> 0 ->
      (forall l, g_own g l = t <-> In (CLock l) (held g t)) /\ (g_ident g = t <-> In CIdent (held g t)).

  Definition Inv (g : gst) : Prop := (forall t, t <> 0 -> shape (g_th g t)) /\ locks_ok g.

  Lemma held_cur_held : forall (g : gst) t, held g t = cur_held (g_th g t).
  Proof. reflexivity. Qed.

  Lemma shape_prefix : forall th a, shape th -> t_cur th = Some a ->
    exists suf, rev (a_held a) ++ suf = a_ctxs a.
  Proof.
    intros th a H E. unfold shape in H. rewrite E in H. destruct H as [_ H]. destruct (a_phase a) as [todo|k|r].
    - exists todo. apply H.
    - exists []. rewrite app_nil_r. apply H.
    - apply H.
  Qed.

  Lemma held_has_L0 : forall th, shape th -> cur_held th <> [] -> In (CLock (L0 cfg)) (cur_held th).
  Proof.
    intros th H Hne. unfold cur_held in *. destruct (t_cur th) as [a|] eqn:E; [|congruence].
    destruct (shape_prefix th a H E) as [suf Hs].
    assert (goodc (a_ctxs a)) as Hg by (unfold shape in H; rewrite E in H; apply H).
    destruct (proj1 Hg) as [tl [Hc _]]. rewrite Hc in Hs.
    apply in_rev. destruct (rev (a_held a)) as [|x r] eqn:Er.
    - exfalso. apply Hne. rewrite <- (rev_involutive (a_held a)). rewrite Er. reflexivity.
    - simpl in Hs. inversion Hs. left. reflexivity.
  Qed.

  (* the heart of mutual exclusion *)
  Lemma mutex_held : forall g t1 t2, Inv g -> t1 <> 0 -> t2 <> 0 ->
    held g t1 <> [] -> held g t2 <> [] -> t1 = t2.
  Proof.
    intros g t1 t2 [Hs Hl] N1 N2 H1 H2.
    pose proof (held_has_L0 _ (Hs t1 N1) H1) as I1.
    pose proof (held_has_L0 _ (Hs t2 N2) H2) as I2.
    apply (proj1 (Hl t1 N1)) in I1. apply (proj1 (Hl t2 N2)) in I2. congruence.
  Qed.

  Lemma inv_update : forall (g : gst) tid th' ms' own' id' log' acq' done' bad' fin',
    Inv g -> tid <> 0 -> shape th' ->
    (forall l, own' l = tid <-> In (CLock l) (cur_held th')) ->
    (id' = tid <-> In CIdent (cur_held th')) ->
    (forall t', t' <> 0 -> t' <> tid ->
       (forall l, own' l = t' <-> g_own g l = t') /\ (id' = t' <-> g_ident g = t')) ->
    Inv (mkG ms' own' id' (upd (g_th g) tid th') log' acq' done' bad' fin').
  Proof.
    intros g tid th' ms' own' id' log' acq' done' bad' fin' [Hs Hl] Nt Hsh Hown Hid Hfr. split.
    - intros t N. simpl. destruct (Nat.eq_dec t tid) as [->|D].
      + rewrite upd_same. exact Hsh.
      + rewrite upd_other by exact D. apply Hs. exact N.
    - intros t N. unfold held. simpl. destruct (Nat.eq_dec t tid) as [->|D].
      + rewrite upd_same. split; assumption.
      + rewrite upd_other by exact D. destruct (Hfr t N D) as [F1 F2]. destruct (Hl t N) as [G1 G2]. split.
        * intro l. rewrite F1. apply G1.
        * rewrite F2. apply G2.
  Qed.

  (* frame facts *)
  Lemma frame_acquire : forall (own : nat -> nat) l tid t' l', t' <> 0 -> t' <> tid -> own l = 0 ->
    (upd own l tid l' = t' <-> own l' = t').
  Proof.
    intros own l tid t' l' N D F. destruct (Nat.eq_dec l' l) as [->|E].
    - rewrite upd_same. split; intro; congruence.
    - rewrite upd_other by exact E. tauto.
  Qed.

  Lemma frame_release : forall (own : nat -> nat) l tid t' l', t' <> 0 -> t' <> tid -> own l = tid ->
    (upd own l 0 l' = t' <-> own l' = t').
  Proof.
    intros own l tid t' l' N D F. destruct (Nat.eq_dec l' l) as [->|E].
    - rewrite upd_same. split; intro; congruence.
    - rewrite upd_other by exact E. tauto.
  Qed.

  Lemma rev_cons_app : forall A (x : A) h suf, rev (x :: h) ++ suf = rev h ++ x :: suf.
  Proof. intros. simpl. rewrite <- app_assoc. reflexivity. Qed.

  Lemma NoDup_app_l : forall A (l r : list A), NoDup (l ++ r) -> NoDup l.
  Proof.
    intros A l r. induction r as [|a r IH]; intro H.
    - rewrite app_nil_r in H. exact H.
    - apply IH. apply NoDup_remove_1 in H. exact H.
  Qed.

  Lemma nodup_held : forall (h : list ctx) suf cs, NoDup cs -> rev h ++ suf = cs -> NoDup h.
  Proof.
    intros h suf cs N E. rewrite <- E in N.
    apply NoDup_app_l in N. apply NoDup_rev in N. rewrite rev_involutive in N. exact N.
  Qed.

  Lemma step_inv : forall tid (g : gst), Inv g -> g_bad (stp tid g) = false -> Inv (stp tid g).
  Proof.
    intros tid g HI. unfold step. destruct (Nat.eqb tid 0) eqn:E0; [intros _; exact HI|]. apply Nat.eqb_neq in E0.
    pose proof (proj1 HI tid E0) as Hsh. destruct (proj2 HI tid E0) as [Hown Hid].
    rewrite held_cur_held in Hown, Hid. unfold shape in Hsh. unfold cur_held in Hown, Hid.
    destruct (t_nest (g_th g tid)) as [|top restn] eqn:En.
    - destruct (t_cur (g_th g tid)) as [a|] eqn:Ec.
      + destruct a as [c ph hd acx]. unfold act_step. simpl in *. destruct Hsh as [Hgood Hsh].
        destruct (proj1 Hgood) as [tl0 [Hc0 Htl0]]. destruct Hgood as [_ [Hnd Hident]].
        destruct ph as [todo|k|r].
        * destruct Hsh as [Hpre [Hne _]]. destruct todo as [|x todo]; [congruence|]. destruct x as [l|].
          -- destruct (cfail c (CLock l)) eqn:Ecf.
             { (* the context refuses: unwind *)
               destruct hd as [|y h]; simpl; intros _.
               - apply inv_update; try assumption; [unfold shape; reflexivity | intros t' N D; tauto].
               - apply inv_update; try assumption; [|intros t' N D; tauto].
                 unfold shape. simpl. split; [repeat split; try assumption; eexists; split; eassumption|].
                 split; [eexists; exact Hpre | split; [discriminate | reflexivity]]. }
             destruct (Nat.eqb (g_own g l) 0) eqn:Eo; simpl; intros _.
             ++ apply Nat.eqb_eq in Eo. apply inv_update; try assumption.
                ** unfold shape, after_acq. simpl. split; [repeat split; try assumption; eexists; split; eassumption|].
                   destruct todo as [|y todo']; simpl.
                   { split; [rewrite <- Hpre; reflexivity | constructor]. }
                   { split; [rewrite <- app_assoc; exact Hpre | split; [discriminate | reflexivity]]. }
                ** intro l'. unfold cur_held. simpl. destruct (Nat.eq_dec l' l) as [->|D].
                   { rewrite upd_same. split; intro; [left; reflexivity | reflexivity]. }
                   { rewrite upd_other by exact D. rewrite Hown. split; [intro HH; right; exact HH|].
                     intros [H|H]; [inversion H; congruence | exact H]. }
                ** unfold cur_held. simpl. rewrite Hid. split; [intro HH; right; exact HH|]. intros [H|H]; [discriminate|exact H].
                ** intros t' N D. split; [|tauto]. intro l'. apply frame_acquire; assumption.
             ++ apply inv_update; try assumption.
                ** unfold shape. simpl. split; [repeat split; try assumption; eexists; split; eassumption|].
                   split; [exact Hpre | split; [discriminate | reflexivity]].
                ** intros t' N D. tauto.
          -- simpl. intros _. apply inv_update; try assumption.
             ++ unfold shape, after_acq. simpl. split; [repeat split; try assumption; eexists; split; eassumption|].
                destruct todo as [|y todo']; simpl.
                { split; [rewrite <- Hpre; reflexivity | constructor]. }
                { split; [rewrite <- app_assoc; exact Hpre | split; [discriminate | reflexivity]]. }
             ++ intro l'. unfold cur_held. simpl. rewrite Hown. split; [intro HH; right; exact HH|].
                intros [H|H]; [discriminate | exact H].
             ++ unfold cur_held. simpl. tauto.
             ++ intros t' N D. split; [tauto|]. split; [intro; congruence|].
                intro Hi. exfalso. apply D. apply (mutex_held g t' tid HI N E0).
                ** destruct (proj2 HI t' N) as [_ Hid']. apply Hid' in Hi. intro E. rewrite E in Hi. exact Hi.
                ** unfold held. rewrite Ec. simpl. intro E. subst hd. simpl in Hpre.
                   rewrite Hc0 in Hpre. discriminate.
        * destruct Hsh as [Hpre _].
          assert (hd <> []) as Hhd.
          { intro E. subst hd. simpl in Hpre. rewrite Hc0 in Hpre. discriminate. }
          assert (g_ident g = tid) as Hidt.
          { apply Hid. apply in_rev. rewrite Hpre. exact Hident. }
          destruct (resume k (g_ms g)) as [[ms' its] st]. destruct st as [k'|c' k'|r]; simpl; intros _.
          -- apply inv_update; try assumption.
             ++ unfold shape. simpl. split; [repeat split; try assumption; eexists; split; eassumption|].
                split; [exact Hpre | constructor].
             ++ intros t' N D. tauto.
          -- apply inv_update; try assumption.
             ++ unfold shape. simpl. split; [repeat split; try assumption; eexists; split; eassumption|].
                split; [exact Hpre|]. constructor; [|constructor].
                unfold enter_call. rewrite Hidt, Nat.eqb_refl. split; [reflexivity | eexists; reflexivity].
             ++ intros t' N D. tauto.
          -- destruct hd as [|x h]; [congruence|]. simpl. apply inv_update; try assumption.
             ++ unfold shape. simpl. split; [repeat split; try assumption; eexists; split; eassumption|].
                split; [exists []; rewrite app_nil_r; exact Hpre | split; [discriminate|reflexivity]].
             ++ intros t' N D. tauto.
        * destruct Hsh as [[suf Hpre] [Hne _]]. destruct hd as [|x h]; [congruence|].
          pose proof (nodup_held _ _ _ Hnd Hpre) as ND. inversion ND as [|x' h' Hnin NDh]; subst x' h'.
          destruct h as [|y h']; simpl; intros _.
          -- apply inv_update; try assumption.
             ++ unfold shape. simpl. reflexivity.
             ++ intro l'. unfold cur_held. simpl. split; [|tauto]. intro H. destruct x as [l|].
                ** destruct (Nat.eq_dec l' l) as [->|D]; [rewrite upd_same in H; congruence|].
                   rewrite upd_other in H by exact D. apply Hown in H. destruct H as [H|[]]. inversion H. congruence.
                ** apply Hown in H. destruct H as [H|[]]. discriminate.
             ++ unfold cur_held. simpl. split; [|tauto]. intro H. destruct x as [l|].
                ** apply Hid in H. destruct H as [H|[]]. discriminate.
                ** congruence.
             ++ intros t' N D. destruct x as [l|].
                ** split; [|tauto]. intro l'. apply frame_release with (tid := tid); try assumption.
                   apply Hown. left. reflexivity.
                ** split; [tauto|]. assert (g_ident g = tid) by (apply Hid; left; reflexivity).
                   split; intro; congruence.
          -- rewrite rev_cons_app in Hpre. apply inv_update; try assumption.
             ++ unfold shape. simpl. split; [repeat split; try assumption; eexists; split; eassumption|].
                split; [eexists; exact Hpre | split; [discriminate | reflexivity]].
             ++ intro l'. unfold cur_held. simpl. destruct x as [l|].
                ** destruct (Nat.eq_dec l' l) as [->|D].
                   { rewrite upd_same. split; [congruence|]. intro H. exfalso. apply Hnin. exact H. }
                   { rewrite upd_other by exact D. rewrite Hown. split; [|intro HH; right; exact HH].
                     intros [H|H]; [inversion H; congruence | exact H]. }
                ** rewrite Hown. split; [|intro HH; right; exact HH]. intros [H|H]; [discriminate | exact H].
             ++ unfold cur_held. simpl. destruct x as [l|].
                ** rewrite Hid. split; [|intro HH; right; exact HH]. intros [H|H]; [discriminate | exact H].
                ** split; [congruence|]. intro H. exfalso. apply Hnin. exact H.
             ++ intros t' N D. destruct x as [l|].
                ** split; [|tauto]. intro l'. apply frame_release with (tid := tid); try assumption.
                   apply Hown. left. reflexivity.
                ** split; [tauto|]. assert (g_ident g = tid) by (apply Hid; left; reflexivity).
                   split; intro; congruence.
      + destruct (t_prog (g_th g tid)) as [|c rest] eqn:Ep; [intros _; exact HI|].
        simpl. intro Hb. apply orb_false_iff in Hb. destruct Hb as [_ Hb].
        assert (Nat.eqb (g_ident g) tid = false) as Hni.
        { apply Nat.eqb_neq. intro E. apply Hid in E. exact E. }
        pose proof (entry_good reg cfg WF _ _ _ _ Hni Hb) as Hgood.
        destruct (proj1 Hgood) as [tl [Hc _]].
        apply inv_update; try assumption.
        * unfold shape, enter_call. rewrite Hni. rewrite Hc. simpl. rewrite <- Hc.
          split; [exact Hgood | split; [reflexivity | split; [rewrite Hc; discriminate | reflexivity]]].
        * intro l'. unfold cur_held, enter_call. rewrite Hni, Hc. simpl. apply Hown.
        * unfold cur_held, enter_call. rewrite Hni, Hc. simpl. apply Hid.
        * intros t' N D. tauto.
    - (* a nested (re-entrant) activation is on top *)
      destruct (t_cur (g_th g tid)) as [a|] eqn:Ec; [|discriminate].
      destruct Hsh as [Hgood Hsh].
      destruct (a_phase a) as [todo|k0|r0] eqn:Eph; try (destruct Hsh as [_ [_ Hsh]]; discriminate).
      destruct Hsh as [Hpre Hlf]. inversion Hlf as [|top' restn' [Hth [k Hk]] Hrest]; subst top' restn'.
      assert (g_ident g = tid) as Hidt.
      { apply Hid. apply in_rev. rewrite Hpre. apply Hgood. }
      destruct top as [c ph hd acx]. simpl in Hth, Hk. subst hd ph. unfold act_step. simpl.
      destruct (resume k (g_ms g)) as [[ms' its] st]. destruct st as [k'|c' k'|r]; simpl.
      + intros _. apply inv_update; try assumption; [|intros t' N D; tauto].
        unfold shape. simpl. rewrite Eph. split; [exact Hgood|]. split; [exact Hpre|]. constructor; [|exact Hrest].
        split; [reflexivity | eexists; reflexivity].
      + intros _. apply inv_update; try assumption; [|intros t' N D; tauto].
        unfold shape. simpl. rewrite Eph. split; [exact Hgood|]. split; [exact Hpre|]. constructor; [|constructor; [|exact Hrest]].
        * unfold enter_call. rewrite Hidt, Nat.eqb_refl. split; [reflexivity | eexists; reflexivity].
        * split; [reflexivity | eexists; reflexivity].
      + destruct restn as [|p restn']; simpl; intros _.
        * apply inv_update; try assumption.
          -- unfold shape, deliver. simpl. rewrite Eph. simpl. split; [exact Hgood|]. split; [exact Hpre | constructor].
          -- unfold cur_held, deliver. simpl. rewrite Eph. exact Hown.
          -- unfold cur_held, deliver. simpl. rewrite Eph. exact Hid.
          -- intros t' N D. tauto.
        * apply inv_update; try assumption; [|intros t' N D; tauto].
          unfold shape. simpl. rewrite Eph. split; [exact Hgood|]. split; [exact Hpre|].
          inversion Hrest as [|p' r' [Hp1 [kp Hp2]] Hr']; subst. constructor; [|exact Hr'].
          unfold deliver. rewrite Hp2. simpl. split; [exact Hp1 | eexists; reflexivity].
  Qed.

  Lemma init_inv : forall progs ms, Inv (init progs ms : gst).
  Proof.
    intros progs ms. split.
    - intros t N. unfold shape. reflexivity.
    - intros t N. unfold held. simpl. split; [intro l|]; split; intro H; try contradiction; congruence.
  Qed.

  (* the ghost flag is never reset *)
  Lemma step_bad_mono : forall tid (g : gst), g_bad g = true -> g_bad (stp tid g) = true.
  Proof.
    intros tid g H. unfold step. destruct (Nat.eqb tid 0); [exact H|].
    destruct (t_nest (g_th g tid)) as [|top restn].
    - destruct (t_cur (g_th g tid)) as [a|].
      + destruct (act_step start resume reg cfail xfail r_refused r_exit cfg tid a _) as [[s' o] its].
        destruct o; simpl; rewrite H; reflexivity.
      + destruct (t_prog (g_th g tid)); [exact H|]. simpl. rewrite H. reflexivity.
    - destruct (act_step start resume reg cfail xfail r_refused r_exit cfg tid top _) as [[s' o] its].
      destruct o; [| |destruct restn|]; simpl; rewrite H; reflexivity.
  Qed.

  Lemma run_bad_mono : forall sched (g : gst), g_bad g = true -> g_bad (run start resume ret reg cfail xfail r_refused r_exit cfg sched g) = true.
  Proof.
    induction sched as [|t r IH]; intros g H; simpl; [exact H|]. apply IH. apply step_bad_mono. exact H.
  Qed.

  Lemma run_inv : forall sched (g : gst), Inv g -> g_bad (run start resume ret reg cfail xfail r_refused r_exit cfg sched g) = false ->
    Inv (run start resume ret reg cfail xfail r_refused r_exit cfg sched g).
  Proof.
    induction sched as [|t r IH]; intros g H Hb; simpl in *; [exact H|]. apply IH; [|exact Hb]. apply step_inv; [exact H|].
    destruct (g_bad (stp t g)) eqn:E; [|reflexivity]. rewrite (run_bad_mono r _ E) in Hb. discriminate.
  Qed.

  (* ---------------------------------------------------------------- consequences of the invariant *)
  Definition in_segment (g : gst) (t : nat) : Prop :=
    exists a k, top_act (g_th g t) = Some a /\ a_phase a = PRun k.

  Lemma in_segment_running : forall (g : gst) t, Inv g -> t <> 0 -> in_segment g t ->
    exists a k, t_cur (g_th g t) = Some a /\ a_phase a = PRun k /\ rev (a_held a) = a_ctxs a /\ goodc (a_ctxs a).
  Proof.
    intros g t [Hs _] N [a [k [Ht Hp]]]. specialize (Hs t N). unfold shape in Hs. unfold top_act in Ht.
    destruct (t_nest (g_th g t)) as [|top rest] eqn:En.
    - rewrite Ht in Hs. rewrite Hp in Hs. exists a, k. split; [exact Ht | split; [exact Hp | split; apply Hs]].
    - destruct (t_cur (g_th g t)) as [b|]; [|discriminate]. destruct Hs as [Hg Hs].
      destruct (a_phase b) as [todo|kb|rb] eqn:Eb.
      + destruct Hs as [_ [_ Hs]]. discriminate.
      + exists b, kb. split; [reflexivity | split; [exact Eb | split; [apply Hs | exact Hg]]].
      + destruct Hs as [_ [_ Hs]]. discriminate.
  Qed.

  Lemma running_shape : forall (g : gst) t a k, Inv g -> t <> 0 ->
    t_cur (g_th g t) = Some a -> a_phase a = PRun k -> rev (a_held a) = a_ctxs a /\ goodc (a_ctxs a).
  Proof.
    intros g t a k HI N Ec Ep. pose proof (proj1 HI t N) as Hs. unfold shape in Hs.
    rewrite Ec, Ep in Hs. split; apply Hs.
  Qed.

  Lemma running_holds_all : forall (g : gst) t a k, Inv g -> t <> 0 ->
    t_cur (g_th g t) = Some a -> a_phase a = PRun k ->
    forall x, In x (a_ctxs a) -> holds g t x.
  Proof.
    intros g t a k HI N Ec Ep x Hx. destruct (running_shape g t a k HI N Ec Ep) as [Hpre _].
    rewrite <- Hpre in Hx. apply in_rev in Hx.
    destruct (proj2 HI t N) as [Ho Hi]. unfold held in Ho, Hi. rewrite Ec in Ho, Hi.
    destruct x as [l|]; simpl; [apply Ho | apply Hi]; exact Hx.
  Qed.

  Lemma idle_holds_nothing : forall (g : gst) t, Inv g -> t <> 0 -> t_cur (g_th g t) = None ->
    forall x, ~ holds g t x.
  Proof.
    intros g t HI N Ec x H. destruct (proj2 HI t N) as [Ho Hi]. unfold held in Ho, Hi. rewrite Ec in Ho, Hi.
    destruct x as [l|]; simpl in H; [apply Ho in H | apply Hi in H]; exact H.
  Qed.

  Lemma running_held_ne : forall (g : gst) t a k, Inv g -> t <> 0 ->
    t_cur (g_th g t) = Some a -> a_phase a = PRun k -> held g t <> [].
  Proof.
    intros g t a k HI N Ec Ep E. pose proof (proj1 HI t N) as Hs. unfold shape in Hs. rewrite Ec, Ep in Hs.
    unfold held in E. rewrite Ec in E. destruct Hs as [Hg [Hpre _]]. rewrite E in Hpre. simpl in Hpre.
    destruct (proj1 Hg) as [tl [Hc _]]. rewrite Hc in Hpre. discriminate.
  Qed.

  Lemma segment_mutex : forall (g : gst) t1 t2, Inv g -> t1 <> 0 -> t2 <> 0 ->
    in_segment g t1 -> in_segment g t2 -> t1 = t2.
  Proof.
    intros g t1 t2 HI N1 N2 S1 S2.
    destruct (in_segment_running g t1 HI N1 S1) as [a1 [k1 [E1 [P1 _]]]].
    destruct (in_segment_running g t2 HI N2 S2) as [a2 [k2 [E2 [P2 _]]]].
    apply (mutex_held g t1 t2 HI N1 N2); eapply running_held_ne; eassumption.
  Qed.

  Lemma holder_not_blocked : forall (g : gst) t, Inv g -> t <> 0 -> held g t <> [] -> blocked g t = false.
  Proof.
    intros g t HI N Hh. pose proof (proj1 HI t N) as Hs. unfold shape in Hs. unfold blocked, top_act.
    unfold held in Hh. destruct (t_cur (g_th g t)) as [a|] eqn:Ec; [|congruence]. destruct Hs as [Hgood Hs].
    destruct (t_nest (g_th g t)) as [|top rest] eqn:En.
    - destruct (a_phase a) as [todo|k|r] eqn:Ep; try reflexivity.
      destruct todo as [|x todo]; [reflexivity|]. destruct x as [l|]; [|reflexivity].
      destruct (cfail (a_call a) (CLock l)); [reflexivity|]. simpl.
      destruct (Nat.eqb (g_own g l) 0) eqn:Eo; [reflexivity|]. exfalso. apply Nat.eqb_neq in Eo.
      destruct Hs as [Hpre _].
      assert (g_own g l = t) as Et.
      { apply (mutex_held g (g_own g l) t HI Eo N).
        - intro E. destruct (proj2 HI _ Eo) as [Ho _]. specialize (Ho l). rewrite E in Ho.
          apply (proj1 Ho). reflexivity.
        - unfold held. rewrite Ec. exact Hh. }
      destruct (proj2 HI t N) as [Ho _]. unfold held in Ho. rewrite Ec in Ho. apply Ho in Et.
      pose proof (proj1 (proj2 Hgood)) as ND. rewrite <- Hpre in ND.
      apply NoDup_remove_2 in ND. apply ND. apply in_or_app. left. apply in_rev in Et. exact Et.
    - destruct (a_phase a) as [todo|k|r] eqn:Ep.
      + destruct Hs as [_ [_ Hs]]. discriminate.
      + destruct Hs as [_ Hlf]. inversion Hlf as [|x y [_ [kt Hk]] _]; subst. rewrite Hk. reflexivity.
      + destruct Hs as [_ [_ Hs]]. discriminate.
  Qed.

  Lemma progress : forall (g : gst), Inv g ->
    (exists t, t <> 0 /\ thread_done (g_th g t) = false) -> exists t', enabled g t' = true.
  Proof.
    intros g HI [t [N Hd]]. destruct (blocked g t) eqn:Eb.
    - unfold blocked in Eb. destruct (top_act (g_th g t)) as [a|] eqn:Et; [|discriminate].
      destruct (a_phase a) as [todo|k|r]; try discriminate.
      destruct todo as [|x todo]; [discriminate|]. destruct x as [l|]; [|discriminate].
      apply andb_true_iff in Eb. destruct Eb as [_ Eb].
      apply negb_true_iff in Eb. apply Nat.eqb_neq in Eb.
      set (o := g_own g l) in *.
      assert (held g o <> []) as Hh.
      { intro E. destruct (proj2 HI o Eb) as [Ho _]. specialize (Ho l). rewrite E in Ho. apply (proj1 Ho). reflexivity. }
      exists o. unfold enabled. rewrite (holder_not_blocked g o HI Eb Hh).
      apply Nat.eqb_neq in Eb. rewrite Eb. simpl. rewrite andb_true_r. apply negb_true_iff.
      unfold held in Hh. unfold thread_done. destruct (t_cur (g_th g o)); [|congruence].
      destruct (t_prog (g_th g o)); reflexivity.
    - exists t. unfold enabled. rewrite Eb, Hd. apply Nat.eqb_neq in N. rewrite N. reflexivity.
  Qed.

  Lemma running_ident : forall (g : gst) t, Inv g -> t <> 0 -> in_segment g t -> g_ident g = t.
  Proof.
    intros g t HI N S. destruct (in_segment_running g t HI N S) as [a [k [Ec [Ep [Hpre Hg]]]]].
    apply (running_holds_all g t a k HI N Ec Ep CIdent). apply Hg.
  Qed.

  (* a call made from a callback by the thread that is inside: no lock is touched, the new
     activation starts processing at once and the thread is not blocked *)
  Lemma reentrant : forall (g : gst) tid a k ms' its c' k',
    Inv g -> tid <> 0 -> top_act (g_th g tid) = Some a -> a_phase a = PRun k ->
    resume k (g_ms g) = (ms', its, SCall c' k') ->
    let g' := stp tid g in
    (forall l, g_own g' l = g_own g l) /\ g_ident g' = g_ident g /\
    top_act (g_th g' tid) = Some (mkAct c' (PRun (start c')) [] []) /\
    blocked g' tid = false /\
    g_log g' = g_log g ++ [EvSeg tid (a_call a) its].
  Proof.
    intros g tid a k ms' its c' k' HI N Ht Hp Hr g'.
    assert (g_ident g = tid) as Hid by (apply running_ident; [exact HI | exact N | exists a, k; split; assumption]).
    subst g'. unfold step. apply Nat.eqb_neq in N. rewrite N. unfold top_act in Ht.
    destruct (t_nest (g_th g tid)) as [|top rest] eqn:En.
    - rewrite Ht. unfold act_step. rewrite Hp. simpl. rewrite Hr. simpl.
      unfold blocked, top_act. simpl. rewrite upd_same. simpl. unfold enter_call. rewrite Hid, Nat.eqb_refl. simpl.
      repeat split; reflexivity.
    - inversion Ht; subst top. unfold act_step. rewrite Hp. simpl. rewrite Hr. simpl.
      unfold blocked, top_act. simpl. rewrite upd_same. simpl. unfold enter_call. rewrite Hid, Nat.eqb_refl. simpl.
      repeat split; reflexivity.
  Qed.

  (* the thread inside the machine is never blocked while it executes nested calls *)
  Lemma nested_not_blocked : forall (g : gst) t, Inv g -> t <> 0 -> t_nest (g_th g t) <> [] -> blocked g t = false.
  Proof.
    intros g t HI N Hn. apply holder_not_blocked; try assumption.
    pose proof (proj1 HI t N) as Hs. unfold shape in Hs. unfold held.
    destruct (t_cur (g_th g t)) as [a|] eqn:Ec; [|congruence]. destruct Hs as [_ Hs].
    destruct (a_phase a) as [todo|k|r] eqn:Ep.
    - destruct Hs as [_ [_ Hs]]. congruence.
    - intro E. apply (running_held_ne g t a k HI N Ec Ep). unfold held. rewrite Ec. exact E.
    - destruct Hs as [_ [_ Hs]]. congruence.
  Qed.

  (* ---------------------------------------------------------------- serial equivalence *)
  Notation siter := (seq_iter start resume ret).
  Notation sstep := (seq_step start resume ret).
  Notation sexec := (serial_exec start resume ret).

  Lemma seq_iter_add : forall n m s, siter (n + m) s = siter m (siter n s).
  Proof.
    induction n as [|n IH]; intros m s; simpl; [reflexivity|].
    destruct s as [ks ms its|ms its r].
    - apply IH.
    - destruct m; reflexivity.
  Qed.

  Lemma seq_iter_snoc : forall n s ks ms its, siter n s = Running ks ms its ->
    siter (S n) s = sstep ks ms its.
  Proof.
    intros n s ks ms its H. replace (S n) with (n + 1) by lia. rewrite seq_iter_add, H. reflexivity.
  Qed.

  Lemma serial_exec_snoc : forall cs ms0 msk l c n ms' its r,
    sexec cs ms0 msk l -> siter n (Running [start c] msk []) = Finished ms' its r ->
    sexec (cs ++ [c]) ms0 ms' (l ++ [(r, its)]).
  Proof.
    intros cs ms0 msk l c n ms' its r H. induction H as [ms|c0 cs0 ms n0 ms1 its0 r0 msf l0 H1 H2 IH]; intro Hf; simpl.
    - eapply se_cons; [exact Hf | constructor].
    - eapply se_cons; [exact H1 | apply IH; exact Hf].
  Qed.

  Definition act_k (b : actn) : list K := match a_phase b with PRun k => [k] | _ => [] end.
  Definition kstack (nest : list actn) (k : K) : list K := flat_map act_k nest ++ [k].
  Definition dcalls (d : list (dentry (R:=R) (I:=I))) : list call := map (fun x => d_call x) d.
  Definition dress (d : list (dentry (R:=R) (I:=I))) : list (R * list I) := map (fun x => (d_res x, d_items x)) d.
  Definition dpairs (d : list (dentry (R:=R) (I:=I))) : list (nat * call) := map (fun x => (d_tid x, d_call x)) d.

  Variable ms0 : MS.

  Definition modeB (ms : MS) (acq : list (nat * call)) (done : list (dentry (R:=R) (I:=I))) (th : thr)
             (t : nat) (a : actn) (msk : MS) : Prop :=
    match a_phase a with
    | PAcq _ => ms = msk /\ acq = dpairs done ++ [(t, a_call a)]
    | PRun k => (exists n, siter n (Running [start (a_call a)] msk []) = Running (kstack (t_nest th) k) ms (t_items th))
                /\ acq = dpairs done ++ [(t, a_call a)]
    | PRel _ => ms = msk /\ acq = dpairs done
    end.

  Definition HA (g : gst) (msk : MS) : Prop :=
    (forall t, t <> 0 -> held g t = []) -> g_ms g = msk /\ g_acq g = dpairs (g_done g).
  Definition HB (g : gst) (msk : MS) : Prop :=
    forall t a, t <> 0 -> t_cur (g_th g t) = Some a -> a_held a <> [] ->
      modeB (g_ms g) (g_acq g) (g_done g) (g_th g t) t a msk.
  Definition HC (g : gst) : Prop :=
    forall t a todo, t <> 0 -> t_cur (g_th g t) = Some a -> a_phase a = PAcq todo -> t_items (g_th g t) = [].

  Definition SInv (g : gst) : Prop :=
    exists msk, sexec (dcalls (g_done g)) ms0 msk (dress (g_done g)) /\ HA g msk /\ HB g msk /\ HC g.

  Lemma sinv_update : forall (g : gst) tid th' ms' own' id' log' acq' done' bad' fin' msk msk',
    Inv g -> Inv (mkG ms' own' id' (upd (g_th g) tid th') log' acq' done' bad' fin') -> tid <> 0 ->
    HA g msk -> HB g msk -> HC g ->
    sexec (dcalls done') ms0 msk' (dress done') ->
    (cur_held th' = [] -> (forall t, t <> 0 -> t <> tid -> held g t = []) -> ms' = msk' /\ acq' = dpairs done') ->
    (forall a, t_cur th' = Some a -> a_held a <> [] -> modeB ms' acq' done' th' tid a msk') ->
    (forall a todo, t_cur th' = Some a -> a_phase a = PAcq todo -> t_items th' = []) ->
    (held g tid = [] -> cur_held th' = [] -> ms' = g_ms g /\ acq' = g_acq g /\ done' = g_done g /\ msk' = msk) ->
    SInv (mkG ms' own' id' (upd (g_th g) tid th') log' acq' done' bad' fin').
  Proof.
    intros g tid th' ms' own' id' log' acq' done' bad' fin' msk msk' HI HI' N A B C Hser LA LB LC FR.
    exists msk'. split; [exact Hser|]. split; [|split].
    - intro Hno. simpl. apply LA.
      + specialize (Hno tid N). unfold held in Hno. simpl in Hno. rewrite upd_same in Hno. exact Hno.
      + intros t Nt D. specialize (Hno t Nt). unfold held in *. simpl in Hno. rewrite upd_other in Hno by exact D. exact Hno.
    - intros t a Nt Ec Hh. simpl in *. destruct (Nat.eq_dec t tid) as [->|D].
      + rewrite upd_same in *. apply LB; assumption.
      + rewrite upd_other in * by exact D.
        assert (held g t <> []) as Hg by (unfold held; rewrite Ec; exact Hh).
        assert (held g tid = []) as H1.
        { destruct (held g tid) eqn:E; [reflexivity|]. exfalso. apply D.
          apply (mutex_held g t tid HI Nt N Hg). rewrite E. discriminate. }
        assert (cur_held th' = []) as H2.
        { destruct (cur_held th') eqn:E; [reflexivity|]. exfalso. apply D.
          apply (mutex_held _ t tid HI' Nt N).
          - unfold held. simpl. rewrite upd_other by exact D. rewrite Ec. exact Hh.
          - unfold held. simpl. rewrite upd_same. fold (cur_held th'). rewrite E. discriminate. }
        destruct (FR H1 H2) as [-> [-> [-> ->]]]. apply B; assumption.
    - intros t a todo Nt Ec Ep. simpl in *. destruct (Nat.eq_dec t tid) as [->|D].
      + rewrite upd_same in *. eapply LC; eassumption.
      + rewrite upd_other in * by exact D. eapply C; eassumption.
  Qed.

  Lemma dcalls_snoc : forall d x, dcalls (d ++ [x]) = dcalls d ++ [d_call x].
  Proof. intros. unfold dcalls. rewrite map_app. reflexivity. Qed.
  Lemma dress_snoc : forall d x, dress (d ++ [x]) = dress d ++ [(d_res x, d_items x)].
  Proof. intros. unfold dress. rewrite map_app. reflexivity. Qed.
  Lemma dpairs_snoc : forall d x, dpairs (d ++ [x]) = dpairs d ++ [(d_tid x, d_call x)].
  Proof. intros. unfold dpairs. rewrite map_app. reflexivity. Qed.

  Lemma nobody_holds_if_L0_free : forall (g : gst), Inv g -> g_own g (L0 cfg) = 0 ->
    forall t, t <> 0 -> held g t = [].
  Proof.
    intros g HI Hf t N. destruct (held g t) eqn:E; [reflexivity|]. exfalso.
    assert (cur_held (g_th g t) <> []) as Hne by (rewrite <- held_cur_held, E; discriminate).
    pose proof (held_has_L0 _ (proj1 HI t N) Hne) as Hin.
    apply (proj1 (proj2 HI t N)) in Hin. congruence.
  Qed.

  Lemma step_sinv : forall tid (g : gst), Inv g -> SInv g -> g_bad (stp tid g) = false -> SInv (stp tid g).
  Proof.
    intros tid g HI [msk [Hser [A [B C]]]] Hbad. pose proof (step_inv tid g HI Hbad) as HI'. revert HI'. clear Hbad.
    unfold step. destruct (Nat.eqb tid 0) eqn:E0.
    { intros _. exists msk. split; [exact Hser | split; [exact A | split; [exact B | exact C]]]. }
    apply Nat.eqb_neq in E0.
    pose proof (proj1 HI tid E0) as Hsh. unfold shape in Hsh.
    destruct (proj2 HI tid E0) as [Hown Hid]. rewrite held_cur_held in Hown, Hid. unfold cur_held in Hown, Hid.
    destruct (t_nest (g_th g tid)) as [|top restn] eqn:En.
    - destruct (t_cur (g_th g tid)) as [a|] eqn:Ec.
      + destruct a as [c ph hd acx]. unfold act_step. simpl in *. destruct Hsh as [Hgood Hsh].
        destruct (proj1 Hgood) as [tl0 [Hc0 Htl0]]. destruct Hgood as [_ [Hnd Hident]].
        destruct ph as [todo|k|r].
        * (* entering contexts *)
          destruct Hsh as [Hpre [Hne _]]. destruct todo as [|x todo]; [congruence|].
          assert (t_items (g_th g tid) ++ [] = []) as Hit.
          { rewrite app_nil_r. eapply C; [exact E0 | exact Ec | reflexivity]. }
          destruct x as [l|].
          -- destruct (cfail c (CLock l)) eqn:Ecf.
             { (* the context refuses: the call is unwound, nothing was processed *)
               destruct hd as [|y h]; simpl; intro HI'.
               - eapply sinv_update with (msk := msk) (msk' := msk); try eassumption.
                 + intros _ Hoth. apply A. intros t Nt. destruct (Nat.eq_dec t tid) as [->|D].
                   { unfold held. rewrite Ec. reflexivity. } { apply Hoth; assumption. }
                 + intros a0 Ea _. discriminate Ea.
                 + intros a0 todo0 Ea _. discriminate Ea.
                 + intros _ _. repeat split; reflexivity.
               - pose proof (B tid _ E0 Ec) as Bt. simpl in Bt. unfold modeB in Bt. simpl in Bt.
                 destruct Bt as [Ems Eacq]; [discriminate|].
                 eapply sinv_update with (msk := msk) (msk' := msk); try eassumption.
                 + intros H _. discriminate H.
                 + intros a0 Ea _. inversion Ea; subst a0. unfold modeB. simpl. split; [exact Ems|].
                   rewrite Eacq. apply removelast_last.
                 + intros a0 todo0 Ea Ep. inversion Ea; subst a0. discriminate Ep.
                 + intros H _. unfold held in H. rewrite Ec in H. discriminate H. }
             destruct (Nat.eqb (g_own g l) 0) eqn:Eo; simpl; intro HI'.
             ++ apply Nat.eqb_eq in Eo. destruct hd as [|y h]; simpl.
                ** (* first acquisition: nobody was inside *)
                   simpl in Hpre. rewrite Hc0 in Hpre.
                   inversion Hpre; subst l todo. rename tl0 into tl. rename Htl0 into Htl.
                   destruct (A (nobody_holds_if_L0_free g HI Eo)) as [Ems Eacq].
                   eapply sinv_update with (msk := msk) (msk' := msk); try eassumption.
                   --- intros H _. discriminate H.
                   --- intros a0 Ea _. inversion Ea; subst a0. unfold modeB, after_acq. simpl.
                       destruct tl as [|z tl']; [congruence|]. simpl. split; [exact Ems | rewrite Eacq; reflexivity].
                   --- intros a0 todo0 _ _. exact Hit.
                   --- intros _ H. discriminate H.
                ** pose proof (B tid _ E0 Ec) as Bt. simpl in Bt. unfold modeB in Bt. simpl in Bt.
                   destruct Bt as [Ems Eacq]; [discriminate|].
                   eapply sinv_update with (msk := msk) (msk' := msk); try eassumption.
                   --- intros H _. discriminate H.
                   --- intros a0 Ea _. inversion Ea; subst a0. unfold modeB, after_acq. simpl.
                       destruct todo as [|z todo']; simpl.
                       { split; [|exact Eacq]. exists 0. simpl. rewrite Hit, Ems. reflexivity. }
                       { split; [exact Ems | exact Eacq]. }
                   --- intros a0 todo0 _ _. exact Hit.
                   --- intros _ H. discriminate H.
             ++ (* blocked *)
                eapply sinv_update with (msk := msk) (msk' := msk); try eassumption.
                ** intros H Hoth. apply A. intros t Nt. destruct (Nat.eq_dec t tid) as [->|D].
                   { unfold held. rewrite Ec. exact H. } { apply Hoth; assumption. }
                ** intros a0 Ea Hh. inversion Ea; subst a0. apply (B tid _ E0 Ec Hh).
                ** intros a0 todo0 _ _. exact Hit.
                ** intros _ _. repeat split; reflexivity.
          -- (* entering the ident manager *)
             simpl. intro HI'.
             assert (hd <> []) as Hhd.
             { intro E. subst hd. simpl in Hpre. rewrite Hc0 in Hpre. discriminate. }
             destruct hd as [|y h]; [congruence|]. simpl.
             pose proof (B tid _ E0 Ec) as Bt. simpl in Bt. unfold modeB in Bt. simpl in Bt.
             destruct Bt as [Ems Eacq]; [discriminate|].
             eapply sinv_update with (msk := msk) (msk' := msk); try eassumption.
             ++ intros H _. discriminate H.
             ++ intros a0 Ea _. inversion Ea; subst a0. unfold modeB, after_acq. simpl.
                destruct todo as [|z todo']; simpl.
                { split; [|exact Eacq]. exists 0. simpl. rewrite Hit, Ems. reflexivity. }
                { split; [exact Ems | exact Eacq]. }
             ++ intros a0 todo0 _ _. exact Hit.
             ++ intros _ H. discriminate H.
        * (* a segment of the top-level call *)
          destruct Hsh as [Hpre _].
          assert (hd <> []) as Hhd.
          { intro E. subst hd. simpl in Hpre. rewrite Hc0 in Hpre. discriminate. }
          assert (g_ident g = tid) as Hidt.
          { apply Hid. apply in_rev. rewrite Hpre. exact Hident. }
          pose proof (B tid _ E0 Ec) as Bt. simpl in Bt. unfold modeB in Bt. simpl in Bt.
          destruct Bt as [[n Hn] Eacq]; [exact Hhd|]. rewrite En in Hn.
          destruct hd as [|y h]; [congruence|]. unfold kstack in Hn. simpl in Hn.
          pose proof (seq_iter_snoc _ _ _ _ _ Hn) as Hn'. unfold seq_step in Hn'.
          destruct (resume k (g_ms g)) as [[ms' its] st]. destruct st as [k'|c' k'|r]; simpl; intro HI'.
          -- eapply sinv_update with (msk := msk) (msk' := msk); try eassumption.
             ++ intros H _. unfold cur_held in H. simpl in H. congruence.
             ++ intros a0 Ea _. inversion Ea; subst a0. unfold modeB. simpl. split; [|exact Eacq].
                exists (S n). exact Hn'.
             ++ intros a0 todo0 Ea Ep. inversion Ea; subst a0. discriminate Ep.
             ++ intros H _. unfold held in H. rewrite Ec in H. simpl in H. congruence.
          -- eapply sinv_update with (msk := msk) (msk' := msk); try eassumption.
             ++ intros H _. unfold cur_held in H. simpl in H. congruence.
             ++ intros a0 Ea _. inversion Ea; subst a0. unfold modeB. simpl. split; [|exact Eacq].
                exists (S n). rewrite Hn'. unfold kstack, enter_call. rewrite Hidt, Nat.eqb_refl. reflexivity.
             ++ intros a0 todo0 Ea Ep. inversion Ea; subst a0. discriminate Ep.
             ++ intros H _. unfold held in H. rewrite Ec in H. simpl in H. congruence.
          -- eapply sinv_update with (msk := msk) (msk' := ms'); try eassumption.
             ++ rewrite dcalls_snoc, dress_snoc. simpl. eapply serial_exec_snoc; [exact Hser | exact Hn'].
             ++ intros H _. discriminate H.
             ++ intros a0 Ea _. inversion Ea; subst a0. unfold modeB. simpl. split; [reflexivity|].
                rewrite dpairs_snoc. exact Eacq.
             ++ intros a0 todo0 Ea Ep. inversion Ea; subst a0. discriminate Ep.
             ++ intros H _. unfold held in H. rewrite Ec in H. discriminate H.
        * (* leaving the contexts *)
          destruct Hsh as [_ [Hne _]]. destruct hd as [|x h]; [congruence|].
          pose proof (B tid _ E0 Ec) as Bt. simpl in Bt. unfold modeB in Bt. simpl in Bt.
          destruct Bt as [Ems Eacq]; [discriminate|].
          destruct h as [|y h']; simpl; intro HI'.
          -- eapply sinv_update with (msk := msk) (msk' := msk); try eassumption.
             ++ intros _ _. split; assumption.
             ++ intros a0 Ea _. discriminate Ea.
             ++ intros a0 todo0 Ea _. discriminate Ea.
             ++ intros H _. unfold held in H. rewrite Ec in H. discriminate H.
          -- eapply sinv_update with (msk := msk) (msk' := msk); try eassumption.
             ++ intros H _. discriminate H.
             ++ intros a0 Ea _. inversion Ea; subst a0. unfold modeB. simpl. split; assumption.
             ++ intros a0 todo0 Ea Ep. inversion Ea; subst a0. discriminate Ep.
             ++ intros H _. unfold held in H. rewrite Ec in H. discriminate H.
      + destruct (t_prog (g_th g tid)) as [|c rest] eqn:Ep.
        { intros _. exists msk. split; [exact Hser | split; [exact A | split; [exact B | exact C]]]. }
        intro HI'.
        assert (Nat.eqb (g_ident g) tid = false) as Hni.
        { apply Nat.eqb_neq. intro E. apply Hid in E. exact E. }
        assert (exists tl, ctxs_of reg cfg (g_ms g) c = CLock (L0 cfg) :: tl) as [tl Hc].
        { pose proof (proj1 HI' tid E0) as Hs'. simpl in Hs'. rewrite upd_same in Hs'. unfold shape in Hs'. simpl in Hs'.
          unfold enter_call in Hs'. rewrite Hni in Hs'.
          destruct (ctxs_of reg cfg (g_ms g) c) as [|x0 r0] eqn:Ecs; simpl in Hs'.
          - destruct Hs' as [[[tl1 [Hx _]] _] _]. discriminate Hx.
          - destruct Hs' as [[[tl1 [Hx _]] _] _]. inversion Hx. eexists. reflexivity. }
        eapply sinv_update with (msk := msk) (msk' := msk); try eassumption.
        * intros _ Hoth. apply A. intros t Nt. destruct (Nat.eq_dec t tid) as [->|D].
          { unfold held. rewrite Ec. reflexivity. } { apply Hoth; assumption. }
        * intros a0 Ea Hh. exfalso. apply Hh. inversion Ea; subst a0. unfold enter_call. rewrite Hni, Hc. reflexivity.
        * intros a0 todo0 _ _. reflexivity.
        * intros _ _. repeat split; reflexivity.
    - (* a segment of a nested call *)
      destruct (t_cur (g_th g tid)) as [a|] eqn:Ec; [|discriminate].
      destruct Hsh as [Hgood Hsh].
      destruct (a_phase a) as [todo|k0|r0] eqn:Eph; try (destruct Hsh as [_ [_ Hsh]]; discriminate).
      destruct Hsh as [Hpre Hlf]. inversion Hlf as [|top' restn' [Hth [k Hk]] Hrest]; subst top' restn'.
      assert (g_ident g = tid) as Hidt.
      { apply Hid. apply in_rev. rewrite Hpre. apply Hgood. }
      assert (a_held a <> []) as Hhd.
      { intro E. rewrite E in Hpre. simpl in Hpre. destruct (proj1 Hgood) as [tl [Hc _]]. rewrite Hc in Hpre. discriminate. }
      pose proof (B tid _ E0 Ec Hhd) as Bt. unfold modeB in Bt. rewrite Eph in Bt.
      destruct Bt as [[n Hn] Eacq]. rewrite En in Hn.
      destruct top as [c ph hd acx]. simpl in Hth, Hk. subst hd ph. unfold kstack in Hn. simpl in Hn. unfold act_k at 1 in Hn. simpl in Hn.
      pose proof (seq_iter_snoc _ _ _ _ _ Hn) as Hn'. unfold seq_step in Hn'.
      unfold act_step. simpl.
      destruct (resume k (g_ms g)) as [[ms' its] st]. destruct st as [k'|c' k'|r]; simpl.
      + intro HI'. eapply sinv_update with (msk := msk) (msk' := msk); try eassumption.
        * intros H _. unfold cur_held in H. simpl in H. congruence.
        * intros a0 Ea _. inversion Ea; subst a0. unfold modeB. rewrite Eph. simpl. split; [|exact Eacq].
          exists (S n). exact Hn'.
        * intros a0 todo0 Ea Ep. inversion Ea; subst a0. congruence.
        * intros H _. unfold held in H. rewrite Ec in H. congruence.
      + intro HI'. eapply sinv_update with (msk := msk) (msk' := msk); try eassumption.
        * intros H _. unfold cur_held in H. simpl in H. congruence.
        * intros a0 Ea _. inversion Ea; subst a0. unfold modeB. rewrite Eph. simpl. split; [|exact Eacq].
          exists (S n). rewrite Hn'. unfold kstack, enter_call. rewrite Hidt, Nat.eqb_refl. reflexivity.
        * intros a0 todo0 Ea Ep. inversion Ea; subst a0. congruence.
        * intros H _. unfold held in H. rewrite Ec in H. congruence.
      + destruct restn as [|p restn']; simpl; intro HI'.
        * simpl in Hn'.
          eapply sinv_update with (msk := msk) (msk' := msk); try eassumption.
          -- intros H _. unfold cur_held, deliver in H. simpl in H. rewrite Eph in H. simpl in H. congruence.
          -- intros a0 Ea _. simpl in Ea. inversion Ea; subst a0. unfold modeB, deliver. rewrite Eph. simpl.
             split; [|exact Eacq]. exists (S n). exact Hn'.
          -- intros a0 todo0 Ea Ep. simpl in Ea. inversion Ea; subst a0. unfold deliver in Ep. rewrite Eph in Ep. discriminate Ep.
          -- intros H _. unfold held in H. rewrite Ec in H. congruence.
        * inversion Hrest as [|p' r' [Hp1 [kp Hp2]] Hr']; subst p' r'.
          remember (siter (S n) (Running [start (a_call a)] msk [])) as LHS eqn:EL in Hn'.
          simpl in Hn'. rewrite Hp2 in Hn'. simpl in Hn'. subst LHS.
          eapply sinv_update with (msk := msk) (msk' := msk); try eassumption.
          -- intros H _. unfold cur_held in H. simpl in H. congruence.
          -- intros a0 Ea _. inversion Ea; subst a0. unfold modeB. rewrite Eph. simpl. split; [|exact Eacq].
             exists (S n). rewrite Hn'. unfold kstack. simpl. unfold act_k at 1, deliver. rewrite Hp2. reflexivity.
          -- intros a0 todo0 Ea Ep. inversion Ea; subst a0. congruence.
          -- intros H _. unfold held in H. rewrite Ec in H. congruence.
  Qed.

  Lemma init_sinv : forall progs, SInv (init progs ms0 : gst).
  Proof.
    intro progs. exists ms0. split; [constructor|]. split; [|split].
    - intros _. split; reflexivity.
    - intros t a N Ec. discriminate Ec.
    - intros t a todo N Ec. discriminate Ec.
  Qed.

  Lemma run_both : forall sched (g : gst), Inv g -> SInv g ->
    g_bad (run start resume ret reg cfail xfail r_refused r_exit cfg sched g) = false ->
    Inv (run start resume ret reg cfail xfail r_refused r_exit cfg sched g) /\ SInv (run start resume ret reg cfail xfail r_refused r_exit cfg sched g).
  Proof.
    induction sched as [|t r IH]; intros g H1 H2 Hb; simpl in *; [split; assumption|].
    assert (g_bad (stp t g) = false) as Hb1.
    { destruct (g_bad (stp t g)) eqn:E; [|reflexivity]. rewrite (run_bad_mono r _ E) in Hb. discriminate. }
    apply IH; [apply step_inv | apply step_sinv | exact Hb]; assumption.
  Qed.

  (* reachable within the envelope: the ghost flag is still down *)
  Definition reachable (progs : nat -> list call) (g : gst) : Prop :=
    exists sched, g = run start resume ret reg cfail xfail r_refused r_exit cfg sched (init progs ms0) /\ g_bad g = false.

  Lemma reachable_inv : forall progs g, reachable progs g -> Inv g /\ SInv g.
  Proof. intros progs g [sched [-> Hb]]. apply run_both; [apply init_inv | apply init_sinv | exact Hb]. Qed.

  Lemma serial_final : forall progs g, reachable progs g ->
    exists msk, sexec (dcalls (g_done g)) ms0 msk (dress (g_done g)) /\
      ((forall t, t <> 0 -> t_cur (g_th g t) = None) -> g_ms g = msk /\ g_acq g = dpairs (g_done g)).
  Proof.
    intros progs g Hr. destruct (reachable_inv progs g Hr) as [_ [msk [Hser [A _]]]].
    exists msk. split; [exact Hser|]. intro Hall. apply A. intros t N. unfold held. rewrite (Hall t N). reflexivity.
  Qed.

  (* while a call is being processed the order of acquisition is: completed calls, then this one *)
  Lemma serial_mid : forall progs g t a k, reachable progs g -> t <> 0 ->
    t_cur (g_th g t) = Some a -> a_phase a = PRun k ->
    exists msk n, sexec (dcalls (g_done g)) ms0 msk (dress (g_done g)) /\
      siter n (Running [start (a_call a)] msk []) = Running (kstack (t_nest (g_th g t)) k) (g_ms g) (t_items (g_th g t)) /\
      g_acq g = dpairs (g_done g) ++ [(t, a_call a)].
  Proof.
    intros progs g t a k Hr N Ec Ep. destruct (reachable_inv progs g Hr) as [HI [msk [Hser [_ [B _]]]]].
    assert (a_held a <> []) as Hh.
    { pose proof (running_held_ne g t a k HI N Ec Ep) as H. unfold held in H. rewrite Ec in H. exact H. }
    pose proof (B t a N Ec Hh) as Bt. unfold modeB in Bt. rewrite Ep in Bt. destruct Bt as [[n Hn] Eacq].
    exists msk, n. split; [exact Hser | split; [exact Hn | exact Eacq]].
  Qed.

  (* ---------------------------------------------------------------- "the same calls" *)
  Notation fentry := (nat * call * bool)%type.
  Definition tcalls (t : nat) (fin : list fentry) : list call :=
    map (fun x : fentry => snd (fst x)) (filter (fun x : fentry => Nat.eqb (fst (fst x)) t) fin).
  Definition processed (fin : list fentry) : list (nat * call) :=
    map (fun x : fentry => fst x) (filter (fun x : fentry => snd x) fin).

  Definition pend (th : thr) : list call :=
    match t_cur th with
    | Some a => match a_phase a with PRel _ => [] | _ => [a_call a] end
    | None => []
    end.

  (* per thread: its program = its finished calls (processed or refused by a context, in order) ++ the one in
     progress ++ the rest; the processed ones are exactly the completed calls of the serial execution *)
  Definition PInv (progs : nat -> list call) (g : gst) : Prop :=
    (forall t, t <> 0 -> progs t = tcalls t (g_fin g) ++ pend (g_th g t) ++ t_prog (g_th g t)) /\
    dpairs (g_done g) = processed (g_fin g).

  Lemma tcalls_snoc : forall t fin x,
    tcalls t (fin ++ [x]) = if Nat.eqb (fst (fst x)) t then tcalls t fin ++ [snd (fst x)] else tcalls t fin.
  Proof.
    intros t fin x. unfold tcalls. rewrite filter_app. simpl. destruct (Nat.eqb (fst (fst x)) t).
    - rewrite map_app. reflexivity.
    - rewrite app_nil_r. reflexivity.
  Qed.

  Lemma processed_snoc : forall fin x,
    processed (fin ++ [x]) = if snd x then processed fin ++ [fst x] else processed fin.
  Proof.
    intros fin x. unfold processed. rewrite filter_app. simpl. destruct (snd x).
    - rewrite map_app. reflexivity.
    - rewrite app_nil_r. reflexivity.
  Qed.

  Lemma pinv_update : forall progs (g : gst) tid th' ms' own' id' log' acq' done' bad' fin',
    PInv progs g -> tid <> 0 ->
    ((done' = g_done g /\ fin' = g_fin g /\
      pend th' ++ t_prog th' = pend (g_th g tid) ++ t_prog (g_th g tid)) \/
     (exists x, done' = g_done g ++ [x] /\ fin' = g_fin g ++ [(tid, d_call x, true)] /\ d_tid x = tid /\
                d_call x :: pend th' ++ t_prog th' = pend (g_th g tid) ++ t_prog (g_th g tid)) \/
     (exists c, done' = g_done g /\ fin' = g_fin g ++ [(tid, c, false)] /\
                c :: pend th' ++ t_prog th' = pend (g_th g tid) ++ t_prog (g_th g tid))) ->
    PInv progs (mkG ms' own' id' (upd (g_th g) tid th') log' acq' done' bad' fin').
  Proof.
    intros progs g tid th' ms' own' id' log' acq' done' bad' fin' [H HD] N Hc. split.
    - intros t Nt. simpl. destruct (Nat.eq_dec t tid) as [->|D].
      + rewrite upd_same. rewrite (H tid N). destruct Hc as [[_ [-> E]]|[[x [_ [-> [Ex E]]]]|[c [_ [-> E]]]]].
        * rewrite E. reflexivity.
        * rewrite tcalls_snoc. simpl. rewrite Nat.eqb_refl. rewrite <- app_assoc. simpl. rewrite E. reflexivity.
        * rewrite tcalls_snoc. simpl. rewrite Nat.eqb_refl. rewrite <- app_assoc. simpl. rewrite E. reflexivity.
      + rewrite upd_other by exact D. rewrite (H t Nt).
        destruct Hc as [[_ [-> _]]|[[x [_ [-> _]]]|[c [_ [-> _]]]]]; [reflexivity| |];
          rewrite tcalls_snoc; simpl; apply Nat.eqb_neq in D; rewrite Nat.eqb_sym, D; reflexivity.
    - simpl. destruct Hc as [[-> [-> _]]|[[x [-> [-> [Ex _]]]]|[c [-> [-> _]]]]].
      + exact HD.
      + rewrite dpairs_snoc, processed_snoc. simpl. rewrite HD, Ex. reflexivity.
      + rewrite processed_snoc. simpl. exact HD.
  Qed.

  Ltac pv_same H E0 Ec := apply pinv_update; [exact H | exact E0|]; left; unfold pend; simpl; try rewrite Ec;
                          repeat split; try reflexivity.

  Lemma step_pinv : forall progs tid (g : gst), PInv progs g -> PInv progs (stp tid g).
  Proof.
    intros progs tid g H. unfold step. destruct (Nat.eqb tid 0) eqn:E0; [exact H|]. apply Nat.eqb_neq in E0.
    destruct (t_nest (g_th g tid)) as [|top restn] eqn:En.
    - destruct (t_cur (g_th g tid)) as [a|] eqn:Ec.
      + destruct a as [c ph hd acx]. unfold act_step. simpl. destruct ph as [todo|k|r].
        * destruct todo as [|x todo]; [simpl; pv_same H E0 Ec|].
          destruct x as [l|].
          -- destruct (cfail c (CLock l)).
             { destruct hd as [|y h]; simpl; (apply pinv_update; [exact H | exact E0|]); right; right; exists c;
                 unfold pend; simpl; rewrite Ec; repeat split; reflexivity. }
             destruct (Nat.eqb (g_own g l) 0); simpl; [unfold after_acq; destruct todo; simpl|]; pv_same H E0 Ec.
          -- unfold after_acq; destruct todo; simpl; pv_same H E0 Ec.
        * destruct (resume k (g_ms g)) as [[ms' its] st]. destruct st as [k'|c' k'|r]; simpl; try pv_same H E0 Ec.
          destruct hd as [|y h]; simpl; (apply pinv_update; [exact H | exact E0|]); right; left; eexists;
            unfold pend; simpl; rewrite Ec; repeat split; reflexivity.
        * destruct hd as [|x h]; simpl; [pv_same H E0 Ec|].
          destruct h as [|y h']; simpl; pv_same H E0 Ec.
      + destruct (t_prog (g_th g tid)) as [|c rest] eqn:Ep; [exact H|].
        apply pinv_update; [exact H | exact E0|]. left. split; [reflexivity|]. split; [reflexivity|].
        unfold pend. simpl. rewrite Ec, Ep. unfold enter_call.
        destruct (Nat.eqb (g_ident g) tid); [reflexivity|]. destruct (ctxs_of reg cfg (g_ms g) c); reflexivity.
    - match goal with |- context [act_step ?a ?b ?c ?d ?e ?f ?g1 ?h ?i ?j ?k] =>
        destruct (act_step a b c d e f g1 h i j k) as [[s' o] its] end.
      destruct o as [a'|a' b bd|r|].
      + apply pinv_update; [exact H | exact E0|]. left. repeat split; reflexivity.
      + apply pinv_update; [exact H | exact E0|]. left. repeat split; reflexivity.
      + destruct restn as [|p restn'].
        * apply pinv_update; [exact H | exact E0|]. left. split; [reflexivity|]. split; [reflexivity|].
          unfold pend. simpl. destruct (t_cur (g_th g tid)) as [a|]; [|reflexivity].
          simpl. unfold deliver. destruct (a_phase a) eqn:Eph; simpl; rewrite ?Eph; reflexivity.
        * apply pinv_update; [exact H | exact E0|]. left. repeat split; reflexivity.
      + apply pinv_update; [exact H | exact E0|]. left. repeat split; reflexivity.
  Qed.

  Lemma init_pinv : forall progs, PInv progs (init progs ms0 : gst).
  Proof. intros progs. split; [intros t N; reflexivity | reflexivity]. Qed.

  Lemma run_pinv : forall progs sched (g : gst), PInv progs g ->
    PInv progs (run start resume ret reg cfail xfail r_refused r_exit cfg sched g).
  Proof.
    intros progs. induction sched as [|t r IH]; intros g H; simpl; [exact H|]. apply IH. apply step_pinv. exact H.
  Qed.

  (* ---------------------------------------------------------------- what a_ctxs is *)
  (* the step that starts a top-level call reads the context list from the machine state of that moment
     (the unlocked read of model_context_map next to the read of ident.current) *)
  Lemma entry_reads_configuration : forall (g : gst) tid c rest,
    tid <> 0 -> t_nest (g_th g tid) = [] -> t_cur (g_th g tid) = None -> t_prog (g_th g tid) = c :: rest ->
    g_ident g <> tid -> ctxs_of reg cfg (g_ms g) c <> [] ->
    t_cur (g_th (stp tid g) tid) =
      Some (mkAct c (PAcq (ctxs_of reg cfg (g_ms g) c)) [] (ctxs_of reg cfg (g_ms g) c)) /\
    (cfg_hier cfg = false -> ctxs_of reg cfg (g_ms g) c = ctxs_spec reg cfg (g_ms g) c).
  Proof.
    intros g tid c rest N En Ec Ep Hi Hne. split.
    - unfold step. apply Nat.eqb_neq in N. rewrite N, En, Ec, Ep. simpl. rewrite upd_same. simpl.
      unfold enter_call. apply Nat.eqb_neq in Hi. rewrite Hi.
      destruct (ctxs_of reg cfg (g_ms g) c); [congruence | reflexivity].
    - intro Hf. apply ctxs_of_flat; assumption.
  Qed.

  (* ... and no later step changes the call or the list of the activation in progress *)
  Lemma a_ctxs_stable : forall (g : gst) tid t a, t_cur (g_th g t) = Some a ->
    match t_cur (g_th (stp tid g) t) with
    | Some a' => a_call a' = a_call a /\ a_ctxs a' = a_ctxs a
    | None => True
    end.
  Proof.
    intros g tid t a Ea. unfold step. destruct (Nat.eqb tid 0) eqn:E0; [rewrite Ea; split; reflexivity|].
    destruct (Nat.eq_dec t tid) as [->|D].
    2:{ destruct (t_nest (g_th g tid)) as [|top restn].
        - destruct (t_cur (g_th g tid)) as [b|].
          + destruct (act_step start resume reg cfail xfail r_refused r_exit cfg tid b _) as [[s' o] its].
            destruct o; simpl; rewrite upd_other by exact D; rewrite Ea; split; reflexivity.
          + destruct (t_prog (g_th g tid)); simpl; [|rewrite upd_other by exact D]; rewrite Ea; split; reflexivity.
        - destruct (act_step start resume reg cfail xfail r_refused r_exit cfg tid top _) as [[s' o] its].
          destruct o; [| |destruct restn|]; simpl; rewrite upd_other by exact D; rewrite Ea; split; reflexivity. }
    destruct (t_nest (g_th g tid)) as [|top restn].
    - rewrite Ea. destruct a as [c ph hd acx]. unfold act_step. simpl. destruct ph as [todo|k|r].
      + destruct todo as [|x todo]; [simpl; rewrite upd_same; simpl; split; reflexivity|].
        destruct x as [l|]; [destruct (cfail c (CLock l)); [destruct hd|destruct (Nat.eqb (g_own g l) 0)]|];
          simpl; rewrite upd_same; simpl; try exact Logic.I; split; reflexivity.
      + destruct (resume k (g_ms g)) as [[ms' its] st]. destruct st as [k'|c' k'|r]; simpl;
          try (rewrite upd_same; simpl; split; reflexivity).
        destruct hd; simpl; rewrite upd_same; simpl; [exact Logic.I | split; reflexivity].
      + destruct hd as [|x h]; simpl; [rewrite upd_same; simpl; exact Logic.I|].
        destruct h; simpl; rewrite upd_same; simpl; [exact Logic.I | split; reflexivity].
    - destruct (act_step start resume reg cfail xfail r_refused r_exit cfg tid top _) as [[s' o] its].
      destruct o; [| |destruct restn|]; simpl; rewrite upd_same; simpl; rewrite Ea; simpl;
        try (split; reflexivity).
      unfold deliver. destruct (a_phase a); split; reflexivity.
  Qed.

  (* ---------------------------------------------------------------- statements used by Props/C06.v *)
  Section Final.
  Variable progs : nat -> list call.
  Notation reach := (reachable progs).

  Lemma c06_invariant : forall sched, g_bad (run start resume ret reg cfail xfail r_refused r_exit cfg sched (init progs ms0)) = false ->
    Inv (run start resume ret reg cfail xfail r_refused r_exit cfg sched (init progs ms0)).
  Proof. intros sched Hb. apply run_inv; [apply init_inv | exact Hb]. Qed.

  Lemma c06_mutex : forall g t1 t2, reach g -> t1 <> 0 -> t2 <> 0 ->
    (held g t1 <> [] -> held g t2 <> [] -> t1 = t2) /\
    (in_segment g t1 -> in_segment g t2 -> t1 = t2) /\
    (in_segment g t1 -> g_own g (L0 cfg) = t1 /\ g_ident g = t1).
  Proof.
    intros g t1 t2 Hr N1 N2. destruct (reachable_inv progs g Hr) as [HI _].
    split; [|split].
    - apply mutex_held; assumption.
    - apply segment_mutex; assumption.
    - intro S. split; [|apply (running_ident g t1 HI N1 S)].
      destruct (in_segment_running g t1 HI N1 S) as [a [k [Ec [Ep [_ Hg]]]]].
      apply (running_holds_all g t1 a k HI N1 Ec Ep (CLock (L0 cfg))).
      destruct (proj1 Hg) as [tl [Hc _]]. rewrite Hc. left. reflexivity.
  Qed.

  Lemma c06_reentrant : forall g tid a k ms' its c' k', reach g -> tid <> 0 ->
    top_act (g_th g tid) = Some a -> a_phase a = PRun k ->
    resume k (g_ms g) = (ms', its, SCall c' k') ->
    let g' := stp tid g in
    (forall l, g_own g' l = g_own g l) /\ g_ident g' = g_ident g /\
    top_act (g_th g' tid) = Some (mkAct c' (PRun (start c')) [] []) /\
    blocked g' tid = false /\
    g_log g' = g_log g ++ [EvSeg tid (a_call a) its].
  Proof.
    intros g tid a k ms' its c' k' Hr. destruct (reachable_inv progs g Hr) as [HI _].
    apply reentrant; assumption.
  Qed.

  Lemma c06_reentrant_never_blocked : forall g t, reach g -> t <> 0 ->
    t_nest (g_th g t) <> [] -> blocked g t = false.
  Proof.
    intros g t Hr. destruct (reachable_inv progs g Hr) as [HI _]. apply nested_not_blocked; assumption.
  Qed.

  Lemma c06_contexts_held_code : forall g t a k, reach g -> t <> 0 ->
    t_cur (g_th g t) = Some a -> a_phase a = PRun k ->
    rev (a_held a) = a_ctxs a /\
    forall x, In x (a_ctxs a) -> holds g t x.
  Proof.
    intros g t a k Hr N Ec Ep. destruct (reachable_inv progs g Hr) as [HI _]. split.
    - apply (running_shape g t a k HI N Ec Ep).
    - apply (running_holds_all g t a k HI N Ec Ep).
  Qed.

  Lemma c06_contexts_order : forall g t a, reach g -> t <> 0 -> t_cur (g_th g t) = Some a ->
    exists suf, rev (a_held a) ++ suf = a_ctxs a.
  Proof.
    intros g t a Hr N Ec. destruct (reachable_inv progs g Hr) as [HI _].
    apply (shape_prefix (g_th g t) a (proj1 HI t N) Ec).
  Qed.

  Lemma c06_contexts_released : forall g t, reach g -> t <> 0 -> t_cur (g_th g t) = None ->
    forall x, ~ holds g t x.
  Proof.
    intros g t Hr N Ec. destruct (reachable_inv progs g Hr) as [HI _]. apply idle_holds_nothing; assumption.
  Qed.

  (* when a thread has finished, the calls it completed are exactly its program, in program order *)
  Lemma c06_same_calls : forall g t, reach g -> t <> 0 ->
    progs t = tcalls t (g_fin g) ++ pend (g_th g t) ++ t_prog (g_th g t) /\
    (thread_done (g_th g t) = true -> tcalls t (g_fin g) = progs t) /\
    dpairs (g_done g) = processed (g_fin g).
  Proof.
    intros g t [sched [-> _]] N.
    destruct (run_pinv progs sched _ (init_pinv progs)) as [HP HD].
    pose proof (HP t N) as H. split; [exact H|]. split; [|exact HD].
    intro Hd. rewrite H. unfold thread_done in Hd. unfold pend.
    destruct (t_prog (g_th _ t)); [|discriminate]. destruct (t_cur (g_th _ t)); [discriminate|].
    simpl. rewrite !app_nil_r. reflexivity.
  Qed.

  Lemma c06_progress : forall g, reach g ->
    (exists t, t <> 0 /\ thread_done (g_th g t) = false) -> exists t', enabled g t' = true.
  Proof.
    intros g Hr. destruct (reachable_inv progs g Hr) as [HI _]. apply progress; assumption.
  Qed.
  End Final.
End Proto.

(* ------------------------------------------------------------------ the macro steps of the correspondence
   runner (Model/LockIO.v) are ordinary schedules, so every theorem above covers what the harness runs *)
From M Require Import LockIO.

Lemma macro_go_is_run : forall tab fails cfg fuel first t (g : cgstate),
  exists j, macro_go tab fails cfg fuel first t g =
            run (c_start tab) (c_resume tab) c_ret c_reg (fail_at fails 1) (fail_at fails 2) c_refused c_exit cfg (repeat t j) g.
Proof.
  intros tab fails cfg. induction fuel as [|f IH]; intros first t g; simpl.
  - exists 0. reflexivity.
  - destruct (thread_done (g_th g t)); [exists 0; reflexivity|].
    destruct (first || negb (next_visible (g_th g t))); [|exists 0; reflexivity].
    destruct (blocked (fail_at fails 1) g t).
    + exists 1. reflexivity.
    + destruct (IH false t (cstep tab fails cfg t g)) as [j Hj]. exists (S j). simpl. exact Hj.
Qed.

Lemma macro_run_is_run : forall tab fails cfg msched (g : cgstate),
  exists sched, macro_run tab fails cfg msched g =
                run (c_start tab) (c_resume tab) c_ret c_reg (fail_at fails 1) (fail_at fails 2) c_refused c_exit cfg sched g.
Proof.
  intros tab fails cfg. induction msched as [|t r IH]; intro g; simpl.
  - exists []. reflexivity.
  - unfold macro_step. destruct (Nat.eqb t 0).
    + apply IH.
    + destruct (macro_go_is_run tab fails cfg 60 true t g) as [j Hj].
      destruct (IH (macro_go tab fails cfg 60 true t g)) as [s Hs].
      exists (repeat t j ++ s). rewrite Hs, Hj. unfold run. rewrite fold_left_app. reflexivity.
Qed.
