(* FlatMay.v — C12 for the flat engine: may_<event> in closed form, its purity and agreement with the trigger. *)
From Coq Require Import List Arith Bool Lia.
From M Require Import Base Flat FlatSpec.
From P Require Import FlatP FlatOrder.
Import ListNotations.

(* a deterministic environment: a callback's reply does not depend on when it is invoked *)
Definition det (ev : env) : Prop := forall cb p q, ev cb p = ev cb q.

Section May.
  Variable mc : machine.
  Variable ev : env.
  Variable c : ctx.
  Notation ids := (fun s : state => s).

  Ltac norm := repeat (rewrite ?Nat.add_0_r, ?app_nil_r, ?app_length, ?(items_length ev c), ?Nat.add_assoc, <- ?app_assoc; cbn [length app]).
  Ltac poseq := repeat (reflexivity || (f_equal; try lia)).
  Ltac nr := (eapply nrf_mono; [eassumption | lia]).
  Ltac rw := repeat (cbv beta iota zeta; rewrite ?(run_cbs_ok ev c) by nr).

  (* whether all checks of a transition pass, as a function of the (deterministic) valuation *)
  Definition passes (t : trans) : bool :=
    forallb (fun ct => Bool.eqb (r_ret (ev (fst ct) 0)) (snd ct)) (t_conds t).

  Lemma cond_items_passes st conds p : det ev ->
    snd (cond_items ev c st conds p) = forallb (fun ct => Bool.eqb (r_ret (ev (fst ct) 0)) (snd ct)) conds.
  Proof.
    intros D. revert p; induction conds as [|[cb tg] r IH]; intros p; cbn [cond_items forallb fst snd]; [reflexivity|].
    rewrite (D cb p 0). destruct (Bool.eqb (r_ret (ev cb 0)) tg); [|reflexivity].
    specialize (IH (S p)). destruct (cond_items ev c st r (S p)). cbn [snd andb] in *. exact IH.
  Qed.

  Lemma scan_chosen st cands p : det ev ->
    match snd (scan ev c st cands p) with Some _ => true | None => false end = existsb passes cands.
  Proof.
    intros D. revert p; induction cands as [|t r IH]; intros p; cbn [scan existsb]; [reflexivity|].
    pose proof (cond_items_passes st (t_conds t) (p + length (items ev c SPrepare None st (t_prepare t) p)) D) as H.
    destruct (cond_items ev c st (t_conds t) _) as [ci ok]. cbn [snd] in H. unfold passes at 1. rewrite <- H.
    destruct ok; [reflexivity|]. cbn [orb].
    specialize (IH (p + length (items ev c SPrepare None st (t_prepare t) p) + length ci)).
    destruct (scan ev c st r _). cbn [snd] in *. exact IH.
  Qed.

  Lemma may_scan_result st cands p : det ev ->
    snd (may_scan mc ev c st cands p) = existsb passes cands.
  Proof.
    intros D. revert p; induction cands as [|t r IH]; intros p; cbn [may_scan existsb]; [reflexivity|].
    match goal with |- context [cond_items ev c st (t_conds t) ?q] =>
      pose proof (cond_items_passes st (t_conds t) q D) as H; destruct (cond_items ev c st (t_conds t) q) as [ci ok] end.
    cbn [snd] in H. unfold passes at 1. rewrite <- H.
    destruct ok; [reflexivity|]. cbn [orb].
    match goal with |- context [may_scan mc ev c st r ?q] => specialize (IH q); destruct (may_scan mc ev c st r q) end.
    cbn [snd] in *. exact IH.
  Qed.

  Lemma spec_step_result ts cur p : det ev ->
    snd (spec_step mc ev c ts cur p) = existsb passes (candidates ts cur).
  Proof.
    intros D. unfold spec_step, spec_body.
    match goal with |- context [scan ev c cur (candidates ts cur) ?q] =>
      pose proof (scan_chosen cur (candidates ts cur) q D) as H; destruct (scan ev c cur (candidates ts cur) q) as [sc ch] end.
    cbn [snd] in H. rewrite <- H. destruct ch as [t|].
    - destruct (body mc ev c cur t _). reflexivity.
    - reflexivity.
  Qed.

  (* can_loop in closed form *)
  Lemma can_loop_ok cands p s : no_raise_from ev p ->
    (forall t, In t cands -> dst_registered mc t = true) ->
    can_loop mc ev c cands p s =
      (fst (may_scan mc ev c s cands p), s, inr (snd (may_scan mc ev c s cands p))).
  Proof.
    intros NR W. revert p NR. induction cands as [|t r IH]; intros p NR; cbn [can_loop may_scan]; [reflexivity|].
    assert (DO: dest_ok mc t = true).
    { specialize (W t (or_introl eq_refl)). unfold dst_registered in W. unfold dest_ok. exact W. }
    rewrite DO. unfold bind, can_one, try_catch. unfold bind. rw.
    rewrite (eval_conds_ok ev c) by nr.
    match goal with |- context [cond_items ev c s (t_conds t) ?q] => destruct (cond_items ev c s (t_conds t) q) as [ci ok] eqn:E end.
    cbn [fst snd]. norm. destruct ok.
    - unfold ret. cbn [fst snd]. norm. poseq.
    - rewrite IH by (try nr; intros t' Ht'; apply W; now right).
      match goal with |- context [may_scan mc ev c s r ?q] => destruct (may_scan mc ev c s r q) as [rest b] eqn:E2 end.
      cbn [fst snd]. norm. poseq.
  Qed.
End May.

Section MayTop.
  Variable mc : machine.
  Variable ev : env.
  Variable c : ctx.

  Lemma wf_lookup e ts : wf_machine mc = true -> lookup (m_events mc) e = Some ts -> wf_trans mc ts = true.
  Proof.
    unfold wf_machine. generalize (m_events mc). intros l. induction l as [|[e' ts'] r IH]; cbn [lookup forallb]; [discriminate|].
    intros H L. apply andb_true_iff in H as [H1 H2]. destruct (Nat.eqb e e'); [injection L as <-; exact H1 | now apply IH].
  Qed.

  (* may_<event>() in closed form: only prepare-stage and condition items, state untouched *)
  Theorem may_pure e p cur : no_raise_from ev p ->
    registered mc cur = true -> wf_machine mc = true ->
    can_trigger mc ev c e p cur =
      match lookup (m_events mc) e with
      | Some ts => let r := may_scan mc ev c cur (candidates ts cur) p in (fst r, cur, inr (snd r))
      | None => ([], cur, inr false)
      end.
  Proof.
    intros NR Rc W. unfold can_trigger, bind, get. cbn [length app]. rewrite Nat.add_0_r.
    unfold registered in Rc. destruct (get_state mc cur) as [sd|]; [|discriminate].
    destruct (lookup (m_events mc) e) as [ts|] eqn:L; [|reflexivity].
    rewrite can_loop_ok; [reflexivity | assumption |].
    intros t Ht. eapply wf_candidates; [eapply wf_lookup; eassumption | eassumption].
  Qed.

  Definition executes {S} (r : list item * S * (exn + bool)) : bool :=
    match snd r with inr true => true | _ => false end.

  (* may_<event>() is True exactly when triggering the event right away executes a transition *)
  Theorem may_iff e p p' cur : no_raise_from ev p -> no_raise_from ev p' -> det ev ->
    registered mc cur = true -> wf_machine mc = true ->
    snd (can_trigger mc ev c e p cur) = inr (executes (trigger mc ev c e p' cur)).
  Proof.
    intros NR NR' D Rc W. rewrite may_pure by assumption. unfold trigger, executes.
    destruct (lookup (m_events mc) e) as [ts|] eqn:L.
    - cbv zeta. cbn [snd]. rewrite may_scan_result by assumption.
      destruct (candidates ts cur) as [|t0 r0] eqn:EC.
      + rewrite (trigger_event_invalid mc ev c ts p' cur NR' Rc EC). cbv zeta. cbn [snd existsb].
        unfold spec_invalid. destruct (ignores mc (sdef_of mc cur)); [reflexivity|].
        destruct (m_on_exception mc); reflexivity.
      + rewrite (trigger_event_valid mc ev c ts p' cur NR' Rc (wf_lookup e ts W L)) by congruence.
        cbv zeta. cbn [snd]. rewrite spec_step_result by assumption. rewrite EC.
        destruct (existsb (passes ev) (t0 :: r0)); reflexivity.
    - cbn [snd]. unfold bind, get. cbn [length app]. pose proof Rc as Rc'. unfold registered in Rc'.
      destruct (get_state mc cur) as [sd|]; [|discriminate].
      destruct (ignores mc sd); reflexivity.
  Qed.
End MayTop.
