(* NamingHP.v — lemmas for the hierarchical clauses of C11. *)
From Coq Require Import List Arith Bool Lia.
From M Require Import Base Flat Hsm HsmSpec NamingH.
From P Require Import HsmForest HsmResolve HsmOffer HsmInit.
Import ListNotations.

(* ------------------------------------------------------------------ leaves *)
Lemma in_leaves_cons f n r :
  In (n :: r) (leaves f) <->
  exists ch, In (Node n ch) f /\ ((ch = [] /\ r = []) \/ (ch <> [] /\ In r (leaves ch))).
Proof.
  unfold leaves. rewrite in_flat_map. split.
  - intros [[m ch] [Ht Hp]]. destruct ch as [|c cs].
    + cbn in Hp. destruct Hp as [Hp|[]]. injection Hp as -> <-. exists []. auto.
    + cbn [leaves_t] in Hp. apply in_map_iff in Hp as (q & Hq & Hq2). injection Hq as -> <-.
      exists (c :: cs). split; [exact Ht|]. right. split; [discriminate|exact Hq2].
  - intros (ch & Ht & [[-> ->]|[Hn Hr]]).
    + exists (Node n []). split; [exact Ht|]. cbn. auto.
    + exists (Node n ch). split; [exact Ht|]. destruct ch as [|c cs]; [congruence|].
      cbn [leaves_t]. apply in_map. exact Hr.
Qed.

Lemma nil_notin_leaves f : ~ In [] (leaves f).
Proof.
  unfold leaves. rewrite in_flat_map. intros [[m ch] [_ H]]. destruct ch as [|c cs].
  - cbn in H. destruct H as [H|[]]. discriminate.
  - cbn [leaves_t] in H. apply in_map_iff in H as (q & Hq & _). discriminate.
Qed.

(* under sibling-uniqueness: p is a leaf of the configuration iff nothing is active below it *)
Lemma sub_leaf_iff : forall p f, uniq f = true -> p <> [] -> (sub f p = Some [] <-> In p (leaves f)).
Proof.
  induction p as [|n r IH]; intros f U NE; [congruence|].
  rewrite in_leaves_cons. cbn [sub]. split.
  - destruct (f_get f n) as [ch|] eqn:G; [|discriminate]. intros S.
    exists ch. split; [apply f_get_In; exact G|].
    destruct r as [|m r'].
    + cbn in S. injection S as ->. auto.
    + right. assert (Uc : uniq ch = true) by (eapply uniq_child; [exact U|apply f_get_In; exact G]).
      split.
      * intros ->. cbn in S. discriminate.
      * apply IH; [exact Uc|discriminate|exact S].
  - intros (ch & Ht & H).
    assert (G : f_get f n = Some ch).
    { apply In_f_get; [|exact Ht]. unfold uniq in U. apply andb_true_iff in U. tauto. }
    rewrite G. destruct H as [[-> ->]|[Hn Hr]]; [reflexivity|].
    assert (Uc : uniq ch = true) by (eapply uniq_child; eauto).
    apply IH; [exact Uc| |exact Hr]. intros ->. eapply nil_notin_leaves; eauto.
Qed.

Lemma is_state_h_true f p : is_state_h f p true = active f p.
Proof. unfold is_state_h, active. destruct (sub f p) as [[|t g]|]; reflexivity. Qed.

Lemma is_state_h_false f p : is_state_h f p false = true <-> sub f p = Some [].
Proof.
  unfold is_state_h. destruct (sub f p) as [[|t g]|]; split; intros H; try reflexivity; try discriminate.
Qed.

(* allow_substates=False: exactly the active leaves *)
Lemma is_state_leaves f p : uniq f = true -> p <> [] ->
  (is_state_h f p false = true <-> In p (leaves f)).
Proof. intros U NE. rewrite is_state_h_false. apply sub_leaf_iff; assumption. Qed.

(* every forest has a leaf below any active path *)
Lemma leaf_below_t : forall t, exists q, sub [t] q = Some [] /\ q <> [].
Proof.
  apply tree_ind2. intros n ch IH. destruct ch as [|c cs].
  - exists [n]. cbn. rewrite Nat.eqb_refl. split; [reflexivity|discriminate].
  - inversion IH as [|? ? Hc _]; subst. destruct Hc as (q & Hq & Hn).
    exists (n :: q). split; [|discriminate]. cbn [sub f_get]. rewrite Nat.eqb_refl.
    destruct q as [|m q']; [congruence|]. cbn [sub] in *. destruct c as [cn cc]. cbn [f_get] in *.
    destruct (Nat.eqb cn m); [exact Hq|discriminate].
Qed.
Lemma leaf_below : forall g : forest, exists q, sub g q = Some [].
Proof.
  intros [|t g]; [exists []; reflexivity|].
  destruct (leaf_below_t t) as (q & Hq & Hn). exists q.
  destruct q as [|m q']; [congruence|]. cbn [sub] in *. destruct t as [n ch]. cbn [f_get] in *.
  destruct (Nat.eqb n m); [exact Hq|discriminate].
Qed.

(* allow_substates=True: exactly the active leaves and all their ancestors *)
Lemma is_state_active f p : uniq f = true -> p <> [] ->
  (is_state_h f p true = true <-> exists l, In l (leaves f) /\ is_prefix p l).
Proof.
  intros U NE. rewrite is_state_h_true. unfold active. split.
  - destruct (sub f p) as [g|] eqn:S; [|discriminate]. intros _.
    destruct (leaf_below g) as [q Hq]. exists (p ++ q). split; [|exists q; reflexivity].
    apply sub_leaf_iff; [exact U|destruct p; [congruence|discriminate]|].
    rewrite sub_app, S. exact Hq.
  - intros (l & Hl & q & ->). apply sub_leaf_iff in Hl; [|exact U|destruct p; [congruence|discriminate]].
    rewrite sub_app in Hl. destruct (sub f p); [reflexivity|discriminate].
Qed.
Lemma is_state_nodes f p : uniq f = true -> (is_state_h f p true = true /\ p <> [] <-> In p (nodes f)).
Proof. intros U. rewrite is_state_h_true. rewrite (in_nodes_active p f U). tauto. Qed.

(* exactly one helper per exclusive configuration *)
Lemma filter_none {A} (g : A -> bool) : forall r, (forall y, In y r -> g y = false) -> filter g r = [].
Proof.
  induction r as [|y r IH]; intros H; [reflexivity|]. cbn. rewrite (H y (or_introl eq_refl)).
  apply IH. intros z Hz. apply H. now right.
Qed.
Lemma filter_unique {A} (g : A -> bool) (l : A) : forall reg, NoDup reg -> In l reg ->
  (forall p, In p reg -> (g p = true <-> p = l)) -> filter g reg = [l].
Proof.
  induction reg as [|x r IH]; intros ND HI H; [destruct HI|].
  inversion ND as [|? ? NI ND']; subst. cbn.
  destruct (g x) eqn:G.
  - apply (H x (or_introl eq_refl)) in G. subst x. f_equal.
    apply filter_none. intros y Hy. destruct (g y) eqn:Gy; [|reflexivity].
    apply (H y (or_intror Hy)) in Gy. subst y. contradiction.
  - destruct HI as [->|HI].
    + assert (g l = true) by (apply H; [now left|reflexivity]). congruence.
    + apply IH; [exact ND'|exact HI|]. intros p Hp. apply H. now right.
Qed.

Lemma exactly_one_exclusive f l reg : uniq f = true -> leaves f = [l] ->
  NoDup reg -> In l reg -> ~ In [] reg ->
  filter (fun p => is_state_h f p false) reg = [l].
Proof.
  intros U L ND HI NN. apply filter_unique; [exact ND|exact HI|].
  intros p Hp. assert (NE : p <> []) by (intros ->; auto).
  rewrite (is_state_leaves f p U NE), L. cbn. split; [intros [->|[]]; reflexivity|intros ->; now left].
Qed.

(* ------------------------------------------------------------------ the model's state value *)
Lemma uniq_nil : uniq [] = true.
Proof. reflexivity. Qed.

Lemma uniq_insert : forall p f, uniq f = true -> uniq (insert_path f p) = true.
Proof.
  induction p as [|n r IH]; intros f U; [exact U|]. cbn [insert_path].
  apply uniq_f_set; [exact U|]. apply IH. destruct (f_get f n) as [ch|] eqn:G; [|reflexivity].
  eapply uniq_child; [exact U|apply f_get_In; exact G].
Qed.

Lemma active_nil f : active f [] = true.
Proof. reflexivity. Qed.

Fixpoint prefixb (p l : path) : bool :=
  match p with
  | [] => true
  | a :: p' => match l with [] => false | b :: l' => Nat.eqb a b && prefixb p' l' end
  end.
Lemma prefixb_spec : forall p l, prefixb p l = true <-> is_prefix p l.
Proof.
  induction p as [|a p IH]; intros l; cbn.
  - split; [intros _; exists l; reflexivity|reflexivity].
  - destruct l as [|b l'].
    + split; [discriminate|intros [q H]; discriminate].
    + rewrite andb_true_iff, IH, Nat.eqb_eq. split.
      * intros [-> [q ->]]. exists q. reflexivity.
      * intros [q H]. injection H as -> ->. split; [reflexivity|exists q; reflexivity].
Qed.

Lemma active_nil_cons n q : active [] (n :: q) = false.
Proof. reflexivity. Qed.

Lemma active_cons f n q : active f (n :: q) = match f_get f n with Some ch => active ch q | None => false end.
Proof. unfold active. cbn [sub]. destruct (f_get f n); reflexivity. Qed.

Lemma active_insert : forall l f p, p <> [] ->
  active (insert_path f l) p = active f p || prefixb p l.
Proof.
  induction l as [|n r IH]; intros f p NE.
  - cbn [insert_path]. destruct p; [congruence|]. cbn. now rewrite orb_false_r.
  - destruct p as [|m q]; [congruence|]. cbn [insert_path prefixb].
    rewrite (active_cons (f_set _ _ _)), f_get_f_set, (active_cons f).
    destruct (Nat.eqb m n) eqn:E; cbn [andb].
    + apply Nat.eqb_eq in E. subst m.
      destruct q as [|m' q'].
      * cbn. destruct (f_get f n); reflexivity || now rewrite orb_true_r.
      * rewrite IH by discriminate. destruct (f_get f n); [reflexivity|]. now rewrite active_nil_cons.
    + now rewrite orb_false_r.
Qed.

Lemma active_build_from : forall ls f p, p <> [] ->
  (active (fold_left insert_path ls f) p = true <-> active f p = true \/ exists l, In l ls /\ is_prefix p l).
Proof.
  induction ls as [|l r IH]; intros f p NE; cbn [fold_left].
  - split; [auto|intros [H|(l & [] & _)]; exact H].
  - rewrite IH by exact NE. rewrite active_insert by exact NE. rewrite orb_true_iff, prefixb_spec. split.
    + intros [[H|H]|(l' & Hl & Hp)]; [now left| |right; exists l'; split; [now right|exact Hp]].
      right. exists l. split; [now left|exact H].
    + intros [H|(l' & [<-|Hl] & Hp)]; [left; now left|left; now right|right; exists l'; auto].
Qed.

Lemma uniq_build_from : forall ls f, uniq f = true -> uniq (fold_left insert_path ls f) = true.
Proof. induction ls as [|l r IH]; intros f U; [exact U|]. cbn. apply IH. now apply uniq_insert. Qed.

Lemma leaf_no_child f p g : sub f p = Some g -> (g = [] <-> forall n, active f (p ++ [n]) = false).
Proof.
  intros S. split.
  - intros -> n. rewrite active_app, S. reflexivity.
  - intros H. destruct g as [|[m ch] g']; [reflexivity|]. specialize (H m).
    rewrite active_app, S in H. unfold active in H. cbn in H. rewrite Nat.eqb_refl in H. discriminate.
Qed.

(* the helpers of a model whose state value is the list of leaf paths ls *)
Lemma helper_model_value ls p : p <> [] ->
  uniq (build_tree ls) = true
  /\ (is_helper_h ls p true = true <-> exists l, In l ls /\ is_prefix p l)
  /\ (is_helper_h ls p false = true <->
        (exists l, In l ls /\ is_prefix p l) /\ forall n, ~ exists l, In l ls /\ is_prefix (p ++ [n]) l).
Proof.
  intros NE. unfold is_helper_h, build_tree.
  assert (A : forall q, q <> [] -> (active (fold_left insert_path ls []) q = true <-> exists l, In l ls /\ is_prefix q l)).
  { intros q Hq. rewrite active_build_from by exact Hq. split; [intros [H|H]; [|exact H]|auto].
    destruct q; [congruence|]. cbn in H. discriminate. }
  split; [apply uniq_build_from; reflexivity|]. split.
  - rewrite is_state_h_true. apply A. exact NE.
  - rewrite is_state_h_false. split.
    + intros S. split.
      * apply A; [exact NE|]. unfold active. now rewrite S.
      * intros n HH. apply A in HH; [|destruct p; discriminate].
        pose proof (proj1 (leaf_no_child _ _ _ S) eq_refl n). congruence.
    + intros [H1 H2]. apply A in H1; [|exact NE]. unfold active in H1.
      destruct (sub (fold_left insert_path ls []) p) as [g|] eqn:S; [|discriminate].
      f_equal. apply (leaf_no_child _ _ _ S). intros n.
      destruct (active (fold_left insert_path ls []) (p ++ [n])) eqn:E; [|reflexivity].
      exfalso. apply (H2 n). apply A; [destruct p; discriminate|exact E].
Qed.

(* ------------------------------------------------------------------ get_triggers *)
Lemma path_eqb_eq a b : path_eqb a b = true <-> a = b.
Proof. unfold path_eqb. destruct (list_eq_dec Nat.eq_dec a b); split; congruence. Qed.

Lemma in_flat_triggers evs q e :
  In e (flat_triggers evs q) <-> exists ts t, In (e, ts) evs /\ In t ts /\ ht_src t = q.
Proof.
  unfold flat_triggers. rewrite in_map_iff. split.
  - intros [[e' ts] [E H]]. cbn in E. subst e'. apply filter_In in H as [H1 H2]. cbn in H2.
    apply existsb_exists in H2 as (t & Ht & Hq). apply path_eqb_eq in Hq. exists ts, t. auto.
  - intros (ts & t & H1 & H2 & H3). exists (e, ts). split; [reflexivity|]. apply filter_In. split; [exact H1|].
    cbn. apply existsb_exists. exists t. split; [exact H2|]. now apply path_eqb_eq.
Qed.

Lemma find_def_nochild ds n r : find_child ds n = None -> find_def ds (n :: r) = None.
Proof. intros H. destruct r; cbn; rewrite H; reflexivity. Qed.

Lemma find_def_app : forall sc ds n r, sc <> [] ->
  find_def ds (sc ++ n :: r) =
  match find_def ds sc with Some d => find_def (sd_children d) (n :: r) | None => None end.
Proof.
  induction sc as [|a s IH]; intros ds n r NE; [congruence|].
  destruct s as [|b s'].
  - cbn [app]. cbn [find_def]. destruct (find_child ds a); reflexivity.
  - change ((a :: b :: s') ++ n :: r) with (a :: ((b :: s') ++ n :: r)).
    cbn [find_def]. destruct ((b :: s') ++ n :: r) eqn:E; [discriminate|]. rewrite <- E.
    destruct (find_child ds a) as [d|]; [|reflexivity]. apply IH. discriminate.
Qed.

(* below a name that is not a state of the scope there are no events *)
Lemma scope_events_nochild hm sc n r :
  find_child (scope_children hm sc) n = None -> scope_events hm (sc ++ n :: r) = [].
Proof.
  intros H. unfold scope_events. destruct (sc ++ n :: r) eqn:E; [destruct sc; discriminate|]. rewrite <- E.
  destruct sc as [|a s].
  - cbn [app]. cbn in H. now rewrite (find_def_nochild _ _ _ H).
  - rewrite find_def_app by discriminate. unfold scope_children in H.
    destruct (find_def (hm_states hm) (a :: s)) as [d|]; [|reflexivity].
    now rewrite (find_def_nochild _ _ _ H).
Qed.

Lemma in_nested_triggers hm e : forall q sc,
  In e (nested_triggers hm sc q) <->
  exists q1 q2, q = q1 ++ q2 /\ q2 <> [] /\ In e (flat_triggers (scope_events hm (sc ++ q1)) q2).
Proof.
  induction q as [|n r IH]; intros sc.
  - cbn. split; [tauto|]. intros (q1 & q2 & E & NE & _). destruct q1; destruct q2; try discriminate; congruence.
  - cbn [nested_triggers]. rewrite in_app_iff. split.
    + intros [H|H].
      * exists [], (n :: r). rewrite app_nil_r. split; [reflexivity|]. split; [discriminate|exact H].
      * destruct r as [|m r']; [destruct H|].
        destruct (find_child (scope_children hm sc) n); [|destruct H].
        apply IH in H as (q1 & q2 & E & NE & H). exists (n :: q1), q2.
        split; [cbn; now rewrite E|]. split; [exact NE|]. now rewrite <- app_assoc in H.
    + intros (q1 & q2 & E & NE & H). destruct q1 as [|a q1'].
      * cbn in E. subst q2. rewrite app_nil_r in H. now left.
      * cbn in E. injection E as <- E. right.
        destruct r as [|m r']; [destruct q1'; destruct q2; try discriminate; congruence|].
        destruct (find_child (scope_children hm sc) n) eqn:FC.
        -- apply IH. exists q1', q2. split; [exact E|]. split; [exact NE|]. now rewrite <- app_assoc.
        -- rewrite (scope_events_nochild _ _ _ _ FC) in H. destruct H.
Qed.

(* what get_triggers computes *)
Lemma get_triggers_char hm p e : In e (get_triggers_h hm p) <-> lib_trigger hm p e.
Proof.
  unfold get_triggers_h, lib_trigger, declares. rewrite in_app_iff. split.
  - intros [H|H].
    + destruct p as [|n [|m r]]; try destruct H.
      apply in_nested_triggers in H as (q1 & q2 & E & NE & H).
      apply in_flat_triggers in H as (ts & t & H1 & H2 & H3).
      exists ([n] ++ q1), t. split; [exists ts; auto|]. split; [congruence|]. right.
      split; [discriminate|]. rewrite H3. cbn. now rewrite E.
    + apply in_flat_map in H as (a & Ha & H). apply in_rev in Ha.
      apply in_nonempty_prefixes in Ha as (NE & q & E).
      apply in_flat_triggers in H as (ts & t & H1 & H2 & H3).
      exists [], t. split; [exists ts; auto|]. split; [congruence|]. left. split; [reflexivity|].
      exists q. now rewrite H3.
  - intros (sc & t & (ts & H1 & H2) & NE & [[-> (q & E)]|[NS E]]).
    + right. apply in_flat_map. exists (ht_src t). split.
      * apply in_rev. rewrite rev_involutive. apply in_nonempty_prefixes. split; [exact NE|exists q; exact E].
      * apply in_flat_triggers. exists ts, t. auto.
    + left. destruct sc as [|n q1]; [congruence|]. subst p. cbn [app].
      destruct (q1 ++ ht_src t) as [|m r] eqn:Er; [destruct q1; cbn in Er; congruence|]. rewrite <- Er.
      apply in_nested_triggers. exists q1, (ht_src t). split; [reflexivity|]. split; [exact NE|].
      apply in_flat_triggers. exists ts, t. auto.
Qed.

(* every listed event has a transition from the state or one of its ancestors *)
Lemma get_triggers_sound hm p e : In e (get_triggers_h hm p) -> spec_trigger hm p e.
Proof.
  rewrite get_triggers_char. intros (sc & t & D & NE & [[E H]|[NS E]]); exists sc, t.
  - subst sc. split; [exact D|]. split; [exact NE|exact H].
  - split; [exact D|]. split; [exact NE|]. exists []. now rewrite app_nil_r.
Qed.

(* ... and every such event is listed, unless it is declared inside a state from a strict
   ancestor of the queried state (KF-C11-3) *)
Lemma get_triggers_complete hm p e :
  no_nested_ancestor_source hm p -> spec_trigger hm p e -> In e (get_triggers_h hm p).
Proof.
  intros G (sc & t & D & NE & H). apply get_triggers_char. exists sc, t. split; [exact D|]. split; [exact NE|].
  destruct sc as [|n s]; [left; auto|]. right. split; [discriminate|]. apply (G _ e t); auto. discriminate.
Qed.

Lemma get_triggers_exact hm p e :
  no_nested_ancestor_source hm p -> (In e (get_triggers_h hm p) <-> spec_trigger hm p e).
Proof. intros G. split; [apply get_triggers_sound|now apply get_triggers_complete]. Qed.

(* KF-C11-3: state C(0) with children v(1) (child G(2)) and z(3); event 7 declared inside C from v to z.
   The event fires from C_v_G (an ancestor's transition), get_triggers(C_v_G) does not list it. *)
Definition leaf_def (n : nat) : sdefn := SDef n [] [] [] false None [] [] [].
Definition kf3_machine : hmachine :=
  mkHM [SDef 0 [] [] [] false None [] [(7, [mkHT [1] (Some [3]) [] [] [] []])]
             [SDef 1 [] [] [] false None [] [] [leaf_def 2]; leaf_def 3]]
       [] [] [] [] [] [] [] false false.
Lemma get_triggers_refuted : exists hm p e, spec_trigger hm p e /\ ~ In e (get_triggers_h hm p).
Proof.
  exists kf3_machine, [0; 1; 2], 7. split.
  - exists [0], (mkHT [1] (Some [3]) [] [] [] []). split; [|split; [discriminate|exists [2]; reflexivity]].
    exists [mkHT [1] (Some [3]) [] [] [] []]. split; cbn; auto.
  - vm_compute. tauto.
Qed.

(* ------------------------------------------------------------------ to_<state> *)
(* the automatic transition to_<p> is declared at the machine with destination p: whatever the
   configuration, afterwards p is active and what is active below p is exactly its initial
   descent *)
Lemma to_state_ends f p dd : p <> [] ->
  exists r, resolve f [] p dd = Some r /\ sub (r_new r) p = Some (initial_tree def_depth_bound dd).
Proof.
  intros NE. unfold resolve.
  destruct (split_active f [] p) as [root rest] eqn:SA.
  destruct (split_active_spec f [] p root rest f NE eq_refl SA) as (E & RN & A & _).
  cbn [app] in *. unfold active in A. destruct (sub f root) as [scoped|] eqn:SB; [|discriminate].
  eexists. split; [reflexivity|]. cbn [r_new].
  destruct rest as [|d0 rt]; [congruence|]. cbn [hd tl].
  rewrite <- E. rewrite (sub_update_below _ _ _ _ _ SB).
  destruct (Nat.ltb 1 (length scoped)).
  - cbn [sub]. rewrite f_get_f_set, Nat.eqb_refl.
    rewrite <- (app_nil_r rt) at 2. rewrite sub_chain_below. reflexivity.
  - cbn [chain_tree sub f_get]. rewrite Nat.eqb_refl.
    rewrite <- (app_nil_r rt) at 2. rewrite sub_chain_below. reflexivity.
Qed.

Lemma to_state_helpers f p dd r : p <> [] -> resolve f [] p dd = Some r ->
  is_state_h (r_new r) p true = true
  /\ (initial_tree def_depth_bound dd = [] -> is_state_h (r_new r) p false = true).
Proof.
  intros NE R. destruct (to_state_ends f p dd NE) as (r' & R' & S). rewrite R in R'. injection R' as <-.
  unfold is_state_h. rewrite S. split; [destruct (initial_tree def_depth_bound dd); reflexivity|].
  intros ->. reflexivity.
Qed.
