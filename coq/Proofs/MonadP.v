(* MonadP.v — inversion lemmas for the engine monad. *)
From Coq Require Import List Arith Bool.
From M Require Import Base.
Import ListNotations.

Section Inv.
  Context {V S : Type}.
  Notation MM := (M (V:=V) (S:=S)).

  Lemma bind_inr {A B} (m : MM A) (f : A -> MM B) p s tr s' b :
    bind m f p s = (tr, s', inr b) ->
    exists t1 s1 a t2, m p s = (t1, s1, inr a) /\ f a (p + length t1) s1 = (t2, s', inr b) /\ tr = t1 ++ t2.
  Proof.
    unfold bind. destruct (m p s) as [[t1 s1] [e|a]]; [discriminate|].
    destruct (f a (p + length t1) s1) as [[t2 s2] r2] eqn:E. intros H. injection H as <- <- ->.
    exists t1, s1, a, t2. auto.
  Qed.

  Lemma get_inr p (s : S) tr s' (x : S) : @get V S p s = (tr, s', inr x) -> tr = [] /\ s' = s /\ x = s.
  Proof. unfold get. intros H. injection H as <- <- <-. auto. Qed.

  Lemma ret_inr {A} (a : A) p (s : S) tr s' x : @ret V S A a p s = (tr, s', inr x) -> tr = [] /\ s' = s /\ x = a.
  Proof. unfold ret. intros H. injection H as <- <- <-. auto. Qed.
End Inv.
