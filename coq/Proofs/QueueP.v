(* QueueP.v — run-to-completion / FIFO / exactly-once / discard properties of the queued
   processing loop, for every "process one event" step function, every program of
   actions and every number of models. *)
From Coq Require Import List Arith Bool Lia.
From M Require Import Base Queue.
Import ListNotations.

(* strictly increasing list of naturals, all elements in [lo, hi) *)
Fixpoint within (lo hi : nat) (l : list nat) : Prop :=
  match l with
  | [] => lo <= hi
  | x :: r => lo <= x /\ within (S x) hi r
  end.

Lemma within_le lo hi l : within lo hi l -> lo <= hi.
Proof. revert lo; induction l as [|x r IH]; intros lo H; cbn in H; [exact H|]. destruct H as [H1 H2]. apply IH in H2. lia. Qed.
Lemma within_weaken lo lo' hi hi' l : within lo hi l -> lo' <= lo -> hi <= hi' -> within lo' hi' l.
Proof.
  revert lo lo'; induction l as [|x r IH]; intros lo lo' H L1 L2; cbn in *; [lia|].
  destruct H as [H1 H2]. split; [lia|]. eapply IH; eauto.
Qed.
Lemma within_snoc lo hi l : within lo hi l -> within lo (S hi) (l ++ [hi]).
Proof.
  revert lo; induction l as [|x r IH]; intros lo H; cbn in *; [lia|].
  destruct H as [H1 H2]. split; [exact H1|]. apply IH. exact H2.
Qed.
Lemma within_filter {A} (f : A -> bool) (g : A -> nat) lo hi l :
  within lo hi (map g l) -> within lo hi (map g (filter f l)).
Proof.
  revert lo; induction l as [|x r IH]; intros lo H; cbn in *; [exact H|].
  destruct H as [H1 H2]. destruct (f x); cbn.
  - split; [exact H1|]. apply IH. exact H2.
  - apply IH. eapply within_weaken; [exact H2| lia | lia].
Qed.
Lemma within_app_In lo hi l1 l2 x : within lo hi (l1 ++ l2) -> In x (l1 ++ l2) -> lo <= x < hi.
Proof.
  generalize (l1 ++ l2). clear l1 l2. intros l. revert lo; induction l as [|y r IH]; intros lo H HI; cbn in *; [tauto|].
  destruct H as [H1 H2]. destruct HI as [->|HI].
  - apply within_le in H2. lia.
  - specialize (IH _ H2 HI). lia.
Qed.
(* a strictly increasing list has no duplicates *)
Lemma within_NoDup lo hi l : within lo hi l -> NoDup l.
Proof.
  revert lo; induction l as [|x r IH]; intros lo H; [constructor|]. cbn in H. destruct H as [H1 H2].
  constructor; [|eapply IH; eauto]. intros HI.
  pose proof (within_app_In (S x) hi [] r x H2 HI). lia.
Qed.

Section QP.
  Context {W T : Type}.
  Variable step : W -> qentry -> (T * list action * option exn * W).
  Variable act_payload : qentry -> nat -> nat.
  Notation qstate := (@qstate).
  Notation apply_action := (apply_action act_payload).
  Notation apply_actions := (apply_actions act_payload).
  Notation drain := (drain step act_payload).

  Definition qids (s : Queue.qstate) : list nat := map q_id (qs_queue s).
  Definition bids (bs : list (block T)) : list nat := map (fun b => q_id (b_entry b)) bs.
  Definition dids (s : Queue.qstate) : list nat := map (fun d => q_id (fst d)) (qs_dropped s).

  (* ---------- one action ---------- *)
  Lemma apply_action_inv cur k a s lo h tl :
    qs_queue s = h :: tl -> within lo (qs_next s) (qids s) ->
    exists tl', qs_queue (apply_action cur k a s) = h :: tl' /\
                within lo (qs_next (apply_action cur k a s)) (qids (apply_action cur k a s)) /\
                qs_next s <= qs_next (apply_action cur k a s).
  Proof.
    intros Q Wn. unfold qids in *. destruct a as [m e|m]; cbn [apply_action].
    - exists (tl ++ [mkQ (qs_next s) m e (act_payload cur k)]). cbn. rewrite Q. split; [reflexivity|]. split; [|lia].
      rewrite Q in Wn. change (h :: tl ++ [mkQ (qs_next s) m e (act_payload cur k)]) with ((h :: tl) ++ [mkQ (qs_next s) m e (act_payload cur k)]).
      rewrite map_app. cbn [map q_id]. apply within_snoc. exact Wn.
    - destruct (negb (existsb (Nat.eqb m) (qs_models s))).
      + exists tl. rewrite Q. split; [reflexivity|]. split; [rewrite Q in Wn; exact Wn|lia].
      + rewrite Q. cbn. eexists. split; [reflexivity|]. split; [|lia].
        rewrite Q in Wn. cbn in Wn. destruct Wn as [H1 H2]. split; [exact H1|].
        apply within_filter. exact H2.
  Qed.

  Lemma apply_actions_inv cur k acts s lo h tl :
    qs_queue s = h :: tl -> within lo (qs_next s) (qids s) ->
    exists tl', qs_queue (apply_actions cur k acts s) = h :: tl' /\
                within lo (qs_next (apply_actions cur k acts s)) (qids (apply_actions cur k acts s)) /\
                qs_next s <= qs_next (apply_actions cur k acts s).
  Proof.
    revert k s tl. induction acts as [|a r IH]; intros k s tl Q Wn; cbn [Queue.apply_actions].
    - exists tl. split; [exact Q|]. split; [exact Wn|lia].
    - destruct (apply_action_inv cur k a s lo h tl Q Wn) as (tl1 & Q1 & W1 & L1).
      destruct (IH (S k) _ tl1 Q1 W1) as (tl2 & Q2 & W2 & L2).
      exists tl2. split; [exact Q2|]. split; [exact W2|lia].
  Qed.

  (* the entry in progress stays at the head whatever the callbacks do *)
  Lemma apply_action_head cur k a s h tl :
    qs_queue s = h :: tl -> exists tl', qs_queue (apply_action cur k a s) = h :: tl'.
  Proof.
    intros Q. destruct a as [m e|m]; cbn [Queue.apply_action].
    - cbn. rewrite Q. eexists. reflexivity.
    - destruct (negb (existsb (Nat.eqb m) (qs_models s))); [eexists; exact Q|]. rewrite Q. cbn. eexists. reflexivity.
  Qed.
  Lemma apply_actions_head cur k acts s h tl :
    qs_queue s = h :: tl -> exists tl', qs_queue (apply_actions cur k acts s) = h :: tl'.
  Proof.
    revert k s tl; induction acts as [|a r IH]; intros k s tl Q; cbn [Queue.apply_actions]; [eexists; exact Q|].
    destruct (apply_action_head cur k a s h tl Q) as [tl1 Q1]. eapply IH. exact Q1.
  Qed.

  (* ---------- FIFO and at-most-once: processed arrival numbers strictly increase ---------- *)
  Lemma drain_within fuel : forall w s lo bs r w' s',
    within lo (qs_next s) (qids s) ->
    drain fuel w s = Some (bs, r, w', s') ->
    within lo (qs_next s') (bids bs ++ qids s') /\ qs_next s <= qs_next s'.
  Proof.
    induction fuel as [|f IH]; intros w s lo bs r w' s' Wn D; cbn [Queue.drain] in D; [discriminate|].
    destruct (qs_queue s) as [|h tl] eqn:Q.
    - injection D as <- <- <- <-. cbn. split; [exact Wn|lia].
    - destruct (step w h) as [[[tr acts] rr] w1] eqn:ST.
      destruct (apply_actions_inv h 0 acts s lo h tl Q Wn) as (tl1 & Q1 & W1 & L1).
      unfold qids in W1. rewrite Q1 in W1. cbn in W1. destruct W1 as [Wh Wt].
      destruct rr as [e|].
      + injection D as <- <- <- <-. cbn. split; [|exact L1]. split; [exact Wh|].
        apply within_le in Wt. exact Wt.
      + destruct (drain f w1 _) as [[[[bs1 r1] w2] s3]|] eqn:D1; [|discriminate].
        injection D as <- <- <- <-.
        apply IH with (lo := S (q_id h)) in D1.
        * destruct D1 as [D1 D2]. cbn in D2. split; [|lia]. cbn. split; [exact Wh|exact D1].
        * cbn. unfold qids. cbn. rewrite Q1. cbn. exact Wt.
  Qed.

  (* ---------- a raising event ends the loop and discards everything pending ---------- *)
  Lemma drain_outcome fuel : forall w s bs r w' s',
    drain fuel w s = Some (bs, r, w', s') ->
    qs_queue s' = [] /\
    match r with
    | None => Forall (fun b => b_raised b = None) bs
    | Some e => exists bs0 b, bs = bs0 ++ [b] /\ b_raised b = Some e /\
                              Forall (fun b => b_raised b = None) bs0
    end.
  Proof.
    induction fuel as [|f IH]; intros w s bs r w' s' D; cbn [Queue.drain] in D; [discriminate|].
    destruct (qs_queue s) as [|h tl] eqn:Q.
    - injection D as <- <- <- <-. split; [exact Q|constructor].
    - destruct (step w h) as [[[tr acts] rr] w1] eqn:ST. destruct rr as [e|].
      + injection D as <- <- <- <-. split; [reflexivity|]. exists [], (mkBlock h tr (Some e)). repeat split. constructor.
      + destruct (drain f w1 _) as [[[[bs1 r1] w2] s3]|] eqn:D1; [|discriminate].
        injection D as <- <- <- <-. destruct (IH _ _ _ _ _ _ D1) as [E1 E2]. split; [exact E1|].
        destruct r1 as [e|].
        * destruct E2 as (bs0 & b & -> & Hb & Hf). exists (mkBlock h tr None :: bs0), b. repeat split; auto.
        * constructor; auto.
  Qed.

  (* ---------- remove_model: exactly the removed model's pending entries disappear ---------- *)
  Lemma remove_exact cur k m s h tl :
    qs_queue s = h :: tl -> existsb (Nat.eqb m) (qs_models s) = true ->
    let s' := apply_action cur k (ARemoveModel m) s in
    qs_queue s' = h :: filter (fun x => negb (Nat.eqb (q_model x) m)) tl /\
    (forall x, In x (qs_queue s') <-> x = h \/ (In x tl /\ q_model x <> m)) /\
    (forall x, In x tl -> q_model x = m -> In x (map fst (qs_dropped s'))) /\
    qs_next s' = qs_next s.
  Proof.
    intros Q M. cbn [Queue.apply_action]. rewrite M. cbn [negb]. rewrite Q. cbn.
    split; [reflexivity|]. split; [|split; [|reflexivity]].
    - intros x. rewrite filter_In. split.
      + intros [->|[H1 H2]]; [now left|]. right. split; [exact H1|].
        apply negb_true_iff, Nat.eqb_neq in H2. exact H2.
      + intros [->|[H1 H2]]; [now left|]. right. split; [exact H1|].
        apply negb_true_iff, Nat.eqb_neq. exact H2.
    - intros x Hx Hm. rewrite map_app, in_app_iff. right. rewrite map_map. cbn [fst]. rewrite map_id.
      apply filter_In. split; [exact Hx|]. now apply Nat.eqb_eq.
  Qed.

  (* ---------- nothing is lost: every arrival is processed, dropped (with a reason) or pending ---------- *)
  Definition accounted (done : list nat) (s : Queue.qstate) : Prop :=
    forall i, i < qs_next s -> In i done \/ In i (dids s) \/ In i (qids s).

  Lemma apply_action_acc cur k a s done : accounted done s -> accounted done (apply_action cur k a s).
  Proof.
    intros A. destruct a as [m e|m]; cbn [Queue.apply_action].
    - intros i Hi. cbn in Hi. unfold qids, dids in *. cbn. rewrite map_app, in_app_iff. cbn.
      destruct (Nat.eq_dec i (qs_next s)) as [->|N]; [right; right; right; now left|].
      destruct (A i ltac:(lia)) as [H|[H|H]]; auto.
    - destruct (negb (existsb (Nat.eqb m) (qs_models s))); [exact A|].
      destruct (qs_queue s) as [|h tl] eqn:Q.
      + intros i Hi. cbn in Hi. destruct (A i Hi) as [H|[H|H]]; auto. unfold qids in H. rewrite Q in H. destruct H.
      + intros i Hi. cbn in Hi. destruct (A i Hi) as [H|[H|H]]; auto.
        * right; left. unfold dids in *. cbn. rewrite map_app, in_app_iff. now left.
        * unfold qids in H. rewrite Q in H. cbn in H. destruct H as [<-|H]; [right; right; now left|].
          apply in_map_iff in H. destruct H as (x & <- & Hx).
          destruct (Nat.eqb (q_model x) m) eqn:E.
          -- right; left. unfold dids. cbn. rewrite map_app, in_app_iff. right. rewrite map_map. cbn.
             apply in_map_iff. exists x. split; [reflexivity|]. apply filter_In. auto.
          -- right; right. unfold qids. cbn. right. apply in_map. apply filter_In. split; [exact Hx|]. now rewrite E.
  Qed.

  Lemma apply_actions_acc cur k acts s done : accounted done s -> accounted done (apply_actions cur k acts s).
  Proof. revert k s; induction acts as [|a r IH]; intros k s A; cbn [Queue.apply_actions]; [exact A|]. apply IH, apply_action_acc, A. Qed.

  Lemma drain_acc fuel : forall w s done bs r w' s',
    accounted done s -> drain fuel w s = Some (bs, r, w', s') -> accounted (done ++ bids bs) s'.
  Proof.
    induction fuel as [|f IH]; intros w s done bs r w' s' A D; cbn [Queue.drain] in D; [discriminate|].
    destruct (qs_queue s) as [|h tl] eqn:Q.
    - injection D as <- <- <- <-. cbn. rewrite app_nil_r. exact A.
    - destruct (step w h) as [[[tr acts] rr] w1] eqn:ST.
      pose proof (apply_actions_acc h 0 acts s done A) as A1.
      destruct (apply_actions_head h 0 acts s h tl Q) as [tl1 Q1].
      destruct rr as [e|].
      + injection D as <- <- <- <-. intros i Hi. cbn in Hi. destruct (A1 i Hi) as [H|[H|H]].
        * left. apply in_app_iff. now left.
        * right; left. unfold dids in *. cbn. rewrite map_app, in_app_iff. now left.
        * unfold qids in H. rewrite Q1 in H. cbn in H. destruct H as [<-|H].
          -- left. apply in_app_iff. right. cbn. now left.
          -- right; left. unfold dids. cbn. rewrite map_app, in_app_iff. right. rewrite Q1. cbn. rewrite map_map. cbn. exact H.
      + destruct (drain f w1 _) as [[[[bs1 r1] w2] s3]|] eqn:D1; [|discriminate].
        injection D as <- <- <- <-.
        apply IH with (done := done ++ [q_id h]) in D1.
        * cbn. intros i Hi. destruct (D1 i Hi) as [H|H]; [|now right]. left.
          rewrite <- app_assoc in H. exact H.
        * intros i Hi. cbn in Hi. destruct (A1 i Hi) as [H|[H|H]].
          -- left. apply in_app_iff. now left.
          -- right; now left.
          -- unfold qids in H. rewrite Q1 in H. cbn in H. destruct H as [<-|H].
             ++ left. apply in_app_iff. right. now left.
             ++ right; right. unfold qids. cbn. rewrite Q1. exact H.
  Qed.

  (* ---------- a trigger arriving at an idle machine ---------- *)
  Theorem top_trigger_fifo fuel w s m e a bs r w' s' :
    qs_queue s = [] ->
    top_trigger step act_payload fuel w s m e a = Some (bs, r, w', s') ->
    within (qs_next s) (qs_next s') (bids bs) /\ NoDup (bids bs) /\ qs_queue s' = [] /\
    (exists b rest, bs = b :: rest /\ b_entry b = mkQ (qs_next s) m e a).
  Proof.
    intros Q D. unfold top_trigger in D. rewrite Q in D. cbn [app] in D.
    pose proof D as D0.
    apply drain_within with (lo := qs_next s) in D; [|cbn; unfold qids; cbn; lia].
    destruct D as [D1 D2]. destruct (drain_outcome _ _ _ _ _ _ _ D0) as [E1 _].
    unfold qids in D1. rewrite E1 in D1. cbn in D1. rewrite app_nil_r in D1.
    split; [exact D1|]. split; [eapply within_NoDup; eauto|]. split; [exact E1|].
    destruct fuel as [|f]; cbn [Queue.drain] in D0; [discriminate|]. cbn in D0.
    destruct (step w _) as [[[tr acts] rr] w1]. destruct rr as [ex|].
    - injection D0 as <- <- <- <-. eexists _, []. split; reflexivity.
    - destruct (Queue.drain step act_payload f w1 _) as [[[[bs1 r1] w2] s3]|]; [|discriminate].
      injection D0 as <- <- <- <-. eexists _, bs1. split; reflexivity.
  Qed.
End QP.
