(* FeaturesDynP.v — histories with add_transition / remove_transition: every call is judged
   against the transition table current at that call. *)
From Coq Require Import List Arith Bool Lia.
From M Require Import Features FeaturesSpec FeaturesH FeaturesDyn.
From P Require Import FeaturesP.
Import ListNotations.

Lemma with_trans_self c : with_trans c (c_trans c) = c.
Proof. destruct c. reflexivity. Qed.

Lemma drun_static c : forall h w, drun c (c_trans c) w (only_triggers h) = frun c w h.
Proof.
  induction h as [|[m e] rest IH]; intros w; simpl; [reflexivity|].
  rewrite with_trans_self. f_equal. apply IH.
Qed.

Lemma existsb_filter {A} (f g : A -> bool) l :
  existsb f (filter g l) = existsb (fun x => g x && f x) l.
Proof.
  induction l as [|a r IH]; simpl; [reflexivity|].
  destruct (g a); simpl; now rewrite IH.
Qed.

(* what a reconfiguration does to "has an outgoing transition" *)
Lemma has_trigger_add c ts t s :
  has_trigger (with_trans c (apply_op ts (OAdd t))) s =
  has_trigger (with_trans c ts) s || Nat.eqb (ft_src t) s.
Proof. unfold has_trigger. simpl. rewrite existsb_app. simpl. now rewrite orb_false_r. Qed.

Lemma has_trigger_remove c ts e s0 s :
  has_trigger (with_trans c (apply_op ts (ORemove e s0))) s =
  existsb (fun t => negb (Nat.eqb (ft_event t) e && Nat.eqb (ft_src t) s0) && Nat.eqb (ft_src t) s) ts.
Proof. unfold has_trigger. simpl. apply existsb_filter. Qed.

Lemma error_iff_dynamic c ts w m e t d :
  feat_nodup (c_order c) = true ->
  first_cand ts e (m_state (w_m w m)) = Some t -> ft_dst t = Some d ->
  (obs_res (dstep c ts w (OTrig m e)) = RExn EMachine <->
   has_error (c_order c) && is_error_state (with_trans c ts) d = true) /\
  obs_state m (dstep c ts w (OTrig m e)) = d.
Proof.
  intros ND H D.
  destruct (error_iff (with_trans c ts) w m e t d ND H D) as [A [_ C]].
  split; [exact A | exact C].
Qed.

(* results and states over whole dynamic histories, for every order of the mixins *)
Definition simR (w : world) (sw : sworld) : Prop := forall m, m_state (w_m w m) = sp_state (sw_m sw m).

Local Arguments upd : simpl never.

Lemma stepR c w sw m e :
  feat_nodup (c_order c) = true -> simR w sw ->
  obs_res (fstep c w m e) = sobs_res (spec_step c sw m e) /\
  simR (obs_world (fstep c w m e)) (sobs_world (spec_step c sw m e)).
Proof.
  intros ND SIM. unfold spec_step. rewrite <- (SIM m).
  destruct (first_cand (c_trans c) e (m_state (w_m w m))) as [t|] eqn:H.
  - destruct (ft_dst t) as [d|] eqn:D.
    + destruct (fstep_change_main c w m e t d ND H D) as [_ [B [C _]]].
      rewrite err_of_spec in B.
      unfold sobs_res, sobs_world. simpl. split; [exact B|].
      intros m0. simpl. destruct (Nat.eq_dec m0 m) as [->|NE].
      * rewrite upd_same. simpl. exact C.
      * rewrite upd_other by exact NE. rewrite (fstep_other c w m e m0 NE). apply SIM.
    + rewrite (fstep_internal _ _ _ _ _ H D). unfold obs_res, obs_world, sobs_res, sobs_world. simpl. auto.
  - rewrite (fstep_none _ _ _ _ H). unfold obs_res, obs_world, sobs_res, sobs_world. simpl. auto.
Qed.

Lemma drun_rs c : feat_nodup (c_order c) = true ->
  forall h ts w sw, simR w sw ->
  forall m', map (obs_rs m') (drun c ts w h) = map (sobs_rs m') (spec_drun c ts sw h).
Proof.
  intros ND h. induction h as [|op rest IH]; intros ts w sw SIM m'; simpl; [reflexivity|].
  destruct op as [m e|t|e s]; simpl.
  - destruct (stepR (with_trans c ts) w sw m e ND SIM) as [A B].
    f_equal; [| apply IH; exact B].
    unfold obs_rs, sobs_rs. rewrite A. f_equal. apply B.
  - f_equal; [| apply IH; exact SIM]. unfold obs_rs, sobs_rs. simpl. f_equal. apply SIM.
  - f_equal; [| apply IH; exact SIM]. unfold obs_rs, sobs_rs. simpl. f_equal. apply SIM.
Qed.

Lemma drun_rs_init c ts h s0 pre k m :
  feat_nodup (c_order c) = true ->
  map (obs_rs m) (drun c ts (init_world_p s0 pre k) h) =
  map (sobs_rs m) (spec_drun c ts (spec_init_p s0 pre k) h).
Proof. intros ND. apply drun_rs; [exact ND|]. intros m0. reflexivity. Qed.
