(* AsyncQueueP.v — AsyncMachine._process_async (Async.adrain / atop_trigger, queued = True and
   queued = 'model') REFINES the abstract queue of C05 (Queue.drain / top_trigger, generic in
   the step function) instantiated with the asynchronous event step; the theorems of
   Proofs/QueueP.v (proved for EVERY step) transfer as corollaries. *)
From Coq Require Import List Arith Bool Lia.
From M Require Import Base Flat Queue Async.
From P Require Import QueueP.
Import ListNotations.

Definition to_q (a : aentry) : qentry := mkQ (ae_id a) (ae_model a) (ae_event a) (ae_payload a).
Definition exn_of (r : aresult) : option exn := match r with AwExn e => Some e | AwRet _ => None end.
Definition to_block (b : ablock) : block (list stage * aresult) :=
  mkBlock (to_q (ab_entry b)) (ab_trace b, ab_result b) (exn_of (ab_result b)).

Definition aids (l : list aentry) : list nat := map ae_id l.
Definition abids (bs : list ablock) : list nat := map (fun b => ae_id (ab_entry b)) bs.

(* ---- the dictionary of deques *)
Lemma qget_qset_same qs k q : qget (qset qs k q) k = q.
Proof.
  induction qs as [|[k' q'] r IH]; cbn.
  - rewrite Nat.eqb_refl. reflexivity.
  - destruct (Nat.eqb k k') eqn:E; cbn; rewrite ?Nat.eqb_refl, ?E; auto.
Qed.
Lemma qget_qset_other qs k q k' : k' <> k -> qget (qset qs k q) k' = qget qs k'.
Proof.
  intros N. induction qs as [|[k0 q0] r IH]; cbn.
  - destruct (Nat.eqb k' k) eqn:E; [apply Nat.eqb_eq in E; congruence|reflexivity].
  - destruct (Nat.eqb k k0) eqn:E; cbn.
    + apply Nat.eqb_eq in E. subst k0.
      destruct (Nat.eqb k' k) eqn:E2; [apply Nat.eqb_eq in E2; congruence|reflexivity].
    + destruct (Nat.eqb k' k0); [reflexivity|exact IH].
Qed.
Lemma map_tl {A B} (f : A -> B) l : map f (tl l) = tl (map f l).
Proof. destruct l; reflexivity. Qed.
Lemma filter_map_to_q m l :
  map to_q (filter (fun x => negb (Nat.eqb (ae_model x) m)) l) =
  filter (fun x => negb (Nat.eqb (q_model x) m)) (map to_q l).
Proof.
  induction l as [|x r IH]; [reflexivity|]. cbn [filter map]. cbn [to_q q_model].
  destruct (negb (Nat.eqb (ae_model x) m)); cbn [map]; rewrite IH; reflexivity.
Qed.

Lemma md_not_off {T} (md : qmode) (A B : T) :
  md <> QOff -> match md with QOff => A | QAll => B | QPerModel => B end = B.
Proof. destruct md; [congruence|reflexivity|reflexivity]. Qed.

Section Refine.
  Variable mc : machine.
  Variable ev : env.
  Variable suspf : cbid -> nat -> nat.
  Variable md : qmode.
  Variable key : nat.

  Notation astep := (astep mc ev suspf).
  Notation enqueue_acts := (enqueue_acts md).
  Notation adrain := (adrain mc ev suspf md).

  (* the instance of the abstract "process one event" step: world = the models' states, trace =
     the stages of the event together with what awaiting it gave *)
  Definition qstep (sts : list (model * state)) (q : qentry)
    : (list stage * aresult) * list action * option exn * list (model * state) :=
    let c := mkCtx (q_model q) (q_payload q) (m_send_event mc) in
    match atrigger mc (fun cb => ev cb (q_payload q)) (fun cb => suspf cb (q_payload q)) c (q_event q)
                   (match lookup sts (q_model q) with Some s => s | None => 0 end) with
    | (tr, st', r) => ((tr, r), acts_of_trace tr, exn_of r, set_mstate sts (q_model q) st')
    end.
  Definition qpayload (q : qentry) (k : nat) : nat := 1000 + 16 * q_id q + k.

  (* a trigger awaited from a callback goes to the deque that is being drained: always so with
     queued=True (one shared deque); with queued='model' iff callbacks trigger their own model *)
  Definition targets (a : action) : Prop :=
    match a with ATrigger m _ => qkey md m = key | ARemoveModel _ => md = QAll /\ key = 0 end.
  Definition targets_ok : Prop := forall sts q, Forall targets (snd (fst (fst (qstep sts q)))).

  (* abstraction relation: the deque [key] is the abstract queue, same arrival counter, same registered
     models (remove_model is performed with queued=True only: [targets]) *)
  Definition R (w : aworld) (s : qstate) : Prop :=
    qs_queue s = map to_q (qget (aw_queues w) key) /\ qs_next s = aw_next w /\ qs_models s = aw_models w.

  Lemma astep_qstep w h :
    let '(tr, r, w1) := astep w h in
    qstep (aw_states w) (to_q h) = ((tr, r), acts_of_trace tr, exn_of r, aw_states w1) /\
    aw_queues w1 = aw_queues w /\ aw_next w1 = aw_next w /\ aw_models w1 = aw_models w.
  Proof.
    unfold Async.astep, qstep, mstate_of. cbn [to_q q_model q_payload q_event].
    destruct (atrigger mc _ _ _ _ _) as [[tr st'] r]. cbn. auto.
  Qed.

  Lemma enqueue_refines acts : forall cur k w s,
    R w s -> Forall targets acts ->
    R (enqueue_acts cur k acts w) (apply_actions qpayload (to_q cur) k acts s) /\
    aw_states (enqueue_acts cur k acts w) = aw_states w /\
    (forall k', k' <> key -> qget (aw_queues (enqueue_acts cur k acts w)) k' = qget (aw_queues w) k').
  Proof.
    induction acts as [|a r IH]; intros cur k w s HR HT; cbn [Async.enqueue_acts apply_actions].
    - auto.
    - inversion HT as [|a' r' Ha Hr]; subst. destruct a as [m e|m].
      + cbn in Ha. rewrite Ha.
        set (w1 := mkAW (aw_states w)
                        (qset (aw_queues w) key (qget (aw_queues w) key ++ [mkAE (aw_next w) m e (nested_payload cur k)]))
                        (S (aw_next w)) (aw_models w)).
        assert (R1 : R w1 (apply_action qpayload (to_q cur) k (ATrigger m e) s)).
        { destruct HR as (Q&N&M). unfold R. cbn [apply_action qs_queue qs_next qs_models w1 aw_queues aw_next].
          rewrite qget_qset_same, map_app, Q, N. cbn [map to_q ae_id ae_model ae_event ae_payload].
          unfold qpayload, nested_payload. cbn [to_q q_id]. auto. }
        destruct (IH cur (S k) w1 _ R1 Hr) as (A&B&C). split; [exact A|]. split; [rewrite B; reflexivity|].
        intros k' N. rewrite (C k' N). unfold w1. cbn [aw_queues]. apply qget_qset_other. exact N.
      + cbn in Ha. destruct Ha as [Hmd Hk].
        assert (R1 : R (aremove_model md m w) (apply_action qpayload (to_q cur) k (ARemoveModel m) s) /\
                     aw_states (aremove_model md m w) = aw_states w /\
                     (forall k', k' <> key -> qget (aw_queues (aremove_model md m w)) k' = qget (aw_queues w) k')).
        { destruct HR as (Q&N&M). unfold aremove_model. rewrite Hmd. cbn [apply_action]. rewrite M.
          destruct (negb (existsb (Nat.eqb m) (aw_models w))); [unfold R; auto|].
          rewrite Q. unfold R. rewrite !Hk.
          destruct (qget (aw_queues w) 0) as [|h tl] eqn:G; cbn [map].
          - split; [|split; [reflexivity|]].
            + cbn. rewrite qget_qset_same. unfold remove_model_list. auto.
            + intros k' Nk. cbn. apply qget_qset_other. exact Nk.
          - split; [|split; [reflexivity|]].
            + cbn. rewrite qget_qset_same. cbn [map]. unfold remove_model_list.
              rewrite filter_map_to_q. auto.
            + intros k' Nk. cbn. apply qget_qset_other. exact Nk. }
        destruct R1 as (R1&S1&O1).
        destruct (IH cur (S k) _ _ R1 Hr) as (A&B&C). split; [exact A|]. split; [rewrite B; exact S1|].
        intros k' Nk. rewrite (C k' Nk). apply O1. exact Nk.
  Qed.

  Hypothesis TOK : targets_ok.

  (* the drain loop of _process_async is the abstract drain loop *)
  Lemma adrain_refines fuel : forall w s,
    R w s ->
    match adrain fuel key w with
    | None => drain qstep qpayload fuel (aw_states w) s = None
    | Some (bs, x, w') =>
        exists s', drain qstep qpayload fuel (aw_states w) s = Some (map to_block bs, x, aw_states w', s') /\
                   R w' s' /\
                   (forall k', k' <> key -> qget (aw_queues w') k' = qget (aw_queues w) k')
    end.
  Proof.
    induction fuel as [|f IH]; intros w s HR; cbn [Async.adrain drain]; [reflexivity|].
    destruct HR as (Q&N&M).
    destruct (qget (aw_queues w) key) as [|h tl0] eqn:G; rewrite Q; cbn [map].
    - exists s. split; [reflexivity|]. split; [unfold R; rewrite G; auto|auto].
    - pose proof (astep_qstep w h) as S1. pose proof (TOK (aw_states w) (to_q h)) as T1.
      destruct (astep w h) as [[tr r] w1]. destruct S1 as (S1&S2&S3&S4). rewrite S1 in T1 |- *. cbn [fst snd] in T1.
      assert (R1 : R w1 s) by (unfold R; rewrite S2, S3, S4, G; auto).
      destruct (enqueue_refines (acts_of_trace tr) h 0 w1 s R1 T1) as (R2&St&Oth).
      set (w2 := enqueue_acts h 0 (acts_of_trace tr) w1) in *.
      set (s1 := apply_actions qpayload (to_q h) 0 (acts_of_trace tr) s) in *.
      destruct R2 as (Q2&N2&M2).
      destruct r as [b|e]; cbn [exn_of].
      + set (w3 := mkAW (aw_states w2) (qset (aw_queues w2) key (tl (qget (aw_queues w2) key))) (aw_next w2) (aw_models w2)).
        set (s2 := mkQS (tl (qs_queue s1)) (qs_models s1) (qs_next s1) (qs_dropped s1)).
        assert (R3 : R w3 s2).
        { unfold R, w3, s2. cbn. rewrite qget_qset_same, Q2, map_tl. auto. }
        specialize (IH w3 s2 R3). replace (aw_states w3) with (aw_states w1) in IH by (unfold w3; cbn; auto).
        destruct (adrain f key w3) as [[[bs x] w4]|].
        * destruct IH as (s'&D&R4&O4). rewrite D. exists s'. split; [reflexivity|]. split; [exact R4|].
          intros k' Nk. rewrite (O4 k' Nk). unfold w3. cbn [aw_queues]. rewrite (qget_qset_other _ _ _ _ Nk).
          rewrite (Oth k' Nk), S2. reflexivity.
        * rewrite IH. reflexivity.
      + eexists. split; [rewrite <- St; reflexivity|]. split.
        * unfold R. cbn. rewrite qget_qset_same. auto.
        * intros k' Nk. cbn [aw_queues]. rewrite (qget_qset_other _ _ _ _ Nk), (Oth k' Nk), S2. reflexivity.
  Qed.

  (* ---- corollaries: the theorems of C05 for the asynchronous queue *)
  Lemma aids_qids w s : R w s -> qids s = aids (qget (aw_queues w) key).
  Proof. intros (Q&_&_). unfold qids, aids. rewrite Q, map_map. reflexivity. Qed.
  Lemma abids_bids bs : bids (map to_block bs) = abids bs.
  Proof. unfold bids, abids. rewrite map_map. reflexivity. Qed.

  Definition abs_state (w : aworld) : qstate := mkQS (map to_q (qget (aw_queues w) key)) (aw_models w) (aw_next w) [].
  Lemma R_abs w : R w (abs_state w).
  Proof. unfold R, abs_state. cbn. auto. Qed.

  Lemma adrain_fifo_once fuel w lo bs x w' :
    within lo (aw_next w) (aids (qget (aw_queues w) key)) ->
    adrain fuel key w = Some (bs, x, w') ->
    within lo (aw_next w') (abids bs ++ aids (qget (aw_queues w') key)) /\ aw_next w <= aw_next w'.
  Proof.
    intros Wn D. pose proof (adrain_refines fuel w (abs_state w) (R_abs w)) as H. rewrite D in H.
    destruct H as (s'&Dq&R'&_).
    apply (drain_within qstep qpayload fuel _ _ lo) in Dq.
    - rewrite abids_bids, (aids_qids _ _ R') in Dq. destruct R' as (_&N'&_). rewrite N' in Dq. exact Dq.
    - rewrite (aids_qids _ _ (R_abs w)). exact Wn.
  Qed.

  Lemma adrain_raise_discards fuel w bs x w' :
    adrain fuel key w = Some (bs, x, w') ->
    qget (aw_queues w') key = [] /\
    match x with
    | None => Forall (fun b => exn_of (ab_result b) = None) bs
    | Some e => exists bs0 b, bs = bs0 ++ [b] /\ ab_result b = AwExn e /\
                              Forall (fun b => exn_of (ab_result b) = None) bs0
    end.
  Proof.
    intros D. pose proof (adrain_refines fuel w (abs_state w) (R_abs w)) as H. rewrite D in H.
    destruct H as (s'&Dq&R'&_).
    destruct (drain_outcome qstep qpayload fuel _ _ _ _ _ _ Dq) as (E1&E2). split.
    - destruct R' as (Q'&_&_). rewrite E1 in Q'. destruct (qget (aw_queues w') key); [reflexivity|discriminate].
    - destruct x as [e|].
      + destruct E2 as (qb0&qb&Eb&Hb&Hf).
        destruct (@exists_last _ bs) as (bs0&b&->).
        { intros ->. destruct qb0; discriminate. }
        rewrite map_app in Eb. cbn [map] in Eb. apply app_inj_tail in Eb. destruct Eb as [E0 Eq]. subst qb0 qb.
        exists bs0, b. split; [reflexivity|]. split.
        * cbn in Hb. destruct (ab_result b); cbn in Hb; congruence.
        * rewrite Forall_map in Hf. exact Hf.
      + rewrite Forall_map in E2. exact E2.
  Qed.

  (* a trigger arriving at the idle deque *)
  Lemma atop_refines fuel w m e a ts :
    lookup (m_events mc) e = Some ts -> md <> QOff -> qkey md m = key ->
    qget (aw_queues w) key = [] ->
    match atop_trigger mc ev suspf md fuel w m e a with
    | None => top_trigger qstep qpayload fuel (aw_states w) (abs_state w) m e a = None
    | Some (bs, r, w') =>
        exists x s', top_trigger qstep qpayload fuel (aw_states w) (abs_state w) m e a
                       = Some (map to_block bs, x, aw_states w', s') /\
                     R w' s' /\ r = match x with Some ex => AwExn ex | None => AwRet true end
    end.
  Proof.
    intros L NQ K G. unfold atop_trigger, top_trigger. rewrite L, (md_not_off md _ _ NQ).
    rewrite K; cbn [aw_queues aw_states aw_next aw_models]; rewrite G; cbn [app].
    set (w1 := mkAW (aw_states w) (qset (aw_queues w) key [mkAE (aw_next w) m e a]) (S (aw_next w)) (aw_models w)).
    set (s1 := mkQS _ _ _ _).
    assert (R1 : R w1 s1) by (unfold R, w1, s1, abs_state; cbn; rewrite qget_qset_same, G; cbn; auto).
    pose proof (adrain_refines fuel w1 s1 R1) as H; change (aw_states w1) with (aw_states w) in H.
    destruct (adrain fuel key w1) as [[[bs x] w2]|]; [|exact H].
    destruct H as (s'&D&R'&_); destruct x as [ex|]; eexists _, s'; (split; [exact D|split; [exact R'|reflexivity]]).
  Qed.

  Lemma atop_fifo fuel w m e a ts bs r w' :
    lookup (m_events mc) e = Some ts -> md <> QOff -> qkey md m = key ->
    qget (aw_queues w) key = [] ->
    atop_trigger mc ev suspf md fuel w m e a = Some (bs, r, w') ->
    within (aw_next w) (aw_next w') (abids bs) /\ NoDup (abids bs) /\ qget (aw_queues w') key = [] /\
    (exists b rest, bs = b :: rest /\ ab_entry b = mkAE (aw_next w) m e a).
  Proof.
    intros L NQ K G D. pose proof (atop_refines fuel w m e a ts L NQ K G) as H. rewrite D in H.
    destruct H as (x&s'&T&R'&_).
    apply top_trigger_fifo in T; [|unfold abs_state; cbn; rewrite G; reflexivity].
    destruct T as (T1&T2&T3&b&rest&T4&T5). rewrite abids_bids in T1, T2. destruct R' as (Q'&N'&_).
    cbn [abs_state qs_next] in T1. rewrite N' in T1. split; [exact T1|]. split; [exact T2|]. split.
    - rewrite T3 in Q'. destruct (qget (aw_queues w') key); [reflexivity|discriminate].
    - destruct bs as [|b0 rest0]; [discriminate|]. cbn [map] in T4. injection T4 as Hb _. subst b.
      exists b0, rest0. split; [reflexivity|]. destruct (ab_entry b0) as [i mm ee pp] eqn:Eb.
      unfold to_block, to_q, abs_state in T5. rewrite Eb in T5. cbn in T5. injection T5 as -> -> -> ->. reflexivity.
  Qed.
End Refine.

(* queued=True: every trigger goes to the one shared deque *)
Lemma targets_ok_all mc ev suspf : targets_ok mc ev suspf QAll 0.
Proof.
  intros sts q. apply Forall_forall. intros a _. destruct a; cbn; auto.
Qed.

(* a trigger arriving while its deque is busy: appended, True at once, nothing processed *)
Lemma atop_busy mc ev suspf md fuel w m e a ts h tl :
  lookup (m_events mc) e = Some ts -> md <> QOff ->
  qget (aw_queues w) (qkey md m) = h :: tl ->
  atop_trigger mc ev suspf md fuel w m e a =
    Some ([], AwRet true,
          mkAW (aw_states w) (qset (aw_queues w) (qkey md m) (h :: tl ++ [mkAE (aw_next w) m e a])) (S (aw_next w)) (aw_models w)).
Proof.
  intros L NQ G. unfold atop_trigger. rewrite L, (md_not_off md _ _ NQ). cbn [aw_queues aw_states aw_next aw_models]. rewrite G. reflexivity.
Qed.

(* non-vacuity: one callback of the first event awaits two triggers; they are processed after it, in order *)
Definition mc_q : machine :=
  mkMachine [(0, mkSdef [] [] false None); (1, mkSdef [] [] false None)]
            [(0, [mkTrans 0 (Some 1) [] [] [1] []; mkTrans 1 (Some 0) [] [] [] [2]])]
            [] [] [] [3] [] [] false false.
Definition ev_q : env := fun cb p => mkReply true None (if Nat.eqb cb 1 && Nat.eqb p 100 then [ATrigger 0 0; ATrigger 0 0] else []).

Lemma queue_example :
  match atop_trigger mc_q ev_q (fun _ _ => 1) QPerModel 10 (mkAW [(0, 0)] [] 0 [0]) 0 0 100 with
  | Some (bs, r, w') => abids bs = [0; 1; 2] /\ map (fun b => ae_payload (ab_entry b)) bs = [100; 1000; 1001] /\
                        r = AwRet true /\ aw_states w' = [(0, 1)] /\ aw_next w' = 3
  | None => False
  end.
Proof. vm_compute. auto 10. Qed.

(* remove_model(m) from a callback, queued=True: the event in progress stays at the head, exactly the pending
   events of m disappear (in order), every other pending event stays, the arrival counter and the other deques
   are untouched, m is unregistered; an unregistered m: nothing happens *)
Lemma aremove_exact m w h tl :
  qget (aw_queues w) 0 = h :: tl -> existsb (Nat.eqb m) (aw_models w) = true ->
  let w' := aremove_model QAll m w in
  qget (aw_queues w') 0 = h :: filter (fun x => negb (Nat.eqb (ae_model x) m)) tl /\
  (forall x, In x (qget (aw_queues w') 0) <-> x = h \/ (In x tl /\ ae_model x <> m)) /\
  aw_next w' = aw_next w /\ aw_states w' = aw_states w /\
  aw_models w' = filter (fun x => negb (Nat.eqb x m)) (aw_models w).
Proof.
  intros G M. unfold aremove_model. rewrite M, G. cbn. rewrite qget_qset_same.
  split; [reflexivity|]. split; [|auto].
  intros x. cbn [In]. rewrite filter_In. split.
  - intros [->|[H1 H2]]; [now left|]. right. split; [exact H1|].
    apply negb_true_iff, Nat.eqb_neq in H2. exact H2.
  - intros [->|[H1 H2]]; [now left|]. right. split; [exact H1|].
    apply negb_true_iff, Nat.eqb_neq. exact H2.
Qed.
Lemma aremove_unregistered m w :
  existsb (Nat.eqb m) (aw_models w) = false -> aremove_model QAll m w = w.
Proof. intros M. unfold aremove_model. rewrite M. reflexivity. Qed.
