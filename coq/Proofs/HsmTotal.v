(* HsmTotal.v — C03 / C12: a hierarchical trigger never fails internally.  When no callback raises, every
   destination is a registered state of its declaring scope, and the configuration has unique sibling names and
   names registered states only, processing an event raises nothing but the invalid-trigger errors of
   _check_event_result (MachineError / AttributeError) - in particular never ValueError / KeyError-like failures
   of the engine itself, whatever the state tree, the parallel regions and the scopes involved - and the
   configuration afterwards is again good.  Consequence: may_<event> predicts the trigger unconditionally. *)
From Coq Require Import List Arith Bool Lia.
From M Require Import Base Flat Hsm HsmSpec.
From P Require Import MonadP HsmForest HsmResolve HsmReach HsmOffer HsmInit HsmIff HsmDecl.
Import ListNotations.

Section Total.
  Variable hm : hmachine.
  Variable ev : env.
  Variable c : ctx.
  Variable e : event.
  Notation HM := (M (V:=forest) (S:=forest)).
  Notation ids := (fun s : forest => s).
  Local Opaque def_depth_bound.

  Hypothesis NR : forall cb q, r_raise (ev cb q) = None.
  Hypothesis WF : wf_defs hm = true.
  (* every destination names a state of the scope the transition is declared in *)
  Hypothesis DST : forall sc ev0 ts t d, lookup (scope_events hm sc) ev0 = Some ts -> In t ts -> ht_dst t = Some d ->
                                         find_def (scope_children hm sc) d <> None.

  Definition good (f : forest) : Prop := uniq f = true /\ reg hm f.
  Definition actS (f : forest) (sc : path) : Prop := exists g, sub f sc = Some g.

  (* started in a good configuration in which scope sc is active: no exception, good again, sc still active *)
  Definition nx (sc : path) {A} (m : HM A) : Prop :=
    forall p s tr s' r, good s -> actS s sc -> m p s = (tr, s', r) ->
      (exists a, r = inr a) /\ good s' /\ actS s' sc.

  Lemma nx_ret sc {A} (a : A) : nx sc (ret a).
  Proof. intros p s tr s' r G Ac H. unfold ret in H. injection H as _ <- <-. eauto. Qed.
  Lemma nx_get sc : nx sc (@get forest forest).
  Proof. intros p s tr s' r G Ac H. unfold get in H. injection H as _ <- <-. eauto. Qed.
  Lemma nx_bind sc {A B} (m : HM A) (k : A -> HM B) : nx sc m -> (forall a, nx sc (k a)) -> nx sc (bind m k).
  Proof.
    intros Hm Hk p s tr s' r G Ac H. unfold bind in H. destruct (m p s) as [[t1 s1] r1] eqn:E1.
    destruct (Hm _ _ _ _ _ G Ac E1) as ([a ->] & G1 & A1).
    destruct (k a (p + length t1) s1) as [[t2 s2] r2] eqn:E2. injection H as _ <- <-. eapply Hk; eauto.
  Qed.
  Lemma nx_get_bind sc {B} (k : forest -> HM B) :
    (forall f, good f -> actS f sc -> forall p tr s' r, k f p f = (tr, s', r) -> (exists a, r = inr a) /\ good s' /\ actS s' sc) ->
    nx sc (bind get k).
  Proof.
    intros Hk p s tr s' r G Ac H. unfold bind, get in H. cbn [length] in H.
    destruct (k s (p + 0) s) as [[t2 s2] r2] eqn:E2. injection H as _ <- <-. eapply Hk; eauto.
  Qed.
  Lemma nx_call sc sl err cb : nx sc (call ids ev c sl err cb).
  Proof. intros p s tr s' r G Ac H. unfold call in H. rewrite NR in H. injection H as _ <- <-. eauto. Qed.
  Lemma nx_run_cbs sc sl err cbs : nx sc (run_cbs ids ev c sl err cbs).
  Proof. induction cbs as [|cb r IH]; cbn [run_cbs]; [apply nx_ret|]. apply nx_bind; [apply nx_call|intros _; exact IH]. Qed.
  Lemma nx_eval_conds sc conds : nx sc (eval_conds ids ev c conds).
  Proof.
    induction conds as [|[cb tg] r IH]; cbn [eval_conds]; [apply nx_ret|].
    apply nx_bind; [apply nx_call|intros v]. destruct (Bool.eqb v tg); [exact IH|apply nx_ret].
  Qed.

  (* callbacks of registered states *)
  Lemma nx_run_exits sc ps : (forall q, In q ps -> defs_at hm q <> None) -> nx sc (run_exits hm ev c ps).
  Proof.
    induction ps as [|q r IH]; intros D; cbn [run_exits]; [apply nx_ret|].
    destruct (defs_at hm q) eqn:E; [|exfalso; eapply D; [now left|exact E]].
    apply nx_bind; [apply nx_run_cbs|intros _]. apply IH. intros q' I. apply D. now right.
  Qed.
  Lemma nx_run_enters sc ps : (forall q, In q ps -> defs_at hm q <> None) -> nx sc (run_enters hm ev c ps).
  Proof.
    induction ps as [|q r IH]; intros D; cbn [run_enters]; [apply nx_ret|].
    destruct (defs_at hm q) eqn:E; [|exfalso; eapply D; [now left|exact E]].
    apply nx_bind; [apply nx_run_cbs|intros _]. apply IH. intros q' I. apply D. now right.
  Qed.
  Lemma nx_run_onfinal sc l : nx sc (run_onfinal ev c l).
  Proof. induction l as [|cbs r IH]; cbn [run_onfinal]; [apply nx_ret|]. apply nx_bind; [apply nx_run_cbs|intros _; exact IH]. Qed.

  Lemma actS_prefix f a b : actS f (a ++ b) -> actS f a.
  Proof. intros [g H]. rewrite sub_app in H. unfold actS. destruct (sub f a) as [g0|]; [exists g0; reflexivity|discriminate]. Qed.

  Lemma sub_active f p g : p <> [] -> sub f p = Some g -> active f p = true.
  Proof. intros _ H. unfold active. now rewrite H. Qed.

  (* what a resolution exits and enters is registered; the scope stays active *)
  Lemma resolve_total f sc dst dd r :
    good f -> actS f sc -> find_def (scope_children hm sc) dst = Some dd -> resolve f sc dst dd = Some r ->
    (forall q, In q (r_exits r) -> defs_at hm q <> None) /\
    (forall q, In q (r_enters r) -> defs_at hm q <> None) /\
    good (r_new r) /\ actS (r_new r) sc.
  Proof.
    intros [U RG] [cur S] FD R.
    assert (ND : dst <> []) by (intros ->; destruct (scope_children hm sc); discriminate).
    assert (SCR : sc = [] \/ exists ds, find_def (hm_states hm) sc = Some ds).
    { destruct sc as [|s0 sc']; [now left|right]. apply RG; [discriminate|]. unfold active. now rewrite S. }
    pose proof (scope_children_find hm sc dst dd SCR ND FD) as FDA.
    assert (UB : uniq (initial_tree def_depth_bound dd) = true).
    { apply initial_tree_uniq. eapply find_def_wf; [|exact FD]. now apply scope_children_wf. }
    assert (GN : good (r_new r)).
    { unfold good. split; [exact (resolve_uniq f sc dst dd r U UB R)|exact (resolve_reg hm f sc dst dd r WF RG FD R)]. }
    pose proof R as R0. unfold resolve in R.
    destruct (split_active f sc dst) as [root rest] eqn:SA.
    destruct (split_active_spec f sc dst root rest cur ND S SA) as (E & RN & _ & _).
    destruct (sub f (sc ++ root)) as [scoped|] eqn:SB; [|discriminate]. injection R as <-. cbn [r_exits r_enters r_new] in *.
    destruct rest as [|d0 rt]; [congruence|]. cbn [hd tl] in *.
    set (bottom := initial_tree def_depth_bound dd) in *.
    assert (REGP : forall x, x <> [] -> (exists y, d0 :: rt = x ++ y) -> defs_at hm ((sc ++ root) ++ x) <> None).
    { intros x XN [y XY]. unfold defs_at.
      assert (EQ : sc ++ dst = ((sc ++ root) ++ x) ++ y) by (rewrite <- E, XY, <- !app_assoc; reflexivity).
      rewrite EQ in FDA. destruct y as [|y0 y'].
      - rewrite app_nil_r in FDA. rewrite FDA. discriminate.
      - destruct (find_def_prefix ((sc ++ root) ++ x) (hm_states hm) (y0 :: y') dd) as [d' H]; [|exact FDA|rewrite H; discriminate].
        destruct ((sc ++ root)); [exact XN|discriminate]. }
    split; [|split; [|split; [exact GN|]]].
    - (* exits *)
      intros q I. apply in_map_app_form in I as (x & -> & Ix). apply in_resolve_order in Ix.
      assert (XN : x <> []) by (intros ->; eapply nil_notin_nodes; eauto).
      destruct (Nat.ltb 1 (length scoped)).
      + destruct (f_get scoped d0) as [ch|] eqn:G0.
        * (* the destination's branch is active: its nodes are active states *)
          assert (UC : uniq [Node d0 ch] = true).
          { apply uniq_single. eapply uniq_child; [eapply uniq_sub; [exact U|exact SB]|]. eapply f_get_In. exact G0. }
          apply (in_nodes_active x _ UC) in Ix as [_ Ax].
          destruct x as [|k x']; [congruence|].
          assert (k = d0).
          { unfold active in Ax. cbn [sub f_get t_name] in Ax. destruct (Nat.eqb d0 k) eqn:EQ; [apply Nat.eqb_eq in EQ; auto|discriminate]. }
          subst k. rewrite active_single in Ax.
          assert (AF : active f ((sc ++ root) ++ d0 :: x') = true).
          { rewrite active_app, SB. unfold active. cbn [sub]. rewrite G0. exact Ax. }
          destruct (RG ((sc ++ root) ++ d0 :: x')) as [d' H]; [destruct (sc ++ root); discriminate|exact AF|].
          unfold defs_at. rewrite H. discriminate.
        * (* the destination's branch is not active (subset-initial parallel state): only that child, registered *)
          cbn in Ix. destruct Ix as [<-|[]]. apply REGP; [discriminate|]. exists rt. reflexivity.
      + apply (in_nodes_active x _ (uniq_sub _ _ _ U SB)) in Ix as [_ Ax].
        assert (AF : active f ((sc ++ root) ++ x) = true) by (rewrite active_app, SB; exact Ax).
        destruct (RG ((sc ++ root) ++ x)) as [d' H]; [destruct (sc ++ root); [exact XN|discriminate]|exact AF|].
        unfold defs_at. rewrite H. discriminate.
    - (* enters *)
      intros q I. apply in_app_or in I as [I|I].
      + apply in_prefixes_from in I as (x & y & XN & XY & ->). apply REGP; [exact XN|eauto].
      + apply in_map_iff in I as (x & <- & Ix). apply in_bfs in Ix.
        assert (XN : x <> []) by (intros ->; eapply nil_notin_nodes; eauto).
        destruct (initial_tree_registered _ _ _ Ix) as [d' FD'].
        unfold defs_at. replace ((sc ++ root) ++ (d0 :: rt) ++ x) with ((sc ++ dst) ++ x) by (rewrite <- E, <- !app_assoc; reflexivity).
        rewrite (find_def_app (sc ++ dst) _ x dd); [rewrite FD'; discriminate| |exact XN|exact FDA].
        destruct sc; [exact ND|discriminate].
    - (* the scope stays active *)
      destruct root as [|r0 root'].
      + rewrite app_nil_r in *. exists (if Nat.ltb 1 (length scoped) then f_set scoped d0 (chain_tree rt bottom) else chain_tree (d0 :: rt) bottom).
        rewrite <- (app_nil_r sc) at 2. rewrite (sub_update_below _ _ _ _ _ SB). reflexivity.
      + destruct (sub_update_prefix sc f (fun _ => if Nat.ltb 1 (length scoped) then f_set scoped d0 (chain_tree rt bottom)
                                                       else chain_tree (d0 :: rt) bottom) r0 root' scoped SB) as (x & Hx & _).
        exists x. exact Hx.
  Qed.

  Lemma nx_change_state sc dst : find_def (scope_children hm sc) dst <> None -> nx sc (change_state hm ev c sc dst).
  Proof.
    intros FDN. unfold change_state. destruct (find_def (scope_children hm sc) dst) as [dd|] eqn:FD; [|congruence].
    intros p s tr s' r G Ac H. unfold bind at 1 in H. unfold get at 1 in H. cbn [length] in H.
    destruct (resolve s sc dst dd) as [res|] eqn:RS.
    - destruct (resolve_total s sc dst dd res G Ac FD RS) as (DX & DE & GN & AN).
      destruct ((run_exits hm ev c (r_exits res);;; put (r_new res);;; run_enters hm ev c (r_enters res);;;
                 run_onfinal ev c (final_check_root hm (r_new res) (r_enters res))) (p + 0) s) as [[t2 s2] r2] eqn:E2.
      injection H as _ <- <-. unfold bind at 1 in E2.
      destruct (run_exits hm ev c (r_exits res) (p + 0) s) as [[t3 s3] r3] eqn:E3.
      destruct (nx_run_exits sc _ DX _ _ _ _ _ G Ac E3) as ([[] ->] & G3 & A3).
      unfold bind at 1 in E2. unfold put at 1 in E2. cbn [length] in E2.
      destruct ((run_enters hm ev c (r_enters res);;;
                 run_onfinal ev c (final_check_root hm (r_new res) (r_enters res))) (p + 0 + length t3 + 0) (r_new res))
        as [[t4 s4] r4] eqn:E4.
      injection E2 as _ <- <-.
      assert (P : nx sc (run_enters hm ev c (r_enters res) ;;; run_onfinal ev c (final_check_root hm (r_new res) (r_enters res))))
        by (apply nx_bind; [apply nx_run_enters; exact DE|intros _; apply nx_run_onfinal]).
      exact (P _ _ _ _ _ GN AN E4).
    - (* resolve fails only when the scope is not active *)
      exfalso. destruct Ac as [cur S]. unfold resolve in RS.
      assert (ND : dst <> []) by (intros ->; destruct (scope_children hm sc); discriminate).
      destruct (split_active s sc dst) as [root rest] eqn:SA.
      destruct (split_active_spec s sc dst root rest cur ND S SA) as (_ & _ & A & _).
      unfold active in A. destruct (sub s (sc ++ root)); [discriminate|discriminate].
  Qed.

  Lemma nx_execute sc t : (forall d, ht_dst t = Some d -> find_def (scope_children hm sc) d <> None) -> nx sc (execute hm ev c sc t).
  Proof.
    intros D. unfold execute. apply nx_bind; [apply nx_run_cbs|intros _].
    apply nx_bind; [apply nx_eval_conds|intros ok]. destruct ok; [|apply nx_ret].
    apply nx_bind; [apply nx_run_cbs|intros _]. apply nx_bind; [apply nx_run_cbs|intros _].
    apply nx_bind; [destruct (ht_dst t) as [d|]; [apply nx_change_state; now apply D|apply nx_ret]|intros _].
    apply nx_bind; [apply nx_run_cbs|intros _]. apply nx_bind; [apply nx_run_cbs|intros _]. apply nx_ret.
  Qed.
  Lemma nx_try sc ts : (forall t d, In t ts -> ht_dst t = Some d -> find_def (scope_children hm sc) d <> None) ->
    nx sc (try_transitions hm ev c sc ts).
  Proof.
    induction ts as [|t r IH]; intros D; cbn [try_transitions]; [apply nx_ret|].
    apply nx_bind; [apply nx_execute; intros d; apply D; now left|intros ok].
    destruct ok; [apply nx_ret|apply IH; intros t' d I; apply D; now right].
  Qed.
  Lemma nx_offer_loop_gen attempt hc sc order : (forall q, nx sc (attempt q)) ->
    forall done result, nx sc (offer_loop_gen attempt hc sc order done result).
  Proof.
    intros HA. induction order as [|q rest IH]; intros done result; cbn [offer_loop_gen]; [apply nx_ret|].
    destruct (orb _ _); [apply IH|]. apply nx_bind; [apply nx_get|intros f].
    destruct (negb (active f (sc ++ q))); [apply IH|].
    apply nx_bind; [apply HA|intros ok]. apply nx_bind; [destruct ok; apply IH|intros r; apply nx_ret].
  Qed.
  Lemma nx_trigger_nested sc ts key : lookup (scope_events hm sc) e = Some ts -> nx sc (trigger_nested hm ev c sc ts key).
  Proof.
    intros L. unfold trigger_nested. apply nx_get_bind. intros f G [cur S] p tr s' r H. rewrite S in H.
    assert (P : nx sc (r0 <- offer_loop hm ev c sc ts (resolve_order match f_get cur key with Some ch => [Node key ch] | None => [] end) [] None ;; ret (fst r0))).
    { apply nx_bind; [|intros r0; apply nx_ret]. unfold offer_loop. apply nx_offer_loop_gen. intros q.
      apply nx_bind; [apply nx_run_cbs|intros _]. apply nx_try. intros t d I. apply (DST sc e ts t d L).
      unfold cands in I. apply filter_In in I. tauto. }
    exact (P _ _ _ _ _ G (ex_intro _ cur S) H).
  Qed.

  Definition tail_of (sc : path) (key : nat) (r1 : option bool) : HM (option bool) :=
    match r1 with
    | Some true => ret r1
    | _ => match lookup (scope_events hm sc) e with
           | None => ret r1
           | Some ts => r2 <- trigger_nested hm ev c sc ts key ;; ret (match r2 with None => r1 | Some b => Some b end)
           end
    end.

  Lemma bind_cong_l {A B} (m1 m2 : HM A) (k : A -> HM B) : (forall p s, m1 p s = m2 p s) -> forall p s, bind m1 k p s = bind m2 k p s.
  Proof. intros H p s. unfold bind. rewrite H. reflexivity. Qed.
  Lemma bind_cong_r {A B} (m : HM A) (k1 k2 : A -> HM B) : (forall a p s, k1 a p s = k2 a p s) -> forall p s, bind m k1 p s = bind m k2 p s.
  Proof. intros H p s. unfold bind. destruct (m p s) as [[t1 s1] [x|a]]; [reflexivity|]. rewrite H. reflexivity. Qed.

  Lemma dispatch_t_shape sc key ch p s :
    dispatch_t hm ev c e sc (Node key ch) p s =
      (f <- get ;;
       if negb (active f (sc ++ [key])) then ret None
       else r1 <- dispatch_f hm ev c e (sc ++ [key]) ch None ;; tail_of sc key r1) p s.
  Proof.
    cbn [dispatch_t]. apply bind_cong_r. intros f p0 s0. destruct (negb (active f (sc ++ [key]))); [reflexivity|].
    match goal with |- bind ?M1 ?K1 p0 s0 = _ => change (bind M1 (tail_of sc key) p0 s0 = bind (dispatch_f hm ev c e (sc ++ [key]) ch None) (tail_of sc key) p0 s0) end.
    apply bind_cong_l. intros p1 s1. destruct ch as [|c0 r0]; [reflexivity|]. exact (dispatch_go_eq hm ev c e sc key (c0 :: r0) None p1 s1).
  Qed.

  Lemma nx_tail sc key r1 : nx sc (tail_of sc key r1).
  Proof.
    unfold tail_of. destruct r1 as [[|]|]; try apply nx_ret;
      (destruct (lookup (scope_events hm sc) e) as [ts|] eqn:L; [|apply nx_ret];
       apply nx_bind; [now apply nx_trigger_nested|intros r2'; apply nx_ret]).
  Qed.

  Lemma nx_dispatch_t : forall t sc, nx sc (dispatch_t hm ev c e sc t).
  Proof.
    induction t as [key ch IH] using tree_ind2. intros sc p s tr s' r G Ac H. rewrite dispatch_t_shape in H.
    unfold bind at 1 in H. unfold get at 1 in H. cbn [length] in H.
    destruct (negb (active s (sc ++ [key]))) eqn:AK.
    - unfold ret in H. injection H as _ <- <-. eauto.
    - apply negb_false_iff in AK.
      assert (AcK : actS s (sc ++ [key])) by (unfold actS; unfold active in AK; destruct (sub s (sc ++ [key])) as [g|]; [exists g; reflexivity|discriminate]).
      destruct ((r1 <- dispatch_f hm ev c e (sc ++ [key]) ch None;; tail_of sc key r1) (p + 0) s) as [[t2 s2] r2] eqn:E2.
      injection H as _ <- <-. unfold bind at 1 in E2.
      destruct (dispatch_f hm ev c e (sc ++ [key]) ch None (p + 0) s) as [[t3 s3] r3] eqn:E3.
      assert (DF : forall l acc, Forall (fun t => forall sc, nx sc (dispatch_t hm ev c e sc t)) l ->
                                 nx (sc ++ [key]) (dispatch_f hm ev c e (sc ++ [key]) l acc)).
      { induction l as [|t' l' IHl]; intros acc HF; cbn [dispatch_f]; [apply nx_ret|].
        inversion HF as [|? ? H1 H2]; subst. apply nx_bind; [apply H1|intros x; apply IHl; exact H2]. }
      destruct (DF ch None IH _ _ _ _ _ G AcK E3) as ([r1 ->] & G3 & A3). pose proof (actS_prefix _ _ _ A3) as A3'.
      destruct (tail_of sc key r1 (p + 0 + length t3) s3) as [[t4 s4] r4] eqn:E4. injection E2 as _ <- <-.
      exact (nx_tail sc key r1 _ _ _ _ _ G3 A3' E4).
  Qed.

  Lemma nx_dispatch_f sc l : forall acc, nx sc (dispatch_f hm ev c e sc l acc).
  Proof.
    induction l as [|t r IH]; intros acc; cbn [dispatch_f]; [apply nx_ret|].
    apply nx_bind; [apply nx_dispatch_t|intros x; apply IH].
  Qed.


  (* ---------- the active leaves are registered ---------- *)
  Lemma leaves_t_shape : forall t, uniq_t t = true ->
    forall p, In p (leaves_t t) -> exists q, p = t_name t :: q /\ (q = [] \/ active (t_children t) q = true).
  Proof.
    induction t as [n ch IH] using tree_ind2. intros U p I. cbn [t_name t_children].
    destruct ch as [|c0 r0].
    - cbn [leaves_t] in I. destruct I as [<-|[]]. exists []. auto.
    - assert (I' : In p (map (cons n) (flat_map leaves_t (c0 :: r0)))) by exact I. clear I.
      apply in_map_iff in I' as (q' & <- & Iq). apply in_flat_map in Iq as (t' & It & Iq).
      cbn [uniq_t] in U. apply andb_true_iff in U as [U1 U2].
      rewrite Forall_forall in IH. rewrite forallb_forall in U2.
      destruct (IH t' It (U2 t' It) q' Iq) as (q'' & -> & Hq). exists (t_name t' :: q''). split; [reflexivity|right].
      unfold active. cbn [sub]. destruct t' as [k ch']. cbn [t_name t_children] in *.
      rewrite (In_f_get (c0 :: r0) k ch' U1 It). destruct Hq as [->|Hq]; [reflexivity|exact Hq].
  Qed.

  Lemma leaves_active f : uniq f = true -> forall p, In p (leaves f) -> p <> [] /\ active f p = true.
  Proof.
    intros U p I. unfold leaves in I. apply in_flat_map in I as (t & It & Ip).
    unfold uniq in U. apply andb_true_iff in U as [U1 U2]. rewrite forallb_forall in U2.
    destruct (leaves_t_shape t (U2 t It) p Ip) as (q & -> & Hq). split; [discriminate|].
    unfold active. cbn [sub]. destruct t as [k ch]. cbn [t_name t_children] in *.
    rewrite (In_f_get f k ch U1 It). destruct Hq as [->|Hq]; [reflexivity|exact Hq].
  Qed.

  Lemma check_leaves_ok : forall ls p s tr s' r, (forall q, In q ls -> defs_at hm q <> None) ->
    check_leaves hm e ls p s = (tr, s', r) ->
    tr = [] /\ s' = s /\ (r = inr false \/ r = inl MachineError \/ r = inl AttributeError).
  Proof.
    induction ls as [|l0 rest IH]; intros p s tr s' r D H; cbn [check_leaves] in H.
    - unfold ret in H. injection H as <- <- <-. auto.
    - destruct (defs_at hm l0) as [d|] eqn:E; [|exfalso; eapply D; [now left|exact E]].
      destruct (match sd_ignore d with Some b0 => b0 | None => hm_ignore hm end).
      + apply IH in H; [exact H|]. intros q I. apply D. now right.
      + destruct (has_trigger hm e); unfold raise in H; injection H as <- <- <-; auto.
  Qed.

  (* ---------- the whole event ---------- *)
  Theorem body_total p f tr f' r : good f ->
    trigger_body hm ev c e p f = (tr, f', r) ->
    good f' /\
    (forall x, r = inl x -> (x = MachineError \/ x = AttributeError) /\ ~ declares hm e f).
  Proof.
    intros G H. unfold trigger_body in H. unfold bind at 1 in H. unfold get at 1 in H. cbn [length] in H.
    unfold bind at 1 in H.
    destruct (dispatch_f hm ev c e [] f None (p + 0) f) as [[t1 s1] r1] eqn:D.
    destruct (nx_dispatch_f [] f None _ _ _ _ _ G (ex_intro _ f eq_refl) D) as ([r0 ->] & G1 & _).
    destruct r0 as [b|].
    - unfold ret in H. injection H as _ <- <-. split; [exact G1|]. intros x X. discriminate.
    - destruct (dispatch_none_iff hm ev c e _ _ _ _ _ (proj1 G) D) as [I1 I2].
      destruct (I2 eq_refl) as [-> ->]. cbn [length app] in H. unfold bind, get in H. cbn [length] in H.
      destruct (check_leaves hm e (leaves f) (p + 0 + 0 + 0) f) as [[t3 s3] r3] eqn:CL. injection H as _ <- <-.
      apply check_leaves_ok in CL as (-> & -> & R3).
      + split; [exact G|]. intros x X. split; [|apply I1; reflexivity].
        destruct R3 as [R3|[R3|R3]]; rewrite R3 in X; [discriminate| |]; injection X as <-; auto.
      + intros q Iq. destruct (leaves_active f (proj1 G) q Iq) as [QN QA]. destruct ((proj2 G) q QN QA) as [d Hd].
        unfold defs_at. rewrite Hd. discriminate.
  Qed.

  Lemma run_cbs_quiet sl err cbs p s : exists tr, run_cbs ids ev c sl err cbs p s = (tr, s, inr tt).
  Proof.
    revert p. induction cbs as [|cb r IH]; intros p; cbn [run_cbs]; [exists []; reflexivity|].
    unfold bind, call. rewrite NR. cbn [length]. destruct (IH (p + 1)) as [t E]. rewrite E. eexists. reflexivity.
  Qed.

  Theorem trigger_total p f tr f' r : good f ->
    trigger_event hm ev c e p f = (tr, f', r) ->
    good f' /\
    (forall x, r = inl x -> (x = MachineError \/ x = AttributeError) /\ hm_on_exception hm = [] /\ ~ declares hm e f) /\
    (forall b, r = inr b -> (exists t1 s1, trigger_body hm ev c e p f = (t1, s1, inr b)) \/
                            (b = false /\ hm_on_exception hm <> [] /\ ~ declares hm e f)).
  Proof.
    intros G H. unfold trigger_event in H. fold (trigger_body hm ev c e) in H. unfold try_except_finally in H.
    destruct (trigger_body hm ev c e p f) as [[t1 s1] [x|a]] eqn:B; destruct (body_total _ _ _ _ _ G B) as [G1 X1].
    - destruct (X1 x eq_refl) as [XE ND]. destruct (hm_on_exception hm) as [|h hs] eqn:OE.
      + unfold raise in H. destruct (run_cbs_quiet SFinalize (Some x) (hm_finalize hm) (p + length t1 + length (@nil (gitem forest))) s1) as [t3 E3].
        rewrite E3 in H. injection H as _ <- <-. split; [exact G1|]. split.
        * intros y Y. injection Y as <-. auto.
        * intros b Y. discriminate.
      + unfold bind in H. destruct (run_cbs_quiet SOnException (Some x) (h :: hs) (p + length t1) s1) as [t2 E2]. rewrite E2 in H.
        unfold ret in H. destruct (run_cbs_quiet SFinalize (Some x) (hm_finalize hm) (p + length t1 + length (t2 ++ [])) s1) as [t3 E3].
        rewrite E3 in H. injection H as _ <- <-. split; [exact G1|]. split.
        * intros y Y. discriminate.
        * intros b Y. injection Y as <-. right. split; [reflexivity|]. split; [discriminate|exact ND].
    - destruct (run_cbs_quiet SFinalize None (hm_finalize hm) (p + length t1) s1) as [t3 E3]. rewrite E3 in H.
      injection H as _ <- <-. split; [exact G1|]. split.
      + intros y Y. discriminate.
      + intros b Y. injection Y as <-. left. eauto.
  Qed.
End Total.


(* ---------- a decidable form of the destination hypothesis ---------- *)
Definition evs_ok (chs : list sdefn) (evs : list (event * list htrans)) : bool :=
  forallb (fun et => forallb (fun t => match ht_dst t with
                                       | None => true
                                       | Some d => match find_def chs d with Some _ => true | None => false end
                                       end) (snd et)) evs.
Fixpoint dst_ok_d (d : sdefn) : bool :=
  match d with SDef _ _ _ _ _ _ _ evs chs => andb (evs_ok chs evs) (forallb dst_ok_d chs) end.
Definition dst_ok (hm : hmachine) : bool := andb (evs_ok (hm_states hm) (hm_events hm)) (forallb dst_ok_d (hm_states hm)).

Lemma dst_ok_d_unfold d : dst_ok_d d = andb (evs_ok (sd_children d) (sd_events d)) (forallb dst_ok_d (sd_children d)).
Proof. destruct d. reflexivity. Qed.

Lemma find_def_dst_ok : forall p ds d, forallb dst_ok_d ds = true -> find_def ds p = Some d -> dst_ok_d d = true.
Proof.
  induction p as [|n r IH]; intros ds d W H; cbn in H; [discriminate|].
  destruct r as [|m r'].
  - apply find_child_In in H as [H _]. rewrite forallb_forall in W. now apply W.
  - destruct (find_child ds n) as [c0|] eqn:FC; [|discriminate]. apply find_child_In in FC as [FC _].
    rewrite forallb_forall in W. specialize (W _ FC). rewrite dst_ok_d_unfold in W. apply andb_true_iff in W as [_ W].
    eapply IH; eauto.
Qed.

Lemma lookup_In_ev {A} (l : list (nat * A)) k v : lookup l k = Some v -> In (k, v) l.
Proof.
  induction l as [|[k0 v0] r IH]; cbn; [discriminate|]. destruct (Nat.eqb k k0) eqn:E.
  - intros H. injection H as <-. apply Nat.eqb_eq in E as ->. now left.
  - intros H. right. now apply IH.
Qed.

Lemma evs_ok_dst chs evs ev0 ts t d : evs_ok chs evs = true -> lookup evs ev0 = Some ts -> In t ts -> ht_dst t = Some d ->
  find_def chs d <> None.
Proof.
  intros W L I D. unfold evs_ok in W. rewrite forallb_forall in W. specialize (W _ (lookup_In_ev _ _ _ L)). cbn [snd] in W.
  rewrite forallb_forall in W. specialize (W _ I). rewrite D in W. destruct (find_def chs d); [discriminate|discriminate W].
Qed.

Lemma dst_ok_DST hm : dst_ok hm = true ->
  forall sc ev0 ts t d, lookup (scope_events hm sc) ev0 = Some ts -> In t ts -> ht_dst t = Some d ->
                        find_def (scope_children hm sc) d <> None.
Proof.
  intros W sc ev0 ts t d L I D. unfold dst_ok in W. apply andb_true_iff in W as [W1 W2].
  unfold scope_events in L. unfold scope_children. destruct sc as [|n r].
  - eapply evs_ok_dst; eauto.
  - destruct (find_def (hm_states hm) (n :: r)) as [dd|] eqn:FD; [|discriminate L].
    pose proof (find_def_dst_ok _ _ _ W2 FD) as OK. rewrite dst_ok_d_unfold in OK. apply andb_true_iff in OK as [OK _].
    eapply evs_ok_dst; eauto.
Qed.


(* the configuration add_model puts a model in is good *)
Lemma initial_good hm ini d : wf_defs hm = true -> find_def (hm_states hm) ini = Some d ->
  good hm (chain_tree ini (initial_tree def_depth_bound d)).
Proof.
  intros W FD. split; [now apply (initial_config_uniq hm)|].
  assert (NI : ini <> []) by (intros ->; discriminate FD).
  intros p NP A. apply active_chain in A; [|exact NI|exact NP].
  destruct A as [[r ->]|(r & -> & NR0 & A)].
  - eapply find_def_prefix; eauto.
  - assert (UB : uniq (initial_tree def_depth_bound d) = true) by (apply initial_tree_uniq; eapply find_def_wf; eauto).
    assert (I : In r (nodes (initial_tree def_depth_bound d))) by (apply in_nodes_active; auto).
    apply initial_tree_registered in I as [d' Hd']. exists d'.
    rewrite (find_def_app ini (hm_states hm) r d NI NR0 FD). exact Hd'.
Qed.

(* C12, unconditional: with deterministic, non-raising callbacks, registered destinations and a good configuration,
   may_<event> is True exactly when the trigger returns True; when it is False the trigger returns False or raises
   the invalid-trigger error. *)
Theorem hsm_may_total hm ev c e p p' f tr1 f1 r1 tr2 f2 r2 :
  (forall cb q, r_raise (ev cb q) = None) -> (forall cb p q, ev cb p = ev cb q) ->
  wf_defs hm = true ->
  (forall sc ev0 ts t d, lookup (scope_events hm sc) ev0 = Some ts -> In t ts -> ht_dst t = Some d ->
                         find_def (scope_children hm sc) d <> None) ->
  good hm f ->
  can_trigger hm ev c e p f = (tr1, f1, r1) ->
  trigger_event hm ev c e p' f = (tr2, f2, r2) ->
  exists b0, r1 = inr b0 /\ f1 = f /\ good hm f2 /\
    (b0 = true -> r2 = inr true) /\
    (b0 = false -> r2 = inr false \/ r2 = inl MachineError \/ r2 = inl AttributeError).
Proof.
  intros NR DET WF DST G H1 H2.
  destruct (may_iff_avail hm ev c e NR DET p f (proj1 G)) as (tr & b0 & E & I). rewrite E in H1. injection H1 as _ <- <-.
  destruct (trigger_total hm ev c e NR WF DST _ _ _ _ _ G H2) as (G2 & X & Y).
  assert (AD : avail hm ev e f -> declares hm e f).
  { intros (sc & q & ts & t & L & Q & Ac & It & _ & _). exists sc, q. split; [exact Q|]. split; [exact Ac|].
    unfold decl_pair. rewrite L. unfold has_cands. destruct (cands ts q); [destruct It|reflexivity]. }
  exists b0. split; [reflexivity|]. split; [reflexivity|]. split; [exact G2|]. split.
  - intros ->. assert (AV : avail hm ev e f) by (apply I; reflexivity).
    destruct r2 as [x|b].
    + destruct (X x eq_refl) as (_ & _ & ND). exfalso. apply ND. now apply AD.
    + destruct (Y b eq_refl) as [(t1 & s1 & B)|(_ & _ & ND)].
      * f_equal. apply (body_iff_avail hm ev c e NR DET _ _ _ _ _ (proj1 G) B). exact AV.
      * exfalso. apply ND. now apply AD.
  - intros ->. destruct r2 as [x|b].
    + destruct (X x eq_refl) as ([ -> | -> ] & _ & _); auto.
    + left. f_equal. destruct (Y b eq_refl) as [(t1 & s1 & B)|(-> & _ & _)]; [|reflexivity].
      destruct b; [|reflexivity]. exfalso.
      assert (AV : avail hm ev e f) by (apply (body_iff_avail hm ev c e NR DET _ _ _ _ _ (proj1 G) B); reflexivity).
      apply I in AV. discriminate.
Qed.

(* the same with the decidable hypotheses, and the error half for C03 *)
Theorem hsm_may_total_b hm ev c e p p' f tr1 f1 r1 tr2 f2 r2 :
  (forall cb q, r_raise (ev cb q) = None) -> (forall cb p q, ev cb p = ev cb q) ->
  wf_defs hm = true -> dst_ok hm = true -> good hm f ->
  can_trigger hm ev c e p f = (tr1, f1, r1) ->
  trigger_event hm ev c e p' f = (tr2, f2, r2) ->
  exists b0, r1 = inr b0 /\ f1 = f /\ good hm f2 /\
    (b0 = true -> r2 = inr true) /\
    (b0 = false -> r2 = inr false \/ r2 = inl MachineError \/ r2 = inl AttributeError).
Proof. intros NR DET WF D. apply hsm_may_total; auto. now apply dst_ok_DST. Qed.

Theorem hsm_no_internal_error hm ev c e p f tr f' r :
  (forall cb q, r_raise (ev cb q) = None) -> wf_defs hm = true -> dst_ok hm = true -> good hm f ->
  trigger_event hm ev c e p f = (tr, f', r) ->
  good hm f' /\
  (forall x, r = inl x -> (x = MachineError \/ x = AttributeError) /\ hm_on_exception hm = [] /\ ~ declares hm e f).
Proof.
  intros NR WF D G H. destruct (trigger_total hm ev c e NR WF (dst_ok_DST hm D) _ _ _ _ _ G H) as (G' & X & _). auto.
Qed.

(* ---------- whole histories ---------- *)
Fixpoint run_seq (hm : hmachine) (ev : env) (c : ctx) (es : list event) (p : nat) (f : forest)
  : list (exn + bool) * forest :=
  match es with
  | [] => ([], f)
  | e :: r => let '(tr, f', res) := trigger_event hm ev c e p f in
              let (l, f'') := run_seq hm ev c r (p + length tr) f' in (res :: l, f'')
  end.

Definition benign (r : exn + bool) : Prop := (exists b, r = inr b) \/ r = inl MachineError \/ r = inl AttributeError.

Theorem history_total hm ev c : (forall cb q, r_raise (ev cb q) = None) -> wf_defs hm = true -> dst_ok hm = true ->
  forall es p f, good hm f -> Forall benign (fst (run_seq hm ev c es p f)) /\ good hm (snd (run_seq hm ev c es p f)).
Proof.
  intros NR WF D. induction es as [|e r IH]; intros p f G; cbn [run_seq]; [split; [constructor|exact G]|].
  destruct (trigger_event hm ev c e p f) as [[tr f'] res] eqn:T.
  destruct (hsm_no_internal_error hm ev c e p f tr f' res NR WF D G T) as [G' X].
  specialize (IH (p + length tr) f' G'). destruct (run_seq hm ev c r (p + length tr) f') as [l f'']. cbn [fst snd] in *.
  destruct IH as [IH1 IH2]. split; [|exact IH2]. constructor; [|exact IH1].
  destruct res as [x|b]; [|left; eauto]. destruct (X x eq_refl) as ([-> | ->] & _); right; auto.
Qed.

(* ---------- every environment: whatever is raised wherever, the configuration left behind is good ---------- *)
Theorem any_env_good hm ev c e p f tr f' r : wf_defs hm = true -> good hm f ->
  trigger_event hm ev c e p f = (tr, f', r) -> good hm f'.
Proof.
  intros WF [U RG] H. pose proof (trigger_event_reach hm ev c e p f tr f' r H) as R. split.
  - eapply reach_uniq; eauto.
  - eapply reach_reg; eauto.
Qed.
