(* HsmMayExn.v — C12, last clause, hierarchical engine, EVERY environment. *)
From Coq Require Import List Arith Bool Lia.
From M Require Import Base Flat Hsm HsmSpec.
From P Require Import MayGen.
Import ListNotations.

Section HMayExn.
  Variable hm : hmachine.
  Variable ev : env.
  Variable c : ctx.
  Notation ids := (fun s : forest => s).
  Notation qh := (q (V:=forest) (S:=forest) ev (escapes (hm_on_exception hm))).

  Lemma qh_can_one t : qh (Hsm.can_one hm ev c t).
  Proof.
    unfold Hsm.can_one. apply (q_handled ids ev c (hm_on_exception hm)); [intros e0 p0 s0; destruct (hm_on_exception hm); reflexivity|].
    apply q_bind; [apply q_run_cbs; auto|intros _]. apply q_bind; [apply q_run_cbs; auto|intros _].
    apply q_eval_conds; auto.
  Qed.
  Lemma qh_can_cands sc ts : qh (can_cands hm ev c sc ts).
  Proof.
    induction ts as [|t r IH]; cbn [can_cands]; [apply q_ret|].
    destruct (hdest_ok hm sc t); [|exact IH].
    apply q_bind; [apply qh_can_one|intros ok]. destruct ok; [apply q_ret|exact IH].
  Qed.
  Lemma qh_can_sources sc ts srcs : qh (can_sources hm ev c sc ts srcs).
  Proof.
    induction srcs as [|p r IH]; cbn [can_sources]; [apply q_ret|].
    apply q_bind; [apply qh_can_cands|intros ok]. destruct ok; [apply q_ret|exact IH].
  Qed.
  Lemma qh_can_nested e : forall p sc, qh (can_nested hm ev c e sc p).
  Proof.
    induction p as [|n r IH]; intros sc; cbn [can_nested].
    - apply q_bind.
      + destruct (lookup (scope_events hm sc) e); [apply qh_can_sources|apply q_ret].
      + intros ok. destruct ok; apply q_ret.
    - apply q_bind.
      + destruct (lookup (scope_events hm sc) e); [apply qh_can_sources|apply q_ret].
      + intros ok. destruct ok; [apply q_ret|apply IH].
  Qed.
  Lemma qh_can_any e ps : qh (can_any hm ev c e ps).
  Proof.
    induction ps as [|p r IH]; cbn [can_any]; [apply q_ret|].
    apply q_bind; [apply qh_can_nested|intros ok]. destruct ok; [apply q_ret|exact IH].
  Qed.

  Theorem hsm_may_any_env e p f tr f' r :
    Hsm.can_trigger hm ev c e p f = (tr, f', r) ->
    f' = f /\ Forall (fun it => may_slot_f (it_slot it) = true) tr /\
    raised_last ev (escapes (hm_on_exception hm)) p tr r.
  Proof.
    intros H. unfold Hsm.can_trigger in H.
    assert (Q : qh (f0 <- get ;; can_any hm ev c e (resolve_order f0))).
    { apply q_bind; [apply q_get|intros f0; apply qh_can_any]. }
    exact (Q _ _ _ _ _ H).
  Qed.
End HMayExn.
