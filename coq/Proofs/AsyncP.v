(* AsyncP.v — proofs about the flat asynchronous engine (Async.v):
   - simulation with the synchronous engine Flat.v up to stage_view (C07_flat, C07_may);
   - independence of everything but the order of Ends from the suspension counts (C07_cond_awaitable);
   - every stage of a trace is one gather of a registration list: Starts in list order, every
     non-raising callback finishes inside its stage, stages never overlap (C07_start_order,
     C07_completed, C07_awaited);
   - witnesses for the two differences that are NOT licensed by the property. *)
From Coq Require Import List Arith Bool Lia.
From M Require Import Base Flat FlatSpec Async.
From P Require Import FlatP FlatOrder.
Import ListNotations.

(* a reply function that never raises / the position-free environment it induces *)
Definition no_raise_rp (rp : cbid -> reply) : Prop := forall cb, r_raise (rp cb) = None.
Definition ev_of (rp : cbid -> reply) : env := fun cb _ => rp cb.

Lemma ev_of_nrf rp p : no_raise_rp rp -> no_raise_from (ev_of rp) p.
Proof. intros H cb q _. apply H. Qed.

(* ------------------------------------------------------------------ lists *)
Lemma starts_app a b : starts (a ++ b) = starts a ++ starts b.
Proof. unfold starts. apply flat_map_app. Qed.
Lemma ends_app a b : ends (a ++ b) = ends a ++ ends b.
Proof. unfold ends. apply flat_map_app. Qed.
Lemma stage_view_app a b : stage_view (a ++ b) = stage_view a ++ stage_view b.
Proof. unfold stage_view. apply flat_map_app. Qed.

Section G.
  Variable rp : cbid -> reply.
  Variable susp : cbid -> nat.
  Variable c : ctx.

  Notation mk_item := (mk_item rp c).
  Notation gather_evs := (gather_evs rp susp c).
  Notation round0 := (round0 rp susp c).
  Notation roundk := (roundk rp susp).
  Notation end_in_round := (end_in_round rp susp).

  Lemma starts_end_in_round k x : starts (end_in_round k x) = [].
  Proof. unfold Async.end_in_round. destruct (_ && _); reflexivity. Qed.

  Lemma starts_roundk cbs k : starts (roundk cbs k) = [].
  Proof.
    unfold Async.roundk. induction cbs as [|x r IH]; [reflexivity|].
    cbn [flat_map]. rewrite starts_app, starts_end_in_round, IH. reflexivity.
  Qed.

  Lemma starts_rounds cbs l : starts (flat_map (roundk cbs) l) = [].
  Proof.
    induction l as [|k r IH]; [reflexivity|].
    cbn [flat_map]. rewrite starts_app, starts_roundk, IH. reflexivity.
  Qed.

  Lemma starts_round0 err s cbs :
    starts (round0 err s cbs) = map (fun x => mk_item (fst x) err s (snd x)) cbs.
  Proof.
    induction cbs as [|x r IH]; [reflexivity|].
    cbn [Async.round0 map]. change (SStart ?i :: ?l) with ([SStart i] ++ l).
    rewrite !starts_app, starts_end_in_round, IH. reflexivity.
  Qed.

  (* C07_start_order at the level of one gather *)
  Lemma starts_gather err s cbs :
    starts (gather_evs err s cbs) = map (fun x => mk_item (fst x) err s (snd x)) cbs.
  Proof. unfold Async.gather_evs. rewrite starts_app, starts_round0, starts_rounds, app_nil_r. reflexivity. Qed.

  (* ---- Ends *)
  Lemma ends_end_in_round k x :
    ends (end_in_round k x) = if Nat.eqb (susp (snd x)) k && negb (raises rp (snd x)) then [x] else [].
  Proof. unfold Async.end_in_round. destruct (_ && _); [destruct x|]; reflexivity. Qed.

  Lemma in_cond_singleton {T} (b : bool) (x y : T) : In x (if b then [y] else []) <-> b = true /\ x = y.
  Proof.
    destruct b; simpl; split; intros H.
    - destruct H as [H|[]]. auto.
    - destruct H as [_ H]. auto.
    - destruct H.
    - destruct H; discriminate.
  Qed.

  Lemma in_ends_round0 err s cbs x :
    In x (ends (round0 err s cbs)) <-> In x cbs /\ susp (snd x) = 0 /\ raises rp (snd x) = false.
  Proof.
    induction cbs as [|y r IH].
    - simpl. tauto.
    - cbn [Async.round0]. change (SStart ?i :: ?l) with ([SStart i] ++ l).
      rewrite !ends_app, ends_end_in_round. cbn [ends flat_map app].
      rewrite in_app_iff, in_cond_singleton, IH, andb_true_iff, negb_true_iff, Nat.eqb_eq. cbn [In]. split.
      + intros [[[H1 H2] H3]|[H1 [H2 H3]]]; [subst x; auto|auto].
      + intros [[H|H] [H2 H3]]; [subst y; left; auto|right; auto].
  Qed.

  Lemma in_ends_roundk cbs k x :
    In x (ends (roundk cbs k)) <-> In x cbs /\ susp (snd x) = k /\ raises rp (snd x) = false.
  Proof.
    unfold Async.roundk. induction cbs as [|y r IH].
    - simpl. tauto.
    - cbn [flat_map]. rewrite ends_app, ends_end_in_round.
      rewrite in_app_iff, in_cond_singleton, IH, andb_true_iff, negb_true_iff, Nat.eqb_eq. cbn [In]. split.
      + intros [[[H1 H2] H3]|[H1 [H2 H3]]]; [subst x; auto|auto].
      + intros [[H|H] [H2 H3]]; [subst y; left; auto|right; auto].
  Qed.

  Lemma in_ends_rounds cbs l x :
    In x (ends (flat_map (roundk cbs) l)) <->
    In x cbs /\ In (susp (snd x)) l /\ raises rp (snd x) = false.
  Proof.
    induction l as [|k r IH].
    - simpl. tauto.
    - cbn [flat_map]. rewrite ends_app, in_app_iff, IH, in_ends_roundk. simpl. split.
      + intros [(H1&H2&H3)|(H1&H2&H3)]; auto.
      + intros (H1&[H2|H2]&H3); auto.
  Qed.

  Lemma susp_le_max cbs x : In x cbs -> susp (snd x) <= max_susp susp cbs.
  Proof.
    induction cbs as [|y r IH]; [intros []|]. intros [H|H]; cbn [max_susp].
    - subst. apply Nat.le_max_l.
    - etransitivity; [apply IH; assumption|apply Nat.le_max_r].
  Qed.

  (* C07_completed at the level of one gather: the callbacks that finish inside the stage are
     exactly the registered ones that do not raise *)
  Lemma in_ends_gather err s cbs x :
    In x (ends (gather_evs err s cbs)) <-> In x cbs /\ raises rp (snd x) = false.
  Proof.
    unfold Async.gather_evs. rewrite ends_app, in_app_iff, in_ends_round0, in_ends_rounds. split.
    - intros [(H1&H2&H3)|(H1&H2&H3)]; auto.
    - intros (H1&H3). destruct (susp (snd x)) eqn:E.
      + left. auto.
      + right. repeat split; auto. apply in_seq. pose proof (susp_le_max cbs x H1). lia.
  Qed.

  (* every End is preceded, in its stage, by the Start of the same callback *)
  Lemma end_after_start_round0 err s cbs l1 sl cb l2 :
    round0 err s cbs = l1 ++ SEnd sl cb :: l2 ->
    exists l0 l0', l1 = l0 ++ SStart (mk_item sl err s cb) :: l0'.
  Proof.
    revert l1. induction cbs as [|x r IH]; intros l1 H.
    - destruct l1; discriminate.
    - cbn [Async.round0] in H. destruct l1 as [|e l1]; [discriminate|].
      injection H as He H. subst e.
      unfold Async.end_in_round in H. destruct (_ && _).
      + destruct l1 as [|e l1].
        * injection H as H1 H2. exists [], []. destruct x; simpl in *. congruence.
        * injection H as He H. subst e. destruct (IH _ H) as (l0&l0'&E).
          exists (SStart (mk_item (fst x) err s (snd x)) :: SEnd (fst x) (snd x) :: l0), l0'.
          rewrite E. reflexivity.
      + simpl in H. destruct (IH _ H) as (l0&l0'&E).
        exists (SStart (mk_item (fst x) err s (snd x)) :: l0), l0'. rewrite E. reflexivity.
  Qed.
  Lemma in_ends_iff (l : list sev) sl cb : In (SEnd sl cb) l <-> In (sl, cb) (ends l).
  Proof.
    unfold ends. rewrite in_flat_map. split.
    - intros H. exists (SEnd sl cb). split; [exact H|left; reflexivity].
    - intros (e&H1&H2). destruct e as [it|sl' cb']; [destruct H2|].
      destruct H2 as [H2|[]]. injection H2 as -> ->. exact H1.
  Qed.

  Lemma start_in_round0 err s cbs x :
    In x cbs -> In (SStart (mk_item (fst x) err s (snd x))) (round0 err s cbs).
  Proof.
    induction cbs as [|y r IH]; [intros []|]. intros [H|H]; cbn [Async.round0].
    - subst. left. reflexivity.
    - right. apply in_app_iff. right. auto.
  Qed.

  Lemma in_starts_iff (l : list sev) it : In (SStart it) l <-> In it (starts l).
  Proof.
    unfold starts. rewrite in_flat_map. split.
    - intros H. exists (SStart it). split; [exact H|left; reflexivity].
    - intros (e&H1&H2). destruct e as [it'|sl' cb']; [|destruct H2].
      destruct H2 as [H2|[]]. subst. exact H1.
  Qed.

  (* inside one gather every End is preceded by the Start of the same callback *)
  Lemma end_after_start err s cbs l1 sl cb l2 :
    gather_evs err s cbs = l1 ++ SEnd sl cb :: l2 ->
    exists l0 l0', l1 = l0 ++ SStart (mk_item sl err s cb) :: l0'.
  Proof.
    unfold Async.gather_evs. intros H.
    assert (Late : forall l1', In (SEnd sl cb) (flat_map (roundk cbs) (seq 1 (max_susp susp cbs))) ->
                    l1 = round0 err s cbs ++ l1' ->
                    exists l0 l0', l1 = l0 ++ SStart (mk_item sl err s cb) :: l0').
    { intros l1' Hin E. apply in_ends_iff, in_ends_rounds in Hin. destruct Hin as (Hc&_&_).
      pose proof (start_in_round0 err s cbs (sl, cb) Hc) as Hs. cbn [fst snd] in Hs.
      apply in_split in Hs. destruct Hs as (a&b&Hs). exists a, (b ++ l1'). rewrite E, Hs, <- app_assoc. reflexivity. }
    apply app_eq_app in H. destruct H as [l [[H1 H2]|[H1 H2]]].
    - destruct l as [|x l].
      + simpl in H2. apply (Late []); [rewrite <- H2; left; reflexivity|].
        rewrite H1, !app_nil_r. reflexivity.
      + injection H2 as Hx H2. subst x. eapply end_after_start_round0. exact H1.
    - apply (Late l); [rewrite H2; apply in_app_iff; right; left; reflexivity|exact H1].
  Qed.
End G.

(* ------------------------------------------------------------------ simulation with Flat.v *)
Definition aview {A} (x : list stage * state * (exn + A)) : list item * state * (exn + A) :=
  (stage_view (fst (fst x)), snd (fst x), snd x).

Definition sim {A} (am : AM A) (m : M (V:=state) (S:=state) A) : Prop :=
  forall p s, aview (am s) = m p s.

Lemma sim_ret {A} (a : A) : sim (aret a) (ret a).
Proof. intros p s. reflexivity. Qed.
Lemma sim_raise {A} e : sim (@araise A e) (raise e).
Proof. intros p s. reflexivity. Qed.
Lemma sim_get : sim aget get.
Proof. intros p s. reflexivity. Qed.
Lemma sim_put s' : sim (aput s') (put s').
Proof. intros p s. reflexivity. Qed.

Lemma sim_bind {A B} (am : AM A) (m : M A) (af : A -> AM B) (f : A -> M B) :
  sim am m -> (forall a, sim (af a) (f a)) -> sim (abind am af) (bind m f).
Proof.
  intros H1 H2 p s. unfold abind, bind. rewrite <- (H1 p s).
  destruct (am s) as [[t1 s1] [e|a]]; unfold aview; cbn [fst snd]; [reflexivity|].
  rewrite <- (H2 a (p + length (stage_view t1)) s1).
  destruct (af a s1) as [[t2 s2] r2]. unfold aview; cbn [fst snd]. rewrite stage_view_app. reflexivity.
Qed.

Lemma sim_try_catch {A} (am : AM A) (m : M A) ah h :
  sim am m -> (forall e, sim (ah e) (h e)) -> sim (atry_catch am ah) (try_catch m h).
Proof.
  intros H1 H2 p s. unfold atry_catch, try_catch. rewrite <- (H1 p s).
  destruct (am s) as [[t1 s1] [e|a]]; unfold aview; cbn [fst snd]; [|reflexivity].
  rewrite <- (H2 e (p + length (stage_view t1)) s1).
  destruct (ah e s1) as [[t2 s2] r2]. unfold aview; cbn [fst snd]. rewrite stage_view_app. reflexivity.
Qed.

Lemma sim_tef {A} (am : AM A) (m : M A) ah h afin fin :
  sim am m -> (forall e, sim (ah e) (h e)) -> (forall err, sim (afin err) (fin err)) ->
  sim (atry_except_finally am ah afin) (try_except_finally m h fin).
Proof.
  intros H1 H2 H3 p s. unfold atry_except_finally, try_except_finally. rewrite <- (H1 p s).
  destruct (am s) as [[t1 s1] [e|a]]; unfold aview; cbn [fst snd].
  - rewrite <- (H2 e (p + length (stage_view t1)) s1).
    destruct (ah e s1) as [[t2 s2] r2]. unfold aview; cbn [fst snd].
    rewrite <- (H3 (Some e) (p + length (stage_view t1) + length (stage_view t2)) s2).
    destruct (afin (Some e) s2) as [[t3 s3] r3]. unfold aview; cbn [fst snd].
    rewrite !stage_view_app. reflexivity.
  - rewrite <- (H3 None (p + length (stage_view t1)) s1).
    destruct (afin None s1) as [[t3 s3] r3]. unfold aview; cbn [fst snd].
    rewrite !stage_view_app. reflexivity.
Qed.

Section Sim.
  Variable mc : machine.
  Variable rp : cbid -> reply.
  Variable susp : cbid -> nat.
  Variable c : ctx.
  Hypothesis NR : no_raise_rp rp.

  Notation id_seen := (fun s : state => s).
  Notation ev := (ev_of rp).

  Lemma first_exn_none cbs : first_exn rp cbs = None.
  Proof. induction cbs as [|x r IH]; [reflexivity|]. simpl. rewrite NR. exact IH. Qed.

  Lemma items_map sl err st cbs p :
    items ev c sl err st cbs p = map (fun cb => mk_item rp c sl err st cb) cbs.
  Proof. revert p. induction cbs as [|cb r IH]; intros p; [reflexivity|]. simpl. rewrite IH. reflexivity. Qed.

  Lemma sim_callbacks sl err cbs :
    sim (acallbacks rp susp c sl err cbs) (run_cbs id_seen ev c sl err cbs).
  Proof.
    intros p s. rewrite (run_cbs_ok ev c) by (apply ev_of_nrf; exact NR).
    unfold acallbacks, gather, aview. cbn [fst snd]. rewrite first_exn_none.
    unfold stage_view. cbn [flat_map]. unfold stage_view1. cbn [sg_kind sg_evs].
    rewrite app_nil_r, starts_gather, map_map, items_map. reflexivity.
  Qed.

  Lemma eval_conds_view conds p s :
    eval_conds id_seen ev c conds p s =
      (upto_first_failed (map (fun x => mk_item rp c (fst (check_slot x)) None s (snd (check_slot x))) conds),
       s, inr (forallb (check_passes rp) conds)).
  Proof.
    revert p. induction conds as [|[cb tg] r IH]; intros p; [reflexivity|].
    cbn [eval_conds map forallb]. unfold bind.
    rewrite (call_ok ev c) by (apply ev_of_nrf; exact NR).
    cbn [length]. unfold check_passes at 1. cbn [fst snd check_slot].
    unfold ev_of at 1 2.
    assert (F : check_failed (mk_item rp c (if tg then SCond else SUnless) None s cb)
                = negb (Bool.eqb (r_ret (rp cb)) tg)).
    { unfold check_failed, Async.mk_item. cbn [it_slot it_ret]. destruct tg; cbn [it_slot]; destruct (r_ret (rp cb)); reflexivity. }
    cbn [upto_first_failed]. rewrite F.
    destruct (Bool.eqb (r_ret (rp cb)) tg); cbn [negb andb].
    - rewrite IH. unfold mk, Async.mk_item, ev_of. reflexivity.
    - unfold ret, mk, Async.mk_item, ev_of. reflexivity.
  Qed.

  Lemma sim_conds conds : sim (aeval_conds rp susp c conds) (eval_conds id_seen ev c conds).
  Proof.
    intros p s. rewrite eval_conds_view.
    unfold aeval_conds, abind, gather, aret, aview. rewrite first_exn_none. cbn [fst snd].
    rewrite app_nil_r. unfold stage_view. cbn [flat_map]. unfold stage_view1. cbn [sg_kind sg_evs].
    rewrite app_nil_r, starts_gather, map_map. reflexivity.
  Qed.

  Lemma sim_change_state t d : sim (achange_state mc rp susp c t d) (change_state mc ev c t d).
  Proof.
    unfold achange_state, change_state.
    destruct (get_state mc (t_src t)) as [sd|]; [|apply sim_raise].
    apply sim_bind; [apply sim_callbacks|intros _].
    destruct (get_state mc d) as [dd|]; [|apply sim_raise].
    apply sim_bind; [apply sim_put|intros _].
    apply sim_bind; [apply sim_callbacks|intros _].
    destruct (s_final dd); [apply sim_callbacks|apply sim_ret].
  Qed.

  Lemma sim_execute t : sim (aexecute mc rp susp c t) (execute mc ev c t).
  Proof.
    unfold aexecute, execute.
    apply sim_bind; [apply sim_callbacks|intros _].
    apply sim_bind; [apply sim_conds|intros ok].
    destruct ok; [|apply sim_ret].
    apply sim_bind; [apply sim_callbacks|intros _].
    apply sim_bind; [apply sim_callbacks|intros _].
    apply sim_bind; [destruct (t_dst t); [apply sim_change_state|apply sim_ret]|intros _].
    apply sim_bind; [apply sim_callbacks|intros _].
    apply sim_bind; [apply sim_callbacks|intros _].
    apply sim_ret.
  Qed.

  Lemma sim_try_transitions ts : sim (atry_transitions mc rp susp c ts) (try_transitions mc ev c ts).
  Proof.
    induction ts as [|t r IH]; [apply sim_ret|].
    cbn [atry_transitions try_transitions].
    apply sim_bind; [apply sim_execute|intros ok]. destruct ok; [apply sim_ret|exact IH].
  Qed.

  Lemma sim_process ts cur : sim (aprocess mc rp susp c ts cur) (process mc ev c ts cur).
  Proof.
    unfold aprocess, process. apply sim_bind; [apply sim_callbacks|intros _]. apply sim_try_transitions.
  Qed.

  Lemma sim_checked_process ts cur sd :
    sim (achecked_process mc rp susp c ts cur sd) (checked_process mc ev c ts cur sd).
  Proof.
    unfold achecked_process, checked_process.
    destruct (candidates ts cur); [destruct (ignores mc sd); [apply sim_ret|apply sim_raise]|apply sim_process].
  Qed.

  Lemma sim_handler e :
    sim (match m_on_exception mc with
         | [] => araise e
         | hs => acallbacks rp susp c SOnException (Some e) hs ;;;; aret false
         end)
        (match m_on_exception mc with
         | [] => raise e
         | hs => run_cbs id_seen ev c SOnException (Some e) hs ;;; ret false
         end).
  Proof.
    destruct (m_on_exception mc); [apply sim_raise|].
    apply sim_bind; [apply sim_callbacks|intros _; apply sim_ret].
  Qed.

  Lemma sim_trigger_event ts : sim (atrigger_event mc rp susp c ts) (trigger_event mc ev c ts).
  Proof.
    unfold atrigger_event, trigger_event.
    apply sim_bind; [apply sim_get|intros cur].
    destruct (get_state mc cur) as [sd|]; [|apply sim_raise].
    apply sim_tef; [apply sim_checked_process|apply sim_handler|intros err; apply sim_callbacks].
  Qed.

  Lemma sim_can_one t : sim (acan_one mc rp susp c t) (can_one mc ev c t).
  Proof.
    unfold acan_one, can_one. apply sim_try_catch; [|apply sim_handler].
    apply sim_bind; [apply sim_callbacks|intros _].
    apply sim_bind; [apply sim_callbacks|intros _]. apply sim_conds.
  Qed.

  Lemma sim_can_loop ts : sim (acan_loop mc rp susp c ts) (can_loop mc ev c ts).
  Proof.
    induction ts as [|t r IH]; [apply sim_ret|].
    cbn [acan_loop can_loop]. destruct (dest_ok mc t); [|exact IH].
    apply sim_bind; [apply sim_can_one|intros ok]. destruct ok; [apply sim_ret|exact IH].
  Qed.

  Lemma sim_can_trigger e : sim (acan_trigger mc rp susp c e) (can_trigger mc ev c e).
  Proof.
    unfold acan_trigger, can_trigger.
    apply sim_bind; [apply sim_get|intros cur].
    destruct (get_state mc cur); [|apply sim_raise].
    destruct (lookup (m_events mc) e); [apply sim_can_loop|apply sim_ret].
  Qed.
End Sim.

(* the statement of C07_flat *)
Lemma flat_sim mc rp susp c ts p s :
  no_raise_rp rp ->
  aview (atrigger_event mc rp susp c ts s) = trigger_event mc (ev_of rp) c ts p s.
Proof. intros NR. apply sim_trigger_event. exact NR. Qed.

Lemma may_sim mc rp susp c e p s :
  no_raise_rp rp ->
  aview (acan_trigger mc rp susp c e s) = can_trigger mc (ev_of rp) c e p s.
Proof. intros NR. apply sim_can_trigger. exact NR. Qed.

(* by name, for an event the machine knows *)
Lemma flat_sim_named mc rp susp c e ts p s :
  no_raise_rp rp -> lookup (m_events mc) e = Some ts ->
  let a := atrigger mc rp susp c e s in
  let f := trigger mc (ev_of rp) c e p s in
  stage_view (fst (fst a)) = fst (fst f) /\ snd (fst a) = snd (fst f) /\ snd a = aresult_of (snd f).
Proof.
  intros NR L. unfold atrigger, trigger. rewrite L.
  pose proof (flat_sim mc rp susp c ts p s NR) as H.
  destruct (atrigger_event mc rp susp c ts s) as [[t1 s1] r1].
  rewrite <- H. cbn. auto.
Qed.

(* with the documented order of C01 as right-hand side *)
Lemma flat_documented_order mc rp susp c ts p cur :
  no_raise_rp rp ->
  registered mc cur = true -> wf_trans mc ts = true -> candidates ts cur <> [] ->
  aview (atrigger_event mc rp susp c ts cur) =
    (let r := spec_step mc (ev_of rp) c ts cur p in (fst (fst r), snd (fst r), inr (snd r))).
Proof.
  intros NR R W C. rewrite (flat_sim mc rp susp c ts p cur NR).
  apply trigger_event_valid; auto. apply ev_of_nrf. exact NR.
Qed.

(* ------------------------------------------------------------------ suspension counts do not matter *)
Definition sview {A} (x : list stage * state * (exn + A)) :=
  (map (fun sg => (sg_kind sg, starts (sg_evs sg))) (fst (fst x)), snd (fst x), snd x).

Definition sim2 {A} (a1 a2 : AM A) : Prop := forall s, sview (a1 s) = sview (a2 s).

Lemma sim2_refl {A} (a : AM A) : sim2 a a.
Proof. intros s. reflexivity. Qed.

Lemma sim2_bind {A B} (a1 a2 : AM A) (f1 f2 : A -> AM B) :
  sim2 a1 a2 -> (forall a, sim2 (f1 a) (f2 a)) -> sim2 (abind a1 f1) (abind a2 f2).
Proof.
  intros H1 H2 s. unfold abind. specialize (H1 s).
  destruct (a1 s) as [[t1 s1] r1], (a2 s) as [[t2 s2] r2]. unfold sview in H1. cbn [fst snd] in H1.
  injection H1 as E1 E2 E3. subst s2 r2.
  destruct r1 as [e|a]; [unfold sview; cbn [fst snd]; rewrite E1; reflexivity|].
  specialize (H2 a s1). destruct (f1 a s1) as [[u1 v1] w1], (f2 a s1) as [[u2 v2] w2].
  unfold sview in *. cbn [fst snd] in *. injection H2 as F1 F2 F3. subst.
  rewrite !map_app, E1, F1. reflexivity.
Qed.

Lemma sim2_try_catch {A} (a1 a2 : AM A) h1 h2 :
  sim2 a1 a2 -> (forall e, sim2 (h1 e) (h2 e)) -> sim2 (atry_catch a1 h1) (atry_catch a2 h2).
Proof.
  intros H1 H2 s. unfold atry_catch. specialize (H1 s).
  destruct (a1 s) as [[t1 s1] r1], (a2 s) as [[t2 s2] r2]. unfold sview in H1. cbn [fst snd] in H1.
  injection H1 as E1 E2 E3. subst s2 r2.
  destruct r1 as [e|a]; [|unfold sview; cbn [fst snd]; rewrite E1; reflexivity].
  specialize (H2 e s1). destruct (h1 e s1) as [[u1 v1] w1], (h2 e s1) as [[u2 v2] w2].
  unfold sview in *. cbn [fst snd] in *. injection H2 as F1 F2 F3. subst.
  rewrite !map_app, E1, F1. reflexivity.
Qed.

Lemma sim2_tef {A} (a1 a2 : AM A) h1 h2 f1 f2 :
  sim2 a1 a2 -> (forall e, sim2 (h1 e) (h2 e)) -> (forall err, sim2 (f1 err) (f2 err)) ->
  sim2 (atry_except_finally a1 h1 f1) (atry_except_finally a2 h2 f2).
Proof.
  intros H1 H2 H3 s. unfold atry_except_finally. specialize (H1 s).
  destruct (a1 s) as [[t1 s1] r1], (a2 s) as [[t2 s2] r2]. unfold sview in H1. cbn [fst snd] in H1.
  injection H1 as E1 E2 E3. subst s2 r2.
  destruct r1 as [e|a].
  - specialize (H2 e s1). destruct (h1 e s1) as [[u1 v1] w1], (h2 e s1) as [[u2 v2] w2].
    unfold sview in H2. cbn [fst snd] in H2. injection H2 as F1 F2 F3. subst.
    specialize (H3 (Some e) v2). destruct (f1 (Some e) v2) as [[x1 y1] z1], (f2 (Some e) v2) as [[x2 y2] z2].
    unfold sview in *. cbn [fst snd] in *. injection H3 as G1 G2 G3. subst.
    rewrite !map_app, E1, F1, G1. reflexivity.
  - specialize (H3 None s1). destruct (f1 None s1) as [[x1 y1] z1], (f2 None s1) as [[x2 y2] z2].
    unfold sview in *. cbn [fst snd] in *. injection H3 as G1 G2 G3. subst.
    rewrite !map_app, E1, G1. reflexivity.
Qed.

Section Susp.
  Variable mc : machine.
  Variable rp : cbid -> reply.
  Variable su1 su2 : cbid -> nat.
  Variable c : ctx.

  Lemma sim2_gather k err cbs : sim2 (gather rp su1 c k err cbs) (gather rp su2 c k err cbs).
  Proof. intros s. unfold gather, sview. cbn [fst snd map sg_kind sg_evs]. rewrite !starts_gather. reflexivity. Qed.

  Lemma sim2_callbacks sl err cbs : sim2 (acallbacks rp su1 c sl err cbs) (acallbacks rp su2 c sl err cbs).
  Proof. apply sim2_gather. Qed.

  Lemma sim2_conds conds : sim2 (aeval_conds rp su1 c conds) (aeval_conds rp su2 c conds).
  Proof. unfold aeval_conds. apply sim2_bind; [apply sim2_gather|intros _; apply sim2_refl]. Qed.

  Lemma sim2_change_state t d : sim2 (achange_state mc rp su1 c t d) (achange_state mc rp su2 c t d).
  Proof.
    unfold achange_state.
    destruct (get_state mc (t_src t)) as [sd|]; [|apply sim2_refl].
    apply sim2_bind; [apply sim2_callbacks|intros _].
    destruct (get_state mc d) as [dd|]; [|apply sim2_refl].
    apply sim2_bind; [apply sim2_refl|intros _].
    apply sim2_bind; [apply sim2_callbacks|intros _].
    destruct (s_final dd); [apply sim2_callbacks|apply sim2_refl].
  Qed.

  Lemma sim2_execute t : sim2 (aexecute mc rp su1 c t) (aexecute mc rp su2 c t).
  Proof.
    unfold aexecute.
    apply sim2_bind; [apply sim2_callbacks|intros _].
    apply sim2_bind; [apply sim2_conds|intros ok].
    destruct ok; [|apply sim2_refl].
    apply sim2_bind; [apply sim2_callbacks|intros _].
    apply sim2_bind; [apply sim2_callbacks|intros _].
    apply sim2_bind; [destruct (t_dst t); [apply sim2_change_state|apply sim2_refl]|intros _].
    apply sim2_bind; [apply sim2_callbacks|intros _].
    apply sim2_bind; [apply sim2_callbacks|intros _].
    apply sim2_refl.
  Qed.

  Lemma sim2_try_transitions ts : sim2 (atry_transitions mc rp su1 c ts) (atry_transitions mc rp su2 c ts).
  Proof.
    induction ts as [|t r IH]; [apply sim2_refl|].
    cbn [atry_transitions].
    apply sim2_bind; [apply sim2_execute|intros ok]. destruct ok; [apply sim2_refl|exact IH].
  Qed.

  Lemma sim2_handler e :
    sim2 (match m_on_exception mc with
          | [] => araise e
          | hs => acallbacks rp su1 c SOnException (Some e) hs ;;;; aret false
          end)
         (match m_on_exception mc with
          | [] => araise e
          | hs => acallbacks rp su2 c SOnException (Some e) hs ;;;; aret false
          end).
  Proof.
    destruct (m_on_exception mc); [apply sim2_refl|].
    apply sim2_bind; [apply sim2_callbacks|intros _; apply sim2_refl].
  Qed.

  Lemma sim2_trigger_event ts : sim2 (atrigger_event mc rp su1 c ts) (atrigger_event mc rp su2 c ts).
  Proof.
    unfold atrigger_event.
    apply sim2_bind; [apply sim2_refl|intros cur].
    destruct (get_state mc cur) as [sd|]; [|apply sim2_refl].
    apply sim2_tef; [|apply sim2_handler|intros err; apply sim2_callbacks].
    unfold achecked_process.
    destruct (candidates ts cur); [apply sim2_refl|].
    unfold aprocess. apply sim2_bind; [apply sim2_callbacks|intros _]. apply sim2_try_transitions.
  Qed.
End Susp.

(* the statement of C07_cond_awaitable *)
Lemma susp_irrelevant mc rp su1 su2 c ts s :
  sview (atrigger_event mc rp su1 c ts s) = sview (atrigger_event mc rp su2 c ts s).
Proof. apply sim2_trigger_event. Qed.

(* in particular the verdict of a candidate's checks *)
Lemma conds_value rp su c conds s :
  snd (aeval_conds rp su c conds s) =
    match first_exn rp (map check_slot conds) with
    | Some e => inl e
    | None => inr (forallb (check_passes rp) conds)
    end.
Proof.
  unfold aeval_conds, abind, gather, aret. destruct (first_exn rp (map check_slot conds)); reflexivity.
Qed.

(* ------------------------------------------------------------------ every stage is one gather *)
Section Shape.
  Variable mc : machine.
  Variable rp : cbid -> reply.
  Variable susp : cbid -> nat.
  Variable c : ctx.

  (* the registration lists of the machine: every stage is the gather of one of them *)
  Definition reg_list (k : skind) (cbs : list (slot * cbid)) : Prop :=
    match k with
    | KCbs =>
        exists sl l, cbs = map (fun cb => (sl, cb)) l /\
          (l = m_prepare_event mc \/ l = m_before_sc mc \/ l = m_after_sc mc \/ l = m_finalize mc \/
           l = m_on_exception mc \/ l = m_on_final mc \/
           (exists s d, In (s, d) (m_states mc) /\ (l = s_enter d \/ l = s_exit d)) \/
           (exists e ts t, In (e, ts) (m_events mc) /\ In t ts /\
                           (l = t_prepare t \/ l = t_before t \/ l = t_after t)))
    | KChecks => exists e ts t, In (e, ts) (m_events mc) /\ In t ts /\ cbs = map check_slot (t_conds t)
    end.

  Definition is_gather (sg : stage) : Prop :=
    exists err s cbs, sg_evs sg = gather_evs rp susp c err s cbs /\ reg_list (sg_kind sg) cbs.

  Definition shaped {A} (am : AM A) : Prop := forall s, Forall is_gather (fst (fst (am s))).

  Lemma shaped_ret {A} (a : A) : shaped (aret a).
  Proof. intros s. constructor. Qed.
  Lemma shaped_raise {A} e : shaped (@araise A e).
  Proof. intros s. constructor. Qed.
  Lemma shaped_get : shaped aget.
  Proof. intros s. constructor. Qed.
  Lemma shaped_put s' : shaped (aput s').
  Proof. intros s. constructor. Qed.

  Lemma shaped_bind {A B} (am : AM A) (af : A -> AM B) :
    shaped am -> (forall a, shaped (af a)) -> shaped (abind am af).
  Proof.
    intros H1 H2 s. unfold abind. specialize (H1 s).
    destruct (am s) as [[t1 s1] [e|a]]; cbn [fst snd] in *; [exact H1|].
    specialize (H2 a s1). destruct (af a s1) as [[t2 s2] r2]. cbn [fst snd] in *.
    apply Forall_app. auto.
  Qed.

  Lemma shaped_try_catch {A} (am : AM A) ah :
    shaped am -> (forall e, shaped (ah e)) -> shaped (atry_catch am ah).
  Proof.
    intros H1 H2 s. unfold atry_catch. specialize (H1 s).
    destruct (am s) as [[t1 s1] [e|a]]; cbn [fst snd] in *; [|exact H1].
    specialize (H2 e s1). destruct (ah e s1) as [[t2 s2] r2]. cbn [fst snd] in *.
    apply Forall_app. auto.
  Qed.

  Lemma shaped_tef {A} (am : AM A) ah afin :
    shaped am -> (forall e, shaped (ah e)) -> (forall err, shaped (afin err)) ->
    shaped (atry_except_finally am ah afin).
  Proof.
    intros H1 H2 H3 s. unfold atry_except_finally. specialize (H1 s).
    destruct (am s) as [[t1 s1] [e|a]]; cbn [fst snd] in *.
    - specialize (H2 e s1). destruct (ah e s1) as [[t2 s2] r2]. cbn [fst snd] in *.
      specialize (H3 (Some e) s2). destruct (afin (Some e) s2) as [[t3 s3] r3]. cbn [fst snd] in *.
      apply Forall_app. split; [auto|]. apply Forall_app. auto.
    - specialize (H3 None s1). destruct (afin None s1) as [[t3 s3] r3]. cbn [fst snd] in *.
      apply Forall_app. auto.
  Qed.

  Lemma shaped_gather k err cbs : reg_list k cbs -> shaped (gather rp susp c k err cbs).
  Proof.
    intros R s. unfold gather. cbn [fst snd]. constructor; [|constructor].
    exists err, s, cbs. cbn [sg_evs sg_kind]. auto.
  Qed.

  Ltac reg := unfold acallbacks; apply shaped_gather; cbn [reg_list]; eexists _, _; split; [reflexivity|].

  Lemma shaped_conds e ts t :
    In (e, ts) (m_events mc) -> In t ts -> shaped (aeval_conds rp susp c (t_conds t)).
  Proof.
    intros H1 H2. unfold aeval_conds. apply shaped_bind; [|intros _; apply shaped_ret].
    apply shaped_gather. cbn [reg_list]. exists e, ts, t. auto.
  Qed.

  Lemma shaped_change_state t d : shaped (achange_state mc rp susp c t d).
  Proof.
    unfold achange_state, get_state.
    destruct (lookup (m_states mc) (t_src t)) as [sd|] eqn:E1; [|apply shaped_raise].
    apply shaped_bind; [|intros _].
    { reg. do 6 right. left. exists (t_src t), sd. split; [|auto].
      clear -E1. induction (m_states mc) as [|[k v] r IH]; [discriminate|]. simpl in E1.
      destruct (Nat.eqb (t_src t) k) eqn:E; [apply Nat.eqb_eq in E; left; congruence|right; auto]. }
    destruct (lookup (m_states mc) d) as [dd|] eqn:E2; [|apply shaped_raise].
    apply shaped_bind; [apply shaped_put|intros _].
    apply shaped_bind; [|intros _].
    { reg. do 6 right. left. exists d, dd. split; [|auto].
      clear -E2. induction (m_states mc) as [|[k v] r IH]; [discriminate|]. simpl in E2.
      destruct (Nat.eqb d k) eqn:E; [apply Nat.eqb_eq in E; left; congruence|right; auto]. }
    destruct (s_final dd); [|apply shaped_ret]. reg. auto 10.
  Qed.

  Lemma shaped_execute e ts t :
    In (e, ts) (m_events mc) -> In t ts -> shaped (aexecute mc rp susp c t).
  Proof.
    intros H1 H2. unfold aexecute.
    apply shaped_bind; [reg; do 7 right; exists e, ts, t; auto|intros _].
    apply shaped_bind; [eapply shaped_conds; eassumption|intros ok].
    destruct ok; [|apply shaped_ret].
    apply shaped_bind; [reg; auto|intros _].
    apply shaped_bind; [reg; do 7 right; exists e, ts, t; auto|intros _].
    apply shaped_bind; [destruct (t_dst t); [apply shaped_change_state|apply shaped_ret]|intros _].
    apply shaped_bind; [reg; do 7 right; exists e, ts, t; auto 6|intros _].
    apply shaped_bind; [reg; auto|intros _].
    apply shaped_ret.
  Qed.

  Lemma shaped_try_transitions e ts cands :
    In (e, ts) (m_events mc) -> (forall t, In t cands -> In t ts) ->
    shaped (atry_transitions mc rp susp c cands).
  Proof.
    intros H1. induction cands as [|t r IH]; intros H2; [apply shaped_ret|].
    cbn [atry_transitions].
    apply shaped_bind; [eapply shaped_execute; [eassumption|apply H2; left; reflexivity]|intros ok].
    destruct ok; [apply shaped_ret|apply IH; intros t' Ht; apply H2; right; exact Ht].
  Qed.

  Lemma shaped_trigger_event e ts :
    In (e, ts) (m_events mc) -> shaped (atrigger_event mc rp susp c ts).
  Proof.
    intros H1. unfold atrigger_event.
    apply shaped_bind; [apply shaped_get|intros cur].
    destruct (get_state mc cur) as [sd|]; [|apply shaped_raise].
    apply shaped_tef.
    - unfold achecked_process.
      destruct (candidates ts cur) eqn:E; [destruct (ignores mc sd); [apply shaped_ret|apply shaped_raise]|].
      unfold aprocess. apply shaped_bind; [reg; auto|intros _].
      eapply shaped_try_transitions; [eassumption|].
      intros t' Ht. unfold candidates in Ht. apply filter_In in Ht. tauto.
    - intros e'. destruct (m_on_exception mc) eqn:E; [apply shaped_raise|].
      rewrite <- E. apply shaped_bind; [reg; auto 10|intros _; apply shaped_ret].
    - intros err. reg. auto 10.
  Qed.
End Shape.


(* what holds of every stage of an event's trace *)
Lemma stage_facts mc rp susp c e ts s sg :
  In (e, ts) (m_events mc) -> In sg (fst (fst (atrigger_event mc rp susp c ts s))) ->
  exists err st cbs,
    reg_list mc (sg_kind sg) cbs /\
    starts (sg_evs sg) = map (fun x => mk_item rp c (fst x) err st (snd x)) cbs /\
    (forall x, In x (ends (sg_evs sg)) <-> In x cbs /\ raises rp (snd x) = false) /\
    (forall l1 sl cb l2, sg_evs sg = l1 ++ SEnd sl cb :: l2 ->
                         exists l0 l0', l1 = l0 ++ SStart (mk_item rp c sl err st cb) :: l0').
Proof.
  intros H1 H2. pose proof (shaped_trigger_event mc rp susp c e ts H1 s) as F.
  rewrite Forall_forall in F. destruct (F sg H2) as (err&st&cbs&E&R).
  exists err, st, cbs. rewrite E. split; [exact R|]. split; [apply starts_gather|]. split.
  - intros x. apply in_ends_gather.
  - intros l1 sl cb l2. apply end_after_start.
Qed.

Lemma start_order mc rp susp c e ts s sg :
  In (e, ts) (m_events mc) -> In sg (fst (fst (atrigger_event mc rp susp c ts s))) ->
  exists cbs, reg_list mc (sg_kind sg) cbs /\
    map (fun it => (it_slot it, it_cb it)) (starts (sg_evs sg)) = cbs.
Proof.
  intros H1 H2. destruct (stage_facts mc rp susp c e ts s sg H1 H2) as (err&st&cbs&R&S&_).
  exists cbs. split; [exact R|]. rewrite S, map_map. cbn [Async.mk_item it_slot it_cb].
  clear. induction cbs as [|[a b] r IH]; [reflexivity|]. cbn [map fst snd]. rewrite IH. reflexivity.
Qed.

Lemma completed mc rp susp c e ts s sg :
  In (e, ts) (m_events mc) -> In sg (fst (fst (atrigger_event mc rp susp c ts s))) ->
  (forall it, In (SStart it) (sg_evs sg) -> r_raise (rp (it_cb it)) = None ->
              In (SEnd (it_slot it) (it_cb it)) (sg_evs sg)) /\
  (forall l1 sl cb l2, sg_evs sg = l1 ++ SEnd sl cb :: l2 ->
                       exists it, In (SStart it) l1 /\ it_slot it = sl /\ it_cb it = cb).
Proof.
  intros H1 H2. destruct (stage_facts mc rp susp c e ts s sg H1 H2) as (err&st&cbs&R&S&E&B). split.
  - intros it Hi NRz. apply in_starts_iff in Hi. rewrite S in Hi. apply in_map_iff in Hi.
    destruct Hi as (x&Hx&Hin). subst it. cbn [Async.mk_item it_slot it_cb] in *.
    apply in_ends_iff. apply E. split; [destruct x; exact Hin|]. cbn [snd]. unfold raises. rewrite NRz. reflexivity.
  - intros l1 sl cb l2 H. destruct (B l1 sl cb l2 H) as (l0&l0'&El).
    exists (mk_item rp c sl err st cb). split; [rewrite El; apply in_app_iff; right; left; reflexivity|].
    split; reflexivity.
Qed.

Lemma tagged_flat tr n : map snd (tagged_from n tr) = flat_map sg_evs tr.
Proof.
  revert n. induction tr as [|sg r IH]; intros n; [reflexivity|].
  cbn [tagged_from flat_map]. rewrite map_app, IH, map_map. cbn [snd]. rewrite map_id. reflexivity.
Qed.

(* stages never overlap: along the flat event sequence the stage index never decreases *)
Lemma tagged_from_ge n tr g e : In (g, e) (tagged_from n tr) -> n <= g.
Proof.
  revert n. induction tr as [|sg r IH]; intros n H; [destruct H|].
  cbn [tagged_from] in H. apply in_app_iff in H. destruct H as [H|H].
  - apply in_map_iff in H. destruct H as (x&Hx&_). injection Hx as Hx _. lia.
  - apply IH in H. lia.
Qed.

Lemma tagged_from_fst_const (n : nat) (l : list sev) (g : nat) (e : sev) : In (g, e) (map (fun e => (n, e)) l) -> g = n.
Proof. intros H. apply in_map_iff in H. destruct H as (x&Hx&_). congruence. Qed.

Lemma tagged_monotone tr n l1 g1 e1 l2 g2 e2 l3 :
  tagged_from n tr = l1 ++ (g1, e1) :: l2 ++ (g2, e2) :: l3 -> g1 <= g2.
Proof.
  revert n l1. induction tr as [|sg r IH]; intros n l1 H.
  - destruct l1; discriminate.
  - cbn [tagged_from] in H.
    remember (map (fun e => (n, e)) (sg_evs sg)) as hd eqn:Ehd.
    assert (Hhd : forall g e, In (g, e) hd -> g = n) by (intros g e Hi; subst hd; eapply tagged_from_fst_const; eassumption).
    clear Ehd. revert l1 H. induction hd as [|x hd IHhd]; intros l1 H.
    + simpl in H. eapply IH. eassumption.
    + destruct l1 as [|y l1].
      * simpl in H. injection H as Hx H. subst x.
        assert (g1 = n) by (eapply Hhd; left; reflexivity). subst g1.
        assert (Hin : In (g2, e2) (hd ++ tagged_from (S n) r)) by (rewrite H; apply in_app_iff; right; left; reflexivity).
        apply in_app_iff in Hin. destruct Hin as [Hin|Hin].
        -- assert (g2 = n) by (eapply Hhd; right; eassumption). lia.
        -- apply tagged_from_ge in Hin. lia.
      * simpl in H. injection H as _ H. eapply IHhd; [|eassumption].
        intros g e Hi. eapply Hhd. right. eassumption.
Qed.

(* ------------------------------------------------------------------ unknown event names *)
(* await model.trigger(<unknown name>): AsyncMachine._get_trigger hands through what
   Machine._get_trigger does — False on a state that ignores invalid triggers, AttributeError
   otherwise (ValueError for an unregistered state), no callback at all; for ANY behaviour *)
Lemma unknown_event_same mc rp susp c e p s :
  lookup (m_events mc) e = None ->
  let a := atrigger mc rp susp c e s in
  let f := trigger mc (ev_of rp) c e p s in
  fst (fst a) = [] /\ fst (fst f) = [] /\ snd (fst a) = snd (fst f) /\ snd a = aresult_of (snd f).
Proof.
  intros L. unfold atrigger, trigger. rewrite L. unfold bind, get. cbn [length Nat.add].
  destruct (get_state mc s) as [sd|]; [destruct (ignores mc sd)|]; cbn; auto.
Qed.

(* by name, whether or not the machine knows the event *)
Lemma flat_sim_any_name mc rp susp c e p s :
  no_raise_rp rp ->
  let a := atrigger mc rp susp c e s in
  let f := trigger mc (ev_of rp) c e p s in
  stage_view (fst (fst a)) = fst (fst f) /\ snd (fst a) = snd (fst f) /\ snd a = aresult_of (snd f).
Proof.
  intros NR. destruct (lookup (m_events mc) e) as [ts|] eqn:L.
  - eapply flat_sim_named; eassumption.
  - destruct (unknown_event_same mc rp susp c e p s L) as (H1&H2&H3&H4).
    cbv zeta. rewrite H1, H2. auto.
Qed.

Definition mc_unknown : machine :=
  mkMachine [(0, mkSdef [] [] false (Some true)); (1, mkSdef [] [] false None)] [] [] [] [] [] [] [] false false.

Lemma unknown_event_example :
  let rp := fun _ : cbid => mkReply true None [] in
  let c := mkCtx 0 0 false in
  snd (trigger mc_unknown (ev_of rp) c 7 0 0) = inr false /\
  snd (atrigger mc_unknown rp (fun _ => 0) c 7 0) = AwRet false /\
  snd (trigger mc_unknown (ev_of rp) c 7 0 1) = inl AttributeError /\
  snd (atrigger mc_unknown rp (fun _ => 0) c 7 1) = AwExn AttributeError.
Proof. vm_compute. auto. Qed.

(* ------------------------------------------------------------------ the unlicensed difference *)
(* a callback raises and another one is registered after it in the same list: the synchronous
   machine never calls the second, the asynchronous one has already scheduled it *)
Definition mc_raise : machine :=
  mkMachine [(0, mkSdef [] [] false None)]
            [(0, [mkTrans 0 None [] [] [1; 2] []])] [] [] [] [] [] [] false false.

Lemma raise_stage_differs :
  let rp := fun cb : cbid => mkReply true (if Nat.eqb cb 1 then Some (UserExn 1) else None) [] in
  let c := mkCtx 0 0 false in
  map it_cb (fst (fst (trigger mc_raise (ev_of rp) c 0 0 0))) = [1] /\
  map it_cb (stage_view (fst (fst (atrigger mc_raise rp (fun _ => 0) c 0 0)))) = [1; 2] /\
  snd (trigger mc_raise (ev_of rp) c 0 0 0) = inl (UserExn 1) /\
  snd (atrigger mc_raise rp (fun _ => 0) c 0 0) = AwExn (UserExn 1).
Proof. vm_compute. auto. Qed.

(* non-vacuity: a machine with two candidates, the first blocked by its SECOND check of three — the
   asynchronous engine evaluates the third as well, stage_view hides exactly that *)
Definition mc_example : machine :=
  mkMachine [(0, mkSdef [] [10] false None); (1, mkSdef [11; 12] [] true None)]
            [(0, [mkTrans 0 (Some 1) [1] [(2, true); (3, true); (4, false)] [] [];
                  mkTrans 0 (Some 1) [] [(5, true)] [6; 7] [8]])]
            [20] [] [] [21] [] [22] false true.
Definition rp_example : cbid -> reply := fun cb => mkReply (negb (Nat.eqb cb 3)) None [].
Definition susp_example : cbid -> nat := fun cb => match cb with 6 => 2 | 7 => 1 | 11 => 1 | _ => 0 end.

Lemma example_nontrivial :
  no_raise_rp rp_example /\
  let a := atrigger_event mc_example rp_example susp_example (mkCtx 0 5 true)
                          [mkTrans 0 (Some 1) [1] [(2, true); (3, true); (4, false)] [] [];
                           mkTrans 0 (Some 1) [] [(5, true)] [6; 7] [8]] 0 in
  map it_cb (flat_map (fun sg => starts (sg_evs sg)) (fst (fst a))) = [20; 1; 2; 3; 4; 5; 6; 7; 10; 11; 12; 22; 8; 21] /\
  map it_cb (stage_view (fst (fst a))) = [20; 1; 2; 3; 5; 6; 7; 10; 11; 12; 22; 8; 21] /\
  map snd (flat_map (fun sg => ends (sg_evs sg)) (fst (fst a))) = [20; 1; 2; 3; 4; 5; 7; 6; 10; 12; 11; 22; 8; 21] /\
  snd (fst a) = 1 /\ snd a = inr true.
Proof. split; [intros cb; reflexivity|vm_compute; auto 10]. Qed.

(* ------------------------------------------------------------------ raising callbacks *)
(* The simulation with the synchronous engine extends to behaviours that RAISE, as long as a
   raising callback has no callback registered after it in its own list and is not a check
   (otherwise the two machines differ: raise_stage_differs above, and an asynchronous machine
   evaluates — and lets raise — checks that the synchronous one never reaches). *)
Section SimRaise.
  Variable mc : machine.
  Variable rp : cbid -> reply.
  Variable susp : cbid -> nat.
  Variable c : ctx.
  Notation id_seen := (fun s : state => s).
  Notation ev := (ev_of rp).

  (* only the last callback of a list may raise *)
  Fixpoint tail_raiseb (cbs : list cbid) : bool :=
    match cbs with
    | [] => true
    | cb :: r => match r with [] => true | _ => negb (raises rp cb) && tail_raiseb r end
    end.
  Definition checks_quiet (conds : list (cbid * bool)) : bool :=
    forallb (fun x => negb (raises rp (fst x))) conds.
  Definition trans_ok (t : trans) : bool :=
    tail_raiseb (t_prepare t) && checks_quiet (t_conds t) && tail_raiseb (t_before t) && tail_raiseb (t_after t).
  Definition sdef_ok (d : sdef) : bool := tail_raiseb (s_enter d) && tail_raiseb (s_exit d).
  Definition raise_ok : bool :=
    tail_raiseb (m_prepare_event mc) && tail_raiseb (m_before_sc mc) && tail_raiseb (m_after_sc mc) &&
    tail_raiseb (m_finalize mc) && tail_raiseb (m_on_exception mc) && tail_raiseb (m_on_final mc) &&
    forallb (fun sd => sdef_ok (snd sd)) (m_states mc).

  Lemma run_cbs_tail sl err cbs p s : tail_raiseb cbs = true ->
    run_cbs id_seen ev c sl err cbs p s =
      (map (mk_item rp c sl err s) cbs, s,
       match first_exn rp (map (fun cb => (sl, cb)) cbs) with Some e => inl e | None => inr tt end).
  Proof.
    revert p. induction cbs as [|cb r IH]; intros p H; [reflexivity|].
    cbn [run_cbs map first_exn snd]. unfold bind, call. change (ev_of rp cb p) with (rp cb).
    destruct r as [|cb2 r'].
    - cbn [run_cbs map first_exn]. unfold ret, Async.mk_item. destruct (r_raise (rp cb)); reflexivity.
    - cbn [tail_raiseb] in H. apply andb_true_iff in H. destruct H as [H1 H2].
      apply negb_true_iff in H1. unfold raises in H1.
      destruct (r_raise (rp cb)) eqn:E; [discriminate|].
      rewrite (IH _ H2). unfold Async.mk_item. reflexivity.
  Qed.

  Lemma sim_callbacks_tail sl err cbs : tail_raiseb cbs = true ->
    sim (acallbacks rp susp c sl err cbs) (run_cbs id_seen ev c sl err cbs).
  Proof.
    intros H p s. rewrite (run_cbs_tail sl err cbs p s H).
    unfold acallbacks, gather, aview. cbn [fst snd].
    unfold stage_view. cbn [flat_map]. unfold stage_view1. cbn [sg_kind sg_evs].
    rewrite app_nil_r, starts_gather, map_map. reflexivity.
  Qed.

  Lemma first_exn_quiet conds : checks_quiet conds = true -> first_exn rp (map check_slot conds) = None.
  Proof.
    induction conds as [|x r IH]; [reflexivity|]. cbn [checks_quiet forallb map first_exn check_slot snd].
    intros H. apply andb_true_iff in H. destruct H as [H1 H2]. apply negb_true_iff in H1. unfold raises in H1.
    destruct (r_raise (rp (fst x))); [discriminate|]. apply IH. exact H2.
  Qed.

  Lemma eval_conds_quiet conds p s : checks_quiet conds = true ->
    eval_conds id_seen ev c conds p s =
      (upto_first_failed (map (fun x => mk_item rp c (fst (check_slot x)) None s (snd (check_slot x))) conds),
       s, inr (forallb (check_passes rp) conds)).
  Proof.
    revert p. induction conds as [|[cb tg] r IH]; intros p H; [reflexivity|].
    cbn [checks_quiet forallb fst] in H. apply andb_true_iff in H. destruct H as [H1 H2].
    apply negb_true_iff in H1. unfold raises in H1. destruct (r_raise (rp cb)) eqn:E; [discriminate|].
    cbn [eval_conds map forallb]. unfold bind, call. change (ev_of rp cb p) with (rp cb). rewrite E.
    unfold check_passes at 1. cbn [fst snd check_slot].
    assert (F : check_failed (mk_item rp c (if tg then SCond else SUnless) None s cb)
                = negb (Bool.eqb (r_ret (rp cb)) tg)).
    { unfold check_failed, Async.mk_item. cbn [it_slot it_ret]. destruct tg; cbn [it_slot]; destruct (r_ret (rp cb)); reflexivity. }
    cbn [upto_first_failed]. rewrite F.
    destruct (Bool.eqb (r_ret (rp cb)) tg); cbn [negb andb].
    - rewrite (IH _ H2). unfold Async.mk_item. destruct (c_send c); reflexivity.
    - unfold ret, Async.mk_item. destruct (c_send c); reflexivity.
  Qed.

  Lemma sim_conds_quiet conds : checks_quiet conds = true ->
    sim (aeval_conds rp susp c conds) (eval_conds id_seen ev c conds).
  Proof.
    intros H p s. rewrite (eval_conds_quiet conds p s H).
    unfold aeval_conds, abind, gather, aret, aview. rewrite (first_exn_quiet conds H). cbn [fst snd].
    rewrite app_nil_r. unfold stage_view. cbn [flat_map]. unfold stage_view1. cbn [sg_kind sg_evs].
    rewrite app_nil_r, starts_gather, map_map. reflexivity.
  Qed.

  Hypothesis OK : raise_ok = true.

  Lemma ok_parts :
    tail_raiseb (m_prepare_event mc) = true /\ tail_raiseb (m_before_sc mc) = true /\
    tail_raiseb (m_after_sc mc) = true /\ tail_raiseb (m_finalize mc) = true /\
    tail_raiseb (m_on_exception mc) = true /\ tail_raiseb (m_on_final mc) = true /\
    forallb (fun sd => sdef_ok (snd sd)) (m_states mc) = true.
  Proof.
    pose proof OK as H. unfold raise_ok in H.
    repeat (apply andb_true_iff in H; let H' := fresh "K" in destruct H as [H H']).
    repeat split; assumption.
  Qed.

  Lemma lookup_In {A} (l : list (nat * A)) k v : lookup l k = Some v -> In (k, v) l.
  Proof.
    induction l as [|[k' v'] r IH]; [discriminate|]. simpl.
    destruct (Nat.eqb k k') eqn:E; [apply Nat.eqb_eq in E; intros H; left; congruence|intros H; right; auto].
  Qed.

  Lemma state_ok s sd : get_state mc s = Some sd ->
    tail_raiseb (s_enter sd) = true /\ tail_raiseb (s_exit sd) = true.
  Proof.
    intros H. apply lookup_In in H. destruct ok_parts as (_&_&_&_&_&_&F).
    rewrite forallb_forall in F. specialize (F _ H). cbn [snd] in F. unfold sdef_ok in F.
    apply andb_true_iff in F. exact F.
  Qed.

  Lemma sim_change_state_r t d : sim (achange_state mc rp susp c t d) (change_state mc ev c t d).
  Proof.
    unfold achange_state, change_state.
    destruct (get_state mc (t_src t)) as [sd|] eqn:E1; [|apply sim_raise].
    apply sim_bind; [apply sim_callbacks_tail; apply (state_ok _ _ E1)|intros _].
    destruct (get_state mc d) as [dd|] eqn:E2; [|apply sim_raise].
    apply sim_bind; [apply sim_put|intros _].
    apply sim_bind; [apply sim_callbacks_tail; apply (state_ok _ _ E2)|intros _].
    destruct (s_final dd); [apply sim_callbacks_tail; apply ok_parts|apply sim_ret].
  Qed.

  Lemma sim_execute_r t : trans_ok t = true -> sim (aexecute mc rp susp c t) (execute mc ev c t).
  Proof.
    intros H. unfold trans_ok in H.
    apply andb_true_iff in H. destruct H as [H Ha].
    apply andb_true_iff in H. destruct H as [H Hb].
    apply andb_true_iff in H. destruct H as [Hp Hc].
    unfold aexecute, execute.
    apply sim_bind; [apply sim_callbacks_tail; exact Hp|intros _].
    apply sim_bind; [apply sim_conds_quiet; exact Hc|intros ok].
    destruct ok; [|apply sim_ret].
    apply sim_bind; [apply sim_callbacks_tail; apply ok_parts|intros _].
    apply sim_bind; [apply sim_callbacks_tail; exact Hb|intros _].
    apply sim_bind; [destruct (t_dst t); [apply sim_change_state_r|apply sim_ret]|intros _].
    apply sim_bind; [apply sim_callbacks_tail; exact Ha|intros _].
    apply sim_bind; [apply sim_callbacks_tail; apply ok_parts|intros _].
    apply sim_ret.
  Qed.

  Lemma sim_try_transitions_r ts : forallb trans_ok ts = true ->
    sim (atry_transitions mc rp susp c ts) (try_transitions mc ev c ts).
  Proof.
    induction ts as [|t r IH]; intros H; [apply sim_ret|].
    cbn [forallb] in H. apply andb_true_iff in H. destruct H as [H1 H2].
    cbn [atry_transitions try_transitions].
    apply sim_bind; [apply sim_execute_r; exact H1|intros ok]. destruct ok; [apply sim_ret|apply IH; exact H2].
  Qed.

  Lemma forallb_filter {A} (f g : A -> bool) l : forallb f l = true -> forallb f (filter g l) = true.
  Proof.
    induction l as [|x r IH]; [reflexivity|]. cbn [forallb filter]. intros H.
    apply andb_true_iff in H. destruct H as [H1 H2]. destruct (g x); [cbn [forallb]; rewrite H1; auto|auto].
  Qed.

  Lemma sim_trigger_event_r ts : forallb trans_ok ts = true ->
    sim (atrigger_event mc rp susp c ts) (trigger_event mc ev c ts).
  Proof.
    intros H. unfold atrigger_event, trigger_event.
    apply sim_bind; [apply sim_get|intros cur].
    destruct (get_state mc cur) as [sd|]; [|apply sim_raise].
    apply sim_tef.
    - unfold achecked_process, checked_process.
      destruct (candidates ts cur) eqn:E; [destruct (ignores mc sd); [apply sim_ret|apply sim_raise]|].
      unfold aprocess, process. apply sim_bind; [apply sim_callbacks_tail; apply ok_parts|intros _].
      apply sim_try_transitions_r. unfold candidates. apply forallb_filter. exact H.
    - intros e. destruct (m_on_exception mc) eqn:E; [apply sim_raise|]. rewrite <- E.
      apply sim_bind; [apply sim_callbacks_tail; apply ok_parts|intros _; apply sim_ret].
    - intros err. apply sim_callbacks_tail. apply ok_parts.
  Qed.
End SimRaise.

(* the statement of C07_flat_raising *)
Lemma flat_sim_raising mc rp susp c ts p s :
  raise_ok mc rp = true -> forallb (trans_ok rp) ts = true ->
  aview (atrigger_event mc rp susp c ts s) = trigger_event mc (ev_of rp) c ts p s.
Proof. intros H1 H2. apply sim_trigger_event_r; assumption. Qed.

(* non-vacuity: the last `before` callback raises, handlers registered, finalize runs *)
Definition mc_raise_last : machine :=
  mkMachine [(0, mkSdef [] [5] false None); (1, mkSdef [6] [] false None)]
            [(0, [mkTrans 0 (Some 1) [1] [(2, true)] [3; 4] [7]])] [] [] [] [8] [9] [] false true.
Definition rp_raise_last : cbid -> reply :=
  fun cb => mkReply true (if Nat.eqb cb 4 then Some (BaseExn 2) else None) [].

Lemma raising_example :
  raise_ok mc_raise_last rp_raise_last = true /\
  forallb (trans_ok rp_raise_last) [mkTrans 0 (Some 1) [1] [(2, true)] [3; 4] [7]] = true /\
  let a := atrigger_event mc_raise_last rp_raise_last (fun cb => cb) (mkCtx 0 1 true)
                          [mkTrans 0 (Some 1) [1] [(2, true)] [3; 4] [7]] 0 in
  map it_cb (stage_view (fst (fst a))) = [1; 2; 3; 4; 9; 8] /\
  map it_err (stage_view (fst (fst a))) = [None; None; None; None; Some (BaseExn 2); Some (BaseExn 2)] /\
  snd (fst a) = 0 /\ snd a = inr false.
Proof. vm_compute. auto 10. Qed.
