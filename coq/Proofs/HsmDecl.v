(* HsmDecl.v — C03, last sentence: the invalid-trigger branch (_check_event_result: MachineError / AttributeError /
   False when ignored) is taken exactly when no active state or ancestor declares the event - whatever the shape of
   the active configuration and whatever the callbacks do.  No hypothesis on the environment. *)
From Coq Require Import List Arith Bool Lia.
From M Require Import Base Flat Hsm HsmSpec.
From P Require Import MonadP HsmForest HsmResolve HsmReach HsmOffer HsmIff.
Import ListNotations.

Section Decl.
  Variable hm : hmachine.
  Variable ev : env.
  Variable c : ctx.
  Variable e : event.
  Notation HM := (M (V:=forest) (S:=forest)).
  Notation ids := (fun s : forest => s).

  Definition has_cands (ts : list htrans) (q : path) : bool := match cands ts q with [] => false | _ => true end.

  (* some scope declares the event for the (active) source sc ++ q *)
  Definition decl_pair (sc q : path) : bool :=
    match lookup (scope_events hm sc) e with Some ts => has_cands ts q | None => false end.
  Definition declares (f : forest) : Prop :=
    exists sc q, q <> [] /\ active f (sc ++ q) = true /\ decl_pair sc q = true.

  Section Loop.
    Variable sc : path.
    Variable ts : list htrans.
    Variable A : path -> HM bool.
    Let hc := (fun p : path => match cands ts p with [] => false | _ => true end).

    Lemma offer_loop_some : forall order done result p0 s tr s' res log,
      offer_loop_gen A hc sc order done result p0 s = (tr, s', inr (res, log)) -> result <> None -> res <> None.
    Proof.
      induction order as [|p rest IH]; intros done result p0 s tr s' res log H N; cbn [offer_loop_gen] in H.
      - apply ret_inr in H as (_ & _ & H). injection H as <- _. exact N.
      - destruct (existsb (path_eqb p) done || negb (hc p)); [eapply IH; eauto|].
        apply bind_inr in H as (t0 & s0 & f & t1 & G & H & _). apply get_inr in G as (_ & -> & ->).
        destruct (negb (active s (sc ++ p))); [eapply IH; eauto|].
        apply bind_inr in H as (t2 & s2 & ok & t3 & _ & H & _).
        apply bind_inr in H as (t4 & s4 & rl & t5 & H2 & H3 & _). destruct rl as [r0 l0].
        apply ret_inr in H3 as (_ & _ & H3). injection H3 as <- _. cbn [fst].
        destruct ok; (eapply IH; [exact H2|]); [discriminate|destruct result; [discriminate|congruence]].
    Qed.

    Lemma offer_loop_none : forall order done p0 s tr s' res log,
      offer_loop_gen A hc sc order done None p0 s = (tr, s', inr (res, log)) ->
      (res = None -> tr = [] /\ s' = s) /\
      (res = None <-> forall q, In q order -> existsb (path_eqb q) done = false -> hc q = true -> active s (sc ++ q) = false).
    Proof.
      induction order as [|p rest IH]; intros done p0 s tr s' res log H; cbn [offer_loop_gen] in H.
      - apply ret_inr in H as (-> & -> & H). injection H as <- _. split; [auto|]. split; [intros _ q []|reflexivity].
      - destruct (existsb (path_eqb p) done || negb (hc p)) eqn:SK.
        + destruct (IH _ _ _ _ _ _ _ H) as [I1 I2]. split; [exact I1|]. rewrite I2. split.
          * intros X q [<-|Hq] D Hc; [|now apply X]. apply orb_true_iff in SK as [SK|SK]; [congruence|].
            rewrite Hc in SK. discriminate.
          * intros X q Hq. apply X. now right.
        + apply orb_false_iff in SK as [SK1 SK2]. apply negb_false_iff in SK2.
          apply bind_inr in H as (t0 & s0 & f & t1 & G & H & ->). apply get_inr in G as (-> & -> & ->). cbn [app].
          destruct (negb (active s (sc ++ p))) eqn:AC.
          * apply negb_true_iff in AC. destruct (IH _ _ _ _ _ _ _ H) as [I1 I2]. split; [exact I1|]. rewrite I2. split.
            -- intros X q [<-|Hq] D Hc; [exact AC|now apply X].
            -- intros X q Hq. apply X. now right.
          * apply negb_false_iff in AC.
            apply bind_inr in H as (t2 & s2 & ok & t3 & _ & H & _).
            apply bind_inr in H as (t4 & s4 & rl & t5 & H2 & H3 & _). destruct rl as [r0 l0].
            apply ret_inr in H3 as (_ & _ & H3). injection H3 as <- _. cbn [fst].
            assert (RN : res <> None).
            { destruct ok; (eapply offer_loop_some; [exact H2|discriminate]). }
            split; [intros X; congruence|]. split; [intros X; congruence|].
            intros X. specialize (X p (or_introl eq_refl) SK1 SK2). congruence.
    Qed.
  End Loop.

  Lemma trigger_nested_none sc ts key cur ch p s tr s' r :
    uniq s = true -> sub s sc = Some cur -> f_get cur key = Some ch ->
    trigger_nested hm ev c sc ts key p s = (tr, s', inr r) ->
    (r = None -> tr = [] /\ s' = s) /\
    (r = None <-> forall q0, active s (sc ++ key :: q0) = true -> has_cands ts (key :: q0) = false).
  Proof.
    intros U S G H. unfold trigger_nested in H.
    apply bind_inr in H as (t0 & s0 & f & t1 & G0 & H & ->). apply get_inr in G0 as (-> & -> & ->). cbn [app].
    rewrite S, G in H. apply bind_inr in H as (t2 & s2 & [res log] & t3 & H1 & H2 & ->).
    apply ret_inr in H2 as (-> & -> & ->). cbn [fst]. rewrite app_nil_r. unfold offer_loop in H1.
    apply offer_loop_none in H1 as [I1 I2]. split; [exact I1|]. rewrite I2.
    assert (UC : uniq [Node key ch] = true).
    { apply uniq_single. eapply uniq_child; [eapply uniq_sub; [exact U|exact S]|]. eapply f_get_In. exact G. }
    assert (ACT : forall q0, active s (sc ++ key :: q0) = active [Node key ch] (key :: q0)).
    { intros q0. rewrite active_app, S, active_single. unfold active. cbn [sub]. rewrite G. reflexivity. }
    split.
    - intros X q0 Ac. unfold has_cands. destruct (cands ts (key :: q0)) eqn:CE; [reflexivity|].
      assert (IN : In (key :: q0) (resolve_order [Node key ch])).
      { apply in_resolve_order. apply (in_nodes_active _ _ UC). split; [discriminate|]. now rewrite <- ACT. }
      specialize (X _ IN eq_refl). rewrite CE in X. specialize (X eq_refl). congruence.
    - intros X q Hq _ Hc. apply in_resolve_order in Hq. apply (in_nodes_active _ _ UC) in Hq as [QN Ac].
      destruct q as [|k q0]; [congruence|].
      assert (k = key).
      { unfold active in Ac. cbn [sub f_get t_name] in Ac. destruct (Nat.eqb key k) eqn:E; [apply Nat.eqb_eq in E; auto|discriminate]. }
      subst k. destruct (active s (sc ++ key :: q0)) eqn:AS; [|reflexivity].
      specialize (X q0 AS). unfold has_cands in X. destruct (cands ts (key :: q0)); [discriminate|discriminate].
  Qed.

  (* no (scope, source) pair below scope sc whose absolute path starts with sc ++ [key] declares the event *)
  Definition cov_none (s : forest) (sc : path) (key : nat) : Prop :=
    forall x q r, q <> [] -> x ++ q = key :: r -> active s (sc ++ x ++ q) = true -> decl_pair (sc ++ x) q = false.

  Definition df_stmt (l : list tree) : Prop :=
    forall sc cur p s tr s' r,
      uniq s = true -> sub s sc = Some cur -> (forall k ch, In (Node k ch) l -> f_get cur k = Some ch) ->
      dispatch_f hm ev c e sc l None p s = (tr, s', inr r) ->
      (r = None -> tr = [] /\ s' = s) /\ (r = None <-> forall k ch, In (Node k ch) l -> cov_none s sc k).
  Definition dt_stmt (t : tree) : Prop :=
    forall sc cur p s tr s' r,
      uniq s = true -> sub s sc = Some cur -> f_get cur (t_name t) = Some (t_children t) ->
      dispatch_t hm ev c e sc t p s = (tr, s', inr r) ->
      (r = None -> tr = [] /\ s' = s) /\ (r = None <-> cov_none s sc (t_name t)).

  Lemma dispatch_f_some : forall l sc acc p s tr s' r,
    dispatch_f hm ev c e sc l acc p s = (tr, s', inr r) -> acc <> None -> r <> None.
  Proof.
    induction l as [|t l IH]; intros sc acc p s tr s' r H N; cbn [dispatch_f] in H.
    - apply ret_inr in H as (_ & _ & ->). exact N.
    - apply bind_inr in H as (t1 & s1 & x & t2 & _ & H & _). eapply IH; [exact H|]. destruct x; [discriminate|exact N].
  Qed.

  Lemma df_of_dt l : Forall dt_stmt l -> df_stmt l.
  Proof.
    induction l as [|t l IH]; intros HF sc cur p s tr s' r U S Ch H; cbn [dispatch_f] in H.
    - apply ret_inr in H as (-> & -> & ->). split; [auto|]. split; [intros _ k ch []|reflexivity].
    - inversion HF as [|? ? Ht Hl]; subst. specialize (IH Hl).
      apply bind_inr in H as (t1 & s1 & x & t2 & H1 & H2 & ->). destruct t as [k0 ch0].
      destruct (Ht sc cur _ _ _ _ _ U S (Ch k0 ch0 (or_introl eq_refl)) H1) as [T1 T2]. cbn [t_name] in *.
      destruct x as [b|].
      + assert (RN : r <> None) by (eapply dispatch_f_some; [exact H2|discriminate]).
        split; [intros X; congruence|]. split; [intros X; congruence|].
        intros X. assert (Some b = None) by (apply T2; eapply X; now left). discriminate.
      + destruct (T1 eq_refl) as [-> ->]. cbn [app].
        destruct (IH sc cur _ _ _ _ _ U S (fun k ch I => Ch k ch (or_intror I)) H2) as [I1 I2].
        split; [exact I1|]. rewrite I2. split.
        * intros X k ch [E|I]; [injection E as <- <-; now apply T2|eapply X; exact I].
        * intros X k ch I. eapply X. right. exact I.
  Qed.

  Lemma dt_all : forall t, dt_stmt t.
  Proof.
    induction t as [key ch IH] using tree_ind2. intros sc cur p s tr s' r U S G H. cbn [t_name t_children] in *.
    cbn [dispatch_t] in H.
    apply bind_inr in H as (t0 & s0 & f & t1 & G0 & H & ->). apply get_inr in G0 as (-> & -> & ->). cbn [app].
    assert (AK : active s (sc ++ [key]) = true).
    { rewrite active_app, S. unfold active. cbn [sub]. now rewrite G. }
    rewrite AK in H. cbn [negb] in H.
    apply bind_inr in H as (t2 & s2 & r1 & t3 & H1 & H2 & ->).
    assert (H1' : dispatch_f hm ev c e (sc ++ [key]) ch None (p + length (@nil (gitem forest))) s = (t2, s2, inr r1)).
    { destruct ch as [|c0 r0]; [exact H1|]. rewrite <- (dispatch_go_eq hm ev c e). exact H1. }
    clear H1. pose proof (df_of_dt ch IH) as DF.
    assert (S2 : sub s (sc ++ [key]) = Some ch) by (rewrite sub_app, S; cbn [sub]; now rewrite G).
    assert (UCh : uniq ch = true) by (eapply uniq_sub; [exact U|exact S2]).
    assert (CH : forall k ch', In (Node k ch') ch -> f_get ch k = Some ch').
    { intros k ch' I. apply In_f_get; [|exact I]. unfold uniq in UCh. now apply andb_true_iff in UCh as [X _]. }
    destruct (DF _ _ _ _ _ _ _ U S2 CH H1') as [D1 D2].
    (* cov_none of this node = children's cov_none + this scope's own pairs *)
    assert (COV : cov_none s sc key <->
                  (forall k ch', In (Node k ch') ch -> cov_none s (sc ++ [key]) k) /\
                  (forall q0, active s (sc ++ key :: q0) = true -> decl_pair sc (key :: q0) = false)).
    { split.
      - intros X. split.
        + intros k ch' I x q r0 Q E Ac.
          replace ((sc ++ [key]) ++ x) with (sc ++ key :: x) by (rewrite <- app_assoc; reflexivity).
          apply (X (key :: x) q (x ++ q) Q eq_refl). replace (sc ++ (key :: x) ++ q) with ((sc ++ [key]) ++ x ++ q) by (rewrite <- app_assoc; reflexivity).
          exact Ac.
        + intros q0 Ac. specialize (X [] (key :: q0) q0 ltac:(discriminate) eq_refl). cbn [app] in X. rewrite app_nil_r in X. now apply X.
      - intros [X1 X2] x q r0 Q E Ac. destruct x as [|k x'].
        + cbn [app] in E. subst q. rewrite app_nil_r. apply X2. exact Ac.
        + cbn [app] in E. injection E as -> E.
          assert (E2 : sc ++ (key :: x') ++ q = (sc ++ [key]) ++ x' ++ q) by (rewrite <- app_assoc; reflexivity).
          assert (E3 : sc ++ key :: x' = (sc ++ [key]) ++ x') by (rewrite <- app_assoc; reflexivity).
          rewrite E2 in Ac. rewrite E3.
          destruct (x' ++ q) as [|k2 r2] eqn:XQ; [destruct x'; [cbn in XQ; congruence|discriminate]|].
          assert (exists ch2, f_get ch k2 = Some ch2) as [ch2 G2].
          { rewrite active_app, S2 in Ac. unfold active in Ac. cbn [sub] in Ac. destruct (f_get ch k2); [eauto|discriminate]. }
          apply (X1 k2 ch2 (f_get_In _ _ _ G2) x' q r2 Q XQ). rewrite XQ. exact Ac. }
    destruct r1 as [[|]|].
    - apply ret_inr in H2 as (-> & -> & ->). split; [discriminate|]. split; [discriminate|].
      intros X. apply COV in X as [X _]. assert (Some true = None) by (apply D2; exact X). discriminate.
    - (* children answered False: the result is never None *)
      assert (RN : r <> None).
      { destruct (lookup (scope_events hm sc) e).
        - apply bind_inr in H2 as (t4 & s4 & r2 & t5 & _ & H4 & _). apply ret_inr in H4 as (_ & _ & ->). destruct r2; discriminate.
        - apply ret_inr in H2 as (_ & _ & ->). discriminate. }
      split; [intros X; congruence|]. split; [intros X; congruence|].
      intros X. apply COV in X as [X _]. assert (Some false = None) by (apply D2; exact X). discriminate.
    - destruct (D1 eq_refl) as [-> ->]. cbn [app] in *.
      assert (CN : forall k ch', In (Node k ch') ch -> cov_none s (sc ++ [key]) k) by (apply D2; reflexivity).
      destruct (lookup (scope_events hm sc) e) as [ts|] eqn:L.
      + apply bind_inr in H2 as (t4 & s4 & r2 & t5 & H3 & H4 & ->). apply ret_inr in H4 as (-> & -> & ->).
        rewrite app_nil_r.
        destruct (trigger_nested_none _ _ _ _ _ _ _ _ _ _ U S G H3) as [N1 N2].
        assert (EQ : (match r2 with None => @None bool | Some b => Some b end) = r2) by (destruct r2; reflexivity).
        rewrite EQ. split; [exact N1|]. rewrite N2, COV. split.
        * intros X. split; [exact CN|]. intros q0 Ac. unfold decl_pair. rewrite L. now apply X.
        * intros [_ X] q0 Ac. specialize (X q0 Ac). unfold decl_pair in X. now rewrite L in X.
      + apply ret_inr in H2 as (-> & -> & ->). split; [auto|]. split; [|reflexivity]. intros _.
        apply COV. split; [exact CN|]. intros q0 _. unfold decl_pair. now rewrite L.
  Qed.

  (* C03: the scope recursion answers None - and only then is _check_event_result consulted - exactly when no active
     state or ancestor declares the event; nothing has run and nothing has changed in that case *)
  Theorem dispatch_none_iff p f tr f' r : uniq f = true ->
    dispatch_f hm ev c e [] f None p f = (tr, f', inr r) ->
    (r = None <-> ~ declares f) /\ (r = None -> tr = [] /\ f' = f).
  Proof.
    intros U H.
    assert (CH : forall k ch, In (Node k ch) f -> f_get f k = Some ch).
    { intros k ch I. apply In_f_get; [|exact I]. unfold uniq in U. now apply andb_true_iff in U as [X _]. }
    pose proof (df_of_dt f (proj2 (Forall_forall _ _) (fun t _ => dt_all t))) as DF.
    destruct (DF [] f _ _ _ _ _ U eq_refl CH H) as [D1 D2]. split; [|exact D1]. rewrite D2. split.
    - intros X (sc & q & Q & Ac & DP).
      destruct (sc ++ q) as [|k r0] eqn:SQ; [destruct sc; [cbn in SQ; congruence|discriminate]|].
      assert (exists ch, f_get f k = Some ch) as [ch G].
      { unfold active in Ac. cbn [sub] in Ac. destruct (f_get f k); [eauto|discriminate]. }
      pose proof (X k ch (f_get_In _ _ _ G) sc q r0 Q SQ) as Y. cbn [app] in Y. rewrite SQ in Y. specialize (Y Ac). congruence.
    - intros X k ch I x q r0 Q E Ac. cbn [app] in *. destruct (decl_pair x q) eqn:DP; [|reflexivity].
      exfalso. apply X. exists x, q. auto.
  Qed.

  (* ... hence: when nothing is declared for any active state, the trigger IS the invalid-trigger check of the
     active leaves (MachineError / AttributeError / False when all of them ignore), no callback of the event's
     stages having run *)
  Theorem undeclared_is_invalid p f : uniq f = true -> ~ declares f ->
    forall tr f' r, trigger_body hm ev c e p f = (tr, f', r) ->
    (exists x, r = inl x /\ dispatch_f hm ev c e [] f None p f = (tr, f', inl x)) \/
    (tr = [] /\ f' = f /\ check_leaves hm e (leaves f) p f = ([], f, r)).
  Proof.
    intros U ND tr f' r H. unfold trigger_body in H. unfold bind at 1 in H. unfold get at 1 in H. cbn [length] in H.
    rewrite Nat.add_0_r in H. unfold bind at 1 in H.
    destruct (dispatch_f hm ev c e [] f None p f) as [[t1 s1] [x|r1]] eqn:D.
    - injection H as <- <- <-. left. exists x. auto.
    - destruct (dispatch_none_iff _ _ _ _ _ U D) as [I1 I2].
      assert (r1 = None) by (apply I1; exact ND). subst r1. destruct (I2 eq_refl) as [-> ->]. cbn [length app] in H.
      rewrite Nat.add_0_r in H. unfold bind, get in H. cbn [length] in H. rewrite Nat.add_0_r in H.
      destruct (check_leaves hm e (leaves f) p f) as [[t3 s3] r3] eqn:CL. injection H as <- <- <-.
      right.
      assert (t3 = [] /\ s3 = f).
      { clear -CL. revert CL. generalize (leaves f). induction l as [|l0 r IH]; cbn [check_leaves]; intros CL.
        - unfold ret in CL. injection CL as <- <- _. auto.
        - destruct (defs_at hm l0) as [d|]; [|unfold raise in CL; injection CL as <- <- _; auto].
          destruct (match sd_ignore d with Some b0 => b0 | None => hm_ignore hm end); [exact (IH CL)|].
          destruct (has_trigger hm e); unfold raise in CL; injection CL as <- <- _; auto. }
      destruct H as [-> ->]. auto.
  Qed.
End Decl.
