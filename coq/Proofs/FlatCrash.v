(* FlatCrash.v — C04 for the flat engine: a single raising callback at any position of the documented trace. *)
From Coq Require Import List Arith Bool Lia.
From M Require Import Base Flat FlatSpec.
From P Require Import FlatP FlatOrder.
Import ListNotations.

Definition single_raise (ev : env) (k : nat) (e : exn) : Prop :=
  (forall cb, r_raise (ev cb k) = Some e) /\ (forall cb q, q <> k -> r_raise (ev cb q) = None).

(* the same callbacks, never raising *)
Definition strip (ev : env) : env := fun cb q => mkReply (r_ret (ev cb q)) None (r_acts (ev cb q)).
Lemma strip_no_raise ev : no_raise (strip ev).
Proof. intros cb p. reflexivity. Qed.

Definition dummy_item : item := mkItem SPrepareEvent 0 0 0 (Plain 0) None false [].

(* A program family (indexed by the environment) "crashes cleanly": under an environment
   with a single raising position k, it behaves like its non-raising twin if k is outside
   the span of positions it uses, and otherwise stops right after the raising callback,
   with the state that callback saw, propagating the exception. *)
Definition crash_ok {A} (F : env -> M (S:=state) A) : Prop :=
  forall ev k e, single_raise ev k e ->
  forall p s t0 s0 a, F (strip ev) p s = (t0, s0, inr a) ->
    ((k < p \/ p + length t0 <= k) -> F ev p s = (t0, s0, inr a)) /\
    ((p <= k < p + length t0) ->
       F ev p s = (firstn (k - p + 1) t0, it_state (nth (k - p) t0 dummy_item), inl e)).

Lemma crash_ret {A} (a : A) : crash_ok (fun _ => ret a).
Proof.
  intros ev k e SR p s t0 s0 a' H. unfold ret in *. inversion H; subst. split; intros; [reflexivity|].
  cbn in *. lia.
Qed.

Lemma crash_put (x : state) : crash_ok (fun _ => put x).
Proof.
  intros ev k e SR p s t0 s0 a' H. unfold put in *. inversion H; subst. split; intros; [reflexivity|].
  cbn in *. lia.
Qed.

Lemma crash_call c sl err cb : crash_ok (fun ev => call (fun s : state => s) ev c sl err cb).
Proof.
  intros ev k e [SRk SRo] p s t0 s0 a H. unfold call in *. cbn in H. inversion H; subst; clear H.
  cbn [length]. split.
  - intros Hk. rewrite SRo by lia. reflexivity.
  - intros Hk. assert (k = p) by lia. subst k. rewrite SRk.
    replace (p - p) with 0 by lia. reflexivity.
Qed.

Lemma crash_bind {A B} (F : env -> M (S:=state) A) (G : A -> env -> M (S:=state) B) :
  crash_ok F -> (forall a, crash_ok (G a)) ->
  crash_ok (fun ev => bind (F ev) (fun a => G a ev)).
Proof.
  intros HF HG ev k e SR p s t0 s0 b H. unfold bind in H.
  destruct (F (strip ev) p s) as [[t1 s1] r1] eqn:E1.
  destruct r1 as [ex|a]; [discriminate|].
  destruct (G a (strip ev) (p + length t1) s1) as [[t2 s2] r2] eqn:E2.
  injection H as Ht Hs Hr; subst t0 s0 r2.
  destruct (HF ev k e SR p s t1 s1 a E1) as [HF1 HF2].
  destruct (HG a ev k e SR (p + length t1) s1 t2 s2 b E2) as [HG1 HG2].
  rewrite app_length. unfold bind. split.
  - intros Hk. rewrite HF1 by lia. rewrite HG1 by lia. reflexivity.
  - intros Hk. destruct (Nat.lt_ge_cases k (p + length t1)) as [L|L].
    + rewrite HF2 by lia. rewrite firstn_app. replace (k - p + 1 - length t1) with 0 by lia.
      cbn [firstn]. rewrite app_nil_r. rewrite app_nth1 by lia. reflexivity.
    + rewrite HF1 by lia. rewrite HG2 by lia.
      rewrite firstn_app. rewrite (firstn_all2 t1) by lia.
      replace (k - p + 1 - length t1) with (k - (p + length t1) + 1) by lia.
      rewrite app_nth2 by lia. replace (k - p - length t1) with (k - (p + length t1)) by lia.
      reflexivity.
Qed.

Lemma crash_raise {A} (x : exn) : crash_ok (fun _ => @raise state state A x).
Proof. intros ev k e SR p s t0 s0 a H. discriminate. Qed.

Lemma crash_get : crash_ok (fun _ => @get state state).
Proof.
  intros ev k e SR p s t0 s0 a H. unfold get in *. inversion H; subst. split; intros; [reflexivity|].
  cbn in *. lia.
Qed.

Section Closure.
  Variable mc : machine.
  Variable c : ctx.
  Notation ids := (fun s : state => s).

  Lemma crash_run_cbs sl err cbs : crash_ok (fun ev => run_cbs ids ev c sl err cbs).
  Proof.
    induction cbs as [|cb r IH]; cbn [run_cbs].
    - apply crash_ret.
    - apply (crash_bind (fun ev => call ids ev c sl err cb) (fun _ ev => run_cbs ids ev c sl err r)).
      + apply crash_call.
      + intros _. exact IH.
  Qed.

  Lemma crash_eval_conds conds : crash_ok (fun ev => eval_conds ids ev c conds).
  Proof.
    induction conds as [|[cb tg] r IH]; cbn [eval_conds].
    - apply crash_ret.
    - apply (crash_bind (fun ev => call ids ev c (if tg then SCond else SUnless) None cb)
                        (fun v ev => if Bool.eqb v tg then eval_conds ids ev c r else ret false)).
      + apply crash_call.
      + intros v. destruct (Bool.eqb v tg); [exact IH | apply crash_ret].
  Qed.

  Lemma crash_change_state t d : crash_ok (fun ev => change_state mc ev c t d).
  Proof.
    unfold change_state. destruct (get_state mc (t_src t)) as [sd|]; [|apply crash_raise].
    apply (crash_bind (fun ev => run_cbs ids ev c SExit None (s_exit sd))); [apply crash_run_cbs|intros _].
    destruct (get_state mc d) as [dd|]; [|apply crash_raise].
    apply (crash_bind (fun _ => put d)); [apply crash_put|intros _].
    apply (crash_bind (fun ev => run_cbs ids ev c SEnter None (s_enter dd))); [apply crash_run_cbs|intros _].
    destruct (s_final dd); [apply crash_run_cbs | apply crash_ret].
  Qed.

  Lemma crash_execute t : crash_ok (fun ev => execute mc ev c t).
  Proof.
    unfold execute.
    apply (crash_bind (fun ev => run_cbs ids ev c SPrepare None (t_prepare t))); [apply crash_run_cbs|intros _].
    apply (crash_bind (fun ev => eval_conds ids ev c (t_conds t))); [apply crash_eval_conds|intros ok].
    destruct ok; [|apply crash_ret].
    apply (crash_bind (fun ev => run_cbs ids ev c SBeforeSC None (m_before_sc mc))); [apply crash_run_cbs|intros _].
    apply (crash_bind (fun ev => run_cbs ids ev c SBefore None (t_before t))); [apply crash_run_cbs|intros _].
    apply (crash_bind (fun ev => match t_dst t with Some d => change_state mc ev c t d | None => ret tt end)).
    { destruct (t_dst t); [apply crash_change_state | apply crash_ret]. }
    intros _.
    apply (crash_bind (fun ev => run_cbs ids ev c SAfter None (t_after t))); [apply crash_run_cbs|intros _].
    apply (crash_bind (fun ev => run_cbs ids ev c SAfterSC None (m_after_sc mc))); [apply crash_run_cbs|intros _].
    apply crash_ret.
  Qed.

  Lemma crash_try_transitions ts : crash_ok (fun ev => try_transitions mc ev c ts).
  Proof.
    induction ts as [|t r IH]; cbn [try_transitions].
    - apply crash_ret.
    - apply (crash_bind (fun ev => execute mc ev c t)); [apply crash_execute|intros ok].
      destruct ok; [apply crash_ret | exact IH].
  Qed.

  Lemma crash_process ts cur : crash_ok (fun ev => process mc ev c ts cur).
  Proof.
    unfold process.
    apply (crash_bind (fun ev => run_cbs ids ev c SPrepareEvent None (m_prepare_event mc))); [apply crash_run_cbs|intros _].
    apply crash_try_transitions.
  Qed.
End Closure.

(* ---- the specification functions only look at r_ret / r_acts ------------------- *)
Section Strip.
  Variable mc : machine.
  Variable ev : env.
  Variable c : ctx.
  Lemma items_strip sl err st cbs p : items (strip ev) c sl err st cbs p = items ev c sl err st cbs p.
  Proof. revert p; induction cbs as [|cb r IH]; intros p; cbn [items]; [reflexivity|]. now rewrite IH. Qed.
  Lemma cond_items_strip st conds p : cond_items (strip ev) c st conds p = cond_items ev c st conds p.
  Proof.
    revert p; induction conds as [|[cb tg] r IH]; intros p; cbn [cond_items]; [reflexivity|].
    rewrite IH. reflexivity.
  Qed.
  Lemma scan_strip st cands p : scan (strip ev) c st cands p = scan ev c st cands p.
  Proof.
    revert p; induction cands as [|t r IH]; intros p; cbn [scan]; [reflexivity|].
    rewrite !items_strip, cond_items_strip.
    destruct (cond_items ev c st (t_conds t) _) as [ci ok]. destruct ok; [reflexivity|].
    rewrite IH. reflexivity.
  Qed.
  Lemma body_strip src t p : body mc (strip ev) c src t p = body mc ev c src t p.
  Proof. unfold body. rewrite !items_strip. destruct (t_dst t); rewrite ?items_strip; reflexivity. Qed.
  Lemma spec_body_strip ts cur p : spec_body mc (strip ev) c ts cur p = spec_body mc ev c ts cur p.
  Proof.
    unfold spec_body. rewrite !items_strip, scan_strip.
    destruct (scan ev c cur (candidates ts cur) _) as [sc ch]. destruct ch as [t|]; [|reflexivity].
    rewrite body_strip. reflexivity.
  Qed.
End Strip.

Lemma items_nth_state ev c sl err st cbs p i d :
  i < length cbs -> it_state (nth i (items ev c sl err st cbs p) d) = st.
Proof.
  revert p i; induction cbs as [|cb r IH]; intros p i L; cbn [length] in L; [lia|].
  cbn [items]. destruct i as [|i]; [reflexivity|]. cbn [nth]. apply IH. lia.
Qed.

Section Top.
  Variable mc : machine.
  Variable c : ctx.
  Notation ids := (fun s : state => s).

  Lemma single_raise_nrf ev k e : single_raise ev k e -> no_raise_from ev (S k).
  Proof. intros [_ H] cb q L. apply H. lia. Qed.

  (* C04 for an event whose current state is a source: a single raising callback at
     position k of the documented trace *)
  Theorem crash_valid ev k e ts p cur :
    single_raise ev k e ->
    registered mc cur = true -> wf_trans mc ts = true -> candidates ts cur <> [] ->
    let r := spec_body mc ev c ts cur p in
    let b := fst (fst r) in let st' := snd (fst r) in let res := snd r in
    let fin := items ev c SFinalize None st' (m_finalize mc) (p + length b) in
    (* (1) the failure happens before the finalize stage *)
    (p <= k < p + length b ->
       let s_at := it_state (nth (k - p) b dummy_item) in
       let h := items ev c SOnException (Some e) s_at (m_on_exception mc) (S k) in
       let f := items ev c SFinalize (Some e) s_at (m_finalize mc) (S k + length h) in
       trigger_event mc ev c ts p cur =
         (firstn (k - p + 1) b ++ h ++ f, s_at,
          match m_on_exception mc with [] => inl e | _ => inr false end)) /\
    (* (2) the failure happens in a finalize callback: swallowed *)
    (p + length b <= k < p + length b + length fin ->
       trigger_event mc ev c ts p cur = (b ++ firstn (k - (p + length b) + 1) fin, st', inr res)) /\
    (* (3) the raising position is not reached by this event at all *)
    (k < p \/ p + length b + length fin <= k ->
       trigger_event mc ev c ts p cur = (b ++ fin, st', inr res)).
  Proof.
    intros SR Rc W Hne. cbv zeta.
    pose proof (process_ok mc (strip ev) c ts p cur (no_raise_nrf _ p (strip_no_raise ev)) Rc W) as PO.
    cbv zeta in PO. rewrite spec_body_strip in PO.
    destruct (spec_body mc ev c ts cur p) as [[b st'] res] eqn:SB. cbn [fst snd] in *.
    destruct (crash_process mc c ts cur ev k e SR p cur b st' res PO) as [P1 P2].
    assert (FIN: crash_ok (fun ev => run_cbs ids ev c SFinalize None (m_finalize mc))) by apply crash_run_cbs.
    assert (FINOK: run_cbs ids (strip ev) c SFinalize None (m_finalize mc) (p + length b) st' =
                   (items ev c SFinalize None st' (m_finalize mc) (p + length b), st', inr tt)).
    { rewrite run_cbs_ok by (apply no_raise_nrf, strip_no_raise). now rewrite items_strip. }
    destruct (FIN ev k e SR (p + length b) st' _ st' tt FINOK) as [F1 F2].
    unfold trigger_event, bind, get. cbn [length app]. rewrite Nat.add_0_r.
    pose proof Rc as Rc'. unfold registered in Rc'. destruct (get_state mc cur) as [sd|] eqn:G; [|discriminate].
    unfold try_except_finally, checked_process.
    destruct (candidates ts cur) as [|t0 r0] eqn:EC; [congruence|]. clear Hne EC t0 r0.
    pose proof (single_raise_nrf ev k e SR) as NRk.
    split; [|split].
    - intros Hk. rewrite P2 by lia. rewrite firstn_length_le by lia.
      replace (p + (k - p + 1)) with (S k) by lia.
      destruct (m_on_exception mc) as [|h0 hs] eqn:EH.
      + unfold raise. cbn [items length app]. rewrite Nat.add_0_r.
        rewrite run_cbs_ok by assumption. reflexivity.
      + unfold bind, ret. rewrite run_cbs_ok by assumption. cbn [length app].
        rewrite app_nil_r. rewrite run_cbs_ok by (eapply nrf_mono; [eassumption|lia]).
        reflexivity.
    - intros Hk. rewrite P1 by lia. rewrite F2 by lia.
      rewrite items_nth_state by (rewrite (items_length ev c) in Hk; lia). reflexivity.
    - intros Hk. rewrite P1 by lia. rewrite F1 by (rewrite (items_length ev c) in *; lia). reflexivity.
  Qed.
End Top.

Section TopInvalid.
  Variable mc : machine.
  Variable c : ctx.
  Notation ids := (fun s : state => s).

  (* run_cbs under a single raising position, in closed form *)
  Lemma run_cbs_crash ev k e sl err cbs p s :
    single_raise ev k e ->
    let t0 := items ev c sl err s cbs p in
    ((k < p \/ p + length t0 <= k) -> run_cbs ids ev c sl err cbs p s = (t0, s, inr tt)) /\
    ((p <= k < p + length t0) -> run_cbs ids ev c sl err cbs p s = (firstn (k - p + 1) t0, s, inl e)).
  Proof.
    intros SR. cbv zeta.
    assert (OK: run_cbs ids (strip ev) c sl err cbs p s = (items ev c sl err s cbs p, s, inr tt)).
    { rewrite run_cbs_ok by (apply no_raise_nrf, strip_no_raise). now rewrite items_strip. }
    destruct (crash_run_cbs c sl err cbs ev k e SR p s _ s tt OK) as [H1 H2].
    split; [exact H1|]. intros Hk. rewrite H2 by exact Hk.
    rewrite items_nth_state by (rewrite (items_length ev c) in Hk; lia). reflexivity.
  Qed.

  (* C04 when the current state is not a source of the event: the MachineError is the
     failure; a callback raising while it is being handled. *)
  Theorem crash_invalid ev k e ts p cur :
    single_raise ev k e ->
    registered mc cur = true -> candidates ts cur = [] ->
    ignores mc (sdef_of mc cur) = false ->
    let h := items ev c SOnException (Some MachineError) cur (m_on_exception mc) p in
    let fin := items ev c SFinalize (Some MachineError) cur (m_finalize mc) (p + length h) in
    (* an on_exception handler raises: its exception propagates, finalize still runs *)
    (p <= k < p + length h ->
       trigger_event mc ev c ts p cur =
         (firstn (k - p + 1) h ++ items ev c SFinalize (Some MachineError) cur (m_finalize mc) (S k),
          cur, inl e)) /\
    (* a finalize callback raises: swallowed, the outcome stays what it was *)
    (p + length h <= k < p + length h + length fin ->
       trigger_event mc ev c ts p cur =
         (h ++ firstn (k - (p + length h) + 1) fin, cur,
          match m_on_exception mc with [] => inl MachineError | _ => inr false end)).
  Proof.
    intros SR Rc HE IG. cbv zeta.
    unfold trigger_event, bind, get. cbn [length app]. rewrite Nat.add_0_r.
    pose proof Rc as Rc'. unfold registered in Rc'. unfold sdef_of in IG.
    destruct (get_state mc cur) as [sd|] eqn:G; [|discriminate].
    unfold try_except_finally, checked_process. rewrite HE, IG. unfold raise.
    cbn [length app]. rewrite Nat.add_0_r.
    pose proof (single_raise_nrf ev k e SR) as NRk.
    destruct (m_on_exception mc) as [|h0 hs] eqn:EH.
    - cbn [items length app]. rewrite Nat.add_0_r. split; [intros; lia|].
      intros Hk. destruct (run_cbs_crash ev k e SFinalize (Some MachineError) (m_finalize mc) p cur SR) as [_ H2].
      rewrite H2 by lia. reflexivity.
    - unfold bind, ret.
      destruct (run_cbs_crash ev k e SOnException (Some MachineError) (h0 :: hs) p cur SR) as [H1 H2].
      split.
      + intros Hk. rewrite H2 by lia. rewrite firstn_length_le by lia.
        replace (p + (k - p + 1)) with (S k) by lia.
        rewrite run_cbs_ok by assumption. reflexivity.
      + intros Hk. rewrite H1 by lia. cbn [length app]. rewrite ?app_nil_r, ?Nat.add_0_r.
        destruct (run_cbs_crash ev k e SFinalize (Some MachineError) (m_finalize mc)
                    (p + length (items ev c SOnException (Some MachineError) cur (h0 :: hs) p)) cur SR) as [_ F2].
        rewrite F2 by lia. reflexivity.
  Qed.
End TopInvalid.

Section TopIgnored.
  Variable mc : machine.
  Variable c : ctx.
  (* invalid trigger that is ignored: only finalize callbacks run; one raising: swallowed *)
  Theorem crash_invalid_ignored ev k e ts p cur :
    single_raise ev k e ->
    registered mc cur = true -> candidates ts cur = [] ->
    ignores mc (sdef_of mc cur) = true ->
    let fin := items ev c SFinalize None cur (m_finalize mc) p in
    (p <= k < p + length fin ->
       trigger_event mc ev c ts p cur = (firstn (k - p + 1) fin, cur, inr false)).
  Proof.
    intros SR Rc HE IG. cbv zeta. intros Hk.
    unfold trigger_event, bind, get. cbn [length app]. rewrite Nat.add_0_r.
    pose proof Rc as Rc'. unfold registered in Rc'. unfold sdef_of in IG.
    destruct (get_state mc cur) as [sd|] eqn:G; [|discriminate].
    unfold try_except_finally, checked_process. rewrite HE, IG. unfold ret.
    cbn [length app]. rewrite Nat.add_0_r.
    destruct (run_cbs_crash c ev k e SFinalize None (m_finalize mc) p cur SR) as [_ H2].
    rewrite H2 by lia. reflexivity.
  Qed.
End TopIgnored.
