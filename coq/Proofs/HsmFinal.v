(* HsmFinal.v — characterisation of _final_check (C18) and the flat on_final rule. *)
From Coq Require Import List Arith Bool Lia.
From M Require Import Base Flat Hsm.
Import ListNotations.

(* Characterisation of NestedTransition._final_check (after the fix of the shadowed loop
   variable): which on_final callback lists a transition runs, and in which order. *)
Section Final.
  Variable hm : hmachine.

  Definition onf (p : path) : list cbid :=
    match defs_at hm p with Some d => sd_onfinal d | None => [] end.
  Definition flag (p : path) : bool :=
    match defs_at hm p with Some d => sd_final d | None => false end.
  Definition inb (entered : list path) (p : path) : bool :=
    existsb (fun q => if list_eq_dec Nat.eq_dec q p then true else false) entered.

  (* a node counts as final: a node without active children by its flag, a node with
     active children iff all of them count as final *)
  Fixpoint counts_final (abs : path) (t : tree) : bool :=
    match t with
    | Node n ch =>
        match ch with
        | [] => flag (abs ++ [n])
        | _ => forallb (counts_final (abs ++ [n])) ch
        end
    end.

  (* the transition entered the node or one of its active descendants *)
  Fixpoint touched (entered : list path) (abs : path) (t : tree) : bool :=
    match t with
    | Node n ch => orb (inb entered (abs ++ [n])) (existsb (touched entered (abs ++ [n])) ch)
    end.

  (* closed form: post-order (children before parents) over the new configuration, the
     on_final list of every node that counts as final and was touched by the transition *)
  Fixpoint spec_onfinal (entered : list path) (abs : path) (t : tree) : list (list cbid) :=
    match t with
    | Node n ch =>
        flat_map (spec_onfinal entered (abs ++ [n])) ch ++
        (if andb (counts_final abs t) (touched entered abs t) then [onf (abs ++ [n])] else [])
    end.

  (* induction principle for trees *)
  Lemma tree_ind' (P : tree -> Prop) :
    (forall n ch, Forall P ch -> P (Node n ch)) -> forall t, P t.
  Proof.
    intros H. fix IH 1. intros [n ch]. apply H.
    induction ch as [|c r IHr]; constructor; [apply IH|exact IHr].
  Qed.

  Lemma forallb_map_ext {A} (f g : A -> bool) l : Forall (fun x => f x = g x) l -> forallb f l = forallb g l.
  Proof. induction 1; cbn; congruence. Qed.

  Lemma final_check_char entered : forall t abs,
    final_check_t hm abs t entered = (spec_onfinal entered abs t, counts_final abs t) /\
    (spec_onfinal entered abs t <> [] -> touched entered abs t = true).
  Proof.
    induction t as [n ch IH] using tree_ind'. intros abs.
    cbn [final_check_t spec_onfinal counts_final touched].
    fold (inb entered (abs ++ [n])). set (me := abs ++ [n]).
    assert (RS: map (fun t' => final_check_t hm me t' entered) ch =
                map (fun c => (spec_onfinal entered me c, counts_final me c)) ch).
    { apply map_ext_in. intros c Hc. rewrite Forall_forall in IH. apply (IH c Hc me). }
    assert (TC: forall c, In c ch -> spec_onfinal entered me c <> [] -> touched entered me c = true).
    { intros c Hc. rewrite Forall_forall in IH. apply (IH c Hc me). }
    destruct ch as [|c0 r0] eqn:ECH.
    - (* no active children *)
      cbn. unfold flag, onf, defs_at. fold me.
      destruct (find_def (hm_states hm) me) as [d|]; cbn.
      + destruct (sd_final d); cbn; rewrite ?orb_false_r.
        * destruct (inb entered me); cbn; split; auto; intros; congruence.
        * split; [reflexivity|intros; congruence].
      + split; [reflexivity|intros; congruence].
    - rewrite <- ECH in *. assert (NE: ch <> []) by (rewrite ECH; discriminate). clear ECH c0 r0.
      rewrite RS. rewrite !flat_map_concat_map, map_map. cbn [fst snd].
      rewrite <- !flat_map_concat_map. fold (onf me).
      replace (forallb snd (map (fun c => (spec_onfinal entered me c, counts_final me c)) ch))
        with (forallb (counts_final me) ch)
        by (clear; induction ch as [|c r IHr]; cbn; [reflexivity|now rewrite IHr]).
      set (cbs := flat_map (spec_onfinal entered me) ch).
      (* cbs non-empty iff some child was touched, when all children count as final *)
      assert (T1: cbs <> [] -> existsb (touched entered me) ch = true).
      { intros H. unfold cbs in H. clear -H TC. induction ch as [|c r IHr]; cbn in *; [congruence|].
        destruct (spec_onfinal entered me c) eqn:E.
        - rewrite IHr; [apply orb_true_r| |exact H]. intros c' Hc'. apply TC. now right.
        - rewrite (TC c (or_introl eq_refl)); [reflexivity|congruence]. }
      assert (T2: forallb (counts_final me) ch = true -> existsb (touched entered me) ch = true -> cbs <> []).
      { intros A E. unfold cbs. clear -A E IH. induction ch as [|c r IHr]; cbn in *; [discriminate|].
        apply andb_true_iff in A as [A1 A2]. inversion IH as [|? ? IHc IHr']; subst.
        apply orb_true_iff in E as [E|E].
        - destruct c as [cn cch]. specialize (IHc me). destruct IHc as [IHc _].
          cbn [spec_onfinal] in *. rewrite A1, E. cbn. intros H. apply app_eq_nil in H as [H _].
          apply app_eq_nil in H as [_ H]. discriminate.
        - intros H. apply app_eq_nil in H as [_ H]. revert H. apply IHr; assumption. }
      destruct (forallb (counts_final me) ch) eqn:AF.
      + cbn [andb]. split.
        * f_equal. destruct cbs as [|x xs] eqn:EC.
          -- cbn [negb orb app]. destruct (inb entered me) eqn:J; cbn [orb].
             ++ reflexivity.
             ++ destruct (existsb (touched entered me) ch) eqn:E; [exfalso; apply (T2 eq_refl eq_refl); reflexivity|reflexivity].
          -- cbn [negb orb]. rewrite (T1 ltac:(congruence)). rewrite orb_true_r. reflexivity.
        * intros H. destruct (inb entered me); [reflexivity|]. cbn [orb].
          destruct (existsb (touched entered me) ch) eqn:E; [reflexivity|]. cbn in H.
          rewrite app_nil_r in H. specialize (T1 H). discriminate.
      + cbn [andb]. rewrite app_nil_r. split; [reflexivity|].
        intros H. rewrite (T1 H). apply orb_true_r.
  Qed.

  (* the machine itself: root of the check *)
  Definition spec_onfinal_root (entered : list path) (f : forest) : list (list cbid) :=
    flat_map (spec_onfinal entered []) f ++
    (if andb (forallb (counts_final []) f) (existsb (touched entered []) f) then [hm_on_final hm] else []).

  Lemma final_check_root_char entered f :
    final_check_root hm f entered = spec_onfinal_root entered f.
  Proof.
    unfold final_check_root, spec_onfinal_root.
    assert (RS: map (fun t => final_check_t hm [] t entered) f =
                map (fun c => (spec_onfinal entered [] c, counts_final [] c)) f).
    { apply map_ext. intros c. apply final_check_char. }
    rewrite RS. rewrite !flat_map_concat_map, map_map. cbn [fst snd]. rewrite <- !flat_map_concat_map.
    replace (forallb snd (map (fun c => (spec_onfinal entered [] c, counts_final [] c)) f))
      with (forallb (counts_final []) f)
      by (clear; induction f as [|c r IHr]; cbn; [reflexivity|now rewrite IHr]).
    set (cbs := flat_map (spec_onfinal entered []) f).
    assert (T1: cbs <> [] -> existsb (touched entered []) f = true).
    { unfold cbs. clear. induction f as [|c r IHr]; cbn; [congruence|]. intros H.
      destruct (spec_onfinal entered [] c) eqn:E.
      - rewrite IHr; [apply orb_true_r|exact H].
      - destruct (final_check_char entered c []) as [_ TC]. rewrite TC; [reflexivity|congruence]. }
    assert (T2: forallb (counts_final []) f = true -> existsb (touched entered []) f = true -> cbs <> []).
    { unfold cbs. clear. induction f as [|c r IHr]; cbn; [discriminate|]. intros A E.
      apply andb_true_iff in A as [A1 A2]. apply orb_true_iff in E as [E|E].
      - destruct c as [cn cch]. cbn [spec_onfinal] in *. rewrite A1, E. cbn. intros H.
        apply app_eq_nil in H as [H _]. apply app_eq_nil in H as [_ H]. discriminate.
      - intros H. apply app_eq_nil in H as [_ H]. revert H. apply IHr; assumption. }
    destruct (forallb (counts_final []) f) eqn:AF; cbn [andb].
    - destruct cbs as [|x xs] eqn:EC.
      + destruct (existsb (touched entered []) f) eqn:E; [exfalso; apply (T2 eq_refl eq_refl); reflexivity|reflexivity].
      + rewrite (T1 ltac:(congruence)). reflexivity.
    - rewrite app_nil_r. reflexivity.
  Qed.

  (* the property's own wording of "counts as final" (own flag, or all active children) agrees
     with the code's notion as long as no state flagged final has active children *)
  Fixpoint pcounts (abs : path) (t : tree) : bool :=
    match t with
    | Node n ch => orb (flag (abs ++ [n]))
                       (match ch with [] => false | _ => forallb (pcounts (abs ++ [n])) ch end)
    end.
  Fixpoint no_final_compound (abs : path) (t : tree) : bool :=
    match t with
    | Node n ch => andb (match ch with [] => true | _ => negb (flag (abs ++ [n])) end)
                        (forallb (no_final_compound (abs ++ [n])) ch)
    end.
  Lemma pcounts_counts : forall t abs, no_final_compound abs t = true -> pcounts abs t = counts_final abs t.
  Proof.
    induction t as [n ch IH] using tree_ind'. intros abs G. cbn [pcounts counts_final no_final_compound] in *.
    apply andb_true_iff in G as [G1 G2]. destruct ch as [|c0 r0] eqn:E.
    - now rewrite orb_false_r.
    - rewrite <- E in *. apply negb_true_iff in G1. rewrite G1. cbn [orb].
      assert (NE: ch <> []) by (rewrite E; discriminate). clear E.
      assert (forallb (pcounts (abs ++ [n])) ch = forallb (counts_final (abs ++ [n])) ch).
      { apply forallb_map_ext. rewrite Forall_forall in *. intros c Hc. apply IH; [exact Hc|].
        rewrite forallb_forall in G2. now apply G2. }
      destruct ch; congruence.
  Qed.
End Final.

(* ---------------- flat machines: machine-level on_final ---------------- *)
From M Require Import FlatSpec.
From P Require Import FlatP.
Section FlatFinal.
  Variable mc : machine.
  Variable ev : env.
  Variable c : ctx.

  Definition is_onfinal (it : item) : bool := slot_eqb (it_slot it) SOnFinal.
  Definition onfinal_cbs (tr : list item) : list cbid := map it_cb (filter is_onfinal tr).

  Lemma items_onfinal sl err st cbs p :
    onfinal_cbs (items ev c sl err st cbs p) = if slot_eqb sl SOnFinal then cbs else [].
  Proof.
    unfold onfinal_cbs. revert p; induction cbs as [|cb r IH]; intros p; cbn [items filter map].
    - now destruct (slot_eqb sl SOnFinal).
    - unfold is_onfinal at 1. cbn [it_slot mk]. destruct (slot_eqb sl SOnFinal) eqn:E; cbn [map]; rewrite IH; reflexivity.
  Qed.
  Lemma onfinal_app a b : onfinal_cbs (a ++ b) = onfinal_cbs a ++ onfinal_cbs b.
  Proof. unfold onfinal_cbs. now rewrite filter_app, map_app. Qed.
  Lemma cond_items_onfinal st conds p : onfinal_cbs (fst (cond_items ev c st conds p)) = [].
  Proof.
    revert p; induction conds as [|[cb tg] r IH]; intros p; cbn [cond_items]; [reflexivity|].
    destruct (Bool.eqb _ _).
    - specialize (IH (S p)). destruct (cond_items ev c st r (S p)) as [l b]. cbn [fst] in *.
      unfold onfinal_cbs in *. cbn [filter]. unfold is_onfinal at 1. cbn [it_slot mk].
      destruct tg; cbn; exact IH.
    - cbn [fst]. unfold onfinal_cbs. cbn [filter]. unfold is_onfinal. cbn [it_slot mk]. destruct tg; reflexivity.
  Qed.
  Lemma scan_onfinal st cands p : onfinal_cbs (fst (scan ev c st cands p)) = [].
  Proof.
    revert p; induction cands as [|t r IH]; intros p; cbn [scan]; [reflexivity|].
    pose proof (cond_items_onfinal st (t_conds t) (p + length (items ev c SPrepare None st (t_prepare t) p))) as H.
    destruct (cond_items ev c st (t_conds t) _) as [ci ok]. cbn [fst] in H. destruct ok; cbn [fst].
    - rewrite onfinal_app, items_onfinal, H. reflexivity.
    - specialize (IH (p + length (items ev c SPrepare None st (t_prepare t) p) + length ci)).
      destruct (scan ev c st r _) as [rest ch]. cbn [fst] in *.
      rewrite !onfinal_app, items_onfinal, H, IH. reflexivity.
  Qed.

  (* the machine's on_final callbacks run exactly when the executed transition has a
     destination flagged final — once each, in registration order *)
  Theorem flat_onfinal ts cur p :
    onfinal_cbs (fst (fst (spec_step mc ev c ts cur p))) =
      match snd (scan ev c cur (candidates ts cur) (p + length (m_prepare_event mc))) with
      | Some t => match t_dst t with
                  | Some d => if s_final (sdef_of mc d) then m_on_final mc else []
                  | None => []
                  end
      | None => []
      end.
  Proof.
    unfold spec_step, spec_body. rewrite (items_length ev c).
    pose proof (scan_onfinal cur (candidates ts cur) (p + length (m_prepare_event mc))) as SO.
    destruct (scan ev c cur (candidates ts cur) (p + length (m_prepare_event mc))) as [sc ch]. cbn [fst snd] in *.
    destruct ch as [t|].
    - unfold body. destruct (t_dst t) as [d|].
      + cbn [fst snd]. rewrite !onfinal_app, !items_onfinal, SO. cbn.
        destruct (s_final (sdef_of mc d)); rewrite ?onfinal_app, ?items_onfinal; cbn; rewrite ?app_nil_r; reflexivity.
      + cbn [fst snd]. rewrite !onfinal_app, !items_onfinal, SO. reflexivity.
    - cbn [fst snd]. rewrite !onfinal_app, !items_onfinal, SO. reflexivity.
  Qed.
End FlatFinal.
