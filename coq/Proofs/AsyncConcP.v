(* AsyncConcP.v — lemmas about the interleaving model AsyncConc.v. *)
From Coq Require Import List Arith Bool Lia.
From M Require Import AsyncConc.
Import ListNotations.

(* ------------------------------------------------------------------ cancel_targets *)
Lemma cancel_targets_spec : forall me prot m reg u,
  In u (cancel_targets me prot m reg) <-> (In (m, u) reg /\ u <> me /\ prot u = false).
Proof.
  intros me prot m reg u. unfold cancel_targets. rewrite in_map_iff. split.
  - intros [[m' u'] [Hu Hin]]. simpl in Hu. subst u'. apply filter_In in Hin. destruct Hin as [Hin Hc].
    simpl in Hc. apply andb_true_iff in Hc. destruct Hc as [Hc Hp]. apply andb_true_iff in Hc.
    destruct Hc as [Hm Hne]. apply Nat.eqb_eq in Hm. subst m'.
    apply negb_true_iff in Hne. apply Nat.eqb_neq in Hne. apply negb_true_iff in Hp. auto.
  - intros [Hin [Hne Hp]]. exists (m, u). split; [reflexivity|]. apply filter_In. split; [assumption|].
    simpl. rewrite Nat.eqb_refl. apply Nat.eqb_neq in Hne. rewrite Hne, Hp. reflexivity.
Qed.

(* ------------------------------------------------------------------ frame histories *)
Lemma hrun_app : forall l s it,
  hrun s (l ++ [it]) = match hrun s l with Some s' => hstep s' it | None => None end.
Proof.
  induction l as [|x l IH]; intros s it; simpl.
  - destruct (hstep s it); reflexivity.
  - destruct (hstep s x); [apply IH | reflexivity].
Qed.

Definition phase_of (f : frame) : hst := if f_fin f then HF else if f_creq f then HC else HB.
Definition cbfin (c : cbst) : bool :=
  match c with Idle => true | Susp _ slot _ => Nat.eqb slot FIN | InCall _ slot _ => Nat.eqb slot FIN end.
Definition incall (c : cbst) : bool := match c with InCall _ _ _ => true | _ => false end.

Lemma finish_props : forall t c h,
  t_stack (fst (finish t c h)) = [] /\ t_id (fst (finish t c h)) = t_id t /\
  t_model (fst (finish t c h)) = t_model t /\ t_res (fst (finish t c h)) <> None /\
  h_mstate (snd (finish t c h)) = h_mstate h /\ h_done (snd (finish t c h)) = h_done h /\
  h_log (snd (finish t c h)) = h_log h /\ h_next (snd (finish t c h)) = h_next h /\
  h_queues (snd (finish t c h)) = h_queues h.
Proof. intros. unfold finish. destruct (own_ctx t); simpl; repeat split; discriminate. Qed.

Section Inv.
  Variable defs : list evdef.
  Variable mode : qmode.
  Variable n : nat.                      (* number of registered states *)
  Hypothesis Hwf : forallb (wf_def n) defs = true.

  Lemma edef_wf : forall e, wf_def n (edef defs e) = true.
  Proof.
    intros e. unfold edef. destruct (Nat.lt_ge_cases e (length defs)) as [H|H].
    - rewrite forallb_forall in Hwf. apply Hwf. apply nth_In. exact H.
    - rewrite nth_overflow by exact H. reflexivity.
  Qed.

  Lemma fin_dest : forall c, forallb fin_instr c = true -> forallb (dest_ok n) c = true.
  Proof.
    induction c as [|i c IH]; simpl; intros H; [reflexivity|].
    apply andb_true_iff in H. destruct H as [H1 H2]. rewrite (IH H2).
    destruct i; simpl in *; try discriminate; reflexivity.
  Qed.

  Definition frame_core (f : frame) : Prop :=
    hrun HB (f_hist f) = Some (phase_of f) /\
    forallb fin_instr (f_fincode f) = true /\
    forallb (dest_ok n) (f_code f) = true /\
    (f_fin f = true -> forallb fin_instr (f_code f) = true).

  Definition frame_ok (f : frame) : Prop :=
    frame_core f /\
    (f_fin f = true -> cbfin (f_cb f) = true) /\
    (f_fin f = false -> f_creq f = true -> incall (f_cb f) = true).

  Definition done_ok (h : shared) : Prop := Forall (fun d => hist_ok (snd (fst d))) (h_done h).
  Definition states_ok (h : shared) : Prop := Forall (fun x => x < n) (h_mstate h).
  Definition sh_ok (h : shared) : Prop := done_ok h /\ states_ok h.

  Definition stack_ok (s : list kont) : Prop :=
    Forall (fun k => frame_ok (kframe k)) s /\ Forall (fun k => incall (f_cb (kframe k)) = true) (tl s).

  (* --- shared-state helpers keep done/states --- *)
  Lemma emit_sh : forall h it, sh_ok h -> sh_ok (emit h it).
  Proof. intros h it [H1 H2]. split; assumption. Qed.

  Lemma raise_in_sh : forall f x h, sh_ok h -> sh_ok (snd (raise_in f x h)).
  Proof. intros f x h H. unfold raise_in. destruct (f_fin f); simpl; [assumption | apply emit_sh; assumption]. Qed.

  Lemma cb_return_sh : forall f h, sh_ok h -> sh_ok (snd (cb_return f h)).
  Proof. intros f h H. unfold cb_return. destruct (f_creq f); [apply raise_in_sh; assumption | assumption]. Qed.

  Lemma new_frame_sh : forall k e h, sh_ok h -> sh_ok (snd (new_frame defs k e h)).
  Proof.
    intros k e h H. unfold new_frame.
    destruct (existsb _ _); [apply emit_sh; assumption | apply raise_in_sh; apply emit_sh; assumption].
  Qed.

  (* --- raise_in --- *)
  Lemma raise_in_ok : forall f x h p,
    hrun HB (f_hist f) = Some p -> (f_fin f = true -> p = HF) ->
    forallb fin_instr (f_fincode f) = true ->
    frame_ok (fst (raise_in f x h)).
  Proof.
    intros f x h p Hh Hp Hfc. unfold raise_in. destruct (f_fin f) eqn:Hfin; simpl.
    - rewrite (Hp eq_refl) in Hh. unfold frame_ok, frame_core, phase_of; simpl. rewrite Hh. repeat split; auto.
    - unfold frame_ok, frame_core, phase_of; simpl. rewrite hrun_app, Hh.
      repeat split; auto using fin_dest; try discriminate.
      destruct p; reflexivity.
  Qed.

  Lemma core_hist : forall f, frame_core f ->
    hrun HB (f_hist f) = Some (phase_of f) /\ (f_fin f = true -> phase_of f = HF).
  Proof. intros f [H _]. split; [exact H|]. intros Hf. unfold phase_of. rewrite Hf. reflexivity. Qed.

  Lemma raise_in_core_ok : forall f x h, frame_core f -> frame_ok (fst (raise_in f x h)).
  Proof.
    intros f x h Hc. destruct (core_hist f Hc) as [H1 H2]. destruct Hc as [_ [Hfc _]].
    eapply raise_in_ok; eauto.
  Qed.

  Lemma set_code_core : forall f c cb, frame_core f ->
    forallb (dest_ok n) c = true -> (f_fin f = true -> forallb fin_instr c = true) ->
    frame_core (set_code f c cb).
  Proof. intros f c cb [H1 [H2 [H3 H4]]] Hd Hf. unfold frame_core; simpl. auto. Qed.

  Lemma set_cb_core : forall f cb, frame_core f -> frame_core (set_code f (f_code f) cb).
  Proof. intros f cb H. apply set_code_core; [exact H | apply H | apply H]. Qed.

  Lemma femit_core : forall f it, frame_core f -> hstep (phase_of f) it = Some (phase_of f) ->
    frame_core (femit f it).
  Proof.
    intros f it [H1 [H2 [H3 H4]]] Hs. unfold frame_core; simpl.
    rewrite hrun_app, H1. unfold phase_of in *; simpl. auto.
  Qed.

  Lemma cb_return_ok : forall f h, frame_core f -> frame_ok (fst (cb_return f h)).
  Proof.
    intros f h Hc. unfold cb_return. destruct (f_creq f) eqn:Hcr.
    - apply raise_in_core_ok. apply set_cb_core. exact Hc.
    - simpl. split; [apply set_cb_core; exact Hc|]. simpl. split; [reflexivity|]. intros _ H. congruence.
  Qed.

  Lemma new_frame_ok : forall k e h, frame_ok (fst (new_frame defs k e h)).
  Proof.
    intros k e h. unfold new_frame. pose proof (edef_wf e) as Hw. unfold wf_def in Hw.
    apply andb_true_iff in Hw. destruct Hw as [Hw1 Hw2].
    destruct (existsb _ _).
    - unfold frame_ok, frame_core, phase_of; simpl. repeat split; auto; discriminate.
    - apply raise_in_ok with (p := HB); simpl; auto. discriminate.
  Qed.

  (* a frame in which a cancel request is pending is awaiting a nested trigger: it is not Idle/Susp *)
  Lemma ok_not_incall_phase : forall f, frame_ok f -> incall (f_cb f) = false ->
    phase_of f = HB \/ phase_of f = HF.
  Proof.
    intros f [_ [_ H]] Hi. unfold phase_of. destruct (f_fin f) eqn:Hf; [right; reflexivity|].
    destruct (f_creq f) eqn:Hc; [|left; reflexivity]. rewrite (H eq_refl eq_refl) in Hi. discriminate.
  Qed.

  (* --- more shared-state helpers --- *)
  Lemma set_queues_sh : forall h q, sh_ok h -> sh_ok (set_queues h q).
  Proof. intros h q [H1 H2]. split; assumption. Qed.
  Lemma bump_sh : forall h, sh_ok h -> sh_ok (bump h).
  Proof. intros h [H1 H2]. split; assumption. Qed.
  Lemma add_cancels_sh : forall h l, sh_ok h -> sh_ok (add_cancels h l).
  Proof. intros h l [H1 H2]. split; assumption. Qed.

  Lemma set_nth_lt : forall l m d, Forall (fun x => x < n) l -> d < n -> Forall (fun x => x < n) (set_nth l m d).
  Proof.
    induction l as [|x l IH]; intros m d Hl Hd; simpl; [destruct m; constructor|].
    inversion Hl; subst. destruct m; constructor; auto.
  Qed.

  Lemma set_mstate_sh : forall h m d, sh_ok h -> d < n -> sh_ok (set_mstate h m d).
  Proof. intros h m d [H1 H2] Hd. split; [exact H1|]. apply set_nth_lt; assumption. Qed.

  Lemma add_done_sh : forall h f r, sh_ok h -> hist_ok (f_hist f) -> sh_ok (add_done h f r).
  Proof.
    intros h f r [H1 H2] Hh. split; [|exact H2]. unfold done_ok, add_done; simpl.
    apply Forall_app. split; [exact H1|]. constructor; [exact Hh | constructor].
  Qed.

  Lemma remove_model_sh : forall m h, sh_ok h -> sh_ok (snd (remove_model defs mode m h)).
  Proof.
    intros m h H. unfold remove_model. destruct mode.
    - destruct (negb _); [exact H|]. destruct H as [H1 H2]. simpl. split; assumption.
    - destruct (negb _); [exact H|]. simpl.
      destruct (qlookup _ 0) as [[|hd tl]|]; simpl; destruct H as [H1 H2]; split; assumption.
    - destruct (qlookup _ m); [|exact H]. destruct (existsb _ _); simpl; destruct H as [H1 H2]; split; assumption.
  Qed.

  Definition called_sh (c : called) : shared :=
    match c with CalledRet _ h => h | CalledExn _ h => h | CalledPush _ h => h end.

  Lemma call_trigger_sh : forall e h, sh_ok h -> sh_ok (called_sh (call_trigger defs mode e h)).
  Proof.
    intros e h H. unfold call_trigger.
    destruct mode.
    - destruct (new_frame defs (h_next h) e (bump h)) as [f h1] eqn:E. simpl.
      change h1 with (snd (f, h1)). rewrite <- E. apply new_frame_sh. apply bump_sh. exact H.
    - destruct (qlookup _ _) as [q|]; [|exact H]. destruct q as [|x q].
      + destruct (new_frame _ _ _ _) as [f h1] eqn:E. simpl.
        change h1 with (snd (f, h1)). rewrite <- E. apply new_frame_sh. apply set_queues_sh. apply bump_sh. exact H.
      + simpl. apply set_queues_sh. apply bump_sh. exact H.
    - destruct (qlookup _ _) as [q|]; [|exact H]. destruct q as [|x q].
      + destruct (new_frame _ _ _ _) as [f h1] eqn:E. simpl.
        change h1 with (snd (f, h1)). rewrite <- E. apply new_frame_sh. apply set_queues_sh. apply bump_sh. exact H.
      + simpl. apply set_queues_sh. apply bump_sh. exact H.
  Qed.

  Lemma call_trigger_push_ok : forall e h k h1,
    call_trigger defs mode e h = CalledPush k h1 -> frame_ok (kframe k).
  Proof.
    intros e h k h1. unfold call_trigger. destruct mode.
    - destruct (new_frame defs (h_next h) e (bump h)) as [f h2] eqn:E. intros H. inversion H; subst. simpl.
      change f with (fst (f, h1)). rewrite <- E. apply new_frame_ok.
    - destruct (qlookup _ _) as [q|]; [|discriminate]. destruct q as [|x q]; [|discriminate].
      destruct (new_frame _ _ _ _) as [f h2] eqn:E. intros H. inversion H; subst. simpl.
      change f with (fst (f, h1)). rewrite <- E. apply new_frame_ok.
    - destruct (qlookup _ _) as [q|]; [|discriminate]. destruct q as [|x q]; [|discriminate].
      destruct (new_frame _ _ _ _) as [f h2] eqn:E. intros H. inversion H; subst. simpl.
      change f with (fst (f, h1)). rewrite <- E. apply new_frame_ok.
  Qed.

  Lemma after_frame_ok : forall k c rest h stk c' h',
    after_frame defs k c rest h = (stk, c', h') ->
    Forall (fun k => frame_ok (kframe k)) rest ->
    Forall (fun k => incall (f_cb (kframe k)) = true) rest ->
    sh_ok h ->
    stack_ok stk /\ sh_ok h'.
  Proof.
    intros k c rest h stk c' h' E Hr Hi Hs.
    assert (Hrest : stack_ok rest).
    { split; [exact Hr|]. destruct rest; [constructor|]. inversion Hi; assumption. }
    unfold after_frame in E. destruct k as [f|q f].
    - inversion E; subst. auto.
    - destruct c as [|r|x].
      + destruct (qlookup _ q) as [[|x tl]|]; try (inversion E; subst; auto; fail).
        destruct tl as [|nx tl'].
        * inversion E; subst. split; [exact Hrest | apply set_queues_sh; exact Hs].
        * destruct (new_frame _ _ _ _) as [f' h2] eqn:E2. inversion E; subst. split.
          -- split; simpl; [|exact Hi]. constructor; [|exact Hr]. simpl.
             change f' with (fst (f', h')). rewrite <- E2. apply new_frame_ok.
          -- change h' with (snd (f', h')). rewrite <- E2. apply new_frame_sh. apply set_queues_sh. exact Hs.
      + destruct (qlookup _ q) as [[|x tl]|]; try (inversion E; subst; auto; fail).
        destruct tl as [|nx tl'].
        * inversion E; subst. split; [exact Hrest | apply set_queues_sh; exact Hs].
        * destruct (new_frame _ _ _ _) as [f' h2] eqn:E2. inversion E; subst. split.
          -- split; simpl; [|exact Hi]. constructor; [|exact Hr]. simpl.
             change f' with (fst (f', h')). rewrite <- E2. apply new_frame_ok.
          -- change h' with (snd (f', h')). rewrite <- E2. apply new_frame_sh. apply set_queues_sh. exact Hs.
      + destruct (qlookup _ q); inversion E; subst; split; auto.
  Qed.

  Lemma kframe_kset : forall k f, kframe (kset k f) = f.
  Proof. intros [g|q g] f; reflexivity. Qed.

  Lemma stack_top : forall k f rest,
    frame_ok f -> Forall (fun k => frame_ok (kframe k)) rest ->
    Forall (fun k => incall (f_cb (kframe k)) = true) rest -> stack_ok (kset k f :: rest).
  Proof. intros k f rest H1 H2 H3. split; simpl; [constructor; [rewrite kframe_kset; exact H1 | exact H2] | exact H3]. Qed.

  Lemma fin_code_slot : forall f j slot a c, frame_ok f -> f_fin f = true -> f_code f = ICb j slot a :: c ->
    Nat.eqb slot FIN = true.
  Proof.
    intros f j slot a c [[_ [_ [_ H]]] _] Hf Hc. specialize (H Hf). rewrite Hc in H. simpl in H.
    apply andb_true_iff in H. apply H.
  Qed.

  Lemma ok_tail_code : forall f i c, frame_ok f -> f_code f = i :: c ->
    forallb (dest_ok n) c = true /\ (f_fin f = true -> forallb fin_instr c = true).
  Proof.
    intros f i c [[_ [_ [H3 H4]]] _] Hc. rewrite Hc in H3, H4. simpl in H3. apply andb_true_iff in H3.
    split; [apply H3|]. intros Hf. specialize (H4 Hf). simpl in H4. apply andb_true_iff in H4. apply H4.
  Qed.

  Lemma fin_code_head : forall f i c, frame_ok f -> f_code f = i :: c -> fin_instr i = false -> f_fin f = false.
  Proof.
    intros f i c [[_ [_ [_ H]]] _] Hc Hi. destruct (f_fin f); [|reflexivity].
    specialize (H eq_refl). rewrite Hc in H. simpl in H. rewrite Hi in H. discriminate.
  Qed.

  Lemma idle_phase : forall f, frame_ok f -> f_cb f = Idle -> f_creq f = true -> f_fin f = true.
  Proof.
    intros f [_ [_ H]] Hc Hr. destruct (f_fin f) eqn:Hf; [reflexivity|].
    specialize (H eq_refl Hr). rewrite Hc in H. discriminate.
  Qed.

  (* emitting an item that the frame's phase allows *)
  Lemma femit_ok_phase : forall f it, frame_core f ->
    (phase_of f = HB -> hstep HB it = Some HB) ->
    (phase_of f = HC -> hstep HC it = Some HC) ->
    (phase_of f = HF -> fin_item it = true) ->
    frame_core (femit f it).
  Proof.
    intros f it Hc HB' HC' HF'. apply femit_core; [exact Hc|].
    destruct (phase_of f) eqn:E; auto. simpl. rewrite (HF' eq_refl). reflexivity.
  Qed.

  Lemma micro_ok : forall prot t c h t' c' h' st,
    micro defs prot t c h = (t', c', h', st) ->
    stack_ok (t_stack t) -> sh_ok h -> stack_ok (t_stack t') /\ sh_ok h'.
  Proof.
    intros prot t c h t' c' h' st E [Hs Hi] Hh. unfold micro in E.
    destruct (t_stack t) as [|k rest] eqn:Hstk.
    { destruct c; try (inversion E; subst; rewrite Hstk; split; [split; assumption | assumption]);
        (match type of E with context [finish ?tt ?cc ?hh] =>
           destruct (finish_props tt cc hh) as [F1 [_ [_ [_ [F2 [F3 _]]]]]];
           destruct (finish tt cc hh) as [t2 h2]; simpl in *; inversion E; subst end;
         rewrite F1; split; [split; constructor | destruct Hh as [Hd Hst]; split;
           [unfold done_ok; rewrite F3; exact Hd | unfold states_ok; rewrite F2; exact Hst]]). }
    simpl in Hi. inversion Hs as [|? ? Hf Hr]; subst.
    set (f := kframe k) in *.
    destruct c as [|r|x].
    - (* CRun *)
      destruct (f_cb f) eqn:Hcb; try (inversion E; subst; rewrite Hstk; split; [split; assumption | assumption]).
      assert (Hph : f_creq f = true -> f_fin f = true) by (apply idle_phase; assumption).
      destruct (f_code f) as [|i code] eqn:Hcode.
      + destruct (f_fin f) eqn:Hfin.
        * (* frame over *)
          destruct (after_frame _ _ _ _ _) as [[stk c2] h2] eqn:Eaf. inversion E; subst. simpl.
          eapply after_frame_ok; eauto.
          apply add_done_sh; [apply emit_sh; exact Hh|]. simpl. unfold hist_ok. rewrite hrun_app.
          destruct Hf as [[Hhist _] _]. rewrite Hhist. unfold phase_of. rewrite Hfin. simpl. discriminate.
        * (* reach the finally block *)
          inversion E; subst. simpl. split; [|apply emit_sh; exact Hh]. apply stack_top; auto.
          destruct Hf as [[Hhist [Hfc _]] _].
          unfold frame_ok, frame_core, phase_of; simpl. rewrite hrun_app, Hhist. unfold phase_of. rewrite Hfin.
          repeat split; auto using fin_dest; try discriminate. destruct (f_creq f); reflexivity.
      + destruct (ok_tail_code f i code Hf Hcode) as [Hd Hfi].
        destruct i as [j slot a| |d].
        * (* callback starts *)
          inversion E; subst. simpl. split; [|apply emit_sh; exact Hh]. apply stack_top; auto.
          assert (Hslot : f_fin f = true -> Nat.eqb slot FIN = true) by (intros; eapply fin_code_slot; eauto).
          split.
          -- apply femit_ok_phase.
             ++ apply set_code_core; [apply Hf | exact Hd | exact Hfi].
             ++ reflexivity.
             ++ unfold phase_of; simpl. destruct (f_fin f) eqn:Hfin; [discriminate|].
                destruct (f_creq f); [specialize (Hph eq_refl); discriminate | discriminate].
             ++ unfold phase_of; simpl. destruct (f_fin f) eqn:Hfin; [intros _; simpl; auto|].
                destruct (f_creq f); discriminate.
          -- simpl. split; [exact Hslot|]. intros Hfin Hcr. specialize (Hph Hcr). congruence.
        * (* conditions passed *)
          assert (Hfin : f_fin f = false) by (eapply fin_code_head; eauto).
          assert (Hcr : f_creq f = false).
          { destruct (f_creq f); [specialize (Hph eq_refl); congruence | reflexivity]. }
          inversion E; subst. simpl. split; [|apply emit_sh; apply add_cancels_sh; exact Hh].
          apply stack_top; auto. split.
          -- destruct Hf as [[Hhist [Hfc _]] _]. unfold frame_core, phase_of; simpl. rewrite hrun_app, Hhist.
             unfold phase_of. rewrite Hfin, Hcr. simpl. repeat split; auto. intros; discriminate.
          -- simpl. split; [reflexivity|]. intros _ H. congruence.
        * (* set_state *)
          assert (Hfin : f_fin f = false) by (eapply fin_code_head; eauto).
          assert (Hcr : f_creq f = false).
          { destruct (f_creq f); [specialize (Hph eq_refl); congruence | reflexivity]. }
          assert (Hdn : d < n).
          { destruct Hf as [[_ [_ [H3 _]]] _]. rewrite Hcode in H3. simpl in H3. apply andb_true_iff in H3.
            destruct H3 as [H3 _]. apply Nat.ltb_lt in H3. exact H3. }
          inversion E; subst. simpl. split; [|apply emit_sh; apply set_mstate_sh; assumption].
          apply stack_top; auto. split.
          -- destruct Hf as [[Hhist [Hfc _]] _]. unfold frame_core, phase_of; simpl. rewrite hrun_app, Hhist.
             unfold phase_of. rewrite Hfin, Hcr. simpl. repeat split; auto. intros; discriminate.
          -- simpl. split; [reflexivity|]. intros _ H. congruence.
    - (* a nested trigger returned *)
      destruct (f_cb f) eqn:Hcb; try (inversion E; subst; rewrite Hstk; split; [split; assumption | assumption]).
      destruct (cb_return _ _) as [f2 h2] eqn:Ecb. inversion E; subst. simpl.
      assert (Hslot : f_fin f = true -> Nat.eqb slot FIN = true).
      { intros Hfin. destruct Hf as [_ [H _]]. specialize (H Hfin). rewrite Hcb in H. exact H. }
      assert (Hcore : frame_core (femit (femit f (TrigRet (f_no f) e r))
                                        (End_ (f_no f) (f_ev f) j slot (mstate h (f_model f))))).
      { apply femit_ok_phase; [apply femit_ok_phase; [apply Hf | | | ]; try reflexivity | | |]; try reflexivity.
        unfold phase_of; simpl. destruct (f_fin f); [intros _; simpl; auto|]. destruct (f_creq f); discriminate. }
      split.
      + apply stack_top; auto. change f2 with (fst (f2, h')). rewrite <- Ecb. apply cb_return_ok. exact Hcore.
      + change h' with (snd (f2, h')). rewrite <- Ecb. apply cb_return_sh. apply emit_sh. apply emit_sh. exact Hh.
    - (* a nested trigger raised *)
      destruct (f_cb f) eqn:Hcb; try (inversion E; subst; rewrite Hstk; split; [split; assumption | assumption]).
      destruct (raise_in _ _ _) as [f2 h2] eqn:Er. inversion E; subst. simpl.
      split.
      + apply stack_top; auto. change f2 with (fst (f2, h')). rewrite <- Er. apply raise_in_core_ok.
        apply set_code_core; [apply femit_ok_phase; [apply Hf | | |]; reflexivity | apply Hf | apply Hf].
      + change h' with (snd (f2, h')). rewrite <- Er. apply raise_in_sh. apply emit_sh. exact Hh.
  Qed.

  Lemma run_ok : forall fuel prot t c h t' h' b,
    run defs fuel prot t c h = (t', h', b) ->
    stack_ok (t_stack t) -> sh_ok h -> stack_ok (t_stack t') /\ sh_ok h'.
  Proof.
    induction fuel as [|fu IH]; intros prot t c h t' h' b E Hs Hh; simpl in E.
    - inversion E; subst. auto.
    - destruct (micro defs prot t c h) as [[[t1 c1] h1] st] eqn:Em.
      destruct (micro_ok _ _ _ _ _ _ _ _ Em Hs Hh) as [Hs1 Hh1].
      destruct st; [eapply IH; eauto | inversion E; subst; auto | inversion E; subst; auto].
  Qed.

  Lemma susp_phase : forall f j slot a, frame_ok f -> f_cb f = Susp j slot a ->
    (phase_of f = HB \/ phase_of f = HF) /\ (f_fin f = true -> Nat.eqb slot FIN = true).
  Proof.
    intros f j slot a Hf Hcb. split.
    - apply ok_not_incall_phase; [exact Hf | rewrite Hcb; reflexivity].
    - intros Hfin. destruct Hf as [_ [H _]]. specialize (H Hfin). rewrite Hcb in H. exact H.
  Qed.

  Lemma femit_susp_core : forall f j slot a it, frame_ok f -> f_cb f = Susp j slot a ->
    hstep HB it = Some HB -> (Nat.eqb slot FIN = true -> fin_item it = true) -> frame_core (femit f it).
  Proof.
    intros f j slot a it Hf Hcb HB' HF'. destruct (susp_phase f j slot a Hf Hcb) as [Hph Hslot].
    apply femit_ok_phase; [apply Hf | auto | | ].
    - intros Hc. destruct Hph as [Hph|Hph]; rewrite Hph in Hc; discriminate.
    - intros Hp. apply HF'. apply Hslot. unfold phase_of in Hp. destruct (f_fin f); [reflexivity|].
      destruct (f_creq f); discriminate.
  Qed.

  Lemma resume_ok : forall t h t1 c h1,
    resume defs mode t h = (t1, c, h1) ->
    stack_ok (t_stack t) -> sh_ok h -> stack_ok (t_stack t1) /\ sh_ok h1.
  Proof.
    intros t h t1 c h1 E [Hs Hi] Hh. unfold resume in E.
    destruct (t_stack t) as [|k rest] eqn:Hstk.
    { inversion E; subst. rewrite Hstk. split; [split; assumption | assumption]. }
    simpl in Hi. inversion Hs as [|? ? Hf Hr]; subst. set (f := kframe k) in *.
    destruct (f_cb f) as [|j slot a|] eqn:Hcb;
      try (inversion E; subst; rewrite Hstk; split; [split; assumption | assumption]).
    destruct a as [| |e'|m].
    - destruct (cb_return _ _) as [f2 h2] eqn:Ecb. inversion E; subst. simpl. split.
      + apply stack_top; auto. change f2 with (fst (f2, h1)). rewrite <- Ecb. apply cb_return_ok.
        eapply femit_susp_core; eauto; simpl; auto.
      + change h1 with (snd (f2, h1)). rewrite <- Ecb. apply cb_return_sh. apply emit_sh. exact Hh.
    - destruct (raise_in _ _ _) as [f2 h2] eqn:Er. inversion E; subst. simpl. split.
      + apply stack_top; auto. change f2 with (fst (f2, h1)). rewrite <- Er. apply raise_in_core_ok.
        apply set_code_core; [eapply femit_susp_core; eauto; simpl; auto | apply Hf | apply Hf].
      + change h1 with (snd (f2, h1)). rewrite <- Er. apply raise_in_sh. apply emit_sh. exact Hh.
    - (* trigger awaited from the callback *)
      assert (Hf1 : frame_ok (set_code f (f_code f) (InCall j slot e'))).
      { split; [apply set_cb_core; apply Hf|]. simpl. split; [|reflexivity].
        intros Hfin.
        destruct (susp_phase f j slot (ATrig e') Hf Hcb) as [_ H]. apply H. exact Hfin. }
      pose proof (call_trigger_sh e' h Hh) as Hsh.
      destruct (call_trigger defs mode e' h) as [r h2|x h2|k' h2] eqn:Ect; inversion E; subst; simpl in *.
      + split; [apply stack_top; auto | exact Hsh].
      + split; [apply stack_top; auto | exact Hsh].
      + split; [|exact Hsh]. split; simpl.
        * constructor; [eapply call_trigger_push_ok; eauto|]. constructor; [rewrite kframe_kset; exact Hf1 | exact Hr].
        * constructor; [rewrite kframe_kset; reflexivity | exact Hi].
    - pose proof (remove_model_sh m h Hh) as Hsh.
      destruct (remove_model defs mode m h) as [[x|] h2] eqn:Erm; simpl in Hsh.
      + destruct (raise_in _ _ _) as [f2 h3] eqn:Er. inversion E; subst. simpl. split.
        * apply stack_top; auto. change f2 with (fst (f2, h1)). rewrite <- Er. apply raise_in_core_ok.
          apply set_code_core; [eapply femit_susp_core; eauto; simpl; auto | apply Hf | apply Hf].
        * change h1 with (snd (f2, h1)). rewrite <- Er. apply raise_in_sh. apply emit_sh. exact Hsh.
      + destruct (cb_return _ _) as [f2 h3] eqn:Ecb. inversion E; subst. simpl. split.
        * apply stack_top; auto. change f2 with (fst (f2, h1)). rewrite <- Ecb. apply cb_return_ok.
          eapply femit_susp_core; eauto; simpl; auto.
        * change h1 with (snd (f2, h1)). rewrite <- Ecb. apply cb_return_sh. apply emit_sh. exact Hsh.
  Qed.

  Lemma mark_creq_ok : forall k, frame_ok (kframe k) -> incall (f_cb (kframe k)) = true ->
    frame_ok (kframe (mark_creq k)) /\ incall (f_cb (kframe (mark_creq k))) = true.
  Proof.
    intros k [[Hh [Hfc [Hd Hfi]]] [Hcf Hci]] Hin. unfold mark_creq. rewrite kframe_kset. simpl.
    split; [|exact Hin]. unfold frame_ok, frame_core; simpl. rewrite hrun_app, Hh.
    unfold phase_of; simpl. repeat split; auto.
    destruct (f_fin (kframe k)); [reflexivity|]. destruct (f_creq (kframe k)); reflexivity.
  Qed.

  Lemma deliver_cancel_ok : forall t h t1 h1,
    deliver_cancel t h = (t1, h1) ->
    stack_ok (t_stack t) -> sh_ok h -> stack_ok (t_stack t1) /\ sh_ok h1.
  Proof.
    intros t h t1 h1 E [Hs Hi] Hh. unfold deliver_cancel in E.
    destruct (t_stack t) as [|k rest] eqn:Hstk.
    { inversion E; subst. rewrite Hstk. split; [split; assumption | assumption]. }
    simpl in Hi. inversion Hs as [|? ? Hf Hr]; subst. set (f := kframe k) in *.
    destruct (f_cb f) as [|j slot a|] eqn:Hcb;
      try (inversion E; subst; rewrite Hstk; split; [split; assumption | assumption]).
    destruct (raise_in _ _ _) as [f2 h2] eqn:Er. inversion E; subst. simpl. split.
    - split; simpl.
      + constructor.
        * rewrite kframe_kset. change f2 with (fst (f2, h1)). rewrite <- Er.
          destruct (susp_phase f j slot a Hf Hcb) as [Hph _].
          apply raise_in_ok with (p := if f_fin f then HF else HC); simpl.
          -- rewrite hrun_app. destruct Hf as [[Hhist _] _]. rewrite Hhist.
             unfold phase_of in *. destruct (f_fin f); [reflexivity|].
             destruct (f_creq f); [destruct Hph; discriminate | reflexivity].
          -- intros Hfin. rewrite Hfin. reflexivity.
          -- apply Hf.
        * clear - Hr Hi. induction rest as [|g rest IH]; simpl; [constructor|].
          inversion Hr; subst. inversion Hi; subst. constructor; [apply mark_creq_ok; assumption | auto].
      + clear - Hr Hi. induction rest as [|g rest IH]; simpl; [constructor|].
        inversion Hr; subst. inversion Hi; subst. constructor; [apply mark_creq_ok; assumption | auto].
    - change h1 with (snd (f2, h1)). rewrite <- Er. apply raise_in_sh. apply emit_sh. exact Hh.
  Qed.

  (* ------------------------------------------------------------------ the whole system *)
  Definition task_ok (t : task) : Prop := stack_ok (t_stack t).
  Definition Inv (s : state) : Prop := Forall task_ok (s_tasks s) /\ sh_ok (s_sh s).

  Lemma replace_nth_ok : forall ts i t, Forall task_ok ts -> task_ok t -> Forall task_ok (replace_nth ts i t).
  Proof.
    induction ts as [|x ts IH]; intros i t H Ht; simpl; [destruct i; constructor|].
    inversion H; subst. destruct i; constructor; auto.
  Qed.

  Lemma nth_ok : forall ts i, Forall task_ok ts -> task_ok (nth i ts dummy_task).
  Proof.
    induction ts as [|x ts IH]; intros i H; simpl.
    - destruct i; split; constructor.
    - inversion H; subst. destruct i; auto.
  Qed.

  Lemma run_at_ok : forall fuel s i t c h,
    Forall task_ok (s_tasks s) -> task_ok t -> sh_ok h -> Inv (run_at defs fuel s i t c h).
  Proof.
    intros fuel s i t c h Hts Ht Hh. unfold run_at.
    destruct (run defs fuel _ t c h) as [[t' h'] ok] eqn:E.
    destruct (run_ok _ _ _ _ _ _ _ _ E Ht Hh) as [H1 H2].
    split; simpl; [apply replace_nth_ok; assumption | exact H2].
  Qed.

  Lemma pop_cancel_sh : forall h, sh_ok h -> sh_ok (pop_cancel h).
  Proof. intros h [H1 H2]. split; assumption. Qed.

  Lemma deliver_all_ok : forall fuel k s, Inv s -> Inv (deliver_all defs fuel k s).
  Proof.
    intros fuel k. induction k as [|k IH]; intros s [Hts Hh]; simpl; [split; assumption|].
    destruct (h_cancel (s_sh s)) as [|u l] eqn:Hc; [split; assumption|].
    destruct (find_idx _ _) as [i|].
    - destruct (suspended _).
      + destruct (deliver_cancel _ _) as [t1 h1] eqn:Ed.
        destruct (deliver_cancel_ok _ _ _ _ Ed (nth_ok _ i Hts) (pop_cancel_sh _ Hh)) as [H1 H2].
        apply IH. apply run_at_ok; assumption.
      + apply IH. split; simpl; [exact Hts | apply pop_cancel_sh; exact Hh].
    - apply IH. split; simpl; [exact Hts | apply pop_cancel_sh; exact Hh].
  Qed.

  Lemma step_ok : forall top prot preds guard fuel s e, Inv s -> Inv (step defs mode top prot preds guard fuel s e).
  Proof.
    intros top prot preds guard fuel s e [Hts Hh]. unfold step.
    destruct (s_oof s); [split; assumption|].
    destruct (can_start top preds guard s e).
    - apply deliver_all_ok.
      set (t0 := mkT e _ _ [] None _).
      set (h0 := match inherited_ctx preds s e with Some _ => s_sh s | None => _ end).
      assert (Hh0 : sh_ok h0) by (subst h0; destruct (inherited_ctx preds s e); destruct Hh; split; assumption).
      assert (Hts0 : Forall task_ok (s_tasks s ++ [t0])).
      { apply Forall_app. split; [exact Hts|]. constructor; [split; constructor | constructor]. }
      pose proof (call_trigger_sh e h0 Hh0) as Hsh.
      destruct (call_trigger defs mode e h0) as [r h1|x h1|k h1] eqn:Ect; simpl in Hsh.
      + apply run_at_ok; [exact Hts0 | split; constructor | exact Hsh].
      + apply run_at_ok; [exact Hts0 | split; constructor | exact Hsh].
      + apply run_at_ok; [exact Hts0 | | exact Hsh].
        split; simpl; [constructor; [eapply call_trigger_push_ok; eauto | constructor] | constructor].
    - destruct (find_idx _ _) as [i|]; [|split; assumption].
      destruct (resume _ _ _ _) as [[t1 c] h1] eqn:Er.
      destruct (resume_ok _ _ _ _ _ Er (nth_ok _ i Hts) Hh) as [H1 H2].
      apply deliver_all_ok. apply run_at_ok; assumption.
  Qed.

  Lemma schedule_ok : forall top prot preds guard fuel sched s, Inv s -> Inv (run_schedule defs mode top prot preds guard fuel s sched).
  Proof.
    intros top prot preds guard fuel sched. unfold run_schedule.
    induction sched as [|e r IH]; intros s H; simpl; [exact H|]. apply IH. apply step_ok. exact H.
  Qed.

  Lemma init_ok : forall inits, Forall (fun x => x < n) inits -> Inv (init_state mode inits).
  Proof. intros inits H. split; simpl; [constructor|]. split; [constructor | exact H]. Qed.
End Inv.

(* ------------------------------------------------------------------ async_tasks bookkeeping *)
Section Reg.
  Variable defs : list evdef.
  Variable mode : qmode.

  Definition unfinished (t : task) : bool := match t_res t with None => true | Some _ => false end.
  Definition reg_of (ts : list task) : list (model * ev) :=
    map (fun t => (t_model t, t_id t)) (filter unfinished ts).

  Lemma raise_in_reg : forall f x h, h_reg (snd (raise_in f x h)) = h_reg h.
  Proof. intros. unfold raise_in. destruct (f_fin f); reflexivity. Qed.
  Lemma cb_return_reg : forall f h, h_reg (snd (cb_return f h)) = h_reg h.
  Proof. intros. unfold cb_return. destruct (f_creq f); [apply raise_in_reg | reflexivity]. Qed.
  Lemma new_frame_reg : forall k e h, h_reg (snd (new_frame defs k e h)) = h_reg h.
  Proof. intros. unfold new_frame. destruct (existsb _ _); [reflexivity | rewrite raise_in_reg; reflexivity]. Qed.

  Lemma after_frame_reg : forall k c rest h, h_reg (snd (after_frame defs k c rest h)) = h_reg h.
  Proof.
    intros. unfold after_frame. destruct k as [f|q f]; [reflexivity|].
    destruct c as [|r|x].
    - destruct (qlookup _ q) as [[|y tl]|]; try reflexivity. destruct tl as [|nx tl']; [reflexivity|].
      destruct (new_frame _ _ _ _) as [f' h2] eqn:E. simpl. change h2 with (snd (f', h2)). rewrite <- E.
      rewrite new_frame_reg. reflexivity.
    - destruct (qlookup _ q) as [[|y tl]|]; try reflexivity. destruct tl as [|nx tl']; [reflexivity|].
      destruct (new_frame _ _ _ _) as [f' h2] eqn:E. simpl. change h2 with (snd (f', h2)). rewrite <- E.
      rewrite new_frame_reg. reflexivity.
    - destruct (qlookup _ q); reflexivity.
  Qed.

  Lemma call_trigger_reg : forall e h, h_reg (called_sh (call_trigger defs mode e h)) = h_reg h.
  Proof.
    intros. unfold call_trigger. destruct mode.
    - destruct (new_frame _ _ _ _) as [f h1] eqn:E. simpl. change h1 with (snd (f, h1)). rewrite <- E.
      rewrite new_frame_reg. reflexivity.
    - destruct (qlookup _ _) as [[|y q]|]; try reflexivity.
      destruct (new_frame _ _ _ _) as [f h1] eqn:E. simpl. change h1 with (snd (f, h1)). rewrite <- E.
      rewrite new_frame_reg. reflexivity.
    - destruct (qlookup _ _) as [[|y q]|]; try reflexivity.
      destruct (new_frame _ _ _ _) as [f h1] eqn:E. simpl. change h1 with (snd (f, h1)). rewrite <- E.
      rewrite new_frame_reg. reflexivity.
  Qed.

  Lemma remove_model_reg : forall m h, h_reg (snd (remove_model defs mode m h)) = h_reg h.
  Proof.
    intros. unfold remove_model. destruct mode.
    - destruct (negb _); reflexivity.
    - destruct (negb _); [reflexivity|]. simpl. destruct (qlookup _ 0) as [[|hd tl]|]; reflexivity.
    - destruct (qlookup _ m); [|reflexivity]. destruct (existsb _ _); reflexivity.
  Qed.

  (* one move of a task either leaves async_tasks and its own registration alone, or is the return of its
     top-level process_context, which removes exactly its own entry *)
  Lemma micro_reg : forall prot t c h t' c' h' st,
    micro defs prot t c h = (t', c', h', st) -> own_ctx t = true ->
    (t_id t' = t_id t /\ t_model t' = t_model t /\
    ((t_res t' = t_res t /\ h_reg h' = h_reg h /\ t_ctx t' = t_ctx t) \/
     (st = Finished /\ t_res t' <> None /\ h_reg h' = remove_first (t_model t, t_id t) (h_reg h) /\
      t_ctx t' = None))) /\
    (t_res t = None -> t_res t' <> None -> t_stack t' = []).
  Proof.
    intros prot t c h t' c' h' st E Hown.
    assert (Hlast : t_res t = None -> t_res t' <> None -> t_stack t' = []).
    { unfold micro, finish in E. rewrite Hown in E. destruct (t_stack t) as [|k rest] eqn:Hstk.
      - destruct c; inversion E; subst; simpl; auto.
      - intros H1 H2. exfalso. apply H2. rewrite <- H1.
        destruct c; destruct (f_cb (kframe k)); try (inversion E; subst; reflexivity).
        + destruct (f_code (kframe k)) as [|i code].
          * destruct (f_fin (kframe k)); [|inversion E; subst; reflexivity].
            destruct (after_frame _ _ _ _ _) as [[stk c2] h2]. inversion E; subst. reflexivity.
          * destruct i; inversion E; subst; reflexivity.
        + destruct (cb_return _ _). inversion E; subst. reflexivity.
        + destruct (raise_in _ _ _). inversion E; subst. reflexivity. }
    split; [|exact Hlast]. clear Hlast.
    unfold micro, finish in E. rewrite Hown in E.
    destruct (t_stack t) as [|k rest] eqn:Hstk.
    { destruct c; inversion E; subst; simpl; repeat split; auto; right; repeat split; discriminate. }
    destruct c as [|r|x].
    - destruct (f_cb (kframe k)); try (inversion E; subst; auto 6; fail).
      destruct (f_code (kframe k)) as [|i code].
      + destruct (f_fin (kframe k)).
        * destruct (after_frame _ _ _ _ _) as [[stk c2] h2] eqn:Eaf. inversion E; subst. simpl.
          repeat split; auto. left. split; [reflexivity|]. split; [|reflexivity].
          change h' with (snd (stk, c', h')). rewrite <- Eaf. rewrite after_frame_reg. reflexivity.
        * inversion E; subst. simpl. auto 6.
      + destruct i; inversion E; subst; simpl; auto 6.
    - destruct (f_cb (kframe k)); try (inversion E; subst; auto 6; fail).
      destruct (cb_return _ _) as [f2 h2] eqn:Ecb. inversion E; subst. simpl. repeat split; auto. left.
      split; [reflexivity|]. split; [|reflexivity].
      change h' with (snd (f2, h')). rewrite <- Ecb. rewrite cb_return_reg. reflexivity.
    - destruct (f_cb (kframe k)); try (inversion E; subst; auto 6; fail).
      destruct (raise_in _ _ _) as [f2 h2] eqn:Er. inversion E; subst. simpl. repeat split; auto. left.
      split; [reflexivity|]. split; [|reflexivity].
      change h' with (snd (f2, h')). rewrite <- Er. rewrite raise_in_reg. reflexivity.
  Qed.

  Lemma reg_of_app : forall a b, reg_of (a ++ b) = reg_of a ++ reg_of b.
  Proof. intros. unfold reg_of. rewrite filter_app, map_app. reflexivity. Qed.

  Lemma reg_of_cons_un : forall t l, t_res t = None -> reg_of (t :: l) = (t_model t, t_id t) :: reg_of l.
  Proof. intros t l H. unfold reg_of; simpl. unfold unfinished at 1. rewrite H. reflexivity. Qed.
  Lemma reg_of_cons_fin : forall t l, t_res t <> None -> reg_of (t :: l) = reg_of l.
  Proof. intros t l H. unfold reg_of; simpl. unfold unfinished at 1. destruct (t_res t); [reflexivity | congruence]. Qed.

  Lemma remove_first_notin : forall p a b, ~ In p a -> remove_first p (a ++ p :: b) = a ++ b.
  Proof.
    intros [m e] a b. induction a as [|[m' e'] a IH]; intros H; simpl.
    - rewrite !Nat.eqb_refl. reflexivity.
    - destruct (Nat.eqb m' m && Nat.eqb e' e) eqn:Eq.
      + apply andb_true_iff in Eq. destruct Eq as [E1 E2]. apply Nat.eqb_eq in E1, E2. subst.
        exfalso. apply H. left. reflexivity.
      + rewrite IH; [reflexivity|]. intros Hin. apply H. right. exact Hin.
  Qed.

  Lemma reg_of_ids : forall ts p, In p (reg_of ts) -> In (snd p) (map t_id ts).
  Proof.
    intros ts p H. unfold reg_of in H. apply in_map_iff in H. destruct H as [t [Hp Hin]].
    apply filter_In in Hin. destruct Hin as [Hin _]. subst p. simpl. apply in_map. exact Hin.
  Qed.

  Lemma own_ctx_same : forall t t', t_id t' = t_id t -> t_ctx t' = t_ctx t -> own_ctx t' = own_ctx t.
  Proof. intros t t' H1 H2. unfold own_ctx. rewrite H1, H2. reflexivity. Qed.

  (* running one task: the table follows the task list in which the task is replaced by its new version; the
     task's current_context marker stays its own while it runs and is reset when it has finished *)
  Lemma run_reg : forall fuel prot t c h t' h' b l1 l2,
    run defs fuel prot t c h = (t', h', b) ->
    t_res t = None -> own_ctx t = true -> ~ In (t_id t) (map t_id l1) ->
    h_reg h = reg_of (l1 ++ t :: l2) ->
    h_reg h' = reg_of (l1 ++ t' :: l2) /\ t_id t' = t_id t /\ (t_res t' <> None -> t_stack t' = []) /\
    (t_res t' = None -> own_ctx t' = true) /\ (t_res t' <> None -> t_ctx t' = None).
  Proof.
    induction fuel as [|fu IH]; intros prot t c h t' h' b l1 l2 E Hres Hown Hnin Hreg; simpl in E.
    - inversion E; subst. repeat split; auto; congruence.
    - destruct (micro defs prot t c h) as [[[t1 c1] h1] st] eqn:Em.
      destruct (micro_reg _ _ _ _ _ _ _ _ Em Hown) as [[Hid [Hmod [[Hr [Hg Hc]]|[Hst [Hr [Hg Hc]]]]]] Hlast].
      + assert (Hreg1 : h_reg h1 = reg_of (l1 ++ t1 :: l2)).
        { rewrite Hg, Hreg. rewrite !reg_of_app. f_equal.
          rewrite (reg_of_cons_un t) by exact Hres. rewrite (reg_of_cons_un t1) by congruence.
          rewrite Hid, Hmod. reflexivity. }
        assert (Hown1 : own_ctx t1 = true) by (rewrite (own_ctx_same t t1 Hid Hc); exact Hown).
        destruct st.
        * rewrite <- Hid in Hnin. rewrite Hres in Hr.
          destruct (IH _ _ _ _ _ _ _ _ _ E Hr Hown1 Hnin Hreg1) as [H1 [H2 [H3 [H4 H5]]]].
          repeat split; [exact H1 | congruence | exact H3 | exact H4 | exact H5].
        * inversion E; subst. repeat split; auto; congruence.
        * inversion E; subst. repeat split; auto; congruence.
      + subst st. inversion E; subst. split; [|split; [exact Hid | split; [auto | split; [congruence | auto]]]].
        rewrite Hg, Hreg. rewrite !reg_of_app. rewrite (reg_of_cons_un t) by exact Hres.
        rewrite (reg_of_cons_fin t') by exact Hr.
        apply remove_first_notin.
        intros Hin. apply Hnin. apply (reg_of_ids l1 _ Hin).
  Qed.

  (* ---- system level ---- *)
  Definition ctx_ok (t : task) : Prop :=
    (t_res t = None -> own_ctx t = true) /\ (t_res t <> None -> t_ctx t = None).

  Definition RI (s : state) : Prop :=
    h_reg (s_sh s) = reg_of (s_tasks s) /\ NoDup (map t_id (s_tasks s)) /\
    (forall t, In t (s_tasks s) -> In (t_id t) (s_started s)) /\
    (forall t, In t (s_tasks s) -> t_res t <> None -> t_stack t = []) /\
    (forall t, In t (s_tasks s) -> ctx_ok t).

  Lemma find_idx_split : forall p ts i, find_idx p ts = Some i ->
    exists l1 t0 l2, ts = l1 ++ t0 :: l2 /\ length l1 = i /\ p t0 = true /\ nth i ts dummy_task = t0.
  Proof.
    intros p. induction ts as [|x ts IH]; intros i H; simpl in H; [discriminate|].
    destruct (p x) eqn:Hp.
    - inversion H; subst. exists [], x, ts. auto.
    - destruct (find_idx p ts) as [j|] eqn:Hj; [|discriminate]. inversion H; subst.
      destruct (IH j eq_refl) as [l1 [t0 [l2 [H1 [H2 [H3 H4]]]]]]. exists (x :: l1), t0, l2.
      subst ts. simpl. repeat split; auto.
  Qed.

  Lemma replace_nth_split : forall l1 t0 l2 t, replace_nth (l1 ++ t0 :: l2) (length l1) t = l1 ++ t :: l2.
  Proof. induction l1 as [|x l1 IH]; intros; simpl; [reflexivity | rewrite IH; reflexivity]. Qed.

  Lemma run_at_RI : forall fuel s l1 t0 l2 t c h,
    s_tasks s = l1 ++ t0 :: l2 ->
    NoDup (map t_id (s_tasks s)) ->
    (forall t, In t (s_tasks s) -> In (t_id t) (s_started s)) ->
    (forall t, In t (s_tasks s) -> t_res t <> None -> t_stack t = []) ->
    (forall t, In t (s_tasks s) -> ctx_ok t) ->
    t_id t = t_id t0 -> t_model t = t_model t0 -> t_res t = None -> t_res t0 = None -> own_ctx t = true ->
    h_reg h = reg_of (s_tasks s) ->
    RI (run_at defs fuel s (length l1) t c h).
  Proof.
    intros fuel s l1 t0 l2 t c h Hts Hnd Hst Hfin Hctx Hid Hmod Hres Hres0 Hown Hreg. unfold run_at.
    destruct (run defs fuel _ t c h) as [[t' h'] ok] eqn:E.
    assert (Hnin : ~ In (t_id t) (map t_id l1)).
    { rewrite Hts in Hnd. rewrite map_app in Hnd. simpl in Hnd. apply NoDup_remove_2 in Hnd.
      rewrite Hid. intros Hin. apply Hnd. apply in_or_app. left. exact Hin. }
    assert (Hreg' : h_reg h = reg_of (l1 ++ t :: l2)).
    { rewrite Hreg, Hts. rewrite !reg_of_app. f_equal. rewrite (reg_of_cons_un t0) by exact Hres0.
      rewrite (reg_of_cons_un t) by exact Hres. rewrite Hid, Hmod. reflexivity. }
    destruct (run_reg _ _ _ _ _ _ _ _ _ _ E Hres Hown Hnin Hreg') as [H1 [H2 [H3 [H4 H5]]]].
    rewrite Hts. rewrite replace_nth_split. unfold RI; simpl. split; [exact H1|]. split; [|split; [|split]].
    - rewrite Hts in Hnd. rewrite map_app in *. simpl in *. rewrite H2, Hid. exact Hnd.
    - intros u Hu. apply in_app_or in Hu. destruct Hu as [Hu|[Hu|Hu]].
      + apply Hst. rewrite Hts. apply in_or_app. left. exact Hu.
      + subst u. rewrite H2, Hid. apply Hst. rewrite Hts. apply in_or_app. right. left. reflexivity.
      + apply Hst. rewrite Hts. apply in_or_app. right. right. exact Hu.
    - intros u Hu. apply in_app_or in Hu. destruct Hu as [Hu|[Hu|Hu]].
      + apply Hfin. rewrite Hts. apply in_or_app. left. exact Hu.
      + subst u. exact H3.
      + apply Hfin. rewrite Hts. apply in_or_app. right. right. exact Hu.
    - intros u Hu. apply in_app_or in Hu. destruct Hu as [Hu|[Hu|Hu]].
      + apply Hctx. rewrite Hts. apply in_or_app. left. exact Hu.
      + subst u. split; assumption.
      + apply Hctx. rewrite Hts. apply in_or_app. right. right. exact Hu.
  Qed.

  Lemma resume_reg : forall t h t1 c h1, resume defs mode t h = (t1, c, h1) ->
    t_id t1 = t_id t /\ t_model t1 = t_model t /\ t_res t1 = t_res t /\ h_reg h1 = h_reg h /\ t_ctx t1 = t_ctx t.
  Proof.
    intros t h t1 c h1 E. unfold resume in E.
    destruct (t_stack t) as [|k rest]; [inversion E; subst; auto 6|].
    destruct (f_cb (kframe k)) as [|j slot a|]; try (inversion E; subst; auto 6; fail).
    destruct a as [| |e'|m].
    - destruct (cb_return _ _) as [f2 h2] eqn:Ecb. inversion E; subst. simpl. repeat split; auto.
      change h1 with (snd (f2, h1)). rewrite <- Ecb. rewrite cb_return_reg. reflexivity.
    - destruct (raise_in _ _ _) as [f2 h2] eqn:Er. inversion E; subst. simpl. repeat split; auto.
      change h1 with (snd (f2, h1)). rewrite <- Er. rewrite raise_in_reg. reflexivity.
    - pose proof (call_trigger_reg e' h) as Hc.
      destruct (call_trigger defs mode e' h); inversion E; subst; simpl in *; auto 6.
    - pose proof (remove_model_reg m h) as Hm.
      destruct (remove_model defs mode m h) as [[x|] h2]; simpl in Hm.
      + destruct (raise_in _ _ _) as [f2 h3] eqn:Er. inversion E; subst. simpl. repeat split; auto.
        change h1 with (snd (f2, h1)). rewrite <- Er. rewrite raise_in_reg. exact Hm.
      + destruct (cb_return _ _) as [f2 h3] eqn:Ecb. inversion E; subst. simpl. repeat split; auto.
        change h1 with (snd (f2, h1)). rewrite <- Ecb. rewrite cb_return_reg. exact Hm.
  Qed.

  Lemma deliver_cancel_reg : forall t h t1 h1, deliver_cancel t h = (t1, h1) ->
    t_id t1 = t_id t /\ t_model t1 = t_model t /\ t_res t1 = t_res t /\ h_reg h1 = h_reg h /\ t_ctx t1 = t_ctx t.
  Proof.
    intros t h t1 h1 E. unfold deliver_cancel in E.
    destruct (t_stack t) as [|k rest]; [inversion E; subst; auto 6|].
    destruct (f_cb (kframe k)); try (inversion E; subst; auto 6; fail).
    destruct (raise_in _ _ _) as [f2 h2] eqn:Er. inversion E; subst. simpl. repeat split; auto.
    change h1 with (snd (f2, h1)). rewrite <- Er. rewrite raise_in_reg. reflexivity.
  Qed.

  Lemma deliver_all_RI : forall fuel k s, RI s -> RI (deliver_all defs fuel k s).
  Proof.
    intros fuel k. induction k as [|k IH]; intros s HRI; simpl; [exact HRI|].
    destruct (h_cancel (s_sh s)) as [|u l] eqn:Hc; [exact HRI|].
    destruct HRI as [Hreg [Hnd [Hst [Hfin Hctx]]]].
    assert (Hskip : RI (mkS (s_tasks s) (pop_cancel (s_sh s)) (s_started s) (s_oof s)))
      by (split; [|split; [|split; [|split]]]; simpl; assumption).
    destruct (find_idx _ _) as [i|] eqn:Hfi; [|apply IH; exact Hskip].
    destruct (find_idx_split _ _ _ Hfi) as [l1 [t0 [l2 [Hts [Hlen [Hp Hnth]]]]]].
    rewrite Hnth. destruct (suspended t0); [|apply IH; exact Hskip].
    destruct (deliver_cancel _ _) as [t1 h1] eqn:Ed.
    destruct (deliver_cancel_reg _ _ _ _ Ed) as [Hid [Hmod [Hres [Hr Hcx]]]].
    apply andb_true_iff in Hp. destruct Hp as [_ Hp].
    assert (Hres0 : t_res t0 = None) by (destruct (t_res t0); [discriminate | reflexivity]).
    assert (Hown0 : own_ctx t0 = true).
    { apply (Hctx t0); [rewrite Hts; apply in_or_app; right; left; reflexivity | exact Hres0]. }
    apply IH. rewrite <- Hlen. eapply run_at_RI; eauto; try congruence.
    - rewrite (own_ctx_same t0 t1 Hid Hcx). exact Hown0.
    - rewrite Hr. exact Hreg.
  Qed.

  Lemma find_ctx_none : forall (ts : list task) p,
    (forall t, In t ts -> ctx_ok t) -> NoDup (map t_id ts) ->
    existsb (fun t => Nat.eqb (t_id t) p && task_done t) ts = true ->
    match find (fun t => Nat.eqb (t_id t) p) ts with Some t => t_ctx t | None => None end = None.
  Proof.
    induction ts as [|x ts IH]; intros p Hc Hnd Hex; simpl in *; [reflexivity|].
    destruct (Nat.eqb (t_id x) p) eqn:Eid; simpl in Hex.
    - destruct (task_done x) eqn:Ed; simpl in Hex.
      + apply (Hc x (or_introl eq_refl)). unfold task_done in Ed. destruct (t_res x); [discriminate | discriminate].
      + exfalso. inversion Hnd as [|? ? Hn _]; subst. apply Hn. apply Nat.eqb_eq in Eid. rewrite Eid.
        apply existsb_exists in Hex. destruct Hex as [y [Hy Hy2]]. apply andb_true_iff in Hy2. destruct Hy2 as [Hy2 _].
        apply Nat.eqb_eq in Hy2. rewrite <- Hy2. apply in_map. exact Hy.
    - inversion Hnd; subst. apply IH; auto.
  Qed.

  (* the marker a new trigger finds is always empty: whatever ran before in that asyncio task has reset it *)
  Lemma inherited_none : forall top preds guard s e, RI s -> can_start top preds guard s e = true -> inherited_ctx preds s e = None.
  Proof.
    intros top preds guard s e [_ [Hnd [_ [_ Hctx]]]] Hcs. unfold can_start in Hcs. unfold inherited_ctx.
    destruct (pred_of preds e) as [p|]; [|reflexivity].
    apply andb_true_iff in Hcs. destruct Hcs as [Hcs _].
    apply andb_true_iff in Hcs. destruct Hcs as [_ Hex]. apply find_ctx_none; assumption.
  Qed.

  Lemma step_RI : forall top prot preds guard fuel s e, RI s -> RI (step defs mode top prot preds guard fuel s e).
  Proof.
    intros top prot preds guard fuel s e HRI. unfold step.
    destruct (s_oof s); [exact HRI|].
    destruct (can_start top preds guard s e) eqn:Hstart.
    - apply deliver_all_RI.
      rewrite (inherited_none top preds guard s e HRI Hstart).
      destruct HRI as [Hreg [Hnd [Hst [Hfin Hctx]]]].
      unfold can_start in Hstart. apply andb_true_iff in Hstart. destruct Hstart as [Hstart _].
      apply andb_true_iff in Hstart. destruct Hstart as [Hstart _].
      apply andb_true_iff in Hstart. destruct Hstart as [_ Hns]. apply negb_true_iff in Hns.
      assert (Hnew : ~ In e (s_started s)).
      { intros Hin. unfold mem in Hns. assert (existsb (Nat.eqb e) (s_started s) = true).
        { apply existsb_exists. exists e. split; [exact Hin | apply Nat.eqb_refl]. } congruence. }
      set (t0 := mkT e (e_model (edef defs e)) (mem e prot) [] None (Some e)).
      set (h0 := mkH _ _ _ (h_reg (s_sh s) ++ _) _ _ _ _).
      set (s0 := mkS (s_tasks s ++ [t0]) h0 (e :: s_started s) false).
      assert (Hts0 : s_tasks s0 = s_tasks s ++ t0 :: []) by reflexivity.
      assert (Hnd0 : NoDup (map t_id (s_tasks s0))).
      { simpl. rewrite map_app. simpl.
        clear - Hnd Hst Hnew. induction (s_tasks s) as [|x l IH]; simpl.
        - constructor; [intros []| constructor].
        - inversion Hnd; subst. constructor.
          + rewrite in_app_iff. intros [H|[H|[]]]; [contradiction|].
            apply Hnew. rewrite H. apply Hst. left. reflexivity.
          + apply IH; [assumption|]. intros t Ht. apply Hst. right. exact Ht. }
      assert (Hst0 : forall t, In t (s_tasks s0) -> In (t_id t) (s_started s0)).
      { simpl. intros t Ht. apply in_app_or in Ht. destruct Ht as [Ht|[Ht|[]]]; [right; apply Hst; exact Ht | left; subst t; reflexivity]. }
      assert (Hfin0 : forall t, In t (s_tasks s0) -> t_res t <> None -> t_stack t = []).
      { simpl. intros t Ht. apply in_app_or in Ht. destruct Ht as [Ht|[Ht|[]]]; [apply Hfin; exact Ht | subst t; reflexivity]. }
      assert (Hown0 : own_ctx t0 = true) by (unfold own_ctx; simpl; apply Nat.eqb_refl).
      assert (Hctx0 : forall t, In t (s_tasks s0) -> ctx_ok t).
      { simpl. intros t Ht. apply in_app_or in Ht. destruct Ht as [Ht|[Ht|[]]]; [apply Hctx; exact Ht|].
        subst t. split; [intros _; exact Hown0 | simpl; congruence]. }
      assert (Hreg0 : h_reg h0 = reg_of (s_tasks s0)).
      { simpl. rewrite reg_of_app, Hreg. reflexivity. }
      pose proof (call_trigger_reg e h0) as Hc.
      destruct (call_trigger defs mode e h0) as [r h1|x h1|k h1] eqn:Ect; simpl in Hc;
        (eapply (run_at_RI fuel s0 (s_tasks s) t0 []); eauto; rewrite Hc; exact Hreg0).
    - destruct HRI as [Hreg [Hnd [Hst [Hfin Hctx]]]].
      destruct (find_idx _ _) as [i|] eqn:Hfi; [|split; [|split; [|split; [|split]]]; assumption].
      destruct (find_idx_split _ _ _ Hfi) as [l1 [t0 [l2 [Hts [Hlen [Hp Hnth]]]]]].
      rewrite Hnth.
      destruct (resume _ _ _ _) as [[t1 c] h1] eqn:Er.
      destruct (resume_reg _ _ _ _ _ Er) as [Hid [Hmod [Hres [Hr Hcx]]]].
      assert (Hres0 : t_res t0 = None).
      { destruct (t_res t0) eqn:Hr0; [|reflexivity]. exfalso.
        assert (Hs0 : t_stack t0 = []).
        { apply Hfin; [rewrite Hts; apply in_or_app; right; left; reflexivity | congruence]. }
        unfold waiting_on in Hp. rewrite Hs0 in Hp. discriminate. }
      assert (Hown0 : own_ctx t0 = true).
      { apply (Hctx t0); [rewrite Hts; apply in_or_app; right; left; reflexivity | exact Hres0]. }
      apply deliver_all_RI. rewrite <- Hlen. eapply run_at_RI; eauto; try congruence.
      rewrite (own_ctx_same t0 t1 Hid Hcx). exact Hown0.
  Qed.

  Lemma schedule_RI : forall top prot preds guard fuel sched s, RI s -> RI (run_schedule defs mode top prot preds guard fuel s sched).
  Proof.
    intros top prot preds guard fuel sched. unfold run_schedule.
    induction sched as [|e r IH]; intros s H; simpl; [exact H|]. apply IH. apply step_RI. exact H.
  Qed.

  Lemma init_RI : forall inits, RI (init_state mode inits).
  Proof. intros. split; [reflexivity|]. split; [constructor|]. split; [|split]; intros t []. Qed.

  Lemma quiescent_reg_empty : forall s, RI s -> quiescent s = true -> h_reg (s_sh s) = [].
  Proof.
    intros s [Hreg _] Hq. rewrite Hreg. clear Hreg. unfold quiescent in Hq. unfold reg_of.
    induction (s_tasks s) as [|t l IH]; simpl in *; [reflexivity|].
    apply andb_true_iff in Hq. destruct Hq as [H1 H2]. unfold unfinished.
    destruct (t_res t); [apply IH; exact H2 | discriminate].
  Qed.
End Reg.

(* ------------------------------------------------------------------ reading a frame history *)
Lemma hrun_app2 : forall a b s,
  hrun s (a ++ b) = match hrun s a with Some s' => hrun s' b | None => None end.
Proof.
  induction a as [|x a IH]; intros b s; simpl; [reflexivity|].
  destruct (hstep s x); [apply IH | reflexivity].
Qed.

Lemma hrun_cancelled : forall l s s', (s = HC \/ s = HF) -> hrun s l = Some s' ->
  Forall (fun it => transition_item it = false) l /\ (s' = HC \/ s' = HF).
Proof.
  induction l as [|it l IH]; intros s s' Hs H; simpl in H.
  - inversion H; subst. split; [constructor | exact Hs].
  - destruct (hstep s it) as [s1|] eqn:E; [|discriminate].
    assert (Hit : transition_item it = false /\ (s1 = HC \/ s1 = HF)).
    { destruct Hs; subst s; simpl in E.
      - destruct it; inversion E; subst; simpl; auto.
      - destruct (fin_item it) eqn:Hf; inversion E; subst. split; [|auto].
        destruct it; simpl in *; try reflexivity; try discriminate. rewrite Hf. reflexivity. }
    destruct Hit as [H1 H2]. destruct (IH _ _ H2 H) as [H3 H4]. split; [constructor; assumption | exact H4].
Qed.

(* after its call chain was cancelled a frame emits no transition item any more *)
Lemma hist_cancel_no_transition : forall l1 it l2,
  hist_ok (l1 ++ it :: l2) -> is_cancel_mark it = true ->
  Forall (fun i => transition_item i = false) l2.
Proof.
  intros l1 it l2 H Hm. unfold hist_ok in H. rewrite hrun_app2 in H.
  destruct (hrun HB l1) as [s1|]; [|congruence]. simpl in H.
  destruct (hstep s1 it) as [s2|] eqn:E; [|congruence].
  destruct (hrun s2 l2) as [s3|] eqn:E2; [|congruence].
  assert (Hs2 : s2 = HC \/ s2 = HF).
  { destruct s1; destruct it; simpl in *; try discriminate; inversion E; auto. }
  apply (hrun_cancelled l2 s2 s3 Hs2 E2).
Qed.

(* after the finally-block has been reached only finalize items follow *)
Lemma hist_fin_only : forall l1 k x l2,
  hist_ok (l1 ++ GFin k x :: l2) -> Forall (fun i => fin_item i = true) l2.
Proof.
  intros l1 k x l2 H. unfold hist_ok in H. rewrite hrun_app2 in H.
  destruct (hrun HB l1) as [s1|]; [|congruence]. simpl in H.
  assert (E : hstep s1 (GFin k x) = Some HF) by (destruct s1; reflexivity). rewrite E in H.
  clear E. induction l2 as [|it l2 IH]; [constructor|]. simpl in H.
  destruct (fin_item it) eqn:Hf; [|congruence]. constructor; [exact Hf | apply IH; exact H].
Qed.

(* ------------------------------------------------------------------ the queue dictionary *)
Lemma qlookup_qupdate_other : forall qs k v k', k' <> k -> qlookup (qupdate qs k v) k' = qlookup qs k'.
Proof.
  induction qs as [|[k0 q0] qs IH]; intros k v k' Hne; simpl; [reflexivity|].
  destruct (Nat.eqb k k0) eqn:E; simpl.
  - apply Nat.eqb_eq in E. subst k0. destruct (Nat.eqb k' k) eqn:E2; [apply Nat.eqb_eq in E2; congruence | reflexivity].
  - destruct (Nat.eqb k' k0); [reflexivity | apply IH; exact Hne].
Qed.

Lemma qlookup_qupdate_same : forall qs k v q, qlookup qs k = Some q -> qlookup (qupdate qs k v) k = Some v.
Proof.
  induction qs as [|[k0 q0] qs IH]; intros k v q H; simpl in *; [discriminate|].
  destruct (Nat.eqb k k0) eqn:E; simpl; rewrite E; [reflexivity | eapply IH; eauto].
Qed.

Section QueueLocal.
  Variable defs : list evdef.
  Variable mode : qmode.

  Lemma new_frame_queues : forall k e h, h_queues (snd (new_frame defs k e h)) = h_queues h.
  Proof.
    intros. unfold new_frame, raise_in. destruct (existsb _ _); [reflexivity|]. simpl. reflexivity.
  Qed.

  (* a raising event clears the queue it was taken from and no other queue *)
  Lemma drain_exn_local : forall q f x rest h stk c h',
    after_frame defs (KQ q f) (CExn x) rest h = (stk, c, h') ->
    stk = rest /\
    (forall k', k' <> q -> qlookup (h_queues h') k' = qlookup (h_queues h) k') /\
    (forall l, qlookup (h_queues h) q = Some l -> qlookup (h_queues h') q = Some [] /\ c = CExn x).
  Proof.
    intros q f x rest h stk c h' E. simpl in E.
    destruct (qlookup (h_queues h) q) as [l|] eqn:Hq; inversion E; subst; simpl.
    - split; [reflexivity|]. split.
      + intros k' Hne. apply qlookup_qupdate_other. exact Hne.
      + intros l0 _. split; [eapply qlookup_qupdate_same; eauto | reflexivity].
    - split; [reflexivity|]. split; [reflexivity | intros l0 H0; discriminate].
  Qed.

  (* an event that ends normally is removed from the head of its queue; the next head, if any, is begun *)
  Lemma drain_next_local : forall q f r rest h hd nx tl stk c h',
    qlookup (h_queues h) q = Some (hd :: nx :: tl) ->
    after_frame defs (KQ q f) (CRet r) rest h = (stk, c, h') ->
    c = CRun /\ qlookup (h_queues h') q = Some (nx :: tl) /\
    exists f', stk = KQ q f' :: rest /\ f_no f' = qe_no nx /\ f_ev f' = qe_ev nx.
  Proof.
    intros q f r rest h hd nx tl stk c h' Hq E. simpl in E. rewrite Hq in E.
    destruct (new_frame _ _ _ _) as [f' h2] eqn:E2. inversion E; subst.
    split; [reflexivity|]. split.
    - change h' with (snd (f', h')). rewrite <- E2. rewrite new_frame_queues. simpl.
      eapply qlookup_qupdate_same; eauto.
    - exists f'. split; [reflexivity|]. unfold new_frame in E2.
      destruct (existsb _ _); [inversion E2; subst; auto|].
      unfold raise_in in E2. simpl in E2. inversion E2; subst. auto.
  Qed.

  Lemma drain_last_local : forall q f r rest h hd stk c h',
    qlookup (h_queues h) q = Some [hd] ->
    after_frame defs (KQ q f) (CRet r) rest h = (stk, c, h') ->
    stk = rest /\ c = CRet (RBool true) /\ qlookup (h_queues h') q = Some [].
  Proof.
    intros q f r rest h hd stk c h' Hq E. simpl in E. rewrite Hq in E. inversion E; subst.
    repeat split. simpl. eapply qlookup_qupdate_same; eauto.
  Qed.

  (* a trigger arriving while its queue is busy is appended at the end and returns True at once *)
  Lemma trigger_deferred : forall e h x q,
    mode <> QNone ->
    qlookup (h_queues h) (qkey mode (e_model (edef defs e))) = Some (x :: q) ->
    exists h', call_trigger defs mode e h = CalledRet (RBool true) h' /\
      qlookup (h_queues h') (qkey mode (e_model (edef defs e))) = Some ((x :: q) ++ [mkQE (h_next h) e]) /\
      h_next h' = S (h_next h) /\ h_mstate h' = h_mstate h /\ h_log h' = h_log h.
  Proof.
    intros e h x q Hm Hq. unfold call_trigger. destruct mode; [congruence| |]; rewrite Hq;
      (eexists; split; [reflexivity|]; simpl; repeat split; eapply qlookup_qupdate_same; eauto).
  Qed.

  (* a trigger arriving at an idle queue is processed at once by the caller, as head of the queue *)
  Lemma trigger_idle : forall e h,
    mode <> QNone ->
    qlookup (h_queues h) (qkey mode (e_model (edef defs e))) = Some [] ->
    exists f h', call_trigger defs mode e h = CalledPush (KQ (qkey mode (e_model (edef defs e))) f) h' /\
      f_no f = h_next h /\ f_ev f = e /\
      qlookup (h_queues h') (qkey mode (e_model (edef defs e))) = Some [mkQE (h_next h) e].
  Proof.
    intros e h Hm Hq. unfold call_trigger. destruct mode; [congruence| |]; rewrite Hq;
      (destruct (new_frame _ _ _ _) as [f h2] eqn:E2; exists f, h2; split; [reflexivity|];
       assert (Hqq : h_queues h2 = h_queues (snd (f, h2))) by reflexivity;
       rewrite <- E2 in Hqq; rewrite new_frame_queues in Hqq; simpl in Hqq;
       unfold new_frame in E2; destruct (existsb _ _);
       [inversion E2; subst; simpl; repeat split; auto; eapply qlookup_qupdate_same; eauto
       | unfold raise_in in E2; simpl in E2; inversion E2; subst; simpl; repeat split; auto;
         eapply qlookup_qupdate_same; eauto]).
  Qed.
End QueueLocal.

(* ------------------------------------------------------------------ cancellation, locally *)
Lemma finish_cancelled : forall t h, own_ctx t = true ->
  t_res (fst (finish t (CExn X_CANCEL) h)) = Some (RBool false) /\
  h_reg (snd (finish t (CExn X_CANCEL) h)) = remove_first (t_model t, t_id t) (h_reg h) /\
  t_ctx (fst (finish t (CExn X_CANCEL) h)) = None.
Proof. intros t h H. unfold finish. rewrite H. repeat split; reflexivity. Qed.

(* whatever the outcome — value, error, cancellation — the top-level return resets the marker and unregisters *)
Lemma finish_resets : forall t c h, own_ctx t = true ->
  t_ctx (fst (finish t c h)) = None /\
  h_reg (snd (finish t c h)) = remove_first (t_model t, t_id t) (h_reg h).
Proof. intros t c h H. unfold finish. rewrite H. split; reflexivity. Qed.

Lemma raise_in_body : forall f x h, f_fin f = false ->
  let f' := fst (raise_in f x h) in
  f_fin f' = true /\ f_exn f' = Some x /\ f_code f' = f_fincode f /\ frame_outcome f' = CExn x /\
  h_mstate (snd (raise_in f x h)) = h_mstate h.
Proof. intros f x h H. unfold raise_in. rewrite H. simpl. repeat split. Qed.

Lemma pass_step : forall defs prot t h k rest code,
  t_stack t = k :: rest -> f_cb (kframe k) = Idle -> f_code (kframe k) = IPass :: code ->
  exists t' h', micro defs prot t CRun h = (t', CRun, h', Continue) /\
    h_cancel h' = h_cancel h ++
       filter (fun u => negb (existsb (Nat.eqb u) (h_cancel h)))
              (cancel_targets (t_id t) prot (f_model (kframe k)) (h_reg h)) /\
    h_reg h' = h_reg h /\ h_mstate h' = h_mstate h /\ tl (t_stack t') = rest.
Proof.
  intros defs prot t h k rest code Hs Hcb Hc. unfold micro. rewrite Hs, Hcb, Hc.
  eexists. eexists. split; [reflexivity|]. simpl. repeat split.
Qed.

(* ------------------------------------------------------------------ packaged statements for Props/C08.v *)
Definition live_hists (s : state) : list (list item) :=
  flat_map (fun t => map (fun k => f_hist (kframe k)) (t_stack t)) (s_tasks s).
Definition done_hists (s : state) : list (list item) := map (fun d => snd (fst d)) (h_done (s_sh s)).

Lemma Inv_hists : forall n s, Inv n s ->
  Forall hist_ok (live_hists s ++ done_hists s) /\ Forall (fun x => x < n) (h_mstate (s_sh s)).
Proof.
  intros n s [Hts [Hd Hst]]. split; [|exact Hst]. apply Forall_app. split.
  - unfold live_hists. induction (s_tasks s) as [|t l IH]; simpl; [constructor|].
    inversion Hts as [|? ? Ht Hl]; subst. apply Forall_app. split; [|apply IH; exact Hl].
    destruct Ht as [Hf _]. clear - Hf. induction (t_stack t) as [|k r IH]; simpl; [constructor|].
    inversion Hf as [|? ? Hk Hr]; subst. constructor; [|apply IH; exact Hr].
    destruct Hk as [[Hh _] _]. unfold hist_ok. rewrite Hh. discriminate.
  - unfold done_hists, done_ok in *. induction (h_done (s_sh s)) as [|d l IH]; simpl; [constructor|].
    inversion Hd; subst. constructor; auto.
Qed.

Lemma all_schedules_hists : forall defs mode n top prot preds guard fuel inits sched,
  forallb (wf_def n) defs = true -> Forall (fun x => x < n) inits ->
  let s := run_schedule defs mode top prot preds guard fuel (init_state mode inits) sched in
  Forall hist_ok (live_hists s ++ done_hists s) /\ Forall (fun x => x < n) (h_mstate (s_sh s)).
Proof.
  intros defs mode n top prot preds guard fuel inits sched Hwf Hin s. apply Inv_hists.
  apply schedule_ok; [exact Hwf|]. apply init_ok. exact Hin.
Qed.

Lemma all_schedules_quiescent : forall defs mode n top prot preds guard fuel inits sched,
  forallb (wf_def n) defs = true -> Forall (fun x => x < n) inits ->
  let s := run_schedule defs mode top prot preds guard fuel (init_state mode inits) sched in
  h_reg (s_sh s) = reg_of (s_tasks s) /\
  (quiescent s = true -> h_reg (s_sh s) = [] /\ Forall (fun x => x < n) (h_mstate (s_sh s))).
Proof.
  intros defs mode n top prot preds guard fuel inits sched Hwf Hin s.
  assert (HRI : RI s) by (apply schedule_RI; apply init_RI).
  split; [apply HRI|]. intros Hq. split; [apply quiescent_reg_empty; assumption|].
  apply (all_schedules_hists defs mode n top prot preds guard fuel inits sched Hwf Hin).
Qed.

Lemma no_set_after_cancel : forall l1 it l2 k m d,
  hist_ok (l1 ++ it :: l2) -> is_cancel_mark it = true -> ~ In (GSet k m d) l2.
Proof.
  intros l1 it l2 k m d H Hm Hin. pose proof (hist_cancel_no_transition l1 it l2 H Hm) as HF.
  rewrite Forall_forall in HF. specialize (HF _ Hin). discriminate.
Qed.

(* the own-call-chain marker (current_context), for every schedule: an unfinished trigger task carries its own
   marker, a finished one — raised, cancelled or not — has reset it; so a trigger started next in the same asyncio
   task finds the marker empty and registers itself in async_tasks like any fresh task *)
Lemma all_schedules_ctx : forall defs mode top prot preds guard fuel inits sched,
  let s := run_schedule defs mode top prot preds guard fuel (init_state mode inits) sched in
  (forall t, In t (s_tasks s) -> (t_res t = None -> t_ctx t = Some (t_id t)) /\ (t_res t <> None -> t_ctx t = None)) /\
  (forall e, can_start top preds guard s e = true -> inherited_ctx preds s e = None).
Proof.
  intros defs mode top prot preds guard fuel inits sched s.
  assert (HRI : RI s) by (apply schedule_RI; apply init_RI).
  split.
  - intros t Ht. destruct HRI as [_ [_ [_ [_ Hctx]]]]. destruct (Hctx t Ht) as [H1 H2]. split; [|exact H2].
    intros Hr. specialize (H1 Hr). unfold own_ctx in H1. destruct (t_ctx t) as [x|]; [|discriminate].
    apply Nat.eqb_eq in H1. congruence.
  - intros e Hc. eapply inherited_none; eauto.
Qed.
