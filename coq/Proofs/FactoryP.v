(* FactoryP.v — proofs for C09:
   1. the reflected factory table equals the specification (computation over the 16-entry table);
   2. a simulation framework for the engine monad through an embedding of states, and with it:
      the hierarchical engine on the embedding of a flat machine = the flat engine, for EVERY
      environment (raising callbacks included), one step and whole histories;
   3. the graph mixin's _change_state wrapper and the single-threaded lock wrapper around an
      arbitrary step are the identity on trace / machine state / result; locks end free. *)
From Coq Require Import List Arith Bool Lia.
From M Require Import Base Flat FlatSpec Hsm Factory.
From G Require Import ClassMap.
Import ListNotations.

(* ------------------------------------------------------------------ the factory table *)
Lemma factory_table_ok : forall g n l y : bool,
  get_predefined class_map (g, n, l, y) = factory_spec (g, n, l, y).
Proof. intros [] [] [] []; vm_compute; reflexivity. Qed.

Lemma factory_keys_ok : class_map_extra_keys = 0 /\ map fst class_map = all_flags.
Proof. split; vm_compute; reflexivity. Qed.


(* ------------------------------------------------------------------ simulation through an embedding *)
Section Sim.
  Context {V1 V2 S1 S2 : Type}.
  Variable vm : V2 -> V1.
  Variable emb : S2 -> S1.
  Variable seen1 : S1 -> V1.
  Variable seen2 : S2 -> V2.
  Hypothesis seen_emb : forall s, seen1 (emb s) = vm (seen2 s).

  Definition rmap {A} (x : list (gitem V2) * S2 * (exn + A)) : list (gitem V1) * S1 * (exn + A) :=
    match x with (t, s, r) => (map (map_item vm) t, emb s, r) end.

  Definition simat {A} (p : nat) (s : S2) (m1 : M (V:=V1) (S:=S1) A) (m2 : M (V:=V2) (S:=S2) A) : Prop :=
    m1 p (emb s) = rmap (m2 p s).
  Definition sim {A} (m1 : M (V:=V1) (S:=S1) A) (m2 : M (V:=V2) (S:=S2) A) : Prop :=
    forall p s, simat p s m1 m2.

  Lemma sim_ret {A} (a : A) : sim (ret a) (ret a).
  Proof. intros p s. reflexivity. Qed.
  Lemma sim_raise {A} e : sim (raise (A:=A) e) (raise e).
  Proof. intros p s. reflexivity. Qed.

  Lemma simat_bind {A B} p s (m1 : M A) m2 (f1 : A -> M B) f2 :
    simat p s m1 m2 ->
    (forall t s' a, m2 p s = (t, s', inr a) -> simat (p + length t) s' (f1 a) (f2 a)) ->
    simat p s (bind m1 f1) (bind m2 f2).
  Proof.
    unfold simat, bind. intros H1 H2. rewrite H1.
    destruct (m2 p s) as [[t s'] [e|a]]; cbn [rmap]; [reflexivity|].
    rewrite map_length. rewrite (H2 t s' a eq_refl).
    destruct (f2 a (p + length t) s') as [[t2 s2] r2]. cbn [rmap]. now rewrite map_app.
  Qed.

  Lemma sim_bind {A B} (m1 : M A) m2 (f1 : A -> M B) f2 :
    sim m1 m2 -> (forall a, sim (f1 a) (f2 a)) -> sim (bind m1 f1) (bind m2 f2).
  Proof. intros H1 H2 p s. apply simat_bind; [apply H1|]. intros; apply H2. Qed.

  Lemma simat_tef {A} p s (m1 : M A) m2 h1 h2 fin1 fin2 :
    simat p s m1 m2 -> (forall e, sim (h1 e) (h2 e)) -> (forall o, sim (fin1 o) (fin2 o)) ->
    simat p s (try_except_finally m1 h1 fin1) (try_except_finally m2 h2 fin2).
  Proof.
    unfold simat, try_except_finally. intros H1 Hh Hf. rewrite H1.
    destruct (m2 p s) as [[t s'] [e|a]]; cbn [rmap]; rewrite map_length.
    - rewrite (Hh e). destruct (h2 e (p + length t) s') as [[t2 s2] r2]. cbn [rmap]. rewrite map_length.
      rewrite (Hf (Some e)). destruct (fin2 (Some e) _ s2) as [[t3 s3] r3]. cbn [rmap].
      now rewrite !map_app.
    - rewrite (Hf None). destruct (fin2 None _ s') as [[t3 s3] r3]. cbn [rmap]. now rewrite map_app.
  Qed.

  Variable ev : env.
  Variable c : ctx.

  Lemma sim_call sl err cb : sim (call seen1 ev c sl err cb) (call seen2 ev c sl err cb).
  Proof.
    intros p s. unfold simat, call. rewrite seen_emb.
    destruct (r_raise (ev cb p)); reflexivity.
  Qed.

  Lemma sim_run_cbs sl err cbs : sim (run_cbs seen1 ev c sl err cbs) (run_cbs seen2 ev c sl err cbs).
  Proof.
    induction cbs as [|cb r IH]; cbn [run_cbs]; [apply sim_ret|].
    apply sim_bind; [apply sim_call|]. intros _. exact IH.
  Qed.

  Lemma sim_eval_conds conds : sim (eval_conds seen1 ev c conds) (eval_conds seen2 ev c conds).
  Proof.
    induction conds as [|[cb tg] r IH]; cbn [eval_conds]; [apply sim_ret|].
    apply sim_bind; [apply sim_call|]. intros v. destruct (Bool.eqb v tg); [exact IH|apply sim_ret].
  Qed.
End Sim.

(* callbacks never change the state *)
Section Frame.
  Context {V S : Type}.
  Variable seen : S -> V.
  Variable ev : env.
  Variable c : ctx.
  Lemma call_state sl err cb p s t s' r : call seen ev c sl err cb p s = (t, s', r) -> s' = s.
  Proof. unfold call. destruct (r_raise (ev cb p)); intros H; inversion H; reflexivity. Qed.
  Lemma run_cbs_state sl err cbs p s t s' r : run_cbs seen ev c sl err cbs p s = (t, s', r) -> s' = s.
  Proof.
    revert p s t s' r. induction cbs as [|cb rest IH]; intros p s t s' r; cbn [run_cbs].
    - unfold ret. intros H; inversion H; reflexivity.
    - unfold bind. destruct (call seen ev c sl err cb p s) as [[t1 s1] [e|a]] eqn:E1.
      + intros H; inversion H; subst. eapply call_state; eassumption.
      + apply call_state in E1. subst s1.
        destruct (run_cbs seen ev c sl err rest (p + length t1) s) as [[t2 s2] r2] eqn:E2.
        intros H; inversion H; subst. eapply IH; eassumption.
  Qed.
  Lemma eval_conds_state conds p s t s' r : eval_conds seen ev c conds p s = (t, s', r) -> s' = s.
  Proof.
    revert p s t s' r. induction conds as [|[cb tg] rest IH]; intros p s t s' r; cbn [eval_conds].
    - unfold ret. intros H; inversion H; reflexivity.
    - unfold bind. destruct (call seen ev c _ None cb p s) as [[t1 s1] [e|a]] eqn:E1.
      + intros H; inversion H; subst. eapply call_state; eassumption.
      + apply call_state in E1. subst s1. destruct (Bool.eqb a tg).
        * destruct (eval_conds seen ev c rest (p + length t1) s) as [[t2 s2] r2] eqn:E2.
          intros H; inversion H; subst. eapply IH; eassumption.
        * unfold ret. intros H; inversion H; reflexivity.
  Qed.
End Frame.



Section HsmFlat.
  Variable mc : machine.
  Variable ev : env.
  Variable c : ctx.
  Notation hm := (embed mc).
  Notation idf := (fun s : forest => s).
  Notation ids := (fun s : state => s).

  Lemma find_child_embed_l l s :
    find_child (map (fun p => embed_sd (fst p) (snd p)) l) s =
      match lookup l s with Some sd => Some (embed_sd s sd) | None => None end.
  Proof.
    induction l as [|[k v] r IH]; cbn [map find_child lookup fst snd]; [reflexivity|].
    unfold embed_sd at 1. cbn [sd_name]. rewrite (Nat.eqb_sym k s).
    destruct (Nat.eqb_spec s k) as [->|N]; [reflexivity|exact IH].
  Qed.

  Lemma find_child_embed s :
    find_child (hm_states hm) s =
      match get_state mc s with Some sd => Some (embed_sd s sd) | None => None end.
  Proof. apply find_child_embed_l. Qed.

  Lemma defs_at_embed s :
    defs_at hm [s] = match get_state mc s with Some sd => Some (embed_sd s sd) | None => None end.
  Proof. unfold defs_at. cbn [find_def]. apply find_child_embed. Qed.

  Lemma lookup_embed_events evs e :
    lookup (embed_events evs) e =
      match lookup evs e with Some ts => Some (map embed_trans ts) | None => None end.
  Proof.
    induction evs as [|[k v] r IH]; cbn [embed_events map lookup fst snd]; [reflexivity|].
    destruct (Nat.eqb e k); [reflexivity|exact IH].
  Qed.

  Lemma path_eqb_single a s : path_eqb [a] [s] = Nat.eqb a s.
  Proof.
    unfold path_eqb. destruct (list_eq_dec Nat.eq_dec [a] [s]) as [E|N]; destruct (Nat.eqb_spec a s) as [E'|N']; try reflexivity.
    - inversion E; contradiction.
    - subst; contradiction.
  Qed.

  Lemma cands_embed ts s : cands (map embed_trans ts) [s] = map embed_trans (candidates ts s).
  Proof.
    unfold cands, candidates. induction ts as [|t r IH]; cbn [map filter]; [reflexivity|].
    cbn [embed_trans ht_src]. rewrite path_eqb_single. destruct (Nat.eqb (t_src t) s); cbn [map]; now rewrite IH.
  Qed.

  Lemma split_active_emb s d : split_active (embed_state s) [] [d] = ([], [d]).
  Proof. unfold split_active, embed_state. cbn. destruct (Nat.eqb s d); reflexivity. Qed.

  Lemma resolve_order_emb s : resolve_order (embed_state s) = [[s]].
  Proof. reflexivity. Qed.

  Lemma initial_tree_leaf fuel n sd : initial_tree fuel (embed_sd n sd) = [].
  Proof. destruct fuel; reflexivity. Qed.

  Lemma final_check_root_emb d dd : get_state mc d = Some dd ->
    final_check_root hm (embed_state d) [[d]] = if s_final dd then [[]; m_on_final mc] else [].
  Proof.
    intros Hd. unfold final_check_root, embed_state. cbn [map final_check_t app].
    rewrite defs_at_embed, Hd. unfold embed_sd. cbn [sd_final sd_onfinal existsb].
    destruct (s_final dd); [|reflexivity].
    cbn. destruct (Nat.eq_dec d d) as [E|N]; [|contradiction]. reflexivity.
  Qed.


  Lemma seen_emb : forall s : state, idf (embed_state s) = embed_state (ids s).
  Proof. reflexivity. Qed.

  Lemma hsim_run_cbs sl err cbs p s :
    run_cbs idf ev c sl err cbs p (embed_state s) = embed_result (run_cbs ids ev c sl err cbs p s).
  Proof. exact (sim_run_cbs embed_state embed_state idf ids seen_emb ev c sl err cbs p s). Qed.

  Ltac norm := cbn [embed_result app map length];
               repeat (rewrite app_nil_r || rewrite map_length || rewrite Nat.add_0_r || rewrite map_app);
               cbn [embed_result app map length].
  Ltac step :=
    rewrite hsim_run_cbs; norm;
    match goal with
    | |- context [run_cbs ids ev c ?sl0 ?err0 ?cbs0 ?p0 ?s0] =>
        let E := fresh "E" in
        destruct (run_cbs ids ev c sl0 err0 cbs0 p0 s0) as [[?t ?s'] [?e|[]]] eqn:E;
        apply run_cbs_state in E; subst; norm; [try reflexivity|]
    end.

  Lemma resolve_emb s d dd :
    resolve (embed_state s) [] [d] (embed_sd d dd) = Some (mkRes [[s]] (embed_state d) [[d]]).
  Proof.
    unfold resolve. rewrite split_active_emb. cbn [app sub hd tl].
    rewrite !initial_tree_leaf. reflexivity.
  Qed.

  Lemma change_state_embed t d p s sd dd :
    t_src t = s -> get_state mc s = Some sd -> get_state mc d = Some dd ->
    Hsm.change_state hm ev c [] [d] p (embed_state s) =
      embed_result (Flat.change_state mc ev c t d p s).
  Proof.
    intros Hsrc Hs Hd. unfold Hsm.change_state, Flat.change_state.
    rewrite Hsrc, Hs, Hd. cbn [scope_children find_def]. rewrite find_child_embed, Hd.
    unfold bind at 1. unfold get at 1. cbn [length].
    rewrite resolve_emb. cbn [r_exits r_new r_enters].
    change (final_check_root hm _ _) with (final_check_root hm (embed_state d) [[d]]).
    rewrite (final_check_root_emb d dd Hd).
    cbn [run_exits run_enters]. rewrite !defs_at_embed, Hs, Hd.
    unfold embed_sd. cbn [sd_exit sd_enter].
    rewrite Nat.add_0_r.
    unfold bind, put, ret.
    step. step.
    destruct (s_final dd); cbn [run_onfinal run_cbs]; unfold bind, ret.
    - norm. step. norm. rewrite <- ?app_assoc. reflexivity.
    - norm. reflexivity.
  Qed.

  Notation hsimat := (simat embed_state embed_state).

  Lemma execute_embed t p s sd :
    t_src t = s -> get_state mc s = Some sd -> dst_registered mc t = true ->
    hsimat p s (Hsm.execute hm ev c [] (embed_trans t)) (Flat.execute mc ev c t).
  Proof.
    intros Hsrc Hs Hd. unfold Hsm.execute, Flat.execute.
    cbn [embed_trans ht_prepare ht_conds ht_before ht_after ht_dst hm_before_sc hm_after_sc embed].
    apply simat_bind. { apply sim_run_cbs; exact seen_emb. }
    intros t1 s1 [] E1. apply run_cbs_state in E1. subst s1.
    apply simat_bind. { apply sim_eval_conds; exact seen_emb. }
    intros t2 s2 ok E2. apply eval_conds_state in E2. subst s2.
    destruct ok; [|apply sim_ret].
    apply simat_bind. { apply sim_run_cbs; exact seen_emb. }
    intros t3 s3 [] E3. apply run_cbs_state in E3. subst s3.
    apply simat_bind. { apply sim_run_cbs; exact seen_emb. }
    intros t4 s4 [] E4. apply run_cbs_state in E4. subst s4.
    apply simat_bind.
    { unfold dst_registered in Hd. destruct (t_dst t) as [d|] eqn:Ed.
      - destruct (get_state mc d) as [dd|] eqn:Gd; [|discriminate].
        exact (change_state_embed t d _ s sd dd Hsrc Hs Gd).
      - apply sim_ret. }
    intros t5 s5 [] _.
    apply sim_bind; [apply sim_run_cbs; exact seen_emb|]. intros _.
    apply sim_bind; [apply sim_run_cbs; exact seen_emb|]. intros _. apply sim_ret.
  Qed.

  Lemma bind_res {V S A B} (m : M (V:=V) (S:=S) A) (f : A -> M B) p s t s' b :
    bind m f p s = (t, s', inr b) ->
    exists t1 s1 a t2, m p s = (t1, s1, inr a) /\ f a (p + length t1) s1 = (t2, s', inr b).
  Proof.
    unfold bind. destruct (m p s) as [[t1 s1] [e|a]]; [intros H; inversion H|].
    destruct (f a (p + length t1) s1) as [[t2 s2] r2] eqn:E. intros H; inversion H; subst.
    exists t1, s1, a, t2. auto.
  Qed.

  Lemma execute_false_state t p s tr s' :
    Flat.execute mc ev c t p s = (tr, s', inr false) -> s' = s.
  Proof.
    unfold Flat.execute. intros H.
    apply bind_res in H. destruct H as (t1 & s1 & [] & t2 & E1 & H). apply run_cbs_state in E1. subst s1.
    apply bind_res in H. destruct H as (t3 & s3 & ok & t4 & E3 & H). apply eval_conds_state in E3. subst s3.
    destruct ok.
    - do 5 (apply bind_res in H; destruct H as (? & ? & ? & ? & _ & H)). inversion H.
    - inversion H. reflexivity.
  Qed.

  Lemma try_transitions_embed ts : forall p s sd, get_state mc s = Some sd ->
    Forall (fun t => t_src t = s /\ dst_registered mc t = true) ts ->
    hsimat p s (Hsm.try_transitions hm ev c [] (map embed_trans ts)) (Flat.try_transitions mc ev c ts).
  Proof.
    induction ts as [|t r IH]; intros p s sd Hs HF; cbn [map Hsm.try_transitions Flat.try_transitions].
    - apply sim_ret.
    - inversion HF as [|? ? [Hsrc Hd] HF']; subst.
      apply simat_bind. { eapply execute_embed; eauto. }
      intros t1 s1 ok E1. destruct ok; [apply sim_ret|].
      apply execute_false_state in E1. subst s1. eapply IH; eauto.
  Qed.

  Lemma candidates_forall ts s : wf_trans mc ts = true ->
    Forall (fun t => t_src t = s /\ dst_registered mc t = true) (candidates ts s).
  Proof.
    unfold wf_trans, candidates. intros W. induction ts as [|t r IH]; cbn [filter]; [constructor|].
    cbn [forallb] in W. apply andb_true_iff in W. destruct W as [W1 W2].
    destruct (Nat.eqb_spec (t_src t) s); [constructor; auto|auto].
  Qed.

  Lemma active_emb s : active (embed_state s) [s] = true.
  Proof. unfold active, embed_state. cbn. now rewrite Nat.eqb_refl. Qed.

  Lemma has_trigger_known e ts : lookup (m_events mc) e = Some ts -> has_trigger hm e = true.
  Proof. intros H. unfold has_trigger. cbn [hm_events embed]. now rewrite lookup_embed_events, H. Qed.

  Lemma body_embed e ts p s sd :
    lookup (m_events mc) e = Some ts -> get_state mc s = Some sd -> wf_trans mc ts = true ->
    hsimat p s
      (f <- get ;; r <- dispatch_f hm ev c e [] f None ;;
       match r with Some b => ret b | None => f' <- get ;; check_leaves hm e (leaves f') end)
      (checked_process mc ev c ts s sd).
  Proof.
    intros He Hs W. unfold simat. unfold bind at 1. unfold get at 1. cbn [length app].
    rewrite Nat.add_0_r. unfold embed_state. cbn [dispatch_f dispatch_t app].
    change [Node s []] with (embed_state s). cbn [scope_events hm_events embed].
    rewrite lookup_embed_events, He.
    unfold trigger_nested, bind, get, ret. cbn [length app sub]. rewrite ?Nat.add_0_r, active_emb. cbn [negb].
    unfold embed_state at 1. cbn [f_get]. rewrite Nat.eqb_refl.
    change (resolve_order [Node s []]) with [[s]]. unfold offer_loop. cbn [offer_loop_gen existsb orb app].
    rewrite !cands_embed.
    pose proof (candidates_forall ts s W) as HF.
    unfold checked_process. destruct (candidates ts s) as [|t0 r0] eqn:EC.
    - cbn [map negb]. unfold bind, ret. cbn [app length fst snd].
      change (leaves (embed_state s)) with [[s]]. cbn [check_leaves]. rewrite defs_at_embed, Hs.
      unfold embed_sd. cbn [sd_ignore hm_ignore embed]. unfold ignores.
      rewrite (has_trigger_known e ts He).
      destruct (match s_ignore sd with Some b => b | None => m_ignore mc end); reflexivity.
    - unfold process. rewrite EC.
      change (map embed_trans (t0 :: r0)) with (embed_trans t0 :: map embed_trans r0) at 1. cbv iota. cbn [negb].
      change (embed_trans t0 :: map embed_trans r0) with (map embed_trans (t0 :: r0)).
      unfold bind, get, ret. cbn [length app]. rewrite ?Nat.add_0_r, active_emb. cbn [negb hm_prepare_event embed].
      pose proof (fun p' => try_transitions_embed (t0 :: r0) p' s sd Hs HF) as HT. unfold simat in HT.
      step. rewrite HT.
      destruct (Flat.try_transitions mc ev c (t0 :: r0) (p + length t) s) as [[t2 s2] [e2|[]]];
        cbn [rmap]; norm; cbn [orb fst snd]; norm; cbn [orb fst snd]; norm; reflexivity.
  Qed.

  Lemma wf_lookup_l l e ts : forallb (fun et => wf_trans mc (snd et)) l = true ->
    lookup l e = Some ts -> wf_trans mc ts = true.
  Proof.
    induction l as [|[k v] r IH]; cbn [forallb lookup snd]; [discriminate|].
    intros W. apply andb_true_iff in W. destruct W as [W1 W2].
    destruct (Nat.eqb e k); [intros H; inversion H; subst; exact W1|auto].
  Qed.

  Lemma handler_sim x :
    sim embed_state embed_state
      (match hm_on_exception hm with
       | [] => raise x
       | hs => run_cbs idf ev c SOnException (Some x) hs ;;; ret false
       end)
      (match m_on_exception mc with
       | [] => raise x
       | hs => run_cbs ids ev c SOnException (Some x) hs ;;; ret false
       end).
  Proof.
    cbn [hm_on_exception embed]. destruct (m_on_exception mc); [apply sim_raise|].
    apply sim_bind; [apply sim_run_cbs; exact seen_emb|]. intros _. apply sim_ret.
  Qed.

  Theorem hsm_flat_step e p cur :
    wf_machine mc = true -> registered mc cur = true -> known_event mc e = true ->
    Hsm.trigger_event hm ev c e p (embed_state cur) = embed_result (Flat.trigger mc ev c e p cur).
  Proof.
    intros W R K. unfold known_event in K. destruct (lookup (m_events mc) e) as [ts|] eqn:He; [|discriminate].
    pose proof (wf_lookup_l _ _ _ W He) as Wt.
    unfold registered in R. destruct (get_state mc cur) as [sd|] eqn:Hs; [|discriminate].
    unfold Flat.trigger. rewrite He. unfold Flat.trigger_event.
    unfold bind at 1. unfold get at 1. rewrite Hs. cbn [length app]. rewrite Nat.add_0_r.
    unfold Hsm.trigger_event.
    transitivity (rmap embed_state embed_state
      (try_except_finally (checked_process mc ev c ts cur sd)
         (fun e0 => match m_on_exception mc with
                    | [] => raise e0
                    | hs => run_cbs ids ev c SOnException (Some e0) hs ;;; ret false
                    end)
         (fun err => run_cbs ids ev c SFinalize err (m_finalize mc)) p cur)).
    - apply (simat_tef embed_state embed_state p cur).
      + exact (body_embed e ts p cur sd He Hs Wt).
      + exact handler_sim.
      + intros o. cbn [hm_finalize embed]. apply sim_run_cbs. exact seen_emb.
    - destruct (try_except_finally _ _ _ p cur) as [[t s'] r]. reflexivity.
  Qed.

  Lemma unembed_embed_item it : unembed_item (embed_item it) = it.
  Proof. destruct it; reflexivity. Qed.
  Lemma unembed_embed_items t : map unembed_item (map embed_item t) = t.
  Proof. induction t as [|a r IH]; cbn [map]; [reflexivity|]. now rewrite unembed_embed_item, IH. Qed.
  Lemma unembed_embed_result {A} (x : list item * state * (exn + A)) : unembed_result (embed_result x) = x.
  Proof. destruct x as [[t s] r]. cbn [embed_result unembed_result]. now rewrite unembed_embed_items. Qed.

  Theorem hsm_flat_step_back e p cur :
    wf_machine mc = true -> registered mc cur = true -> known_event mc e = true ->
    hsm_trigger mc ev c e p cur = Flat.trigger mc ev c e p cur.
  Proof. intros W R K. unfold hsm_trigger. rewrite hsm_flat_step by assumption. apply unembed_embed_result. Qed.
End HsmFlat.


(* ------------------------------------------------------------------ registered states stay registered *)
Section Pres.
  Variable mc : machine.
  Variable ev : env.
  Variable c : ctx.
  Notation ids := (fun s : state => s).

  Definition pres {A} (m : M (V:=state) (S:=state) A) : Prop :=
    forall p s, registered mc s = true -> registered mc (snd (fst (m p s))) = true.

  Lemma pres_ret {A} (a : A) : pres (ret a). Proof. intros p s R. exact R. Qed.
  Lemma pres_raise {A} e : pres (raise (A:=A) e). Proof. intros p s R. exact R. Qed.
  Lemma pres_bind {A B} (m : M A) (f : A -> M B) : pres m -> (forall a, pres (f a)) -> pres (bind m f).
  Proof.
    intros H1 H2 p s R. unfold bind. specialize (H1 p s R).
    destruct (m p s) as [[t s1] [e|a]]; cbn [fst snd] in *; [exact H1|].
    specialize (H2 a (p + length t) s1 H1). destruct (f a (p + length t) s1) as [[t2 s2] r2]. exact H2.
  Qed.
  Lemma pres_frame {A} (m : M A) : (forall p s t s' r, m p s = (t, s', r) -> s' = s) -> pres m.
  Proof. intros H p s R. destruct (m p s) as [[t s'] r] eqn:E. apply H in E. subst. exact R. Qed.
  Lemma pres_run_cbs sl err cbs : pres (run_cbs ids ev c sl err cbs).
  Proof. apply pres_frame. intros; eapply run_cbs_state; eauto. Qed.
  Lemma pres_eval_conds cs : pres (eval_conds ids ev c cs).
  Proof. apply pres_frame. intros; eapply eval_conds_state; eauto. Qed.
  Lemma pres_tef {A} (m : M A) h fin : pres m -> (forall e, pres (h e)) -> (forall o, pres (fin o)) ->
    pres (try_except_finally m h fin).
  Proof.
    intros H1 Hh Hf p s R. unfold try_except_finally. specialize (H1 p s R).
    destruct (m p s) as [[t s1] [e|a]]; cbn [fst snd] in *.
    - specialize (Hh e (p + length t) s1 H1). destruct (h e (p + length t) s1) as [[t2 s2] r2]. cbn [fst snd] in *.
      specialize (Hf (Some e) (p + length t + length t2) s2 Hh).
      destruct (fin (Some e) (p + length t + length t2) s2) as [[t3 s3] r3]. exact Hf.
    - specialize (Hf None (p + length t) s1 H1). destruct (fin None (p + length t) s1) as [[t3 s3] r3]. exact Hf.
  Qed.

  Lemma pres_change_state t d : pres (Flat.change_state mc ev c t d).
  Proof.
    unfold Flat.change_state. destruct (get_state mc (t_src t)) as [sd0|]; [|apply pres_raise].
    apply pres_bind; [apply pres_run_cbs|]. intros _.
    destruct (get_state mc d) as [dd|] eqn:Gd; [|apply pres_raise].
    apply pres_bind. { intros p s _. cbn. unfold registered. now rewrite Gd. }
    intros _. apply pres_bind; [apply pres_run_cbs|]. intros _.
    destruct (s_final dd); [apply pres_run_cbs|apply pres_ret].
  Qed.

  Lemma pres_execute t : pres (Flat.execute mc ev c t).
  Proof.
    unfold Flat.execute. apply pres_bind; [apply pres_run_cbs|]. intros _.
    apply pres_bind; [apply pres_eval_conds|]. intros [|]; [|apply pres_ret].
    apply pres_bind; [apply pres_run_cbs|]. intros _.
    apply pres_bind; [apply pres_run_cbs|]. intros _.
    apply pres_bind; [destruct (t_dst t); [apply pres_change_state|apply pres_ret]|]. intros _.
    apply pres_bind; [apply pres_run_cbs|]. intros _.
    apply pres_bind; [apply pres_run_cbs|]. intros _. apply pres_ret.
  Qed.

  Lemma pres_try ts : pres (Flat.try_transitions mc ev c ts).
  Proof.
    induction ts as [|t r IH]; cbn [Flat.try_transitions]; [apply pres_ret|].
    apply pres_bind; [apply pres_execute|]. intros [|]; [apply pres_ret|exact IH].
  Qed.

  Lemma pres_trigger e : pres (Flat.trigger mc ev c e).
  Proof.
    unfold Flat.trigger. destruct (lookup (m_events mc) e) as [ts|].
    - unfold Flat.trigger_event. apply pres_bind; [apply pres_frame; unfold get; intros; congruence|].
      intros cur. destruct (get_state mc cur) as [sd|]; [|apply pres_raise].
      apply pres_tef.
      + unfold checked_process. destruct (candidates ts cur).
        * destruct (ignores mc sd); [apply pres_ret|apply pres_raise].
        * unfold process. apply pres_bind; [apply pres_run_cbs|]. intros _. apply pres_try.
      + intros x. destruct (m_on_exception mc); [apply pres_raise|].
        apply pres_bind; [apply pres_run_cbs|]. intros _. apply pres_ret.
      + intros o. apply pres_run_cbs.
    - apply pres_bind; [apply pres_frame; unfold get; intros; congruence|].
      intros cur. destruct (get_state mc cur) as [sd|]; [|apply pres_raise].
      destruct (ignores mc sd); [apply pres_ret|apply pres_raise].
  Qed.
End Pres.

(* ------------------------------------------------------------------ whole histories *)
Definition embed_steps (l : list (list item * (exn + bool))) : list (list (gitem forest) * (exn + bool)) :=
  map (fun x => (map embed_item (fst x), snd x)) l.

Theorem hsm_flat_history mc ev : wf_machine mc = true ->
  forall (h : list (ctx * event)) p cur,
    registered mc cur = true ->
    forallb (fun ce => known_event mc (snd ce)) h = true ->
    run_events (fun c e => Hsm.trigger_event (embed mc) ev c e) h p (embed_state cur) =
      (embed_steps (fst (run_events (fun c e => Flat.trigger mc ev c e) h p cur)),
       embed_state (snd (run_events (fun c e => Flat.trigger mc ev c e) h p cur))).
Proof.
  intros W h. induction h as [|[c e] rest IH]; intros p cur R K; cbn [run_events]; [reflexivity|].
  cbn [forallb snd] in K. apply andb_true_iff in K. destruct K as [K1 K2].
  rewrite (hsm_flat_step mc ev c e p cur W R K1).
  pose proof (pres_trigger mc ev c e p cur R) as R'.
  destruct (Flat.trigger mc ev c e p cur) as [[t s'] r]. cbn [fst snd embed_result] in *.
  rewrite map_length. rewrite (IH (p + length t) s' R' K2).
  destruct (run_events _ rest (p + length t) s') as [l s'']. reflexivity.
Qed.

(* ------------------------------------------------------------------ the mixin wrappers *)
Section WrapP.
  Context {V St : Type}.

  (* the graph mixin's _change_state around an ARBITRARY inner step: same trace, same machine state,
     same result — for every styling state and every inner step *)
  Lemma graph_change_state_id {A} (seen : St -> V) (src dst : state) (inner : M (V:=V) (S:=St) A) p s g :
    forget (graph_change_state seen src dst inner p (s, g)) = inner p s.
  Proof.
    unfold graph_change_state, bind, modify_ext, lift, ret, forget. cbn [fst snd length app].
    rewrite !Nat.add_0_r. destruct (inner p s) as [[t s'] [e|a]]; cbn [fst snd length app]; [reflexivity|].
    now rewrite app_nil_r.
  Qed.

  Lemma map_pred_S l : map pred (map S l) = l.
  Proof. induction l as [|a r IH]; cbn [map]; [reflexivity|]. now rewrite IH. Qed.

  (* single-threaded lock wrapper, called with every lock free: same trace / state / result as the
     inner step and every lock free again afterwards, whether the step returns or raises *)
  Lemma locked_call_id {A} (me : nat) (inner : M (V:=V) (S:=St) A) p s lk :
    me <> 0 -> lock_free lk = true ->
    locked_call me inner p (s, lk) =
      match inner p s with (t, s', r) => (t, (s', lk), r) end.
  Proof.
    intros Hme Hf. unfold lock_free in Hf. apply andb_true_iff in Hf. destruct Hf as [Hc Hi].
    apply Nat.eqb_eq in Hi. unfold locked_call. cbn [snd]. rewrite Hi.
    destruct (Nat.eqb_spec 0 me) as [E|_]; [congruence|].
    unfold finally_, bind, modify_ext, lift, enter_all, exit_all. cbn [fst snd length app lk_counts lk_ident].
    rewrite !Nat.add_0_r. destruct (inner p s) as [[t s'] r]. cbn [fst snd lk_counts].
    rewrite map_pred_S, app_nil_r. destruct lk as [cs i]. cbn [lk_counts lk_ident] in *. subst i. reflexivity.
  Qed.

  (* re-entrant call from the thread that holds the locks (a callback calling a machine method):
     the wrapper is the inner step and does not touch the locks *)
  Lemma locked_call_reentrant {A} (me : nat) (inner : M (V:=V) (S:=St) A) p s lk :
    lk_ident lk = me ->
    locked_call me inner p (s, lk) =
      match inner p s with (t, s', r) => (t, (s', lk), r) end.
  Proof. intros H. unfold locked_call. cbn [snd]. rewrite H, Nat.eqb_refl. reflexivity. Qed.
End WrapP.
